/-
  C17 (round 5): `bintest` without segments (Model/StatsExt5.lean, op `bintest_noseg`): which bins are tested, what
  their residual is, how the rows are selected.  The second half of the property ("adjusted by Benjamini–Hochberg
  exactly, returns exactly the bins whose adjusted p is below alpha, on-target only when asked") holds in this mode as
  it does with segments; the residual is taken from the chromosome's median, there being no segment mean.
-/
import CnvVerif.Props.C17
import CnvVerif.Props.C17BintestOpts
import CnvVerif.Model.StatsExt5
namespace CnvVerif.C17
open CnvVerif CnvVerif.Stats

/-- without `target_only` every bin of the table is tested, once, in table order -/
theorem noseg_every_bin_tested (bins : List Bin) : (nosegTested bins false).map (·.1) = bins := by
  simp [nosegTested, nosegRows, Function.comp_def]

/-- the residual of a tested bin is its log2 minus the median log2 of the bins on its chromosome -/
theorem noseg_residual_is_from_chromosome_median (bins : List Bin) (t : Bool) (b : Bin) (r : Rat)
    (h : (b, r) ∈ nosegTested bins t) :
    b ∈ bins ∧ r = b.log2 - median ((bins.filter (fun x => x.row.chrom == b.row.chrom)).map (·.log2)) := by
  have hr : (b, r) ∈ nosegRows bins := by
    unfold nosegTested at h
    split at h
    · exact (List.mem_filter.mp h).1
    · exact h
  unfold nosegRows at hr
  obtain ⟨x, hx, he⟩ := List.mem_map.mp hr
  have h1 : x = b := congrArg Prod.fst he
  have h2 := congrArg Prod.snd he
  subst h1
  exact ⟨hx, h2.symm⟩

/-- with `target_only` the tested bins are exactly the bins without an off-target name, in table order; the residuals
    (hence the medians) are still taken over ALL bins of the chromosome, off-target ones included -/
theorem noseg_target_only_tests_on_target_bins (bins : List Bin) :
    (nosegTested bins true).map (·.1) = bins.filter (fun b => !Generated.ANTITARGET_ALIASES.contains b.gene) := by
  simp only [nosegTested, if_true, nosegRows, List.filter_map, List.map_map]
  have : (Prod.fst ∘ fun (b : Bin) => (b, b.log2 - median (nosegChromLog2 bins b.row.chrom))) = id := by
    funext b; rfl
  rw [this, List.map_id]
  rfl

theorem nosegAll_eq_len (tail : Rat → Rat) (bins : List Bin) (t : Bool) :
    (padjustBH ((nosegTested bins t).map (fun r => pRaw tail r.2 r.1.weight))).length = (nosegTested bins t).length := by
  rw [padjustBH_length, List.length_map]

/-- the adjusted p-values are Benjamini–Hochberg of the raw two-sided tails over the tested bins, in row order -/
theorem noseg_adjusted_by_bh (tail : Rat → Rat) (bins : List Bin) (t : Bool) :
    (nosegAll tail bins t).map (·.q) = padjustBH ((nosegTested bins t).map (fun r => pRaw tail r.2 r.1.weight)) := by
  unfold nosegAll
  simp only [List.map_map]
  have : ((fun (h : Hit) => h.q) ∘ fun (x : (Bin × Rat) × Rat) =>
      ({ bin := x.1.1, resid := x.1.2, q := x.2 } : Hit)) = fun x => x.2 := by
    funext x; rfl
  rw [this]
  apply zip_map_snd_of_le
  rw [nosegAll_eq_len]

/-- every row of the result pairs a tested bin with ITS residual -/
theorem noseg_rows_are_tested_rows (tail : Rat → Rat) (bins : List Bin) (t : Bool) :
    (nosegAll tail bins t).map (fun h => (h.bin, h.resid)) = nosegTested bins t := by
  unfold nosegAll
  simp only [List.map_map]
  have : ((fun (h : Hit) => (h.bin, h.resid)) ∘ fun (x : (Bin × Rat) × Rat) =>
      ({ bin := x.1.1, resid := x.1.2, q := x.2 } : Hit)) = fun x => x.1 := by
    funext x; rfl
  rw [this]
  apply zip_map_fst_of_le
  rw [nosegAll_eq_len]

/-- it returns exactly the tested bins whose adjusted p is below alpha, in table order -/
theorem noseg_selects_below_alpha (tail : Rat → Rat) (bins : List Bin) (alpha : Rat) (t : Bool) (h : Hit) :
    h ∈ nosegBintest tail bins alpha t ↔ h ∈ nosegAll tail bins t ∧ h.q < alpha := by
  unfold nosegBintest
  rw [List.mem_filter]
  simp

theorem noseg_hits_in_table_order (tail : Rat → Rat) (bins : List Bin) (alpha : Rat) (t : Bool) :
    (nosegBintest tail bins alpha t).Sublist (nosegAll tail bins t) := List.filter_sublist

/-- on-target only when asked -/
theorem noseg_target_only_drops_antitargets (tail : Rat → Rat) (bins : List Bin) (alpha : Rat) (h : Hit)
    (hh : h ∈ nosegBintest tail bins alpha true) : h.bin.gene ∉ Generated.ANTITARGET_ALIASES := by
  have hm : (h.bin, h.resid) ∈ nosegTested bins true := by
    rw [← noseg_rows_are_tested_rows tail]
    exact List.mem_map_of_mem ((noseg_selects_below_alpha tail bins alpha true h).mp hh).1
  unfold nosegTested at hm
  simp only [if_true, List.mem_filter] at hm
  intro hcon
  have := hm.2
  simp [hcon] at this

/-- a chromosome with a single bin: its residual is 0, so its raw p is `tail 0` (= 1) whatever its log2 -/
theorem noseg_single_bin_chromosome (bins : List Bin) (b : Bin) (r : Rat) (t : Bool)
    (h : (b, r) ∈ nosegTested bins t) (h1 : bins.filter (fun x => x.row.chrom == b.row.chrom) = [b]) : r = 0 := by
  rw [(noseg_residual_is_from_chromosome_median bins t b r h).2, h1]
  simp [median, medianSorted, sortR]

def exNoSeg : List Bin :=
  [⟨⟨"chr1", 0, 100, "0"⟩, "G1", 1, 1/2, none⟩, ⟨⟨"chr1", 100, 200, "1"⟩, "Antitarget", 3, 1/2, none⟩,
   ⟨⟨"chr1", 200, 300, "2"⟩, "G1", 7, 1/2, none⟩, ⟨⟨"chr2", 10, 60, "3"⟩, "G2", -1, 1/4, none⟩]

example : (nosegTested exNoSeg true).map (·.1.gene) = ["G1", "G1", "G2"] := by decide +kernel
example : exNoSeg.filter (fun x => x.row.chrom == "chr2") = [⟨⟨"chr2", 10, 60, "3"⟩, "G2", -1, 1/4, none⟩] := by
  decide +kernel

end CnvVerif.C17
