/-
  C08 (round 4) — "numbers equal to 6 significant digits, and writing that result again produces identical
  bytes", at the level of the CHARACTERS in the file.
  `fmt6g` (Model/FormatsExt.lean) is the spelling of `float_format='%.6g'` (fixed / scientific notation,
  stripped zeros, two-digit exponent), compared byte for byte with the real writer on every run;
  `parseDec` is the number parser of the model's tab reader.  Proofs: Lemmas/FormatsSpell.lean, FormatsTabF.lean.
-/
import CnvVerif.Lemmas.FormatsTabF
namespace CnvVerif.C08
open CnvVerif CnvVerif.Fmt CnvVerif.Generated

/-! ### one number -/

/-- the characters `%.6g` prints for ANY finite value are read back to exactly its 6-significant-digit rounding -/
theorem sixg_spelling_reads_back (q : Rat) : parseDec (fmt6g q).toList = some (sixg q) := parseDec_fmt6g q

/-- … for any number of significant digits `p ≥ 1` (the model is not tuned to 6) -/
theorem spelling_reads_back_any_precision (p : Nat) (hp : 1 ≤ p) (q : Rat) :
    parseDec (fmtG p q).toList = some (sigRound p q) := by
  unfold fmtG; rw [String.toList_ofList]; exact parseDec_fmtGL p hp q

/-- write → read → write: the value read back is printed with the very same characters -/
theorem float_cell_write_read_write (q : Rat) :
    ∃ v, parseDec (fmt6g q).toList = some v ∧ fmt6g v = fmt6g q :=
  ⟨sixg q, parseDec_fmt6g q, fmt6g_sixg q⟩

/-- which values survive exactly: those that are their own 6-digit rounding — in particular every decimal with
    at most 6 significant digits (`sixg_fixes_six_digit_decimals`) -/
theorem float_survives_iff (q : Rat) : parseDec (fmt6g q).toList = some q ↔ sixg q = q := by
  rw [parseDec_fmt6g]; exact ⟨fun h => Option.some.inj h, fun h => by rw [h]⟩

/-- a printed float is never mistaken for a missing value -/
theorem float_spelling_is_not_na (q : Rat) : isNA (fmt6g q) = false := fmt6g_not_na q

/-- when the characters form an integer literal (pandas then infers int64 for a column of them) they are the
    canonical decimal of an integer equal to the rounded value: same value, same bytes on the next write -/
theorem float_spelled_as_integer (q : Rat) (h : isIntLit (fmt6g q).toList = true) :
    ∃ i : Int, fmt6g q = toString i ∧ parseInt (fmt6g q) = some i ∧ (i : Rat) = sixg q := fmt6g_int q h

/-! ### whole .cnn / .cnr / .cns files with float, integer and text columns -/

/-- write-then-read of a tab file: same names, same coordinates, every cell as `colBack` says (floats rounded to 6
    significant digits, other cells identical), rows sorted -/
theorem tab_with_floats_write_read (t : FTab) (h : WFTabF t) (sel : SampleSel) :
    readFmt "tab" false sel (renderLinesF (writeTab t)) =
      .ok { names := t.names, rows := sortF (t.rows.map (backRow t)) } := tabF_roundtrip t h sel

/-- what comes back, cell by cell: a float cell has the value `sixg q` (whether pandas typed the column int64 or
    float64); any other cell is identical -/
theorem tab_cell_read_back (rows : List FRow) (k : Nat) (r : FRow) (hr : r ∈ rows) :
    (∀ q, r.cols.getD k .na = Cell.flt q → cellVal (colBack rows k (Cell.flt q)) = some (sixg q)) ∧
    (∀ c, r.cols.getD k .na = c → (∀ q, c ≠ Cell.flt q) → colBack rows k c = c) := colBack_value rows k r hr

/-- coordinates and row count are untouched by the trip -/
theorem tab_with_floats_coordinates (t : FTab) :
    (t.rows.map (backRow t)).map (fun r => (r.chrom, r.s, r.e)) = t.rows.map (fun r => (r.chrom, r.s, r.e)) := by
  rw [List.map_map]; rfl

/-- writing the result again: same header, the same body lines (stably re-ordered by chromosome, start, end), and
    byte-identical files when the table was already sorted -/
theorem tab_with_floats_second_write (t : FTab) (h : WFTabF t) (sel : SampleSel) :
    ∃ t1, readFmt "tab" false sel (renderLinesF (writeTab t)) = .ok t1 ∧
      (renderLinesF (writeTab t1)).head? = (renderLinesF (writeTab t)).head? ∧
      ((renderLinesF (writeTab t1)).tail).Perm ((renderLinesF (writeTab t)).tail) ∧
      (SortedRows t.rows → renderLinesF (writeTab t1) = renderLinesF (writeTab t)) := tabF_second_write t h sel

/-! ### non-vacuity -/

example : fmt6g (1234567 / 10) = "123457" ∧ fmt6g (1 / 3) = "0.333333" ∧ fmt6g 1000000 = "1e+06" ∧
    fmt6g (-(1 / 80000)) = "-1.25e-05" ∧ fmt6g (9999995 / 10) = "1e+06" ∧ fmt6g (1 / 10000) = "0.0001" := by
  decide +kernel

/-- a .cnr-like table with a text, a float (with NaN), an all-integral float and an integer column meets `WFTabF` -/
example : WFTabF { names := ["depth", "gene", "log2", "probes", "weight"],
                   rows := [⟨"chr2", 100, 200, [.flt 3, .str "NA", .flt (1 / 3), .int 7, .na]⟩,
                            ⟨"chr1", 10, 20, [.flt 12, .str "A,B", .flt (-5 / 2), .int 0, .flt (1 / 7)]⟩] } := by
  refine ⟨by decide, by decide, by decide, by decide, ?_⟩
  intro j hj
  have hj' : j = 0 ∨ j = 1 ∨ j = 2 ∨ j = 3 ∨ j = 4 := by simp at hj; omega
  rcases hj' with rfl | rfl | rfl | rfl | rfl
  · right; right
    refine ⟨by decide, ?_⟩
    intro r hr; simp at hr
    rcases hr with rfl | rfl <;> exact Or.inl ⟨_, rfl⟩
  · right; left
    intro r hr; simp at hr
    rcases hr with rfl | rfl <;> exact ⟨_, rfl, Or.inr rfl⟩
  · right; right
    refine ⟨by decide, ?_⟩
    intro r hr; simp at hr
    rcases hr with rfl | rfl <;> exact Or.inl ⟨_, rfl⟩
  · left
    refine ⟨by decide, ?_⟩
    intro r hr; simp at hr
    rcases hr with rfl | rfl <;> exact ⟨_, rfl⟩
  · right; right
    refine ⟨by decide, ?_⟩
    intro r hr; simp at hr
    rcases hr with rfl | rfl
    · exact Or.inr ⟨rfl, by decide⟩
    · exact Or.inl ⟨_, rfl⟩

end CnvVerif.C08
