/-
  C06: tie to the source TEXT (subtract: the edge tests and the keep-test of `_subtraction`).
  The definitions `Generated.src_*` of Generated/ExprsInterval.lean are re-translated from /repo's Python on every run
  (harness/exprtrans.py, "pieces"; harness/extractors/exprs_interval.py names the pieces and the column expressions read
  elementwise).  These theorems state that the hand-written model functions are built from exactly those pieces.
  One module per source function so that an edit breaks exactly the obligations about that function.
-/
import CnvVerif.Props.C06
import CnvVerif.Lemmas.SrcIntervalSubtract
namespace CnvVerif.C06
open CnvVerif CnvVerif.Generated

/-! ### subtract: `_subtraction` -/

/-- the four edge cases of the model are selected by the source's `keep_left` / `keep_right` tests on the FIRST excluded
    start and the LAST excluded end, and a (start, end) pair is kept by the source's test `end > start` -/
theorem subtract_edge_tests_are_the_source (k f : Row) (t : List Row) :
    subtractRow k (f :: t) =
      (let ex := f :: t
       let l := ex.getLast?.getD f
       let keepLeft := src_subtract_keep_left k.s f.s
       let keepRight := src_subtract_keep_right k.e l.e
       let exS := ex.map (·.s)
       let exE := ex.map (·.e)
       let pairs : List (Int × Int) :=
         if keepLeft && keepRight then (k.s :: exE).zip (exS ++ [k.e])
         else if keepLeft then (k.s :: exE.dropLast).zip exS
         else if keepRight then exE.zip (exS.drop 1 ++ [k.e])
         else if ex.length > 1 then exE.dropLast.zip (exS.drop 1)
         else []
       (pairs.filter (fun p => src_subtract_keep_piece p.1 p.2)).map (fun p => { k with s := p.1, e := p.2 })) :=
  Src.subtractRow_src k f t

example : src_subtract_keep_left 0 10 = true ∧ src_subtract_keep_right 100 100 = false ∧ src_subtract_keep_piece 5 5 = false := by
  decide

end CnvVerif.C06
