/-
  C11: tie to the source TEXT.  `Generated.src_haarconv_*` are re-translated from ONE iteration of the
  `for k in range(1, signalSize)` loop of `cnvlib/segmentation/haar.py:HaarConv` on every run (harness/exprtrans.py,
  loop-body reading).  Kept in a module of their own so that an edit to one of these formulas breaks exactly these
  obligations (the initial HMM has its own module, Props/C11Hmm.lean).
-/
import CnvVerif.Props.C11W
import CnvVerif.Lemmas.SrcHaar
namespace CnvVerif.C11
open CnvVerif CnvVerif.Haar

/-! ### HaarConv: index arithmetic and updates -/

/-- the model's window-edge indices ARE the source's `highEnd` / `lowEnd` (with their mirror rules at both ends),
for every position `1 <= k < n` and half-window `h <= n` -/
theorem haarconv_indices_are_the_source (n h k : Nat) (hk : 1 ≤ k) (hkn : k < n) (hh : h ≤ n) :
    (hiIdx n h k : Int) = Generated.src_haarconv_highEnd (k : Int) (n : Int) (h : Int) ∧
    (loIdx h k : Int) = Generated.src_haarconv_lowEnd (k : Int) (h : Int) :=
  ⟨Src.hiIdx_is_source n h k hk hkn hh, Src.loIdx_is_source h k⟩

/-- the unweighted loop of the model stores, at every step, the source's expression for `result[k]` -/
theorem haarconv_unweighted_update_is_the_source (a : Array Rat) (n h fuel k : Nat) (prev : Rat) :
    haarRawGo a n h (fuel + 1) k prev
      = Generated.src_haarconv_result_unweighted prev (nth a (hiIdx n h k)) (nth a (k - 1)) (nth a (loIdx h k)) ::
        haarRawGo a n h fuel (k + 1)
          (Generated.src_haarconv_result_unweighted prev (nth a (hiIdx n h k)) (nth a (k - 1)) (nth a (loIdx h k))) := by
  rw [Src.haarRawGo_runs_rawUpdate, Src.rawUpdate_is_source]

/-- the four running sums of the weighted branch and the value it stores are the source's expressions -/
theorem haarconv_weighted_update_is_the_source (fac : Rat) (acc : WAcc) (sLo wLo sHi wHi sK wK : Rat) :
    (wStep acc sLo wLo sHi wHi sK wK).lowN = Generated.src_haarconv_lowNonNormed acc.lowN sK sLo wK wLo ∧
    (wStep acc sLo wLo sHi wHi sK wK).highN = Generated.src_haarconv_highNonNormed acc.highN sHi sK wHi wK ∧
    (wStep acc sLo wLo sHi wHi sK wK).lowW = Generated.src_haarconv_lowWeightSum acc.lowW wK wLo ∧
    (wStep acc sLo wLo sHi wHi sK wK).highW = Generated.src_haarconv_highWeightSum acc.highW wHi wK ∧
    wValue fac (wStep acc sLo wLo sHi wHi sK wK)
      = Generated.src_haarconv_result_weighted acc.highN acc.highW acc.lowN acc.lowW sHi sK sLo fac wHi wK wLo := by
  obtain ⟨a, b, c, d⟩ := Src.wStep_is_source acc sLo wLo sHi wHi sK wK
  exact ⟨a, b, c, d, Src.wValue_is_source fac acc sLo wLo sHi wHi sK wK⟩

/-- ... and the weighted loop of the model runs exactly that step (`wStep`, zero-sum guard, `wValue`) -/
theorem haarconv_weighted_loop_runs_the_step (s w : Array Rat) (n h : Nat) (fac : Rat) (fuel k : Nat) (acc : WAcc) :
    haarWGo s w n h fac (fuel + 1) k acc
      = (let acc' := wStep acc (nth s (loIdx h k)) (nth w (loIdx h k)) (nth s (hiIdx n h k)) (nth w (hiIdx n h k))
                      (nth s (k - 1)) (nth w (k - 1))
         if acc'.lowW = 0 ∨ acc'.highW = 0 then none else
         match haarWGo s w n h fac fuel (k + 1) acc' with
         | none => none
         | some rest => some (wValue fac acc' :: rest)) :=
  Src.haarWGo_runs_wStep s w n h fac fuel k acc

/-! ### non-vacuity -/

example : Generated.src_haarconv_highEnd 3 10 4 = 6 ∧ Generated.src_haarconv_highEnd 8 10 4 = 8 ∧
    Generated.src_haarconv_lowEnd 3 4 = 1 ∧ Generated.src_haarconv_lowEnd 8 4 = 3 := by decide
example : hiIdx 10 4 8 = 8 ∧ loIdx 4 3 = 1 := by decide

end CnvVerif.C11
