/-
  C11: tie to the source TEXT.  `Generated.src_haarconv_*` are re-translated from ONE iteration of the
  `for k in range(1, signalSize)` loop of `cnvlib/segmentation/haar.py:HaarConv` on every run (harness/exprtrans.py,
  loop-body reading); `Generated.HMM_START_* / HMM_TRANS_*` are the exact values of the expressions `hmm_get_model`
  hands to pomegranate.  Kept in a module of their own so that an edit to one of these formulas breaks exactly these
  obligations.
-/
import CnvVerif.Props.C11W
import CnvVerif.Lemmas.SrcHaar
import CnvVerif.Generated.HmmConsts
namespace CnvVerif.C11
open CnvVerif CnvVerif.Haar

/-! ### HaarConv: index arithmetic and updates -/

/-- the model's window-edge indices ARE the source's `highEnd` / `lowEnd` (with their mirror rules at both ends),
for every position `1 <= k < n` and half-window `h <= n` -/
theorem haarconv_indices_are_the_source (n h k : Nat) (hk : 1 ≤ k) (hkn : k < n) (hh : h ≤ n) :
    (hiIdx n h k : Int) = Generated.src_haarconv_highEnd (k : Int) (n : Int) (h : Int) ∧
    (loIdx h k : Int) = Generated.src_haarconv_lowEnd (k : Int) (h : Int) :=
  ⟨Src.hiIdx_is_source n h k hk hkn hh, Src.loIdx_is_source h k⟩

/-- the unweighted loop of the model stores, at every step, the source's expression for `result[k]` -/
theorem haarconv_unweighted_update_is_the_source (a : Array Rat) (n h fuel k : Nat) (prev : Rat) :
    haarRawGo a n h (fuel + 1) k prev
      = Generated.src_haarconv_result_unweighted prev (nth a (hiIdx n h k)) (nth a (k - 1)) (nth a (loIdx h k)) ::
        haarRawGo a n h fuel (k + 1)
          (Generated.src_haarconv_result_unweighted prev (nth a (hiIdx n h k)) (nth a (k - 1)) (nth a (loIdx h k))) := by
  rw [Src.haarRawGo_runs_rawUpdate, Src.rawUpdate_is_source]

/-- the four running sums of the weighted branch and the value it stores are the source's expressions -/
theorem haarconv_weighted_update_is_the_source (fac : Rat) (acc : WAcc) (sLo wLo sHi wHi sK wK : Rat) :
    (wStep acc sLo wLo sHi wHi sK wK).lowN = Generated.src_haarconv_lowNonNormed acc.lowN sK sLo wK wLo ∧
    (wStep acc sLo wLo sHi wHi sK wK).highN = Generated.src_haarconv_highNonNormed acc.highN sHi sK wHi wK ∧
    (wStep acc sLo wLo sHi wHi sK wK).lowW = Generated.src_haarconv_lowWeightSum acc.lowW wK wLo ∧
    (wStep acc sLo wLo sHi wHi sK wK).highW = Generated.src_haarconv_highWeightSum acc.highW wHi wK ∧
    wValue fac (wStep acc sLo wLo sHi wHi sK wK)
      = Generated.src_haarconv_result_weighted acc.highN acc.highW acc.lowN acc.lowW sHi sK sLo fac wHi wK wLo := by
  obtain ⟨a, b, c, d⟩ := Src.wStep_is_source acc sLo wLo sHi wHi sK wK
  exact ⟨a, b, c, d, Src.wValue_is_source fac acc sLo wLo sHi wHi sK wK⟩

/-- ... and the weighted loop of the model runs exactly that step (`wStep`, zero-sum guard, `wValue`) -/
theorem haarconv_weighted_loop_runs_the_step (s w : Array Rat) (n h : Nat) (fac : Rat) (fuel k : Nat) (acc : WAcc) :
    haarWGo s w n h fac (fuel + 1) k acc
      = (let acc' := wStep acc (nth s (loIdx h k)) (nth w (loIdx h k)) (nth s (hiIdx n h k)) (nth w (hiIdx n h k))
                      (nth s (k - 1)) (nth w (k - 1))
         if acc'.lowW = 0 ∨ acc'.highW = 0 then none else
         match haarWGo s w n h fac fuel (k + 1) acc' with
         | none => none
         | some rest => some (wValue fac acc' :: rest)) :=
  Src.haarWGo_runs_wStep s w n h fac fuel k acc

/-! ### the initial HMM of `hmm_get_model` -/

/-- what `from_matrix` receives, and in which position -/
theorem hmm_from_matrix_arguments :
    Generated.HMM_FROM_MATRIX_ARGS.take 3 = ["transition_matrix", "distributions", "start_probabilities"] := by
  decide

/-- `hmm-germline` (3 states): the start probabilities are a distribution, symmetric between loss and gain, with the
neutral state strictly the likeliest (binomial weights 1 : 2 : 1); a chromosome may start in any state -/
theorem germline_start_prefers_neutral :
    startPrefersNeutral Generated.HMM_START_3 = true ∧ Generated.HMM_START_3 = [1 / 4, 1 / 2, 1 / 4] := by
  refine ⟨by decide +kernel, by decide +kernel⟩

/-- `hmm-germline`: every state is equally sticky and all moves are equally likely; staying weighs at least 100
times any single move (301 : 1 : 1 per row) -/
theorem germline_transitions_sticky :
    stickyMatrix 100 Generated.HMM_TRANS_3 = true ∧
    (Generated.HMM_TRANS_3.headD []).take 2 = [301 / 3, 1 / 3] := by
  refine ⟨by decide +kernel, by decide +kernel⟩

/-- the 5-state model of `hmm-tumor` is built by the same expressions (outside the claim of C11; recorded so that
a change to the shared expressions is seen for both sizes) -/
theorem tumor_initial_model_same_shape :
    startPrefersNeutral Generated.HMM_START_5 = true ∧ stickyMatrix 100 Generated.HMM_TRANS_5 = true := by
  refine ⟨by decide +kernel, by decide +kernel⟩

/-- what "sticky" means once pomegranate has normalised a row of `n` states: staying has probability at least
`k / (k + n - 1)` (for k = 100, n = 3: at least 100/102 per bin, whatever the common values are) -/
theorem sticky_stay_probability (k d o : Rat) (n : Nat) (hk : 0 < k) (ho : 0 < o) (hd : k * o ≤ d) (hn : 1 ≤ n) :
    k / (k + ((n : Rat) - 1)) ≤ d / (d + ((n : Rat) - 1) * o) :=
  Src.sticky_stay_probability k d o n hk ho hd hn

/-! ### non-vacuity -/

example : Generated.src_haarconv_highEnd 3 10 4 = 6 ∧ Generated.src_haarconv_highEnd 8 10 4 = 8 ∧
    Generated.src_haarconv_lowEnd 3 4 = 1 ∧ Generated.src_haarconv_lowEnd 8 4 = 3 := by decide
example : hiIdx 10 4 8 = 8 ∧ loIdx 4 3 = 1 := by decide
example : startPrefersNeutral [1 / 7, 3 / 7, 3 / 7] = false := by decide +kernel
example : stickyMatrix 100 [[100, 1], [1, 99]] = false := by decide +kernel

end CnvVerif.C11
