/-
  C11: the state tables of EVERY method branch of `hmm_get_model` (`hmm-germline`, `hmm-tumor`, `hmm`).  The constants
  are re-read from the source text on every run; op `hmm_states` compares them with what the real function hands to
  pomegranate for each method (so the `hmm-tumor` and `hmm` branches are executed by the correspondence run as well).
  The obligations pin the shape: states ordered from loss to gain around a neutral state at 0, which is the likeliest
  start; `hmm-tumor` may move every state but the neutral one; `hmm` is `hmm-germline` with all three states free.
  Only `hmm-germline` is inside the quantifier of C11; the other two are recorded so that an edit to their tables is
  seen.
-/
import CnvVerif.Model.HaarExt5Hmm
import CnvVerif.Model.HaarExt
import Mathlib.Tactic.Linarith
namespace CnvVerif.C11
open CnvVerif CnvVerif.Haar CnvVerif.HaarHmmM

/-- in ANY state table whose means increase strictly and whose state `mid` sits at 0, the states before `mid` are
losses (negative mean) and the states after it gains (positive mean): `mid` is the only neutral state -/
theorem hmmz_states_around_neutral (m : List Rat) (h : m.Pairwise (· < ·)) (mid : Nat) (hmid : mid < m.length)
    (h0 : m[mid] = 0) (i : Nat) (hi : i < m.length) :
    (i < mid → m[i] < 0) ∧ (mid < i → 0 < m[i]) ∧ (m[i] = 0 → i = mid) := by
  have hp := List.pairwise_iff_getElem.mp h
  refine ⟨?_, ?_, ?_⟩
  · intro hlt
    have := hp i mid hi hmid hlt
    linarith
  · intro hlt
    have := hp mid i hmid hi hlt
    linarith
  · intro hz
    rcases Nat.lt_trichotomy i mid with hlt | heq | hgt
    · have := hp i mid hi hmid hlt
      linarith
    · exact heq
    · have := hp mid i hmid hi hgt
      linarith

/-- every method branch yields a well-formed table (`hmmzTableOk`), whatever string `method` is -/
theorem hmmz_every_method_table_ok (method : String) : hmmzTableOk (hmmTableOf method) = true := by
  unfold hmmTableOf
  split
  · decide +kernel
  · split
    · decide +kernel
    · decide +kernel

/-- ... and its initial model prefers the neutral state and is equally, >= 100:1, sticky -/
theorem hmmz_every_method_initial_model (method : String) :
    startPrefersNeutral (hmmTableOf method).start = true ∧ stickyMatrix 100 (hmmTableOf method).trans = true := by
  unfold hmmTableOf
  split
  · exact ⟨by decide +kernel, by decide +kernel⟩
  · split
    · exact ⟨by decide +kernel, by decide +kernel⟩
    · exact ⟨by decide +kernel, by decide +kernel⟩

/-- `hmm-tumor`: five states del / loss / neutral / gain / amp at -2, -0.5, 0, 0.3, 1 (the doubles differ from the
decimals by less than 2^-53); only the neutral state is frozen -/
theorem hmmz_tumor_table :
    Generated.HMM_TUMOR_STATES = ["del", "loss", "neutral", "gain", "amp"] ∧
    Generated.HMM_TUMOR_MEANS_dec = [-2, -1 / 2, 0, 3 / 10, 1] ∧
    Generated.HMM_TUMOR_FROZEN = [false, false, true, false, false] ∧
    (Generated.HMM_TUMOR_MEANS.zip Generated.HMM_TUMOR_MEANS_dec).all
      (fun p => decide (absQ (p.1 - p.2) ≤ 1 / 2 ^ 53)) = true := by
  refine ⟨by decide, by decide +kernel, by decide, by decide +kernel⟩

/-- `hmm` (the `else` branch): the states and means of `hmm-germline`, none frozen -/
theorem hmmz_flex_table_is_germline_unfrozen :
    Generated.HMM_FLEX_STATES = Generated.HMM_GERMLINE_STATES ∧
    Generated.HMM_FLEX_MEANS = Generated.HMM_GERMLINE_MEANS ∧
    Generated.HMM_FLEX_FROZEN = [false, false, false] := by
  refine ⟨by decide, by decide +kernel, by decide⟩

/-! ### non-vacuity: the predicate rejects a table with swapped means, a shifted neutral state, a missing flag -/

example : hmmzTableOk ⟨["loss", "neutral", "gain"], [-1, 0, 585 / 1000], [true, true, true], [1/4, 1/2, 1/4], [[], [], []]⟩ = true := by
  decide +kernel
example : hmmzTableOk ⟨["loss", "neutral", "gain"], [0, -1, 585 / 1000], [true, true, true], [1/4, 1/2, 1/4], [[], [], []]⟩ = false := by
  decide +kernel
example : hmmzTableOk ⟨["loss", "neutral", "gain"], [-1, 1 / 10, 585 / 1000], [true, true, true], [1/4, 1/2, 1/4], [[], [], []]⟩ = false := by
  decide +kernel
example : hmmzTableOk ⟨["del", "loss", "neutral", "gain", "amp"], [-2, -1 / 2, 0, 3 / 10, 1], [false, false, true, false], [], []⟩ = false := by
  decide +kernel

end CnvVerif.C11
