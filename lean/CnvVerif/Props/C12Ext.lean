/-
  C12, round 4 — statements that need no side condition between the sizes, the contig rule in both of
  its branches, and `antitarget` without an access table.  Helper lemmas: Lemmas/BinsExt.lean.

  * finding K as a theorem boundary: for EVERY average and minimum size each antitarget bin has at least
    `min m ⌊3/4·avg⌋` bases (`anti_size_lower_any_min`); `anti_size_lower` of Props/C12.lean is the case
    `m ≤ 3/4·avg`; the bound is attained for every average of the form 4k
    (`anti_three_quarters_bound_is_sharp`): a minimum above 3/4·avg is not respected there.
    The classifier of K (`4·min > 3·avg`) is the negation of that hypothesis.
  * the upper bound without `avg ≥ 4`: at most `max (3/2·avg) (5/4·avg + 1)` for every average, and at most
    3/2·avg for every integer average ≥ 2 (all the command line can express but 1);
    `anti_size_upper_needs_some_bound`: at avg = 6/5 a bin of 2 bases > 1.8 exists.
  * finding AB: `contig_rule_exact` says which accessible rows survive in BOTH branches of
    `drop_noncanonical_contigs`; `contig_lost_only_by_length_rule` shows that the only way a row the
    property wants (targeted or canonically named contig) is lost is the situation AB's classifier describes.
  * no access table: the guessed extents and the bins inside them.
-/
import CnvVerif.Props.C12
import CnvVerif.Lemmas.BinsExt
namespace CnvVerif.C12
open CnvVerif

/-! ### size bounds for every average / minimum size (finding K) -/

/-- each bin has at least `min m ⌊3/4·avg⌋` bases: no hypothesis on the minimum size -/
theorem anti_size_lower_any_min (avg : Rat) (havg : 0 < avg) (m : Int) (acc tg : List Row) :
    ∀ b ∈ antiChrom Generated.ANTI_PAD avg m acc tg, min m (3 / 4 * avg).floor ≤ b.e - b.s :=
  antiChrom_size_lower_any _ avg havg m acc tg

/-- … which is the minimum itself exactly when the minimum is at most 3/4 of the average -/
theorem three_quarters_floor_ge_iff (avg : Rat) (m : Int) :
    min m (3 / 4 * avg).floor = m ↔ (m : Rat) ≤ 3 / 4 * avg := by
  rw [← Rat.le_floor_iff]
  constructor
  · intro h; omega
  · intro h; omega

/-- the 3/4 bound is attained: average 4k, one accessible region leaving 6k bases after the margins, no
    target — two bins of exactly 3k bases, whatever minimum `m ≤ 6k` was asked for.  For `3k < m` the bins are
    shorter than the minimum (finding K; `anti_size_lower_needs_bound` is the case k = 250, m = 900). -/
theorem anti_three_quarters_bound_is_sharp (k : Int) (hk : 1 ≤ k) (m : Int) (hm : m ≤ 6 * k) (c g : String) :
    (antiChrom Generated.ANTI_PAD ((4 * k : Int) : Rat) m [⟨c, 0, 6 * k + 1000, g⟩] []).map ivOf =
      [(500, 500 + 3 * k), (500 + 3 * k, 500 + 6 * k)] := by
  rw [pad_eq, antiChrom_no_targets_single 500 _ m ⟨c, 0, 6 * k + 1000, g⟩ (by dsimp only; omega)]
  have e1 : max 0 ((0 : Int) + 500) = 500 := by decide
  have e2 : max 0 (6 * k + 1000 - 500) = 500 + 6 * k := by omega
  dsimp only
  rw [e1, e2, splitRow_three_quarters_sharp k hk m hm c g 500]
  rfl

/-- each bin has at most `max (3/2·avg) (5/4·avg + 1)` bases: no hypothesis on the average size -/
theorem anti_size_upper_any_avg (avg : Rat) (havg : 0 < avg) (m : Int) (acc tg : List Row) :
    ∀ b ∈ antiChrom Generated.ANTI_PAD avg m acc tg,
      ((b.e - b.s : Int) : Rat) ≤ max (3 / 2 * avg) (5 / 4 * avg + 1) :=
  antiChrom_size_upper_any _ avg havg m acc tg

/-- for `avg ≥ 4` that maximum is 3/2·avg (`anti_size_upper`) -/
theorem upper_bound_max_eq (avg : Rat) (havg : 4 ≤ avg) :
    max (3 / 2 * avg) (5 / 4 * avg + 1) = 3 / 2 * avg := by
  apply max_eq_left
  linarith

/-- an integer average size `a ≥ 2` (`--avg-size` takes integers): at most 3/2·a -/
theorem anti_size_upper_integer_avg (a : Int) (ha : 2 ≤ a) (m : Int) (acc tg : List Row) :
    ∀ b ∈ antiChrom Generated.ANTI_PAD (a : Rat) m acc tg, 2 * (b.e - b.s) ≤ 3 * a :=
  antiChrom_size_upper_int _ a ha m acc tg

/-- some hypothesis on the average is needed: at avg = 6/5 a region of 3 bases is cut into bins of 1 and
    2 bases, and 2 > 3/2 · 6/5 -/
theorem anti_size_upper_needs_some_bound :
    (splitRow (6 / 5) 0 ⟨"chr1", 0, 3, ""⟩).map ivOf = [(0, 1), (1, 3)] ∧ ((2 : Rat) > 3 / 2 * (6 / 5)) := by
  decide +kernel

/-! ### the contig rule, both branches (finding AB) -/

/-- an accessible row is kept iff its contig is targeted, or — when some targeted contig is canonically named —
    it is canonically named itself, or — when none is — its name is no longer than the longest targeted name -/
theorem contig_rule_exact (acc tg a : Table) (h : dropNoncanonical acc tg = .ok a) (r : Row) :
    r ∈ a ↔ r ∈ acc ∧ ((∃ t ∈ tg, t.chrom = r.chrom) ∨
      (if (∃ t ∈ tg, isCanonicalName t.chrom = true) then isCanonicalName r.chrom = true
       else r.chrom.length ≤ maxTargetNameLen tg)) :=
  dropNoncanonical_mem_iff acc tg a h r

/-- `maxTargetNameLen` is the length of the longest targeted contig name -/
theorem longest_target_name (tg : Table) :
    (∀ t ∈ tg, t.chrom.length ≤ maxTargetNameLen tg) ∧
    (tg ≠ [] → ∃ t ∈ tg, t.chrom.length = maxTargetNameLen tg) :=
  ⟨maxTargetNameLen_ge tg, maxTargetNameLen_attained tg⟩

/-- the kept rows stay in the order of the access table -/
theorem contig_order_kept (acc tg a : Table) (h : dropNoncanonical acc tg = .ok a) : a.Sublist acc :=
  dropNoncanonical_sublist acc tg a h

/-- finding AB in general: without a canonically named target contig, every untargeted contig whose name is
    longer than all targeted names is dropped — canonically named or not -/
theorem contig_dropped_by_length_rule (acc tg a : Table) (h : dropNoncanonical acc tg = .ok a)
    (hc : ¬ ∃ t ∈ tg, isCanonicalName t.chrom = true)
    (r : Row) (hu : ¬ ∃ t ∈ tg, t.chrom = r.chrom) (hl : maxTargetNameLen tg < r.chrom.length) : r ∉ a := by
  intro hr
  rcases ((contig_rule_exact acc tg a h r).mp hr).2 with ht | hrule
  · exact hu ht
  · rw [if_neg hc] at hrule
    omega

/-- … and that is the ONLY way a row on a targeted or canonically named contig is lost: AB's classifier
    (no canonically named target; the lost contig untargeted, with a longer name) is exactly the boundary of
    `contig_kept_when_targeted` / `contig_kept_when_canonical` -/
theorem contig_lost_only_by_length_rule (acc tg a : Table) (h : dropNoncanonical acc tg = .ok a)
    (r : Row) (hr : r ∈ acc) (hw : (∃ t ∈ tg, t.chrom = r.chrom) ∨ isCanonicalName r.chrom = true)
    (hlost : r ∉ a) :
    (¬ ∃ t ∈ tg, isCanonicalName t.chrom = true) ∧ (¬ ∃ t ∈ tg, t.chrom = r.chrom) ∧
      maxTargetNameLen tg < r.chrom.length := by
  have hu : ¬ ∃ t ∈ tg, t.chrom = r.chrom := fun ht =>
    hlost ((contig_rule_exact acc tg a h r).mpr ⟨hr, Or.inl ht⟩)
  have hcan : isCanonicalName r.chrom = true := hw.resolve_left hu
  have hc : ¬ ∃ t ∈ tg, isCanonicalName t.chrom = true := fun hc =>
    hlost ((contig_rule_exact acc tg a h r).mpr ⟨hr, Or.inr (by rw [if_pos hc]; exact hcan)⟩)
  refine ⟨hc, hu, ?_⟩
  by_cases hl : r.chrom.length ≤ maxTargetNameLen tg
  · exact absurd ((contig_rule_exact acc tg a h r).mpr ⟨hr, Or.inr (by rw [if_neg hc]; exact hl)⟩) hlost
  · omega

/-! ### no access table: guessed chromosome extents -/

/-- `access=None` and an empty access table both mean: guess -/
theorem no_access_means_guessed_extents (tg : Table) :
    effectiveAccess tg none = .ok (guessRegions tg) ∧ effectiveAccess tg (some []) = .ok (guessRegions tg) :=
  ⟨rfl, rfl⟩

/-- one region per targeted contig, in order of first appearance, from the 150 000-base telomere allowance to
    the end of the contig's LAST target row (table order — not the largest end) -/
theorem guessed_extents (tg : Table) :
    guessRegions tg = (chromsInOrder tg).map (fun c => ⟨c, 150000, lastEndOf tg c, ""⟩) := by
  rw [guessRegions_eq, telomere_eq]

/-- targets on one contig, no access table: the bins are `antiChrom` of the single guessed region -/
theorem antitarget_without_access_is_chrom (c : String) (tg : Table) (last : Row) (avg : Rat) (m : Int)
    (hlast : tg.getLast? = some last) (hc : ∀ r ∈ tg, r.chrom = c) (hwf : WFTargets tg) :
    ∃ t, getAntitargets tg none avg m = .ok t ∧
      t.map ivOf = (antiChrom Generated.ANTI_PAD avg m [⟨c, 150000, last.e, ""⟩] tg).map ivOf := by
  refine ⟨_, get_antitargets_unfold tg none avg m (guessRegions tg) rfl, ?_⟩
  have hg := guessRegions_single c tg last hlast hc
  rw [telomere_eq] at hg
  rw [hg]
  exact antitarget_table_is_chrom c _ tg avg m (by
    intro r hr
    rw [List.mem_singleton] at hr
    rw [hr]) hc hwf

/-- those bins lie between telomere allowance + 500 and (end of the last target row) − 500 -/
theorem no_access_bins_inside_guessed_extent (c g : String) (e : Int) (avg : Rat) (havg : 1 ≤ avg) (m : Int)
    (tg : List Row) (hwf : WFTargets tg) :
    ∀ b ∈ antiChrom Generated.ANTI_PAD avg m [⟨c, 150000, e, g⟩] tg, 150500 ≤ b.s ∧ b.e ≤ e - 500 := by
  intro b hb
  have havg0 : (0 : Rat) < avg := lt_of_lt_of_le (by decide) havg
  have hne := anti_bins_nonempty avg havg m _ tg b hb
  have hin := anti_inside_shrunk_access avg havg0 m _ tg hwf b hb
  have h1 := (inShrunk_single 500 (by decide) ⟨c, 150000, e, g⟩ (show (0 : Int) ≤ 150000 by decide) b.s).mp
    (hin b.s (Int.le_refl _) hne)
  have h2 := (inShrunk_single 500 (by decide) ⟨c, 150000, e, g⟩ (show (0 : Int) ≤ 150000 by decide) (b.e - 1)).mp
    (hin (b.e - 1) (by omega) (by omega))
  dsimp only at h1 h2
  omega

/-! ### the minimum size `do_antitarget` hands on -/

/-- no `min_bin_size` and `min_bin_size = 0` both mean the default `2·⌊avg/32⌋` … -/
theorem default_min_for_none_and_zero (tg : Table) (acc : Option Table) (avg : Rat) :
    doAntitarget tg acc avg none = getAntitargets tg acc avg (defaultMinSize avg) ∧
    doAntitarget tg acc avg (some 0) = getAntitargets tg acc avg (defaultMinSize avg) := ⟨rfl, rfl⟩

/-- … any other value is used as it is -/
theorem explicit_min_is_used (tg : Table) (acc : Option Table) (avg : Rat) (m : Int) (hm : m ≠ 0) :
    doAntitarget tg acc avg (some m) = getAntitargets tg acc avg m := doAntitarget_some tg acc avg m hm

/-! ### non-vacuity -/

example : dropNoncanonical [⟨"chr1", 0, 5000, "x"⟩, ⟨"chr10", 0, 5000, "x"⟩, ⟨"chrM", 0, 5000, "x"⟩]
    [⟨"chrM", 100, 200, "m"⟩] = .ok [⟨"chr1", 0, 5000, "x"⟩, ⟨"chrM", 0, 5000, "x"⟩] := by decide +kernel
example : maxTargetNameLen [⟨"chrM", 100, 200, "m"⟩] = 4 := by decide +kernel
example : ¬ ∃ t ∈ ([⟨"chrM", 100, 200, "m"⟩] : Table), isCanonicalName t.chrom = true := by decide +kernel
example : guessRegions [⟨"chr1", 200000, 290000, "a"⟩, ⟨"chr1", 210000, 220000, "b"⟩, ⟨"chr2", 300000, 300100, "c"⟩]
    = [⟨"chr1", 150000, 220000, ""⟩, ⟨"chr2", 150000, 300100, ""⟩] := by decide +kernel
example : ([⟨"chr1", 200000, 290000, "a"⟩, ⟨"chr1", 210000, 220000, "b"⟩] : Table).getLast?
    = some ⟨"chr1", 210000, 220000, "b"⟩ := rfl
example : (3 / 4 * (1000 : Rat)).floor = 750 := by decide +kernel

end CnvVerif.C12
