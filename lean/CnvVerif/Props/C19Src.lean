/-
  C19: tie to the source TEXT.  The definitions `Generated.src_*` are re-translated from /repo's Python on every
  run (harness/exprtrans.py); these theorems state that the hand-written model formulas are those expressions.
  Kept in a module of their own so that an edit to a formula breaks exactly these obligations.
-/
import CnvVerif.Props.C19
import CnvVerif.Lemmas.SrcWing
namespace CnvVerif.C19
open CnvVerif CnvVerif.Desc CnvVerif.Smooth CnvVerif.Generated

/-- tie to the source text: the model's window half-width IS the expression `_width2wing` computes
    (Generated/ExprsWing.lean is re-translated from /repo on every run): the same value when the function returns,
    −1 on the ValueError branch, a value below 1 where the final `assert wing >= 1` fails -/
theorem width2wing_is_the_source (width : Rat) (n : Nat) :
    match Smooth.width2wing width n with
    | Except.ok w => src_width2wing width ((MIN_WING : Nat) : Rat) (n : Rat) = (w : Rat) ∧ 1 ≤ w
    | Except.error Smooth.WingErr.valueError => src_width2wing width ((MIN_WING : Nat) : Rat) (n : Rat) = -1
    | Except.error Smooth.WingErr.assertionError => src_width2wing width ((MIN_WING : Nat) : Rat) (n : Rat) < 1 :=
  Src.width2wing_is_source width n

end CnvVerif.C19
