/-
  C18, round 5c: the two row filters of `read_vcf` (`min_depth`, `skip_somatic`) are the source's.
  Generated/VcfFilters.lean is re-read from skgenome/tabio/vcfio.py on every run (harness/extractors/vcf_filters.py): the
  comparison of the depth mask as written (`>=`), the column it compares (`n_depth` when the table has it, else `depth`),
  the column whose `.any()` guards the filter (`depth`, the tumour's, also when the normal's depth is compared), the way
  each mask is applied (`table[idx]` / `table[~idx]`) and the order of the two filters.
-/
import CnvVerif.Props.C18
import CnvVerif.Generated.VcfFilters
namespace CnvVerif.C18
open CnvVerif CnvVerif.Vcf

/-- the value of a row in a depth column of the table, by the column's name in the source -/
def c18FiltCol (name : String) (r : VRow) : Rat :=
  if name = "n_depth" then (r.n.map (·.depth)).getD 0 else if name = "depth" then r.t.depth else 0

/-- the model's `filterDepth` reads the column the source names -/
theorem c18Filt_filterDepth_is_the_source_column (r : VRow) :
    filterDepth r = c18FiltCol (Generated.srcDepthKey r.n.isSome) r := by
  unfold filterDepth c18FiltCol Generated.srcDepthKey
  cases h : r.n <;> simp

/-- the guard of the depth filter looks at the column the source names (the tumour's depth) -/
theorem c18Filt_guard_is_the_source_column (rows : List VRow) :
    rows.any (fun r => r.t.depth != 0) = rows.any (fun r => c18FiltCol Generated.srcDepthGuardCol r != 0) := by
  simp [c18FiltCol, Generated.srcDepthGuardCol]

/-- `depthFilter` is the source's filter: truthiness of `min_depth`, then the `.any()` guard on the source's guard column,
    then the source's comparison on the source's key column, mask applied as the source applies it -/
theorem c18Filt_depthFilter_is_the_source (m : Option Int) (rows : List VRow) :
    depthFilter m rows =
      match m with
      | none => rows
      | some m =>
        if m = 0 then rows
        else if rows.any (fun r => c18FiltCol Generated.srcDepthGuardCol r != 0) then
          rows.filter (fun r => Generated.srcDepthKeep (c18FiltCol (Generated.srcDepthKey r.n.isSome) r) (m : Rat))
        else rows := by
  cases m with
  | none => simp [depthFilter]
  | some m =>
    simp only [depthFilter, ← c18Filt_guard_is_the_source_column, ← c18Filt_filterDepth_is_the_source_column,
      Generated.srcDepthKeep]

/-- `somaticFilter` keeps a row iff the source's mask (applied the way the source applies it) keeps its flag -/
theorem c18Filt_somaticFilter_is_the_source (b : Bool) (rows : List VRow) :
    somaticFilter b rows = if b then rows.filter (fun r => Generated.srcSomaticKeep r.somatic) else rows := by
  simp [somaticFilter, Generated.srcSomaticKeep]

/-- the model applies the two filters in the source's order, and the flag column is the source's -/
theorem c18Filt_order_is_the_source :
    Generated.srcFilterOrder = ["min_depth", "skip_somatic"] ∧ Generated.srcSomaticCol = "somatic" ∧
    Generated.srcDepthKeyProbe = Generated.srcDepthKey true := ⟨rfl, rfl, rfl⟩

/-! ### the boundary -/

/-- a row whose filter depth EQUALS the minimum is kept … -/
theorem c18Filt_depth_at_minimum_kept (m : Int) (hm : m ≠ 0) (rows : List VRow) (hany : ∃ x ∈ rows, x.t.depth ≠ 0)
    (r : VRow) (hr : r ∈ rows) (hd : filterDepth r = (m : Rat)) : r ∈ depthFilter (some m) rows := by
  rw [mem_depthFilter m hm rows hany]
  exact ⟨hr, by rw [hd]⟩

/-- … and every row strictly below it is dropped, however close -/
theorem c18Filt_depth_below_minimum_dropped (m : Int) (hm : m ≠ 0) (rows : List VRow)
    (hany : ∃ x ∈ rows, x.t.depth ≠ 0) (r : VRow) (hd : filterDepth r < (m : Rat)) : r ∉ depthFilter (some m) rows := by
  rw [mem_depthFilter m hm rows hany]
  rintro ⟨_, hge⟩
  exact absurd hd (Rat.not_lt.mpr hge)

/-- the source's own comparison at the boundary: equal passes, one below does not -/
theorem c18Filt_source_comparison_boundary (m : Int) :
    Generated.srcDepthKeep (m : Rat) (m : Rat) = true ∧ Generated.srcDepthKeep ((m - 1 : Int) : Rat) (m : Rat) = false := by
  constructor
  · simp [Generated.srcDepthKeep]
  · simp only [Generated.srcDepthKeep, decide_eq_false_iff_not, ge_iff_le, Rat.not_le]
    exact_mod_cast (by omega : m - 1 < m)

/-- a minimum of 0 is "no filter" (the source tests the truthiness of `min_depth`), even for rows of negative depth -/
theorem c18Filt_zero_minimum_is_no_filter (rows : List VRow) : depthFilter (some 0) rows = rows := by
  simp [depthFilter]

/-- the guard looks at the TUMOUR's depth although the normal's is compared: a paired table whose tumour column is all
    zero is not filtered, whatever the normal's depths -/
theorem c18Filt_guard_is_the_tumour_column (m : Int) (rows : List VRow) (h : ∀ x ∈ rows, x.t.depth = 0) :
    depthFilter (some m) rows = rows := depthFilter_noinfo m rows h

/-- both filters together at the boundary, through the whole filter stage of `read_vcf` -/
theorem c18Filt_stage_boundary (m : Int) (hm : m ≠ 0) (rows : List VRow) (hany : ∃ x ∈ rows, x.t.depth ≠ 0)
    (ss : Bool) (r : VRow) (hr : r ∈ rows) (hd : filterDepth r = (m : Rat)) (hs : ss = true → r.somatic = false) :
    r ∈ somaticFilter ss (depthFilter (some m) rows) := by
  rw [mem_somaticFilter]
  exact ⟨c18Filt_depth_at_minimum_kept m hm rows hany r hr hd, hs⟩

/-- non-vacuity: a paired row whose normal sits exactly on the minimum (and whose tumour is far below it) stays, its
    neighbour one read below goes -/
example :
    let g (d : Rat) : Geno := { zyg := 0, depth := d, altCount := 0, altFreq := default }
    let r (d : Rat) : VRow := { chrom := "1", s := 0, e := 1, ref := "A", alt := "C", somatic := false, t := g 3, n := some (g d) }
    (depthFilter (some 20) [r 20, r 19]).length = 1 := by decide +kernel

end CnvVerif.C18
