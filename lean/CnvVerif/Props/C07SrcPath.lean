/-
  C07: tie to the source TEXT of skgenome/intersect.py -- the path switch.  `Generated.src_*` (Generated/ExprsRanges.lean) is
  re-translated from /repo's Python on every run (harness/exprtrans.py, second reading: one table, one query); the
  theorem states that the hand-written model IS that term, for all tables and queries.  A module of its own, so that an
  edit to this code path breaks exactly this obligation.
-/
import CnvVerif.Props.C07
import CnvVerif.Lemmas.SrcRangesPath
namespace CnvVerif.C07
open CnvVerif

/-- the switch between whole table / mask path / binary search is the condition `idx_ranges` evaluates -/
theorem path_switch_is_the_source (t : Table) (qs qe : Option Int) (inner : Bool) :
    idxSelect t qs qe inner =
      (match Generated.src_idx_ranges_path t qs qe with
       | 0 => t
       | 1 => irangeNested t qs qe inner
       | _ => irangeSimple t qs qe inner) :=
  Src.idxSelect_path_is_source t qs qe inner

end CnvVerif.C07
