/-
  C04: tie to the source TEXT of the weight formulas in `fix.apply_weights`.  `Generated.src_weight_*` are re-translated from
  /repo's Python on every run (harness/extractors/exprs_fixweight.py: formula slices, reading rules at the top of
  harness/exprtrans.py).  A module of its own: an edit to a weight formula breaks exactly these obligations.
-/
import CnvVerif.Props.C04
import CnvVerif.Lemmas.SrcFixWeight
namespace CnvVerif.C04
open CnvVerif

/-- the per-bin weight formula about which `weight_in_range`, `weight_mono_size`, `weight_antitone_spread` are stated
    IS the composition of the formulas in `apply_weights`: size/variance term, reference-spread term, their 0.9 / 0.1
    average with a pooled reference, the clip to [epsilon, 1] -/
theorem weight_formula_is_the_source (pooled : Bool) (spread sq m v : Rat) :
    weightOf pooled spread sq m v =
      Generated.src_weight_clip Generated.WEIGHT_EPSILON
        (if pooled then Generated.src_weight_pooled spread (Generated.src_weight_simple_target v sq m)
         else Generated.src_weight_flat (Generated.src_weight_simple_target v sq m)) :=
  Src.weightOf_is_source pooled spread sq m v

/-- on- and off-target bins are weighted by the same size/variance formula -/
theorem weight_formula_same_for_both_classes (v sq m : Rat) :
    Generated.src_weight_simple_antitarget v sq m = Generated.src_weight_simple_target v sq m :=
  Src.simple_weight_same_for_both_classes v sq m

/-- … in which the class enters through the MEAN of sqrt(size) over its bins (`classMean` in `weight_column_is_the_formula`) -/
theorem weight_formula_uses_class_mean :
    Generated.src_weight_simple_target_reductions = ["mean"] ∧ Generated.src_weight_simple_antitarget_reductions = ["mean"] :=
  Src.simple_weight_uses_class_mean

end CnvVerif.C04
