/-
  C05: tie to the source TEXT.  The definitions `Generated.src_*` of Generated/ExprsRef.lean are re-translated from
  /repo's Python on every run (harness/exprtrans.py, extractor harness/extractors/exprs_ref.py); these theorems state
  that the hand-written model functions of the pooled / flat reference are those expressions.  Kept in a module of
  their own so that an edit to one of the functions breaks exactly these obligations.
-/
import CnvVerif.Props.C05
import CnvVerif.Lemmas.SrcRefSex
namespace CnvVerif.C05
open CnvVerif CnvVerif.Ref

/-- the sex shift of one bin IS the in-place update `reference.shift_sex_chroms` performs on `cnarr["log2"]`
    (masks: the bin lies on X / on Y outside the PARs; `isXX`: the truthiness of the sample's recorded sex) -/
theorem sex_shift_is_the_source (isXX : Bool) (cls : CClass) (flat v : Rat) :
    sexAdjust isXX cls flat v = Generated.src_shift_sex_chroms (cls == .x) (cls == .y) isXX flat v :=
  Src.sexAdjust_is_source isXX cls flat v

/-- the neutral pseudo-sample / flat reference profile IS `CopyNumArray.expect_flat_log2` bin by bin -/
theorem flat_profile_is_the_source (hapX : Bool) (par : Option String) (t : List CBin) :
    expectFlat hapX par t = t.map (fun b =>
      Generated.src_expect_flat_log2 hapX
        (classOf ((t.head?.map (·.chrom)).getD "") par b.chrom b.s b.e == .x)
        (classOf ((t.head?.map (·.chrom)).getD "") par b.chrom b.s b.e == .y)
        (b.chrom == yLabel ((t.head?.map (·.chrom)).getD ""))) :=
  Src.expectFlat_is_source_ref hapX par t

/-- consequently every value a sample contributes to the pooled matrix is the source's sex shift applied to the
    median-centred log2 and the source's flat level of that bin -/
theorem sample_values_are_the_source_shift (hapX : Bool) (par : Option String) (skipLow : Bool) (isXX : Option Bool)
    (flat : List Rat) (rows : List CovRow) :
    sampleLogr hapX par skipLow isXX flat rows =
      (rows.zip flat).map (fun p =>
        let cls := classOf ((rows.head?.map (·.chrom)).getD "") par p.1.chrom p.1.s p.1.e
        Generated.src_shift_sex_chroms (cls == .x) (cls == .y) (isXX == some true) p.2
          (p.1.log2 + centerShift medianR true skipLow par (rows.map toC))) := by
  unfold sampleLogr
  apply List.map_congr_left
  intro p _
  exact Src.sexAdjust_is_source _ _ _ _


/-! non-vacuity -/
example : Generated.src_shift_sex_chroms true false false (-1) (-1/2) = -1/2 := by decide +kernel
example : Generated.src_expect_flat_log2 false true false false = 0 ∧
    Generated.src_expect_flat_log2 true true false false = -1 := by decide +kernel

end CnvVerif.C05
