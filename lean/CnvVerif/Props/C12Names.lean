/-
  C12 (round 5): what `--short-names` puts in the name column.  Clause of the property: "label shortening … never
  change the number or coordinates of bins" was proved in Props/C12.lean; here the VALUE of the new label is pinned:
  it is built from a token of the very label it replaces (so a bin is never named after another gene's bin), the set
  handed to `min(…, key=len)` is never empty (so `shorten_labels` cannot die with `ValueError: min() arg is an empty
  sequence`), and the `DB|accession` trimming leaves either the name as it was or a name without `|`.
-/
import CnvVerif.Props.C12
import CnvVerif.Lemmas.BinsExt5Names
namespace CnvVerif.C12
open CnvVerif CnvVerif.C12N

/-- every label `shorten_labels` emits is made of a token of the input label in the same position (after the
    `DB|` trimming), and there is at least one candidate for it -/
theorem short_label_is_token_of_own_label (labels : List String) (i : Nat) (h : i < labels.length) :
    (shortenLabels labels)[i]'(by rw [shorten_same_length]; exact h) ≠ [] ∧
    ∀ c ∈ (shortenLabels labels)[i]'(by rw [shorten_same_length]; exact h),
      ∃ n ∈ labelNames labels[i], c = pipeTrim n :=
  Each_get labels (shortenLabels labels) (shortenLabels_each labels) i h
    (by rw [shorten_same_length]; exact h)

/-- the same, through `do_target(short_names=True)`: the candidates returned for bin `i` come from the label bin `i`
    had before (here without `--annotate`: the bait's own label, inherited by its pieces under `--split`) -/
theorem do_target_short_label_from_bin_label (baits : Table) (split : Bool) (avg : Rat) (rows : Table)
    (cands : List (List String)) (h : doTarget baits none true split avg = .ok (rows, some cands)) :
    Each FromLabel ((doTargetCore baits split avg).map (·.gene)) cands := by
  rw [doTarget_stages] at h
  have h0 : annotStage (doTargetCore baits split avg) none = .ok (doTargetCore baits split avg) := rfl
  rw [h0] at h
  change shortStage true _ = _ at h
  unfold shortStage at h
  simp only [if_true] at h
  obtain ⟨t2, h2, _⟩ := setGenes_ok (doTargetCore baits split avg) _ (short_len _)
  try dsimp only at h
  rw [h2] at h
  cases h
  exact shortenLabels_each _

/-- `shortest_name` never calls `min` on an empty set … -/
theorem shortest_name_has_a_candidate (names : List String) (h : names ≠ []) : shortestNames names ≠ [] :=
  shortestNames_ne_nil names h

/-- … every label splits into at least one name (`"".split(",") == [""]`), so the `assert len(next_names)` of
    the loop never fires … -/
theorem label_has_a_name (label : String) : labelNames label ≠ [] := labelNames_ne_nil label

/-- … and returns (the trimming of) one of the names it was given -/
theorem shortest_name_is_one_of_the_names (names : List String) :
    ∀ c ∈ shortestNames names, ∃ n ∈ names, c = pipeTrim n := shortestNames_from names

/-- `filter_names` only ever removes names, and never all of them -/
theorem filter_names_subset_nonempty (names : List String) :
    (∀ n ∈ filterNames names, n ∈ names) ∧ (names ≠ [] → filterNames names ≠ []) :=
  ⟨filterNames_subset names, filterNames_ne_nil names⟩

/-- the trimming either leaves the name alone or returns the text after its last `|` (no `|` left in it) -/
theorem pipe_trim_alone_or_no_pipe (name : String) :
    pipeTrim name = name ∨ '|' ∉ (pipeTrim name).toList := by
  unfold pipeTrim
  dsimp only
  split
  · right
    simp only [lastPipeSegment, String.toList_ofList, List.mem_reverse]
    intro hm
    have := takeWhile_sat _ _ _ hm
    simp at this
  · left; rfl

example : ∃ names : List String, names ≠ [] := ⟨["ref|A"], by simp⟩
example : ∃ (labels : List String) (i : Nat), i < labels.length := ⟨["a,b", "b,c"], 1, by simp⟩

end CnvVerif.C12
