/-
  C10 — `cnvlib.core.ensure_path` tied to its source text: the statements of its body are re-read on every run
  (harness/extractors/effects_path.py → Generated.ENSURE_PATH_PROG, a term of the command language of
  Model/PathProg.lean); running them on ANY file system with directories gives exactly the hand-written model the
  history theorems of Props/C10.lean are about.  `cnt = 0`, `cnt += 2`, `while` → `if`, a swapped `os.rename`, a lost
  `not` in front of `isdir`, a dropped `makedirs` each change the generated term and break
  `ensure_path_is_the_source`; a renamed local or another spelling of `f"{fname}.{cnt}"` does not.
  Plus the directory clause of the guard: the target directory is created, so k guarded writes to a path in a
  directory that does not exist yet leave k files there and never fail.
-/
import CnvVerif.Model.PathProg
import CnvVerif.Lemmas.PathProg
import CnvVerif.Generated.EffectsPath
namespace CnvVerif.C10
open CnvVerif CnvVerif.Effects

/-- the body of `core.ensure_path` as it is in the source now, run statement by statement on any directory tree
    and any path (the unbounded `while` given as many rounds as there are files), IS the model `ensurePathD` -/
theorem ensure_path_is_the_source (fs : FSD) (p : PathArg) :
    runEnsurePath Generated.ENSURE_PATH_PROG fs p = ensurePathD fs p := by
  unfold Generated.ENSURE_PATH_PROG
  exact run_ensure_path_prog fs p

/-- … and on the files it is the flat model of Props/C10.lean (`ensure_path_history`, `backup_suffix_is_least_free`, …
    therefore speak about the source's own loop) -/
theorem ensure_path_source_on_files (fs : FSD) (p : PathArg) :
    (runEnsurePath Generated.ENSURE_PATH_PROG fs p).files = ensurePath fs.files p.name := by
  rw [ensure_path_is_the_source]; simp [ensurePathD, ensureDir_files]

/-- the counting loop of the source never needs more rounds than there are files: with any larger bound the
    result is the same least free suffix -/
theorem ensure_path_loop_terminates (fs : FS) (p : String) (hp : isFile fs p = true) (extra : Nat) :
    firstFree fs p (fs.length + extra) 1 = firstFree fs p fs.length 1 :=
  firstFree_more_fuel fs p fs.length extra 1 (firstFree_free hp)

/-- the directory clause: after `ensure_path` the directory of the path exists together with all its ancestors,
    no directory is removed, only ancestors of the target are created, and no file is touched by that block -/
theorem ensure_path_creates_the_directory (fs : FSD) (p : PathArg) (hcwd : p.slash = false → isDir fs p.dir = true) :
    isDir (ensurePathD fs p) p.dir = true ∧
    (∀ a, isDir fs a = true → isDir (ensurePathD fs p) a = true) ∧
    (∀ a, isDir (ensurePathD fs p) a = true → isDir fs a = true ∨ a ∈ ancestors p.dir) ∧
    (ensurePathD fs p).files = ensurePath fs.files p.name := by
  refine ⟨?_, ?_, ?_, ?_⟩
  · simpa [ensurePathD, isDir] using ensureDir_isDir fs p hcwd
  · intro a ha; simpa [ensurePathD, isDir] using ensureDir_keeps ha p
  · intro a ha
    exact ensureDir_inv (by simpa [ensurePathD, isDir] using ha)
  · simp [ensurePathD, ensureDir_files]

/-- when the directory has to be made, every ancestor is made with it (`os.makedirs`) -/
theorem makedirs_creates_every_ancestor (fs : FSD) (d : Dir) (k : Nat) : isDir (makedirs fs d) (d.take k) = true :=
  isDir_makedirs_ancestor fs d k

/-- k guarded writes to one path — in a directory that may not exist yet — never fail for a missing directory, and
    leave exactly the files the flat history theorem describes: k more files, every earlier content kept -/
theorem guarded_writes_with_directories (fs : FSD) (hw : WF fs.files) (p : PathArg) (ws : List String)
    (hcwd : p.slash = false → isDir fs p.dir = true) :
    ∃ fs', guardedWritesD fs p ws = .ok fs' ∧
      fs'.files.length = fs.files.length + ws.length ∧
      (contents fs'.files).Perm (ws.reverse ++ contents fs.files) ∧
      (ws ≠ [] → isDir fs' p.dir = true) ∧ (∀ a, isDir fs a = true → isDir fs' a = true) := by
  obtain ⟨fs', h, hf, hd, hk, _⟩ := guardedWritesD_ok fs p ws hcwd
  have hh := guardedWrites_history hw p.name ws
  exact ⟨fs', h, by rw [hf]; exact hh.2.1, by rw [hf]; exact hh.2.2, hd, hk⟩

/-- contrast: the same write without the guard fails when the directory is not there -/
theorem unguarded_write_fails_without_directory (fs : FSD) (p : PathArg) (c : String) (h : isDir fs p.dir = false) :
    writeFileD fs p c = .error "FileNotFoundError" := by simp [writeFileD, h]

/-! ### non-vacuity -/

/-- two writes to `new/deep/out.cnn` below an empty root: both directories appear, two files remain -/
example : (guardedWritesD ⟨[[]], []⟩ ⟨"new/deep/out.cnn", true, ["new", "deep"]⟩ ["A", "B"]).toOption.map
      (fun fs => (fs.dirs, fs.files)) =
    some ([[], ["new"], ["new", "deep"]], [("new/deep/out.cnn", "B"), ("new/deep/out.cnn.1", "A")]) := by decide +kernel

/-- the generated program on a directory where the path and its first backup exist -/
example : (runEnsurePath Generated.ENSURE_PATH_PROG ⟨[[]], [("out.cnn", "A"), ("out.cnn.1", "B")]⟩ ⟨"out.cnn", false, []⟩).files =
    [("out.cnn.2", "A"), ("out.cnn.1", "B")] := by
  rw [ensure_path_source_on_files]; decide +kernel

/-- a program with `cnt = 0` is a different program: it would rename onto `out.cnn.0` -/
example : (ensurePath [("out.cnn", "A")] "out.cnn") ≠ [("out.cnn.0", "A")] := by decide +kernel

example : isDir (⟨[[]], []⟩ : FSD) ["new", "deep"] = false := by decide +kernel

end CnvVerif.C10
