/-
  C07, extension 5: `in_ranges` on `starts` / `ends` arrays of unequal length and on empty arrays
  (Model/RangesExt5.lean: `c07InRangesRaw`, the real behaviour including the two exceptions).

  * on the arguments the docstring allows (each array absent or non-empty, equal length when both are given)
    the raw model IS `inRangesOpt`, for every table;
  * an empty array next to a non-empty one is an absent array;
  * exactly when the call raises `ValueError` / `AssertionError`;
  * a table whose `end` column is monotone never raises `AssertionError`: the longer array is cut to the shorter;
  * whenever the call returns, on a well-formed table it returns the property's per-range selections for
    `zip` of the non-empty arrays, concatenated in that order.
-/
import CnvVerif.Model.RangesExt5
import CnvVerif.Lemmas.RangesExt
namespace CnvVerif.C07Raw
open CnvVerif

/-- the arguments the docstring of `in_ranges` allows -/
def DocumentedArgs (starts ends : Option (List Int)) : Bool :=
  (starts != some []) && (ends != some []) && !c07LenMismatch starts ends

theorem chromRows_eq (t : Table) (chrom : Option String) : c07ChromRows t chrom = chromRows t chrom := rfl

private theorem trimRows_none (rows : Table) : trimRows rows none none = rows := by
  unfold trimRows
  induction rows with
  | nil => rfl
  | cons r rs ih => simp only [List.map_cons]; rw [ih]

private theorem selectRange_none (t : Table) (mode : Mode) : selectRange t none none mode = t := by
  unfold selectRange idxSelect
  simp [trimRows_none]

private theorem inRangesOpt_unfold (t : Table) (chrom : Option String) (starts ends : Option (List Int))
    (mode : Mode) :
    inRangesOpt t chrom starts ends mode =
      if (c07ChromRows t chrom).isEmpty then c07ChromRows t chrom
      else ((zipBounds starts ends).map (fun q => selectRange (c07ChromRows t chrom) q.1 q.2 mode)).flatten := rfl

private theorem inRangesOpt_none (t : Table) (chrom : Option String) (mode : Mode) :
    inRangesOpt t chrom none none mode = c07ChromRows t chrom := by
  rw [inRangesOpt_unfold]
  split
  · rfl
  · simp [zipBounds, selectRange_none]

/-- every returned table is the existing `in_ranges` model on the NON-EMPTY arrays -/
theorem returned_table_is_in_ranges_of_the_nonempty_arrays (t : Table) (chrom : Option String)
    (starts ends : Option (List Int)) (mode : Mode) (out : Table)
    (h : c07InRangesRaw t chrom starts ends mode = .ok out) :
    out = inRangesOpt t chrom (c07Given starts) (c07Given ends) mode := by
  unfold c07InRangesRaw at h
  rw [inRangesOpt_unfold]
  by_cases he : (c07ChromRows t chrom).isEmpty = true
  · simp only [he, if_true] at h ⊢
    exact (Except.ok.inj h).symm
  · simp only [he, if_false, Bool.false_eq_true] at h ⊢
    have hnn : ((zipBounds none none).map
        (fun q => selectRange (c07ChromRows t chrom) q.1 q.2 mode)).flatten = c07ChromRows t chrom := by
      simp [zipBounds, selectRange_none]
    rcases starts with _ | ss <;> rcases ends with _ | es
    · simp only [c07Given] at h ⊢
      rw [hnn]; exact (Except.ok.inj h).symm
    · rcases es with _ | ⟨e, es⟩
      · simp [c07Given] at h
      · simp only [c07Given, c07LenMismatch, Bool.and_false, Bool.false_eq_true, if_false] at h ⊢
        exact (Except.ok.inj h).symm
    · rcases ss with _ | ⟨s, ss⟩
      · simp only [c07Given, Option.isSome_none, Bool.false_eq_true, if_false] at h ⊢
        rw [hnn]; exact (Except.ok.inj h).symm
      · simp only [c07Given, c07LenMismatch, Bool.and_false, Bool.false_eq_true, if_false] at h ⊢
        exact (Except.ok.inj h).symm
    · rcases ss with _ | ⟨s, ss⟩ <;> rcases es with _ | ⟨e, es⟩
      · simp [c07Given] at h
      · simp only [c07Given, c07LenMismatch, Bool.and_false, Bool.false_eq_true, if_false] at h ⊢
        exact (Except.ok.inj h).symm
      · simp only [c07Given, c07LenMismatch, Bool.and_false, Bool.false_eq_true, if_false] at h ⊢
        exact (Except.ok.inj h).symm
      · simp only [c07Given] at h ⊢
        split at h
        · cases h
        · exact (Except.ok.inj h).symm

/-- on the documented arguments nothing is raised and the result is the model of round 4, for every table -/
theorem documented_arguments_give_in_ranges (t : Table) (chrom : Option String)
    (starts ends : Option (List Int)) (mode : Mode) (h : DocumentedArgs starts ends = true) :
    c07InRangesRaw t chrom starts ends mode = .ok (inRangesOpt t chrom starts ends mode) := by
  unfold DocumentedArgs at h
  simp only [Bool.and_eq_true, bne_iff_ne, ne_eq, Bool.not_eq_true'] at h
  obtain ⟨⟨hs, he⟩, hl⟩ := h
  have gs : c07Given starts = starts := by
    rcases starts with _ | ss
    · rfl
    · rcases ss with _ | ⟨s, ss⟩
      · exact absurd rfl hs
      · rfl
  have ge : c07Given ends = ends := by
    rcases ends with _ | es
    · rfl
    · rcases es with _ | ⟨e, es⟩
      · exact absurd rfl he
      · rfl
  unfold c07InRangesRaw
  rw [inRangesOpt_unfold]
  by_cases hemp : (c07ChromRows t chrom).isEmpty = true
  · simp only [hemp, if_true]
  · simp only [hemp, if_false, Bool.false_eq_true]
    rcases starts with _ | ss <;> rcases ends with _ | es
    · simp [zipBounds, selectRange_none]
    all_goals
      simp only [gs, ge, hl, Bool.and_false, Bool.false_eq_true, if_false]

/-- an empty `starts` next to non-empty `ends` is an absent `starts` -/
theorem empty_starts_is_no_starts (t : Table) (chrom : Option String) (e : Int) (es : List Int) (mode : Mode) :
    c07InRangesRaw t chrom (some []) (some (e :: es)) mode = c07InRangesRaw t chrom none (some (e :: es)) mode := rfl

/-- an empty `ends` next to non-empty `starts` is an absent `ends` -/
theorem empty_ends_is_no_ends (t : Table) (chrom : Option String) (s : Int) (ss : List Int) (mode : Mode) :
    c07InRangesRaw t chrom (some (s :: ss)) (some []) mode = c07InRangesRaw t chrom (some (s :: ss)) none mode := rfl

/-- ... but an empty `starts` ALONE is the whole (chromosome's) table, unclipped in every mode -/
theorem empty_starts_alone_is_whole_table (t : Table) (chrom : Option String) (mode : Mode) :
    c07InRangesRaw t chrom (some []) none mode = .ok (c07ChromRows t chrom) := by
  unfold c07InRangesRaw
  by_cases h : (c07ChromRows t chrom).isEmpty = true <;> simp [h, c07Given]

/-- `ValueError` ("No objects to concatenate") exactly when the table has rows for the chromosome, `ends` is an
    EMPTY array and `starts` is absent or empty -/
theorem raises_ValueError_iff (t : Table) (chrom : Option String) (starts ends : Option (List Int)) (mode : Mode) :
    c07InRangesRaw t chrom starts ends mode = .error .valueError ↔
      (c07ChromRows t chrom ≠ [] ∧ ends = some [] ∧ (starts = none ∨ starts = some [])) := by
  unfold c07InRangesRaw
  by_cases hemp : (c07ChromRows t chrom).isEmpty = true
  · have : c07ChromRows t chrom = [] := by simpa using hemp
    simp [this]
  · have hne : c07ChromRows t chrom ≠ [] := by simpa using hemp
    simp only [hemp, if_false, Bool.false_eq_true]
    rcases starts with _ | ss <;> rcases ends with _ | es
    · simp
    · rcases es with _ | ⟨e, es⟩ <;> simp [c07Given, c07LenMismatch, hne]
    · rcases ss with _ | ⟨s, ss⟩ <;> simp [c07Given, c07LenMismatch]
    · rcases ss with _ | ⟨s, ss⟩ <;> rcases es with _ | ⟨e, es⟩ <;>
        simp [c07Given, c07LenMismatch, hne]
      split <;> simp

/-- `AssertionError` exactly when the table has rows for the chromosome, their `end` column is not monotone (the
    mask path) and both arrays are non-empty and of different length -/
theorem raises_AssertionError_iff (t : Table) (chrom : Option String) (starts ends : Option (List Int))
    (mode : Mode) :
    c07InRangesRaw t chrom starts ends mode = .error .assertionError ↔
      (c07ChromRows t chrom ≠ [] ∧ isMonotone ((c07ChromRows t chrom).map (·.e)) = false ∧
        ∃ ss es, starts = some ss ∧ ends = some es ∧ ss ≠ [] ∧ es ≠ [] ∧ ss.length ≠ es.length) := by
  unfold c07InRangesRaw
  by_cases hemp : (c07ChromRows t chrom).isEmpty = true
  · have : c07ChromRows t chrom = [] := by simpa using hemp
    simp [this]
  · have hne : c07ChromRows t chrom ≠ [] := by simpa using hemp
    simp only [hemp, if_false, Bool.false_eq_true]
    rcases starts with _ | ss <;> rcases ends with _ | es
    · simp
    · rcases es with _ | ⟨e, es⟩ <;> simp [c07Given, c07LenMismatch]
    · rcases ss with _ | ⟨s, ss⟩ <;> simp [c07Given, c07LenMismatch]
    · rcases ss with _ | ⟨s, ss⟩ <;> rcases es with _ | ⟨e, es⟩ <;>
        simp [c07Given, c07LenMismatch, hne]

private theorem zip_take_min (ss es : List Int) :
    (ss.take (min ss.length es.length)).zip (es.take (min ss.length es.length)) = ss.zip es := by
  induction ss generalizing es with
  | nil => simp
  | cons s ss ih =>
    cases es with
    | nil => simp
    | cons e es => simp [Nat.succ_min_succ, ih]

/-- a table whose `end` column is monotone (no row nested in an earlier one) takes the binary-search path, whose
    `zip` cuts the longer array to the length of the shorter one -/
theorem unequal_lengths_truncate_on_monotone_table (t : Table) (chrom : Option String) (ss es : List Int)
    (mode : Mode) (hm : isMonotone ((c07ChromRows t chrom).map (·.e)) = true) (hs : ss ≠ []) (he : es ≠ []) :
    c07InRangesRaw t chrom (some ss) (some es) mode =
      .ok (inRangesOpt t chrom (some (ss.take (min ss.length es.length)))
        (some (es.take (min ss.length es.length))) mode) := by
  rcases ss with _ | ⟨s, ss⟩
  · exact absurd rfl hs
  rcases es with _ | ⟨e, es⟩
  · exact absurd rfl he
  unfold c07InRangesRaw
  rw [inRangesOpt_unfold]
  by_cases hemp : (c07ChromRows t chrom).isEmpty = true
  · simp only [hemp, if_true]
  · simp only [hemp, if_false, Bool.false_eq_true, c07Given, hm, Bool.not_true, Bool.false_and]
    simp only [zipBounds, zip_take_min]

/-- whenever `in_ranges` returns, on a well-formed table it returns the property's selections (overlapping /
    contained / clipped rows) for each pair of `zip(starts, ends)` of the non-empty arrays, in that order -/
theorem returned_table_in_property_words (t : Table) (chrom : Option String)
    (starts ends : Option (List Int)) (mode : Mode) (out : Table)
    (hw : WFTable (chromRows t chrom)) (hq : ∀ ss, starts = some ss → ∀ s ∈ ss, 0 ≤ s)
    (h : c07InRangesRaw t chrom starts ends mode = .ok out) :
    out = (zipBounds (c07Given starts) (c07Given ends)).flatMap
      (fun q => rangeSpec (chromRows t chrom) q.1 q.2 mode) := by
  rw [returned_table_is_in_ranges_of_the_nonempty_arrays t chrom starts ends mode out h]
  apply inRangesOpt_exact t chrom _ _ mode hw
  intro ss' hss'
  rcases starts with _ | ss
  · simp [c07Given] at hss'
  · rcases ss with _ | ⟨s, ss⟩
    · simp [c07Given] at hss'
    · simp only [c07Given, Option.some.injEq] at hss'
      subst hss'
      exact hq _ rfl

/-- `in_range(chrom, start, end, mode)` is `in_ranges` of the one range `[start]` / `[end]`; an absent bound is an
    absent array -/
theorem in_range_is_in_ranges_of_one_range (t : Table) (chrom : Option String) (qs qe : Option Int) (mode : Mode) :
    c07InRangesRaw t chrom (qs.map (fun s => [s])) (qe.map (fun e => [e])) mode = .ok (inRange t chrom qs qe mode) := by
  unfold c07InRangesRaw inRange
  show (if (c07ChromRows t chrom).isEmpty = true then _ else _) = Except.ok (selectRange (c07ChromRows t chrom) qs qe mode)
  by_cases hemp : (c07ChromRows t chrom).isEmpty = true
  · have hnil : c07ChromRows t chrom = [] := by simpa using hemp
    simp only [hnil]
    congr 1
    unfold selectRange idxSelect
    cases mode <;> simp [trimRows]
  · simp only [hemp, if_false, Bool.false_eq_true]
    rcases qs with _ | s <;> rcases qe with _ | e <;>
      simp [c07Given, c07LenMismatch, zipBounds, selectRange_none]

/-- a chromosome the table does not have (or an empty table): an empty table comes back whatever the arrays are;
    nothing is raised -/
theorem absent_chromosome_never_raises (t : Table) (chrom : Option String) (starts ends : Option (List Int))
    (mode : Mode) (h : c07ChromRows t chrom = []) : c07InRangesRaw t chrom starts ends mode = .ok [] := by
  unfold c07InRangesRaw
  simp [h]

/-- the number of per-range selections concatenated is the length of the SHORTER of two given arrays -/
theorem number_of_ranges_visited (ss es : List Int) :
    (zipBounds (some ss) (some es)).length = min ss.length es.length := by
  simp [zipBounds]

/-! non-vacuity: each branch is reached -/
example : c07InRangesRaw [⟨"chr1", 0, 5, "a"⟩, ⟨"chr1", 3, 8, "b"⟩, ⟨"chr1", 8, 12, "c"⟩] (some "chr1")
    (some [1, 6, 9]) (some [4, 7]) .trim = .ok [⟨"chr1", 1, 4, "a"⟩, ⟨"chr1", 3, 4, "b"⟩, ⟨"chr1", 6, 7, "b"⟩] := by rfl
example : c07InRangesRaw [⟨"chr1", 0, 10, "a"⟩, ⟨"chr1", 2, 4, "b"⟩, ⟨"chr1", 8, 12, "c"⟩] (some "chr1")
    (some [1, 6, 9]) (some [4, 7]) .trim = .error .assertionError := by rfl
example : c07InRangesRaw [⟨"chr1", 0, 10, "a"⟩, ⟨"chr1", 2, 4, "b"⟩] (some "chr1") none (some []) .outer
    = .error .valueError := by rfl
example : c07InRangesRaw [⟨"chr1", 0, 10, "a"⟩, ⟨"chr1", 2, 4, "b"⟩] (some "chr1") (some []) (some [4, 9]) .inner
    = .ok [⟨"chr1", 2, 4, "b"⟩, ⟨"chr1", 2, 4, "b"⟩] := by rfl
example : DocumentedArgs (some [1, 6]) (some [4, 9]) = true := by decide
example : isMonotone (([⟨"chr1", 0, 5, "a"⟩, ⟨"chr1", 3, 8, "b"⟩] : Table).map (·.e)) = true := by decide

end CnvVerif.C07Raw
