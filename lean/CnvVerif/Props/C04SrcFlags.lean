/-
  C04: tie to the source TEXT of `do_fix`'s two `load_adjust_coverages` calls and of the shuffle seed (Generated/FixConsts.lean,
  re-read from /repo on every run).  A module of its own: an edit to the flags or the seed breaks exactly this obligation.
-/
import CnvVerif.Generated.FixConsts
namespace CnvVerif.C04
open CnvVerif

/-- the positional flags of the two `load_adjust_coverages` calls in `do_fix`, as read from the source on every run
    (skip_low, fix_gc, fix_edge, fix_rmask): targets are centred skipping low-coverage bins and never rmask-corrected,
    antitargets are centred on all bins and never edge-corrected; the shuffle of every correction is seeded with 0xA5EED -/
theorem class_flags_are_the_source :
    Generated.FIX_TARGET_FLAGS = ["True", "do_gc", "do_edge", "False"] ∧
    Generated.FIX_ANTITARGET_FLAGS = ["False", "do_gc", "False", "do_rmask"] ∧
    Generated.CENTER_BY_WINDOW_SEEDS = [0xA5EED] := by decide

end CnvVerif.C04
