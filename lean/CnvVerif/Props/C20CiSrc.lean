/-
  C20 (round 5): tie to the source TEXT of the confidence-limit branch of `segments2vcf`.
  `Generated.src_ci_pos_left` ... `src_ci_end_right`, `src_ci_info_fields` are re-read from /repo on every run
  (COLUMN-wise reader harness/colread_c20ci.py, extractor harness/extractors/exprs_export_ci.py).  The theorems state
  that the ROW-wise model (Model/ExportCiExt5.lean) yields exactly these columns and this INFO text.  Proved by
  simp over list lemmas, so that equivalent spellings (`-1 * x`, `np.concatenate`, renamed locals, reordered
  statements) keep them green.
-/
import CnvVerif.Props.C20Ci
import CnvVerif.Generated.ExprsExportCi
namespace CnvVerif.C20Ci
open CnvVerif CnvVerif.Export CnvVerif.Export.C20Ci

theorem zipWith_map_map {α : Type} (f : Int → Int → Int) (g h : α → Int) (l : List α) :
    List.zipWith f (l.map g) (l.map h) = l.map (fun x => f (g x) (h x)) := by
  induction l with
  | nil => rfl
  | cons a t ih => simp [ih]

theorem leftMargin_fn : leftMargin = fun a => a.ciLeft - a.s := rfl
theorem rightMargin_fn : rightMargin = fun a => a.e - a.ciRight := rfl

theorem cons_dropLast_of_ne_nil {α : Type} (c : α) (l : List α) (h : l ≠ []) :
    (c :: l).dropLast = [c] ++ l.dropLast := by
  cases l with
  | nil => exact absurd rfl h
  | cons a t => simp

/-- `ci_pos_right` of every row is what the source's column expression gives -/
theorem ci_pos_right_is_the_source (rows : List CiRow) :
    (ciCols rows).map (·.posR) =
      Generated.src_ci_pos_right (rows.map (·.ciLeft)) (rows.map (·.s)) (rows.map (·.e)) (rows.map (·.ciRight)) := by
  rw [ci_pos_right_is_the_column]
  simp [posRCol, Generated.src_ci_pos_right, zipWith_map_map, leftMargin_fn]

/-- `ci_end_left` -/
theorem ci_end_left_is_the_source (rows : List CiRow) :
    (ciCols rows).map (·.endL) =
      Generated.src_ci_end_left (rows.map (·.ciLeft)) (rows.map (·.s)) (rows.map (·.e)) (rows.map (·.ciRight)) := by
  rw [ci_end_left_is_the_column]
  simp [endLCol, Generated.src_ci_end_left, zipWith_map_map, rightMargin_fn]

/-- `ci_pos_left`: 0 for the first row of the table, else minus the right margin of the row above -/
theorem ci_pos_left_is_the_source (rows : List CiRow) (h : rows ≠ []) :
    (ciCols rows).map (·.posL) =
      Generated.src_ci_pos_left (rows.map (·.ciLeft)) (rows.map (·.s)) (rows.map (·.e)) (rows.map (·.ciRight)) := by
  rw [ci_pos_left_is_the_shifted_column]
  unfold posLCol shiftDown
  rw [cons_dropLast_of_ne_nil _ _ (by simpa using h)]
  simp [Generated.src_ci_pos_left, zipWith_map_map, rightMargin_fn, List.map_dropLast, Function.comp_def,
    Int.neg_mul, Int.mul_neg]

/-- `ci_end_right`: the left margin of the row below, 0 for the last row of the table -/
theorem ci_end_right_is_the_source (rows : List CiRow) (h : rows ≠ []) :
    (ciCols rows).map (·.endR) =
      Generated.src_ci_end_right (rows.map (·.ciLeft)) (rows.map (·.s)) (rows.map (·.e)) (rows.map (·.ciRight)) := by
  rw [ci_end_right_is_the_shifted_column rows h]
  simp [endRCol, shiftUp, Generated.src_ci_end_right, zipWith_map_map, leftMargin_fn]

/-- the two INFO fields the model prints are the source's f-strings -/
theorem ci_info_text_is_the_source (v : CiVals) :
    ciText v = Generated.src_ci_info_fields v.posL v.posR v.endL v.endR := by
  simp [ciText, Generated.src_ci_info_fields]

end CnvVerif.C20Ci
