/-
  C08 — every table format is read to 0-based half-open coordinates, sorted; write-then-read is
  lossless and the second write is a fixed point.
  Property theorems only; the proofs are in Lemmas/Formats*.lean.  The model (Model/Formats.lean) works
  on FIELDS: a file is its lines split at tabs; integers are printed/parsed with Lean's own decimal
  functions (`Int.toInt?_repr` is a core theorem), floats are exact rationals and `%.6g` is `sixg`.
  All ±1 shifts are `CnvVerif.Generated.*` constants extracted from /repo, so editing a shift in the
  source breaks the obligations below.
-/
import CnvVerif.Lemmas.FormatsTop
import CnvVerif.Lemmas.Formats3
import CnvVerif.Lemmas.FormatsKey
import CnvVerif.Lemmas.FormatsNum
namespace CnvVerif.C08
open CnvVerif CnvVerif.Fmt CnvVerif.Generated

/-! ### the conventions, as found in the source -/

/-- BED and CNVkit tab files are read as written; interval lists, chr:start-end text, GFF, SEG, VCF and
    Picard per-target tables are shifted from 1-based; no reader or writer touches `end` -/
theorem shift_table :
    READ_SHIFT_bed = 0 ∧ READ_SHIFT_tab = 0 ∧ READ_SHIFT_interval = -1 ∧
    READ_SHIFT_from_label + READ_SHIFT_text_reader = -1 ∧ TEXT_READER_USES_from_label = true ∧
    READ_SHIFT_gff = -1 ∧ READ_SHIFT_seg = -1 ∧ READ_SHIFT_vcf_sites = -1 ∧ READ_SHIFT_vcf_simple = -1 ∧
    READ_SHIFT_picardhs = -1 ∧ END_SHIFT_total = 0 := by decide

/-- every writer undoes its reader's shift (the text writer is `write_text` followed by `to_label`) -/
theorem writers_invert_readers :
    WRITE_SHIFT_tab + READ_SHIFT_tab = 0 ∧ WRITE_SHIFT_bed3 + READ_SHIFT_bed = 0 ∧
    WRITE_SHIFT_bed4 + READ_SHIFT_bed = 0 ∧ WRITE_SHIFT_interval + READ_SHIFT_interval = 0 ∧
    WRITE_SHIFT_seg + READ_SHIFT_seg = 0 ∧ WRITE_SHIFT_picardhs + READ_SHIFT_picardhs = 0 ∧
    TEXT_WRITER_USES_to_label = true ∧
    WRITE_SHIFT_text_writer + WRITE_SHIFT_to_label + READ_SHIFT_from_label + READ_SHIFT_text_reader = 0 := by
  decide

/-- sort keys, rank constants of `sorter_chrom`, and the 6-significant-digit float format of both writers -/
theorem format_constants :
    SORT_KEYS = ["_sort_key_", "start", "end"] ∧ SORTER_RANKS = [1000, 2000, 3000] ∧
    SIG_DIGITS = 6 ∧ FLOAT_FORMAT = "%.6g" ∧ FLOAT_FORMAT_dataframe = "%.6g" := by decide

/-- the sniffing cascade and the regular expressions the model re-expresses on fields -/
theorem sniff_constants :
    SNIFF_ORDER = ["gff", "text", "tab", "interval", "refflat", "bed"] ∧
    SNIFF_PATTERNS =
      [("text", "\\w+:\\d*-\\d*.*"), ("tab", "chromosome\tstart\tend"),
       ("interval", "\\w+\t\\d+\t\\d+\t[.+-]\t\\S+$"),
       ("refflat", "\\S+\t\\S+\t\\w+\t[+-]\t\\d+\t\\d+\t\\d+\t\\d+\t\\d+\t(\\d+,)+\t(\\d+,)+$"),
       ("gff", "\\w+\t\\S+\t\\w+\t\\d+\t\\d+\t\\S+\t[.?+-]\t[012.]\t.*"), ("bed", "\\S+\t\\d+\t\\d+")] ∧
    RE_LABEL = "(\\w[\\w.]*)?:(\\d+)?-(\\d+)?\\s*(\\S+)?" := by decide

/-! ### rows sorted by natural chromosome order, then start, then end -/

/-- whatever the format and the file, the table `tabio.read` returns is sorted -/
theorem read_is_sorted (fmt : String) (cna : Bool) (sel : SampleSel) (lines : List Line) (t : FTab)
    (h : readFmt fmt cna sel lines = .ok t) : SortedRows t.rows := readFmt_sorted fmt cna sel lines t h

/-- the sort order is a total preorder … -/
theorem sort_order_total_preorder :
    (∀ a b : FRow, (rowLe a b || rowLe b a) = true) ∧
    (∀ a b c : FRow, rowLe a b = true → rowLe b c = true → rowLe a c = true) := ⟨rowLe_total, rowLe_trans⟩

/-- … sorting loses and invents no row, is idempotent, and is stable (rows already in order keep
    their file order — duplicates included) -/
theorem sort_permutes (t : List FRow) : (sortF t).Perm t := sortF_perm t
theorem sort_idempotent (t : List FRow) : sortF (sortF t) = sortF t := sortF_idem t
theorem sort_stable (t c : List FRow) (hc : SortedRows c) (hsub : c.Sublist t) : c.Sublist (sortF t) :=
  sortF_stable t c hc hsub

/-- within one chromosome name the rows are ordered by start, then end; chromosome keys never decrease -/
theorem sorted_by_start_then_end (t : List FRow) (h : SortedRows t) :
    t.Pairwise (fun a b => a.chrom = b.chrom → a.s < b.s ∨ (a.s = b.s ∧ a.e ≤ b.e)) ∧
    t.Pairwise (fun a b => chromKeyLt (sorterChrom b.chrom) (sorterChrom a.chrom) = false) :=
  ⟨sorted_same_chrom t h, sorted_keys_monotone t h⟩

/-- natural order 1 < 2 < 10 < … < X < Y < M < MT, numbers by value, with or without the chr prefix -/
theorem natural_chromosome_order (n m : Nat) (hnm : n < m) (hm : m < 1000) (p : String) (hp : p = "" ∨ p = "chr") :
    chromKeyLt (sorterChrom (p ++ toString n)) (sorterChrom (p ++ toString m)) = true ∧
    chromKeyLt (sorterChrom (p ++ toString m)) (sorterChrom (p ++ "X")) = true ∧
    chromKeyLt (sorterChrom (p ++ "X")) (sorterChrom (p ++ "Y")) = true ∧
    chromKeyLt (sorterChrom (p ++ "Y")) (sorterChrom (p ++ "M")) = true ∧
    chromKeyLt (sorterChrom (p ++ "M")) (sorterChrom (p ++ "MT")) = true := natural_order n m hnm hm p hp

/-- the key ignores a chr/Chr/CHR prefix -/
theorem chromosome_key_prefix_insensitive (s : String) (a b c : Char)
    (ha : a.toLower = 'c') (hb : b.toLower = 'h') (hc : c.toLower = 'r') (hs : chrPrefixed s.toList = false) :
    sorterChrom (String.ofList [a, b, c] ++ s) = sorterChrom s :=
  sorterChrom_prefix_insensitive s a b c ha hb hc hs

/-! ### write, then read: identical coordinates, names and integer columns -/

theorem bed3_write_read (t : FTab) (hn : ∀ r ∈ t.rows, NoTrackName r.chrom) (sel : SampleSel) :
    readFmt "bed3" false sel (renderLines (writeBed3 t)) =
      .ok { names := [], rows := sortF (t.rows.map coordsOnly) } := bed3_roundtrip t hn sel

theorem bed4_write_read (t : FTab) (hn : ∀ r ∈ t.rows, NoTrackName r.chrom) (hg : WFGene t) (sel : SampleSel) :
    readFmt "bed4" false sel (renderLines (writeBed4 t)) =
      .ok { names := ["gene"], rows := sortF (t.rows.map fun r => ⟨r.chrom, r.s, r.e, [.str (geneStr t r)]⟩) } :=
  bed4_roundtrip t hn hg sel

theorem interval_write_read (t : FTab) (h : WFInterval t) (sel : SampleSel) :
    readFmt "interval" false sel (renderLines (writeInterval t)) =
      .ok { names := ["gene", "strand"],
            rows := sortF (t.rows.map fun r => ⟨r.chrom, r.s, r.e, [.str (geneStr t r), .str (strandStr t r)]⟩) } :=
  interval_roundtrip t h sel

theorem text_write_read (t : FTab) (hn : ∀ r ∈ t.rows, LabelName r.chrom)
    (hpos : ∀ r ∈ t.rows, 0 ≤ r.s ∧ 0 ≤ r.e) (sel : SampleSel) :
    readFmt "text" false sel (renderLines (writeText t)) =
      .ok { names := ["gene"], rows := sortF (t.rows.map fun r => ⟨r.chrom, r.s, r.e, [.str "-"]⟩) } :=
  text_roundtrip t hn hpos sel

/-- .cnn/.cnr/.cns-style tab files with any number of string and integer columns come back identical -/
theorem tab_write_read (t : FTab) (h : WFTab t) (sel : SampleSel) :
    readFmt "tab" false sel (renderLines (writeTab t)) = .ok { names := t.names, rows := sortF t.rows } :=
  tab_roundtrip t h sel

/-- writing the table that was read back and reading it again changes nothing: the third file equals
    the second one; and a table that was already sorted is rewritten to the very same lines -/
theorem tab_second_write_is_fixpoint (t : FTab) (h : WFTab t) (sel : SampleSel) :
    ∃ t1, readFmt "tab" false sel (renderLines (writeTab t)) = .ok t1 ∧
      readFmt "tab" false sel (renderLines (writeTab t1)) = .ok t1 := tab_rewrite_fixpoint t h sel

theorem tab_sorted_rewrites_identically (t : FTab) (h : WFTab t) (hs : SortedRows t.rows) (sel : SampleSel) :
    ∃ t1, readFmt "tab" false sel (renderLines (writeTab t)) = .ok t1 ∧
      renderLines (writeTab t1) = renderLines (writeTab t) := tab_rewrite_same_lines t h hs sel

theorem bed3_second_write_is_fixpoint (t : FTab) (hn : ∀ r ∈ t.rows, NoTrackName r.chrom) (sel : SampleSel) :
    ∃ t1, readFmt "bed3" false sel (renderLines (writeBed3 t)) = .ok t1 ∧
      readFmt "bed3" false sel (renderLines (writeBed3 t1)) = .ok t1 := bed3_rewrite_fixpoint t hn sel

/-- one table written as BED3, BED4, interval list and text reads back to the same coordinates -/
theorem cross_format_same_table (t : FTab) (sel : SampleSel)
    (hn : ∀ r ∈ t.rows, NoTrackName r.chrom) (hg : WFGene t) (hi : WFInterval t)
    (hl : ∀ r ∈ t.rows, LabelName r.chrom) (hpos : ∀ r ∈ t.rows, 0 ≤ r.s ∧ 0 ≤ r.e) :
    coordsT (readFmt "bed3" false sel (renderLines (writeBed3 t))) = .ok (sortF (t.rows.map coordsOnly)) ∧
    coordsT (readFmt "bed4" false sel (renderLines (writeBed4 t))) = .ok (sortF (t.rows.map coordsOnly)) ∧
    coordsT (readFmt "interval" false sel (renderLines (writeInterval t))) = .ok (sortF (t.rows.map coordsOnly)) ∧
    coordsT (readFmt "text" false sel (renderLines (writeText t))) = .ok (sortF (t.rows.map coordsOnly)) :=
  cross_format_coords t sel hn hg hi hl hpos

/-! ### third-party formats are read to 0-based half-open regions, sorted -/

theorem gff_read_zero_based (items : List (Region × (String × String × String × String × String × String)))
    (hdr : List Line) (hh : ∀ l ∈ hdr, sw "#" (l.headD "") = true)
    (hc : ∀ p ∈ items, ∀ f ∈ gffLine p.1 p.2, noChar '#' f) (sel : SampleSel) :
    ReadsAs "gff" sel (hdr ++ items.map (fun p => gffLine p.1 p.2)) (items.map (·.1)) :=
  gff_reads_one_based items hdr hh hc sel

theorem seg_read_zero_based (sid : String) (hs : PlainLabel sid) (items : List (Region × String))
    (hne : items ≠ []) (junk : List Line) (hj : ∀ l ∈ junk, l.length ≤ 1) (hdr : Line) (hh : hdr.length = 5)
    (hc : ∀ p ∈ items, ChromName p.1.1) :
    ReadsAs "seg" .first (junk ++ hdr :: items.map (fun p => segLine sid p.1 p.2)) (items.map (·.1)) :=
  seg_reads_one_based sid hs items hne junk hj hdr hh hc

theorem vcf_read_zero_based (items : List (Region × (String × String × String × String × String)))
    (hdr : List Line) (hh : ∀ l ∈ hdr, sw "#" (l.headD "") = true)
    (hc : ∀ p ∈ items, ∀ f ∈ vcfLine p.1 p.2, noChar '#' f)
    (he : ∀ p ∈ items, p.1.2.2 ≠ -1) (sel : SampleSel) :
    ReadsAs "vcf-sites" sel (hdr ++ items.map (fun p => vcfLine p.1 p.2)) (items.map (·.1)) :=
  vcf_reads_one_based items hdr hh hc he sel

theorem picard_read_zero_based (items : List (Region × (Int × String × String × String × String)))
    (hdr : Line) (hh : hdr.length = 8) (hb : hdr ≠ [""])
    (hnum : ∀ p ∈ items, (parseDec p.2.2.2.1.toList).isSome ∧ (parseDec p.2.2.2.2.1.toList).isSome ∧
                          (parseDec p.2.2.2.2.2.toList).isSome) (sel : SampleSel) :
    ReadsAs "picardhs" sel (hdr :: items.map (fun p => picardLine p.1 p.2)) (items.map (·.1)) :=
  picard_reads_one_based items hdr hh hb hnum sel

/-! ### auto-detection selects a parser that yields the same table -/

theorem sniff_selects_equivalent_reader_bed3 (t : FTab) (ext : String) (hx : NoHint ext)
    (hw : ∀ r ∈ t.rows, WordName r.chrom) (hp : NonNegRows t) (sel : SampleSel) :
    ∃ fmt, autoFormat ext (renderLines (writeBed3 t)) = .ok fmt ∧
      coordsT (readFmt fmt false sel (renderLines (writeBed3 t))) =
        coordsT (readFmt "bed3" false sel (renderLines (writeBed3 t))) := auto_bed3_equivalent t ext hx hw hp sel

theorem sniff_selects_equivalent_reader_bed4 (t : FTab) (ext : String) (hx : NoHint ext)
    (hw : ∀ r ∈ t.rows, WordName r.chrom) (hp : NonNegRows t) (hg : WFGene t) (sel : SampleSel) :
    ∃ fmt, autoFormat ext (renderLines (writeBed4 t)) = .ok fmt ∧
      coordsT (readFmt fmt false sel (renderLines (writeBed4 t))) =
        coordsT (readFmt "bed4" false sel (renderLines (writeBed4 t))) := auto_bed4_equivalent t ext hx hw hp hg sel

/-- interval lists, text and tab files are detected as themselves -/
theorem sniff_selects_own_reader (t : FTab) (ext : String) (hx : NoHint ext) :
    (t.rows ≠ [] → (∀ r ∈ t.rows, WordName r.chrom) → NonNegRows t → WFIntervalSniff t →
      autoFormat ext (renderLines (writeInterval t)) = .ok "interval") ∧
    (t.rows ≠ [] → (∀ r ∈ t.rows, WordName r.chrom) → NonNegRows t →
      autoFormat ext (renderLines (writeText t)) = .ok "text") ∧
    ((∀ n ∈ t.names, isDigits n = false) → autoFormat ext (renderLines (writeTab t)) = .ok "tab") :=
  ⟨fun hne hw hp hi => sniff_written_interval t ext hx hne hw hp hi,
   fun hne hw hp => sniff_written_text t ext hx hne hw hp,
   fun hn => sniff_written_tab t ext hx hn⟩

/-! ### numbers: 6 significant digits, and the rounded value is a fixed point -/

theorem sixg_idempotent (q : Rat) : sixg (sixg q) = sixg q := sigRound_idempotent _ (by decide) q

/-- the value written is within half a unit of the sixth significant digit -/
theorem sixg_close (q : Rat) (hq : q ≠ 0) : |sixg q - q| ≤ (1 / 2) * pow10 (dexp |q| - 5) := by
  have := sigRound_close SIG_DIGITS (by decide) q hq
  simpa [sixg, SIG_DIGITS] using this

/-- a decimal with at most 6 significant digits — what the first write printed — is reproduced exactly
    by the second write -/
theorem sixg_fixes_six_digit_decimals (m : Nat) (k : Int) (hlo : 100000 ≤ m) (hhi : m < 1000000) :
    sixg ((m : Rat) * pow10 k) = (m : Rat) * pow10 k ∧ sixg (-((m : Rat) * pow10 k)) = -((m : Rat) * pow10 k) :=
  sigRound_fixes_short_decimals SIG_DIGITS (by decide) m k (by simpa [SIG_DIGITS] using hlo)
    (by simpa [SIG_DIGITS] using hhi)

/-! ### history: the defect repaired in /repo 9b034a9 -/

/-- with the extra `+ 1` that `write_text` used to apply before `to_label`, the region [10, 20) of chr1
    was printed with start 12 instead of 11 -/
theorem text_writer_prefix_counterexample :
    (10 : Int) + 1 + WRITE_SHIFT_to_label = 12 ∧ (10 : Int) + WRITE_SHIFT_text_writer + WRITE_SHIFT_to_label = 11 := by
  decide

/-! ### non-vacuity -/

example : LabelName "chr1_gl000191_random" := by
  refine ⟨⟨'c', "hr1_gl000191_random".toList, by decide, by decide⟩, by decide⟩
example : LabelName "GL000207.1" := by
  refine ⟨⟨'G', "L000207.1".toList, by decide, by decide⟩, by decide⟩
example : PlainLabel "BRCA1,BRCA2" ∧ PlainLabel "A-B.1" ∧ PlainLabel "-" ∧ PlainLabel "+" := by
  unfold PlainLabel; decide
example : NoTrackName "chrUn_gl000211" := by unfold NoTrackName; decide
example : WordName "chr17_ctg5_hap1" := by unfold WordName NoTrackName; decide
example : NoHint "bed" ∧ NoHint "cnr" ∧ NoHint "interval_list" := by unfold NoHint; decide
example : ChromName "chrX" ∧ ChromName "22" :=
  ⟨Or.inr (by unfold PlainLabel; decide), Or.inl ⟨22, by decide⟩⟩
/-- a table with free-text gene labels ("NA", "0012") and an integer column meets the hypotheses of `tab_write_read` -/
example : WFTab { names := ["gene", "probes"],
                  rows := [⟨"chr2", 100, 200, [.str "NA", .int 7]⟩, ⟨"chr1", 10, 20, [.str "0012", .int 0]⟩] } := by
  refine ⟨by decide, by decide, by decide, by decide, ?_⟩
  intro j hj
  have : j = 0 ∨ j = 1 := by simp at hj; omega
  rcases this with rfl | rfl
  · right; intro r hr
    simp at hr
    rcases hr with rfl | rfl
    · exact ⟨_, rfl, Or.inr rfl⟩
    · exact ⟨_, rfl, Or.inr rfl⟩
  · left
    refine ⟨by decide, ?_⟩
    intro r hr
    simp at hr
    rcases hr with rfl | rfl <;> exact ⟨_, rfl⟩

end CnvVerif.C08
