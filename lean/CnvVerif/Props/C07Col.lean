/-
  C07 (extension 5c) — `iter_ranges_of` with a column name that may be missing (gary.py:524-528).
-/
import CnvVerif.Model.RangesColExt5c
namespace CnvVerif.C07Col
open CnvVerif

/-- a name that is not a column raises ValueError whatever the tables, the mode and `keep_empty` are (also when there
    is no range to iterate over) -/
theorem iter_ranges_of_missing_column_raises (cols : List String) (column : String) (self other : Table)
    (mode : Mode) (ke : Bool) (h : column ∉ cols) :
    c07IterRangesOf cols column self other mode ke = .error .valueError := by
  unfold c07IterRangesOf
  rw [if_neg]
  simpa using h

/-- … and it is the only way to raise: with the column present the result is one list per slice of `iter_slices`,
    of the same lengths as the selections -/
theorem iter_ranges_of_raises_iff_missing (cols : List String) (column : String) (self other : Table)
    (mode : Mode) (ke : Bool) :
    (∃ e, c07IterRangesOf cols column self other mode ke = .error e) ↔ column ∉ cols := by
  unfold c07IterRangesOf
  by_cases h : column ∈ cols
  · simp [h]
  · simp [h]

/-- for the `gene` column the modelled function is the one the existing op `iter_ranges_of` runs -/
theorem iter_ranges_of_gene (cols : List String) (self other : Table) (mode : Mode) (ke : Bool)
    (h : "gene" ∈ cols) :
    c07IterRangesOf cols "gene" self other mode ke =
      .ok ((iterSlices self other mode ke).map (fun sel => sel.map (·.gene))) := by
  unfold c07IterRangesOf
  rw [if_pos (by simpa using h)]
  rfl

/-! non-vacuity of the hypotheses, and one evaluated instance of the error branch -/
example : "Gene" ∉ ["chromosome", "start", "end", "gene"] ∧ "gene" ∈ ["chromosome", "start", "end", "gene"] := by decide
example : c07IterRangesOf ["chromosome", "start", "end", "gene"] "Gene" [⟨"chr1", 0, 5, "a"⟩] [] .outer true
    = .error .valueError := iter_ranges_of_missing_column_raises _ _ _ _ _ _ (by decide)

end CnvVerif.C07Col
