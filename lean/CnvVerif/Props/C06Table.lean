/-
  C06, table-level clauses added in the growth round: `total_range_size` counts the distinct covered bases, `subdivide`
  and `resize_ranges` on whole tables (any number of chromosomes, any row order).
  Property theorems only; the lemmas are in Lemmas/IntervalTotal.lean and Lemmas/IntervalSubdivide.lean.
-/
import CnvVerif.Props.C06
import CnvVerif.Lemmas.IntervalTotal
import CnvVerif.Lemmas.IntervalSubdivide
import CnvVerif.Lemmas.FlattenPayload
namespace CnvVerif.C06
open CnvVerif

/-! ### total_range_size -/

/-- `total_range_size()` is the number of DISTINCT covered bases: for any family of finite sets `S c` whose members
    are exactly the bases of chromosome `c` covered by some row, the result is the sum of their cardinalities over the
    chromosomes of the table (each counted once: `total_counts_each_chromosome_once`).  Rows may overlap, nest, repeat,
    abut, have zero width, and come in any order. -/
theorem total_range_size_counts_bases (t : Table) (hwf : ∀ r ∈ t, r.s ≤ r.e)
    (S : String → Finset Int) (hS : ∀ c p, p ∈ S c ↔ cov (rowsOf t c) p) :
    totalRangeSize t = ((chromsInOrder t).map (fun c => ((S c).card : Int))).sum := by
  rw [totalRangeSize_eq_card t hwf]
  apply congrArg
  apply List.map_congr_left
  intro c _
  rw [coveredBases_unique (rowsOf t c) (S c) (hS c)]

theorem total_counts_each_chromosome_once (t : Table) :
    (chromsInOrder t).Nodup ∧ ∀ c, c ∈ chromsInOrder t ↔ ∃ r ∈ t, r.chrom = c :=
  ⟨it_nodup_eraseDups _, mem_chromsInOrder_tbl t⟩

/-- such sets exist (non-vacuity of the hypothesis `hS`) -/
theorem total_covered_sets_exist (t : Table) :
    ∃ S : String → Finset Int, ∀ c p, p ∈ S c ↔ cov (rowsOf t c) p :=
  ⟨fun c => coveredBases (rowsOf t c), fun c p => mem_coveredBases (rowsOf t c) p⟩

/-- the mechanism: what `merge(bp=1)` leaves on a chromosome is pairwise disjoint (overlapping rows are combined,
    abutting ones stay apart), so the lengths add up without counting a base twice -/
theorem total_merge_one_groups_disjoint (t : Table) (hwf : ∀ r ∈ t, r.s ≤ r.e) (c : String) :
    (∀ r ∈ rowsOf (mergeTable 1 t) c, r.s ≤ r.e) ∧
    (rowsOf (mergeTable 1 t) c).Pairwise (fun a b => a.e ≤ b.s) := mergeTable_one_disjoint t hwf c

/-! ### subdivide on a table -/

/-- the bins of every chromosome are the bins of that chromosome's merged regions (`merge_canonical_table`: the
    sorted minimal disjoint list), region after region; each region is handled by `splitRow`, for which
    `subdivide_count`, `subdivide_exact` and `subdivide_drops_small` hold -/
theorem subdivide_table_is_per_region (avg : Rat) (minSize : Int) (t : Table) (c : String) :
    rowsOf (subdivideTable avg minSize t) c = (rowsOf (mergeTable 0 t) c).flatMap (splitRow avg minSize) :=
  rowsOf_subdivideTable avg minSize t c

/-- the bins cover exactly the merged regions of at least the minimum size -- for every positive (also fractional)
    average size, also when a region gets more bins than it has bases -/
theorem subdivide_cov_table (avg : Rat) (havg : 0 < avg) (minSize : Int) (t : Table)
    (hp : ∀ r ∈ t, r.s < r.e) (c : String) (p : Int) :
    cov (rowsOf (subdivideTable avg minSize t) c) p ↔
      ∃ m ∈ rowsOf (mergeTable 0 t) c, minSize ≤ m.e - m.s ∧ m.s ≤ p ∧ p < m.e :=
  subdivideTable_cov avg havg minSize t hp c p

/-- without a minimum size (the default) subdivide neither loses nor invents a base of the input -/
theorem subdivide_cov_table_no_min (avg : Rat) (havg : 0 < avg) (minSize : Int) (hmin : minSize ≤ 1) (t : Table)
    (hp : ∀ r ∈ t, r.s < r.e) (c : String) (p : Int) :
    cov (rowsOf (subdivideTable avg minSize t) c) p ↔ cov (rowsOf t c) p :=
  subdivideTable_cov_all avg havg minSize hmin t hp c p

/-- the bins of a chromosome come in order, pairwise disjoint, each inside one merged region of at least the minimum
    size whose other fields it carries -/
theorem subdivide_table_bins_disjoint_in_regions (avg : Rat) (havg : 0 < avg) (minSize : Int) (t : Table)
    (hp : ∀ r ∈ t, r.s < r.e) (c : String) :
    (rowsOf (subdivideTable avg minSize t) c).Pairwise (fun a b => a.e ≤ b.s) ∧
    ∀ b ∈ rowsOf (subdivideTable avg minSize t) c, ∃ m ∈ rowsOf (mergeTable 0 t) c,
      minSize ≤ m.e - m.s ∧ b.gene = m.gene ∧ m.s ≤ b.s ∧ b.s ≤ b.e ∧ b.e ≤ m.e :=
  subdivideTable_disjoint avg havg minSize t hp c

/-- the bin count `int(round(span / avg)) or 1` is never below one when the average size is positive: a region of at
    least the minimum size is either kept whole or cut into `round(span / avg) ≥ 2` bins -/
theorem subdivide_region_cases (avg : Rat) (havg : 0 < avg) (minSize : Int) (r : Row) (hlen : 0 ≤ r.e - r.s) :
    splitRow avg minSize r = [] ∧ r.e - r.s < minSize ∨
    minSize ≤ r.e - r.s ∧ (splitRow avg minSize r = [r] ∨
      ∃ n : Nat, 2 ≤ n ∧ (n : Int) = roundHalfEven (((r.e - r.s : Int) : Rat) / avg) ∧
        splitRow avg minSize r = splitInto r n) := splitRow_cases avg havg minSize r hlen

/-! ### resize_ranges on a table -/

/-- every row that `resize_ranges` returns lies within `[0, size of its chromosome]` (and within `[0, ∞)` when no
    sizes are given), for every amount `bp`, positive or negative -/
theorem resize_rows_within_chromosome (bp : Int) (sizes : String → Option Int) (t : Table)
    (hs : ∀ c hi, sizes c = some hi → 0 ≤ hi) :
    ∀ q ∈ resizeTable bp sizes t, 0 ≤ q.s ∧ 0 ≤ q.e ∧
      ∀ hi, sizes q.chrom = some hi → q.s ≤ hi ∧ q.e ≤ hi := by
  intro q hq
  obtain ⟨r, _, rfl, _⟩ := (resizeTable_mem bp sizes t q).mp hq
  simp only
  cases hsz : sizes r.chrom with
  | none =>
    refine ⟨?_, ?_, ?_⟩
    · simp only [clipInt]; omega
    · simp only [clipInt]; omega
    · intro hi h; exact absurd h (by simp)
  | some h0 =>
    have := hs r.chrom h0 hsz
    refine ⟨?_, ?_, ?_⟩
    · simp only [clipInt]; omega
    · simp only [clipInt]; omega
    · intro hi h
      have : h0 = hi := by simpa using h
      subst this
      simp only [clipInt]; omega

/-- rows keep their order and their other fields; with `bp ≥ 0` none is dropped -/
theorem resize_keeps_rows_in_order (bp : Int) (hbp : 0 ≤ bp) (sizes : String → Option Int) (t : Table) :
    resizeTable bp sizes t = t.map (fun r =>
      { r with s := clipInt 0 (sizes r.chrom) (r.s - bp), e := clipInt 0 (sizes r.chrom) (r.e + bp) }) := by
  unfold resizeTable
  simp only
  rw [if_neg (by omega)]

/-! ### flatten: what a piece carries -/

/-- with the default combiner of the `gene` column (`join_strings`: the distinct labels, in order) the label of every
    piece is the combination of the labels of EXACTLY the input rows of the chromosome that span the piece, in sorted
    order -- `_flatten_tuples` only looks at the piece's own overlap group (its "rows in play"); no row of another group
    spans the piece -/
theorem flatten_piece_label_joins_the_spanning_rows (l : List Row) (hs : l.Pairwise (fun a b => a.s ≤ b.s))
    (hwf : ∀ r ∈ l, r.s < r.e) :
    ∀ z ∈ flattenChrom l, z.gene = joinStrings ((l.filter (fun r => decide (r.s ≤ z.s) && decide (r.e ≥ z.e))).map (·.gene)) :=
  flattenChrom_payload l hs hwf

/-- the groups that flatten works on are consecutive stretches of the sorted rows: nothing is lost or reordered -/
theorem flatten_groups_partition_the_rows (l : List Row) : (overlapGroups l).flatten = l := overlapGroups_flatten l

/-! non-vacuity: concrete inputs meeting the hypotheses, evaluated by the kernel (one chromosome's sorted rows, which is
    what the table functions hand to `mergeChrom` / `splitRow`; `sort_values` itself does not reduce in the kernel) -/
example : (mergeChrom 1 [⟨"chr1", 0, 10, "a"⟩, ⟨"chr1", 5, 12, "b"⟩, ⟨"chr1", 6, 7, "e"⟩, ⟨"chr1", 12, 14, "c"⟩]).map
    (fun r => (r.s, r.e)) = [(0, 12), (12, 14)] := by decide
example : lenSum (mergeChrom 1 [⟨"chr1", 0, 10, "a"⟩, ⟨"chr1", 5, 12, "b"⟩, ⟨"chr1", 6, 7, "e"⟩, ⟨"chr1", 12, 14, "c"⟩])
    = 14 := by decide
example : ([⟨"chr1", 0, 10, "a,b"⟩, ⟨"chr1", 20, 21, "c"⟩].flatMap (splitRow 3 2)).map (fun r => (r.s, r.e)) =
    [(0, 3), (3, 6), (6, 10)] := by decide +kernel
example : (overlapGroups [⟨"chr1", 0, 10, "a"⟩, ⟨"chr1", 5, 15, "b"⟩, ⟨"chr1", 5, 8, "a"⟩, ⟨"chr1", 20, 30, "c"⟩]).map
    (fun g => g.map (·.gene)) = [["a", "b", "a"], ["c"]] := by decide
example : ([⟨"chr1", 0, 10, "a"⟩, ⟨"chr1", 5, 15, "b"⟩, ⟨"chr1", 5, 8, "a"⟩, ⟨"chr1", 20, 30, "c"⟩] : List Row).Pairwise
    (fun a b => a.s ≤ b.s) := by decide
example : resizeTable (-2) (fun _ => some 8) [⟨"chr1", 0, 10, "a"⟩, ⟨"chr1", 3, 7, "b"⟩, ⟨"chr1", 4, 5, "c"⟩] =
    [⟨"chr1", 2, 8, "a"⟩] := by decide

end CnvVerif.C06
