/-
  C01: tie to the source TEXT.  The definitions `Generated.src_*` are re-translated from /repo's Python on every
  run (harness/exprtrans.py); these theorems state that the hand-written model formulas are those expressions.
  Kept in a module of their own so that an edit to a formula breaks exactly these obligations.
-/
import CnvVerif.Props.C01
import CnvVerif.Lemmas.SrcAbs
namespace CnvVerif.C01
open CnvVerif

/-- the model's purity inversion (clipped at 0, fix A) IS the expression `_log2_ratio_to_absolute` computes -/
theorem absolute_formula_is_the_source (r x : Nat) (p t : Rat) :
    absoluteOf r x (some p) t = Generated.src_log2_ratio_to_absolute (r : Rat) (x : Rat) p t :=
  Src.absoluteOf_is_source r x p t

/-- … and the pure conversion `n = r·2^v` is `_log2_ratio_to_absolute_pure` -/
theorem pure_formula_is_the_source (r : Nat) (t : Rat) :
    absoluteOf r 0 none t = Generated.src_log2_ratio_to_absolute_pure (r : Rat) t :=
  Src.absolute_pure_is_source r t

end CnvVerif.C01
