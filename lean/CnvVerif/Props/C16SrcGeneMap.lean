/-
  C16 (round 5): tie to the source TEXT of skgenome/gary.py `_get_gene_map`.  `Generated.src_gene_map_*` are re-read
  from /repo's Python on every run (harness/dicttrans.py: an insertion-ordered dict of lists as an association list;
  harness/extractors/exprs_genemap.py); these theorems state that the hand-written model of the dict loop
  (Model/GeneExt.lean) IS what they say.  A module of its own, so that an edit to `_get_gene_map` breaks exactly these
  obligations.
-/
import CnvVerif.Lemmas.GeneMapExt5
namespace CnvVerif.C16
open CnvVerif CnvVerif.Genes CnvVerif.GeneExt CnvVerif.PyDict16 CnvVerif.Generated

/-- the dict is empty before the loop (`genes = OrderedDict()`) -/
theorem gene_map_init_is_the_source : geneMap [] = src_gene_map_init := rfl

/-- **one visit of the inner loop**, for ANY dict (also one with a repeated key, which the loop never builds): a known
    name gets the row appended to its list in place, a new name goes to the end with that row -/
theorem gene_map_insert_is_the_source (d : Dict) (i : Nat) (g : String) : insert d i g = src_gene_map_inner d i g :=
  insert_eq_src d i g

/-- **one row of the outer loop**: a null name is skipped; otherwise the names are `genestr.split(",")`, visited in order -/
theorem gene_map_row_is_the_source (d : Dict) (i : Nat) (s : Option String) : rowStep d i s = src_gene_map_row d i s :=
  rowStep_eq_src d i s

/-- the generated loop: the generated row step folded over the column, rows numbered from `k` -/
def srcGeneMapLoop : Nat → Dict → List (Option String) → Dict
  | _, d, [] => d
  | k, d, s :: rest => srcGeneMapLoop (k + 1) (src_gene_map_row d k s) rest

/-- **`_get_gene_map` is the source's loop**: from the generated initial dict, the generated row step over the rows -/
theorem gene_map_is_the_source_loop (gs : List (Option String)) : geneMap gs = srcGeneMapLoop 0 src_gene_map_init gs := by
  unfold geneMap src_gene_map_init
  generalize (0 : Nat) = k
  generalize ([] : Dict) = d
  induction gs generalizing k d with
  | nil => rfl
  | cons s rest ih => simp only [loopFrom, srcGeneMapLoop, rowStep_eq_src, ih]

/-- the separator the source splits on is the comma of `Genes.names` -/
theorem gene_map_split_is_names (b : Bin) : split b.gene ',' = names b := splitOn_comma [] b.gene.toList

/-- non-vacuity: the generated loop on a column with a two-gene bin, a repeated gene and a null -/
example : srcGeneMapLoop 0 src_gene_map_init [some "A", some "A,B", none, some "B", some "A"] =
    [("A", [0, 1, 4]), ("B", [1, 3])] := by decide

end CnvVerif.C16
