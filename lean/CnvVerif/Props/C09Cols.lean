/-
  C09, round 5: the text side of `bedcov` -- `detect_bedcov_columns` and the `read_csv` call -- as theorems.
  (i)  source ties: the model's column rule IS the decision structure re-read from `detect_bedcov_columns` on every
       run, its reader settings ARE the keyword arguments of the `read_csv` call (Generated/ExprsCovCols.lean);
  (ii) for every regions file whose lines have the same number n >= 3 of TAB-free fields (3 = no names, 4 = names,
       more = arbitrary columns after the name) and whatever count text samtools appends: the table has exactly one row
       per line, in order, and row i carries the chromosome / start / end (/ name) cells of line i and ITS count;
  (iii) the three refusals.
  Kept in a module of its own so that an edit to `detect_bedcov_columns` / `bedcov` breaks exactly these obligations.
-/
import CnvVerif.Lemmas.SrcCovCols
namespace CnvVerif.C09
open CnvVerif CnvVerif.C09Cols CnvVerif.Generated

/-! ### (i) tie to the source text -/

/-- `detect_bedcov_columns`, as a function of the number of TABs in the first line, is the model's `columnsOf`
    (names, or the class of the exception), for every number of TABs -/
theorem bedcov_columns_is_the_source (n : Nat) :
    (columnsOf n).mapError Err.pyName = src_bedcov_columns (n : Int) :=
  columnsOf_eq_src n

/-- the integer it decides on is `text[:text.index("\n")].count("\t")` (the model's `firstLine` / `count`), the text
    is cut at TABs, the names handed to `read_csv` (names= and usecols=) are the detected ones of the very text that
    is read, an empty text is refused before, and no further keyword (header=, comment=, skiprows=, ..) is passed -/
theorem bedcov_call_shape_is_the_source :
    BEDCOV_TABCOUNT_TEXT = "text[:text.index('\\n')].count('\\t')" ∧ BEDCOV_SEP = "\t" ∧
    BEDCOV_NAMES_ARE_DETECTED = true ∧ BEDCOV_EMPTY_REFUSED = true ∧ BEDCOV_OTHER_KWARGS = [] ∧
    "chromosome" ∈ BEDCOV_STR_COLUMNS ∧ "gene" ∈ BEDCOV_STR_COLUMNS := by
  decide

/-- the reader the source configures: pandas' default missing-value markers are OFF and the only marker is the empty
    text -/
theorem bedcov_reader_is_the_source : srcReader.keepDefaultNa = false ∧ srcReader.naValues = [[]] :=
  srcReader_eq

/-- hence a cell is missing exactly when its text is empty: names such as `NA`, `null`, `nan` keep their text
    (finding AI) -/
theorem bedcov_cell_missing_iff_empty (s : List Char) : cell srcReader s = none ↔ s = [] :=
  cell_src_none_iff s

/-! ### (ii) rows are the lines -/

/-- decidable well-formedness of the lines samtools was given and the counts it appends: at least one line, every
    line has `n` fields, neither a field nor a count text contains a TAB or a newline -/
def BedcovRowsOK (n : Nat) (rows : List (List (List Char) × List Char)) : Prop :=
  rows ≠ [] ∧ (∀ p ∈ rows, p.1.length = n) ∧ (∀ p ∈ rows, ∀ f ∈ p.1, '\t' ∉ f ∧ '\n' ∉ f) ∧
  (∀ p ∈ rows, '\t' ∉ p.2 ∧ '\n' ∉ p.2)

instance (n rows) : Decidable (BedcovRowsOK n rows) := by unfold BedcovRowsOK; infer_instance

theorem bedcovOutput_eq_text (rows : List (List (List Char) × List Char)) :
    bedcovOutput rows = text (rows.map (fun p => p.1 ++ [p.2])) := by
  simp [bedcovOutput, text, List.map_map, Function.comp_def]

theorem wf_of_rowsOK {n : Nat} {rows : List (List (List Char) × List Char)} (h : BedcovRowsOK n rows) :
    WF n (rows.map (fun p => p.1 ++ [p.2])) := by
  obtain ⟨hne, hlen, hf, hc⟩ := h
  refine ⟨by simpa using hne, ?_, ?_⟩
  · intro fs hfs
    rcases List.mem_map.1 hfs with ⟨p, hp, rfl⟩
    simp [hlen p hp]
  · intro fs hfs f hfm
    rcases List.mem_map.1 hfs with ⟨p, hp, rfl⟩
    rcases List.mem_append.1 hfm with h | h
    · exact hf p hp f h
    · have : f = p.2 := by simpa using h
      subst this; exact hc p hp

/-- the parse of what samtools prints, for 3-, 4- and more-column regions files: the names are `columnsOf n`
    (n + 1 of them) and the table is, line by line and in order, the cells of the line followed by the cell of its
    count -/
theorem bedcov_parse_is_the_lines (rd : Reader) {n : Nat} (hn : 3 ≤ n)
    {rows : List (List (List Char) × List Char)} (h : BedcovRowsOK n rows) :
    ∃ cols, columnsOf n = .ok cols ∧ cols.length = n + 1 ∧
      parse rd (bedcovOutput rows) = .ok (cols, rows.map (fun p => (p.1 ++ [p.2]).map (cell rd))) := by
  obtain ⟨cols, h1, h2, h3⟩ := parse_text rd hn (wf_of_rowsOK h)
  refine ⟨cols, h1, h2, ?_⟩
  rw [bedcovOutput_eq_text, h3, List.map_map]; rfl

/-- row count: one row per line of the regions file -/
theorem bedcov_row_count_is_line_count (rd : Reader) {n : Nat} (hn : 3 ≤ n)
    {rows : List (List (List Char) × List Char)} (h : BedcovRowsOK n rows) :
    ∃ cols tbl, parse rd (bedcovOutput rows) = .ok (cols, tbl) ∧ tbl.length = rows.length := by
  obtain ⟨cols, _, _, h3⟩ := bedcov_parse_is_the_lines rd hn h
  exact ⟨cols, _, h3, by simp⟩

/-- row / bin identity: the i-th record the pileup path goes on with has the first three cells of line i, its fourth
    cell as `gene` exactly when the lines have one (n ≥ 4; with 3 columns there is no `gene` column), and the count of
    line i as base count -- whatever stands in the columns after the name -/
theorem bedcov_row_is_its_line (rd : Reader) {n : Nat} (hn : 3 ≤ n)
    {rows : List (List (List Char) × List Char)} (h : BedcovRowsOK n rows) :
    ∃ cols tbl, parse rd (bedcovOutput rows) = .ok (cols, tbl) ∧
      ∀ (i : Nat) (hi : i < rows.length), ∃ row, tbl[i]? = some row ∧
        recOf cols row =
          { chrom := (rows[i].1[0]?).bind (cell rd), start := (rows[i].1[1]?).bind (cell rd),
            stop := (rows[i].1[2]?).bind (cell rd),
            gene := if 4 ≤ n then (rows[i].1[3]?).bind (cell rd) else none,
            basecount := cell rd rows[i].2 } := by
  obtain ⟨cols, h1, h2, h3⟩ := bedcov_parse_is_the_lines rd hn h
  refine ⟨cols, _, h3, ?_⟩
  intro i hi
  refine ⟨(rows[i].1 ++ [rows[i].2]).map (cell rd), by simp [hi], ?_⟩
  have hlen : rows[i].1.length = n := h.2.1 _ (List.getElem_mem hi)
  have hg := gene_column_iff h1
  generalize rows[i].1 = fs at hlen ⊢
  generalize rows[i].2 = c
  unfold recOf
  rw [hg, h2]
  have hlast : (List.map (cell rd) (fs ++ [c]))[n + 1 - 1]? = some (cell rd c) := by
    simp [hlen]
  rw [hlast]
  match fs, hlen with
  | [], hl => simp at hl; omega
  | [_], hl => simp at hl; omega
  | [_, _], hl => simp at hl; omega
  | [f0, f1, f2], hl => simp at hl; subst hl; simp
  | f0 :: f1 :: f2 :: f3 :: t, hl =>
    have : 4 ≤ n := by simp at hl; omega
    simp [this]

/-! ### (iii) the refusals -/

/-- an empty text (samtools printed nothing: no chromosome name matched) is a ValueError -/
theorem bedcov_refuses_empty (rd : Reader) : parse rd [] = .error .empty := rfl

/-- a text without a newline is the ValueError of `text.index("\n")` -/
theorem bedcov_refuses_no_newline (rd : Reader) (t : List Char) (hne : t ≠ []) (h : '\n' ∉ t) :
    parse rd t = .error .noNewline := by
  unfold parse detect firstLine
  cases t with
  | nil => exact absurd rfl hne
  | cons a b => simp [h]

/-- only the first line decides: with fewer than 3 TABs in it the text is refused (RuntimeError), whatever follows -/
theorem bedcov_refuses_short_first_line (rd : Reader) (l r : List Char) (hl : '\n' ∉ l) (h : l.count '\t' < 3) :
    parse rd (l ++ '\n' :: r) = .error .badLine := by
  have hfirst : firstLine (l ++ '\n' :: r) = some l := by
    unfold firstLine; rw [if_pos (by simp), takeWhile_noc hl]
  have hemp : (l ++ '\n' :: r).isEmpty = false := by cases l <;> rfl
  unfold parse detect
  rw [hemp, hfirst]
  simp [columnsOf, h]

/-- and with at least 3 the names depend on nothing but the number of TABs in the first line -/
theorem bedcov_detect_reads_first_line_only (l r : List Char) (hl : '\n' ∉ l) :
    detect (l ++ '\n' :: r) = columnsOf (l.count '\t') := by
  have hfirst : firstLine (l ++ '\n' :: r) = some l := by
    unfold firstLine; rw [if_pos (by simp), takeWhile_noc hl]
  unfold detect; rw [hfirst]

/-! ### non-vacuity -/

example : BedcovRowsOK 3 [(["chr1".toList, "0".toList, "10".toList], "57".toList)] := by decide
example : BedcovRowsOK 6
    [(["chr1".toList, "0".toList, "10".toList, "NA".toList, "0".toList, "+".toList], "57".toList),
     (["chr1".toList, "5".toList, "9".toList, "g b".toList, "".toList, "-".toList], "0".toList)] := by decide
example : src_bedcov_columns 2 = .error "RuntimeError" ∧
    src_bedcov_columns 3 = .ok ["chromosome", "start", "end", "basecount"] ∧
    src_bedcov_columns 6 = .ok ["chromosome", "start", "end", "gene", "_1", "_2", "basecount"] :=
  ⟨rfl, rfl, rfl⟩
example : ('\n' ∉ "chr1\t0\t10".toList) ∧ ("chr1\t0\t10".toList).count '\t' < 3 := by decide

end CnvVerif.C09
