/-
  C03 (round 5): tie of the outlier filter to the source TEXT.  `Generated/ExprsOutlier.lean` is re-read from
  cnvlib/smoothing.py (`rolling_outlier_quantile`) and cnvlib/segmentation/__init__.py (`drop_outliers`, its call in
  `_do_segmentation`) on every run (harness/extractors/exprs_outlier.py, reading rules at its top); these theorems say
  the hand-written model (Model/TileOutlierExt5.lean) IS those definitions.  In a module of its own so that an edit to the
  rule breaks exactly these obligations.
-/
import CnvVerif.Lemmas.SrcOutlierExt5
namespace CnvVerif.C03
open CnvVerif CnvVerif.C03Outl CnvVerif.Generated

/-- the decision rule of the model is the expression the source returns, at every element -/
theorem outlier_rule_is_the_source (x width q m trend quants : Rat) :
    src_outl_elem x width q m trend quants = isOutlier m x trend quants :=
  elem_is_source x width q m trend quants

/-- the short-array rule: the source's leading test is `len(x) ≤ width`, and what it then returns is all-False -/
theorem outlier_short_rule_is_the_source (n width : Nat) :
    src_outl_short (n : Rat) (width : Rat) = decide (n ≤ width) ∧ src_outl_short_value = false :=
  ⟨short_is_source n width, rfl⟩

/-- so the model's mask is the source's, element by element, for every array -/
theorem outlier_mask_is_the_source (width : Nat) (q m : Rat) (pts : List Pt) :
    outlierMask width m pts =
      if src_outl_short (pts.length : Rat) (width : Rat) then List.replicate pts.length src_outl_short_value
      else pts.map fun p => src_outl_elem p.x width q m p.trend p.quants := by
  rw [short_is_source]
  unfold outlierMask
  simp only [decide_eq_true_eq, elem_is_source]
  rfl

/-- what the two black boxes are fed: the trend is `savgol(x, width)`, the quantile is taken of the absolute residuals
    over the same width -/
theorem outlier_black_box_inputs :
    src_outl_trend_of = "savgol(x, width)" ∧
    src_outl_quants_of = "rolling_quantile(src_outl_abs (x - savgol(x, width)), width, q)" := by
  decide

/-- `drop_outliers`: the rule is applied to `log2`, per `by_chromosome` group, with the function's own `width` and
    `factor` passed on and the 0.95 quantile; the masks are concatenated and a row is kept iff its element is not set -/
theorem drop_outliers_wiring_is_the_source :
    src_drop_outliers_column = "log2" ∧ src_drop_outliers_groups = "by_chromosome" ∧
    src_drop_outliers_join = "concatenate" ∧ src_drop_outliers_width_arg = 1 ∧ src_drop_outliers_factor_arg = 2 ∧
    src_drop_outliers_q_dec = 95 / 100 ∧ (∀ mask, src_drop_outliers_keep mask = !mask) := by
  refine ⟨by decide, by decide, by decide, by decide, by decide, by decide +kernel, fun _ => rfl⟩

/-- `_do_segmentation` runs the filter over a window of 50 bins, with `skip_outliers` as the factor, iff `skip_outliers`
    is truthy -/
theorem segment_outlier_call_is_the_source :
    src_segment_outlier_width = 50 ∧ src_segment_outlier_factor_arg = "skip_outliers" ∧
    src_segment_outlier_guard = src_segment_outlier_factor_arg := by decide

end CnvVerif.C03
