/-
  C15, statistical clause made deterministic where the code allows it: a ROBUSTNESS MARGIN for the sex
  inference.  `compare_sex_chromosomes` decides by Mood's median test when scipy yields a statistic, and by the
  ratio of median differences otherwise.  For the second path the decision provably cannot flip under ANY noise
  (no distribution assumed) that keeps every bin within 1/4 of its level; which inputs take that path is
  decided by the exact contingency table (`moodTable`).  On the Mood path the decision is "the statistic under
  the female hypothesis exceeds the one under the male hypothesis" — a rank statistic, for which no positive
  radius exists (see DESIGN §9.2 C15): that part remains an oracle run.
  Proofs in Lemmas/SexExt.lean.
-/
import CnvVerif.Model.SexExt
import CnvVerif.Lemmas.SexExt
namespace CnvVerif.C15
open CnvVerif

/-- ROBUSTNESS MARGIN (median-difference path).  Autosomal bins within `d` of a level `a`, chrX bins within `d`
    of the level expected for the sample's sex relative to the stated reference sex, chrY bins (if any) within
    `d` of `a` for a male sample / at least 2 below `a` for a female one, `0 ≤ d < 1/4`, any number of bins, any
    arrangement of the noise: the sex is inferred right. -/
theorem sex_inferred_within_margin (hapX female : Bool) (a d : Rat) (auto xs ys : List Rat)
    (h : withinMargin hapX female a d auto xs ys = true) :
    sexIsMaleFallback hapX auto xs ys = !female :=
  sexIsMaleFallback_within_margin hapX female a d auto xs ys h

/-- the hypothesis spelled out -/
theorem within_margin_means (hapX female : Bool) (a d : Rat) (auto xs ys : List Rat) :
    withinMargin hapX female a d auto xs ys = true ↔
      0 ≤ d ∧ 4 * d < 1 ∧ auto ≠ [] ∧ xs ≠ [] ∧ (∀ v ∈ auto, |v - a| ≤ d) ∧
      (∀ v ∈ xs, |v - (a + expectedX hapX female)| ≤ d) ∧
      (if female then ∀ v ∈ ys, v ≤ a - 2 else ∀ v ∈ ys, |v - a| ≤ d) :=
  withinMargin_iff hapX female a d auto xs ys

/-- … and the WHOLE decision of `compare_sex_chromosomes` (whatever scipy's statistic `G` is) is that one
    whenever all Mood tables are degenerate (a zero row or column: `median_test` raises, `stat = None`) -/
theorem sex_inferred_within_margin_degenerate_tables (G : MoodTable → Rat) (hapX female : Bool) (a d : Rat)
    (auto xs ys : List Rat) (h : withinMargin hapX female a d auto xs ys = true)
    (hdeg : allDegenerate hapX auto xs ys = true) :
    sexIsMale G hapX auto xs ys = !female := by
  rw [sexIsMale_of_allDegenerate G hapX auto xs ys hdeg]
  exact sexIsMaleFallback_within_margin hapX female a d auto xs ys h

/-- which holds in particular for a profile whose autosomal bins all carry one value (noise-free or fully
    smoothed autosomes) and outnumber the bins of each sex chromosome: the grand median is that value, the
    autosomal bins tie with it and are ignored -/
theorem flat_autosomes_have_degenerate_tables (hapX : Bool) (a : Rat) (auto xs ys : List Rat)
    (hA : ∀ v ∈ auto, v = a) (hx : xs.length < auto.length) (hy : ys.length < auto.length) :
    allDegenerate hapX auto xs ys = true := allDegenerate_of_flat hapX a auto xs ys hA hx hy

/-- so: flat autosomes, noisy sex chromosomes within the margin ⇒ the real decision function is right -/
theorem sex_inferred_flat_autosomes (G : MoodTable → Rat) (hapX female : Bool) (a d : Rat)
    (auto xs ys : List Rat) (h : withinMargin hapX female a d auto xs ys = true)
    (hA : ∀ v ∈ auto, v = a) (hx : xs.length < auto.length) (hy : ys.length < auto.length) :
    sexIsMale G hapX auto xs ys = !female :=
  sex_inferred_within_margin_degenerate_tables G hapX female a d auto xs ys h
    (allDegenerate_of_flat hapX a auto xs ys hA hx hy)

/-- the median of bins that all lie in `[lo, hi]` lies in `[lo, hi]` (what bounds the two medians) -/
theorem median_within_bounds (l : List Rat) (hl : l ≠ []) (lo hi : Rat) (h : ∀ x ∈ l, lo ≤ x ∧ x ≤ hi) :
    lo ≤ medianR l ∧ medianR l ≤ hi := medianR_mem_range l hl lo hi h

/-- decision expression on the Mood path (no chrY): male ⇔ the statistic under the female hypothesis exceeds
    the one under the male hypothesis, the latter floored at 0.01 -/
theorem sex_decision_by_statistics (xF xM : AutoCmp) (fs ms : Rat) (hf : xF.stat = some fs)
    (hm : xM.stat = some ms) : isMale xF xM none = decide (max ms (1/100) < fs) :=
  isMale_of_stats xF xM fs ms hf hm

/-! non-vacuity: a male sample against a female reference with adversarial noise of radius 0.24 — every chrX bin
    pushed towards the female level, autosomes flat — meets the hypotheses -/
example : withinMargin false false 0 (24/100) [0, 0, 0, 0, 0] [-76/100, -76/100, -1] [24/100, -24/100] = true := by
  decide +kernel
example : allDegenerate false [0, 0, 0, 0, 0] [-76/100, -76/100, -1] [24/100, -24/100] = true :=
  flat_autosomes_have_degenerate_tables false 0 _ _ _ (by simp) (by simp) (by simp)
example : withinMargin true true (1/2) (1/5) [1/2, 7/10, 3/10] [3/2, 13/10] [-4, -3/2] = true := by
  decide +kernel

end CnvVerif.C15
