/-
  C15, round 5b: `strsign` of `do_sex` is the source text (see Props/C15SrcGlue.lean).
-/
import CnvVerif.Model.SexExt5Py
import CnvVerif.Generated.ExprsSexGlue
set_option linter.unusedSimpArgs false
namespace CnvVerif.C15x
open CnvVerif

/-- `strsign` puts the "+" exactly where the source's test says (and never in front of NaN) -/
theorem strsign_is_the_source (v : Option Rat) :
    strsign v = .num (match v with | some q => Generated.src_strsign_plus q | none => false) v := by
  cases v <;> simp [strsign, Generated.src_strsign_plus]

end CnvVerif.C15x
