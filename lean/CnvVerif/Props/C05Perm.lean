/-
  C05, round 4 -- the pooled reference does not depend on the ORDER in which the coverage files are given
  ("over the samples": a set).  So far carried by the correspondence run only (file lists are shuffled there).
  Proofs in Lemmas/ReferencePerm.lean.  Two independent reasons, both theorems: the per-bin estimators are symmetric in
  their arguments, and the files are processed in sample-name order whatever order they were given in.
-/
import CnvVerif.Props.C05
import CnvVerif.Lemmas.ReferencePerm
namespace CnvVerif.C05
open CnvVerif CnvVerif.Ref

/-- Tukey's biweight location and midvariance of a bin (pseudo-sample value `f` first, then the samples' values) do not
    depend on the order of the samples' values -/
theorem bin_summary_is_symmetric_in_the_samples (f c : Rat) {vs vs' : List Rat} (h : vs.Perm vs') :
    locOf (f :: vs) = locOf (f :: vs') ∧ spreadOf (f :: vs) c = spreadOf (f :: vs') c :=
  ⟨locOf_perm (List.Perm.cons f h), spreadOf_perm (List.Perm.cons f h) c⟩

/-- … in any position: the summaries are symmetric functions of the whole column -/
theorem bin_summary_is_symmetric {l l' : List Rat} (h : l.Perm l') (c : Rat) :
    locOf l = locOf l' ∧ spreadOf l c = spreadOf l' c := ⟨locOf_perm h, spreadOf_perm h c⟩

/-- `summarize_info`: the (log2, spread) of every bin is the same for every order of the sample rows of the matrix
    `[pseudo-sample] ++ samples` -/
theorem summaries_do_not_depend_on_the_row_order (n : Nat) (flat : List Rat) {mat mat' : List (List Rat)}
    (h : mat.Perm mat') :
    (columns n (flat :: mat)).map (fun c => (locOf c, spreadOf c (locOf c))) =
    (columns n (flat :: mat')).map (fun c => (locOf c, spreadOf c (locOf c))) :=
  summarize_perm n flat h

/-- a block of coverage files given in another order is the same reference block (sample names distinct: they are
    the file names without their extensions) … -/
theorem file_order_is_irrelevant (hapX : Bool) (par : Option String) (skipLow : Bool) (sexes : List (String × Bool))
    {files files' : List Sample} (h : files.Perm files') (hn : (files.map (·.name)).Nodup) :
    refBlock hapX par skipLow sexes files = refBlock hapX par skipLow sexes files' :=
  refBlock_file_order hapX par skipLow sexes h hn

/-- … and so is the whole reference, with or without bias corrections, when the target files and the antitarget files
    are each given in an order of their own -/
theorem file_order_is_irrelevant_for_the_whole_reference (cfgT cfgA : CorrCfg) (hapX : Bool) (par : Option String)
    (sexes : List (String × Bool)) {t t' a a' : List Sample} (ht : t.Perm t') (ha : a.Perm a')
    (hnt : (t.map (·.name)).Nodup) (hna : (a.map (·.name)).Nodup) :
    doReferenceOn cfgT cfgA hapX par sexes t (some a) = doReferenceOn cfgT cfgA hapX par sexes t' (some a') :=
  doReferenceOn_file_order cfgT cfgA hapX par sexes ht ha hnt hna

/-! non-vacuity: two files in either order -/
example : ([⟨"s1", []⟩, ⟨"s2", []⟩] : List Sample).Perm [⟨"s2", []⟩, ⟨"s1", []⟩] ∧
    (([⟨"s1", []⟩, ⟨"s2", []⟩] : List Sample).map (·.name)).Nodup :=
  ⟨List.Perm.swap _ _ _, by decide⟩

end CnvVerif.C05
