/-
  C03 on the HMM path (hmm, hmm-tumor, hmm-germline).  `do_segmentation` hands these methods the WHOLE table, not
  one arm at a time, so the unit `transfer_fields` works on holds every chromosome (and any of them may have lost
  all its bins to the filters — defect R).  The theorems of Props/C03.lean assume a one-chromosome unit; here the
  same clauses are proved for a table of any number of chromosomes and for every partition whose runs stay on one
  chromosome — in particular (`hmm_path_tiles_every_chromosome`) for the partition `squash_by_groups(…, by_arm=True)`
  builds from ANY state sequence.  Proofs in Lemmas/TileGenome.lean, Lemmas/TileRuns.lean.
-/
import CnvVerif.Model.Tile
import CnvVerif.Model.TileExt
import CnvVerif.Lemmas.Tile
import CnvVerif.Lemmas.TileFields
import CnvVerif.Lemmas.TileGenome
import CnvVerif.Lemmas.TileRuns
namespace CnvVerif.C03
open CnvVerif

/-- on each chromosome the segments have positive length, are sorted and do not overlap -/
theorem hmm_tile_sorted_positive_disjoint (u : List Bin) (hw : WFGenome u) (runs : List Nat)
    (h1c : RunsOnOneChrom (splitLens (u.filter (·.keep)) runs)) :
    (∀ g ∈ assembleUnit u runs, g.s < g.e) ∧
    (assembleUnit u runs).Pairwise (fun a b => a.chrom = b.chrom → a.e ≤ b.s) :=
  assembleGenome_sorted_disjoint u hw runs h1c

/-- … stay within the span of that chromosome's input bins: a segment starts where an input bin of ITS chromosome
    starts and ends where one ends -/
theorem hmm_tile_within_span (u : List Bin) (hw : WFGenome u) (runs : List Nat)
    (h1c : RunsOnOneChrom (splitLens (u.filter (·.keep)) runs)) :
    ∀ g ∈ assembleUnit u runs,
      (∃ b ∈ u, b.chrom = g.chrom ∧ b.s = g.s) ∧ (∃ b ∈ u, b.chrom = g.chrom ∧ b.e = g.e) :=
  assembleGenome_within u hw runs h1c

/-- every bin that survived filtering lies in exactly one segment … -/
theorem hmm_each_survivor_once (u : List Bin) (hw : WFGenome u) (runs : List Nat)
    (h1c : RunsOnOneChrom (splitLens (u.filter (·.keep)) runs)) :
    ∀ b ∈ u, b.keep = true → ((assembleUnit u runs).filter (containedIn b)).length = 1 :=
  assembleGenome_each_survivor_once u hw runs h1c

/-- … whose `probes` equals the number of surviving bins it contains -/
theorem hmm_probes_counts_survivors (u : List Bin) (hw : WFGenome u) (runs : List Nat)
    (h1c : RunsOnOneChrom (splitLens (u.filter (·.keep)) runs)) :
    ∀ g ∈ assembleUnit u runs,
      g.probes = ((u.filter (fun b => b.keep && containedIn b g)).length : Int) :=
  assembleGenome_probes_count u hw runs h1c

/-- every chromosome with a surviving bin has a segment -/
theorem hmm_chromosome_with_survivor_has_segment (u : List Bin) (hw : WFGenome u) (runs : List Nat)
    (h1c : RunsOnOneChrom (splitLens (u.filter (·.keep)) runs)) :
    ∀ b ∈ u, b.keep = true → ∃ g ∈ assembleUnit u runs, g.chrom = b.chrom :=
  assembleGenome_chrom_has_segment u hw runs h1c

/-- whatever states the HMM predicts and however the arms are numbered, no run of
    `squash_by_groups(survivors, states, by_arm=True)` crosses a chromosome boundary, and the runs are a partition
    of the survivors in order -/
theorem hmm_state_runs_stay_on_one_chromosome (survivors : List Bin) (tags : List Int) :
    RunsOnOneChrom (splitLens survivors (hmmRuns survivors tags)) ∧
    (splitLens survivors (hmmRuns survivors tags)).flatten = survivors :=
  ⟨hmmRuns_onOneChrom survivors tags, hmmRuns_sum survivors tags⟩

/-- headline for the HMM methods: for EVERY state sequence, the segments reported for a whole table tile each
    chromosome and account for every surviving bin; probes sum to the survivors and each log2 is the weighted
    mean of the run's survivors -/
theorem hmm_path_tiles_every_chromosome (u : List Bin) (hw : WFGenome u) (tags : List Int) :
    let segs := assembleUnit u (hmmRuns (u.filter (·.keep)) tags)
    (∀ g ∈ segs, g.s < g.e) ∧
    segs.Pairwise (fun a b => a.chrom = b.chrom → a.e ≤ b.s) ∧
    (∀ g ∈ segs, (∃ b ∈ u, b.chrom = g.chrom ∧ b.s = g.s) ∧ (∃ b ∈ u, b.chrom = g.chrom ∧ b.e = g.e)) ∧
    (∀ b ∈ u, b.keep = true → (segs.filter (containedIn b)).length = 1) ∧
    (∀ g ∈ segs, g.probes = ((u.filter (fun b => b.keep && containedIn b g)).length : Int)) ∧
    sumI (segs.map (·.probes)) = ((u.filter (·.keep)).length : Int) ∧
    (∀ g ∈ segs, ∃ run ∈ splitLens (u.filter (·.keep)) (hmmRuns (u.filter (·.keep)) tags),
      run ≠ [] ∧ g.probes = (run.length : Int) ∧ g.log2 = wmeanLog2 run) := by
  have h1c := hmmRuns_onOneChrom (u.filter (·.keep)) tags
  exact ⟨(assembleGenome_sorted_disjoint u hw _ h1c).1, (assembleGenome_sorted_disjoint u hw _ h1c).2,
    assembleGenome_within u hw _ h1c, assembleGenome_each_survivor_once u hw _ h1c,
    assembleGenome_probes_count u hw _ h1c, assembleUnit_probes_sum u _, assembleUnit_log2_probes u _⟩

/-- the one-arm setting of Props/C03.lean is a special case of the whole-table setting -/
theorem arm_unit_is_a_whole_table_unit (u : List Bin) (hw : WFUnit u) (runs : List Nat) :
    WFGenome u ∧ RunsOnOneChrom (splitLens (u.filter (·.keep)) runs) :=
  ⟨hw.toGenome, runsOnOneChrom_of_unit hw _ (fun b hb => by
    rw [splitLens_flatten] at hb; exact (List.mem_filter.mp hb).1)⟩

/-! non-vacuity: a table of two chromosomes, every bin of the first one filtered out (the shape of defect R), a
    filtered edge bin on the second; states 0,0,1 -/
example :
    let u : List Bin := [ ⟨"chr1", 0, 10, "A", 0, 1, 5, false⟩, ⟨"chr1", 10, 20, "A", 0, 1, 5, false⟩,
                          ⟨"chr2", 5, 10, "B", 1, 1, 5, true⟩, ⟨"chr2", 10, 20, "B", 1, 3, 5, true⟩,
                          ⟨"chr2", 30, 40, "C", 0, 1, 5, true⟩, ⟨"chr2", 40, 50, "C", 0, 1, 5, false⟩ ]
    hmmRuns (u.filter (·.keep)) [0, 0, 1] = [2, 1] ∧
    (assembleUnit u (hmmRuns (u.filter (·.keep)) [0, 0, 1])).map (fun g => (g.chrom, g.s, g.e, g.probes, g.gene)) =
      [("chr2", 5, 20, 2, "B"), ("chr2", 30, 50, 1, "C")] := by decide +kernel
example : WFGenome [ ⟨"chr1", 0, 10, "A", 0, 1, 5, false⟩, ⟨"chr2", 0, 10, "B", 1, 1, 5, true⟩,
                     ⟨"chr2", 10, 20, "B", 1, 3, 5, true⟩ ] := by
  unfold WFGenome; decide +kernel
/-- a state run that continues across a chromosome boundary is cut there -/
example : hmmRuns [ ⟨"chr1", 0, 10, "A", 0, 1, 5, true⟩, ⟨"chr2", 0, 10, "B", 1, 1, 5, true⟩ ] [7, 7] = [1, 1] := by
  decide +kernel

end CnvVerif.C03
