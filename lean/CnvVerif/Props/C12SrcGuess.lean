/-
  C12 (round 5c): tie of `guess_chromosome_regions` to the source TEXT.  `Generated.src_guess_chromosome_regions`
  (Generated/ExprsGuess.lean) is re-read from cnvlib/antitarget.py on every run by harness/extractors/exprs_guess.py:
  the list of end points (one per `by_chromosome()` group, its LAST row's end) and the column of de-duplicated names,
  combined positionally by `GA.from_columns`.  The hand model `guessRegions` (Model/Bins.lean) IS that term at the
  telomere allowance `get_antitargets` passes, for every target table; and since both columns run over the chromosomes
  in order of first appearance, each name is paired with the end of its OWN last bait.
-/
import CnvVerif.Props.C12
import CnvVerif.Lemmas.BinsExt
import CnvVerif.Lemmas.IntervalTable
import CnvVerif.Generated.ExprsGuess
namespace CnvVerif.C12.SrcGuess
open CnvVerif CnvVerif.Generated

/-- the names `by_chromosome()` yields are the de-duplicated chromosome column, in that order -/
theorem groups_names (tg : Table) : (groupByChrom tg).map (·.1) = (tg.map (·.chrom)).eraseDups := by
  unfold groupByChrom chromsInOrder
  rw [List.map_map]
  exact List.map_id' _

/-- the source's two columns have one entry per chromosome: nothing is cut off by the positional combination -/
theorem columns_same_length (tg : Table) :
    ((groupByChrom tg).map (fun g => (((g.2.map (·.e)).getLast?).getD 0))).length
      = ((tg.map (·.chrom)).eraseDups).length := by
  rw [← groups_names, List.length_map, List.length_map]

/-- SOURCE TIE: the model's guessed extents are what the source text computes, for every target table and every
    telomere allowance … -/
theorem guess_is_the_source_at (tg : Table) (tel : Int) :
    src_guess_chromosome_regions tg tel
      = (chromsInOrder tg).map (fun c => (⟨c, tel, lastEndOf tg c, ""⟩ : Row)) := by
  unfold src_guess_chromosome_regions
  simp only []
  rw [← groups_names, List.zipWith_map, List.zipWith_self]
  unfold groupByChrom lastEndOf
  rw [List.map_map]
  apply List.map_congr_left
  intro c _
  simp [Function.comp, List.getLast?_map]

/-- … in particular at the allowance `get_antitargets` hands over (`TELOMERE_SIZE`, read by extractors/bins.py) -/
theorem guessRegions_is_the_source (tg : Table) :
    guessRegions tg = src_guess_chromosome_regions tg TELOMERE_SIZE := by
  rw [guess_is_the_source_at, guessRegions_eq]

/-- the access-less path of `get_antitargets` works on the source's guessed regions -/
theorem effectiveAccess_none_is_the_source (tg : Table) :
    effectiveAccess tg none = .ok (src_guess_chromosome_regions tg TELOMERE_SIZE) := by
  rw [← guessRegions_is_the_source]; rfl

theorem effectiveAccess_empty_is_the_source (tg : Table) :
    effectiveAccess tg (some []) = .ok (src_guess_chromosome_regions tg TELOMERE_SIZE) := by
  rw [← guessRegions_is_the_source]; rfl

/-- EACH CHROMOSOME'S GUESSED REGION IS ITS OWN: a row of the source's result starts at the allowance and ends where
    the LAST bait of the row's own chromosome ends (a bait of the table, on that chromosome, last in table order) -/
theorem guessed_region_is_its_own (tg : Table) (tel : Int) (r : Row)
    (hr : r ∈ src_guess_chromosome_regions tg tel) :
    r.s = tel ∧ r.gene = "" ∧
      ∃ b ∈ tg, b.chrom = r.chrom ∧ b.e = r.e ∧ (tg.filter (fun x => x.chrom == r.chrom)).getLast? = some b := by
  rw [guess_is_the_source_at, List.mem_map] at hr
  obtain ⟨c, hc, rfl⟩ := hr
  refine ⟨rfl, rfl, ?_⟩
  have hc' : c ∈ tg.map (·.chrom) := by
    unfold chromsInOrder at hc
    exact List.mem_eraseDups.mp hc
  obtain ⟨b0, hb0, hb0c⟩ := List.mem_map.mp hc'
  have hne : tg.filter (fun x => x.chrom == c) ≠ [] := by
    intro h
    have : b0 ∈ tg.filter (fun x => x.chrom == c) := List.mem_filter.mpr ⟨hb0, by simp [hb0c]⟩
    rw [h] at this
    exact absurd this List.not_mem_nil
  obtain ⟨b, hb⟩ : ∃ b, (tg.filter (fun x => x.chrom == c)).getLast? = some b := by
    cases h : (tg.filter (fun x => x.chrom == c)).getLast? with
    | none => exact absurd (List.getLast?_eq_none_iff.mp h) hne
    | some b => exact ⟨b, rfl⟩
  have hmem : b ∈ tg.filter (fun x => x.chrom == c) := List.mem_of_getLast? hb
  obtain ⟨hbt, hbc⟩ := List.mem_filter.mp hmem
  refine ⟨b, hbt, by simpa using hbc, ?_, hb⟩
  simp [lastEndOf, hb]

/-- one region per chromosome: the names of the result are pairwise different, so "the region of chromosome c" is
    unique and (by the theorem above) carries c's own last end -/
theorem guessed_names_nodup (tg : Table) (tel : Int) :
    ((src_guess_chromosome_regions tg tel).map (·.chrom)).Nodup := by
  rw [guess_is_the_source_at, List.map_map]
  have : ((fun r : Row => r.chrom) ∘ fun c => (⟨c, tel, lastEndOf tg c, ""⟩ : Row)) = id := rfl
  rw [this, List.map_id]
  exact it_nodup_eraseDups _

/-- non-vacuity, on interleaved chromosomes: chr2 first, its last row (table order) ends at 700, chr1's at 900 -/
example : src_guess_chromosome_regions
    [⟨"chr2", 100, 200, "a"⟩, ⟨"chr1", 50, 60, "b"⟩, ⟨"chr2", 600, 700, "c"⟩, ⟨"chr1", 800, 900, "d"⟩] 150000
    = [⟨"chr2", 150000, 700, ""⟩, ⟨"chr1", 150000, 900, ""⟩] := by decide

end CnvVerif.C12.SrcGuess
