/-
  C05, round 4 -- the bias corrections and the sex bookkeeping of `do_reference` INSIDE the model
  (Model/ReferenceExt.lean; proofs in Lemmas/ReferenceExt.lean).

  `doReferenceOpts doGc doEdge doRmask kT kA …` is `do_reference(…, do_gc, do_edge, do_rmask)`: after centring and the sex
  shift each sample goes through `fix.center_by_window` (C04's model, composed here) for GC, RepeatMasker and edge bias
  as the decision table `blockCfg` says; the pseudo-sample is never corrected.  The correspondence run ties this model
  exactly to `do_reference` with corrections ON (general cohorts: noise, sex mixes, FASTA / gc column / neither).
-/
import CnvVerif.Props.C05
import CnvVerif.Lemmas.ReferenceExt
namespace CnvVerif.C05
open CnvVerif CnvVerif.Ref

/-- with all three corrections off the extended model IS the model of the property's first sentence -/
theorem corrections_off_is_the_plain_reference (kT kA : BlockKeys) (hapX : Bool) (par : Option String)
    (sexes : List (String × Bool)) (targets : List Sample) (anti : Option (List Sample)) :
    doReferenceOpts false false false kT kA hapX par sexes targets anti = doReference hapX par sexes targets anti :=
  doReferenceOpts_off kT kA hapX par sexes targets anti

/-- … and so is a block none of whose key columns exists (no FASTA, no gc column, antitargets: no edge keys) -/
theorem no_key_column_no_correction (cfg : CorrCfg) (hg : cfg.gc = none) (hr : cfg.rmask = none) (he : cfg.edge = none)
    (hapX : Bool) (par : Option String) (skipLow : Bool) (sexes : List (String × Bool)) (samples : List Sample) :
    refBlockOn cfg hapX par skipLow sexes samples = refBlock hapX par skipLow sexes samples :=
  refBlockOn_off cfg hg hr he hapX par skipLow sexes samples

/-- with corrections on, a reference block still has exactly the bins of the coverage files, in order -/
theorem corrected_reference_has_exactly_the_bins (cfg : CorrCfg) (hapX : Bool) (par : Option String) (skipLow : Bool)
    (sexes : List (String × Bool)) (samples : List Sample) (out : List RefOut) (first : Sample) (rest : List Sample)
    (hs : sortSamples samples = first :: rest)
    (h : refBlockOn cfg hapX par skipLow sexes samples = .ok out) :
    out.map (fun o => (o.chrom, o.s, o.e, o.gene)) = first.rows.map binKey :=
  refBlockOn_bins cfg hapX par skipLow sexes samples out first rest hs h

/-- … and files whose bins differ are still rejected -/
theorem corrected_reference_rejects_differing_bins (cfg : CorrCfg) (hapX : Bool) (par : Option String) (skipLow : Bool)
    (sexes : List (String × Bool)) (samples : List Sample) (first : Sample) (rest : List Sample) (bad : Sample)
    (hs : sortSamples samples = first :: rest) (hne : first.rows ≠ [])
    (hb : bad ∈ rest) (hd : bad.rows.map binKey ≠ first.rows.map binKey) :
    ∃ e, refBlockOn cfg hapX par skipLow sexes samples = .error e :=
  refBlockOn_rejects cfg hapX par skipLow sexes samples first rest bad hs hne hb hd

/-- normals that differ only in sequencing depth contribute the same values WITH the corrections on, whatever the
    key columns, the shuffle and the window: the depth scale is removed by the centring before any correction runs
    (so far a semantic clause of the correspondence run only: `depth_only_normals_same_profile_corrections_on`) -/
theorem depth_scale_collapses_with_corrections (cfg : CorrCfg) (hapX : Bool) (par : Option String) (isXX : Option Bool)
    (flat : List Rat) (rows : List CovRow) (c : Rat) (hne : rows ≠ []) :
    sampleLogrOn cfg hapX par false isXX flat (rows.map (fun r => { r with log2 := r.log2 + c }))
      = sampleLogrOn cfg hapX par false isXX flat rows :=
  sampleLogrOn_depth_scale cfg hapX par isXX flat rows c hne

/-- the decision table: targets never get the RepeatMasker correction, antitargets never the edge correction, the
    edge correction of the targets follows `do_edge` alone, `do_gc = false` switches GC off everywhere and
    `do_rmask = false` the RepeatMasker correction -/
theorem which_correction_runs_where (doGc doEdge doRmask : Bool) (k : BlockKeys) :
    (blockCfg true doGc doEdge doRmask k).rmask = none ∧
    (blockCfg false doGc doEdge doRmask k).edge = none ∧
    (blockCfg true doGc doEdge doRmask k).edge = (if doEdge then some k.edge else none) ∧
    (doGc = false → (blockCfg true doGc doEdge doRmask k).gc = none ∧ (blockCfg false doGc doEdge doRmask k).gc = none) ∧
    (doRmask = false → (blockCfg false doGc doEdge doRmask k).rmask = none) :=
  blockCfg_table doGc doEdge doRmask k

/-- with a genome FASTA its G+C fractions are the GC key (a gc column in the files is then ignored) and its lowercase
    fractions the antitargets' RepeatMasker key; without one the files' gc column is the GC key -/
theorem where_the_gc_key_comes_from (isTarget doEdge doRmask : Bool) (k : BlockKeys) (g m : List Rat)
    (hk : k.fastaGc = some g) (hm : k.fastaRm = some m) :
    (blockCfg isTarget true doEdge doRmask k).gc = some g ∧
    (blockCfg isTarget true doEdge doRmask { k with fastaGc := none, fastaRm := none }).gc = k.fileGc ∧
    (blockCfg false true doEdge true k).rmask = some m :=
  blockCfg_gc_source isTarget doEdge doRmask k g m k.fileGc hk hm

/-- a sex given on the command line / as `female_samples` applies to the sample of every target file (and to nothing else) -/
theorem given_sex_applies_to_every_target_sample (f : Bool) (ids : List String) (tInf aInf : List (String × Option Bool))
    (k : String) : lookup (resolveSexes (some f) ids tInf aInf) k = if k ∈ ids then some f else none :=
  resolveSexes_given f ids tInf aInf k

/-- sexes inferred: the answer from a sample's antitarget file wins; without one the answer from its target file
    stands; a sample without any answer has no entry (`shift_sex_chroms` then treats it like a male one) -/
theorem antitargets_decide_the_inferred_sex (ids : List String) (tInf aInf : List (String × Option Bool)) (k : String) :
    lookup (resolveSexes none ids tInf aInf) k =
      match lookup (inferSexes aInf) k with | some b => some b | none => lookup (inferSexes tInf) k :=
  resolveSexes_inferred ids tInf aInf k

/-- `infer_sexes` file by file: an answer is recorded under the file's sample id (replacing an earlier one), no
    answer (empty file, no sex chromosome) leaves the dictionary as it is -/
theorem inferred_sexes_file_by_file (inf : List (String × Option Bool)) (id : String) (ans : Option Bool) (k : String) :
    lookup (inferSexes (inf ++ [(id, ans)])) k =
      match ans with
      | some b => if k = id then some b else lookup (inferSexes inf) k
      | none => lookup (inferSexes inf) k :=
  inferSexes_snoc inf id ans k

/-! non-vacuity: a block configuration in which every kind of key is live, and a sex dictionary -/
example :
    let k : BlockKeys := { fastaGc := some [3/10, 1/2], fastaRm := some [0, 1/4], fileGc := some [2/5, 2/5],
                           edge := [-1/3, -1/5], perm := [1, 0], wing := 1 }
    (blockCfg true true true true k).gc = some [3/10, 1/2] ∧ (blockCfg true true true true k).edge = some [-1/3, -1/5] ∧
    (blockCfg false true true true k).rmask = some [0, 1/4] ∧
    (blockCfg true true false false { k with fastaGc := none, fastaRm := none }).gc = some [2/5, 2/5] := by
  decide +kernel
example : ([⟨"chr1", 0, 100, "a", 1, 2⟩] : List CovRow) ≠ [] := by simp
example : lookup (resolveSexes none ["a", "b"] [("a", some true), ("b", some false)] [("a", some false), ("b", none)]) "a"
    = some false ∧
    lookup (resolveSexes none ["a", "b"] [("a", some true), ("b", some false)] [("a", some false), ("b", none)]) "b"
    = some false ∧ lookup (resolveSexes (some true) ["a"] [] []) "b" = none := by decide +kernel

end CnvVerif.C05
