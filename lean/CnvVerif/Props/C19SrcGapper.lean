/-
  C19, tie to the source TEXT: `gapper_scale`: gaps of the sorted values weighted by `i*(n-i)`; the model leaves out the factor sqrt(pi), which is a parameter here.
  `Generated.src_gapper_scale` (Generated/ExprsDesc.lean) is re-translated from /repo's cnvlib/descriptives.py on every run by
  harness/vectrans.py (typed reading of the numpy vector subset); it is proved here that the hand-written model IS
  that expression, for all arguments.  One module per function: an edited formula breaks exactly this obligation.
-/
import CnvVerif.Generated.ExprsDesc
import CnvVerif.Lemmas.SrcDescVocab
namespace CnvVerif.C19
open CnvVerif CnvVerif.Desc CnvVerif.Generated CnvVerif.Src

set_option linter.unusedSimpArgs false
set_option linter.unusedVariables false

/-- `gapper_scale`: the source value is the model's (which leaves out the factor `√π`) times `√π` -/
theorem gapper_is_the_source (a : List Rat) (sqrt_pi : Rat) : src_gapper_scale a sqrt_pi = gapperCore a * sqrt_pi := by
  unfold src_gapper_scale gapperCore Np.arange
  simp only [sortR_length]
  generalize hs : sortR a = s
  have hn : s.length = a.length := by rw [← hs, sortR_length]
  generalize hg : diffs s = g
  have hL : g.length = a.length - 1 := by rw [← hg, diffs_length', hn]
  have hw : (List.zipWith (fun u v => u * v) (List.map (fun (i : Nat) => (i : Rat)) (List.range' 1 (a.length - 1)))
      (List.map (fun v => ((a.length : Nat) : Rat) - v) (List.map (fun (i : Nat) => (i : Rat)) (List.range' 1 (a.length - 1))))) =
      (List.range g.length).map (fun i => (((i + 1) * (a.length - (i + 1)) : Nat) : Rat)) := by
    rw [List.map_map, zipWith_map_same', List.range'_eq_map_range, List.map_map, hL]
    apply List.map_congr_left
    intro i hi
    have hi' : i < a.length - 1 := List.mem_range.mp hi
    simp only [Function.comp]
    rw [Nat.cast_mul, Nat.cast_sub (by omega)]
    push_cast; ring
  rw [hw, List.zipWith_map_right, zipWith_eq_zip_map']
  ring


end CnvVerif.C19
