/-
  C18: tie to the source TEXT.  The definitions `Generated.src_*` are re-translated from /repo's Python on every
  run (harness/exprtrans.py); these theorems state that the hand-written model formulas are those expressions.
  Kept in a module of their own so that an edit to a formula breaks exactly these obligations.
-/
import CnvVerif.Props.C18
import CnvVerif.Lemmas.SrcMirror
namespace CnvVerif.C18
open CnvVerif CnvVerif.Vcf

/-- the model's mirroring IS the expression `_mirrored_baf` computes when the side is left to the median test -/
theorem mirrored_baf_is_the_source (v m : Rat) :
    Vcf.mirrorOne (decide (m > 1/2)) v = Generated.src_mirrored_baf_auto v m := Src.mirrorOne_is_source v m

end CnvVerif.C18
