/-
  C13 at the level of the FASTA TEXT: "for any FASTA file, whatever its line width".  A text written record by
  record — `>name`, an optional description, then the sequence cut into physical lines of ANY widths, each
  followed by any trailing blanks (spaces, tabs, the '\r' of a CRLF line end), blank lines anywhere, '>' or blanks
  inside a sequence line — parses (`for line in infile`, `startswith(">")`, `split(None, 1)[0][1:]`, `rstrip()`) to
  exactly its records, and `get_regions` reports per sequence exactly the maximal runs of characters other than
  'N' of the concatenated sequence.  What counts as masked is the capital 'N' alone: lower-case 'n', IUPAC codes,
  interior blanks and a '>' that is not the first character of a line are ordinary sequence characters.
  Before this module the text layer was compared with Python at run time only.
-/
import CnvVerif.Props.C13
import CnvVerif.Lemmas.AccessText
namespace CnvVerif.C13
open CnvVerif

/-- parsing a well-formed text yields its records, whatever the line widths, line ends and trailing blanks -/
theorem fasta_text_parses_to_its_records (recs : List TRec) (h : ∀ r ∈ recs, WFRec r) :
    parseFasta (String.ofList (renderText recs)) = renderRecords (recordsOfText recs) :=
  parseFasta_renderText recs h

/-- `get_regions` on the text = per sequence the maximal non-'N' runs of the concatenated lines -/
theorem get_regions_of_text (recs : List TRec) (h : ∀ r ∈ recs, WFRec r) :
    getRegions (parseFasta (String.ofList (renderText recs))) =
      .ok (recs.flatMap (fun r => tagRuns (String.ofList r.name) (maxRuns (r.lines.flatMap (·.body))))) :=
  getRegions_renderText recs h

/-- in the property's words: `(name, s, e)` is reported iff `[s, e)` is a maximal run of non-'N' characters of
    the sequence of a record of that name -/
theorem text_reports_exactly_maximal_runs (recs : List TRec) (h : ∀ r ∈ recs, WFRec r) (reg : Region) :
    (∃ out, getRegions (parseFasta (String.ofList (renderText recs))) = .ok out ∧ reg ∈ out) ↔
      ∃ r ∈ recs, reg.1 = String.ofList r.name ∧
        IsMaxRun (nonN (r.lines.flatMap (·.body))) (r.lines.flatMap (·.body)).length reg.2.1 reg.2.2 := by
  rw [getRegions_renderText recs h]
  constructor
  · rintro ⟨out, ho, hm⟩
    cases ho
    obtain ⟨r, hr, hx⟩ := List.mem_flatMap.mp hm
    unfold tagRuns at hx
    obtain ⟨x, hx', rfl⟩ := List.mem_map.mp hx
    exact ⟨r, hr, rfl, (mem_maxRuns_iff _ x.1 x.2).mp hx'⟩
  · rintro ⟨r, hr, hname, hrun⟩
    refine ⟨_, rfl, List.mem_flatMap.mpr ⟨r, hr, ?_⟩⟩
    unfold tagRuns
    refine List.mem_map.mpr ⟨(reg.2.1, reg.2.2), (mem_maxRuns_iff _ _ _).mpr hrun, ?_⟩
    rw [← hname]

/-- a missing final newline changes nothing -/
theorem final_newline_is_optional (recs : List TRec) (h : ∀ r ∈ recs, WFRec r) :
    getRegions (parseFasta (String.ofList (renderText recs).dropLast)) =
      getRegions (parseFasta (String.ofList (renderText recs))) :=
  getRegions_renderText_noFinalNewline recs h

/-- only the capital 'N' masks: a sequence without it is one run, whatever else it holds -/
theorem only_capital_N_masks (w : List Char) (hne : w ≠ []) (h : 'N' ∉ w) : maxRuns w = [(0, w.length)] := by
  have hall : ∀ i, i < w.length → nonN w i = true := by
    intro i hi
    unfold nonN
    rw [List.getElem?_eq_getElem hi]
    have : w[i] ≠ 'N' := fun he => h (he ▸ List.getElem_mem hi)
    simpa using this
  have hmem : (0, w.length) ∈ maxRuns w := by
    rw [mem_maxRuns_iff]
    refine ⟨?_, Nat.le_refl _, ?_, Or.inl rfl, Or.inl rfl⟩
    · cases w with
      | nil => exact absurd rfl hne
      | cons _ _ => simp
    · intro i _ hi; exact hall i hi
  have hcan := accRuns_canon (nonN w) w.length
  have hin : ∀ r ∈ maxRuns w, r = (0, w.length) := by
    intro r hr
    have hr' := (mem_maxRuns_iff w r.1 r.2).mp hr
    obtain ⟨hlt', hle, _, hl, hrr⟩ := hr'
    have h1 : r.1 = 0 := by
      rcases hl with hl | hl
      · exact hl
      · exfalso
        have := hall (r.1 - 1) (Nat.lt_of_le_of_lt (Nat.sub_le _ _) (Nat.lt_of_lt_of_le hlt' hle))
        rw [this] at hl
        exact Bool.noConfusion hl
    have h2 : r.2 = w.length := by
      rcases hrr with hrr | hrr
      · exact hrr
      · by_cases heq : r.2 = w.length
        · exact heq
        · exfalso
          have := hall r.2 (Nat.lt_of_le_of_ne hle heq)
          rw [this] at hrr
          exact Bool.noConfusion hrr
    exact Prod.ext h1 h2
  -- a canonical list all of whose members are the same run has at most one member
  have hlen : ∀ l : List Run, CanonN l → (∀ r ∈ l, r = (0, w.length)) → (0, w.length) ∈ l → l = [(0, w.length)] := by
    intro l hc hall' hm
    match l, hc, hall', hm with
    | [], _, _, hm => simp at hm
    | [a], _, ha, _ => rw [ha a (by simp)]
    | a :: b :: t, hc, ha, _ =>
      exfalso
      have e1 := ha a (by simp)
      have e2 := ha b (by simp)
      have := (List.pairwise_cons.mp hc.2).1 b (by simp)
      have hpos := hc.1 a (by simp)
      rw [e1, e2] at this
      rw [e1] at hpos
      simp at this hpos
  exact hlen _ hcan hin hmem

example : maxRuns "acgtnRYKMSW >x".toList = [(0, 14)] := by decide

end CnvVerif.C13
