/-
  C03 round 5b: the BAF column of `do_segmentation(…, variants=)` -- every segment gets the BAF of its own range
  (finding AZ, at the place where it did the damage), whatever `variants_in_segment` returns and whatever the row
  labels are; `transfer_fields` and the per-arm concatenation keep the column attached.
-/
import CnvVerif.Model.TileBafExt5b
import CnvVerif.Props.C18Ext
namespace CnvVerif.C03Baf
open CnvVerif CnvVerif.Vcf CnvVerif.C18

theorem zip_map_self {α β} (l : List α) (f : α → β) : l.zip (l.map f) = l.map (fun a => (a, f a)) := by
  induction l with
  | nil => rfl
  | cons a t ih => simp [ih]

theorem length_setFirst {α} (f : α → α) (l : List α) : (setFirst f l).length = l.length := by
  cases l <;> simp [setFirst]

theorem length_setLast {α} (f : α → α) (l : List α) : (setLast f l).length = l.length := by
  induction l with
  | nil => rfl
  | cons a t ih =>
    cases t with
    | nil => rfl
    | cons b t' => simp only [setLast, List.length_cons] at ih ⊢; omega

theorem length_stretchEnds (unit : List Bin) (h : unit ≠ []) (l : List SegO) :
    (stretchEnds unit l).length = l.length := by
  cases unit with
  | nil => exact absurd rfl h
  | cons a t => simp [stretchEnds, length_setLast, length_setFirst]

theorem splitLens_nil {α} (ns : List Nat) : splitLens ([] : List α) ns = [] := by
  cases ns <;> simp [splitLens]

/-- the tiling model is the stretch + aggregation of the segmenter's table (so the BAF model below reports the same
    segments as `assembleUnit`, the model all C03 theorems speak about) -/
theorem assembleUnit_eq_stretch (unit : List Bin) (runs : List Nat) :
    assembleUnit unit runs = (stretchEnds unit (rawSegs unit runs)).map (aggregate unit) := by
  cases unit with
  | nil => rfl
  | cons a t =>
    unfold assembleUnit stretchEnds rawSegs
    by_cases h : ((a :: t).filter (·.keep)).isEmpty
    · have h' : (a :: t).filter (·.keep) = [] := List.isEmpty_iff.mp h
      simp [h', splitLens_nil, setFirst, setLast]
    · simp [h]

/-- **each row of the variants branch carries the BAF of its own range**: whatever `variants_in_segment` returns
    (`pieces`), row i of the re-segmented table is stored with the median mirrored frequency of the heterozygous
    SNVs inside row i's own range -/
theorem variantsBranch_own_range (tb : VTable) (pieces : SegO → List SegO) (segs0 : List SegO)
    (hwf : WFRows tb.rows) (hseg : ∀ g ∈ segs0.flatMap pieces, 0 ≤ g.s)
    (hg : ChromGrouped ((segs0.flatMap pieces).map rangeOf))
    (hh : ∃ r ∈ tb.rows, isHet r = true) (i : Nat) (hi : i < (segs0.flatMap pieces).length) :
    (variantsBranch tb pieces segs0)[i]? =
      some ((segs0.flatMap pieces)[i], specBaf tb.paired false none tb.rows (rangeOf (segs0.flatMap pieces)[i])) := by
  have hseg' : ∀ g ∈ (segs0.flatMap pieces).map rangeOf, 0 ≤ g.2.1 := by
    intro g hgm
    obtain ⟨x, hx, rfl⟩ := List.mem_map.mp hgm
    exact hseg x hx
  unfold variantsBranch
  simp only []
  rw [baf_is_median_of_mirrored tb _ false hwf hseg' hg hh, List.map_map, zip_map_self,
    List.getElem?_map, List.getElem?_eq_getElem hi]
  simp

/-- one BAF per row, for every table (no hypothesis) -/
theorem variantsBranch_length (tb : VTable) (pieces : SegO → List SegO) (segs0 : List SegO) :
    (variantsBranch tb pieces segs0).length = (segs0.flatMap pieces).length := by
  simp [variantsBranch, one_value_per_range]

/-- `transfer_fields` leaves the column where it is: row i keeps its BAF -/
theorem transferB_keeps_baf (unit : List Bin) (h : unit ≠ []) (sb : List (SegO × Option Rat)) (i : Nat) :
    ((transferB unit sb)[i]?).map (·.2) = (sb[i]?).map (·.2) := by
  unfold transferB
  by_cases hi : i < sb.length
  · rw [List.getElem?_eq_getElem (by simp [length_stretchEnds unit h, hi]), List.getElem?_eq_getElem hi]
    simp
  · have h1 : sb.length ≤ i := Nat.le_of_not_lt hi
    rw [List.getElem?_eq_none (by simp [length_stretchEnds unit h]; omega), List.getElem?_eq_none h1]

/-- … and the segments reported with variants (no segment re-split) are exactly the segments of the tiling model -/
theorem unitWithBaf_segments (tb : VTable) (unit : List Bin) (runs : List Nat) :
    (unitWithBaf tb keepWhole unit runs).map (·.1) = assembleUnit unit runs := by
  have hk : ∀ l : List SegO, l.flatMap keepWhole = l := by
    intro l; induction l with
    | nil => rfl
    | cons a t ih => simpa [keepWhole] using ih
  unfold unitWithBaf
  by_cases h : (unit.filter (·.keep)).isEmpty
  · have h' : unit.filter (·.keep) = [] := List.isEmpty_iff.mp h
    simp only [h, if_true, List.map_nil]
    rw [assembleUnit_eq_stretch]
    simp [rawSegs, h', splitLens_nil, stretchEnds]
    cases unit <;> simp [setFirst, setLast]
  · have hne : unit ≠ [] := by intro e; subst e; simp at h
    simp only [h, Bool.false_eq_true, if_false]
    rw [assembleUnit_eq_stretch]
    unfold transferB
    have hl : (variantsBranch tb keepWhole (rawSegs unit runs)).map (·.1) = rawSegs unit runs := by
      unfold variantsBranch
      simp only [hk]
      rw [List.map_fst_zip]
      simp [one_value_per_range]
    rw [List.map_fst_zip (by simp [length_stretchEnds unit hne]), hl]

/-- **the BAF column of one arm's result**: with variants given and no segment re-split, segment i of the arm is the
    tiling model's segment i and its BAF is that of the range the segmenter cut (before the endpoint stretch) -/
theorem unit_baf_is_own_range (tb : VTable) (unit : List Bin) (runs : List Nat)
    (hsurv : (unit.filter (·.keep)).isEmpty = false)
    (hwf : WFRows tb.rows) (hseg : ∀ g ∈ rawSegs unit runs, 0 ≤ g.s)
    (hg : ChromGrouped ((rawSegs unit runs).map rangeOf))
    (hh : ∃ r ∈ tb.rows, isHet r = true) (i : Nat) (hi : i < (rawSegs unit runs).length) :
    ((unitWithBaf tb keepWhole unit runs)[i]?).map (·.2) =
      some (specBaf tb.paired false none tb.rows (rangeOf (rawSegs unit runs)[i])) := by
  have hk : (rawSegs unit runs).flatMap keepWhole = rawSegs unit runs := by
    generalize rawSegs unit runs = l
    induction l with
    | nil => rfl
    | cons a t ih => simpa [keepWhole] using ih
  have hne : unit ≠ [] := by intro e; subst e; simp at hsurv
  unfold unitWithBaf
  simp only [hsurv, Bool.false_eq_true, if_false]
  rw [transferB_keeps_baf unit hne]
  have := variantsBranch_own_range tb keepWhole (rawSegs unit runs) hwf (by rw [hk]; exact hseg)
    (by rw [hk]; exact hg) hh i (by rw [hk]; exact hi)
  rw [this]
  simp [hk]

/-- the whole `baf` column of one arm, as a list -/
theorem unit_bafs_eq (tb : VTable) (unit : List Bin) (runs : List Nat)
    (hsurv : (unit.filter (·.keep)).isEmpty = false)
    (hwf : WFRows tb.rows) (hseg : ∀ g ∈ rawSegs unit runs, 0 ≤ g.s)
    (hg : ChromGrouped ((rawSegs unit runs).map rangeOf))
    (hh : ∃ r ∈ tb.rows, isHet r = true) :
    (unitWithBaf tb keepWhole unit runs).map (·.2) =
      (rawSegs unit runs).map (fun g => specBaf tb.paired false none tb.rows (rangeOf g)) := by
  have hk : (rawSegs unit runs).flatMap keepWhole = rawSegs unit runs := by
    generalize rawSegs unit runs = l
    induction l with
    | nil => rfl
    | cons a t ih => simpa [keepWhole] using ih
  have hne : unit ≠ [] := by intro e; subst e; simp at hsurv
  have hseg' : ∀ g ∈ (rawSegs unit runs).map rangeOf, 0 ≤ g.2.1 := by
    intro g hgm
    obtain ⟨x, hx, rfl⟩ := List.mem_map.mp hgm
    exact hseg x hx
  unfold unitWithBaf
  simp only [hsurv, Bool.false_eq_true, if_false]
  unfold transferB
  rw [List.map_snd_zip (by simp [length_stretchEnds unit hne])]
  unfold variantsBranch
  simp only [hk]
  rw [List.map_snd_zip (by simp [one_value_per_range]),
    baf_is_median_of_mirrored tb _ false hwf hseg' hg hh, List.map_map]
  rfl

/-- **`do_segmentation(…, variants=)` over all arms**: the segments are those of the tiling model, arm by arm, and the
    `baf` column is, in the same order, the BAF of each segment's own range (`ownBafs`, the property's wording) --
    whatever labels the rows carry (finding AZ cannot recur without breaking this equation or the tie to the code) -/
theorem doSeg_baf_column_is_own_ranges (tb : VTable) (units : List (List Bin)) (runs : List (List Nat))
    (hwf : WFRows tb.rows) (hh : ∃ r ∈ tb.rows, isHet r = true)
    (hu : ∀ p ∈ units.zip runs, (p.1.filter (·.keep)).isEmpty = false →
      (∀ g ∈ rawSegs p.1 p.2, 0 ≤ g.s) ∧ ChromGrouped ((rawSegs p.1 p.2).map rangeOf)) :
    (doSegBaf tb keepWhole units runs).map (·.2) = ownBafs tb units runs ∧
    (doSegBaf tb keepWhole units runs).map (·.1) = (units.zip runs).flatMap (fun p => assembleUnit p.1 p.2) := by
  unfold doSegBaf ownBafs
  generalize units.zip runs = l at hu
  induction l with
  | nil => exact ⟨rfl, rfl⟩
  | cons p t ih =>
    obtain ⟨ih1, ih2⟩ := ih (fun q hq => hu q (List.mem_cons_of_mem _ hq))
    refine ⟨?_, by simp only [List.flatMap_cons, List.map_append, ih2, unitWithBaf_segments]⟩
    simp only [List.flatMap_cons, List.map_append, ih1]
    congr 1
    cases hs : (p.1.filter (·.keep)).isEmpty with
    | true => simp [unitWithBaf, hs]
    | false =>
      obtain ⟨h1, h2⟩ := hu p List.mem_cons_self hs
      simp only [Bool.false_eq_true, if_false]
      exact unit_bafs_eq tb p.1 p.2 hs hwf h1 h2 hh

/-! ### non-vacuity: an arm of four bins (one dropped in front), cut into two segments, over the example table of
    Props/C18 (which meets `WFRows` and has heterozygous rows, see there) -/

def exUnit : List Bin :=
  [ ⟨"chr1", 0, 5, "a", 0, 1, 1, false⟩, ⟨"chr1", 5, 25, "a", 0, 1, 1, true⟩,
    ⟨"chr1", 25, 35, "b", 1, 1, 1, true⟩, ⟨"chr1", 35, 100, "b", 1, 1, 1, true⟩ ]

example : (exUnit.filter (·.keep)).isEmpty = false := by decide
example : ∀ g ∈ rawSegs exUnit [1, 2], 0 ≤ g.s := by decide +kernel
example : ChromGrouped ((rawSegs exUnit [1, 2]).map rangeOf) := by
  refine ⟨?_, ?_, trivial⟩ <;> decide +kernel
/-- the first segment is stretched to 0 but its BAF is that of the range 5..25 the segmenter cut; the second segment's
    BAF is its own (1/4), not the first one's -/
example : (assembleUnit exUnit [1, 2]).map (fun g => (g.s, g.e)) = [(0, 25), (25, 100)] ∧
    (rawSegs exUnit [1, 2]).map (fun g => (g.s, g.e, specBaf true false none exRows (rangeOf g))) =
      [(5, 25, some (3/8)), (25, 100, some (1/4))] := by decide +kernel

end CnvVerif.C03Baf
