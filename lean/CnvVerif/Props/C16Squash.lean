/-
  C16 (round 5): `squash_genes` fills a squashed row BY POSITION (proposed_fixes/C16-squash-column-order.md): what is
  promised for ANY order of the optional columns, and what is not.  `Squash16.headSpec / xfields / sumField` are tied
  to the source text of `squash_rows` (Generated/ExprsSquashGenes.lean, harness/extractors/exprs_squashgenes.py).

  Promised (`squash_labels_required_columns`): on a table whose first five columns are chromosome, start, end, gene,
  log2 -- as every reader and `from_rows` produce -- a squashed row carries, under THOSE names, the group's chromosome,
  its first start, its last end, the gene's name and the summary of log2, whatever further columns follow in whatever
  order.  Promised too (`squash_labels_append_order`): when the further columns stand in the order the code appends
  them, every column gets its own summary.  NOT promised (`squash_swapped_*`): in any other order the summaries land
  under each other's names, and a further column the code does not know leaves the squashed row too short.
-/
import CnvVerif.Model.SquashExt5
import CnvVerif.Generated.ExprsSquashGenes
namespace CnvVerif.C16
open CnvVerif CnvVerif.Squash16 CnvVerif.Generated

/-- the head of `outrow` is the list literal of the source, value by value (start = FIRST start, end = LAST end, …) -/
theorem squash_head_is_the_source : headSpec = src_squash_head := by decide

/-- the optional fields and their order are the tuple the source loops over; the summed field is the source's -/
theorem squash_fields_are_the_source : xfields = src_squash_xfields ∧ sumField = src_squash_total := by decide

/-- **coordinates, gene and log2 for ANY further columns in ANY order**: when the call does not raise, the first five
    labelled values are the group's chromosome, first start, last end, the gene name, the summary of log2 -/
theorem squash_labels_required_columns (rest : List String) (l : List (String × Desc))
    (h : labelled (required ++ rest) = some l) :
    l.take 5 = [("chromosome", ("chromosome", "unique")), ("start", ("start", "first")), ("end", ("end", "last")),
                ("gene", ("gene", "name")), ("log2", ("log2", "summary"))] := by
  unfold labelled at h
  split at h
  · cases h
    simp [required, outrow, headSpec]
  · cases h

theorem required_lacks (x : String) (hx : x ∈ xfields ∨ x = sumField.1) : required.contains x = false := by
  rcases hx with hx | rfl
  · simp only [xfields, List.mem_cons, List.mem_nil_iff, or_false] at hx
    rcases hx with rfl | rfl | rfl | rfl | rfl <;> decide
  · decide

theorem outrow_required (rest : List String) :
    outrow (required ++ rest) = headSpec ++ (appendOrder rest).map
      (fun x => if x = sumField.1 then sumField else (x, "summary")) := by
  have hx : xfields.filter (fun x => (required ++ rest).contains x) = xfields.filter (fun x => rest.contains x) := by
    apply List.filter_congr
    intro x hx
    simp only [List.contains_append, required_lacks x (Or.inl hx), Bool.false_or]
  have hp : (required ++ rest).contains sumField.1 = rest.contains sumField.1 := by
    simp only [List.contains_append, required_lacks sumField.1 (Or.inr rfl), Bool.false_or]
  unfold outrow appendOrder
  rw [hx, hp, List.map_append, List.append_assoc]
  congr 2
  · apply List.map_congr_left
    intro x hx
    have hx' := (List.mem_filter.mp hx).1
    have : x ≠ sumField.1 := by
      simp only [xfields, List.mem_cons, List.mem_nil_iff, or_false] at hx'
      rcases hx' with rfl | rfl | rfl | rfl | rfl <;> decide
    simp [this]
  · by_cases h : rest.contains sumField.1 = true
    · rw [if_pos h, if_pos h]; simp
    · rw [if_neg h, if_neg h]; rfl

theorem squash16_mem_zip_self {l : List String} {q : String × String} (h : q ∈ l.zip l) : q.1 = q.2 := by
  induction l with
  | nil => cases h
  | cons a as ih =>
    simp only [List.zip_cons_cons, List.mem_cons] at h
    rcases h with rfl | h
    · rfl
    · exact ih h

/-- **every column gets its own value when the further columns stand in the order the code appends them** (depth, gc,
    rmask, spread, weight, then probes; missing ones left out) -/
theorem squash_labels_append_order (rest : List String) (h : rest = appendOrder rest) :
    ∃ l, labelled (required ++ rest) = some l ∧ ∀ p ∈ l, p.2.1 = p.1 := by
  have hlen : (outrow (required ++ rest)).length = (required ++ rest).length := by
    rw [outrow_required]; simp only [List.length_append, List.length_map]
    conv => rhs; rw [h]
    rfl
  refine ⟨_, by unfold labelled; rw [if_pos hlen], ?_⟩
  intro p hp
  rw [outrow_required] at hp
  have hz : (required ++ rest).zip (headSpec ++ (appendOrder rest).map
      (fun x => if x = sumField.1 then sumField else (x, "summary"))) =
      required.zip headSpec ++ rest.zip ((appendOrder rest).map
        (fun x => if x = sumField.1 then sumField else (x, "summary"))) := by
    rw [List.zip_append]; rfl
  rw [hz] at hp
  rcases List.mem_append.mp hp with hp | hp
  · simp only [required, headSpec, List.zip_cons_cons, List.zip_nil_right, List.mem_cons, List.mem_nil_iff,
      or_false] at hp
    rcases hp with rfl | rfl | rfl | rfl | rfl <;> rfl
  · rw [← h, List.zip_map_right] at hp
    obtain ⟨q, hq, rfl⟩ := List.mem_map.mp hp
    have hq' : q.1 = q.2 := squash16_mem_zip_self hq
    show (if q.2 = "probes" then (("probes", "total") : Desc) else (q.2, "summary")).1 = q.1
    by_cases hs : q.2 = "probes"
    · rw [if_pos hs, hq', hs]
    · rw [if_neg hs, hq']

/-- NOT promised, 1: `weight` before `depth` -- each gets the other's summary -/
theorem squash_swapped_weight_depth :
    (labelled (required ++ ["weight", "depth"])).map (·.drop 5) =
      some [("weight", ("depth", "summary")), ("depth", ("weight", "summary"))] := by decide

/-- NOT promised, 2: the order `segment` writes and a file reader produces (depth, probes, weight) -- `probes` gets the
    summary of weight, `weight` the summed probes (coordinates, gene, log2 and depth stay right) -/
theorem squash_swapped_reader_order_with_probes :
    (labelled (required ++ ["depth", "probes", "weight"])).map (·.drop 5) =
      some [("depth", ("depth", "summary")), ("probes", ("weight", "summary")), ("weight", ("probes", "total"))] := by
  decide

/-- NOT promised, 3: a further column the code does not know -- the squashed row is SHORTER than the table (measured on
    /repo: the trailing columns of that row are NaN when the table also has a single-bin row, `ValueError` otherwise) -/
theorem squash_unknown_column_short_row : labelled (required ++ ["depth", "baf"]) = none := by decide

/-- non-vacuity of the hypotheses: the reader's order without `probes` is the append order; a call that succeeds -/
example : ["depth", "gc", "weight"] = appendOrder ["depth", "gc", "weight"] := by decide
example : (labelled (required ++ ["weight", "gc", "depth"])).isSome = true := by decide

end CnvVerif.C16
