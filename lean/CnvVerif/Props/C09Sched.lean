/-
  C09, the clause "the table is the same for any number of worker processes": a SMALL-STEP model of the process
  pool (Model/CoverageSched.lean: workers take waiting tasks and finish them in any interleaving, results go to the
  slot of their submission index, `Executor.map` reads the slots in order) and theorems by induction over ANY
  schedule (= any list of worker events).  Which gather discipline the source uses is re-read from
  cnvlib/coverage.py on every run (`Generated.COVERAGE_GATHER_MODES`); the theorems are about the model
  instantiated with that generated value, so a rewrite to completion order (`as_completed`) breaks them.
  Proofs in Lemmas/CoverageSched.lean.
-/
import CnvVerif.Props.C09
import CnvVerif.Lemmas.CoverageSched
namespace CnvVerif.C09
open CnvVerif CnvVerif.Cov CnvVerif.Cov.Sched

/-- both parallel sections take results back by submission index, and both have a pool-free `procs == 1` path -/
theorem gather_discipline_source :
    Generated.COVERAGE_GATHER_MODES = ["ordered", "ordered"] ∧ Generated.COVERAGE_SERIAL_PATH = [true, true] :=
  ⟨rfl, rfl⟩

/-- safety along every schedule: after ANY list of worker events (enabled or not, any number of workers, any pick
    from the queue) every filled result slot holds the result of the task submitted under that index -/
theorem slots_never_wrong {α β} (f : α → β) (xs : List α) (nw : Nat) (evs : List Ev) (i : Nat) (y : β)
    (h : (run f (init nw xs) evs).slots[i]? = some (some y)) : (xs[i]?).map f = some y :=
  (inv_run f xs _ evs (inv_init f xs nw)).slot_ok i y h

/-- what the consumer's `for … in pool.map(…)` loop has been handed so far is, at every moment of every schedule, a
    prefix of the serial result list — never a wrong table, never one out of order -/
theorem map_yields_serial_prefix {α β} (f : α → β) (xs : List α) (nw : Nat) (evs : List Ev) :
    yieldedSoFar (run f (init nw xs) evs) <+: xs.map f :=
  yielded_prefix f xs _ (inv_run f xs _ evs (inv_init f xs nw))

/-- when the pool has come to rest (nothing waiting, nobody working) the ordered gather IS the serial map,
    whatever the schedule was -/
theorem map_result_any_schedule {α β} (f : α → β) (xs : List α) (nw : Nat) (evs : List Ev) (ys : List β)
    (h : schedMap "ordered" f xs nw evs = some ys) : ys = xs.map f :=
  schedMap_ordered f xs nw evs ys h

/-- no deadlock: with at least one worker EVERY prefix of events can be continued to a finished pool -/
theorem every_schedule_completable {α β} (f : α → β) (xs : List α) (nw : Nat) (hnw : 0 < nw) (evs : List Ev) :
    ∃ more, schedMap "ordered" f xs nw (evs ++ more) = some (xs.map f) :=
  schedMap_completable f xs nw hnw evs

/-- each enabled event brings the pool strictly closer to rest (2·waiting + running decreases): schedules terminate -/
theorem enabled_event_progress {α β} (f : α → β) (st : St α β) (hq : quiescent st = false)
    (hw : 0 < st.running.length) : ∃ ev, Sched.measure (step f st ev) < Sched.measure st :=
  progress f st hq hw

/-- gathering in completion order would NOT be schedule-independent: two tasks, two workers, the second finishes
    first -/
theorem as_completed_would_lose_order :
    schedMap "as_completed" (fun (n : Nat) => n * 10) [1, 2] 2 [.take 0 0, .take 1 0, .finish 1, .finish 0]
      = some [20, 10] ∧
    schedMap "ordered" (fun (n : Nat) => n * 10) [1, 2] 2 [.take 0 0, .take 1 0, .finish 1, .finish 0]
      = some [10, 20] := by
  decide +kernel

/-- the command under ANY worker schedule, any number of workers `nw`, any `processes`, any chunk size ≥ 1, either
    algorithm: if the schedule lets the pool finish, the table is the serial table -/
theorem table_any_worker_schedule (contigs : List (String × Nat)) (reads : List Read) (q : Nat)
    (lines : List BedLine) (algo : Algo) (procs size nw : Nat) (evs : List Ev) (hs : 0 < size)
    (t : List OutRow) (h : coverageSched contigs reads q lines algo procs size nw evs = .ok (some t)) :
    coverage contigs reads q lines algo 1 1 [] = .ok t :=
  coverageSched_eq_serial contigs reads q lines algo procs size nw evs hs t h

/-- … a refused regions file is refused under every schedule … -/
theorem refusal_any_worker_schedule (contigs : List (String × Nat)) (reads : List Read) (q : Nat)
    (lines : List BedLine) (algo : Algo) (procs size nw : Nat) (evs : List Ev) (e : String) :
    coverageSched contigs reads q lines algo procs size nw evs = .error e ↔
      coverage contigs reads q lines algo 1 1 [] = .error e :=
  coverageSched_error_iff contigs reads q lines algo procs size nw evs e

/-- … and every partial schedule of a pool with ≥ 1 worker can be continued so that the command returns its table -/
theorem command_always_completable (contigs : List (String × Nat)) (reads : List Read) (q : Nat)
    (lines : List BedLine) (algo : Algo) (procs size nw : Nat) (hnw : 0 < nw) (evs : List Ev)
    (hv : validate contigs lines = none) :
    ∃ more t, coverageSched contigs reads q lines algo procs size nw (evs ++ more) = .ok (some t) :=
  coverageSched_completable contigs reads q lines algo procs size nw hnw evs hv

/-! ### non-vacuity -/

/-- three one-line chunks on two workers; worker 1 prefetches the LAST chunk, finishes first; same table as serial -/
example : (coverageSched [("c", 100)] exReads 10 exBed .pileup 2 1 2
    [.take 0 0, .take 1 1, .finish 1, .take 1 0, .finish 1, .finish 0]).toOption = some (some exRows) := by
  decide +kernel

/-- a schedule that stops early leaves the pool unfinished: no table yet (`none`), and what has been yielded is a
    proper prefix -/
example : (coverageSched [("c", 100)] exReads 10 exBed .pileup 2 1 2 [.take 0 0, .take 1 1, .finish 1]).toOption
    = some none := by
  decide +kernel

/-- events that are not enabled (worker 7 does not exist, worker 0 is busy, nothing is waiting at place 9) do nothing -/
example : run (fun (n : Nat) => n + 1) (init 1 [5, 6]) [.take 7 0, .take 0 0, .take 0 0, .take 0 9, .finish 3]
    = run (fun (n : Nat) => n + 1) (init 1 [5, 6]) [.take 0 0] := by
  decide +kernel

end CnvVerif.C09
