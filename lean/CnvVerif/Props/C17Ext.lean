/-
  C17, growth: consequences of the definitions for ALL inputs that so far only the differential run exhibited.
  Every spread statistic is non-negative; all of them are unchanged when the bins and the segment value move
  together (they are statistics of the deviations); standard deviation, SEM, MAD and IQR do not depend on the
  subtracted segment value at all, while the MSE does (it is the error from the segment value, fix M).
  Helper lemmas: Lemmas/StatsExt.lean.
-/
import CnvVerif.Props.C17
import CnvVerif.Lemmas.StatsExt
namespace CnvVerif.C17
open CnvVerif CnvVerif.Stats

/-- every spread statistic `do_segmetrics` offers is ≥ 0 on every list of deviations (for `stdev`, `sem`,
    `bivar` -- square roots -- the radicand is; NaN results make no claim) -/
theorem spread_statistics_nonneg (nm : String) (f : List Rat → StatOut) (hf : spreadStat nm = some f)
    (d : List Rat) : (f d).val.NonNeg := by
  unfold spreadStat at hf
  split at hf <;> first
    | (injection hf with hf; subst hf
       first
         | exact statStdev_nonneg d | exact statMad_nonneg d | exact statMse_nonneg d
         | exact statIqr_nonneg d | exact statBivar_nonneg d | exact statSem_nonneg d)
    | exact absurd hf (by simp)

/-- moving every bin's log2 and the segment's log2 by the same amount `c` leaves every requested spread
    statistic of the row as it was: they are statistics of the deviations `bin − segment` -/
theorem spread_unchanged_by_common_shift (cfg : Cfg) (sg : Seg) (bs : List Bin) (boot : List BootRow) (c : Rat)
    (nm : String) (f : List Rat → StatOut) (hf : spreadStat nm = some f) (hn : nm ∈ cfg.spread) :
    (nm, f ((bs.map (·.log2)).map (· - sg.log2))) ∈
      (segRow cfg { sg with log2 := sg.log2 + c } (bs.map (fun b => { b with log2 := b.log2 + c })) boot).stats := by
  have h := mem_stats_spread cfg { sg with log2 := sg.log2 + c } (bs.map (fun b => { b with log2 := b.log2 + c }))
    boot nm f hf hn
  have e : ((bs.map (fun b => { b with log2 := b.log2 + c })).map (·.log2)) = (bs.map (·.log2)).map (· + c) := by
    simp [List.map_map, Function.comp_def]
  rw [e, deviations_common_shift] at h
  exact h

/-- standard deviation, SEM, MAD and IQR measure spread about their own centre: whatever value `s` is subtracted
    from the bins (the segment's log2), they are the statistics of the bins' log2 themselves -/
theorem location_free_spreads_ignore_segment_value (l : List Rat) (s : Rat) :
    statStdev (l.map (· - s)) = statStdev l ∧ statSem (l.map (· - s)) = statSem l ∧
    statMad (l.map (· - s)) = statMad l ∧ statIqr (l.map (· - s)) = statIqr l :=
  ⟨statStdev_shift l s, statSem_shift l s, statMad_shift l s, statIqr_shift l s⟩

/-- … and the MSE is the one that does depend on it: the same two bins against segment values 0 and 2 -/
theorem mse_depends_on_segment_value :
    (statMse ([1, 3].map (· - 0))).val = .num 5 ∧ (statMse ([1, 3].map (· - 2))).val = .num 1 := by
  decide +kernel

/-! ### non-vacuity -/
example : spreadStat "iqr" = some statIqr := rfl
example : (statIqr [3, 1, 2, 7]).val.NonNeg := statIqr_nonneg _
example : (statStdev [1, 3]).val = .sqrtOf 1 ∧ (statStdev ([1, 3].map (· - 2))).val = .sqrtOf 1 := by decide +kernel
example : (statMad [1, 3, 8]).val.NonNeg := statMad_nonneg _

end CnvVerif.C17
