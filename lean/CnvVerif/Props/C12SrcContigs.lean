/-
  C12: tie to the source TEXT (`drop_noncanonical_contigs`, `compare_chrom_names`).  The definitions `Generated.src_*` of Generated/ExprsBins.lean are
  re-translated from /repo's Python on every run (harness/exprtrans.py for the arithmetic of `do_antitarget`,
  harness/settrans.py for the rules over sets of names); these theorems state that the hand-written model functions
  ARE those expressions, for all arguments.  One module per source function group, so that an edit to one of the
  rules breaks exactly the obligations about it.
-/
import CnvVerif.Props.C12
import CnvVerif.Lemmas.SrcBinsContigs
namespace CnvVerif.C12
open CnvVerif CnvVerif.Generated

/-- the contigs the model skips ARE the value of `chroms_to_skip` in `drop_noncanonical_contigs` (both branches:
    canonical-name rule and name-length rule), with `is_canonical_contig_name` = the generated regex rule -/
theorem chroms_to_skip_is_the_source (acc tg : Table) :
    skipOf acc tg = src_chroms_to_skip isCanonicalName (chromsInOrder acc) (chromsInOrder tg) :=
  Src.skipOf_is_source acc tg

/-- what `drop_noncanonical_contigs` returns, in terms of the source's `chroms_to_skip` -/
theorem drop_noncanonical_is_the_source (acc tg : Table) :
    dropNoncanonical acc tg =
      if src_chrom_names_clash (chromsInOrder acc) (chromsInOrder tg) then .error "ValueError"
      else .ok (acc.filter (fun r =>
        !(src_chroms_to_skip isCanonicalName (chromsInOrder acc) (chromsInOrder tg)).contains r.chrom)) := by
  rw [dropNoncanonical_eq, Src.skipOf_is_source, Src.chromNamesClash_is_source]

/-- the refusal of `compare_chrom_names` (annotation file vs baits, access vs targets) IS the source's condition -/
theorem chrom_names_clash_is_the_source (a b : Table) :
    chromNamesClash a b = src_chrom_names_clash (chromsInOrder a) (chromsInOrder b) :=
  Src.chromNamesClash_is_source a b

end CnvVerif.C12
