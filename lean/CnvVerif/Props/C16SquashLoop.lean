/-
  C16 (round 5b): the OUTER loop of `CopyNumArray.squash_genes`: its clauses.

  The clauses of the loop as theorems about the model (`squashGroup`, `squashGenes` of Model/Genes.lean): an empty group
  gives no row, a pass-through group gives its own rows unchanged, any other group gives exactly one row, the output is
  the concatenation in group order, and its row count is the sum.  Props/C16SrcSquashLoop.lean proves the model EQUAL to
  the loop re-read from the source text on every run (Generated/ExprsSquashLoop.lean).
-/
import CnvVerif.Model.Genes
import CnvVerif.Generated.Consts
namespace CnvVerif.C16
open CnvVerif CnvVerif.Genes CnvVerif.Generated

/-- `squash_rows` of the model as a total function (a non-empty group always has a squashed row) -/
def squashloopRow (f : Summary) (name : String) (rows : List Bin) : Bin := (squashRows f name rows).getD default

theorem squashloop_rows_some (f : Summary) (name : String) (a : Bin) (as : List Bin) :
    (squashRows f name (a :: as)).toList = [squashloopRow f name (a :: as)] := by
  unfold squashloopRow
  cases as with
  | nil => simp [squashRows]
  | cons b bs =>
    have hne' : (a :: b :: bs) ≠ [] := by simp
    have hl := List.getLast?_eq_some_getLast hne'
    unfold squashRows
    rw [hl]
    rfl

/-- the number of rows one group contributes -/
def squashloopCount (sa : Bool) (p : String × List Bin) : Nat :=
  if p.2.isEmpty then 0 else if ANTITARGET_ALIASES.contains p.1 && !sa then p.2.length else 1

/-- **`continue`**: an empty group contributes nothing -/
theorem squashloop_empty_group (f : Summary) (sa : Bool) (g : String) : squashGroup f sa (g, []) = [] := rfl

/-- **pass-through**: with `squash_antitarget` off, the rows of an antitarget / ignored-name group (`by_gene` labels
    both with an alias) come out unchanged, every field, in their order -/
theorem squashloop_passthrough (f : Summary) (g : String) (grp : List Bin)
    (hg : ANTITARGET_ALIASES.contains g = true) : squashGroup f false (g, grp) = grp := by
  cases grp with
  | nil => rfl
  | cons a as =>
    have hg' : g ∈ ANTITARGET_ALIASES := by simpa using hg
    simp [squashGroup, hg']

/-- **one squashed row** for every non-empty group that is not passed through (a gene, or any group when
    `squash_antitarget` is on) -/
theorem squashloop_one_row (f : Summary) (sa : Bool) (g : String) (grp : List Bin) (hne : grp ≠ [])
    (h : ANTITARGET_ALIASES.contains g = false ∨ sa = true) :
    squashGroup f sa (g, grp) = [squashloopRow f g grp] := by
  cases grp with
  | nil => exact absurd rfl hne
  | cons a as =>
    have hr := squashloop_rows_some f g a as
    rcases h with h | h
    · have h' : g ∉ ANTITARGET_ALIASES := by simpa using h
      simp [squashGroup, h', hr]
    · subst h; simp [squashGroup, hr]

theorem squashloop_group_length (f : Summary) (sa : Bool) (p : String × List Bin) :
    (squashGroup f sa p).length = squashloopCount sa p := by
  obtain ⟨name, rows⟩ := p
  cases rows with
  | nil => rfl
  | cons a as =>
    have h := squashloop_rows_some f name a as
    cases sa <;> by_cases hc : name ∈ ANTITARGET_ALIASES <;>
      simp [squashGroup, squashloopCount, hc, h]

/-- **order**: the rows of the groups before a group come first, then that group's rows, then the rest --
    the output is the concatenation of the groups' contributions in the order `by_gene` yields them -/
theorem squashloop_order (f : Summary) (sa : Bool) (before after : List (String × List Bin)) (p : String × List Bin) :
    (before ++ p :: after).flatMap (squashGroup f sa) =
      before.flatMap (squashGroup f sa) ++ squashGroup f sa p ++ after.flatMap (squashGroup f sa) := by
  simp [List.flatMap_append, List.flatMap_cons]

/-- **row count**: the output has one row per squashed group plus the rows of the pass-through groups -/
theorem squashloop_row_count (f : Summary) (sa : Bool) (ignore : List String) (t : List Bin) (pre : Bool) :
    (squashGenes f sa ignore t pre).length = ((byGeneV pre ignore t).map (squashloopCount sa)).sum := by
  unfold squashGenes
  induction byGeneV pre ignore t with
  | nil => rfl
  | cons p ps ih => simp [List.flatMap_cons, ih, squashloop_group_length]

/-- **one row per gene group, in order**: when every group is non-empty and none is passed through, the k-th output
    row is the squashed row of the k-th group -/
theorem squashloop_one_row_per_group (f : Summary) (sa : Bool) (groups : List (String × List Bin))
    (h : ∀ p ∈ groups, p.2 ≠ [] ∧ (ANTITARGET_ALIASES.contains p.1 = false ∨ sa = true)) :
    groups.flatMap (squashGroup f sa) = groups.map (fun p => squashloopRow f p.1 p.2) := by
  induction groups with
  | nil => rfl
  | cons p ps ih =>
    have hp := h p (List.mem_cons_self ..)
    rw [List.flatMap_cons, List.map_cons, ih (fun q hq => h q (List.mem_cons_of_mem _ hq)),
      squashloop_one_row f sa p.1 p.2 hp.1 hp.2]
    rfl

/-- non-vacuity: a gene group of two bins between two antitarget bins -/
example : let b (s : Int) (g : String) : Bin := { label := 0, chrom := "chr1", s := s, e := s + 10, gene := g, log2 := 1, depth := 1, weight := 1 }
    (squashGenes .mean false [] [b 0 "Antitarget", b 10 "A", b 20 "A", b 30 "Antitarget"]).length = 3 := by decide
example : (ANTITARGET_ALIASES.contains "GENE" = false ∨ false = true) := by decide

end CnvVerif.C16
