/-
  C10 — "…the same table … under any state of the global random generators", with the closure of the RNG table
  extended to LIBRARY routines that draw from numpy's global generator internally (scipy k-means++, scikit-learn
  estimators with `random_state=None`, `DataFrame.sample`, `.rvs`): harness/extractors/effects_rng.py →
  Generated/EffectsRng.lean.  A function that reaches such a routine is in the table even when it never spells
  `np.random.*` itself, and its skeleton has a `draw "hidden"` loop where the library may draw.
-/
import CnvVerif.Model.Effects
import CnvVerif.Lemmas.Effects
import CnvVerif.Lemmas.EffectsExact
import CnvVerif.Generated.EffectsConsts
import CnvVerif.Generated.EffectsRng
namespace CnvVerif.C10
open CnvVerif CnvVerif.Effects

/-- every public function of cnvlib / skgenome that reaches a global random generator — directly or inside a
    scipy / scikit-learn / pandas routine — re-seeds with a constant before the first possible draw, on every path -/
theorem all_skeletons_reseeded_incl_library_draws :
    Generated.RNG_TABLE_LIB.all (fun e => !e.2.1 || (safeSk e.2.2 false).isSome) = true := by decide +kernel

/-- hence every run of every such entry point draws the same values, inside the libraries too, whatever the
    generator state was -/
theorem entry_points_independent_of_rng_state_incl_library_draws {σ ν : Type} (g : Gen σ ν)
    (e : String × Bool × Sk) (he : e ∈ Generated.RNG_TABLE_LIB) (hpub : e.2.1 = true)
    (l t : List ROp) (hp : Path e.2.2 l) (ht : t <+: l) (s₁ s₂ : σ) : draws g t s₁ = draws g t s₂ := by
  have h := List.all_eq_true.mp all_skeletons_reseeded_incl_library_draws e he
  rw [hpub] at h
  simp only [Bool.not_true, Bool.false_or, Option.isSome_iff_exists] at h
  obtain ⟨b', hb'⟩ := h
  exact draws_independent_of_state g hb' hp ht s₁ s₂

/-- the wider reading loses nothing: every function of the source-level table is in the extended one -/
theorem library_closure_extends_source_closure :
    Generated.RNG_TABLE.all (fun e => Generated.RNG_TABLE_LIB.any (fun x => x.1 == e.1 && x.2.1 == e.2.1)) = true := by
  decide +kernel

/-- every library call read as a possible draw is either given a literal seed of its own or sits in a function of
    the table (and is therefore covered by `all_skeletons_reseeded_incl_library_draws`) -/
theorem library_draw_sites_are_seeded_or_listed :
    Generated.LIBRARY_DRAW_SITES.all (fun s => s.2.2.2 ||
      Generated.RNG_TABLE_LIB.any (fun e => e.1.endsWith ("." ++ s.2.1))) = true ∧
    Generated.LIBRARY_DRAW_SITES ≠ [] := by decide +kernel

/-- the analysis is exact, not only sound: it accepts a skeleton IF AND ONLY IF on every complete path through it
    every draw comes after a constant re-seeding — a rejection always comes with a real path that draws first -/
theorem skeleton_analysis_exact (sk : Sk) :
    (safeSk sk false).isSome = true ↔ ∀ l, Path sk l → safeOps l false = true := by
  constructor
  · intro h l hp
    obtain ⟨b', hb'⟩ := Option.isSome_iff_exists.mp h
    exact (safeSk_sound hp false b' hb').1
  · intro h
    cases hs : safeSk sk false with
    | some b' => rfl
    | none =>
      obtain ⟨l, hp, hu⟩ := safeSk_exact hs
      rw [h l hp] at hu
      cases hu

/-! ### non-vacuity -/

/-- the k-means step of `reference --cluster` is in the extended table with its library draw after the seed -/
example : Generated.SKL_cnvlib_cluster_kmeans =
    Sk.seq (Sk.op (ROp.seed (some 679661))) (Sk.star (Sk.op (ROp.draw "hidden"))) := rfl

/-- the skeleton the extractor produced BEFORE the PCA call was given a seed (`pca_sk` draws first): rejected -/
example : safeSk (Sk.seq (Sk.star (Sk.op (ROp.draw "hidden")))
    (Sk.seq (Sk.op (ROp.seed (some 679661))) (Sk.star (Sk.op (ROp.draw "hidden"))))) false = none := by decide +kernel

/-- a real path: seed, then two draws inside scipy -/
example : Path Generated.SKL_cnvlib_cluster_kmeans [.seed (some 679661), .draw "hidden", .draw "hidden"] := by
  unfold Generated.SKL_cnvlib_cluster_kmeans
  exact Path.seq (Path.op _) (Path.starCons (l₁ := [_]) (Path.op _) (Path.starCons (l₁ := [_]) (Path.op _) Path.starNil))

end CnvVerif.C10
