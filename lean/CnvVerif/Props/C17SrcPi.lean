/-
  C17: tie to the source TEXT, cnvlib/segmetrics.py (make_pi_func).  The definitions `Generated.src_*` of Generated/ExprsStats.lean are re-translated
  from /repo's Python on every run (harness/exprtrans.py, `emit_values`); these theorems state that the hand-written
  model formulas of Model/Stats.lean are those expressions.  Kept in a module of their own so that an edit to a
  formula breaks exactly these obligations.
-/
import CnvVerif.Props.C17
import CnvVerif.Lemmas.SrcStatsPi
import Mathlib.Tactic.NormNum
import Mathlib.Tactic.Positivity
namespace CnvVerif.C17
open CnvVerif CnvVerif.Stats CnvVerif.Generated

/-- the prediction interval's percentile levels ARE the two levels `make_pi_func` hands to `np.percentile` -/
theorem pi_levels_are_the_source (l : List Rat) (alpha : Rat) :
    piFunc l alpha = (percentile l (src_pi_pct_lo alpha), percentile l (src_pi_pct_hi alpha)) :=
  Src.piFunc_is_source l alpha

end CnvVerif.C17
