/-
  C18: the general bridge between the two models of the sample choice.  `Model/Vcf.lean` (`chooseNames`, `chooseSamples`,
  `readVcf`, `loadHetSnps`) knows PEDIGREE records only and is what the theorems of Props/C18.lean / C18Ext.lean speak about;
  `Model/VcfPairs.lean` (`chooseNamesH`, …, `loadHetSnpsH`) knows all three header conventions and is what the driver runs.
  Here: on EVERY header without GATK records -- all sample lists, all PEDIGREE tags, all selectors, all records, all options
  -- the two are the same function, so every theorem about the first is a theorem about what the driver ops compute.
-/
import CnvVerif.Model.VcfPairs
import CnvVerif.Props.C18Pairs
namespace CnvVerif.C18
open CnvVerif CnvVerif.Vcf


/-- a PEDIGREE pair as a declared pair -/
def bridgeLiftPair (p : String × String) : DPair := (some p.1, p.2)
/-- a chosen (sample, normal) of `chooseNames` as one of `chooseNamesH` -/
def bridgeLiftChoice (p : String × Option String) : Option String × Option String := (some p.1, p.2)

theorem bridge_candidatePairsH_lift (samples : List String) (peds : List (String × String)) (nid : Option String) :
    candidatePairsH samples (peds.map bridgeLiftPair) nid = candidatePairs samples peds nid := by
  cases peds with
  | nil => simp [candidatePairsH]
  | cons a l => simp [candidatePairsH, candidatePairs, bridgeLiftPair, List.map_map, Function.comp_def]

/-- every candidate pair names a tumour -/
theorem bridge_candidatePairs_tumour (samples : List String) (peds : List (String × String)) (nid : Option String) :
    ∀ p ∈ candidatePairs samples peds nid, p.1.isSome = true := by
  intro p hp
  unfold candidatePairs at hp
  split at hp
  · simp only [List.mem_map] at hp
    obtain ⟨q, _, rfl⟩ := hp; rfl
  · split at hp
    · simp only [List.mem_map] at hp
      obtain ⟨q, _, rfl⟩ := hp; rfl
    · simp only [List.mem_map] at hp
      obtain ⟨q, _, rfl⟩ := hp; rfl

/-- the last step of both functions agrees on a list whose pairs all name a tumour -/
theorem bridge_head_lift (pairs : List (Option String × Option String)) (hs : ∀ p ∈ pairs, p.1.isSome = true) :
    (match pairs.head? with
      | some p => (.ok p : Except VErr (Option String × Option String))
      | none => .error .indexError) =
    (match pairs.head? with
      | some (some s, n) => (.ok (s, n) : Except VErr (String × Option String))
      | _ => .error .indexError).map bridgeLiftChoice := by
  cases pairs with
  | nil => rfl
  | cons p l =>
    obtain ⟨a, b⟩ := p
    have := hs (a, b) (by simp)
    cases a with
    | none => simp at this
    | some s => rfl

/-- the part of both functions after the `sample_id` filter (`b` = "no sample id given") -/
theorem bridge_tail_lift (samples : List String) (sid : Option String) (pairs1 : List (Option String × Option String)) (b : Bool)
    (h1 : ∀ p ∈ pairs1, p.1.isSome = true) (hb : b = false → sid.isSome = true) :
    (if (pairs1.isEmpty && b) = true then (.error .indexError : Except VErr (Option String × Option String)) else
      if (!((pairNames (if pairs1.isEmpty = true then [(sid, (none : Option String))] else pairs1)).all
          (fun nm => samples.count nm == 1))) = true then .error .indexError else
      match (if pairs1.isEmpty = true then [(sid, (none : Option String))] else pairs1).head? with
      | some p => .ok p
      | none => .error .indexError) =
    (if (pairs1.isEmpty && b) = true then (.error .indexError : Except VErr (String × Option String)) else
      if (!((pairNames (if pairs1.isEmpty = true then [(sid, (none : Option String))] else pairs1)).all
          (fun nm => samples.count nm == 1))) = true then .error .indexError else
      match (if pairs1.isEmpty = true then [(sid, (none : Option String))] else pairs1).head? with
      | some (some s, n) => .ok (s, n)
      | _ => .error .indexError).map bridgeLiftChoice := by
  by_cases h2 : (pairs1.isEmpty && b) = true
  · simp only [h2, if_true]; rfl
  · simp only [h2]
    have h3 : ∀ p ∈ (if pairs1.isEmpty = true then [(sid, (none : Option String))] else pairs1), p.1.isSome = true := by
      intro p hp
      by_cases he : pairs1.isEmpty = true
      · simp only [he, if_true, List.mem_singleton] at hp
        subst hp
        exact hb (by simpa [he] using h2)
      · simp only [he] at hp; exact h1 p hp
    generalize (if pairs1.isEmpty = true then [(sid, (none : Option String))] else pairs1) = pairs at h3 ⊢
    by_cases h4 : (!((pairNames pairs).all (fun nm => samples.count nm == 1))) = true
    · simp only [h4, if_true]; rfl
    · simp only [h4]
      exact bridge_head_lift pairs h3


/-- `chooseNamesH` on PEDIGREE-declared pairs IS `chooseNames`: for all sample lists, pairs and ids -/
theorem chooseNamesH_eq_chooseNames (samples : List String) (peds : List (String × String)) (sid nid : Option String) :
    chooseNamesH samples (peds.map bridgeLiftPair) sid nid = (chooseNames samples peds sid nid).map bridgeLiftChoice := by
  unfold chooseNamesH chooseNames
  rw [bridge_candidatePairsH_lift]
  have h0 := bridge_candidatePairs_tumour samples peds nid
  generalize candidatePairs samples peds nid = pairs0 at h0 ⊢
  by_cases h1 : (selOk samples sid && selOk samples nid) = true
  swap
  · simp [h1, Except.map]
  simp only [h1, Bool.not_true, Bool.false_eq_true, if_false]
  cases hts : truthy sid with
  | none => exact bridge_tail_lift samples sid pairs0 true h0 (by simp)
  | some s =>
    refine bridge_tail_lift samples sid (pairs0.filter (fun p => p.1 == some s)) false
      (fun p hp => h0 p (List.mem_filter.mp hp).1) (fun _ => ?_)
    cases sid with
    | none => simp [truthy] at hts
    | some x => rfl

/-- a header without GATK records declares its PEDIGREE pairs -/
theorem headerPairs_no_gatk (samples : List String) (h : Hdr) (hg : h.gatk = []) (hm : h.mutect2 = false) :
    headerPairs samples h = (parsePedigrees h.tags).map (fun l => l.map bridgeLiftPair) := by
  obtain ⟨tags, gatk, m2⟩ := h
  simp only at hg hm
  subst hg hm
  rw [headerPairs_pedigree_only]
  unfold pedPairs
  cases parsePedigrees tags <;> rfl

/-- `_choose_samples`: the two models agree on every header without GATK records -/
theorem chooseSamplesH_eq_chooseSamples (samples : List String) (h : Hdr) (hg : h.gatk = []) (hm : h.mutect2 = false)
    (sidSel nidSel : Sel) :
    chooseSamplesH samples h sidSel nidSel = (chooseSamples samples h.tags sidSel nidSel).map bridgeLiftChoice := by
  unfold chooseSamplesH chooseSamples
  rw [headerPairs_no_gatk samples h hg hm]
  cases resolveSel samples sidSel with
  | error e => rfl
  | ok sid =>
    cases resolveSel samples nidSel with
    | error e => rfl
    | ok nid =>
      simp only [bind, Except.bind]
      by_cases hs : (!(selOk samples sid && selOk samples nid)) = true
      · simp only [hs, if_true]; rfl
      · simp only [hs]
        cases parsePedigrees h.tags with
        | error e => rfl
        | ok peds =>
          simp only [Except.map]
          have := chooseNamesH_eq_chooseNames samples peds sid nid
          simpa [Except.map] using this

/-- `tabio.read(…, "vcf", …)`: the two models agree on every header without GATK records, for all records and options -/
theorem readVcfH_eq_readVcf (samples : List String) (h : Hdr) (hg : h.gatk = []) (hm : h.mutect2 = false)
    (recs : List Rec) (o : ReadOpts) :
    readVcfH samples h recs o = readVcf samples h.tags recs o := by
  unfold readVcfH
  rw [readVcf_eq_readWith, chooseSamplesH_eq_chooseSamples samples h hg hm]
  cases chooseSamples samples h.tags o.sid o.nid with
  | error e => rfl
  | ok p => rfl

/-- `load_het_snps`: likewise -/
theorem loadHetSnpsH_eq_loadHetSnps (samples : List String) (h : Hdr) (hg : h.gatk = []) (hm : h.mutect2 = false)
    (recs : List Rec) (o : HetOpts) :
    loadHetSnpsH samples h recs o = loadHetSnps samples h.tags recs o := by
  unfold loadHetSnpsH loadHetSnps
  rw [readVcfH_eq_readVcf samples h hg hm]

/-- so the sample-choice wording proved for the PEDIGREE model (`specPair`) transfers: what `chooseSamplesH` answers on a
    header without GATK records is never a pair without a tumour -/
theorem no_gatk_choice_names_a_tumour (samples : List String) (h : Hdr) (hg : h.gatk = []) (hm : h.mutect2 = false)
    (sidSel nidSel : Sel) (p : Option String × Option String)
    (hc : chooseSamplesH samples h sidSel nidSel = .ok p) : p.1.isSome = true := by
  rw [chooseSamplesH_eq_chooseSamples samples h hg hm] at hc
  cases hcs : chooseSamples samples h.tags sidSel nidSel with
  | error e => rw [hcs] at hc; cases hc
  | ok q => rw [hcs] at hc; cases hc; rfl

/-- non-vacuity: the hypotheses hold on a header with PEDIGREE records, and fail to be needed nowhere: with a MuTect record
    the H model can answer a pair without a tumour, which `chooseSamples` cannot express -/
example : ({ tags := [[("Derived", "T"), ("Original", "N")]] } : Hdr).gatk = [] ∧
    ({ tags := [[("Derived", "T"), ("Original", "N")]] } : Hdr).mutect2 = false := by decide
example : chooseSamplesH ["N", "T"] { tags := [[("Derived", "T"), ("Original", "N")]] } .unset .unset
    = .ok (some "T", some "N") := by decide

end CnvVerif.C18
