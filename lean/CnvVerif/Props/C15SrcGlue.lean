/-
  C15, round 5b: tie of the glue to the source TEXT.  `Generated.src_guess_xx`, `src_sex_row`, `src_strsign_plus`
  (Generated/ExprsSexGlue.lean) are re-read from cnvlib/cnary.py (`guess_xx`) and cnvlib/commands.py (`do_sex`) on every
  run (harness/extractors/exprs_sex_glue.py); these theorems state that the hand-written `guessXX`, `sexRow`, `strsign`
  of Model/SexExt5.lean ARE those definitions, for every table, every `compare_to_auto` and all options.
-/
import CnvVerif.Model.SexExt5
import CnvVerif.Generated.ExprsSexGlue
set_option linter.unusedSimpArgs false
namespace CnvVerif.C15x
open CnvVerif

/-- what Python sees of the model's result: `(None, {})` for `none` (the empty dict is `none`), else the pair -/
def c15PyPair (r : Option (Bool × SexStats)) : Option Bool × Option SexStats :=
  match r with
  | none => (none, none)
  | some (b, st) => (some b, some st)

/-- `stats[key]` for the five keys of the statistics dict (`none` = NaN; an unknown key also reads as `none`) -/
def c15StatsGet (st : SexStats) (k : String) : Option Rat :=
  if k = "chrx_ratio" then st.chrxRatio
  else if k = "chry_ratio" then st.chryRatio
  else if k = "combined_score" then st.combined
  else if k = "chrx_male_lr" then st.chrxLr
  else if k = "chry_male_lr" then st.chryLr
  else none

/-- the only literal a ratio column may show is "NA" (anything else is not a `Cell`) -/
def c15CellLit (s : String) : Option Cell := if s = "NA" then some .na else none

/-- `strsign` puts the "+" exactly where the source's test says (and never in front of NaN) -/
theorem strsign_is_the_source (v : Option Rat) :
    strsign v = .num (match v with | some q => Generated.src_strsign_plus q | none => false) v := by
  cases v <;> simp [strsign, Generated.src_strsign_plus]

/-- `guess_xx` IS the source: it calls `compare_sex_chromosomes` with the reference flag and the PAR genome it was
    given and `skip_low` at its default, returns None without a decision and the negated decision otherwise -/
theorem guess_xx_is_the_source (cta : Cta) (hapX : Bool) (par : Option String) (t : List CBin) :
    guessXX cta hapX par t =
      Generated.src_guess_xx (fun h p s => c15PyPair (compareSex cta h p s t)) hapX par := by
  unfold guessXX Generated.src_guess_xx
  cases h : compareSex cta hapX par false t with
  | none => simp [c15PyPair, h]
  | some r => obtain ⟨b, st⟩ := r; simp [c15PyPair, h]

/-- the row of `do_sex` IS the source: same call, "Male" on a true decision and "Female" otherwise (also without a
    decision), `strsign` of `chrx_ratio` / `chry_ratio` when there are statistics and "NA" when the dict is empty -/
theorem sex_row_is_the_source (cta : Cta) (hapX : Bool) (par : Option String) (t : List CBin) :
    (let row := sexRow cta hapX par t; (row.1, some row.2.1, some row.2.2)) =
      Generated.src_sex_row (fun h p s => c15PyPair (compareSex cta h p s t)) c15StatsGet
        (fun v => some (strsign v)) c15CellLit hapX par := by
  unfold sexRow Generated.src_sex_row
  cases h : compareSex cta hapX par false t with
  | none => simp [c15PyPair, c15CellLit, h]
  | some r =>
    obtain ⟨b, st⟩ := r
    cases b <;> simp [c15PyPair, c15StatsGet, h]

/-- consequence, read off the generated text alone: whatever `compare_sex_chromosomes` does, the report says "Male"
    iff `guess_xx` (same arguments) returns False -/
theorem src_row_male_iff_src_guess_not_xx {σ κ : Type}
    (csc : Bool → Option String → Bool → Option Bool × Option σ) (get : σ → String → Option Rat)
    (ss : Option Rat → κ) (lit : String → κ) (hapX : Bool) (par : Option String) :
    (Generated.src_sex_row csc get ss lit hapX par).1 = "Male" ↔
      Generated.src_guess_xx csc hapX par = some false := by
  unfold Generated.src_sex_row Generated.src_guess_xx
  cases h : (csc hapX par false).1 with
  | none => simp [h]
  | some b => cases b <;> simp [h]

/-- non-vacuity: the generated row on a concrete result with / without statistics -/
example : Generated.src_sex_row (σ := SexStats) (fun _ _ _ => (some true, some ⟨some 1, none, none, none, none⟩))
    c15StatsGet (fun v => some (strsign v)) c15CellLit false none
    = ("Male", some (.num true (some 1)), some (.num false none)) := by decide
example : Generated.src_sex_row (σ := SexStats) (fun _ _ _ => (none, none))
    c15StatsGet (fun v => some (strsign v)) c15CellLit true (some "grch38") = ("Female", some .na, some .na) := by decide

end CnvVerif.C15x
