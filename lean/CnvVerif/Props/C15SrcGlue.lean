/-
  C15, round 5b: tie of the glue to the source TEXT.  `Generated.src_guess_xx`, `src_sex_row`, `src_strsign_plus`
  (Generated/ExprsSexGlue.lean) are re-read from cnvlib/cnary.py (`guess_xx`) and cnvlib/commands.py (`do_sex`) on every
  run (harness/extractors/exprs_sex_glue.py); these theorems state that the hand-written `guessXX`, `sexRow`, `strsign`
  of Model/SexExt5.lean ARE those definitions, for every table, every `compare_to_auto` and all options.
  One module per function (C15SrcGlue: guess_xx; C15SrcGlueRow: the row; C15SrcGlueSign: strsign), so that an edit breaks
  exactly the obligation of the function edited.
-/
import CnvVerif.Model.SexExt5Py
import CnvVerif.Generated.ExprsSexGlue
set_option linter.unusedSimpArgs false
namespace CnvVerif.C15x
open CnvVerif

/-- `guess_xx` IS the source: it calls `compare_sex_chromosomes` with the reference flag and the PAR genome it was
    given and `skip_low` at its default, returns None without a decision and the negated decision otherwise -/
theorem guess_xx_is_the_source (cta : Cta) (hapX : Bool) (par : Option String) (t : List CBin) :
    guessXX cta hapX par t =
      Generated.src_guess_xx (fun h p s => c15PyPair (compareSex cta h p s t)) hapX par := by
  unfold guessXX Generated.src_guess_xx
  cases h : compareSex cta hapX par false t with
  | none => simp [c15PyPair, h]
  | some r => obtain ⟨b, st⟩ := r; simp [c15PyPair, h]

end CnvVerif.C15x
