/-
  C04: tie to the source TEXT.  The definitions `Generated.src_*` are re-translated from /repo's Python on every
  run (harness/exprtrans.py); these theorems state that the hand-written model formulas are those expressions.
  Kept in a module of their own so that an edit to a formula breaks exactly these obligations.
-/
import CnvVerif.Props.C04
import CnvVerif.Lemmas.SrcEdge
namespace CnvVerif.C04
open CnvVerif

/-- the model's edge-bias formulas ARE the expressions `edge_losses` / `edge_gains` compute (read elementwise) -/
theorem edge_formulas_are_the_source (t g i : Rat) :
    edgeLoss t i = Generated.src_edge_losses t i ∧ edgeGain t g i = Generated.src_edge_gains t g i :=
  ⟨Src.edgeLoss_is_source t i, Src.edgeGain_is_source t g i⟩

end CnvVerif.C04
