/-
  C18: tie to the source TEXT of the record-level decisions.  `Generated.src_extract_genotype_*` and `Generated.src_safesum`
  are re-read from /repo's `skgenome/tabio/vcfio.py` on every run (harness/dectrans.py, extractor vcf_decisions): the order in
  which `_extract_genotype` / `_get_alt_count` try their sources and the way they combine their conditions.  These theorems
  state that the model's `depthOf`, `zygosityOf`, `altCountOf`, `safesum` ARE those decision structures, each atom read on
  the model's data as `Src.hasAD`, `Src.adIsTuple`, `Src.adGiven`, `Src.adHasSecond`, `Src.severalAlleles`,
  `Src.onlyAlleleIsRef` say.  Kept in a module of their own so that an edit there breaks exactly these obligations.
-/
import CnvVerif.Props.C18
import CnvVerif.Lemmas.SrcGeno
namespace CnvVerif.C18
open CnvVerif CnvVerif.Vcf

/-- depth: FORMAT DP first, else the sum of a tuple AD, else INFO DP, else missing -- in the order the source asks -/
theorem depth_chain_is_the_source (s : Smp) (r : Rec) :
    depthOf s r = Src.depthFrom s r
      (Generated.src_extract_genotype_depth s.hasDP (Src.hasAD s) (Src.adIsTuple s) r.infoDP.isSome) :=
  Src.depthOf_is_source s r

/-- zygosity: 0.5 when the genotype names several distinct alleles, else 0 when its one allele is the reference, else 1 --
    the source's own decision on `set(sample["GT"])` -/
theorem zygosity_rule_is_the_source (gt : List (Option Int)) :
    zygosityOf gt = Generated.src_extract_genotype_zygosity (Src.severalAlleles gt) (Src.onlyAlleleIsRef gt) :=
  Src.zygosityOf_is_source gt

/-- alt count: a given AD first (second entry of a tuple, 0 for a one-entry tuple, a scalar itself), else missing -- the
    source's chain with its CLCAD2 / AO arms switched off (files with GT, AD, DP only, as the property's quantifier says) -/
theorem alt_count_chain_is_the_source (s : Smp) :
    altCountOf s = Src.altFrom s (Generated.src_extract_genotype_alt_count (Src.adGiven s) (Src.adIsTuple s)
      (Src.adHasSecond s) false false false false) := Src.altCountOf_is_source s

/-- `_safesum` is still `sum(filter(None, tup))`, and the model's depth-from-AD is that sum: missing and zero entries
    contribute nothing -/
theorem safesum_is_the_source (l : List (Option Int)) :
    safesum l = Src.sumFrom l Generated.src_safesum ∧
    Src.sumFrom l Generated.src_safesum = ((l.filterMap id).filter (fun x => x != 0)).sum :=
  ⟨Src.safesum_is_source l, rfl⟩

/-- non-vacuity: every source of each chain is reached by some sample column -/
example : (Generated.src_extract_genotype_depth true true true true = .sampleDP) ∧
    (Generated.src_extract_genotype_depth false true true true = .sumAD) ∧
    (Generated.src_extract_genotype_depth false true false true = .infoDP) ∧
    (Generated.src_extract_genotype_depth false false false false = .missing) := by decide
example : altCountOf { gt := [some 0, some 1], hasDP := true, dp := some 30, ad := .tuple [some 18, some 12] } = some 12 ∧
    altCountOf { gt := [some 0, some 0], hasDP := true, dp := some 30, ad := .tuple [some 30] } = some 0 ∧
    altCountOf { gt := [some 0, some 1], hasDP := true, dp := some 30, ad := .scalar (some 7) } = some 7 ∧
    altCountOf { gt := [some 0, some 1], hasDP := true, dp := some 30, ad := .tuple [none] } = none := by decide
example : safesum [some 3, none, some 0, some 4] = 7 := by decide

end CnvVerif.C18
