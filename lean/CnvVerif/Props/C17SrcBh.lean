/-
  C17, tie to the source TEXT: `cnvlib/bintest.py: p_adjust_bh` at the level of vectors.
  `Generated.src_p_adjust_bh` (Generated/ExprsBh.lean) is re-translated from /repo's Python on every run by
  harness/vectrans.py + harness/vectrans_bh.py (typed reading of the numpy vector subset: reversed `argsort` = a parameter,
  `argsort` of that permutation = its inverse, `np.arange(n, 0, -1)`, `np.minimum.accumulate`, `np.minimum(1, ·)`, take).
  It is proved here that the hand-written model `padjustBH` IS that expression for every vector, and that the expression
  has the Benjamini–Hochberg closed form for EVERY permutation `argsort` may return.  In a module of its own: an edit to
  `p_adjust_bh` breaks exactly these obligations.
-/
import CnvVerif.Props.C17
import CnvVerif.Lemmas.SrcStatsBh
namespace CnvVerif.C17
open CnvVerif CnvVerif.Stats CnvVerif.Generated CnvVerif.Src.Bh

-- the `first` alternatives below are for equivalent spellings of the source (`values * steps`); unused on today's text
set_option linter.unusedTactic false
set_option linter.unreachableTactic false

/-- the model's `padjustBH` is what `p_adjust_bh` computes, for every vector (the permutation handed over is the one
    the model's own stable sort produces) -/
theorem padjustBH_is_the_source (p : List Rat) :
    padjustBH p = src_p_adjust_bh p ((bhDescending p).map (·.2)) := by
  unfold padjustBH src_p_adjust_bh
  simp only []
  rw [take_bhDescending]
  first
    | (rw [bhAccumulate_is_minAccumulate p.length p.length _ (by simp [bhDescending_length])]
       unfold Np.take NpBh.invPerm steps
       rw [List.map_map]
       simp [bhDescending_length, Function.comp_def]
       done)
    | (rw [bhAccumulate_is_minAccumulate' p.length p.length _ (by simp [bhDescending_length])]
       unfold Np.take NpBh.invPerm steps
       rw [List.map_map]
       simp [bhDescending_length, Function.comp_def]
       done)

example : src_p_adjust_bh [1/100, 1/25, 1/50, 1/2] [3, 1, 2, 0] = [1/25, 4/75, 1/25, 1/2] := by decide +kernel

/-- whatever permutation `argsort` returns (any tie order): if `by_descend` is a permutation of `0..n-1` that lists the
    values in non-increasing order, the source expression is the Benjamini–Hochberg closed form
    `q_i = min(1, min_{j : p_j ≥ p_i} n·p_j / #{k | p_k ≤ p_j})`, given back at the ORIGINAL positions -/
theorem source_bh_is_closed_form (p : List Rat) (by_descend : List Nat) (h0 : ∀ x ∈ p, 0 ≤ x)
    (hperm : by_descend.Perm (List.range p.length)) (hdesc : Desc (Np.take p by_descend)) :
    src_p_adjust_bh p by_descend = bhClosed p := by
  have hLperm : (Np.take p by_descend).Perm p := by
    have := hperm.map (fun i => p.getD i 0)
    rwa [take_range] at this
  have hlen : (Np.take p by_descend).length = p.length := hLperm.length_eq
  have hbl : by_descend.length = p.length := by simpa [Np.take] using hlen
  have hacc := bhAccumulate_eq (Np.take p by_descend) (fun x hx => h0 x (hLperm.mem_iff.mp hx)) hdesc
  have hfun : bhClosedAt (Np.take p by_descend) = bhClosedAt p := funext (bhClosedAt_perm hLperm)
  rw [hlen, hfun] at hacc
  have hsrc := bhAccumulate_is_minAccumulate p.length p.length (Np.take p by_descend) hlen
  have hsrc' := bhAccumulate_is_minAccumulate' p.length p.length (Np.take p by_descend) hlen
  unfold steps at hsrc hsrc'
  unfold src_p_adjust_bh
  simp only []
  first
    | rw [← hsrc, hacc]
    | rw [← hsrc', hacc]
  unfold bhClosed
  apply List.ext_getElem
  · simp [Np.take, NpBh.invPerm, hbl]
  · intro i h1 h2
    have hi : i < p.length := by simpa using h2
    have himem : i ∈ by_descend := hperm.mem_iff.mpr (List.mem_range.mpr hi)
    have hr : by_descend.idxOf i < by_descend.length := List.idxOf_lt_length_iff.mpr himem
    have hget : by_descend[by_descend.idxOf i] = i := List.getElem_idxOf hr
    simp only [Np.take, NpBh.invPerm, List.getElem_map, List.getElem_range, List.map_map, Function.comp]
    rw [List.getD_eq_getElem?_getD, List.getElem?_eq_getElem (by simpa using hr)]
    simp only [List.getElem_map, Option.getD_some, hget]
    show bhClosedAt p (p.getD i 0) = _
    rw [List.getD_eq_getElem?_getD, List.getElem?_eq_getElem hi, Option.getD_some]

/-- so the result does not depend on how `argsort` orders tied p-values -/
theorem source_bh_tie_order_irrelevant (p : List Rat) (o1 o2 : List Nat) (h0 : ∀ x ∈ p, 0 ≤ x)
    (h1 : o1.Perm (List.range p.length)) (d1 : Desc (Np.take p o1))
    (h2 : o2.Perm (List.range p.length)) (d2 : Desc (Np.take p o2)) :
    src_p_adjust_bh p o1 = src_p_adjust_bh p o2 := by
  rw [source_bh_is_closed_form p o1 h0 h1 d1, source_bh_is_closed_form p o2 h0 h2 d2]

/-- the hypotheses are satisfiable with ties: two admissible orders of the tied vector -/
example : ([2, 0, 1] : List Nat).Perm (List.range 3) ∧ ([2, 1, 0] : List Nat).Perm (List.range 3) := by decide
example : src_p_adjust_bh [1/50, 1/50, 1/2] [2, 0, 1] = src_p_adjust_bh [1/50, 1/50, 1/2] [2, 1, 0] := by
  decide +kernel

end CnvVerif.C17
