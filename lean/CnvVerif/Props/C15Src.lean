/-
  C15: tie to the source TEXT.  The definitions `Generated.src_*` (Generated/ExprsSex.lean) are re-translated from
  /repo's cnvlib/cnary.py on every run (harness/exprtrans.py: FnOpt, BoolFn; harness/extractors/exprs_sex.py); these
  theorems state that the hand-written models ARE those expressions, for all arguments.  Kept in a module of their
  own so that an edit to the code breaks exactly these obligations.
-/
import CnvVerif.Props.C15
import CnvVerif.Lemmas.SrcSex
namespace CnvVerif.C15
open CnvVerif CnvVerif.Src

/-- `shift_xx` changes the log2 of a bin by what the source's if/elif chain says (−1 / +1 on chrX, else 0) -/
theorem shift_xx_is_the_source (hapX isXX : Bool) (t : List CBin) :
    shiftXX hapX isXX t = t.map (fun b =>
      { b with log2 := b.log2 +
          Generated.src_shift_xx_delta hapX isXX (b.chrom == xLabel ((t.head?.map (·.chrom)).getD "")) }) :=
  shiftXX_is_source hapX isXX t

/-- the model's "class X / class Y" are `chr_x_filter` / `chr_y_filter` as written (X or Y by label, minus the PAR
    bins when a genome is named) -/
theorem sex_chromosome_filters_are_the_source (first : String) (par : Option String) (b : CBin) :
    (classOf first par b.chrom b.s b.e == .x) = xFilterSrc first par b ∧
    (classOf first par b.chrom b.s b.e == .y) = yFilterSrc first par b :=
  ⟨classX_is_source first par b, classY_is_source first par b⟩

/-- `expect_flat_log2`: each bin's value is the source's mask expression -/
theorem expect_flat_is_the_source (hapX : Bool) (par : Option String) (t : List CBin) :
    expectFlat hapX par t = t.map (fun b =>
      let first := (t.head?.map (·.chrom)).getD ""
      Generated.src_expect_flat hapX (xFilterSrc first par b) (yFilterSrc first par b) (yFilterSrc first none b)) :=
  expectFlat_is_source hapX par t

/-- `compare_chrom`: statistic ratio when both Mood statistics exist, ratio of median differences otherwise, the
    denominator floored at 0.01; female hypothesis in the numerator -/
theorem compare_chrom_is_the_source {α : Type} (cta : α → AutoCmp) (shift : α → Rat → α) (vals : α)
    (fs ms : Rat) :
    compareChromOf cta shift vals fs ms =
      Generated.src_compare_chrom (fun v => ((cta v).stat, (cta v).diff)) shift vals fs ms :=
  compareChromOf_is_source cta shift vals fs ms

/-- the shifts under the female / male hypothesis: chrX (−1, 0) for a male reference, (0, +1) otherwise; chrY (+3, 0) -/
theorem sex_shifts_are_the_source (hapX : Bool) :
    xShifts hapX = Generated.src_x_shifts hapX ∧ yShifts = Generated.src_y_shifts :=
  ⟨xShifts_is_source hapX, yShifts_is_source⟩

/-- the whole decision of `compare_sex_chromosomes` (no weight column): the model says "male" exactly when the
    source's expression does, with every piece — shifts, compare_chrom, score, threshold — read from the source -/
theorem sex_decision_is_the_source (G : MoodTable → Rat) (hapX : Bool) (auto xs ys : List Rat) :
    sexIsMale G hapX auto xs ys = true ↔
      Generated.src_is_male (Generated.src_combined_score
        (Generated.src_compare_chrom (fun v => ((compareToAuto G auto v).stat, (compareToAuto G auto v).diff))
          shiftVals xs (Generated.src_x_shifts hapX).1 (Generated.src_x_shifts hapX).2)
        (if ys.isEmpty then none else some
          (Generated.src_compare_chrom (fun v => ((compareToAuto G auto v).stat, (compareToAuto G auto v).diff))
            shiftVals ys Generated.src_y_shifts.1 Generated.src_y_shifts.2))) := by
  unfold sexIsMale
  simp only [compareChromOf_is_source, xShifts_is_source, yShifts_is_source, sexScore_is_source]
  exact isMale_decision_is_source _

/-- the record-level decision `isMale` of Model/Center.lean is the same score and threshold -/
theorem is_male_is_score_above_one (xF xM : AutoCmp) (y : Option (AutoCmp × AutoCmp)) :
    isMale xF xM y = true ↔
      Generated.src_is_male (Generated.src_combined_score (compareChrom xF xM)
        (y.map fun p => compareChrom p.1 p.2)) := by
  rw [← isMale_decision_is_source, ← sexScore_is_source]
  unfold isMale sexScore
  cases y <;> simp

end CnvVerif.C15
