/-
  C10 — results depend only on the arguments (not workers, RNG state, history); inputs untouched;
  guarded writers never overwrite.  Property theorems only; helper lemmas live in Lemmas/Effects.lean.
  What is proved here is about the models of Model/Effects.lean and about the tables that
  harness/extractors/effects.py regenerates from the source on every run (Generated/EffectsConsts.lean);
  purity of the Python code itself is established by the differential histories of harness/props/C10.py.
-/
import CnvVerif.Model.Effects
import CnvVerif.Generated.EffectsConsts
import CnvVerif.Lemmas.Effects
namespace CnvVerif.C10
open CnvVerif CnvVerif.Effects

/-! ### "Output writers that promise not to overwrite keep a pre-existing file intact under a numbered
    suffix, so k writes to one path leave k files" -/

/-- after any k guarded writes (`core.ensure_path` + `tabio.write`) to one path, in any directory: exactly k
    more files exist, and the contents are those that were there plus those written — nothing lost, nothing
    invented (multiset equality) -/
theorem ensure_path_history (fs : FS) (hw : WF fs) (p : String) (ws : List String) :
    (guardedWrites fs p ws).length = fs.length + ws.length ∧
    (contents (guardedWrites fs p ws)).Perm (ws.reverse ++ contents fs) ∧
    WF (guardedWrites fs p ws) :=
  let h := guardedWrites_history hw p ws
  ⟨h.2.1, h.2.2, h.1⟩

/-- k writes to one path of an empty directory leave k files -/
theorem k_writes_leave_k_files (p : String) (ws : List String) :
    (guardedWrites [] p ws).length = ws.length := by
  have := (guardedWrites_history (fs := []) List.nodup_nil p ws).2.1
  simpa using this

/-- the file found at the path is kept, content intact, under a numbered suffix that was free -/
theorem preexisting_file_kept_under_numbered_suffix (fs : FS) (p c0 c : String) (h : readFile fs p = some c0) :
    ∃ k, isFile fs (bakName p k) = false ∧ readFile (guardedWrite fs p c) (bakName p k) = some c0 :=
  guardedWrite_keeps_old h c

/-- the suffix is the least number ≥ 1 not in use (what the unbounded `while os.path.isfile(...)` loop of
    the source finds; the model's bounded search provably never runs out of fuel) -/
theorem backup_suffix_is_least_free (fs : FS) (p : String) (hp : isFile fs p = true) :
    let k := firstFree fs p fs.length 1
    1 ≤ k ∧ isFile fs (bakName p k) = false ∧ ∀ j, 1 ≤ j → j < k → isFile fs (bakName p j) = true :=
  ⟨(firstFree_least fs p fs.length 1).1, firstFree_free hp, (firstFree_least fs p fs.length 1).2⟩

/-- no other file of the directory is renamed, removed or rewritten -/
theorem other_files_untouched (fs : FS) (p : String) (ws : List String) (n : String) (hn : n ≠ p)
    (hf : isFile fs n = true) : readFile (guardedWrites fs p ws) n = readFile fs n :=
  guardedWrites_other p ws hn hf

/-- the path itself holds what was written last -/
theorem path_holds_last_write (fs : FS) (p : String) (ws : List String) (c : String) :
    readFile (guardedWrites fs p (ws ++ [c])) p = some c := guardedWrites_last fs p ws c

/-- contrast (what the guard is for): the same k writes without `ensure_path` leave no additional file -/
theorem unguarded_writes_overwrite (fs : FS) (hw : WF fs) (p : String) (hp : isFile fs p = true)
    (ws : List String) : (plainWrites fs p ws).length = fs.length := plainWrites_length hw hp ws

/-- every `core.ensure_path(x)` in the source is followed by a `tabio.write(_, x)` to the same path -/
theorem guarded_writers_write_the_guarded_path :
    Generated.GUARDED_WRITERS.all (fun e => e.2.2.1 == e.2.2.2) = true ∧ Generated.GUARDED_WRITERS ≠ [] := by
  decide +kernel

/-! ### "…the same table … under any state of the global random generators" -/

/-- a skeleton that starts with `seed c` yields the same draws, and leaves the same generator state, from
    every initial state -/
theorem reseed_independent {σ ν : Type} (g : Gen σ ν) (c : Nat) (l : List ROp) (s₁ s₂ : σ) :
    draws g (.seed (some c) :: l) s₁ = draws g (.seed (some c) :: l) s₂ ∧
    finalState g (.seed (some c) :: l) s₁ = finalState g (.seed (some c) :: l) s₂ := ⟨rfl, rfl⟩

/-- more generally: if on a straight-line run every draw comes after a constant re-seeding, the values
    drawn do not depend on the state the generator was in -/
theorem draws_after_reseed_independent {σ ν : Type} (g : Gen σ ν) (l : List ROp) (h : safeOps l false = true)
    (s₁ s₂ : σ) : draws g l s₁ = draws g l s₂ := (draws_of_safe g l false s₁ s₂ (by simp) h).1

/-- the analysis of a control-flow skeleton is sound for every path through it and every prefix of a
    path (early return, exception) -/
theorem skeleton_analysis_sound {σ ν : Type} (g : Gen σ ν) (sk : Sk) (b' : Bool)
    (hsafe : safeSk sk false = some b') (l t : List ROp) (hp : Path sk l) (ht : t <+: l) (s₁ s₂ : σ) :
    draws g t s₁ = draws g t s₂ := draws_independent_of_state g hsafe hp ht s₁ s₂

/-- every public function of cnvlib / skgenome that reaches `np.random.*` (table regenerated from the
    source, callees followed) re-seeds with a constant before its first draw, on every path -/
theorem all_skeletons_reseeded :
    Generated.RNG_TABLE.all (fun e => !e.2.1 || (safeSk e.2.2 false).isSome) = true := by decide +kernel

/-- hence: every run of every such entry point draws the same values whatever the generator state was -/
theorem entry_points_independent_of_rng_state {σ ν : Type} (g : Gen σ ν)
    (e : String × Bool × Sk) (he : e ∈ Generated.RNG_TABLE) (hpub : e.2.1 = true)
    (l t : List ROp) (hp : Path e.2.2 l) (ht : t <+: l) (s₁ s₂ : σ) : draws g t s₁ = draws g t s₂ := by
  have h := List.all_eq_true.mp all_skeletons_reseeded e he
  rw [hpub] at h
  simp only [Bool.not_true, Bool.false_or, Option.isSome_iff_exists] at h
  obtain ⟨b', hb'⟩ := h
  exact draws_independent_of_state g hb' hp ht s₁ s₂

/-- nothing in the package uses Python's own `random` module or imports names from a random module -/
theorem no_python_random : Generated.PY_RANDOM_USERS = [] := by decide +kernel

/-! ### "…when run with 1 or N worker processes" -/

/-- `Executor.map`: the gathered results do not depend on the order in which the workers finish (any
    order, tasks may even complete more than once), and equal the serial map -/
theorem gather_order_independent {α β : Type} (f : α → β) (xs : List α) (o₁ o₂ : List Nat)
    (h₁ : ∀ i, i < xs.length → i ∈ o₁) (h₂ : ∀ i, i < xs.length → i ∈ o₂) :
    poolMap f xs o₁ = poolMap f xs o₂ ∧ poolMap f xs o₁ = xs.map (fun x => some (f x)) :=
  ⟨(poolMap_eq_map f xs o₁ h₁).trans (poolMap_eq_map f xs o₂ h₂).symm, poolMap_eq_map f xs o₁ h₁⟩

/-- every parallel section of the source gathers with `map` (ordered) or with futures kept in
    submission order; `as_completed` / `imap_unordered` / `wait` occur nowhere; segmentation and both
    coverage paths use `map` -/
theorem parallel_sections_gather_in_order :
    Generated.EXECUTOR_CALLS.all (fun e => e.2.2 == "map" || e.2.2 == "submit") = true ∧
    Generated.UNORDERED_GATHER_SITES = [] ∧
    Generated.EXECUTOR_CALLS.contains ("cnvlib/segmentation/__init__.py", "do_segmentation", "map") = true ∧
    (Generated.EXECUTOR_CALLS.filter (fun e => e.1 == "cnvlib/coverage.py")).all (fun e => e.2.2 == "map") = true := by
  decide +kernel

/-! ### "…and it leaves the arrays, lists and dicts passed to it unchanged" -/

/-- `do_call` leaves every list object of the caller — its `filters` argument included — as it was -/
theorem do_call_keeps_filters (h : Heap) (arg : Option Nat) :
    (doCallFilters h arg).1.take h.length = h := by
  obtain ⟨own, ho⟩ := doCallFilters_heap h arg
  rw [ho]; simp

/-- …while applying exactly the filters the code applied before the repair, in the same order -/
theorem do_call_filters_unchanged_semantics (h : Heap) (r : Nat) (hr : r < h.length) :
    (doCallFilters h (some r)).2 = (doCallFiltersPrefix h (some r)).2 := doCallFilters_same_filters hr

/-- `by_gene` / `squash_genes` / `transfer_fields` / `get_gene_intervals` / `gene_coords_by_range` leave the
    caller's `ignore` list alone and use the caller's names plus the antitarget aliases -/
theorem by_gene_keeps_ignore (h : Heap) (a : IgnoreArg) :
    (extendIgnore h a).1 = h ∧ (extendIgnore h a).2 = (extendIgnorePrefix h a).2 := by
  cases a <;> exact ⟨rfl, rfl⟩

/-- in any history of steps on shared arguments, every step returns the value it has on fresh copies
    (whatever came before, however many workers it asked for) and the caller's lists stay as they were -/
theorem history_depends_only_on_arguments (h : Heap) (steps : List Step) :
    runHistory false h steps = steps.map (fun s => (s.fresh, h)) := runHistory_spec h steps

/-- no optional collection-valued parameter (default None / tuple / list / dict / `params.` constant) is
    mutated in place anywhere in the package (table regenerated from the source) -/
theorem no_collection_parameter_mutated_in_place : Generated.COLLECTION_PARAM_MUTATIONS = [] := by
  decide +kernel

/-! ### the code before fix J (history stays checkable) -/

/-- `do_call(filters=["ci","cn"])` consumed `ci` from the caller's list -/
theorem do_call_prefix_counterexample :
    (doCallFiltersPrefix [["ci", "cn"]] (some 0)).1 = [["cn"]] := by decide +kernel

/-- `by_gene(ignore=["-"])` extended the caller's list -/
theorem by_gene_prefix_counterexample :
    (extendIgnorePrefix [["-"]] (.list 0)).1 = [["-", "Antitarget", "Background"]] := by decide +kernel

/-- so the second of two identical calls saw another argument -/
theorem history_prefix_counterexample :
    (runHistory true [["ci", "cn"]] [⟨"call", 1, [⟨.filters, 0⟩], "v"⟩, ⟨"call", 1, [⟨.filters, 0⟩], "v"⟩]).map (·.2)
      = [[["cn"]], [["cn"]]] := by decide +kernel

/-! ### non-vacuity -/

/-- a directory where the path and its first two backups exist: the third suffix is used -/
example : (guardedWrite [("out.cnn", "A"), ("out.cnn.1", "B"), ("out.cnn.2", "C")] "out.cnn" "new") =
    [("out.cnn", "new"), ("out.cnn.3", "A"), ("out.cnn.1", "B"), ("out.cnn.2", "C")] := by decide +kernel

example : WF [("out.cnn", "A"), ("out.cnn.1", "B"), ("out.cnn.2", "C")] := by decide +kernel

/-- the table is not empty and lists the three functions that touch the generator directly -/
example : (["cnvlib.fix.center_by_window", "cnvlib.segmetrics.confidence_interval_bootstrap",
            "skgenome.gary.GenomicArray.shuffle"].all
    (fun n => Generated.RNG_TABLE.any (fun e => e.1 == n && e.2.1))) = true := by decide +kernel

/-- a real path of the bootstrap: seed, randint, then the smoothing draws -/
example : Path Generated.SK_cnvlib_segmetrics_confidence_interval_bootstrap
    [.seed (some 679661), .draw "randint", .draw "randn", .draw "randn"] := by
  unfold Generated.SK_cnvlib_segmetrics_confidence_interval_bootstrap Generated.SK_cnvlib_segmetrics__smooth_samples_by_weight
  exact Path.seq (Path.op _) (Path.seq (l₁ := [_]) (Path.op _) (Path.altL
    (Path.starCons (l₁ := [_]) (Path.op _) (Path.starCons (l₁ := [_]) (Path.op _) Path.starNil))))

/-- the helper that draws without seeding is rejected on its own: the analysis is not vacuous -/
example : safeSk Generated.SK_cnvlib_segmetrics__smooth_samples_by_weight false = none := by decide +kernel

/-- and an unseeded draw really depends on the state -/
example : draws (σ := Nat) (ν := Nat) ⟨fun c => c, fun s => s, fun _ s => (s, s + 1)⟩ [.draw "randn"] 0 ≠
          draws (σ := Nat) (ν := Nat) ⟨fun c => c, fun s => s, fun _ s => (s, s + 1)⟩ [.draw "randn"] 1 := by decide

/-- the unordered alternative does depend on the completion order -/
example : asCompleted (fun x : Nat => x + 1) [10, 20] [1, 0] ≠ asCompleted (fun x : Nat => x + 1) [10, 20] [0, 1] := by
  decide

example : poolMap (fun x : Nat => x + 1) [10, 20] [1, 0] = [some 11, some 21] := by decide

end CnvVerif.C10
