/-
  C04 (round 5): tie to the source TEXT of the DECISIONS of `fix.apply_weights` / `fix.load_adjust_coverages`
  (Generated/ExprsFixPlan.lean, re-read from /repo on every run by harness/fixplan.py; reading rules at the top of that file):
  the pooled-or-flat test (`.any()` reductions over the reference's spread / log2 columns), the "most bins have no coverage"
  test (`.sum()` against `len // 2`) and the plan of `center_by_window` calls (flag × column present, order, sort key).
  A module of its own: an edit to one of these decisions breaks exactly these obligations.
-/
import CnvVerif.Props.C04
import CnvVerif.Lemmas.FixPlanExt5
import CnvVerif.Lemmas.SrcFixPlan
namespace CnvVerif.C04
open CnvVerif

/-- the model's pooled-or-flat verdict (`pooledRef`, the one `weight_column_is_the_formula` is stated with) IS the test in
    `apply_weights`, evaluated on the matched reference's spread and log2 columns with epsilon = 1e-4 -/
theorem pooled_test_is_the_source (rows : List (SRow × RRow × Rat)) :
    pooledRef rows = Generated.src_pooled_test Generated.WEIGHT_EPSILON (rows.map (·.2.1.spread)) (rows.map (·.2.1.log2)) := by
  rw [C04x.pooledRef_cols, C04x.pooledCols_is_source]

/-- the "most bins have no or very low coverage" test of `load_adjust_coverages` -/
theorem skip_test_is_the_source (log2s : List Rat) :
    C04x.skipCorrections log2s = Generated.src_skip_corrections log2s :=
  C04x.skip_is_source log2s

/-- which `center_by_window` calls `load_adjust_coverages` makes, in which order, with which sort key -/
theorem correction_plan_is_the_source (skip fixGc fixEdge fixRmask hasGc hasRmask : Bool) :
    C04x.correctionPlan skip fixGc fixEdge fixRmask hasGc hasRmask =
      Generated.src_correction_plan skip fixGc fixEdge fixRmask hasGc hasRmask :=
  C04x.plan_is_source skip fixGc fixEdge fixRmask hasGc hasRmask

/-- the margin of the edge-bias key is params.INSERT_SIZE (inlined by the reader as its value) -/
theorem edge_margin_is_insert_size : Generated.FIX_EDGE_MARGIN_EXPR = toString Generated.INSERT_SIZE := by decide

end CnvVerif.C04
