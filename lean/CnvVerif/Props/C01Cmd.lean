/-
  C01 (growth round) — the glue between `cnvkit.py call` and `do_call` (Model/CallCmd.lean): which purities the command
  refuses, that every purity it lets through meets the hypotheses of the inversion theorems, which re-centring runs, which
  sample sex is handed on; and the tie of the purity guard and of `verify_sample_sex` to the source text.
-/
import CnvVerif.Props.C01
import CnvVerif.Lemmas.CallCmd
namespace CnvVerif.C01
open CnvVerif

/-- the command refuses exactly the purities that are given, non-zero and outside (0, 1] -/
theorem cmd_refuses_iff (a : CmdCallArgs) (ploidy : Nat) (hapX : Bool) (par : Option String) (g : Bool) (tp : List Rat) :
    (∃ e, cmdCallPlan a ploidy hapX par g tp = .error e) ↔ ∃ p, a.purity = some p ∧ p ≠ 0 ∧ ¬ (0 < p ∧ p ≤ 1) :=
  cmdCallPlan_error_iff a ploidy hapX par g tp

/-- … so whenever an accepted command reaches the purity-adjusted path, its purity satisfies `0 < p < 1`: the hypotheses
    of `absolute_inverts`, `clonal_reports_n` and `rescaled_ratio_*` hold for everything the command line lets through
    (`do_call` itself would take a negative purity into the formula) -/
theorem cmd_accepted_purity_is_in_unit_interval (a : CmdCallArgs) (ploidy : Nat) (hapX : Bool) (par : Option String)
    (g : Bool) (tp : List Rat) (rc : Recenter) (cfg : CallCfg)
    (h : cmdCallPlan a ploidy hapX par g tp = .ok (rc, cfg)) (p : Rat) (hp : purityActive cfg.purity = some p) :
    cfg.purity = some p ∧ 0 < p ∧ p < 1 :=
  cmdCallPlan_active_purity a ploidy hapX par g tp rc cfg h p hp

/-- `--center-at c` with c ≠ 0 shifts by c whatever `--center` says; `--center-at 0` is as good as absent -/
theorem cmd_center_at_shadows_center (c : Rat) (hc : c ≠ 0) (center : Option String) :
    cmdRecenter (some c) center = .shiftBy c := cmdRecenter_shadow c hc center

theorem cmd_center_at_zero_is_absent (center : Option String) : cmdRecenter (some 0) center = cmdRecenter none center :=
  cmdRecenter_zero center

/-- the sample sex is only handed on when a purity rescaling happens — and without one no call depends on it (nor on the
    genome option), so nothing is lost -/
theorem pure_path_ignores_sample_sex_and_genome (cfg : CallCfg) (h : purityActive cfg.purity = none) (female' : Bool)
    (par' : Option String) (m : Method) (thr : List Rat) (first : String) (hasBaf : Bool) (row : SegRow) :
    callRow { cfg with female := female', par := par' } m thr first hasBaf row = callRow cfg m thr first hasBaf row :=
  callRow_pure_ignores_sex_and_genome cfg h female' par' m thr first hasBaf row

/-- source tie: the model's refusal test IS the guard in front of `raise RuntimeError` in `commands._cmd_call` -/
theorem cmd_purity_guard_is_the_source (p : Rat) :
    cmdPurityRejected (some p) = true ↔ Generated.src_cmd_call_refuses_purity p := Src.cmdPurityRejected_is_source p

/-- source tie: `cmdutil.verify_sample_sex` — a stated sex wins over the guess; y / m / male in any case are male,
    every other spelling female -/
theorem verify_sample_sex_is_the_source (g : Bool) (sexArg : Option String) :
    cmdVerifySex g sexArg = Generated.src_verify_sample_sex (sexArg.getD "") g := Src.cmdVerifySex_is_source g sexArg

/-! non-vacuity -/
example : cmdPurityRejected (some (3/2)) = true ∧ cmdPurityRejected (some (-1/4)) = true ∧
    cmdPurityRejected (some 0) = false ∧ cmdPurityRejected (some 1) = false ∧ cmdPurityRejected none = false := by
  decide +kernel
example : cmdVerifySex true (some "Male") = false ∧ cmdVerifySex false (some "x") = true ∧ cmdVerifySex true none = true := by
  decide +kernel

end CnvVerif.C01
