/-
  C06: tie to the source TEXT (merge / flatten: the gap test, the fast paths, the rows in play).
  The definitions `Generated.src_*` of Generated/ExprsInterval.lean are re-translated from /repo's Python on every run
  (harness/exprtrans.py, "pieces"; harness/extractors/exprs_interval.py names the pieces and the column expressions read
  elementwise).  These theorems state that the hand-written model functions are built from exactly those pieces.
  One module per source function so that an edit breaks exactly the obligations about that function.
-/
import CnvVerif.Props.C06
import CnvVerif.Lemmas.SrcIntervalMerge
namespace CnvVerif.C06
open CnvVerif CnvVerif.Generated

/-! ### merge / flatten: the gap test -/

/-- one step of the grouping loop of the model is the source's test `gap_sizes > -bp` applied to the next start and the
    running maximum of the ends so far -/
theorem merge_gap_test_is_the_source (bp : Int) (cur : Row) (genes : List String) (x : Row) (xs : List Row) :
    mergeGo bp cur genes (x :: xs) =
      if src_merge_new_group x.s cur.e bp = true then
        { cur with gene := joinStrings genes.reverse } :: mergeGo bp x [x.gene] xs
      else mergeGo bp { cur with e := max cur.e x.e } (x.gene :: genes) xs :=
  Src.mergeGo_step_src bp cur genes x xs

/-- the fast path of `merge` is the source's elementwise test over (next start, running maximum of earlier ends) -/
theorem merge_fast_path_is_the_source (bp : Int) (t : Table) :
    mergeTable bp t =
      if t.isEmpty then t
      else if (((t.map (·.s)).drop 1).zip (cummax (t.map (·.e)))).all
          (fun p => src_merge_fast_path p.1 p.2 bp) then t
      else resortChrom ((groupByChrom (sortLex t)).flatMap (fun g => mergeChrom bp g.2)) :=
  Src.mergeTable_src bp t

/-- flatten: its fast path, its grouping (`_nonoverlapping_groups(table, 0)`: the same gap test with bp = 0) and its
    "rows in play" test are the source's -/
theorem flatten_tests_are_the_source (t : Table) (cur : List Row) (mx : Int) (x first second : Row) (xs rest : List Row) :
    (flattenTable t =
      if t.isEmpty then t
      else if (((t.map (·.s)).drop 1).zip (cummax (t.map (·.e)))).all
          (fun p => src_flatten_fast_path p.1 p.2) then t
      else resortChrom ((groupByChrom (sortLex t)).flatMap
        (fun g => (overlapGroups g.2).flatMap flattenGroup))) ∧
    (overlapGroupsGo cur mx (x :: xs) =
      if src_merge_new_group x.s mx 0 = true then cur.reverse :: overlapGroupsGo [x] x.e xs
      else overlapGroupsGo (x :: cur) (max mx x.e) xs) ∧
    (flattenGroup (first :: second :: rest) =
      (let rows := first :: second :: rest
       let breaks := sortDedupInts (rows.flatMap (fun r => [r.s, r.e]))
       (breaks.zip (breaks.drop 1)).map fun ab =>
         let inPlay := rows.filter (fun r => src_flatten_in_play r.s r.e ab.1 ab.2)
         { first with s := ab.1, e := ab.2, gene := joinStrings (inPlay.map (·.gene)) })) :=
  ⟨Src.flattenTable_src t, Src.overlapGroupsGo_step_src cur mx x xs, Src.flattenGroup_src first second rest⟩

example : src_merge_new_group 5 5 0 = false ∧ src_merge_new_group 5 5 1 = true := by decide

end CnvVerif.C06
