/-
  C01 (growth round) — what the purity path writes into log2 for EVERY ploidy (the property states the even case;
  this is what exactly holds when the ploidy is odd).  Proofs in Lemmas/CallExt.lean.
-/
import CnvVerif.Props.C01
import CnvVerif.Lemmas.CallExt
namespace CnvVerif.C01
open CnvVerif

/-- for every ploidy ≥ 1, every class the reference carries (r > 0), every purity in (0,1) and every calling method:
    under the mixing premise the log2 is rewritten to the ratio of `n` copies against `assumedRefCopies` — the
    EXACT half `ploidy/2` (a rational) on Y and on X under a haploid-X reference, the ploidy elsewhere —, floored at
    `min_abs_val` of the ploidy -/
theorem rescaled_ratio_any_ploidy (cfg : CallCfg) (p : Rat) (hcfg : cfg.purity = some p)
    (hp0 : 0 < p) (hp1 : p < 1) (hpl : 0 < cfg.ploidy)
    (m : Method) (thr : List Rat) (first : String) (hasBaf : Bool) (row : SegRow) (n : Nat)
    (hr : 0 < (refExpect cfg.ploidy cfg.hapX cfg.female (classOf first cfg.par row.chrom row.s row.e)).1)
    (ht : row.t = (p * (n : Rat) +
            (1 - p) * ((refExpect cfg.ploidy cfg.hapX cfg.female (classOf first cfg.par row.chrom row.s row.e)).2 : Rat)) /
          ((refExpect cfg.ploidy cfg.hapX cfg.female (classOf first cfg.par row.chrom row.s row.e)).1 : Rat)) :
    (callRow cfg m thr first hasBaf row).ratio =
      some (max ((n : Rat) / assumedRefCopies cfg.ploidy cfg.hapX (classOf first cfg.par row.chrom row.s row.e))
                (Generated.MIN_ABS_VAL * (cfg.ploidy : Rat) /
                  assumedRefCopies cfg.ploidy cfg.hapX (classOf first cfg.par row.chrom row.s row.e))) :=
  callRow_rescaled_ratio_any cfg p hcfg hp0 hp1 hpl m thr first hasBaf row n hr ht

/-- the assumed copies against the copies `r = ploidy // 2` the table of `ref_expect_table` assigns: the same for even
    ploidy and on every full class (which gives `rescaled_ratio_even_ploidy` back); `r + 1/2` on Y / haploid X when
    the ploidy is odd -/
theorem assumed_copies_vs_reference_table (ploidy : Nat) (hapX female : Bool) (cls : CClass) (hcls : cls ≠ .pary) :
    assumedRefCopies ploidy hapX cls =
      ((refExpect ploidy hapX female cls).1 : Rat) +
        (if ploidy % 2 = 1 ∧ (cls = .y ∨ (hapX = true ∧ cls = .x)) then 1/2 else 0) :=
  assumedRefCopies_vs_table ploidy hapX female cls hcls

/-- hence, ODD ploidy, Y or haploid X, n > 0: the rewritten ratio is the pure sample's `n / r` times `r / (r + 1/2)`,
    strictly below it (ploidy 3: a male-reference X segment with n copies is written as log2(n/1.5), not log2(n/1)) -/
theorem rescaled_ratio_odd_ploidy_is_below_pure (ploidy : Nat) (hapX female : Bool) (cls : CClass)
    (hodd : ploidy % 2 = 1) (hhalf : cls = .y ∨ (hapX = true ∧ cls = .x))
    (hr : 0 < (refExpect ploidy hapX female cls).1) (n : Nat) (hn : 0 < n) :
    (n : Rat) / assumedRefCopies ploidy hapX cls < (n : Rat) / ((refExpect ploidy hapX female cls).1 : Rat) ∧
    (n : Rat) / assumedRefCopies ploidy hapX cls =
      (n : Rat) / ((refExpect ploidy hapX female cls).1 : Rat) *
        (((refExpect ploidy hapX female cls).1 : Rat) / (((refExpect ploidy hapX female cls).1 : Rat) + 1/2)) :=
  rescaled_odd_below_pure ploidy hapX female cls hodd hhalf hr n hn

/-! non-vacuity: ploidy 3, male reference, chrX, purity 1/2, male sample (x = 1, r = 1), n = 2: ratio t = 3/2;
    the call reports cn 2 and rewrites the ratio to 2 / 1.5 = 4/3 (a pure sample would show 2 / 1 = 2) -/
example : (callRow { ploidy := 3, purity := some (1/2), hapX := true, female := false, par := none }
    .clonal [] "chr1" false { chrom := "chrX", s := 0, e := 10, v := none, t := 3/2, baf := none }).ratio = some (4/3) := by
  decide +kernel

end CnvVerif.C01
