/-
  C20 — exports state exactly the calls they were given.
  Property theorems only; proofs in Lemmas/Export.lean, model in Model/Export.lean (tied to
  cnvlib/export.py and skgenome/tabio/seg.py by the correspondence check of harness/props/C20.py).
-/
import CnvVerif.Model.Export
import CnvVerif.Lemmas.Export
namespace CnvVerif.C20
open CnvVerif CnvVerif.Export

/-! Ratio space: a segment carries `t`, the value of `2^log2`; every double is a rational, so
    quantifying over `t : ℚ` covers every float input.  `first` is the chromosome of the table's
    first row, which fixes the naming style ("chrX" / "X"). -/

/-! ### the literals read from the source are the ones the property names -/

/-- POS: a start of 0 is replaced by 1; a loss is DEL, a gain DUP; a loss's length is multiplied by −1 -/
theorem vcf_literals :
    Generated.VCF_POS_REPLACE_FROM = 0 ∧ Generated.VCF_POS_REPLACE_TO = 1 ∧
    Generated.VCF_SVTYPE_LOSS = "DEL" ∧ Generated.VCF_SVTYPE_GAIN = "DUP" ∧
    Generated.VCF_SVLEN_LOSS_FACTOR = -1 ∧
    Generated.VCF_FORMAT_GAIN = ["GT", "GQ", "CN", "CNQ"] ∧ Generated.VCF_FORMAT_LOSS = ["GT", "GQ"] :=
  ⟨rfl, rfl, rfl, rfl, rfl, rfl, rfl⟩

/-- SEG starts are 1-based: the writer adds 1 to the 0-based start -/
theorem seg_start_shift : Generated.SEG_START_SHIFT = 1 := rfl

/-! ### the copy number and the expected copy number of a segment -/

/-- the copy number expected for a segment's chromosome and the sample's sex, as `call.absolute_expect`
    computes it, is: the ploidy on autosomes and on PAR-X of a diploid-PAR genome; on X the ploidy for a
    female sample and half of it for a male one; on Y nothing / half; nothing on PAR-Y -/
theorem expected_copies_table (cfg : Cfg) (first : String) (r : Seg) :
    expectOf cfg first r =
      match classOf first cfg.par r.chrom r.s r.e with
      | .auto => (cfg.ploidy : Int)
      | .parx => (cfg.ploidy : Int)
      | .x => if cfg.female then (cfg.ploidy : Int) else ((cfg.ploidy / 2 : Nat) : Int)
      | .y => if cfg.female then 0 else ((cfg.ploidy / 2 : Nat) : Int)
      | .pary => 0 :=
  expectOf_eq cfg first r

/-- with a `cn` column the stated copy number is that column -/
theorem copy_number_is_cn_column (cfg : Cfg) (h : cfg.hasCn = true) (first : String) (r : Seg) :
    ncopiesOf cfg first r = r.cn :=
  ncopiesOf_cn cfg h first r

/-- without one it is `round(r·2^log2)` (half to even), `r` = the reference copies of the segment's
    class — in both exporters -/
theorem copy_number_rounds_ratio (cfg : Cfg) (h : cfg.hasCn = false) (first : String) (r : Seg) :
    ncopiesOf cfg first r =
      roundHE (((refExpect cfg.ploidy cfg.hapX cfg.female
        (classOf first cfg.par r.chrom r.s r.e)).1 : Rat) * r.t) :=
  ncopiesOf_round cfg h first r

/-- … an integer nearest to `r·2^log2` -/
theorem copy_number_nearest (cfg : Cfg) (h : cfg.hasCn = false) (first : String) (r : Seg) :
    ((ncopiesOf cfg first r : Int) : Rat) -
        ((refExpect cfg.ploidy cfg.hapX cfg.female (classOf first cfg.par r.chrom r.s r.e)).1 : Rat) * r.t ≤ 1/2 ∧
    ((refExpect cfg.ploidy cfg.hapX cfg.female (classOf first cfg.par r.chrom r.s r.e)).1 : Rat) * r.t -
        ((ncopiesOf cfg first r : Int) : Rat) ≤ 1/2 :=
  ncopiesOf_nearest cfg h first r

/-! ### export bed -/

/-- `--show all`: every segment, in order, with its 0-based coordinates unchanged and its integer
    copy number -/
theorem bed_all (cfg : Cfg) (label : Option String) (rows : List Seg) :
    exportBed cfg label .all rows =
      rows.map (fun r => { chrom := r.chrom, s := r.s, e := r.e, label := bedLabel label r,
                           ncopies := ncopiesOf cfg (firstChrom rows) r }) := rfl

/-- `--show ploidy`: exactly the segments whose copy number differs from the ploidy -/
theorem bed_ploidy_iff (cfg : Cfg) (label : Option String) (rows : List Seg) :
    exportBed cfg label .ploidy rows =
      (rows.filter (fun r => ncopiesOf cfg (firstChrom rows) r != (cfg.ploidy : Int))).map
        (bedRowOf cfg (firstChrom rows) label) :=
  exportBed_eq_spec cfg label .ploidy rows

/-- `--show variant`: exactly the segments whose copy number differs from the one expected for
    their chromosome and the sample's sex -/
theorem bed_variant_iff (cfg : Cfg) (label : Option String) (rows : List Seg) :
    exportBed cfg label .variant rows =
      (rows.filter (fun r => ncopiesOf cfg (firstChrom rows) r != expectedCopies cfg (firstChrom rows) r)).map
        (bedRowOf cfg (firstChrom rows) label) :=
  exportBed_eq_spec cfg label .variant rows

/-- a listed row repeats the segment's chromosome, start and end as they are -/
theorem bed_row_coordinates (cfg : Cfg) (first : String) (label : Option String) (r : Seg) :
    (bedRowOf cfg first label r).chrom = r.chrom ∧ (bedRowOf cfg first label r).s = r.s ∧
    (bedRowOf cfg first label r).e = r.e ∧ (bedRowOf cfg first label r).ncopies = ncopiesOf cfg first r :=
  ⟨rfl, rfl, rfl, rfl⟩

/-! ### export vcf -/

/-- one record per segment of that last kind (copy number ≠ expected), in order, and no others;
    the table carries non-negative integer probe counts -/
theorem vcf_record_iff_variant (cfg : Cfg) (rows : List Seg) (h : ProbesOk cfg rows) :
    segments2vcf cfg rows =
      (rows.filter (fun r => ncopiesOf cfg (firstChrom rows) r != expectedCopies cfg (firstChrom rows) r)).map
        (vcfRecOf cfg (firstChrom rows)) :=
  segments2vcf_eq_spec cfg rows h

/-- so `export vcf` and `export bed --show variant` report the same segments -/
theorem vcf_reports_bed_variant_segments (cfg : Cfg) (label : Option String) (rows : List Seg)
    (h : ProbesOk cfg rows) :
    (segments2vcf cfg rows).map (fun v => (v.chrom, v.endp)) =
      (exportBed cfg label .variant rows).map (fun b => (b.chrom, b.e)) := by
  rw [segments2vcf_eq_spec cfg rows h, exportBed_eq_spec]
  unfold vcfSpec bedSpec
  simp only [List.map_map]
  rfl

/-- POS = start (1 where start is 0), END = end -/
theorem vcf_pos_end (cfg : Cfg) (first : String) (r : Seg) :
    (vcfRecOf cfg first r).chrom = r.chrom ∧
    (vcfRecOf cfg first r).pos = (if r.s = 0 then 1 else r.s) ∧
    (vcfRecOf cfg first r).endp = r.e :=
  ⟨rfl, rfl, rfl⟩

/-- copy number below the expected one: SVTYPE = DEL, ALT = <DEL>, SVLEN = −(end − start) -/
theorem vcf_fields_loss (cfg : Cfg) (first : String) (r : Seg)
    (h : ncopiesOf cfg first r < expectedCopies cfg first r) :
    (vcfRecOf cfg first r).svtype = "DEL" ∧ (vcfRecOf cfg first r).alt = "<DEL>" ∧
    (vcfRecOf cfg first r).svlen = -(r.e - r.s) :=
  vcfRecOf_loss cfg first r h

/-- above: SVTYPE = DUP, ALT = <DUP>, SVLEN = +(end − start), and the sample field's CN entry is the
    copy number -/
theorem vcf_fields_gain (cfg : Cfg) (first : String) (r : Seg)
    (h : expectedCopies cfg first r < ncopiesOf cfg first r) :
    (vcfRecOf cfg first r).svtype = "DUP" ∧ (vcfRecOf cfg first r).alt = "<DUP>" ∧
    (vcfRecOf cfg first r).svlen = r.e - r.s ∧
    sampleField (vcfRecOf cfg first r) "CN" = some (toString (ncopiesOf cfg first r)) :=
  vcfRecOf_gain cfg first r h

/-- the excluded point of `ProbesOk`: a table without a probes column yields no record at all -/
theorem vcf_without_probes_is_empty (cfg : Cfg) (rows : List Seg) (h : cfg.hasProbes = false) :
    segments2vcf cfg rows = [] :=
  segments2vcf_no_probes cfg rows h

/-! ### export seg -/

/-- each sample's segments, sample after sample, under its ID, with 1-based start, end, probe
    count and mean (chromosome names kept) -/
theorem seg_rows (samples : List SegSample) :
    exportSeg false samples =
      samples.flatMap (fun sm => sm.rows.map (fun r =>
        { id := sm.id, chrom := r.chrom, start := r.s + 1, endp := r.e,
          probes := if sm.hasProbes then some r.probes else none, mean := r.v })) :=
  exportSeg_plain samples

/-- `--enumerate-chroms` changes the chromosome column only -/
theorem seg_rows_enumerated (en : Bool) (samples : List SegSample) :
    (exportSeg en samples).map (fun o => (o.id, o.start, o.endp, o.probes, o.mean)) =
      (exportSeg false samples).map (fun o => (o.id, o.start, o.endp, o.probes, o.mean)) := by
  have h1 := exportSeg_core en samples
  have h2 := exportSeg_core false samples
  unfold SegOut.core at h1 h2
  rw [h1, h2]

/-! ### jtv / cdt / nexus-basic -/

/-- inputs whose bins differ (coordinates or gene) from the first sample's are refused; labels
    identify bins when chromosome names hold no ':' and starts are not negative -/
theorem merge_refuses_differing_bins (first : BinSample) (rest : List BinSample)
    (hw : ∀ sm ∈ first :: rest, ∀ b ∈ sm.bins, BinOk b)
    (h : ∃ sm ∈ rest, sm.bins.map binKey ≠ first.bins.map binKey) :
    ∃ e, mergeSamples (first :: rest) = .error e :=
  mergeSamples_bins_differ first rest hw h

/-- equal bins but a repeated sample ID: refused as a duplicate -/
theorem merge_rejects_duplicate_id (first : BinSample) (rest : List BinSample)
    (hb : ∀ sm ∈ rest, sm.bins.map binKey = first.bins.map binKey)
    (hd : ¬ ((first :: rest).map (·.id)).Nodup) :
    ∃ id, mergeSamples (first :: rest) = .error (.duplicate id) :=
  mergeSamples_duplicate first rest (fun sm hsm => labels_of_bins_eq sm first (hb sm hsm)) hd

/-- equal bins and distinct sample IDs (whatever they are): the table is made, and in JTV form it
    has one row per bin carrying the bin's label and each sample's log2 in its own column -/
theorem table_one_row_per_bin_jtv (first : BinSample) (rest : List BinSample)
    (hb : ∀ sm ∈ rest, sm.bins.map binKey = first.bins.map binKey)
    (hd : ((first :: rest).map (·.id)).Nodup) :
    ∃ f, mergeSamples (first :: rest) = .ok f ∧
      (fmtJtv ((first :: rest).map (·.id)) f).1 = ["CloneID", "Name"] ++ (first :: rest).map (·.id) ∧
      (fmtJtv ((first :: rest).map (·.id)) f).2.length = first.bins.length ∧
      ∀ i, i < first.bins.length →
        (fmtJtv ((first :: rest).map (·.id)) f).2[i]? =
          some ([Cell.str "IMAGE:", Cell.str (labelWithGene (first.bins.getD i default))] ++
                (first :: rest).map (fun sm => Cell.num ((sm.bins.getD i default).v))) := by
  have hl : ∀ sm ∈ rest, labelCol sm = labelCol first :=
    fun sm hsm => labels_of_bins_eq sm first (hb sm hsm)
  have hlen : ∀ sm ∈ first :: rest, sm.bins.length = first.bins.length := by
    intro sm hsm
    rcases List.mem_cons.mp hsm with rfl | h
    · rfl
    · exact bins_length_of_labels sm first (hl sm h)
  refine ⟨_, mergeSamples_ok first rest hl hd, rfl, ?_⟩
  exact fmtJtv_rows _ first (first :: rest) hlen

/-- the same in CDT form, after its two header rows -/
theorem table_one_row_per_bin_cdt (first : BinSample) (rest : List BinSample)
    (hb : ∀ sm ∈ rest, sm.bins.map binKey = first.bins.map binKey)
    (hd : ((first :: rest).map (·.id)).Nodup) :
    ∃ f, mergeSamples (first :: rest) = .ok f ∧
      (fmtCdt ((first :: rest).map (·.id)) f).1 = ["GID", "CLID", "NAME", "GWEIGHT"] ++ (first :: rest).map (·.id) ∧
      (((fmtCdt ((first :: rest).map (·.id)) f).2).drop 2).length = first.bins.length ∧
      ∀ i, i < first.bins.length →
        (((fmtCdt ((first :: rest).map (·.id)) f).2).drop 2)[i]? =
          some ([Cell.str ("GENE" ++ toString i ++ "X"), Cell.str ("IMAGE:" ++ toString i),
                 Cell.str (labelWithGene (first.bins.getD i default)), Cell.int 1] ++
                (first :: rest).map (fun sm => Cell.num ((sm.bins.getD i default).v))) := by
  have hl : ∀ sm ∈ rest, labelCol sm = labelCol first :=
    fun sm hsm => labels_of_bins_eq sm first (hb sm hsm)
  have hlen : ∀ sm ∈ first :: rest, sm.bins.length = first.bins.length := by
    intro sm hsm
    rcases List.mem_cons.mp hsm with rfl | h
    · rfl
    · exact bins_length_of_labels sm first (hl sm h)
  refine ⟨_, mergeSamples_ok first rest hl hd, rfl, ?_⟩
  exact fmtCdt_rows _ first (first :: rest) hlen

/-- nexus-basic: one row per bin with its coordinates, gene, log2 and its range label
    `chromosome:start+1-end` (cnvkit's 1-based text coordinates) -/
theorem nexus_one_row_per_bin (bins : List Bin) :
    (nexusBasic bins).length = bins.length ∧
    ∀ i, i < bins.length →
      (nexusBasic bins)[i]? = some (let b := bins.getD i default
        [Cell.str b.chrom, Cell.int b.s, Cell.int b.e, Cell.str b.gene, Cell.num b.v,
         Cell.str (b.chrom ++ ":" ++ toString (b.s + 1) ++ "-" ++ toString b.e)]) :=
  nexusBasic_rows bins

/-! ### what the code did before the two repairs (kept so that the history stays checkable) -/

/-- before fix U `export bed` took the reference copies from the chromosome name alone: a neutral
    PAR1-X segment (log2 0) against a male reference of a diploid-PAR genome got 1 copy, was listed
    as a variant by `--show variant` (2 expected) while `export vcf` reported nothing -/
theorem bed_prefix_counterexample :
    let cfg : Cfg := { ploidy := 2, hapX := true, female := false, par := some "grch38",
                       hasCn := false, hasProbes := true }
    let r : Seg := { chrom := "chrX", s := 10000, e := 2781479, gene := "-", v := 0, t := 1, probes := 9, cn := 0 }
    ncopiesBedPrefix cfg r = 1 ∧ expectedCopies cfg "chr1" r = 2 ∧ ncopiesOf cfg "chr1" r = 2 := by
  decide +kernel

/-- before fix V a first sample called "gene" overwrote the gene column and lost its own: the
    JTV row had no sample cell -/
theorem merge_prefix_counterexample :
    let sm : BinSample := { id := "gene", bins := [{ chrom := "chr1", s := 100, e := 250, gene := "B", v := -1/4 }] }
    (mergeSamplesPrefix [sm]).map (fun f => (fmtJtvPrefix ["gene"] f).2) =
      .ok [[Cell.str "IMAGE:", Cell.str "chr1:100-250:B"]] ∧
    (mergeSamples [sm]).map (fun f => (fmtJtv ["gene"] f).2) =
      .ok [[Cell.str "IMAGE:", Cell.str "chr1:100-250:B", Cell.num (-1/4)]] := by
  decide +kernel

/-! ### non-vacuity -/

/-- a male sample, male reference, grch38: chr1 with 3 copies (gain), neutral PAR1-X, X with 2
    copies (gain over the 1 expected), Y with 0 (loss), starting at 0 -/
def exCfg : Cfg := { ploidy := 2, hapX := true, female := false, par := some "grch38", hasCn := true, hasProbes := true }
def exRows : List Seg :=
  [{ chrom := "chr1", s := 0, e := 1000, gene := "A", v := 0, t := 1, probes := 5, cn := 3 },
   { chrom := "chr1", s := 1000, e := 5000, gene := "B", v := 0, t := 1, probes := 7, cn := 2 },
   { chrom := "chrX", s := 10000, e := 2781479, gene := "C", v := 0, t := 1, probes := 9, cn := 2 },
   { chrom := "chrX", s := 3000000, e := 3000100, gene := "D", v := 0, t := 1, probes := 2, cn := 2 },
   { chrom := "chrY", s := 2781480, e := 2800000, gene := "E", v := 0, t := 1, probes := 4, cn := 0 }]

example : ProbesOk exCfg exRows := by
  refine ⟨rfl, ?_⟩
  decide +kernel

example : (exportBed exCfg none .variant exRows).map (fun b => (b.chrom, b.s, b.ncopies)) =
    [("chr1", 0, 3), ("chrX", 3000000, 2), ("chrY", 2781480, 0)] := by decide +kernel

example : (segments2vcf exCfg exRows).map (fun v => (v.chrom, v.pos, v.alt, v.svlen, v.sample)) =
    [("chr1", 1, "<DUP>", 1000, ["0/1", "0", "3", "5"]),
     ("chrX", 3000000, "<DUP>", 100, ["0/1", "0", "2", "2"]),
     ("chrY", 2781480, "<DEL>", -18520, ["1/1", "4"])] := by decide +kernel

example : BinOk { chrom := "chr1", s := 0, e := 10, gene := "A:B", v := 0 } := by
  refine ⟨?_, by decide⟩
  decide +kernel

end CnvVerif.C20
