/-
  C20, the command line: `cnvkit.py export bed | vcf` (commands._cmd_export_bed, _cmd_export_vcf,
  cmdutil.verify_sample_sex) hand the exporters the sex the user states (else the inferred one), the label the options
  ask for, and every file in turn.  Model: Model/ExportExt.lean; source tie: Props/C20Src.lean.
-/
import CnvVerif.Props.C20
import CnvVerif.Model.ExportExt
import CnvVerif.Generated.ExprsExport
import CnvVerif.Lemmas.SrcExportCli
namespace CnvVerif.C20
open CnvVerif CnvVerif.Export

/-- every spelling argparse accepts for the sample sex (the list is read from commands.py) is understood as the sex
    it spells, whatever the table suggests: female iff it is f / x / female in any case, male iff m / y / male in any
    case -- no accepted spelling falls through to a default -/
theorem cli_stated_sex_wins (guess : Bool) :
    ∀ s ∈ Generated.EXPORT_SEX_CHOICES,
      (verifySampleSex guess (some s) = true ↔ s.toLower ∈ ["f", "x", "female"]) ∧
      (verifySampleSex guess (some s) = false ↔ s.toLower ∈ ["m", "y", "male"]) := by
  intro s hs
  simp only [Generated.EXPORT_SEX_CHOICES, List.mem_cons, List.not_mem_nil, or_false] at hs
  rcases hs with rfl | rfl | rfl | rfl | rfl | rfl | rfl | rfl <;> cases guess <;> decide +kernel

/-- no sex on the command line: the exporters get the sex inferred from the table (C15's subject) -/
theorem cli_sex_inferred_when_not_stated (guess : Bool) : verifySampleSex guess none = guess := rfl

/-- `export bed FILE...`: each file's segments in file order, and per file exactly the segments `--show` selects for
    the sex in force for THAT file (stated, else inferred from it), with the file's own columns deciding whether the
    copy number is the cn column or the rounded ratio -/
theorem cli_bed_lists_each_file_in_order (a : CmdArgs) (files : List SegFile) :
    cmdExportBed a files =
      files.flatMap (fun f =>
        (f.rows.filter (bedKeep (fileCfg a f) (firstChrom f.rows) a.showMode)).map
          (bedRowOf (fileCfg a f) (firstChrom f.rows) (cmdBedLabel a.sampleId a.labelGenes f.segId))) := by
  unfold cmdExportBed
  congr 1
  funext f
  exact exportBed_eq_spec _ _ _ _

/-- the 4th column: `-i LABEL` wins; else `--label-genes` gives each segment's gene names; else the file's sample ID -/
theorem cli_bed_label_rule (lg : Bool) (segId : String) (r : Seg) :
    (∀ l : String, l ≠ "" → bedLabel (cmdBedLabel (some l) lg segId) r = l) ∧
    bedLabel (cmdBedLabel none true segId) r = r.gene ∧
    (segId ≠ "" → bedLabel (cmdBedLabel none false segId) r = segId) := by
  refine ⟨fun l hl => ?_, rfl, fun h => ?_⟩
  · simp [cmdBedLabel, bedLabel, String.isEmpty_iff, hl]
  · simp [cmdBedLabel, bedLabel, String.isEmpty_iff, h]

/-- `export vcf FILE`: the sample column is `-i` or the file's sample ID, the records are one per segment whose copy
    number differs from the one expected for the sex in force, in order -/
theorem cli_vcf_records (a : CmdArgs) (f : SegFile) (h : ProbesOk (fileCfg a f) f.rows) :
    cmdExportVcf a f =
      (vcfSampleColumn a.sampleId f.segId,
       (f.rows.filter (fun r => ncopiesOf (fileCfg a f) (firstChrom f.rows) r
            != expectedCopies (fileCfg a f) (firstChrom f.rows) r)).map
         (vcfRecOf (fileCfg a f) (firstChrom f.rows))) := by
  unfold cmdExportVcf
  rw [segments2vcf_eq_spec _ _ h]
  rfl

/-- a male X segment with one copy: listed when the command line says female, silent when it says male -- whatever the
    table's own coverage suggests (non-vacuity of the sex handoff) -/
theorem cli_sex_changes_the_listing :
    let r : Seg := { chrom := "chrX", s := 5000000, e := 6000000, gene := "G", v := 0, t := 1, probes := 4, cn := 1 }
    let f : SegFile := { segId := "S", guess := true, hasCn := true, hasProbes := true, rows := [r] }
    let a (sex : Option String) : CmdArgs :=
      { ploidy := 2, hapX := false, par := none, sexArg := sex, sampleId := none, labelGenes := false, showMode := .variant }
    (cmdExportBed (a (some "Male")) [f]).length = 0 ∧ (cmdExportBed (a (some "x")) [f]).length = 1 ∧
    (cmdExportBed (a none) [f]).length = 1 := by
  decide +kernel

/-! ### the glue is what the source says (Generated/ExprsExport.lean, re-read on every run) -/

/-- `verify_sample_sex` -/
theorem verify_sample_sex_is_the_source (guess : Bool) (sexArg : Option String) :
    verifySampleSex guess sexArg = Generated.src_export_verify_sample_sex guess (sexArg.getD "") :=
  Src.verifySampleSex_is_source guess sexArg

/-- the label `_cmd_export_bed` hands to `export_bed` (which only tests its truthiness: `none` and `""` both mean
    "use the gene names") -/
theorem cmd_bed_label_is_the_source (sampleId : Option String) (labelGenes : Bool) (segId : String) :
    (cmdBedLabel sampleId labelGenes segId).getD "" =
      Generated.src_cmd_export_bed_label (sampleId.getD "") labelGenes segId :=
  Src.cmdBedLabel_is_source sampleId labelGenes segId

end CnvVerif.C20
