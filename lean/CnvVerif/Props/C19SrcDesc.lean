/-
  C19: tie of the estimators to the source TEXT of cnvlib/descriptives.py.  The definitions `Generated.src_*` of
  Generated/ExprsDesc.lean are re-translated from /repo's Python on every run (harness/vectrans.py: a typed reading
  of the numpy vector subset the estimators are written in); these theorems state that the hand-written model
  functions ARE those expressions, for all arguments.  Kept in a module of their own so that an edit to one of the
  formulas breaks exactly these obligations.  Third-party values stay inputs on both sides: the permutation
  `argsort` returned, `√π`.
-/
import CnvVerif.Props.C19
import CnvVerif.Lemmas.SrcDesc
namespace CnvVerif.C19
open CnvVerif CnvVerif.Desc CnvVerif.Generated

/-- `median_absolute_deviation(a, scale_to_sd)` behind its decorator is the model's `madCore` -/
theorem mad_is_the_source (a : List Rat) (scaleToSd : Bool) :
    src_median_absolute_deviation a scaleToSd = madCore a scaleToSd := Src.mad_is_source a scaleToSd

/-- `interquartile_range` -/
theorem iqr_is_the_source (a : List Rat) : src_interquartile_range a = iqrCore a := Src.iqr_is_source a

/-- `gapper_scale`: gaps of the sorted values weighted by `i·(n−i)`; the model leaves out the factor `√π` -/
theorem gapper_is_the_source (a : List Rat) (sqrt_pi : Rat) :
    src_gapper_scale a sqrt_pi = gapperCore a * sqrt_pi := Src.gapper_is_source a sqrt_pi

/-- `q_n` after its double loop (`vals` = the pairwise distances, modelled by `pairDiffs`): the percentile taken and
    the whole chain of finite-sample factors `n ≤ 10`, `10 < n < 400`, else -/
theorem qn_is_the_source (a : List Rat) : src_q_n a (pairDiffs a) = qnCore a := Src.qn_is_source a

/-- `weighted_std` behind its decorator (equal lengths): where the model returns a variance, the source returns its root -/
theorem wstd_is_the_source (a w : List Rat) (h : a.length = w.length) (v : Rat)
    (hv : weightedVarCore (a.zip w) = some v) : src_weighted_std a w = ScaleOut.root v := Src.wstd_is_source a w h v hv

/-- the step function nested in `biweight_location` is the model's `bilocIter`, for every cut-off and floor -/
theorem biweight_step_is_the_source (a : List Rat) (init c eps : Rat) :
    src_biloc_iter a init c eps = bilocIter c eps a init := Src.biloc_iter_is_source a init c eps

/-- `biweight_midvariance` about a given centre, with the generated defaults `c = 9`, `ε = 0.001`: the model returns
    what the source computes (MAD fall-back on exactly symmetric data, otherwise the root of the same radicand), except
    where the source divides by zero (`.undefined`: inf / NaN in Python) -/
theorem biweight_midvariance_is_the_source (a : List Rat) (init : Rat) :
    bivarCore false a (some init) = ScaleOut.undefined ∨
      bivarCore false a (some init) = src_biweight_midvariance a init BIVAR_C BIVAR_EPS := Src.bivar_is_source a init

/-- `weighted_median` behind its decorator (equal lengths): majority shortcut, cumulative weights, the two
    `searchsorted` calls with the rounding allowance `midpoint·n·ε`, and the mean of the two values found -/
theorem wmedian_is_the_source (a w : List Rat) (order : List Nat) (h : a.length = w.length) :
    src_weighted_median a w order = weightedMedianCore false order (a.zip w) := Src.wmedian_is_source a w order h

/-! non-vacuity: the generated definitions compute -/
example : src_weighted_median [3, 1, 4, 2] [0, 1, 2, 1] [1, 3, 0, 2] = 3 := by decide +kernel
example : weightedVarCore ([1, 3].zip [1, 1]) = some 1 := by decide +kernel

end CnvVerif.C19
