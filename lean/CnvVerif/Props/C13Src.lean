/-
  C13: tie to the source TEXT.  `Generated.src_get_regions_step` / `_final` are re-translated from the body of
  `cnvlib/access.py:get_regions` on every run (harness/looptrans.py, reading rules at its top; library calls read as Model/PyPrims.lean).  These
  theorems state that the hand-written scanner model IS that loop.  Kept in a module of their own so
  that an edit to a branch, an index, a comparison or an update of the loops breaks exactly these obligations.

  Vocabulary.  `Py.genLoop step final init xs`: what a generator `for x in xs: <step>` + `<final>` yields.
  `Src.stepFn` / `Src.finalFn`: the generated loop body / flush of `get_regions` as functions of the loop-carried
  triple (`chrom`, `cursor`, `run_start`).  `Src.tag c r = (c, r.1, r.2)`, `Src.toRegion` turns the name into a
  `String`, (`join_regions` has its own module, Props/C13SrcJoin.lean.)
-/
import CnvVerif.Props.C13
import CnvVerif.Lemmas.SrcAccess
namespace CnvVerif.C13
open CnvVerif CnvVerif.Generated

/-- one sequence line: the model's `stepLine` on the `rstrip`ped line (blank / all-N shortcut / mixed line via
    `n_indices`, `np.diff`, masks / N-free) IS the non-header branch of the loop body in the source, for every
    state and every line that does not start with '>' -/
theorem scanner_line_is_the_source (c : List Char) (cursor : Nat) (rs : Option Nat) (l : List Char)
    (h : l.head? ≠ some '>') :
    src_get_regions_step c cursor rs l =
      ((stepLine ⟨cursor, rs⟩ (rstripChars l)).1.map (Src.tag c),
       (c, (stepLine ⟨cursor, rs⟩ (rstripChars l)).2.cursor,
           (stepLine ⟨cursor, rs⟩ (rstripChars l)).2.runStart)) :=
  Src.step_body c cursor rs l h

/-- a header line: the open run is flushed at the old cursor, the name is the text after '>' up to the first
    blank, cursor and run start are reset -/
theorem scanner_header_is_the_source (c : List Char) (cursor : Nat) (rs : Option Nat) (rest : List Char) :
    src_get_regions_step c cursor rs ('>' :: rest) =
      ((emitOpen rs cursor).map (Src.tag c), (rest.takeWhile (fun ch => !isPySpace ch), 0, none)) :=
  Src.step_header c cursor rs rest

/-- the statements after the loop flush the open run -/
theorem scanner_flush_is_the_source (c : List Char) (cursor : Nat) (rs : Option Nat) :
    src_get_regions_final c cursor rs = (emitOpen rs cursor).map (Src.tag c) :=
  Src.final_is_source c cursor rs

/-- the whole function: for every file that is empty or starts with a header line, the model `getRegions` on
    the parsed lines yields exactly what the source's loop body, iterated over the raw lines from
    `chrom = cursor = run_start = None` and followed by the source's flush, yields -/
theorem get_regions_is_the_source (ls : List (List Char))
    (h : ∀ l, ls.head? = some l → l.head? = some '>') :
    getRegions (ls.map parseLine) =
      .ok ((Py.genLoop Src.stepFn Src.finalFn ([], 0, none) ls).map Src.toRegion) :=
  Src.getRegions_is_source ls h

/-- the same from any state after a header (any sequence name, cursor, open run) -/
theorem scan_loop_is_the_source (c : List Char) (st : Scan) (ls : List (List Char)) :
    scanFile (some (String.ofList c)) st (ls.map parseLine) =
      .ok ((Py.genLoop Src.stepFn Src.finalFn (c, st.cursor, st.runStart) ls).map Src.toRegion) :=
  Src.scanFile_is_source c st ls

/-! ### non-vacuity: the generated loop, run by the kernel on a concrete file -/

example : (Py.genLoop Src.stepFn Src.finalFn ([], 0, none)
      [">c1 x\n".toList, "ACN\n".toList, "NG \r\n".toList, "\n".toList, "TNA\n".toList, ">c2\n".toList, "AC".toList]).map
        Src.toRegion =
    [("c1", 0, 2), ("c1", 4, 6), ("c1", 7, 8), ("c2", 0, 2)] := by decide

example : ∀ l, ([">c1 x\n".toList, "ACN\n".toList] : List (List Char)).head? = some l → l.head? = some '>' := by
  intro l hl; simp at hl; subst hl; rfl

end CnvVerif.C13
