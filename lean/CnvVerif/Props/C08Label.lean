/-
  C08 (round 5) — the regular expression of `rangelabel.re_label` inside the proof, and the whole of `from_label`.

  `Generated/RegexLabel.lean: src_re_label` is the pattern of `re_label` as a regex AST, re-read from the source text
  on every run (harness/extractors/regex_label.py, through Python's own pattern parser).  `Model/FormatsExt5Label.lean`
  gives that AST the backtracking semantics of `re.match` (greedy `?`, `*`, `+`; capture groups).  Theorems:
  the hand-written parser `Fmt.fromLabel` — the one `text_write_read`, `cross_format_same_regions`, … are about —
  returns exactly the groups of the source pattern for EVERY text (so what it accepts and what it refuses is what the
  pattern accepts and refuses); `from_label (to_label r) = r` for the full function (both `keep_gene` settings);
  texts without `:` or without a `-` after the colon are refused; an open-ended range gives `None`, not a number.
-/
import CnvVerif.Lemmas.Formats
import CnvVerif.Lemmas.FormatsExt5Label
namespace CnvVerif.C08
open CnvVerif CnvVerif.Fmt CnvVerif.Generated CnvVerif.Fmt.C08L

open LabelRe

/-- THE TIE OF THE PATTERN: for every text, the hand-written parser `Fmt.fromLabel` (which all text theorems of C08
    are about) returns exactly `re_label.match(text).groups()` — the pattern being the AST regenerated from
    `skgenome/rangelabel.py`, under the backtracking semantics of Python's `re` — and refuses exactly when the
    pattern does not match. -/
theorem fromLabel_is_re_label (l : List Char) : fromLabel l = fromLabelRe src_re_label l := by
  rw [fromLabel_tail]
  unfold fromLabelRe
  rw [reMatch_src, k0_eq]
  cases l with
  | nil =>
    have h := k1_tail id [] [] (by intro a b c; exact capOf_234 a b c)
    rw [show Option.map id (k1 []) = k1 [] from by simp] at h
    exact h.symm
  | cons x t =>
    by_cases hw : isWordCh x = true
    · simp only [hw, ↓reduceIte]
      exact (k1_tail (fun caps => (1, x :: t.takeWhile (fun c => isWordCh c || c == '.')) :: caps) _ _
        (by intro a b c; exact capOf_1234 _ a b c)).symm
    · have hw' : isWordCh x = false := by simpa using hw
      simp only [hw', Bool.false_eq_true, ↓reduceIte]
      have h := k1_tail id [] (x :: t) (by intro a b c; exact capOf_234 a b c)
      rw [show Option.map id (k1 (x :: t)) = k1 (x :: t) from by simp] at h
      exact h.symm

/-- `from_label` applies the pattern with `match` (anchored at the start only), as the model does -/
theorem re_label_applied_with_match : src_re_label_method = "match" := by decide


/-! ### the whole of `from_label` -/

/-- `from_label (to_label r) = r` for the full function: chromosome, start (the `+1` of `to_label` undone by the `-1`
    of `from_label`), end, and the gene field as `keep_gene` asks — for every chromosome name the pattern accepts and
    all non-negative coordinates -/
theorem from_label_to_label (c : String) (a b : Int) (hc : LabelName c) (ha : 0 ≤ a) (hb : 0 ≤ b) (keepGene : Bool) :
    fromLabelFull (toLabel c a b).toList keepGene =
      .ok { chrom := some c, s := some a, e := some b, gene := if keepGene then some "" else none } := by
  obtain ⟨⟨c0, rest, hc0, hw⟩, hall⟩ := hc
  have ha' : 0 ≤ a + WRITE_SHIFT_to_label := by simp only [WRITE_SHIFT_to_label]; omega
  have hfl := fromLabel_parts c.toList (toString (a + WRITE_SHIFT_to_label)).toList (toString b).toList
    c0 rest hc0 hw hall (toString_digits _ ha').2 (toString_digits _ hb).2
  have hne : c.toList.isEmpty = false := by rw [hc0]; rfl
  have h1 : (toString (a + WRITE_SHIFT_to_label)).toList.isEmpty = false := by
    have := (toString_digits _ ha').1
    cases h : (toString (a + WRITE_SHIFT_to_label)).toList with
    | nil => exact absurd h this
    | cons _ _ => rfl
  have h2 : (toString b).toList.isEmpty = false := by
    have := (toString_digits _ hb).1
    cases h : (toString b).toList with
    | nil => exact absurd h this
    | cons _ _ => rfl
  have hs : a + WRITE_SHIFT_to_label + READ_SHIFT_from_label = a := by
    simp only [WRITE_SHIFT_to_label, READ_SHIFT_from_label]; omega
  unfold fromLabelFull
  rw [toLabel_toList, hfl]
  simp only [bind, Except.bind, hne, h1, h2, Bool.false_eq_true, ↓reduceIte, String.ofList_toList, parseInt_toString,
    Option.map_some, hs, pure, Except.pure]

/-- open-ended ranges: `chr1:1234-` has no end and `chr1:-5678` no start (`None`, not 0 and not -1) -/
theorem open_ended_labels (c : String) (n : Int) (hc : LabelName c) (hn : 0 ≤ n) (keepGene : Bool) :
    fromLabelFull (c.toList ++ ':' :: ((toString n).toList ++ ['-'])) keepGene =
      .ok { chrom := some c, s := some (n + READ_SHIFT_from_label), e := none,
            gene := if keepGene then some "" else none } ∧
    fromLabelFull (c.toList ++ ':' :: ([] ++ '-' :: (toString n).toList)) keepGene =
      .ok { chrom := some c, s := none, e := some n, gene := if keepGene then some "" else none } := by
  obtain ⟨⟨c0, rest, hc0, hw⟩, hall⟩ := hc
  have hne : c.toList.isEmpty = false := by rw [hc0]; rfl
  have h1 : (toString n).toList.isEmpty = false := by
    have := (toString_digits _ hn).1
    cases h : (toString n).toList with
    | nil => exact absurd h this
    | cons _ _ => rfl
  have hA := fromLabel_parts c.toList (toString n).toList [] c0 rest hc0 hw hall (toString_digits _ hn).2 (by simp)
  have hB := fromLabel_parts c.toList [] (toString n).toList c0 rest hc0 hw hall (by simp) (toString_digits _ hn).2
  constructor
  · unfold fromLabelFull
    rw [hA]
    simp only [bind, Except.bind, hne, h1, Bool.false_eq_true, ↓reduceIte, String.ofList_toList, parseInt_toString,
      Option.map_some, List.isEmpty_nil, pure, Except.pure]
  · unfold fromLabelFull
    rw [hB]
    simp only [bind, Except.bind, hne, h1, Bool.false_eq_true, ↓reduceIte, String.ofList_toList, parseInt_toString,
      List.isEmpty_nil, pure, Except.pure]

private theorem tailOf_no_colon (chrom m : List Char) (h : ':' ∉ m) :
    LabelRe.tailOf chrom m = .error "ValueError: Invalid range spec" := by
  unfold LabelRe.tailOf
  split
  · simp at h
  · rfl

private theorem tailOf_no_dash (chrom m : List Char) (h : '-' ∉ m) :
    LabelRe.tailOf chrom m = .error "ValueError: Invalid range spec" := by
  unfold LabelRe.tailOf
  split
  · rename_i r1
    split
    · rename_i r3 heq
      have : '-' ∈ r1.dropWhile Char.isDigit := by rw [heq]; simp
      have := (List.dropWhile_sublist Char.isDigit).subset this
      simp [this] at h
    · rfl
  · rfl

/-- texts the pattern cannot match are REFUSED (ValueError), by the parser and by the source pattern alike:
    no colon, or no dash, anywhere in the text -/
theorem label_without_colon_or_dash_refused (l : List Char) (h : ':' ∉ l ∨ '-' ∉ l) (keepGene : Bool) :
    fromLabelFull l keepGene = .error "ValueError: Invalid range spec" ∧ reMatch src_re_label l = none := by
  have hfl : fromLabel l = .error "ValueError: Invalid range spec" := by
    rw [LabelRe.fromLabel_tail]
    cases l with
    | nil => rfl
    | cons x t =>
      have hsub : ∀ y, y ∈ t.dropWhile (fun c => isWordCh c || c == '.') → y ∈ x :: t := fun y hy =>
        List.mem_cons_of_mem _ ((List.dropWhile_sublist _).subset hy)
      show (if isWordCh x then _ else _) = _
      rcases h with h | h
      · split
        · exact tailOf_no_colon _ _ (fun hm => h (hsub _ hm))
        · exact tailOf_no_colon _ _ h
      · split
        · exact tailOf_no_dash _ _ (fun hm => h (hsub _ hm))
        · exact tailOf_no_dash _ _ h
  constructor
  · unfold fromLabelFull; rw [hfl]; rfl
  · have := fromLabel_is_re_label l
    rw [hfl] at this
    unfold fromLabelRe at this
    cases hm : reMatch src_re_label l with
    | none => rfl
    | some caps => rw [hm] at this; cases this

/-! ### non-vacuity: the semantics run on concrete texts -/
/-- groups of the source pattern on a text, or `none` when it does not match -/
def groupsOf (text : String) : Option (String × String × String × String) :=
  match fromLabelRe src_re_label text.toList with
  | .ok (a, b, c, d) => some (String.ofList a, String.ofList b, String.ofList c, String.ofList d)
  | .error _ => none
example : groupsOf "chr1:10-20 BRCA1" = some ("chr1", "10", "20", "BRCA1") := by decide
example : groupsOf "GL000207.1:-77" = some ("GL000207.1", "", "77", "") := by decide
example : groupsOf "chr 1:10-20" = none := by decide
example : groupsOf ":5-" = some ("", "5", "", "") := by decide
example : groupsOf "chr1:10-20\tA B" = some ("chr1", "10", "20", "A") := by decide

end CnvVerif.C08
