/-
  C19 (round 5): the outer loop of `biweight_location` -- statements about EVERY value the variable `result` takes (the
  trace of the loop), hence about the value returned.  `Desc.bilocLoop` / `Desc.bilocIter` are the model functions that
  Props/C19SrcLoop.lean and Props/C19SrcBiloc.lean prove equal to the source text; `iterates` lists, in order, the values
  of `result`.  No size bound, every cut-off `c`, tolerance `eps`, number of rounds and starting value.
-/
import CnvVerif.Lemmas.DescLoopExt5
namespace CnvVerif.C19.Loop
open CnvVerif CnvVerif.Desc CnvVerif.C19Loop

set_option linter.unusedSimpArgs false
set_option linter.unusedVariables false

/-- the values `result` takes in `biweight_location(a, initial=init, c, epsilon=eps, max_iter=fuel+1)` -/
abbrev iterates (c eps : Rat) (a : List Rat) (fuel : Nat) (init : Rat) : List Rat :=
  trace (bilocIter c eps a) eps fuel init

/-- the value returned is the last iterate; there are between 1 and `max_iter` of them; the first is the step at `init`
    and each further one is the step applied to its predecessor -/
theorem result_is_last_iterate (c eps : Rat) (a : List Rat) (fuel : Nat) (init : Rat) :
    (iterates c eps a fuel init).getLast? = some (bilocLoop (bilocIter c eps a) eps fuel init) ∧
    1 ≤ (iterates c eps a fuel init).length ∧ (iterates c eps a fuel init).length ≤ fuel + 1 ∧
    List.IsChain (fun p r => r = bilocIter c eps a p) (init :: iterates c eps a fuel init) :=
  ⟨trace_getLast _ _ _ _, (trace_length _ _ _ _).1, (trace_length _ _ _ _).2, trace_chain _ _ _ _⟩

/-- why the loop ends: all `max_iter` rounds were used, or the last round moved the estimate by at most `eps` -/
theorem loop_ends_converged_or_exhausted (c eps : Rat) (a : List Rat) (fuel : Nat) (init : Rat) :
    (iterates c eps a fuel init).length = fuel + 1 ∨
      ∃ p, (p = init ∨ p ∈ iterates c eps a fuel init) ∧
        bilocIter c eps a p = bilocLoop (bilocIter c eps a) eps fuel init ∧
        absR (bilocLoop (bilocIter c eps a) eps fuel init - p) ≤ eps :=
  trace_exit _ _ _ _

/-- EVERY iterate lies within `[lo, hi]` when the data and the starting value do -/
theorem every_iterate_in_range (c eps : Rat) (a : List Rat) (fuel : Nat) (init lo hi : Rat)
    (hinit : lo ≤ init ∧ init ≤ hi) (h : ∀ x ∈ a, lo ≤ x ∧ x ≤ hi) :
    ∀ r ∈ iterates c eps a fuel init, lo ≤ r ∧ r ≤ hi :=
  trace_in_range _ _ lo hi (fun x hx => bilocIter_in_range c eps a x lo hi hx h) fuel init hinit

/-- EVERY iterate moves with the data: adding `t` to every value and to the start adds `t` to each iterate (so the loop
    leaves after the same number of rounds) -/
theorem every_iterate_translation (c eps : Rat) (a : List Rat) (fuel : Nat) (init t : Rat) :
    iterates c eps (a.map (· + t)) fuel (init + t) = (iterates c eps a fuel init).map (· + t) :=
  trace_shift _ _ eps t (fun x => bilocIter_shift c eps a x t) fuel init

/-- EVERY iterate is proportional under a positive rescaling `k` of the data, PROVIDED the floor / tolerance `eps` is
    rescaled along (`max(c * mad, epsilon)` and `<= epsilon` are absolute quantities: the property text claims
    proportionality for the SCALE estimators only, and for the location this is the form in which it holds) -/
theorem every_iterate_scale (c eps : Rat) (a : List Rat) (fuel : Nat) (init k : Rat) (hk : 0 < k) :
    iterates c (k * eps) (a.map (k * ·)) fuel (k * init) = (iterates c eps a fuel init).map (k * ·) :=
  trace_scale _ _ eps k hk (fun x => bilocIter_scale c eps a x k hk) fuel init

/-- hence the result -/
theorem result_scale (c eps : Rat) (a : List Rat) (fuel : Nat) (k : Rat) (hk : 0 < k) :
    bilocLoop (bilocIter c (k * eps) (a.map (k * ·))) (k * eps) fuel (median (a.map (k * ·))) =
      k * bilocLoop (bilocIter c eps a) eps fuel (median a) := by
  rw [median_map_mul k hk.le]
  exact loop_of_trace_map _ _ _ _ fuel _ _ (k * ·) (every_iterate_scale c eps a fuel (median a) k hk)

/-- and the result of a translation, for every `c`, `eps`, number of rounds and start -/
theorem result_translation (c eps : Rat) (a : List Rat) (fuel : Nat) (init t : Rat) :
    bilocLoop (bilocIter c eps (a.map (· + t))) eps fuel (init + t) = bilocLoop (bilocIter c eps a) eps fuel init + t :=
  loop_of_trace_map _ _ _ _ fuel _ _ (· + t) (every_iterate_translation c eps a fuel init t)

/-- a fixed point of the step ends the loop in its first round and is returned -/
theorem fixed_point_returned (c eps : Rat) (heps : 0 ≤ eps) (a : List Rat) (fuel : Nat) (init : Rat)
    (h : bilocIter c eps a init = init) :
    iterates c eps a fuel init = [init] ∧ bilocLoop (bilocIter c eps a) eps fuel init = init := by
  have ht := trace_fixed_point _ eps heps fuel init h
  refine ⟨ht, ?_⟩
  have := trace_getLast (bilocIter c eps a) eps fuel init
  rw [ht] at this
  simpa using this.symm

/-- constant data: the constant is a fixed point of the step (any `c`, `eps`) ... -/
theorem constant_is_fixed_point (c eps : Rat) (a : List Rat) (v : Rat) (h : ∀ x ∈ a, x = v) :
    bilocIter c eps a v = v := by
  have := bilocIter_in_range c eps a v v v ⟨le_refl _, le_refl _⟩ (fun x hx => by rw [h x hx]; exact ⟨le_refl _, le_refl _⟩)
  exact le_antisymm this.2 this.1

/-- ... so the loop started there returns it after one round -/
theorem constant_data_one_round (c eps : Rat) (heps : 0 ≤ eps) (a : List Rat) (v : Rat) (h : ∀ x ∈ a, x = v) (fuel : Nat) :
    iterates c eps a fuel v = [v] ∧ bilocLoop (bilocIter c eps a) eps fuel v = v :=
  fixed_point_returned c eps heps a fuel v (constant_is_fixed_point c eps a v h)

/-- ... and started ANYWHERE ELSE (`initial=` given) the first step lands exactly on the constant when the cut-off exceeds 1,
    so the loop returns the constant after at most two rounds -/
theorem constant_data_any_start (c eps : Rat) (hc : 1 < c) (heps : 0 < eps) (n : Nat) (v init : Rat) (fuel : Nat) :
    bilocLoop (bilocIter c eps (List.replicate (n + 1) v)) eps fuel init = v := by
  have h1 := bilocIter_const_any_start c eps hc heps n v init
  cases fuel with
  | zero => exact h1
  | succ m =>
    unfold bilocLoop
    simp only []
    rw [h1]
    split
    · rfl
    · exact (constant_data_one_round c eps heps.le _ v (fun x hx => List.eq_of_mem_replicate hx) m).2

/-- the hypotheses are satisfiable by the defaults of the signature, and a trace can have more than one entry -/
example : (1 : Rat) < Generated.BILOC_C ∧ (0 : Rat) < Generated.BILOC_EPS := by
  unfold Generated.BILOC_C Generated.BILOC_EPS; constructor <;> norm_num
example : trace (fun x => x / 2) (1/4) 4 1 = [1/2, 1/4] := by decide +kernel

end CnvVerif.C19.Loop
