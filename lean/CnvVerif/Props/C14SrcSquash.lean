/-
  C14 (round 5): tie of `squash_region` to the source TEXT.  `Generated.src_squash_region` is re-read from
  cnvlib/segfilters.py on every run (harness/extractors/exprs_squash.py, reading rules in harness/squashtrans.py);
  the theorem states that the model's `squashCols` IS that list of cells, for every value of the reductions.
-/
import CnvVerif.Model.SegFilterExt5
import CnvVerif.Generated.ExprsSquash
namespace CnvVerif.C14
open CnvVerif CnvVerif.C14Sq

/-- every cell `squash_region` writes -- which reduction of which column, under which condition the column exists, in
    which order -- is the model's -/
theorem squash_region_is_the_source (R : Reds) : squashCols R = Generated.src_squash_region R := by
  simp only [squashCols, Generated.src_squash_region, wmeanCell, wmedCell]

end CnvVerif.C14
