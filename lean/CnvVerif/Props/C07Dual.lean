/-
  C07 (extension 5c) — duality of `intersection(mode="trim")` (C07/C06) and `subtract` (C06): for any two tables,
  on every chromosome, the bases of `a` are partitioned into those of `a.intersection(b, mode="trim")` and those of
  `a.subtract(b)`:  a = (a ∧ b) ⊎ (a − b).  Composes the proved `C06.intersect_trim_cov` and `C06.subtract_cov_table`.
-/
import CnvVerif.Props.C06
import CnvVerif.Lemmas.IntervalTotal
namespace CnvVerif.C07Dual
open CnvVerif

theorem c07dual_mem_rowsOf (t : Table) (c : String) (r : Row) : r ∈ rowsOf t c ↔ r ∈ t ∧ r.chrom = c := by
  simp [rowsOf, List.mem_filter]

/-- every base of `a` on chromosome `c` lies in exactly one of `a.intersection(b, "trim")` and `a.subtract(b)`, and
    neither of the two contains a base outside `a` — whatever overlaps, nests or repeats in either table, and also when
    the chromosome is missing from `b` -/
theorem trim_and_subtract_partition_bases (a b : Table)
    (ha : ∀ r ∈ a, 0 ≤ r.s ∧ r.s < r.e) (hb : ∀ r ∈ b, 0 ≤ r.s ∧ r.s < r.e)
    (c : String) (hs : StartSorted (rowsOf a c)) (p : Int) :
    (cov (rowsOf a c) p ↔
      (cov (intersection (rowsOf a c) (rowsOf b c) .trim) p ∨ cov (rowsOf (subtractTable a b) c) p)) ∧
    ¬ (cov (intersection (rowsOf a c) (rowsOf b c) .trim) p ∧ cov (rowsOf (subtractTable a b) c) p) := by
  have hI := C06.intersect_trim_cov c (rowsOf a c) (rowsOf b c)
    (fun r hr => ((c07dual_mem_rowsOf a c r).mp hr).2) (fun r hr => ((c07dual_mem_rowsOf b c r).mp hr).2)
    ⟨hs, fun r hr => ha r ((c07dual_mem_rowsOf a c r).mp hr).1⟩
    (fun r hr => (hb r ((c07dual_mem_rowsOf b c r).mp hr).1).1) p
  have hS := C06.subtract_cov_table a b hb (fun r hr => ⟨(ha r hr).1, Int.le_of_lt (ha r hr).2⟩) c p
  rw [hI, hS]
  by_cases h1 : cov (rowsOf a c) p <;> by_cases h2 : cov (rowsOf b c) p <;> simp [h1, h2]

/-- the same in numbers of bases: |a| = |a ∧ b| + |a − b| on every chromosome -/
theorem trim_and_subtract_partition_count (a b : Table)
    (ha : ∀ r ∈ a, 0 ≤ r.s ∧ r.s < r.e) (hb : ∀ r ∈ b, 0 ≤ r.s ∧ r.s < r.e)
    (c : String) (hs : StartSorted (rowsOf a c)) :
    (coveredBases (rowsOf a c)).card =
      (coveredBases (intersection (rowsOf a c) (rowsOf b c) .trim)).card +
      (coveredBases (rowsOf (subtractTable a b) c)).card := by
  rw [← Finset.card_union_of_disjoint]
  · apply congrArg
    ext p
    rw [Finset.mem_union, mem_coveredBases, mem_coveredBases, mem_coveredBases]
    exact (trim_and_subtract_partition_bases a b ha hb c hs p).1
  · rw [Finset.disjoint_left]
    intro p h1 h2
    rw [mem_coveredBases] at h1 h2
    exact (trim_and_subtract_partition_bases a b ha hb c hs p).2 ⟨h1, h2⟩

/-! non-vacuity: nested / overlapping rows on both sides, a chromosome missing from `b` -/
example :
    let a : Table := [⟨"chr1", 0, 100, "a"⟩, ⟨"chr1", 10, 20, "b"⟩, ⟨"chr2", 5, 9, "c"⟩]
    let b : Table := [⟨"chr1", 15, 50, "x"⟩, ⟨"chr1", 40, 120, "y"⟩]
    (∀ r ∈ a, 0 ≤ r.s ∧ r.s < r.e) ∧ (∀ r ∈ b, 0 ≤ r.s ∧ r.s < r.e) ∧
    (rowsOf a "chr1").map (fun r => (r.s, r.e)) = [(0, 100), (10, 20)] ∧
    (intersection (rowsOf a "chr1") (rowsOf b "chr1") .trim).map (fun r => (r.s, r.e)) = [(15, 50), (15, 20), (40, 100)] ∧
    (subtractRow ⟨"chr1", 0, 100, "a"⟩ (mergeChrom 0 (rowsOf b "chr1"))).map (fun r => (r.s, r.e)) = [(0, 15)] := by
  decide

end CnvVerif.C07Dual
