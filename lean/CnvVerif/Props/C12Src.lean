/-
  C12: tie to the source TEXT.  The definitions `Generated.src_*` of Generated/ExprsBins.lean are re-translated
  from /repo's Python on every run (harness/exprtrans.py for the arithmetic of `do_antitarget`, harness/settrans.py
  for the rules over sets of names); these theorems state that the hand-written model functions ARE those
  expressions, for all arguments.  Kept in a module of their own so that an edit to one of the rules breaks exactly
  these obligations.
-/
import CnvVerif.Props.C12
import CnvVerif.Lemmas.SrcBins
namespace CnvVerif.C12
open CnvVerif CnvVerif.Generated

/-- `do_antitarget` calls `get_antitargets` with this minimum size … -/
theorem do_antitarget_hands_on_effective_min (tg : Table) (acc : Option Table) (avg : Rat) (mn : Option Int) :
    doAntitarget tg acc avg mn = getAntitargets tg acc avg (Src.effectiveMinSize avg mn) :=
  Src.doAntitarget_eq tg acc avg mn

/-- … which IS the expression the source computes when `min_bin_size` is a number (`if not min_bin_size:` is true
    for 0: the default `2 * int(avg_bin_size * 2**MIN_REF_COVERAGE)` replaces it) … -/
theorem effective_min_is_the_source_given (avg : Rat) (m : Int) :
    ((Src.effectiveMinSize avg (some m) : Int) : Rat) = src_antitarget_min_given avg (m : Rat) :=
  Src.effectiveMin_given_is_source avg m

/-- … and when it is left `None` -/
theorem effective_min_is_the_source_absent (avg : Rat) :
    ((Src.effectiveMinSize avg none : Int) : Rat) = src_antitarget_min_absent avg :=
  Src.effectiveMin_absent_is_source avg

/-- the contigs the model skips ARE the value of `chroms_to_skip` in `drop_noncanonical_contigs` (both branches:
    canonical-name rule and name-length rule), with `is_canonical_contig_name` = the generated regex rule -/
theorem chroms_to_skip_is_the_source (acc tg : Table) :
    skipOf acc tg = src_chroms_to_skip isCanonicalName (chromsInOrder acc) (chromsInOrder tg) :=
  Src.skipOf_is_source acc tg

/-- what `drop_noncanonical_contigs` returns, in terms of the source's `chroms_to_skip` -/
theorem drop_noncanonical_is_the_source (acc tg : Table) :
    dropNoncanonical acc tg =
      if src_chrom_names_clash (chromsInOrder acc) (chromsInOrder tg) then .error "ValueError"
      else .ok (acc.filter (fun r =>
        !(src_chroms_to_skip isCanonicalName (chromsInOrder acc) (chromsInOrder tg)).contains r.chrom)) := by
  rw [dropNoncanonical_eq, Src.skipOf_is_source, Src.chromNamesClash_is_source]

/-- the refusal of `compare_chrom_names` (annotation file vs baits, access vs targets) IS the source's condition -/
theorem chrom_names_clash_is_the_source (a b : Table) :
    chromNamesClash a b = src_chrom_names_clash (chromsInOrder a) (chromsInOrder b) :=
  Src.chromNamesClash_is_source a b

/-- `filter_names` with its default `exclude=("mRNA",)` -/
theorem filter_names_is_the_source (names : List String) :
    filterNames names = src_filter_names names SHORTEN_EXCLUDE := Src.filterNames_is_source names

end CnvVerif.C12
