/-
  C04 — fix subtracts the reference bin-for-bin by coordinate and normalises soundly.
  Property theorems only; proofs in Lemmas/Fix.lean (and Lemmas/Center.lean for the centring).
-/
import CnvVerif.Model.Fix
import CnvVerif.Lemmas.Fix
import CnvVerif.Lemmas.FixAlign
import CnvVerif.Lemmas.FixWhole
namespace CnvVerif.C04
open CnvVerif

/-- the reference bin is matched by (chromosome, start, end), never by row position: a successful
    match returns, for each sample row in order, a reference row with the same coordinates -/
theorem match_by_coordinate (ref : List RRow) (samp : List SRow) (m : List RRow)
    (h : matchRef ref samp = .ok m) : m.map rKey = samp.map sKey ∧ ∀ r ∈ m, r ∈ ref :=
  matchRef_ok ref samp m h

/-- … whatever the row order of the reference -/
theorem match_ignores_reference_order (ref ref' : List RRow) (samp : List SRow) (hp : ref.Perm ref')
    (hu : hasDup (ref.map rKey) = false) : matchRef ref' samp = matchRef ref samp :=
  matchRef_ref_perm ref ref' samp hp hu

/-- a sample bin absent from the reference is refused … -/
theorem rejects_missing_bin (ref : List RRow) (samp : List SRow) (r : SRow) (hr : r ∈ samp)
    (hm : ∀ q ∈ ref, rKey q ≠ sKey r) : ∃ e, matchRef ref samp = .error e :=
  matchRef_rejects_missing ref samp r hr hm

/-- … and so are duplicated coordinates -/
theorem rejects_duplicated_coordinates (ref : List RRow) (samp : List SRow)
    (h : hasDup (samp.map sKey) = true ∨ hasDup (ref.map rKey) = true) :
    ∃ e, matchRef ref samp = .error e := matchRef_rejects_dup ref samp h

/-- the reference filters are the ones the property names (constants read from params.py):
    log2 within ±5, spread ≤ 1, depth > 0, GC within 0.3–0.7 -/
theorem reference_filters (r : RRow) :
    badBin r = true ↔ (r.log2 < -5 ∨ r.log2 > 5 ∨ r.spread > 1 ∨ r.depth = 0 ∨
      ∃ g, r.gc = some g ∧ (g > Generated.GC_MAX_FRACTION ∨ g < Generated.GC_MIN_FRACTION)) :=
  badBin_iff r

theorem filter_constants : Generated.GC_MIN_FRACTION_dec = 3/10 ∧ Generated.GC_MAX_FRACTION_dec = 7/10 ∧
    Generated.MIN_REF_COVERAGE = -5 ∧ Generated.MAX_REF_SPREAD = 1 := gc_bounds_are

/-- every enabled correction (shuffle, sort by the covariate, subtract the rolling median, re-sort)
    loses and invents no row and changes nothing but log2: rows stay attached to their coordinates -/
theorem correction_keeps_rows_attached (perm : List Nat) (wing : Nat) (t : List SRow) (keys : List Rat)
    (hp : IsPerm perm t.length) (hk : keys.length = t.length) :
    ((centerByWindow perm wing t keys).map (fun r => (r.chrom, r.s, r.e, r.gene, r.depth))).Perm
      (t.map (fun r => (r.chrom, r.s, r.e, r.gene, r.depth))) := centerByWindow_rows perm wing t keys hp hk

/-- … and leaves them in genomic order -/
theorem correction_output_in_genomic_order (perm : List Nat) (wing : Nat) (t : List SRow) (keys : List Rat) :
    (centerByWindow perm wing t keys).Pairwise (fun a b => sSortLe a b = true) :=
  centerByWindow_sorted perm wing t keys

/-- the subtracted bias is a rolling median: one value per bin, moving with the data (so a depth
    scale factor common to a class is removed by its correction) -/
theorem rolling_median_length (x : List Rat) (wing : Nat) : (rollingMedian x wing).length = x.length :=
  rollingMedian_length x wing

theorem rolling_median_moves_with_data (x : List Rat) (wing : Nat) (c : Rat) (hx : x ≠ []) :
    rollingMedian (x.map (· + c)) wing = (rollingMedian x wing).map (· + c) :=
  rollingMedian_shift x wing c hx

/-- the edge-density covariate follows the documented formulas -/
theorem edge_loss_formula (t i : Rat) :
    (¬ t < i → edgeLoss t i = i / (2 * t)) ∧
    (t < i → edgeLoss t i = i / (2 * t) - (i - t) ^ 2 / (2 * i * t)) :=
  ⟨edgeLoss_large t i, edgeLoss_small t i⟩

theorem edge_gain_formula (t g i : Rat) (hg : 0 ≤ g) :
    (¬ t + g < i → edgeGain t g i = (i - g) ^ 2 / (4 * i * t)) ∧
    (t + g < i → edgeGain t g i = (i - g) ^ 2 / (4 * i * t) - (i - t - g) ^ 2 / (4 * i * t)) :=
  ⟨edgeGain_far t g i hg, edgeGain_near t g i hg⟩

/-- the output is centred: this is `C15.center_zeroes_estimator` for the median, per chromosome first -/
theorem output_centered (sel : List CBin) (hsel : sel ≠ []) :
    medianR (centerValues medianR true
      (sel.map (fun b => { b with log2 := b.log2 + (-(medianR (centerValues medianR true sel))) }))) = 0 :=
  center_zeroes_estimator medianR medianR_transEquiv true sel hsel

/-- every weight lies in [0.0001, 1] … -/
theorem weight_in_range (rows : List (SRow × RRow × Rat)) (varT varA : Rat) :
    ∀ w ∈ applyWeights rows varT varA, Generated.WEIGHT_EPSILON ≤ w ∧ w ≤ Generated.WEIGHT_MAX :=
  applyWeights_range rows varT varA

theorem weight_constants : Generated.WEIGHT_EPSILON_dec = 1/10000 ∧ Generated.WEIGHT_MAX = 1 ∧
    Generated.WEIGHT_EPSILON ≤ Generated.WEIGHT_MAX ∧ 0 < Generated.WEIGHT_EPSILON ∧
    0 < Generated.WEIGHT_REF_EMPHASIS ∧ Generated.WEIGHT_REF_EMPHASIS < 1 := weight_eps_max

/-- … never decreases with bin size … -/
theorem weight_mono_size (pooled : Bool) (spread m v sq₁ sq₂ : Rat) (hm : 0 < m) (hv : 0 ≤ v)
    (h1 : 0 < sq₁) (h12 : sq₁ ≤ sq₂) :
    weightOf pooled spread sq₁ m v ≤ weightOf pooled spread sq₂ m v :=
  CnvVerif.weight_mono_size pooled spread m v sq₁ sq₂ hm hv h1 h12

/-- … nor increases with reference spread -/
theorem weight_antitone_spread (pooled : Bool) (sq m v s₁ s₂ : Rat) (h0 : 0 ≤ s₁) (h12 : s₁ ≤ s₂) :
    weightOf pooled s₂ sq m v ≤ weightOf pooled s₁ sq m v :=
  CnvVerif.weight_antitone_spread pooled sq m v s₁ s₂ h0 h12

/-- the headline clause for a whole class of bins (targets or antitargets), through loading, masking, centring
    and every enabled correction, for ANY shuffling permutation, half-window and set of enabled corrections:
    the emitted bins are exactly the sample bins whose coordinate-matched reference bin passes the filters, in
    genomic order, and the reference rows subtracted afterwards are aligned with them position by position,
    every one a good row of the given reference.  (`KeysSortable`: two bins that tie in the genomic order have
    the same coordinates -- true of every table, since the order compares exactly chromosome, start, end.) -/
theorem fix_emits_exactly_good_bins_aligned (samp : List SRow) (ref : List RRow) (skipLow fixGc fixEdge fixRmask : Bool)
    (par : Option String) (perm : List Nat) (wing : Nat) (ek : Option (List Rat))
    (cn : List SRow) (rf : List RRow) (sl : Rat)
    (hperm : IsPerm perm (goodRows (sortS samp) ref).length) (hks : KeysSortable samp)
    (h : loadAdjust samp ref skipLow fixGc fixEdge fixRmask par perm wing ek = .ok (cn, rf, sl)) :
    (cn.map sKey).Perm ((goodRows samp ref).map sKey) ∧ cn.Pairwise (fun a b => sSortLe a b = true) ∧
    rf.map rKey = cn.map sKey ∧ (∀ q ∈ rf, badBin q = false ∧ q ∈ ref) :=
  loadAdjust_aligned samp ref skipLow fixGc fixEdge fixRmask par perm wing ek cn rf sl hperm hks h

/-- the side condition of `fix_emits_exactly_good_bins_aligned` holds for every table whose chromosome names are
    told apart by the sort key (no mixture of spellings such as "chr1" and "1" within one table) -/
theorem aligned_side_condition_holds (samp : List SRow)
    (h : ∀ a ∈ samp, ∀ b ∈ samp, sorterChrom a.chrom = sorterChrom b.chrom → a.chrom = b.chrom) :
    KeysSortable samp := keysSortable_of_distinct_names samp h

/-- … and the whole class is refused when a sample bin is absent from the reference or coordinates repeat -/
theorem fix_class_rejects_missing_or_duplicated (samp : List SRow) (ref : List RRow) (skipLow fixGc fixEdge fixRmask : Bool)
    (par : Option String) (perm : List Nat) (wing : Nat) (ek : Option (List Rat)) (hne : samp ≠ [])
    (hbad : hasDup (samp.map sKey) = true ∨ hasDup (ref.map rKey) = true ∨ ∃ r ∈ samp, ∀ q ∈ ref, rKey q ≠ sKey r) :
    ∃ e, loadAdjust samp ref skipLow fixGc fixEdge fixRmask par perm wing ek = .error e :=
  loadAdjust_rejects samp ref skipLow fixGc fixEdge fixRmask par perm wing ek hne hbad

/-- with every bias correction off, a class of bins (targets, resp. antitargets) comes out of loading / masking /
    centring as exactly the good sample bins in genomic order, each log2 moved by ONE constant for the class -/
theorem nocorr_class_constant (samp : List SRow) (ref : List RRow) (skipLow : Bool) (par : Option String)
    (perm : List Nat) (wing : Nat) (ek : Option (List Rat)) (cn : List SRow) (rf : List RRow) (sl : Rat)
    (h : loadAdjust samp ref skipLow false false false par perm wing ek = .ok (cn, rf, sl)) :
    ∃ c : Rat, cn = (goodRows (sortS samp) ref).map (fun r => { r with log2 := r.log2 + c }) :=
  loadAdjust_nocorr samp ref skipLow par perm wing ek cn rf sl h

/-- the whole of `do_fix`, for ANY enabled corrections, permutations, windows and weights: every emitted bin's log2
    is the (class-adjusted) sample log2 of the bin with the SAME coordinates minus the log2 of a good reference bin
    with the SAME coordinates, plus one constant (the final centring): the subtraction is bin-for-bin by coordinate
    although targets and antitargets are adjusted separately, concatenated and re-sorted on both sides; the output
    is in genomic order and has exactly the adjusted bins' coordinates.  (`hnd` is not needed by the proof.) -/
theorem fix_subtracts_bin_for_bin_by_coordinate (tgt anti : List SRow) (ref : List RRow) (cfg : FixCfg) (P : FixParams)
    (outs : List FixOut) (h : doFix tgt anti ref cfg P = .ok outs)
    (hpT : IsPerm P.permT (goodRows (sortS tgt) ref).length)
    (hpA : IsPerm P.permA (goodRows (sortS anti) ref).length)
    (hks : KeysSortable (tgt ++ anti)) (hnd : hasDup ((tgt ++ anti).map sKey) = false) :
    ∃ (cnT cnA : List SRow) (rfT rfA : List RRow) (s1 s2 c : Rat),
      loadAdjust tgt ref true cfg.gc cfg.edge false cfg.par P.permT P.wingT P.edgeKeysT = .ok (cnT, rfT, s1) ∧
      loadAdjust anti ref false cfg.gc false cfg.rmask cfg.par P.permA P.wingA = .ok (cnA, rfA, s2) ∧
      outs.length = (cnT ++ cnA).length ∧
      (outs.map (fun o => sKey o.row)).Perm ((cnT ++ cnA).map sKey) ∧
      (outs.map (·.row)).Pairwise (fun a b => sSortLe a b = true) ∧
      ∀ o ∈ outs, ∃ s ∈ cnT ++ cnA, ∃ q ∈ ref, sKey s = sKey o.row ∧ rKey q = sKey o.row ∧ badBin q = false ∧
        o.row.log2 = s.log2 - q.log2 + c :=
  doFix_bin_for_bin tgt anti ref cfg P outs h hpT hpA hks hnd

/-- … and `fix` as a whole refuses a bin that occurs in BOTH sample tables (finding BA) -/
theorem fix_rejects_bin_shared_by_both_tables (tgt anti : List SRow) (ref : List RRow) (cfg : FixCfg) (P : FixParams)
    (r : SRow) (ht : r ∈ tgt) (a : SRow) (ha : a ∈ anti) (hk : sKey r = sKey a) :
    doFix tgt anti ref cfg P = .error .dupSample :=
  doFix_rejects_shared_bin tgt anti ref cfg P r ht a ha hk

/-! non-vacuity -/
example : edgeLoss 100 250 = 250 / 200 - (150 : Rat) ^ 2 / (2 * 250 * 100) := by decide +kernel
example : weightOf true (1/2) 10 10 (1/100) = Generated.WEIGHT_REF_EMPHASIS * (3/4) + (1 - Generated.WEIGHT_REF_EMPHASIS) * (99/100) := by
  decide +kernel

end CnvVerif.C04
