/-
  C03 (round 5): tie of the gather glue to the source TEXT of `do_segmentation` (Generated/ExprsSegGather.lean, re-read
  on every run by harness/extractors/exprs_seggather.py; reading rules at its top).
-/
import CnvVerif.Generated.ExprsSegGather
import CnvVerif.Model.TileGatherExt5
namespace CnvVerif.C03
open CnvVerif CnvVerif.C03Gather CnvVerif.Generated

/-- the model's branch test IS the source's, for every method string -/
theorem whole_table_test_is_the_source (method : String) : src_segment_whole_table method = wholeTable method := by
  unfold src_segment_whole_table wholeTable
  cases (method == "flasso") <;> cases (method.startsWith "hmm") <;> rfl

/-- the pool's results are gathered in submission order (`pool.map`), over `by_arm` units, joined by `concat`, and only
    the columns are re-sorted afterwards -/
theorem gather_discipline_is_the_source :
    src_segment_gather_mode = "ordered" ∧ src_segment_units = "by_arm" ∧ src_segment_join = "concat" ∧
    src_segment_post = "sort_columns" := by decide

/-- every task carries exactly the parameters of `_do_segmentation`, in its order; the whole-table call passes a prefix
    of them (the rest keep their defaults) -/
theorem worker_arguments_are_the_source :
    src_segment_worker_args = src_segment_worker_params ∧
    src_segment_whole_args = src_segment_worker_params.take src_segment_whole_args.length := by decide

/-- `processes` reaches nothing but the choice of the pool (and the log line): the worker never sees it -/
theorem processes_only_picks_the_pool :
    src_segment_processes_uses = ["log", "pick_pool"] ∧ ¬ ("processes" ∈ src_segment_worker_args) := by decide

/-- the accepted methods are the ones the model's branch table lists -/
theorem methods_are_the_source :
    src_segment_methods = ["cbs", "flasso", "haar", "none", "hmm", "hmm-tumor", "hmm-germline"] := by decide

end CnvVerif.C03
