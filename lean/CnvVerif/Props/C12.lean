/-
  C12 — target and antitarget bins partition exactly the space they should.
  Property theorems only; helper lemmas live in Lemmas/Bins.lean, Bins2.lean, Bins3.lean, Bins4.lean.

  Vocabulary (one chromosome's rows, chromosome field ignored):
  `cov l p`            base `p` lies in a row of `l`;
  `Tiles bins a b`     `bins` are consecutive, from `a` to `b`;
  `inShrunk 500 acc p` `p` lies in an accessible region shrunk by 500 bases at both ends;
  `nearTarget 500 tg p` `p` is within 500 bases of a target row (a zero-width row is a position);
  `WFTargets tg`       every target row has `0 ≤ start ≤ end` — nothing else: rows may overlap,
                       nest, repeat, abut, be empty, come in any order.
  `targetChrom` / `antiChrom` are what `do_target --split` / `get_antitargets` compute on one
  chromosome; `target_table_is_chrom` / `antitarget_table_is_chrom` tie them to the table-level
  model that the correspondence check runs against the real code.
-/
import CnvVerif.Model.Bins
import CnvVerif.Lemmas.Bins
import CnvVerif.Lemmas.Bins2
import CnvVerif.Lemmas.Bins3
import CnvVerif.Lemmas.Bins4
namespace CnvVerif.C12
open CnvVerif

/-! ### the numbers the property names, read from the source -/

/-- the margin `pad_size = 2 * INSERT_SIZE` is the property's 500 bases -/
theorem pad_eq : Generated.ANTI_PAD = 500 := by decide

theorem pad_is_twice_insert_size : Generated.ANTI_PAD = 2 * Generated.INSERT_SIZE := by decide

/-- access is shrunk (`resize_ranges(-pad)`), targets are grown (`resize_ranges(pad)`) -/
theorem resize_signs :
    Generated.ANTI_ACCESS_RESIZE_SIGN = -1 ∧ Generated.ANTI_TARGET_RESIZE_SIGN = 1 := by decide

theorem antitarget_name_eq : Generated.ANTITARGET_NAME = "Antitarget" := by decide

theorem telomere_eq : Generated.TELOMERE_SIZE = 150000 := by decide

theorem split_min_eq : Generated.TARGET_SPLIT_MIN = 0 := by decide

/-- the default minimum size is `2·⌊avg/32⌋` … -/
theorem default_min_formula (avg : Rat) (h : 0 ≤ avg) :
    defaultMinSize avg = 2 * (avg / 32).floor := defaultMinSize_eq avg h

/-- … at most avg/16, so the default never leaves the range in which `anti_size_lower` holds -/
theorem default_min_small (avg : Rat) (h : 0 ≤ avg) : (defaultMinSize avg : Rat) ≤ avg / 16 :=
  defaultMinSize_le avg h

/-- the contig-name rule on the names the documentation mentions -/
theorem contig_rule_examples :
    isCanonicalName "chr1" = true ∧ isCanonicalName "22" = true ∧ isCanonicalName "chrX" = true ∧
    isCanonicalName "chrM" = false ∧ isCanonicalName "MT" = false ∧
    isCanonicalName "chr6_GL000250v2_alt" = false ∧ isCanonicalName "chr1_KI270706v1_random" = false ∧
    isCanonicalName "chrUn_GL000195v1" = false ∧ isCanonicalName "chr6_cox_hap2" = false ∧
    isCanonicalName "HLA-A*01:01" = false ∧ isCanonicalName "chrEBV" = false := by decide +kernel

/-! ### target -/

/-- without `--split`: the non-empty baits, unchanged -/
theorem target_nosplit_identity (baits : Table) (avg : Rat) :
    doTargetCore baits false avg = baits.filter (fun r => r.s != r.e) := rfl

/-- `--split` covers exactly the union of the non-empty baits -/
theorem target_split_cov (avg : Rat) (havg : 0 < avg) (baits : List Row)
    (hb : ∀ r ∈ baits, r.s ≤ r.e) (p : Int) :
    cov (targetChrom avg baits) p ↔ cov (baits.filter (fun r => r.s != r.e)) p :=
  targetChrom_cov avg havg split_min_eq baits hb p

/-- `--split` bins come in genomic order and do not overlap -/
theorem target_sorted_disjoint (avg : Rat) (havg : 0 < avg) (baits : List Row)
    (hb : ∀ r ∈ baits, r.s ≤ r.e) :
    (targetChrom avg baits).Pairwise (fun x y => x.e ≤ y.s) := targetChrom_pairwise avg havg baits hb

/-- the `--split` bins are, merged bait by merged bait, the bins `region_bins` describes … -/
theorem target_bins_per_merged_bait (avg : Rat) (havg : 0 < avg) (baits : List Row)
    (hb : ∀ r ∈ baits, r.s ≤ r.e) :
    targetChrom avg baits =
      (mergeSorted (baits.filter (fun r => r.s != r.e))).flatMap fun m =>
        if nbinsOf avg m = 1 then [m] else splitInto m (nbinsOf avg m) :=
  targetChrom_closed avg havg split_min_eq baits hb

/-- … each region is cut into `max 1 (round (length/avg))` consecutive bins that cover it exactly
    and whose sizes differ by at most one base -/
theorem target_bin_count (avg : Rat) (m : Row) (hm : m.s ≤ m.e) :
    let bins := if nbinsOf avg m = 1 then [m] else splitInto m (nbinsOf avg m)
    nbinsOf avg m = (max 1 (roundHalfEven (((m.e - m.s : Int) : Rat) / avg))).toNat ∧
    bins.length = nbinsOf avg m ∧ Tiles bins m.s m.e ∧
    (∀ a ∈ bins, ∀ b ∈ bins, (a.e - a.s) - (b.e - b.s) ≤ 1) ∧
    (∀ a ∈ bins, a.chrom = m.chrom ∧ a.gene = m.gene) :=
  ⟨rfl, region_bins_spec avg m hm⟩

/-- the merged baits are the sorted, disjoint, non-abutting regions with the baits' coverage -/
theorem merged_baits_canonical (l : List Row) (hp : ∀ r ∈ l, r.s < r.e) :
    Canon (mergeSorted l) ∧ ∀ p, cov (mergeSorted l) p ↔ cov l p :=
  ⟨mergeSorted_canon l hp, mergeSorted_cov l⟩

/-- label shortening and annotation never change the number or the coordinates of the bins … -/
theorem labels_keep_bins (baits : Table) (annot : Option Table) (short split : Bool) (avg : Rat)
    (rows : Table) (c : Option (List (List String)))
    (h : doTarget baits annot short split avg = .ok (rows, c)) :
    coordsOfRows rows = coordsOfRows (doTargetCore baits split avg) :=
  doTarget_coords baits annot short split avg rows c h

/-- … and never fail: `shorten_labels` yields one label per bin, `into_ranges` one per bin; the only
    refusal is an annotation file sharing no chromosome name with the baits -/
theorem labels_never_fail (baits : Table) (annot : Option Table) (short split : Bool) (avg : Rat)
    (h : ∀ a, annot = some a → chromNamesClash (doTargetCore baits split avg) a = false) :
    ∃ rows c, doTarget baits annot short split avg = .ok (rows, c) :=
  doTarget_ok baits annot short split avg h

theorem shorten_same_length (labels : List String) :
    (shortenLabels labels).length = labels.length := shortenLabels_length labels

/-- table level = chromosome level, for a bait table on one chromosome (any order of rows) -/
theorem target_table_is_chrom (c : String) (baits : Table) (avg : Rat)
    (hc : ∀ r ∈ baits, r.chrom = c) (hb : ∀ r ∈ baits, r.s ≤ r.e) :
    (doTargetCore baits true avg).map ivOf = (targetChrom avg baits).map ivOf :=
  target_single_chrom c baits avg hc hb

/-! ### antitarget -/

theorem anti_named (avg : Rat) (m : Int) (acc tg : List Row) :
    ∀ b ∈ antiChrom Generated.ANTI_PAD avg m acc tg, b.gene = "Antitarget" := by
  intro b hb
  rw [← antitarget_name_eq]
  exact antiChrom_named _ avg m acc tg b hb

/-- every base of every bin lies inside an accessible region shrunk by the 500-base margin -/
theorem anti_inside_shrunk_access (avg : Rat) (havg : 0 < avg) (m : Int) (acc tg : List Row)
    (h : WFTargets tg) :
    ∀ b ∈ antiChrom Generated.ANTI_PAD avg m acc tg, ∀ p, b.s ≤ p → p < b.e → inShrunk 500 acc p := by
  rw [pad_eq]
  exact fun b hb p h1 h2 => (antiChrom_inside_far 500 (by decide) avg havg m acc tg h b hb p h1 h2).1

/-- no base of any bin is within 500 bases of any target row — whatever the targets look like
    (overlapping, nested, duplicated, zero-width) -/
theorem anti_far_from_targets (avg : Rat) (havg : 0 < avg) (m : Int) (acc tg : List Row)
    (h : WFTargets tg) :
    ∀ b ∈ antiChrom Generated.ANTI_PAD avg m acc tg, ∀ p, b.s ≤ p → p < b.e →
      ∀ r ∈ tg, ¬ (r.s - 500 ≤ p ∧ p < r.e + 500) := by
  rw [pad_eq]
  intro b hb p h1 h2 r hr hnear
  exact (antiChrom_inside_far 500 (by decide) avg havg m acc tg h b hb p h1 h2).2 ⟨r, hr, hnear⟩

/-- bins are sorted and do not overlap each other -/
theorem anti_disjoint (avg : Rat) (havg : 0 < avg) (m : Int) (acc tg : List Row) :
    (antiChrom Generated.ANTI_PAD avg m acc tg).Pairwise (fun x y => x.e ≤ y.s) :=
  antiChrom_pairwise _ avg havg m acc tg

/-- each bin has at least the minimum size — provided the minimum is at most 3/4 of the average -/
theorem anti_size_lower (avg : Rat) (havg : 0 < avg) (m : Int) (hm : (m : Rat) ≤ 3 / 4 * avg)
    (acc tg : List Row) :
    ∀ b ∈ antiChrom Generated.ANTI_PAD avg m acc tg, m ≤ b.e - b.s :=
  antiChrom_size_lower _ avg havg m hm acc tg

/-- the hypothesis cannot be dropped (finding K): avg 1000, min 900, a free stretch of 1500 bases
    is cut into two bins of 750 -/
theorem anti_size_lower_needs_bound :
    (antiChrom Generated.ANTI_PAD 1000 900 [⟨"chr1", 11000, 13500, "y"⟩] [⟨"chr1", 10000, 10100, "a"⟩]).map ivOf
      = [(11500, 12250), (12250, 13000)] := by decide +kernel

/-- each bin has at most 1.5 × the average size (`avg ≥ 4`) -/
theorem anti_size_upper (avg : Rat) (havg : 4 ≤ avg) (m : Int) (acc tg : List Row) :
    ∀ b ∈ antiChrom Generated.ANTI_PAD avg m acc tg, ((b.e - b.s : Int) : Rat) ≤ 3 / 2 * avg :=
  antiChrom_size_upper _ avg havg m acc tg

theorem anti_bins_nonempty (avg : Rat) (havg : 1 ≤ avg) (m : Int) (acc tg : List Row) :
    ∀ b ∈ antiChrom Generated.ANTI_PAD avg m acc tg, b.s < b.e :=
  antiChrom_positive _ avg havg m acc tg

/-- together the bins cover every stretch of off-target shrunk-accessible sequence of at least the
    minimum size -/
theorem anti_covers_all_large_stretches (avg : Rat) (havg : 0 < avg) (m : Int) (acc tg : List Row)
    (h : WFTargets tg) (u v : Int) (huv : u < v) (hlen : m ≤ v - u)
    (hfree : ∀ p, u ≤ p → p < v → inShrunk 500 acc p ∧ ¬ nearTarget 500 tg p) :
    ∀ p, u ≤ p → p < v → cov (antiChrom Generated.ANTI_PAD avg m acc tg) p := by
  rw [pad_eq]
  exact antiChrom_covers 500 (by decide) avg havg m acc tg h u v huv hlen hfree

/-- what is binned is exactly: shrunk access minus everything within 500 bases of a target -/
theorem anti_regions_exact (acc tg : List Row) (h : WFTargets tg) (p : Int) :
    cov (antiRegionsChrom Generated.ANTI_PAD acc tg) p ↔ inShrunk 500 acc p ∧ ¬ nearTarget 500 tg p := by
  rw [pad_eq]
  exact antiRegionsChrom_cov 500 (by decide) acc tg h p

/-- table level = chromosome level, for tables on one chromosome: `get_antitargets` returns
    `nameAnti (subdivideTable …)` of the accessible table it settled on … -/
theorem get_antitargets_unfold (tg : Table) (acc : Option Table) (avg : Rat) (m : Int) (a : Table)
    (h : effectiveAccess tg acc = .ok a) :
    getAntitargets tg acc avg m = .ok (nameAnti (subdivideTable avg m (antiRegions a tg))) := by
  simp [getAntitargets, h, bind, Except.bind, pure, Except.pure]

/-- … whose bin coordinates are those of `antiChrom` -/
theorem antitarget_table_is_chrom (c : String) (a tg : Table) (avg : Rat) (m : Int)
    (ha : ∀ r ∈ a, r.chrom = c) (ht : ∀ r ∈ tg, r.chrom = c) (hwf : WFTargets tg) :
    (nameAnti (subdivideTable avg m (antiRegions a tg))).map ivOf =
      (antiChrom Generated.ANTI_PAD avg m a tg).map ivOf :=
  antitarget_single_chrom c a tg avg m ha ht hwf

/-! ### contig selection: "on every contig that is targeted or canonically named" -/

/-- an accessible contig that carries a target is kept -/
theorem contig_kept_when_targeted (acc tg a : Table) (h : dropNoncanonical acc tg = .ok a)
    (r : Row) (hr : r ∈ acc) (ht : ∃ t ∈ tg, t.chrom = r.chrom) : r ∈ a :=
  dropNoncanonical_keeps_targeted acc tg a h r hr ht

/-- a canonically named accessible contig is kept — when some targeted contig is canonically named -/
theorem contig_kept_when_canonical (acc tg a : Table) (h : dropNoncanonical acc tg = .ok a)
    (hc : ∃ t ∈ tg, isCanonicalName t.chrom = true)
    (r : Row) (hr : r ∈ acc) (hn : isCanonicalName r.chrom = true) : r ∈ a :=
  dropNoncanonical_keeps_canonical acc tg a h hc r hr hn

/-- nothing else is kept, and nothing is invented -/
theorem contig_only_targeted_or_canonical (acc tg a : Table) (h : dropNoncanonical acc tg = .ok a)
    (hc : ∃ t ∈ tg, isCanonicalName t.chrom = true) :
    ∀ r ∈ a, r ∈ acc ∧ ((∃ t ∈ tg, t.chrom = r.chrom) ∨ isCanonicalName r.chrom = true) :=
  fun r hr => ⟨dropNoncanonical_sub acc tg a h r hr, dropNoncanonical_only acc tg a h hc r hr⟩

/-- the two files are refused exactly when they share no chromosome name -/
theorem access_refused_iff_no_shared_name (acc tg : Table) :
    (∃ e, dropNoncanonical acc tg = .error e) ↔ chromNamesClash acc tg = true :=
  dropNoncanonical_refuses acc tg

/-- the hypothesis `hc` cannot be dropped (finding V): with targets on chrM only, the untargeted
    canonical contig chr10 is skipped because its name is longer than "chrM"; chr1 is kept -/
theorem contig_rule_needs_canonical_target :
    (dropNoncanonical [⟨"chr1", 0, 5000, "x"⟩, ⟨"chr10", 0, 5000, "x"⟩, ⟨"chrM", 0, 5000, "x"⟩]
        [⟨"chrM", 100, 200, "m"⟩]).toOption.map (fun t => t.map (·.chrom)) = some ["chr1", "chrM"] := by
  decide +kernel

/-! ### non-vacuity: concrete inputs meeting the hypotheses, evaluated by the kernel -/

example : WFTargets [⟨"chr1", 5000, 9000, "a"⟩, ⟨"chr1", 6000, 6100, "b"⟩, ⟨"chr1", 7000, 7000, "z"⟩] := by
  unfold WFTargets; decide
/-- nested + zero-width targets inside one accessible region: bins stop 500 short on both sides -/
example : (antiChrom 500 1000 62 [⟨"chr1", 0, 12000, "x"⟩]
      [⟨"chr1", 5000, 9000, "a"⟩, ⟨"chr1", 6000, 6100, "b"⟩, ⟨"chr1", 7000, 7000, "z"⟩]).map ivOf
    = [(500, 1500), (1500, 2500), (2500, 3500), (3500, 4500), (9500, 10500), (10500, 11500)] := by
  have hg : mergeSorted (growRows 500
      [⟨"chr1", 5000, 9000, "a"⟩, ⟨"chr1", 6000, 6100, "b"⟩, ⟨"chr1", 7000, 7000, "z"⟩])
      = [⟨"chr1", 4500, 9500, "a,b,z"⟩] := by
    unfold mergeSorted
    rw [sortSE_of_sorted _ (by decide)]
    decide
  have hs : (shrinkRows 500 [⟨"chr1", 0, 12000, "x"⟩]).flatMap
      (fun k => subtractRow k (overlapping k [⟨"chr1", 4500, 9500, "a,b,z"⟩]))
      = [⟨"chr1", 500, 4500, "x"⟩, ⟨"chr1", 9500, 11500, "x"⟩] := by decide
  unfold antiChrom antiRegionsChrom
  rw [hg, hs]
  unfold mergeSorted
  rw [sortSE_of_sorted _ (by decide)]
  decide +kernel
example : (targetChrom 200 [⟨"chr1", 100, 100, "z"⟩, ⟨"chr1", 200, 900, "a"⟩, ⟨"chr1", 500, 600, "b"⟩,
      ⟨"chr1", 900, 1000, "c"⟩]).map ivOf = [(200, 400), (400, 600), (600, 800), (800, 1000)] := by
  unfold targetChrom mergeSorted
  rw [show ([⟨"chr1", 100, 100, "z"⟩, ⟨"chr1", 200, 900, "a"⟩, ⟨"chr1", 500, 600, "b"⟩,
      ⟨"chr1", 900, 1000, "c"⟩] : List Row).filter (fun r => r.s != r.e)
      = [⟨"chr1", 200, 900, "a"⟩, ⟨"chr1", 500, 600, "b"⟩, ⟨"chr1", 900, 1000, "c"⟩] from by decide,
    sortSE_of_sorted _ (by decide)]
  decide +kernel
/-- the theorems' hypotheses are met by such inputs -/
example := anti_far_from_targets 1000 (by decide +kernel) 62 [⟨"chr1", 0, 12000, "x"⟩]
  [⟨"chr1", 5000, 9000, "a"⟩, ⟨"chr1", 6000, 6100, "b"⟩, ⟨"chr1", 7000, 7000, "z"⟩]
  (by unfold WFTargets; decide)
example : ((62 : Int) : Rat) ≤ 3 / 4 * 1000 := by decide +kernel
example : defaultMinSize 1000 = 62 := by decide +kernel

end CnvVerif.C12
