/-
  C19, weighted Savitzky–Golay (open findings P / P2): when can the weighted window sum `N_i` vanish, and what is
  returned?  `winPos c` / `winNeg c` are the totals of the positive / of the sizes of the negative coefficients of a
  window.  One pass returns `D_i / N_i`, undefined exactly where `N_i = 0` (`weighted_pass_values`); `N_i ≥ m·winPos −
  M·winNeg` when the weights under the window lie in `[m, M]`, so a max/min ratio below `winPos / winNeg` keeps every
  value finite and reproduces constants (`weighted_savgol_finite_of_ratio`, `weighted_savgol_constant_of_ratio`); for the
  default 7-point cubic window the bound is 25/4 and it is sharp (`cubic_window_ratio`).  The witness of finding P
  (4, 1, ¼, …) has ratio 16.
-/
import CnvVerif.Props.C19
import CnvVerif.Lemmas.SmoothDenominator
namespace CnvVerif.C19
open CnvVerif CnvVerif.Desc CnvVerif.Smooth CnvVerif.Generated

/-- one pass of `convolve_weighted` on any finite signal: the value at `i` is `D_i / N_i`, and it is undefined (NaN /
    inf in Python) EXACTLY where the weighted window sum `N_i` is 0; the weights handed to the next pass are the `N_i` -/
theorem weighted_pass_values (win y w : List Rat) (hlen : y.length = w.length) :
    (cwStep win (y.map some, w)).1 =
      ((convSame win ((w.zip y).map (fun p => p.1 * p.2))).zip (convSame win w)).map
        (fun p => if p.2 = 0 then none else some (p.1 / p.2)) ∧
    (cwStep win (y.map some, w)).2 = convSame win w :=
  ⟨cwStep_values win y w hlen, cwStep_weights win _⟩

/-- a window sum against values in `[m, M]` is at least `m·(positive coefficients) − M·(negative coefficients)` -/
theorem window_sum_lower_bound (c v : List Rat) (hlen : c.length = v.length) (m M : Rat)
    (hv : ∀ u ∈ v, m ≤ u ∧ u ≤ M) : m * winPos c - M * winNeg c ≤ dot c v := dot_ge_of_bounds c v hlen m M hv

theorem window_sum_upper_bound (c v : List Rat) (hlen : c.length = v.length) (m M : Rat)
    (hv : ∀ u ∈ v, m ≤ u ∧ u ≤ M) : dot c v ≤ M * winPos c - m * winNeg c := dot_le_of_bounds c v hlen m M hv

/-- **single pass, whole function**: if the (rolled-off, mirrored) weights that the kept windows see lie in `[m, M]`
    and `M·winNeg < m·winPos` for the normalised window, every returned value is finite -/
theorem weighted_savgol_finite_of_ratio (x w : List Rat) (tw : Option Rat) (ww ord nIter : Nat) (coeffs : List Rat)
    (y : List (Option Rat)) (hw : w.length = x.length) (hx : 2 ≤ x.length)
    (wing ww' ord' : Nat) (hg : savgolGeometry x.length tw ww ord nIter = .ok (wing, ww', ord', 1))
    (hodd : ww' % 2 = 1) (hlen : coeffs.length = ww') (m M : Rat)
    (hb : ∀ u ∈ ((rollOff (padArray w wing) wing).drop (wing - (ww' - 1) / 2)).take (x.length + 2 * ((ww' - 1) / 2)),
      m ≤ u ∧ u ≤ M)
    (hratio : M * winNeg (normalise coeffs) < m * winPos (normalise coeffs))
    (h : savgolWeighted x w tw ww ord nIter coeffs = .ok y) : ∀ v ∈ y, v.isSome :=
  savgolWeighted_finite_of_ratio_seen x w tw ww ord nIter coeffs y hw hx wing ww' ord' hg hodd hlen m M hb hratio h

/-- … and a constant signal is reproduced exactly -/
theorem weighted_savgol_constant_of_ratio (n : Nat) (c : Rat) (w : List Rat) (tw : Option Rat) (ww ord nIter : Nat)
    (coeffs : List Rat) (y : List (Option Rat)) (hw : w.length = n) (hx : 2 ≤ n)
    (wing ww' ord' : Nat) (hg : savgolGeometry n tw ww ord nIter = .ok (wing, ww', ord', 1))
    (hodd : ww' % 2 = 1) (hlen : coeffs.length = ww') (m M : Rat)
    (hb : ∀ u ∈ ((rollOff (padArray w wing) wing).drop (wing - (ww' - 1) / 2)).take (n + 2 * ((ww' - 1) / 2)),
      m ≤ u ∧ u ≤ M)
    (hratio : M * winNeg (normalise coeffs) < m * winPos (normalise coeffs))
    (h : savgolWeighted (List.replicate n c) w tw ww ord nIter coeffs = .ok y) : y = List.replicate n (some c) :=
  savgolWeighted_constant_of_ratio_seen n c w tw ww ord nIter coeffs y hw hx wing ww' ord' hg hodd hlen m M hb hratio h

/-- the default window (7 points, cubic): positive part 25/21, negative part 4/21 -- weights whose max/min ratio stays
    below 25/4 can never cancel it, and the bound is sharp: the weights (25, 4, 4, 4, 4, 4, 25) give `N = 0` -/
theorem cubic_window_ratio :
    winPos (normalise [-2/21, 3/21, 6/21, 7/21, 6/21, 3/21, -2/21]) = 25/21 ∧
    winNeg (normalise [-2/21, 3/21, 6/21, 7/21, 6/21, 3/21, -2/21]) = 4/21 ∧
    dot (normalise [-2/21, 3/21, 6/21, 7/21, 6/21, 3/21, -2/21]) [25, 4, 4, 4, 4, 4, 25] = 0 :=
  ⟨cubic7_parts.1, cubic7_parts.2, cubic7_ratio_sharp⟩

/-! non-vacuity: the default geometry on eight uniform weights meets the hypotheses (roll-off factors 1/3, 2/3, 1) -/
example : savgolGeometry 8 none 7 3 1 = .ok (3, 7, 3, 1) := by decide +kernel
example : ∀ u ∈ rollOff (padArray [1, 1, 1, 1, 1, 1, 1, 1] 3) 3, (1 / 3 : Rat) ≤ u ∧ u ≤ 1 := by decide +kernel
example : (1 : Rat) * winNeg (normalise [-2/21, 3/21, 6/21, 7/21, 6/21, 3/21, -2/21]) <
    (1 / 3) * winPos (normalise [-2/21, 3/21, 6/21, 7/21, 6/21, 3/21, -2/21]) := by decide +kernel

end CnvVerif.C19
