/-
  C10 — "…and it leaves the arrays, lists and dicts passed to it unchanged": the argument-aliasing skeleton of EVERY
  function of cnvlib / skgenome, regenerated from the source on every run (harness/extractors/effects_alias.py →
  Generated/EffectsAlias.lean), is checked by a may-alias analysis that is proved sound here for all skeletons:
  a function that passes writes only the parameters its summary names, and the summaries of the pipeline steps and
  public array methods name nothing but, for the in-place methods, the receiver.  A dropped `.copy()` (`outarr =
  cnarr` in `do_call`, `filters = list(filters)` removed) changes the generated skeleton and breaks
  `every_function_respects_its_summary` or `pipeline_steps_write_no_argument` — not only the differential history.
  What stays trusted: the reading rules of the extractor (what is a new object, what is a view), listed at its top.
-/
import CnvVerif.Model.Alias
import CnvVerif.Lemmas.Alias
import CnvVerif.Generated.EffectsAlias
namespace CnvVerif.C10
open CnvVerif CnvVerif.Alias

/-- soundness of the analysis, for every skeleton, every run (any branch, any number of loop rounds, any choice
    among the possible aliases), any number `n` of caller-owned objects: if the analysis passes from `T` and only the
    names in `T` hold caller objects, the run performs no checked use (in-place write / return) of a caller object
    and afterwards only the names in the computed set hold caller objects -/
theorem alias_analysis_sound (chk : Kind → Bool) (n : Nat) (a : ASt) (T T' : Taint) (s s' : St)
    (h : taint chk a T = some T') (hi : Inv n T s) (hx : Exec a s s') :
    Inv n T' s' ∧ callerEvents chk n s' = callerEvents chk n s := taint_sound chk n hx T T' h hi

/-- in the property's words: a function whose skeleton respects its summary, called with caller objects in its
    parameters only, writes in place no caller object that is not held by a parameter its summary names … -/
theorem respects_summary_writes_only_declared (f : Fn) (h : f.respectsSummary = true) (n : Nat) (s s' : St)
    (hs : ∀ x, s.env x < n → x ∈ without f.params f.writes) (hn : n ≤ s.next) (hx : Exec f.body s s') :
    ∀ o, o < n → (Kind.mut, o) ∈ s'.events → (Kind.mut, o) ∈ s.events := by
  intro o ho hmem
  simp only [Fn.respectsSummary, Bool.and_eq_true, Option.isSome_iff_exists] at h
  obtain ⟨⟨T', hT⟩, _⟩ := h
  have e := (taint_sound (fun k => k == .mut) n hx _ T' hT ⟨hs, hn⟩).2
  have : (Kind.mut, o) ∈ callerEvents (fun k => k == .mut) n s' := by
    simp [callerEvents, List.mem_filter, hmem, ho]
  rw [e] at this
  exact (List.mem_filter.mp this).1

/-- … and returns no caller object that is not held by a parameter its summary names -/
theorem respects_summary_returns_only_declared (f : Fn) (h : f.respectsSummary = true) (n : Nat) (s s' : St)
    (hs : ∀ x, s.env x < n → x ∈ without f.params f.returns) (hn : n ≤ s.next) (hx : Exec f.body s s') :
    ∀ o, o < n → (Kind.ret, o) ∈ s'.events → (Kind.ret, o) ∈ s.events := by
  intro o ho hmem
  simp only [Fn.respectsSummary, Bool.and_eq_true, Option.isSome_iff_exists] at h
  obtain ⟨_, ⟨T', hT⟩⟩ := h
  have e := (taint_sound (fun k => k == .ret) n hx _ T' hT ⟨hs, hn⟩).2
  have : (Kind.ret, o) ∈ callerEvents (fun k => k == .ret) n s' := by
    simp [callerEvents, List.mem_filter, hmem, ho]
  rw [e] at this
  exact (List.mem_filter.mp this).1

/-- every function of the package (table regenerated from the source) writes and returns only what its summary
    says — the summaries used at its call sites are therefore justified function by function -/
theorem every_function_respects_its_summary :
    Generated.ALIAS_CHUNKS.all (fun c => c.all Fn.respectsSummary) = true := by decide +kernel

/-- no pipeline step (`do_*`, `export_*`) writes any of its arguments in place, and a public method of
    GenomicArray / CopyNumArray / VariantArray writes at most its receiver -/
theorem pipeline_steps_write_no_argument :
    Generated.ALIAS_CHUNKS.all (fun c => c.all Fn.entryOk) = true ∧ Generated.ENTRY_POINTS_WRITING_AN_ARGUMENT = [] := by
  decide +kernel

/-- the array methods that work in place are exactly the documented ones (setters, the label caches the property
    exempts, `center_all`, `add`, `sort`, `sort_columns`, `shuffle`, and `by_arm`'s recast of the chromosome column) -/
theorem in_place_methods_are_the_documented_ones :
    Generated.IN_PLACE_METHODS.all (fun m =>
      ["cnvlib.cnary.CopyNumArray.log2", "cnvlib.cnary.CopyNumArray.chr_x_label", "cnvlib.cnary.CopyNumArray.chr_y_label",
       "cnvlib.cnary.CopyNumArray.center_all", "skgenome.gary.GenomicArray.__setitem__", "skgenome.gary.GenomicArray.by_arm",
       "skgenome.gary.GenomicArray.add", "skgenome.gary.GenomicArray.shuffle", "skgenome.gary.GenomicArray.sort",
       "skgenome.gary.GenomicArray.sort_columns"].contains m) = true ∧
    Generated.EXEMPT_SELF_WRITERS = ["skgenome.gary.GenomicArray.by_arm"] := by decide +kernel

/-- together: any run of a listed pipeline step whose summary is empty — e.g. `do_call` — started with the caller's
    objects in its parameters writes none of them in place -/
theorem pipeline_step_leaves_arguments_unchanged (c : List Fn) (hc : c ∈ Generated.ALIAS_CHUNKS) (f : Fn) (hf : f ∈ c)
    (hw : f.writes = []) (n : Nat) (s s' : St) (hs : ∀ x, s.env x < n → x ∈ f.params) (hn : n ≤ s.next)
    (hx : Exec f.body s s') : ∀ o, o < n → (Kind.mut, o) ∈ s'.events → (Kind.mut, o) ∈ s.events := by
  have h := List.all_eq_true.mp (List.all_eq_true.mp every_function_respects_its_summary c hc) f hf
  refine respects_summary_writes_only_declared f h n s s' ?_ hn hx
  intro x hx'
  simp [without, hw, hs x hx']

/-! ### non-vacuity -/

/-- `do_call` is in the table, is a pipeline step, and its summary is empty -/
example : Generated.FN_cnvlib_call_do_call.entry = true ∧ Generated.FN_cnvlib_call_do_call.writes = [] ∧
    Generated.ALIAS_CHUNKS.any (fun c => c.any (fun f => f.name == "cnvlib.call.do_call")) = true := by decide +kernel

/-- the analysis rejects the code before fix J: `filters.remove(filt)` on the caller's list (no `list(filters)`) -/
example : taint (fun k => k == .mut) (.star (.seq (.bind 7 []) (.alt (.use .mut [4]) .nop))) [0, 4] = none := by
  decide +kernel

/-- and `outarr = cnarr` instead of `cnarr.copy()` followed by `outarr["cn"] = …` -/
example : taint (fun k => k == .mut) (.seq (.bind 6 [0]) (.use .mut [6])) [0] = none := by decide +kernel

/-- while the copy makes the same write harmless -/
example : taint (fun k => k == .mut) (.seq (.bind 6 []) (.use .mut [6])) [0] = some [0] := by decide +kernel

/-- a loop that only taints on the second round is still caught (the loop rule iterates to a fixed point) -/
example : taint (fun k => k == .mut) (.star (.seq (.use .mut [2]) (.seq (.bind 2 [1]) (.bind 1 [0])))) [0] = none := by
  decide +kernel

/-- a real run that the analysis speaks about: the write hits caller object 0 -/
example : Exec (.seq (.bind 6 [0]) (.use .mut [6])) ⟨fun _ => 0, 1, []⟩
    ⟨fun y => if y = 6 then 0 else 0, 1, [(.mut, 0)]⟩ :=
  Exec.seq (Exec.bindAlias 6 [0] 0 _ (by simp)) (Exec.use .mut [6] 6 _ (by simp))

end CnvVerif.C10
