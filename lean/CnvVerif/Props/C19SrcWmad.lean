/-
  C19, tie to the source TEXT of `weighted_mad` (round 5b): the body -- weighted median, weighted median of the absolute
  deviations from it, the factor 1.4826 under `scale_to_sd` -- is re-read on every run (Generated/ExprsWmad.lean, reading
  rules in harness/wmadcall.py); its two calls of `weighted_median` are the GENERATED `src_weighted_median`, each with
  the permutation its own `argsort` returned as a parameter.  Proved here: the hand-written `Desc.weightedMadCore`
  IS that expression, for all values, weights, both permutations and both settings of `scale_to_sd`.
-/
import CnvVerif.Generated.ExprsWmad
import CnvVerif.Props.C19SrcWmedian
import CnvVerif.Props.C19
namespace CnvVerif.C19
open CnvVerif CnvVerif.Desc CnvVerif.Generated CnvVerif.Src

theorem wmad_dev_zip (a w : List Rat) (m : Rat) :
    (a.zip w).map (fun q => (absR (q.1 - m), q.2)) = (a.map (fun x => absR (x - m))).zip w := by
  induction a generalizing w with
  | nil => simp
  | cons x t ih =>
    cases w with
    | nil => simp
    | cons y u => simp [ih]

/-- `weighted_mad` behind its decorator (equal lengths): the model with the two permutations is the source expression -/
theorem wmad_is_the_source (a w : List Rat) (order order2 : List Nat) (scaleToSd : Bool) (h : a.length = w.length) :
    src_weighted_mad a w order order2 scaleToSd = weightedMadCore false order order2 (a.zip w) scaleToSd := by
  unfold src_weighted_mad weightedMadCore
  simp only []
  rw [wmedian_is_the_source a w order h, wmad_dev_zip,
    wmedian_is_the_source _ w order2 (by simpa using h)]
  cases scaleToSd <;> simp [MAD_SCALE_WEIGHTED]

/-- the invariants of `Props/C19` therefore hold of the source expression: e.g. non-negativity -/
theorem src_weighted_mad_nonneg (a w : List Rat) (o1 o2 : List Nat) (h : a.length = w.length) (hne : o2 ≠ [])
    (hidx : ∀ i ∈ o2, i < a.length) (hw : ∀ v ∈ w, 0 ≤ v) : 0 ≤ src_weighted_mad a w o1 o2 true := by
  rw [wmad_is_the_source a w o1 o2 true h]
  apply wmad_nonneg o1 o2 (a.zip w) hne
  · intro i hi
    simpa [List.length_zip, h] using hidx i hi
  · intro q hq
    exact hw q.2 (List.of_mem_zip hq).2

/-! non-vacuity of the hypotheses: five values, equal weights, two permutations of `0..4` -/
example : ([1, 2, 4, 8, 16] : List Rat).length = ([1, 1, 1, 1, 1] : List Rat).length ∧ ([2, 1, 0, 3, 4] : List Nat) ≠ [] ∧
    (∀ i ∈ ([2, 1, 0, 3, 4] : List Nat), i < ([1, 2, 4, 8, 16] : List Rat).length) ∧
    (∀ v ∈ ([1, 1, 1, 1, 1] : List Rat), 0 ≤ v) := by decide +kernel

end CnvVerif.C19
