/-
  C05: tie to the source TEXT.  The definitions `Generated.src_*` of Generated/ExprsRef.lean are re-translated from
  /repo's Python on every run (harness/exprtrans.py, extractor harness/extractors/exprs_ref.py); these theorems state
  that the hand-written model functions of the pooled / flat reference are those expressions.  Kept in a module of
  their own so that an edit to one of the functions breaks exactly these obligations.
-/
import CnvVerif.Props.C05
import CnvVerif.Lemmas.SrcRef
namespace CnvVerif.C05
open CnvVerif CnvVerif.Ref

/-- gc and rmask of a bin's sequence, as the model computes them, ARE the expressions of `reference.calculate_gc_lo`
    applied to the number of occurrences of each of the letters a t A T g c G C (`str.count`) -/
theorem gc_rmask_is_the_source (seq : List Char) :
    gcRmask seq = Generated.src_calculate_gc_lo (Src.cnt seq 'a') (Src.cnt seq 't') (Src.cnt seq 'A')
      (Src.cnt seq 'T') (Src.cnt seq 'g') (Src.cnt seq 'c') (Src.cnt seq 'G') (Src.cnt seq 'C') :=
  Src.gcRmask_is_source seq


/-! non-vacuity -/
example : Generated.src_calculate_gc_lo 1 1 1 0 0 1 1 0 = (2/5, 3/5) := by decide +kernel

end CnvVerif.C05
