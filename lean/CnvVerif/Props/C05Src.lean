/-
  C05: tie to the source TEXT.  The definitions `Generated.src_*` of Generated/ExprsRef.lean are re-translated from
  /repo's Python on every run (harness/exprtrans.py, extractor harness/extractors/exprs_ref.py); these theorems state
  that the hand-written model functions of the pooled / flat reference are those expressions.  Kept in a module of
  their own so that an edit to one of the functions breaks exactly these obligations.
-/
import CnvVerif.Props.C05
import CnvVerif.Lemmas.SrcRef
namespace CnvVerif.C05
open CnvVerif CnvVerif.Ref

/-- gc and rmask of a bin's sequence, as the model computes them, ARE the expressions of `reference.calculate_gc_lo`
    applied to the number of occurrences of each of the letters a t A T g c G C (`str.count`) -/
theorem gc_rmask_is_the_source (seq : List Char) :
    gcRmask seq = Generated.src_calculate_gc_lo (Src.cnt seq 'a') (Src.cnt seq 't') (Src.cnt seq 'A')
      (Src.cnt seq 'T') (Src.cnt seq 'g') (Src.cnt seq 'c') (Src.cnt seq 'G') (Src.cnt seq 'C') :=
  Src.gcRmask_is_source seq

/-- the sex shift of one bin IS the in-place update `reference.shift_sex_chroms` performs on `cnarr["log2"]`
    (masks: the bin lies on X / on Y outside the PARs; `isXX`: the truthiness of the sample's recorded sex) -/
theorem sex_shift_is_the_source (isXX : Bool) (cls : CClass) (flat v : Rat) :
    sexAdjust isXX cls flat v = Generated.src_shift_sex_chroms (cls == .x) (cls == .y) isXX flat v :=
  Src.sexAdjust_is_source isXX cls flat v

/-- the neutral pseudo-sample / flat reference profile IS `CopyNumArray.expect_flat_log2` bin by bin -/
theorem flat_profile_is_the_source (hapX : Bool) (par : Option String) (t : List CBin) :
    expectFlat hapX par t = t.map (fun b =>
      Generated.src_expect_flat_log2 hapX
        (classOf ((t.head?.map (·.chrom)).getD "") par b.chrom b.s b.e == .x)
        (classOf ((t.head?.map (·.chrom)).getD "") par b.chrom b.s b.e == .y)
        (b.chrom == yLabel ((t.head?.map (·.chrom)).getD ""))) :=
  Src.expectFlat_is_source hapX par t

/-- consequently every value a sample contributes to the pooled matrix is the source's sex shift applied to the
    median-centred log2 and the source's flat level of that bin -/
theorem sample_values_are_the_source_shift (hapX : Bool) (par : Option String) (skipLow : Bool) (isXX : Option Bool)
    (flat : List Rat) (rows : List CovRow) :
    sampleLogr hapX par skipLow isXX flat rows =
      (rows.zip flat).map (fun p =>
        let cls := classOf ((rows.head?.map (·.chrom)).getD "") par p.1.chrom p.1.s p.1.e
        Generated.src_shift_sex_chroms (cls == .x) (cls == .y) (isXX == some true) p.2
          (p.1.log2 + centerShift medianR true skipLow par (rows.map toC))) := by
  unfold sampleLogr
  apply List.map_congr_left
  intro p _
  exact Src.sexAdjust_is_source _ _ _ _

/-- the model's correction pipeline IS the sequence of `center_by_window` calls the translator reads in
    `bias_correct_logr` (GC, RepeatMasker, edge -- in the source's order), skipped under the source's test -/
theorem correction_pipeline_is_the_source (cfg : CorrCfg) (rows : List CovRow) (logr : List Rat) :
    correctLogr cfg rows logr =
      correctLogrBy (Generated.REF_CORRECTION_STEPS.map (·.1)) Generated.REF_LOWCOV_THRESHOLD
        Generated.REF_LOWCOV_TEST.2.2 cfg rows logr :=
  Src.correctLogr_is_source cfg rows logr

/-- each correction runs under its own flag with the window fraction 0.1, and the skip test counts the bins with
    log2 > threshold and compares the count with `<=` -/
theorem correction_guards_are_the_source :
    Generated.REF_CORRECTION_STEPS.map (·.2.1) = ["fix_gc", "fix_rmask", "fix_edge"] ∧
    Generated.REF_CORRECTION_STEPS.all (fun s => s.2.2 == 1 / 10) = true ∧
    Generated.REF_LOWCOV_TEST.1 = "Gt" ∧ Generated.REF_LOWCOV_TEST.2.1 = "LtE" :=
  Src.correction_guards_are_source

/-- which corrections the target and the antitarget block get IS what `combine_probes` writes in its two
    `load_sample_block` calls -/
theorem block_flags_are_the_source (doGc doEdge doRmask : Bool) (k : BlockKeys) :
    blockCfg true doGc doEdge doRmask k = blockCfgBy Generated.REF_TARGET_FLAGS doGc doEdge doRmask k ∧
    blockCfg false doGc doEdge doRmask k = blockCfgBy Generated.REF_ANTITARGET_FLAGS doGc doEdge doRmask k :=
  Src.blockCfg_is_source doGc doEdge doRmask k

/-! non-vacuity: the generated expressions on concrete arguments -/
example : Generated.src_calculate_gc_lo 1 1 1 0 0 1 1 0 = (2/5, 3/5) := by decide +kernel
example : Generated.src_shift_sex_chroms true false false (-1) (-1/2) = -1/2 := by decide +kernel
example : Generated.src_expect_flat_log2 false true false false = 0 ∧
    Generated.src_expect_flat_log2 true true false false = -1 := by decide +kernel

end CnvVerif.C05
