/-
  C18 — VCF genotypes become allele frequencies and per-segment BAF as defined.
  Property theorems only; helper lemmas live in Lemmas/Vcf.lean.
-/
import CnvVerif.Model.Vcf
import CnvVerif.Lemmas.Vcf
namespace CnvVerif.C18
open CnvVerif CnvVerif.Vcf

/-! ### reading: one row per record, 0-based start, alt_freq = count/depth, zygosity from the genotype

    `Biallelic r`: the record has exactly one ALT allele (not the gVCF placeholder).
    `recRow si ni r` is the row the property describes for record `r`, sample column `si` and normal
    column `ni`: chromosome, start = POS − 1, the SOMATIC flag, and the genotype columns `genoOf`. -/

/-- a file of biallelic sites gives exactly one row per record, in file order, before filters and sort -/
theorem one_row_per_record (si : Nat) (ni : Option Nat) (recs : List Rec)
    (h : ∀ r ∈ recs, Biallelic r) :
    parseRecords si ni false recs = recs.map (recRow si ni) := parseRecords_biallelic si ni recs h

/-- that row sits at the record's chromosome and 0-based start, carries its SOMATIC flag and the
    genotype columns of the chosen sample and of the paired normal, if any -/
theorem start_zero_based (si : Nat) (ni : Option Nat) (r : Rec) :
    (recRow si ni r).chrom = r.chrom ∧ (recRow si ni r).s = r.pos - 1 ∧
    (recRow si ni r).somatic = r.somatic ∧
    (recRow si ni r).t = genoOf (r.smps[si]?.getD default) r ∧
    (recRow si ni r).n = ni.map (fun j => genoOf (r.smps[j]?.getD default) r) :=
  ⟨rfl, rfl, rfl, rfl, rfl⟩

/-- alt_freq = alt count / depth wherever a depth was counted -/
theorem alt_freq_def (s : Smp) (r : Rec) (h : (genoOf s r).depth ≠ 0) :
    (genoOf s r).altFreq = .fin ((genoOf s r).altCount / (genoOf s r).depth) := genoOf_altFreq s r h

/-- the zygosity column is `zygosityOf` of the genotype … -/
theorem zygosity_from_genotype (s : Smp) (r : Rec) : (genoOf s r).zyg = zygosityOf s.gt := rfl

/-- … which is 0.5 exactly for a genotype naming two different alleles, 0 exactly for an
    all-reference genotype, 1 exactly for one non-reference allele throughout — and nothing else -/
theorem zygosity_table (gt : List (Option Int)) (hne : gt ≠ []) :
    (zygosityOf gt = 0 ∨ zygosityOf gt = 1/2 ∨ zygosityOf gt = 1) ∧
    (zygosityOf gt = 1/2 ↔ ∃ a ∈ gt, ∃ b ∈ gt, a ≠ b) ∧
    (zygosityOf gt = 0 ↔ ∀ a ∈ gt, a = some 0) ∧
    (zygosityOf gt = 1 ↔ (∀ a ∈ gt, ∀ b ∈ gt, a = b) ∧ ∃ a ∈ gt, a ≠ some 0) :=
  ⟨zygosityOf_values gt, zygosityOf_half gt, zygosityOf_zero gt hne, zygosityOf_one gt hne⟩

/-! ### sample choice: PEDIGREE pairs first, else the given ids, else the first sample -/

/-- on a header with distinct sample names whose PEDIGREE tags name sample columns, and for ids
    that name sample columns, `_choose_samples` returns the pair the documented rules describe
    (`specPair`) and refuses exactly when they leave no tumour sample -/
theorem sample_choice_rules (samples : List String) (peds : List (String × String))
    (sid nid : Option String) (hnd : samples.Nodup)
    (hs : selOk samples sid = true) (hn : selOk samples nid = true) (hp : PedsValid samples peds) :
    chooseNames samples peds sid nid =
      match specPair samples peds (truthy sid) (truthy nid) with
      | some p => .ok p
      | none => .error .indexError := chooseNames_spec samples peds sid nid hnd hs hn hp

/-- the rules themselves, case by case -/
theorem rules_pedigree_first (samples : List String) (p : String × String) (ps : List (String × String))
    (n : Option String) : specPair samples (p :: ps) none n = some (p.1, some p.2) := rfl

theorem rules_given_ids (samples : List String) (x y : String) (h : x ≠ y) :
    specPair samples [] (some x) (some y) = some (x, some y) := by
  simp [specPair, h]

theorem rules_first_sample (a : String) (t : List String) :
    specPair (a :: t) [] none none = some (a, none) := rfl

/-! ### the table: exactly the records that pass the filters asked for, sorted, values attached -/

/-- the table read from a biallelic file: the records' rows, depth-filtered, SOMATIC-filtered, sorted -/
theorem read_table (samples : List String) (tags : List PedTag) (recs : List Rec) (o : ReadOpts)
    (sid : String) (nid : Option String)
    (hc : chooseSamples samples tags o.sid o.nid = .ok (sid, nid))
    (hr : o.skipReject = false) (hb : ∀ r ∈ recs, Biallelic r) :
    ∃ tb, readVcf samples tags recs o = .ok tb ∧
      tb.rows = sortV (somaticFilter o.skipSomatic (depthFilter o.minDepth
        (recs.map (recRow (samples.idxOf sid) ((truthy nid).map (fun n => samples.idxOf n)))))) :=
  readVcf_biallelic samples tags recs o sid nid hc hr hb

/-- the sort neither loses nor invents rows and leaves them in cnvkit's order -/
theorem sort_is_a_sorted_permutation (rows : List VRow) :
    (sortV rows).Perm rows ∧ SortedV (sortV rows) := ⟨sortV_perm rows, sortV_sorted rows⟩

/-- depth filter: with a non-zero minimum and depths in the file, exactly the rows whose depth
    (the normal's, when paired) reaches it; SOMATIC filter: exactly the unflagged rows -/
theorem filters_exact (m : Int) (hm : m ≠ 0) (rows : List VRow) (hany : ∃ x ∈ rows, x.t.depth ≠ 0)
    (skipSomatic : Bool) (r : VRow) :
    r ∈ somaticFilter skipSomatic (depthFilter (some m) rows) ↔
      r ∈ rows ∧ filterDepth r ≥ (m : Rat) ∧ (skipSomatic = true → r.somatic = false) := by
  rw [mem_somaticFilter, mem_depthFilter m hm rows hany]
  exact and_assoc

theorem no_filter_asked (rows : List VRow) : somaticFilter false (depthFilter none rows) = rows := by
  simp [somaticFilter, depthFilter]

/-- every row of the table read is the row of one of the file's records: its frequency, depth,
    zygosity and flag stay attached to that record's coordinates through filters and sort -/
theorem freqs_stay_attached (samples : List String) (tags : List PedTag) (recs : List Rec) (o : ReadOpts)
    (sid : String) (nid : Option String) (tb : VTable)
    (hc : chooseSamples samples tags o.sid o.nid = .ok (sid, nid))
    (hr : o.skipReject = false) (hb : ∀ r ∈ recs, Biallelic r)
    (ht : readVcf samples tags recs o = .ok tb) :
    ∀ row ∈ tb.rows, ∃ r ∈ recs,
      row = recRow (samples.idxOf sid) ((truthy nid).map (fun n => samples.idxOf n)) r := by
  obtain ⟨tb', h1, h2⟩ := readVcf_biallelic samples tags recs o sid nid hc hr hb
  rw [ht] at h1
  cases h1
  intro row hrow
  rw [h2, mem_sortV, mem_somaticFilter] at hrow
  have := mem_depthFilter_sub _ _ _ hrow.1
  obtain ⟨r, hr', rfl⟩ := List.mem_map.mp this
  exact ⟨r, hr', rfl⟩

/-! ### load_het_snps keeps exactly the germline-heterozygous records -/

/-- heterozygous = germline zygosity 0.5 (the normal's when paired) -/
theorem het_is_half (r : VRow) (hv : germZyg r = 0 ∨ germZyg r = 1/2 ∨ germZyg r = 1) :
    isHet r = true ↔ germZyg r = 1/2 := isHet_iff_half r hv

/-- when the table read (depth filter, SOMATIC records dropped) has a germline-heterozygous row,
    `load_het_snps` returns exactly its germline-heterozygous rows, in order -/
theorem het_keeps_exactly_hets (samples : List String) (tags : List PedTag) (recs : List Rec)
    (o : HetOpts) (tb : VTable)
    (hr : readVcf samples tags recs
            { sid := o.sid, nid := o.nid, minDepth := o.minDepth,
              skipReject := false, skipSomatic := true } = .ok tb)
    (hz : o.zygFreq = none) (hb : o.tumorBoost = false)
    (hn : tb.paired = true → ∃ r ∈ tb.rows, ∃ g, r.n = some g ∧ g.zyg ≠ 0)
    (hh : ∃ r ∈ tb.rows, isHet r = true) :
    loadHetSnps samples tags recs o = .ok { paired := tb.paired, rows := tb.rows.filter isHet } :=
  loadHetSnps_rows samples tags recs o tb hr hz hb hn hh

/-- the same with genotypes taken from the allele frequencies (`zygosity_freq`) -/
theorem het_keeps_exactly_hets_by_freq (samples : List String) (tags : List PedTag) (recs : List Rec)
    (o : HetOpts) (tb : VTable) (het hom : Rat)
    (hr : readVcf samples tags recs
            { sid := o.sid, nid := o.nid, minDepth := o.minDepth,
              skipReject := false, skipSomatic := true } = .ok tb)
    (hz : o.zygFreq = some (het, hom)) (hv : 0 ≤ het ∧ het ≤ hom ∧ hom ≤ 1) (hb : o.tumorBoost = false)
    (hh : ∃ r ∈ zygosityFromFreq het hom tb.rows, isHet r = true) :
    loadHetSnps samples tags recs o =
      .ok { paired := tb.paired, rows := (zygosityFromFreq het hom tb.rows).filter isHet } :=
  loadHetSnps_rows_freq samples tags recs o tb het hom hr hz hv hb hh

/-- the excluded point (open finding X, documented in the source): with no heterozygous row at all
    `heterozygous()` hands back every row instead of none -/
theorem het_fallback_returns_all (rows : List VRow) (h : ∀ r ∈ rows, isHet r = false) :
    heterozygous rows = rows := heterozygous_fallback rows h

/-! ### BAF of a segment: median of the heterozygous frequencies inside it, mirrored to one side -/

/-- mirrored values lie on one side of 0.5 (the side asked for, when one is), each at the distance
    from 0.5 its frequency had; a value already on the side the data choose is unchanged -/
theorem mirror_one_side (vals : List (Option Rat)) (a : Option Bool) :
    (∀ q, some q ∈ mirroredBaf vals a → 1/2 ≤ q) ∨ (∀ q, some q ∈ mirroredBaf vals a → q ≤ 1/2) :=
  mirroredBaf_one_side vals a

theorem mirror_side_asked (vals : List (Option Rat)) (b : Bool) (q : Rat)
    (hq : some q ∈ mirroredBaf vals (some b)) : if b then 1/2 ≤ q else q ≤ 1/2 :=
  mirroredBaf_side vals b q hq

theorem mirror_keeps_distance (b : Bool) (v : Rat) : absQ (mirrorOne b v - 1/2) = absQ (v - 1/2) :=
  mirrorOne_dist b v

/-- `WFRows`: the table is in cnvkit's order with rows of positive length at coordinates ≥ 0 (what
    `tabio.read` returns); `ChromGrouped`: each chromosome's ranges are adjacent.  Then for every
    range, in the order given, `baf_by_ranges` returns the property's BAF: the median of the mirrored
    frequencies of the heterozygous rows inside the range -/
theorem baf_is_median_of_mirrored (tb : VTable) (segs : List (String × Int × Int)) (boost : Bool)
    (hwf : WFRows tb.rows) (hseg : ∀ g ∈ segs, 0 ≤ g.2.1) (hg : ChromGrouped segs)
    (hh : ∃ r ∈ tb.rows, isHet r = true) :
    bafByRanges tb segs none boost = segs.map (specBaf tb.paired boost none tb.rows) := by
  rw [bafByRanges_eq tb segs none boost hwf hseg, regroupSegs_of_grouped segs hg,
    heterozygous_eq_filter tb.rows hh]
  apply List.map_congr_left
  intro g _
  rw [series2value_none]
  rfl

/-- without the grouping hypothesis the same values come back chromosome by chromosome
    (`regroupSegs`), and with a forced side a range holding a single value reports it unmirrored
    (`series2value`): the code as it is, for every segment table -/
theorem baf_by_ranges_general (tb : VTable) (segs : List (String × Int × Int)) (above : Option Bool)
    (boost : Bool) (hwf : WFRows tb.rows) (hseg : ∀ g ∈ segs, 0 ≤ g.2.1) :
    bafByRanges tb segs above boost =
      (regroupSegs segs).map (fun g =>
        series2value above (((heterozygous tb.rows).filter (overlaps g)).map (bafFreq tb.paired boost))) :=
  bafByRanges_eq tb segs above boost hwf hseg

/-- the BAF is missing exactly where no heterozygous row with a finite frequency lies inside -/
theorem baf_missing_iff_no_het (paired boost : Bool) (a : Option Bool) (rows : List VRow)
    (g : String × Int × Int) :
    specBaf paired boost a rows g = none ↔
      ∀ r ∈ (rows.filter isHet).filter (overlaps g), bafFreq paired boost r = none := by
  unfold specBaf
  rw [summarize_eq_none]
  constructor
  · intro h r hr
    exact h _ (List.mem_map.mpr ⟨r, hr, rfl⟩)
  · intro h v hv
    obtain ⟨r, hr, rfl⟩ := List.mem_map.mp hv
    exact h r hr

/-- "median": the values put in non-decreasing order; the middle one, or the mean of the two middle
    ones; missing for no values -/
theorem median_is_middle_of_sorted (l : List Rat) :
    ∃ s : List Rat, s.Perm l ∧ s.Pairwise (· ≤ ·) ∧
      median l = (if s.length = 0 then none
                  else if s.length % 2 = 1 then s[s.length / 2]?
                  else match s[s.length / 2 - 1]?, s[s.length / 2]? with
                    | some a, some b => some ((a + b) / 2)
                    | _, _ => none) := median_is_middle l

/-- a range holding one heterozygous frequency reports that frequency -/
theorem baf_of_single_value (v : Option Rat) : summarize none [v] = v := summarize_single v

/-! ### TumorBoost and purity rescaling follow their formulas -/

/-- boosted = t / (2n) below the normal's frequency … -/
theorem tumorboost_formula_below (t n : Rat) (h : t < n) (hn : n ≠ 0) :
    ∃ b, tumorBoost t n = some b ∧ b * (2 * n) = t := tumorBoost_lt t n h hn

/-- … and 1 − (1 − t) / (2 (1 − n)) from it on; a normal at exactly 0.5 changes nothing -/
theorem tumorboost_formula_above (t n : Rat) (h : ¬ t < n) (hn : n ≠ 1) :
    ∃ b, tumorBoost t n = some b ∧ (1 - b) * (2 * (1 - n)) = 1 - t := tumorBoost_ge t n h hn

theorem tumorboost_neutral_normal (t : Rat) : tumorBoost t (1/2) = some t := tumorBoost_half t

/-- inside `load_het_snps` every boosted value stays on the row it was computed from -/
theorem tumorboost_stays_attached (rows out : List VRow) (h : boostStage true true rows = .ok out) :
    out.length = rows.length ∧
    ∀ i (hi : i < rows.length) (ho : i < out.length),
      out[i].chrom = rows[i].chrom ∧ out[i].s = rows[i].s ∧ out[i].e = rows[i].e ∧
      out[i].n = rows[i].n ∧ out[i].t.zyg = rows[i].t.zyg ∧ out[i].t.altFreq = boostRow rows[i] :=
  boostStage_attached rows out h

/-- … and that value is the formula applied to the row's own tumour and normal frequencies -/
theorem tumorboost_row_formula (r : VRow) (g : Geno) (t n : Rat) (hn : r.n = some g)
    (ht : r.t.altFreq = .fin t) (hg : g.altFreq = .fin n) (h1 : t ≤ 1) :
    boostRow r = ofOpt (tumorBoost t n) := boostRow_formula r g t n hn ht hg h1

/-- purity rescaling inverts the mixture: t·p + n·(1 − p) = observed; a pure sample is unchanged -/
theorem rescale_formula (p obs n : Rat) (hp : p ≠ 0) : rescaleBaf p obs n * p + n * (1 - p) = obs :=
  rescaleBaf_inverts p obs n hp

theorem rescale_pure_sample (obs n : Rat) : rescaleBaf 1 obs n = obs := rescaleBaf_pure obs n

/-! ### non-vacuity -/

def exSmp (gt : List (Option Int)) (ref alt dp : Int) : Smp :=
  { gt := gt, hasDP := true, dp := some dp, ad := .tuple [some ref, some alt] }

def exRecs : List Rec :=
  [ { chrom := "chr1", pos := 11, ref := "A", alts := ["G"], filt := ["PASS"], infoDP := none, somatic := false,
      smps := [exSmp [some 0, some 1] 20 12 32, exSmp [some 0, some 1] 16 16 32] },
    { chrom := "chr1", pos := 21, ref := "A", alts := ["ACGT"], filt := [], infoDP := some 30, somatic := true,
      smps := [exSmp [some 1, some 1] 0 32 32, exSmp [some 0, some 0] 32 0 32] },
    { chrom := "chr2", pos := 5, ref := "AT", alts := ["A"], filt := ["q10"], infoDP := none, somatic := false,
      smps := [exSmp [some 0, some 1] 8 24 32, exSmp [some 1, some 0] 12 20 32] } ]

example : ∀ r ∈ exRecs, Biallelic r := by
  intro r hr
  simp only [exRecs, List.mem_cons, List.not_mem_nil, or_false] at hr
  rcases hr with rfl | rfl | rfl
  · exact ⟨"G", rfl, by decide⟩
  · exact ⟨"ACGT", rfl, by decide⟩
  · exact ⟨"A", rfl, by decide⟩

example : chooseSamples ["T", "N"] [[("Derived", "T"), ("Original", "N")]] .unset .unset = .ok ("T", some "N") := by
  decide
example : chooseSamples ["T", "N"] [] .unset (.name "N") = .ok ("T", some "N") := by decide
example : chooseSamples ["T", "N"] [] (.idx (-1)) .unset = .ok ("N", none) := by decide
example : chooseSamples ["N"] [] .unset (.name "N") = .error .indexError := by decide
example : ["T", "N"].Nodup ∧ PedsValid ["T", "N"] [("T", "N")] := by
  refine ⟨by decide, ?_⟩
  intro p hp
  simp only [List.mem_cons, List.not_mem_nil, or_false] at hp
  subst hp
  exact ⟨by decide, by decide⟩

/-- the rows of the example records for tumour column 0 and normal column 1: 0-based starts,
    frequencies 12/32, 32/32, 24/32 -/
example : (parseRecords 0 (some 1) false exRecs).map (fun r => (r.chrom, r.s, r.somatic, r.t.zyg, r.t.altFreq)) =
    [("chr1", 10, false, 1/2, .fin (3/8)), ("chr1", 20, true, 1, .fin 1), ("chr2", 4, false, 1/2, .fin (3/4))] := by
  decide +kernel

def exGeno (z f : Rat) : Geno := { zyg := z, depth := 32, altCount := f * 32, altFreq := .fin f }

/-- a paired table on one chromosome: het, hom, het, het -/
def exRows : List VRow :=
  [ { chrom := "chr1", s := 10, e := 11, ref := "A", alt := "G", somatic := false, t := exGeno (1/2) (3/8), n := some (exGeno (1/2) (1/2)) },
    { chrom := "chr1", s := 20, e := 21, ref := "A", alt := "G", somatic := false, t := exGeno 1 1, n := some (exGeno 1 1) },
    { chrom := "chr1", s := 30, e := 31, ref := "A", alt := "G", somatic := false, t := exGeno (1/2) (1/4), n := some (exGeno (1/2) (3/8)) },
    { chrom := "chr1", s := 40, e := 41, ref := "A", alt := "G", somatic := false, t := exGeno (1/2) (3/4), n := some (exGeno (1/2) (5/8)) } ]

example : WFRows exRows := by
  constructor
  · have k : ∀ a b : VRow, a.chrom = b.chrom → a.s < b.s → keyLe a b = true := by
      intro a b hc hs
      rw [keyLe_iff, hc]
      exact Or.inr ⟨rfl, Or.inl hs⟩
    simp only [exRows, SortedV, List.pairwise_cons, List.mem_cons, List.not_mem_nil, or_false, forall_eq_or_imp,
      forall_eq, List.Pairwise.nil, and_true, IsEmpty.forall_iff, implies_true]
    refine ⟨⟨?_, ?_, ?_⟩, ⟨?_, ?_⟩, ?_⟩ <;> exact k _ _ rfl (by decide)
  · intro r hr
    simp only [exRows, List.mem_cons, List.not_mem_nil, or_false] at hr
    rcases hr with rfl | rfl | rfl | rfl <;> decide

example : ∃ r ∈ exRows, isHet r = true := by
  unfold exRows
  exact ⟨_, List.mem_cons_self, by decide +kernel⟩

example : ChromGrouped [("chr1", 0, 25), ("chr1", 25, 100), ("chr2", 0, 9)] := by
  refine ⟨?_, ?_, ?_, trivial⟩ <;> decide

/-- the property's BAF of three ranges over that table, plain and TumorBoost-ed -/
example : [("chr1", 0, 25), ("chr1", 25, 100), ("chr2", 0, 9)].map (specBaf true false none exRows) =
    [some (3/8), some (1/4), none] := by decide +kernel
example : [("chr1", 0, 25), ("chr1", 25, 100), ("chr2", 0, 9)].map (specBaf true true none exRows) =
    [some (3/8), some (1/3), none] := by decide +kernel

example : mirroredBaf [some (1/4), some (7/8), some (5/8)] none = [some (3/4), some (7/8), some (5/8)] := by
  decide +kernel
example : summarize none [some (1/4), some (7/8), some (5/8)] = some (3/4) := by decide +kernel
example : tumorBoost (1/4) (1/2) = some (1/4) ∧ tumorBoost (1/4) (5/8) = some (1/5) := by
  constructor <;> decide +kernel
example : rescaleBaf (1/2) (3/8) = 1/4 := by decide +kernel

end CnvVerif.C18
