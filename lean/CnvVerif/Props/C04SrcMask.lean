/-
  C04: tie to the source TEXT of `fix.mask_bad_bins`.
  `Generated.src_mask_bad_bins` is re-translated from /repo's Python on every run
  (harness/extractors/exprs_fixmask.py, reading rules at the top of harness/exprtrans.py); these theorems state that the
  hand-written model function is that expression.  A module of its own: an edit to the mask breaks exactly these obligations.
-/
import CnvVerif.Props.C04
import CnvVerif.Lemmas.SrcFixMask
namespace CnvVerif.C04
open CnvVerif

/-- the model's reference filter IS the mask expression of `mask_bad_bins`, read for one row of a reference that has a
    depth column (with or without a gc column) -/
theorem bad_bin_mask_is_the_source (r : RRow) :
    badBin r = Generated.src_mask_bad_bins true r.gc.isSome r.depth (r.gc.getD 0) r.log2 r.spread :=
  Src.badBin_is_source r

/-- `mask_bad_bins` on a reference without a depth column = the same mask with every depth 1 (how the correspondence
    run presents such a reference to the model) -/
theorem mask_without_depth_column (hasGc : Bool) (depth gc log2 spread : Rat) :
    Generated.src_mask_bad_bins false hasGc depth gc log2 spread = Generated.src_mask_bad_bins true hasGc 1 gc log2 spread :=
  Src.mask_without_depth_column hasGc depth gc log2 spread

end CnvVerif.C04
