/-
  C04: tie to the source TEXT of `fix.mask_bad_bins` and of the weight formulas in `fix.apply_weights`.
  `Generated.src_mask_bad_bins` / `Generated.src_weight_*` are re-translated from /repo's Python on every run
  (harness/extractors/exprs_fixmask.py, reading rules at the top of harness/exprtrans.py); these theorems state that the
  hand-written model functions are those expressions.  A module of its own: an edit to the mask or to a weight formula
  breaks exactly these obligations.
-/
import CnvVerif.Props.C04
import CnvVerif.Lemmas.SrcFixMask
namespace CnvVerif.C04
open CnvVerif

/-- the model's reference filter IS the mask expression of `mask_bad_bins`, read for one row of a reference that has a
    depth column (with or without a gc column) -/
theorem bad_bin_mask_is_the_source (r : RRow) :
    badBin r = Generated.src_mask_bad_bins true r.gc.isSome r.log2 r.spread r.depth (r.gc.getD 0) :=
  Src.badBin_is_source r

/-- `mask_bad_bins` on a reference without a depth column = the same mask with every depth 1 (how the correspondence
    run presents such a reference to the model) -/
theorem mask_without_depth_column (hasGc : Bool) (log2 spread depth gc : Rat) :
    Generated.src_mask_bad_bins false hasGc log2 spread depth gc = Generated.src_mask_bad_bins true hasGc log2 spread 1 gc :=
  Src.mask_without_depth_column hasGc log2 spread depth gc

/-- the per-bin weight formula about which `weight_in_range`, `weight_mono_size`, `weight_antitone_spread` are stated
    IS the composition of the formulas in `apply_weights`: size/variance term, reference-spread term, their 0.9 / 0.1
    average with a pooled reference, the clip to [epsilon, 1] -/
theorem weight_formula_is_the_source (pooled : Bool) (spread sq m v : Rat) :
    weightOf pooled spread sq m v =
      Generated.src_weight_clip
        (if pooled then Generated.src_weight_pooled spread (Generated.src_weight_simple_target v sq m)
         else Generated.src_weight_flat (Generated.src_weight_simple_target v sq m)) Generated.WEIGHT_EPSILON :=
  Src.weightOf_is_source pooled spread sq m v

/-- on- and off-target bins are weighted by the same size/variance formula -/
theorem weight_formula_same_for_both_classes (v sq m : Rat) :
    Generated.src_weight_simple_antitarget v sq m = Generated.src_weight_simple_target v sq m :=
  Src.simple_weight_same_for_both_classes v sq m

end CnvVerif.C04
