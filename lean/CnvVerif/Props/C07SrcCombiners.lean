/-
  C07: tie to the source TEXT of skgenome/combiners.py (the summaries `into_ranges` applies).  A module of its own, so
  that an edit to a combiner breaks exactly these obligations.
-/
import CnvVerif.Props.C07
import CnvVerif.Lemmas.SrcCombiners
namespace CnvVerif.C07
open CnvVerif

/-- `first_of` takes a Series by POSITION (`.iat[0]`; the label lookup `elems[0]` was finding BD) and a plain sequence
    by index 0; the model's `firstOf` is that element -/
theorem first_of_is_the_source (vs : List Val) :
    (∀ b, Generated.src_first_of b = if b then 0 else 2) ∧
      firstOf vs = Src.elemAt (Generated.src_first_of true) vs := Src.firstOf_is_source vs

theorem last_of_is_the_source (vs : List Val) :
    (∀ b, Generated.src_last_of b = if b then 1 else 3) ∧
      lastOf vs = Src.elemAt (Generated.src_last_of true) vs := Src.lastOf_is_source vs

/-- `merge_strands`: "." when the strands differ, else the first one -/
theorem merge_strands_is_the_source (l : List String) :
    mergeStrands l =
      (match Generated.src_merge_strands l.eraseDups.length with | 0 => "." | _ => l.headD "") :=
  Src.mergeStrands_is_source l

/-- `make_const(v)` still ignores its argument and `join_strings` is still `sep.join(pd.unique(...))` -/
theorem const_and_join_are_the_source : Generated.src_make_const = 0 ∧ Generated.src_join_strings = 0 :=
  Src.const_and_join_are_source

end CnvVerif.C07
