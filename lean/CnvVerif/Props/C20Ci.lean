/-
  C20 (round 5): `export vcf` with confidence limits (`ci_left` / `ci_right` columns in the segment table, the
  branch of `segments2vcf` the model left out so far).  Model: Model/ExportCiExt5.lean.
-/
import CnvVerif.Model.ExportCiExt5
namespace CnvVerif.C20Ci
open CnvVerif CnvVerif.Export CnvVerif.Export.C20Ci

theorem ci_cols_aux_length (prev : Option CiRow) (rows : List CiRow) :
    (ciColsAux prev rows).length = rows.length := by
  induction rows generalizing prev with
  | nil => rfl
  | cons r rest ih => simp [ciColsAux, ih]

/-- one quadruple per row of the table -/
theorem ci_one_quadruple_per_row (rows : List CiRow) : (ciCols rows).length = rows.length :=
  ci_cols_aux_length none rows

theorem filterMap_zip_fst {α β γ : Type} (f : α → Option γ) (l1 : List α) (l2 : List β)
    (h : l1.length = l2.length) :
    ((List.zip l1 l2).filterMap (fun p => (f p.1).map (fun c => (c, p.2)))).map Prod.fst = l1.filterMap f := by
  induction l1 generalizing l2 with
  | nil => simp
  | cons a t ih =>
    cases l2 with
    | nil => simp at h
    | cons b u =>
      have hl : t.length = u.length := by simpa using h
      simp only [List.zip_cons_cons, List.filterMap_cons]
      cases hfa : f a with
      | none => simpa using ih u hl
      | some c => simpa using ih u hl

/-- the confidence columns change neither WHICH segments are reported nor any other field of their records:
    dropping the four numbers gives exactly `segments2vcf` of the plain table (so every C20 theorem about the
    records holds with confidence limits too) -/
theorem ci_records_are_the_plain_records (cfg : Cfg) (rows : List Seg) (ci : List (Int × Int))
    (h : ci.length = rows.length) :
    (segments2vcfCi cfg rows ci).map Prod.fst = segments2vcf cfg rows := by
  unfold segments2vcfCi segments2vcf
  apply filterMap_zip_fst
  simp [ci_one_quadruple_per_row, ciRowsOf, h]

theorem posR_col_aux (prev : Option CiRow) (rows : List CiRow) :
    (ciColsAux prev rows).map (·.posR) = rows.map leftMargin := by
  induction rows generalizing prev with
  | nil => rfl
  | cons r rest ih => simp [ciColsAux, ih]

theorem endL_col_aux (prev : Option CiRow) (rows : List CiRow) :
    (ciColsAux prev rows).map (·.endL) = rows.map rightMargin := by
  induction rows generalizing prev with
  | nil => rfl
  | cons r rest ih => simp [ciColsAux, ih]

theorem posL_col_aux (prev : Option CiRow) (rows : List CiRow) :
    (ciColsAux prev rows).map (·.posL) =
      ((match prev with | none => (0 : Int) | some p => -(rightMargin p)) ::
        rows.map (fun r => -(rightMargin r))).dropLast := by
  induction rows generalizing prev with
  | nil => simp [ciColsAux]
  | cons r rest ih =>
    simp only [ciColsAux, List.map_cons, ih (some r), List.dropLast_cons_cons]
    rfl

theorem endR_col_aux (prev : Option CiRow) (rows : List CiRow) (h : rows ≠ []) :
    (ciColsAux prev rows).map (·.endR) = (rows.map leftMargin).drop 1 ++ [0] := by
  induction rows generalizing prev with
  | nil => exact absurd rfl h
  | cons r rest ih =>
    cases rest with
    | nil => simp [ciColsAux]
    | cons n rest' =>
      have := ih (some r) (by simp)
      simp only [ciColsAux, List.map_cons, List.head?_cons] at this ⊢
      simp [this]

/-- ROW-wise model = the source's COLUMN program: `ci_pos_right = left_margin` -/
theorem ci_pos_right_is_the_column (rows : List CiRow) : (ciCols rows).map (·.posR) = posRCol rows :=
  posR_col_aux none rows

/-- `ci_end_left = right_margin` -/
theorem ci_end_left_is_the_column (rows : List CiRow) : (ciCols rows).map (·.endL) = endLCol rows :=
  endL_col_aux none rows

/-- `ci_pos_left = np.r_[0, -right_margin[:-1]]` -/
theorem ci_pos_left_is_the_shifted_column (rows : List CiRow) : (ciCols rows).map (·.posL) = posLCol rows := by
  unfold ciCols posLCol shiftDown
  exact posL_col_aux none rows

/-- `ci_end_right = np.r_[left_margin[1:], 0]` (a table with at least one row: on an empty one numpy's vector has one
    element more than the table and pandas refuses the assignment) -/
theorem ci_end_right_is_the_shifted_column (rows : List CiRow) (h : rows ≠ []) :
    (ciCols rows).map (·.endR) = endRCol rows := by
  unfold ciCols endRCol shiftUp
  exact endR_col_aux none rows h

theorem bracket_aux (prev : Option CiRow) (rows : List CiRow) :
    ∀ p ∈ List.zip rows (ciColsAux prev rows), p.1.s + p.2.posR = p.1.ciLeft ∧ p.1.e - p.2.endL = p.1.ciRight := by
  induction rows generalizing prev with
  | nil => intro p hp; simp [ciColsAux] at hp
  | cons r rest ih =>
    intro p hp
    simp only [ciColsAux, List.zip_cons_cons, List.mem_cons] at hp
    rcases hp with rfl | hp
    · simp only [leftMargin, rightMargin]
      constructor <;> omega
    · exact ih (some r) p hp

/-- what the numbers MEAN, row by row (each row paired with its quadruple): start + CIPOS.right is the stated
    `ci_left`, end - CIEND.left is the stated `ci_right` (the code prints the distance `end - ci_right` without a
    minus sign, and measures from the table's `start`, which is POS except where start = 0 became POS = 1) -/
theorem ci_brackets_the_stated_limits (rows : List CiRow) :
    ∀ p ∈ List.zip rows (ciCols rows), p.1.s + p.2.posR = p.1.ciLeft ∧ p.1.e - p.2.endL = p.1.ciRight :=
  bracket_aux none rows

theorem adjacent_aux (prev : Option CiRow) (rows : List CiRow) : adjacentOk (ciColsAux prev rows) = true := by
  induction rows generalizing prev with
  | nil => rfl
  | cons r rest ih =>
    cases rest with
    | nil => rfl
    | cons n rest' =>
      have := ih (some r)
      simp only [ciColsAux, List.head?_cons] at this ⊢
      simp [adjacentOk, this]

/-- the breakpoint shared by two consecutive rows gets the same limits in both records -/
theorem ci_adjacent_rows_agree (rows : List CiRow) : adjacentOk (ciCols rows) = true :=
  adjacent_aux none rows

/-- the outer ends of the table are stated as certain: first CIPOS.left = 0, last CIEND.right = 0 -/
theorem ci_table_ends_are_zero (rows : List CiRow) :
    ((ciCols rows).head?.map (·.posL)).getD 0 = 0 ∧ ((ciCols rows).getLast?.map (·.endR)).getD 0 = 0 := by
  constructor
  · cases rows <;> simp [ciCols, ciColsAux]
  · by_cases h : rows = []
    · subst h; simp [ciCols, ciColsAux]
    · have e := ci_end_right_is_the_shifted_column rows h
      have : ((ciCols rows).map (·.endR)).getLast? = some 0 := by rw [e]; simp [endRCol, shiftUp]
      rw [List.getLast?_map] at this
      cases hl : (ciCols rows).getLast? with
      | none => simp
      | some v => rw [hl] at this; simpa using this

/-- non-vacuity: three rows, margins 3/2, 4/1, 0/5 -/
example : ciCols [⟨0, 100, 3, 98⟩, ⟨100, 200, 104, 199⟩, ⟨300, 400, 300, 395⟩] =
    [⟨0, 3, 2, 4⟩, ⟨-2, 4, 1, 0⟩, ⟨-1, 0, 5, 0⟩] := by decide

end CnvVerif.C20Ci
