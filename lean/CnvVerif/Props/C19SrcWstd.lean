/-
  C19, tie to the source TEXT: `weighted_std` behind its decorator (equal lengths): where the model returns a variance, the source returns its root.
  `Generated.src_weighted_std` (Generated/ExprsDesc.lean) is re-translated from /repo's cnvlib/descriptives.py on every run by
  harness/vectrans.py (typed reading of the numpy vector subset); it is proved here that the hand-written model IS
  that expression, for all arguments.  One module per function: an edited formula breaks exactly this obligation.
-/
import CnvVerif.Generated.ExprsDesc
import CnvVerif.Lemmas.SrcDescVocab
namespace CnvVerif.C19
open CnvVerif CnvVerif.Desc CnvVerif.Generated CnvVerif.Src

set_option linter.unusedSimpArgs false
set_option linter.unusedVariables false

/-- `weighted_std`: where the model returns a variance (total weight not 0), the source returns its root -/
theorem wstd_is_the_source (a w : List Rat) (h : a.length = w.length) (v : Rat)
    (hv : weightedVarCore (a.zip w) = some v) : src_weighted_std a w = ScaleOut.root v := by
  unfold weightedVarCore at hv
  unfold src_weighted_std
  simp only []
  cases hm : wavg (a.zip w) with
  | none => rw [hm] at hv; exact absurd hv (by simp)
  | some mean =>
    rw [hm] at hv
    simp only [] at hv
    rw [wavg_zip a w h mean hm]
    have hz : (a.zip w).map (fun q => (sq (q.1 - mean), q.2)) = ((a.map (fun v => v - mean)).map (fun v => v ^ 2)).zip w := by
      rw [List.map_map]
      apply List.ext_getElem (by simp [List.length_zip])
      intro i h1 h2
      simp [Desc.sq, pow_two]
    rw [hz] at hv
    rw [wavg_zip _ w (by simp [h]) v hv]

example : weightedVarCore ([1, 3].zip [1, 1]) = some 1 := by decide +kernel

end CnvVerif.C19
