/-
  C19, tie to the source TEXT: `median_absolute_deviation(a, scale_to_sd)` behind its decorator is the model's `madCore`.
  `Generated.src_median_absolute_deviation` (Generated/ExprsDesc.lean) is re-translated from /repo's cnvlib/descriptives.py on every run by
  harness/vectrans.py (typed reading of the numpy vector subset); it is proved here that the hand-written model IS
  that expression, for all arguments.  One module per function: an edited formula breaks exactly this obligation.
-/
import CnvVerif.Generated.ExprsDesc
import CnvVerif.Lemmas.SrcDescVocab
namespace CnvVerif.C19
open CnvVerif CnvVerif.Desc CnvVerif.Generated CnvVerif.Src

set_option linter.unusedSimpArgs false
set_option linter.unusedVariables false

/-- `median_absolute_deviation`: the model is the source expression (both values of `scale_to_sd`) -/
theorem mad_is_the_source (a : List Rat) (b : Bool) : src_median_absolute_deviation a b = madCore a b := by
  unfold src_median_absolute_deviation madCore MAD_SCALE
  simp only [List.map_map]
  cases b <;> rfl


end CnvVerif.C19
