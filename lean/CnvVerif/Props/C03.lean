/-
  C03 — segments tile each chromosome and account for every surviving bin.
  Property theorems only; proofs in Lemmas/Tile.lean.

  The segmenters (haar, HMM, none) are black boxes: whatever partition `runs` of an arm's surviving
  bins into consecutive runs they return, the code around them (`_do_segmentation` filters,
  `transfer_fields` after fixes C and R — model `assembleUnit`) reports segments with the
  properties below.  The tie to the real segmenters is relational: the same clauses, as the
  decidable checker `tileSpec`, are evaluated on every real `do_segmentation` output.
-/
import CnvVerif.Model.Tile
import CnvVerif.Lemmas.Tile
import CnvVerif.Lemmas.TileFields
namespace CnvVerif.C03
open CnvVerif

/-- segments are sorted, have positive length and do not overlap -/
theorem tile_sorted_positive_disjoint (u : List Bin) (hw : WFUnit u) (runs : List Nat) :
    (∀ g ∈ assembleUnit u runs, g.s < g.e) ∧ (assembleUnit u runs).Pairwise (fun a b => a.e ≤ b.s) :=
  assembleUnit_sorted_disjoint u hw runs

/-- … stay on the arm's chromosome within the span of its input bins -/
theorem tile_within_span (u : List Bin) (hw : WFUnit u) (runs : List Nat) (first last : Bin)
    (hf : u.head? = some first) (hl : u.getLast? = some last) :
    ∀ g ∈ assembleUnit u runs, g.chrom = first.chrom ∧ first.s ≤ g.s ∧ g.e ≤ last.e :=
  assembleUnit_within u hw runs first last hf hl

/-- every bin that survived filtering lies in exactly one segment … -/
theorem tile_each_survivor_once (u : List Bin) (hw : WFUnit u) (runs : List Nat) :
    ∀ b ∈ u, b.keep = true → ((assembleUnit u runs).filter (containedIn b)).length = 1 :=
  assembleUnit_each_survivor_once u hw runs

/-- … whose `probes` equals the number of surviving bins it contains … -/
theorem probes_counts_survivors (u : List Bin) (hw : WFUnit u) (runs : List Nat) :
    ∀ g ∈ assembleUnit u runs,
      g.probes = ((u.filter (fun b => b.keep && containedIn b g)).length : Int) :=
  assembleUnit_probes_count u hw runs

/-- … so probes sum to the number of surviving bins … -/
theorem probes_sum (u : List Bin) (runs : List Nat) :
    sumI ((assembleUnit u runs).map (·.probes)) = ((u.filter (·.keep)).length : Int) :=
  assembleUnit_probes_sum u runs

/-- … and every arm with a surviving bin has a segment -/
theorem unit_with_survivor_has_segment (u : List Bin) (runs : List Nat) :
    assembleUnit u runs ≠ [] ↔ ∃ b ∈ u, b.keep = true := assembleUnit_nonempty_iff u runs

/-- the first segment of each arm starts at the arm's first input bin and the last ends at its last
    input bin even when edge bins were filtered out -/
theorem arm_endpoints_stretched (u : List Bin) (hw : WFUnit u) (runs : List Nat)
    (hs : ∃ b ∈ u, b.keep = true) :
    ((assembleUnit u runs).head?.map (·.s)) = u.head?.map (·.s) ∧
    ((assembleUnit u runs).getLast?.map (·.e)) = u.getLast?.map (·.e) :=
  assembleUnit_endpoints u hw runs hs

/-- each segment's weight is the sum, and its depth the weight-averaged depth, of ALL input bins
    it spans -/
theorem weight_is_sum_depth_is_weighted_mean (unit : List Bin) (g : SegO) :
    let sel := unit.filter (fun b => b.chrom == g.chrom && decide (b.e > g.s) && decide (b.s < g.e))
    (aggregate unit g).weight = sumQ (sel.map (·.weight)) ∧
    (0 < sumQ (sel.map (·.weight)) →
      (aggregate unit g).depth * sumQ (sel.map (·.weight)) = sumQ (sel.map (fun b => b.depth * b.weight))) ∧
    (aggregate unit g).s = g.s ∧ (aggregate unit g).e = g.e ∧ (aggregate unit g).probes = g.probes ∧
    (aggregate unit g).log2 = g.log2 := aggregate_fields unit g

theorem reported_segments_are_aggregated (u : List Bin) (runs : List Nat) :
    ∀ g ∈ assembleUnit u runs, aggregate u g = g := assembleUnit_aggregated u runs

/-- every reported segment is one run of the segmenter's partition of the survivors: `probes` counts that run and
    (methods none / HMM, where the model's mean is the reported one) log2 is the run's weighted mean; the stretch
    of the end points and the aggregation of gene / weight / depth leave both alone -/
theorem segment_log2_is_weighted_mean_of_its_survivors (u : List Bin) (runs : List Nat) :
    ∀ g ∈ assembleUnit u runs, ∃ run ∈ splitLens (u.filter (·.keep)) runs,
      run ≠ [] ∧ g.probes = (run.length : Int) ∧ g.log2 = wmeanLog2 run :=
  assembleUnit_log2_probes u runs

/-- … where the weighted mean is Σ wᵢ·log2ᵢ / Σ wᵢ whenever the run carries weight -/
theorem weighted_mean_definition (run : List Bin) (hw : 0 < sumQ (run.map (·.weight))) :
    wmeanLog2 run * sumQ (run.map (·.weight)) = sumQ (run.map (fun b => b.log2 * b.weight)) :=
  wmeanLog2_def run hw

/-- the gene field lists the distinct meaningful names of ALL input bins the segment spans, in order of first
    appearance ("-" when none is left): each such name once, nothing else -/
theorem gene_field_lists_distinct_meaningful_names (unit : List Bin) (g : SegO) :
    let sel := unit.filter (fun b => b.chrom == g.chrom && decide (b.e > g.s) && decide (b.s < g.e))
    let names := ((sel.map (·.gene)).eraseDups).filter meaningful
    (aggregate unit g).gene = (if names.isEmpty then "-" else ",".intercalate names) ∧
    names.Nodup ∧ ∀ n, n ∈ names ↔ (meaningful n = true ∧ ∃ b ∈ sel, b.gene = n) :=
  ⟨aggregate_gene unit g, aggregate_names unit g⟩

/-- `by_arm` only cuts a chromosome's rows, at most once, keeping their order -/
theorem byArm_partition {α} (rows : List α) (s e : α → Int) (minGap : Int) (minArmBins : Nat) :
    (armsOfChrom rows s e minGap minArmBins).flatten = rows ∧
    (armsOfChrom rows s e minGap minArmBins).length ≤ 2 :=
  ⟨armsOfChrom_flatten rows s e minGap minArmBins, armsOfChrom_length rows s e minGap minArmBins⟩

/-- which bins survive the deterministic filters (null coverage = log2 < −15 or depth 0) -/
theorem survive_iff (skipLow : Bool) (minWeight : Rat) (outlier : Bool) (log2 depth w : Rat) :
    surviveMask skipLow minWeight outlier log2 depth w = true ↔
      (skipLow = true → ¬ (log2 < Generated.NULL_LOG2_COVERAGE - Generated.MIN_REF_COVERAGE ∨ depth = 0)) ∧
      outlier = false ∧
      (if minWeight ≠ 0 then ¬ (w < minWeight) else w ≠ 0) := surviveMask_iff skipLow minWeight outlier log2 depth w

theorem null_coverage_cutoff : Generated.NULL_LOG2_COVERAGE - Generated.MIN_REF_COVERAGE = -15 := by
  decide +kernel

/-! non-vacuity: an arm of four bins whose first bin was filtered out, partitioned 2 + 1 -/
example :
    let u : List Bin := [ ⟨"chr1", 0, 10, "A", 0, 1, 5, false⟩, ⟨"chr1", 10, 20, "A", 1, 1, 5, true⟩,
                          ⟨"chr1", 25, 30, "B", 1, 3, 5, true⟩, ⟨"chr1", 30, 40, "-", 0, 1, 5, true⟩ ]
    (assembleUnit u [2, 1]).map (fun g => (g.s, g.e, g.probes, g.weight, g.gene, g.log2)) =
      [(0, 30, 2, 5, "A,B", 1), (30, 40, 1, 1, "-", 0)] := by decide +kernel
example : WFUnit [ ⟨"chr1", 0, 10, "A", 0, 1, 5, false⟩, ⟨"chr1", 10, 20, "A", 1, 1, 5, true⟩ ] := by
  refine ⟨?_, by decide⟩
  intro b hb; simp at hb; rcases hb with rfl | rfl <;> decide

end CnvVerif.C03
