/-
  C06: tie to the source TEXT (resize_ranges: the clip expressions, `if bp < 0`, the keep-test).
  The definitions `Generated.src_*` of Generated/ExprsInterval.lean are re-translated from /repo's Python on every run
  (harness/exprtrans.py, "pieces"; harness/extractors/exprs_interval.py names the pieces and the column expressions read
  elementwise).  These theorems state that the hand-written model functions are built from exactly those pieces.
  One module per source function so that an edit breaks exactly the obligations about that function.
-/
import CnvVerif.Props.C06
import CnvVerif.Lemmas.SrcIntervalResize
namespace CnvVerif.C06
open CnvVerif CnvVerif.Generated

/-! ### resize_ranges -/

/-- the model's `resizeTable` is the source's clip expressions `(start - bp).clip(lower=0[, upper=size])`,
    `(end + bp).clip(...)`, its `if bp < 0:` and its keep-test `end - start > 0` -/
theorem resize_is_the_source (bp : Int) (sizes : String → Option Int) (t : Table) :
    resizeTable bp sizes t =
      (let moved := t.map fun r =>
        match sizes r.chrom with
        | some hi => { r with s := src_resize_start r.s bp hi, e := src_resize_end r.e bp hi }
        | none => { r with s := src_resize_start_nosizes r.s bp, e := src_resize_end_nosizes r.e bp }
       if src_resize_drops bp = true then moved.filter (fun q => src_resize_ok_size q.s q.e) else moved) :=
  Src.resizeTable_src bp sizes t

example : src_resize_start 3 5 100 = 0 ∧ src_resize_end 98 5 100 = 100 ∧ src_resize_ok_size 5 5 = false := by decide

end CnvVerif.C06
