/-
  C16: tie to the source TEXT of cnvlib/cnary.py.  The definitions `Generated.src_by_gene_*` and
  `Generated.src_drop_low_coverage_keeps` are re-translated from /repo's Python on every run (harness/exprtrans.py,
  typed reading; harness/extractors/exprs_bygene.py); these theorems state that the hand-written model IS what they
  say.  Kept in a module of its own so that an edit to `by_gene` / `drop_low_coverage` breaks exactly these obligations.

  `src_by_gene_step ignore gene gene_idx prev_idx` is ONE ITERATION of the loop over the gene map: the
  `(label, (a, some b))` pairs it yields (`table.iloc[a:b]`) and the new `prev_idx`; `src_by_gene_tail` is the
  telomere step after the loop; `posSlice rs` turns a yielded pair into the rows it stands for.
-/
import CnvVerif.Props.C16
import CnvVerif.Lemmas.SrcByGene
namespace CnvVerif.C16
open CnvVerif CnvVerif.Genes CnvVerif.Generated

/-- the names that never form a gene are the list the source builds (`tuple(ignore) + params.ANTITARGET_ALIASES`) -/
theorem ignore_list_is_the_source (ignore : List String) : fullIgnore ignore = src_by_gene_ignore ignore := rfl

/-- **one iteration of the loop of `by_gene`**: for every gene-map entry, whatever `prev_idx` is, the model yields the
    groups the source's loop body yields -- start `gene_idx[0]`, end `gene_idx[-1] + 1`, an intergenic stretch
    `[prev_idx, start)` exactly when `prev_idx < start` -- and continues from the `prev_idx` the source sets -/
theorem by_gene_iteration_is_the_source (rs : List Bin) (ign : List String) (T : List (Nat × String))
    (prev i : Nat) (g : String) (ks : List (Nat × String)) :
    goPos rs ign T prev ((i, g) :: ks) =
      (src_by_gene_step ign g (geneIdx T g) prev).1.map (posSlice rs) ++
        goPos rs ign T (src_by_gene_step ign g (geneIdx T g) prev).2 ks :=
  goPos_cons_src rs ign T prev i g ks

/-- **after the loop**: the telomere is yielded exactly when the source's test `prev_idx < len(subgary)` holds -/
theorem by_gene_telomere_is_the_source (rs : List Bin) (ign : List String) (T : List (Nat × String)) (prev : Nat) :
    goPos rs ign T prev [] = (src_by_gene_tail rs.length prev).map (posSlice rs) :=
  goPos_nil_src rs ign T prev

/-- **`by_gene` on one chromosome is the source's loop**: the generated loop body folded over the gene map in order
    of first appearance, from the generated initial `prev_idx`, with the generated ignore list, then the generated
    telomere step -/
theorem by_gene_is_the_source_loop (ignore : List String) (rs : List Bin) :
    byGeneChrom ignore rs =
      srcLoop rs (src_by_gene_ignore ignore) (taggedFrom 0 rs) src_by_gene_init (firstByName (taggedFrom 0 rs)) :=
  byGeneChrom_eq_srcLoop ignore rs

/-- `skip_low` keeps exactly the bins the mask of `drop_low_coverage` keeps (log2 not below
    `NULL_LOG2_COVERAGE − MIN_REF_COVERAGE`, depth not 0) -/
theorem drop_low_coverage_is_the_source (b : Bin) : keptLow b = src_drop_low_coverage_keeps b.log2 b.depth :=
  keptLow_src b

/-- non-vacuity: on the demo table the generated loop reproduces the four groups -/
example : (srcLoop (demo.take 3) (src_by_gene_ignore defaultIgnore) (taggedFrom 0 (demo.take 3)) src_by_gene_init
      (firstByName (taggedFrom 0 (demo.take 3)))).map (fun p => (p.1, p.2.map (·.label))) =
    [("A", [0, 1]), ("Antitarget", [2])] := by decide

end CnvVerif.C16
