/-
  Property C11 -- a clear copy-number step is found and localised; flat profiles stay unsegmented.

  PARTIAL by nature: what is proved here is the noise-free core of `haarSeg` (cnvlib/segmentation/haar.py) in
  exact arithmetic -- the model `CnvVerif.Haar` is tied component by component to the real functions by the
  differential harness (harness/props/C11.py).  Detection under Gaussian noise after Savitzky-Golay smoothing and
  pomegranate's Baum-Welch / MAP decoding are NOT provable here; they are covered by an oracle run on the real
  code (search, not proof).

  Reading guide.  `stepSig lo hi b n` is the profile `lo` on bins `[0,b)`, `hi` on bins `[b,n)`.
  `tent h b k = max(0, h - |k-b|)`.  `SignMono rnd` = the rounding/normalisation keeps 0 and the strict order
  (`id`, i.e. real arithmetic, does).  `norm h` stands for the double `sqrt(2h)`, `p level` for the p-values
  `2*(1 - norm.cdf(..))` that `FDRThres` forms; the theorems hold for every value of these parameters.
-/
import CnvVerif.Lemmas.HaarTop
namespace CnvVerif.C11
open CnvVerif.Haar

/-! ### constants read from the source -/

/-- the level loop of `haarSeg` runs levels 1..5 with half-window `2^level` and `UnifyLevels` window `2^(level-1)` -/
theorem haar_levels_one_to_five :
    Generated.HAAR_LEVEL_TABLE = [(1, 2, 1), (2, 4, 2), (3, 8, 4), (4, 16, 8), (5, 32, 16)] := by
  decide

/-- `FDRThres`: fewer than two peaks -> threshold 0; the bump of the no-passing branch is the double `1e-16` -/
theorem fdr_guard_and_bump :
    Generated.HAAR_FDR_MIN_M = 2 ∧ Generated.HAAR_FDR_SMALL_T = 0 ∧ Generated.HAAR_FDR_EPS_dec = 1 / 10 ^ 16 ∧
      Generated.HAAR_DEFAULT_Q_dec = 1 / 10000 := by
  refine ⟨by decide, by decide +kernel, by decide +kernel, by decide +kernel⟩

/-- the three states of `hmm-germline` are loss / neutral / gain with the fixed (frozen) means -1, 0, 0.585 of the
property; the doubles Python uses differ from the decimals by less than 2^-53 -/
theorem germline_means_match_levels :
    Generated.HMM_GERMLINE_STATES = ["loss", "neutral", "gain"] ∧
    Generated.HMM_GERMLINE_MEANS_dec = [-1, 0, 585 / 1000] ∧
    Generated.HMM_GERMLINE_FROZEN = [true, true, true] ∧
    (Generated.HMM_GERMLINE_MEANS.zip Generated.HMM_GERMLINE_MEANS_dec).all
      (fun p => decide (absQ (p.1 - p.2) ≤ 1 / 2 ^ 53)) = true := by
  refine ⟨by decide, by decide +kernel, by decide, by decide +kernel⟩

/-! ### HaarConv -/

/-- the un-normalised response of `HaarConv` to a noise-free step of height `hi - lo` at `b` is the tent
`(hi - lo) * max(0, h - |k - b|)`, whenever the half-window fits on both sides (`h ≤ b`, `b + h ≤ n`) -/
theorem haarConv_ideal_step_raw (lo hi : Rat) (b n h : Nat) (h1 : 1 ≤ h) (hb : h ≤ b) (hn : b + h ≤ n) :
    haarConvRaw (stepSig lo hi b n) h = (List.range n).map (fun k => (hi - lo) * (tent h b k : Rat)) :=
  haarConvRaw_ideal_step lo hi b n h h1 hb hn

/-- ... and after the normalisation `/ sqrt(2h)` (any zero-preserving rounding) -/
theorem haarConv_ideal_step (rnd : Rat → Rat) (hr : rnd 0 = 0) (norm lo hi : Rat) (b n h : Nat)
    (h1 : 1 ≤ h) (hb : h ≤ b) (hn : b + h ≤ n) :
    haarConv rnd norm (stepSig lo hi b n) h
      = (List.range n).map (fun k => rnd ((hi - lo) * (tent h b k : Rat) / norm)) :=
  Haar.haarConv_ideal_step rnd hr norm lo hi b n h h1 hb hn

/-- a constant signal has zero response at every level -/
theorem haarConv_flat (rnd : Rat → Rat) (hr : rnd 0 = 0) (norm c : Rat) (n h : Nat) :
    haarConv rnd norm (List.replicate n c) h = List.replicate n 0 :=
  haarConv_const rnd hr norm c n h

/-! ### FindLocalPeaks -/

/-- the only peak of a (monotonically rescaled) tent of non-zero height is the step position -/
theorem peaks_of_tent (g : Rat → Rat) (hg : SignMono g) (s : Rat) (hs : s ≠ 0) (b n h : Nat)
    (h1 : 1 ≤ h) (hb : h ≤ b) (hn : b + h ≤ n) (hn2 : b + 2 ≤ n) :
    findLocalPeaks ((List.range n).map (fun k => g (s * (tent h b k : Rat)))) = [b] :=
  findLocalPeaks_tent g hg s hs b n h h1 hb hn hn2

/-- a zero response has no peak -/
theorem peaks_of_flat (n : Nat) : findLocalPeaks (List.replicate n 0) = [] := findLocalPeaks_zero n

/-- every reported index is interior and a local extremum of its sign (the first bin of a plateau) -/
theorem peaks_are_extrema (sig : List Rat) (k : Nat) (hk : k ∈ findLocalPeaks sig) :
    1 ≤ k ∧ k + 2 ≤ sig.length ∧
      ((0 < sig.getD k 0 ∧ sig.getD (k - 1) 0 < sig.getD k 0 ∧ sig.getD (k + 1) 0 ≤ sig.getD k 0) ∨
       (sig.getD k 0 < 0 ∧ sig.getD k 0 < sig.getD (k - 1) 0 ∧ sig.getD k 0 ≤ sig.getD (k + 1) 0)) :=
  findLocalPeaks_sound sig k hk

/-- every interior strict maximum of a positive value / strict minimum of a negative value is reported -/
theorem strict_extrema_are_peaks (sig : List Rat) (k : Nat) (h1 : 1 ≤ k) (h2 : k + 2 ≤ sig.length)
    (hx : (0 < sig.getD k 0 ∧ sig.getD (k - 1) 0 < sig.getD k 0 ∧ sig.getD (k + 1) 0 < sig.getD k 0) ∨
          (sig.getD k 0 < 0 ∧ sig.getD k 0 < sig.getD (k - 1) 0 ∧ sig.getD k 0 < sig.getD (k + 1) 0)) :
    k ∈ findLocalPeaks sig :=
  findLocalPeaks_complete sig k h1 h2 hx

/-! ### UnifyLevels -/

theorem unify_sorted (base addon : List Nat) (w : Nat) (h : addon ≠ []) :
    (unifyLevels base addon w).Pairwise (· ≤ ·) := unifyLevels_sorted base addon w h

theorem unify_contains_base (base addon : List Nat) (w x : Nat) (hx : x ∈ base) :
    x ∈ unifyLevels base addon w := unifyLevels_contains_base base addon w x hx

/-- add-on peaks farther than the window from every base peak are kept -/
theorem unify_keeps_far_addon (base addon : List Nat) (w a : Nat) (ha : a ∈ addon)
    (hfar : ∀ b ∈ base, a + w < b ∨ b + w < a) : a ∈ unifyLevels base addon w :=
  unifyLevels_far_addon_kept base addon w a ha hfar

/-- on increasing index lists the result is exactly the base peaks plus the add-on peaks outside every window -/
theorem unify_exact (base addon : List Nat) (w x : Nat)
    (hb : base.Pairwise (· < ·)) (ha : addon.Pairwise (· < ·)) :
    x ∈ unifyLevels base addon w ↔ x ∈ base ∨ (x ∈ addon ∧ ∀ b ∈ base, x + w < b ∨ b + w < x) :=
  unifyLevels_mem_iff base addon w x hb ha

/-- a peak found again at the next level is not duplicated -/
theorem unify_singleton (b w : Nat) : unifyLevels [] [b] w = [b] ∧ unifyLevels [b] [b] w = [b] :=
  ⟨unifyLevels_nil_base b w, unifyLevels_same b w⟩

/-! ### SegmentByPeaks -/

/-- for breakpoints strictly increasing inside `(0, n)`, every segment is filled with one value: its weighted
mean when the weights of the segment sum to something positive, else its plain mean -/
theorem segments_are_means (data : List Rat) (peaks : List Nat) (wt : Option (List Rat))
    (hp : StrictInside peaks data.length) :
    segmentByPeaks data peaks wt
      = (bounds peaks data.length).flatMap (fun se =>
          List.replicate (se.2 - se.1)
            (segValue (slice data se.1 se.2) (wt.map fun w => slice w se.1 se.2))) :=
  segmentByPeaks_eq data peaks wt hp

theorem mean_of_constant (c : Rat) (d : List Rat) (w : Option (List Rat)) (hd : d ≠ [])
    (hc : ∀ x ∈ d, x = c) (hw : ∀ ws, w = some ws → ws.length = d.length) : segValue d w = c :=
  segValue_const c d w hd hc hw

/-! ### haarSeg -/

/-- **noise-free step** (full strength): for every step `lo ≠ hi` with at least 32 bins on each side, every FDR
`q`, every p-values, every positive normalisers and every order-preserving rounding, `haarSeg` reports exactly one
breakpoint, exactly at `b`; the two segments have `b` and `n - b` bins and means `lo` and `hi` -/
theorem haarSeg_ideal_step (rnd : Rat → Rat) (hr : SignMono rnd) (norm : Nat → Rat) (hnorm : ∀ h, 0 < norm h)
    (p : Nat → List Rat) (q lo hi : Rat) (hne : lo ≠ hi) (b n : Nat) (hb : 32 ≤ b) (hn : b + 32 ≤ n) :
    haarSeg rnd norm p q (stepSig lo hi b n)
      = { start := [0, b], stop := [(b : Int) - 1, (n : Int) - 1],
          size := [(b : Int), (n : Int) - (b : Int)], mean := [lo, hi] } :=
  Haar.haarSeg_ideal_step rnd hr norm hnorm p q lo hi hne b n hb hn

/-- the property's wording on the noise-free core: levels 0 and -1, 0 and +0.585, 0 and +1 in either order, at
least 100 bins a side: exactly one breakpoint, within 5 bins of the true one (in fact at it), segment means within
0.1 of the true levels (in fact equal) -/
theorem clear_step_found_and_localised (rnd : Rat → Rat) (hr : SignMono rnd) (norm : Nat → Rat)
    (hnorm : ∀ h, 0 < norm h) (p : Nat → List Rat) (q lo hi : Rat)
    (hlv : (lo, hi) ∈ [((0 : Rat), (-1 : Rat)), (-1, 0), (0, 585 / 1000), (585 / 1000, 0), (0, 1), (1, 0)])
    (b n : Nat) (hb : 100 ≤ b) (hn : 100 ≤ n - b) :
    ∃ bp m1 m2, (haarSeg rnd norm p q (stepSig lo hi b n)).start = [0, bp] ∧
      (haarSeg rnd norm p q (stepSig lo hi b n)).mean = [m1, m2] ∧
      ((bp : Int) - (b : Int)).natAbs ≤ 5 ∧ absQ (m1 - lo) ≤ 1 / 10 ∧ absQ (m2 - hi) ≤ 1 / 10 := by
  have hne : lo ≠ hi := by
    simp only [List.mem_cons, Prod.mk.injEq, List.mem_nil_iff, or_false] at hlv
    rcases hlv with ⟨rfl, rfl⟩ | ⟨rfl, rfl⟩ | ⟨rfl, rfl⟩ | ⟨rfl, rfl⟩ | ⟨rfl, rfl⟩ | ⟨rfl, rfl⟩ <;> norm_num
  rw [Haar.haarSeg_ideal_step rnd hr norm hnorm p q lo hi hne b n (by omega) (by omega)]
  refine ⟨b, lo, hi, rfl, rfl, by simp, ?_, ?_⟩ <;> simp [absQ]

/-- **flat profile**: a constant signal of at least one bin yields exactly one segment, with the constant as mean -/
theorem haarSeg_flat (rnd : Rat → Rat) (hr : rnd 0 = 0) (norm : Nat → Rat) (p : Nat → List Rat) (q c : Rat)
    (n : Nat) (hn : 1 ≤ n) :
    haarSeg rnd norm p q (List.replicate n c)
      = { start := [0], stop := [(n : Int) - 1], size := [(n : Int)], mean := [c] } :=
  Haar.haarSeg_flat rnd hr norm p q c n hn

/-- the same step conclusion for ANY per-level convolution (in particular the weighted `HaarConv`) whose only
peak is `b` at every level, with any bin weights: what is missing for a weighted `haarSeg_ideal_step` is only
"the weighted response of a step has its single peak at b" -- which the float code does not even satisfy
(rounding noise of the quotients creates spurious tiny peaks; see the report) -/
theorem haarSeg_single_peak_any_conv (conv : Nat → Nat → List Rat) (thr : Nat → List Rat → Rat)
    (table : List (Nat × Nat × Nat)) (hne : table ≠ [])
    (hthr : ∀ lv x, x.length < 2 → thr lv x = 0) (lo hi : Rat) (b n : Nat) (hb : 1 ≤ b) (hn : b < n)
    (hpk : ∀ row ∈ table, findLocalPeaks (conv row.1 row.2.1) = [b])
    (wt : Option (List Rat)) (hw : ∀ ws, wt = some ws → ws.length = n) :
    haarSegWith conv thr table (stepSig lo hi b n) wt
      = { start := [0, b], stop := [(b : Int) - 1, (n : Int) - 1],
          size := [(b : Int), (n : Int) - (b : Int)], mean := [lo, hi] } :=
  haarSegWith_single_peak conv thr table hne hthr lo hi b n hb hn hpk wt hw

/-! ### non-vacuity: concrete inputs meet the hypotheses, and the model really computes these answers -/

/-- real arithmetic (`id`) is an order-preserving rounding -/
example : SignMono id := ⟨rfl, fun _ _ h => h⟩

/-- a one-copy loss with 100 bins a side, exact arithmetic, normalisers 1: hypotheses of `haarSeg_ideal_step` hold -/
example : (haarSeg id (fun _ => 1) (fun _ => []) (1 / 10000) (stepSig 0 (-1) 100 200)).start = [0, 100] := by
  rw [haarSeg_ideal_step id ⟨rfl, fun _ _ h => h⟩ (fun _ => 1) (fun _ => by norm_num) _ _ 0 (-1) (by norm_num) 100 200
    (by norm_num) (by norm_num)]

/-- the model evaluated by the kernel on the smallest admissible step (32 + 32 bins, gain 0.585) -/
example : haarSeg id (fun _ => 1) (fun _ => []) (1 / 10000) (stepSig 0 (585 / 1000) 32 64)
    = { start := [0, 32], stop := [31, 63], size := [32, 32], mean := [0, 585 / 1000] } := by
  decide +kernel

/-- one bin too few on the left (b = 31): the widest level no longer sees a clean tent; the theorem's bound is
what the proof needs, the model still finds the step here -/
example : (haarSeg id (fun _ => 1) (fun _ => []) (1 / 10000) (stepSig 0 1 31 64)).start = [0, 31] := by
  decide +kernel

/-- the plateau logic of `FindLocalPeaks`: first bin of a flat top is reported, a shoulder is not -/
example : findLocalPeaks [0, 1, 1, 0, 2, 2, 3, 0, -1, -1, 0] = [1, 6, 8] := by decide +kernel

example : unifyLevels [10, 30] [7, 8, 12, 13, 20, 33] 2 = [7, 10, 13, 20, 30, 33] := by decide +kernel

example : segmentByPeaks [1, 3, 5, 7] [2] (some [1, 3, 0, 0]) = [5 / 2, 5 / 2, 6, 6] := by decide +kernel

end CnvVerif.C11
