/-
  C13 — access lists exactly the non-N runs of the genome, joined and excluded as asked.
  Property theorems only; helper lemmas live in Lemmas/Access.lean.

  Vocabulary.  A sequence is a `List Char`; `lines : List (List Char)` is ANY splitting of it into
  lines (any widths, ragged, blank lines included), so `lines.flatten` is the sequence.
  `IsMaxRun f n s e`: `[s, e)` is a maximal run of positions satisfying `f` inside `[0, n)`.
  `nonN w i`: position `i` of `w` holds a character other than 'N' (lowercase 'n' is not a mask
  character, in the code as in the property's wording).
  `Accessible w excl p`: base `p` is not 'N' and lies in no region of any exclude file.
  `InSmallGap acc g p`: `p` lies in a stretch of inaccessible bases shorter than `g` that has an
  accessible base on either side — a gap that was deliberately bridged.
  One exclude file = its rows on this chromosome sorted by start (what `tabio.read` returns),
  positive length; rows may overlap, nest, repeat, touch.
-/
import CnvVerif.Model.Access
import CnvVerif.Lemmas.Access
namespace CnvVerif.C13
open CnvVerif

/-! ### the scanner -/

/-- for ANY splitting of a sequence into lines the scanner state machine of `get_regions`
    (blank line, all-N shortcut, mixed line via `n_indices`, N-free line) emits exactly the
    position-level maximal non-'N' runs of the concatenation -/
theorem scan_eq_maximal_runs (lines : List (List Char)) : scanSeq lines = maxRuns lines.flatten :=
  scanSeq_eq_maxRuns lines

/-- "exactly the maximal runs of characters other than 'N' (0-based half-open)" -/
theorem scan_reports_exactly_maximal_runs (lines : List (List Char)) (s e : Nat) :
    (s, e) ∈ scanSeq lines ↔ IsMaxRun (nonN lines.flatten) lines.flatten.length s e := by
  rw [scanSeq_eq_maxRuns]; exact mem_maxRuns_iff _ s e

/-- the runs of a sequence come out non-empty, sorted and separated by at least one 'N' -/
theorem scan_sorted_separated (lines : List (List Char)) :
    (∀ r ∈ scanSeq lines, r.1 < r.2) ∧ (scanSeq lines).Pairwise (fun a b => a.2 < b.1) := by
  rw [scanSeq_eq_maxRuns]; exact accRuns_canon _ _

/-- the file loop: header lines switch sequences, and each sequence is reported by its own scan -/
theorem file_scan_per_sequence (recs : List (String × List (List Char))) :
    getRegions (renderRecords recs) =
      .ok (recs.flatMap (fun r => (maxRuns r.2.flatten).map (fun x => (r.1, x.1, x.2)))) :=
  getRegions_records recs

/-! ### exclusion and joining -/

/-- one exclude file removes exactly its bases and leaves the regions non-empty, sorted, separated -/
theorem exclude_removes_exactly (t b : List Row) (hc : Canon t) (hs : StartSorted b)
    (hp : ∀ r ∈ b, r.s < r.e) :
    Canon (subtractChrom t b) ∧ ∀ p, cov (subtractChrom t b) p ↔ cov t p ∧ ¬ cov b p :=
  subtractChrom_spec t b hc hs hp

/-- `join_regions`: neighbours whose gap is `< minGap` are joined, the others kept; the result is
    non-empty, sorted, and every remaining gap is at least `max 1 minGap` wide -/
theorem join_spec (minGap : Int) (l : List Row) (hc : Canon l) :
    (∀ r ∈ joinChrom minGap l, r.s < r.e) ∧
    (joinChrom minGap l).Pairwise (fun a b => a.e + max 1 minGap ≤ b.s) ∧
    ∀ p, cov (joinChrom minGap l) p ↔ cov l p ∨ bridgedL minGap l p :=
  ⟨(joinChrom_canon minGap l hc).1, (joinChrom_canon minGap l hc).2, joinChrom_cov minGap l hc⟩

/-- the `assert gap > 0` inside `join_regions` cannot fire on such a table -/
theorem join_assert_never_fires (l : List Row) (hc : Canon l) : gapsPositive l = true :=
  gapsPositive_of_canon l hc

/-! ### the whole pipeline on one sequence -/

/-- every reported region is non-empty -/
theorem access_regions_nonempty (name : String) (lines : List (List Char)) (excl : List (List Row))
    (minGap : Int) (hex : ∀ b ∈ excl, StartSorted b ∧ ∀ r ∈ b, r.s < r.e) :
    ∀ r ∈ accessChrom name lines excl minGap, r.s < r.e :=
  (accessChrom_spec name lines excl minGap hex).1

/-- regions of a sequence are sorted and separated by at least one base (in fact by at least
    `minGap` bases) -/
theorem access_sorted_separated (name : String) (lines : List (List Char)) (excl : List (List Row))
    (minGap : Int) (hex : ∀ b ∈ excl, StartSorted b ∧ ∀ r ∈ b, r.s < r.e) :
    (accessChrom name lines excl minGap).Pairwise (fun a b => a.e + max 1 minGap ≤ b.s) :=
  (accessChrom_spec name lines excl minGap hex).2.1

/-- exactly: a base is reported iff it is accessible or lies in a bridged gap -/
theorem access_exact (name : String) (lines : List (List Char)) (excl : List (List Row))
    (minGap : Int) (hex : ∀ b ∈ excl, StartSorted b ∧ ∀ r ∈ b, r.s < r.e) (p : Int) :
    cov (accessChrom name lines excl minGap) p ↔
      Accessible lines.flatten excl p ∨ InSmallGap (Accessible lines.flatten excl) minGap p :=
  (accessChrom_spec name lines excl minGap hex).2.2 p

/-- no reported base is an N or excluded unless it lies in a gap that was deliberately bridged -/
theorem no_N_or_excluded_unless_bridged (name : String) (lines : List (List Char))
    (excl : List (List Row)) (minGap : Int)
    (hex : ∀ b ∈ excl, StartSorted b ∧ ∀ r ∈ b, r.s < r.e) (p : Int)
    (hrep : cov (accessChrom name lines excl minGap) p)
    (hbad : ¬ NonNAt lines.flatten p ∨ ∃ b ∈ excl, cov b p) :
    InSmallGap (Accessible lines.flatten excl) minGap p := by
  rcases (access_exact name lines excl minGap hex p).mp hrep with h | h
  · rcases hbad with hb | ⟨b, hb, hc⟩
    · exact absurd h.1 hb
    · exact absurd hc (h.2 b hb)
  · exact h

/-- larger gaps are left alone: a stretch of at least `minGap` inaccessible bases is never reported -/
theorem large_gaps_kept (name : String) (lines : List (List Char)) (excl : List (List Row))
    (minGap : Int) (hex : ∀ b ∈ excl, StartSorted b ∧ ∀ r ∈ b, r.s < r.e) (g1 g2 p : Int)
    (hgap : ∀ q, g1 ≤ q → q < g2 → ¬ Accessible lines.flatten excl q) (hsize : minGap ≤ g2 - g1)
    (h1 : g1 ≤ p) (h2 : p < g2) : ¬ cov (accessChrom name lines excl minGap) p := by
  rw [access_exact name lines excl minGap hex p]
  exact large_gap_kept _ minGap g1 g2 p hgap hsize h1 h2

/-! ### the contig-name rule -/

/-- sequences the rule deems non-canonical are dropped exactly when the option is on -/
theorem noncanonical_dropped_iff (skip : Bool) (regs : List Region) (r : Region) :
    r ∈ keepRegions skip regs ↔ r ∈ regs ∧ (skip = true → isCanonicalName r.1 = true) := by
  unfold keepRegions
  cases skip <;> simp [List.mem_filter]

/-- the rule as read from `cnvlib/antitarget.py` (Generated.NONCANONICAL_RULE), in words: EBV,
    NC_ accessions, `_random`, `Un_`, `HLA-`, `_alt`, `hap<digit>`, and mitochondrial `chrM` / `MT` -/
theorem noncanonical_rule (name : String) :
    isCanonicalName name = false ↔
      name.toList = "chrEBV".toList ∨ "NC".toList <+: name.toList ∨ "_random".toList <:+ name.toList ∨
      "Un_".toList <:+: name.toList ∨ "HLA-".toList <+: name.toList ∨ "_alt".toList <:+ name.toList ∨
      (∃ d, d.isDigit = true ∧ ("hap".toList ++ [d]) <:+ name.toList) ∨
      "chrM".toList <:+: name.toList ∨ "MT".toList <:+: name.toList := by
  unfold isCanonicalName
  rw [← noncanonical_iff name.toList]
  simp

/-! ### non-vacuity: concrete inputs, evaluated by the kernel -/

example : scanSeq ["ACN".toList, "NG".toList, [], "TNA".toList] = [(0, 2), (4, 6), (7, 8)] := by decide
example : maxRuns "ACNNGTNA".toList = [(0, 2), (4, 6), (7, 8)] := by decide
example : IsMaxRun (nonN "ACNNGTNA".toList) 8 4 6 := by
  refine ⟨by decide, by decide, ?_, Or.inr (by decide), Or.inr (by decide)⟩
  intro i h1 h2
  have : i = 4 ∨ i = 5 := by omega
  rcases this with rfl | rfl <;> decide
/-- exclude rows that overlap and nest satisfy the hypotheses; the pipeline output is as expected -/
example : StartSorted [(⟨"chr1", 1, 2, ""⟩ : Row), ⟨"chr1", 1, 3, ""⟩] ∧
    ∀ r ∈ [(⟨"chr1", 1, 2, ""⟩ : Row), ⟨"chr1", 1, 3, ""⟩], r.s < r.e := by
  refine ⟨by decide, ?_⟩
  intro r hr
  simp at hr
  rcases hr with rfl | rfl <;> decide
example : (accessChrom "chr1" ["AAAANN".toList, "AAANA".toList]
      [[⟨"chr1", 1, 2, ""⟩, ⟨"chr1", 1, 3, ""⟩]] 2).map (fun r => (r.s, r.e)) = [(0, 1), (3, 4), (6, 11)] := by
  decide
example : isCanonicalName "chr1" = true ∧ isCanonicalName "chrX" = true ∧ isCanonicalName "22" = true ∧
    isCanonicalName "chr1_KI270706v1_random" = false ∧ isCanonicalName "chrUn_GL000195v1" = false ∧
    isCanonicalName "chr6_GL000250v2_alt" = false ∧ isCanonicalName "HLA-A*01:01:01:01" = false ∧
    isCanonicalName "chrEBV" = false ∧ isCanonicalName "chrM" = false ∧ isCanonicalName "MT" = false := by
  decide

end CnvVerif.C13
