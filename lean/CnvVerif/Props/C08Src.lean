/-
  C08 (round 4) — source tie for the two small string functions behind "natural chromosome order" and the
  `chr:start-end` text writer.  `Generated/ExprsChromsort.lean` is re-read from the text of
  `skgenome/chromsort.py: sorter_chrom` and `skgenome/rangelabel.py: to_label` on every run
  (harness/extractors/exprs_chromsort.py; primitives in Model/PyStr.lean).  The theorems say that the hand-written
  model functions — the ones every sorting / text theorem of C08 is about — ARE the functions written in the source.
-/
import CnvVerif.Basic
import CnvVerif.Model.Formats
import CnvVerif.Generated.ExprsChromsort
import CnvVerif.Lemmas.FormatsKey
namespace CnvVerif.C08
open CnvVerif CnvVerif.Fmt CnvVerif.Generated CnvVerif.PyStr

private theorem pyInt_empty (s : String) (h : s.isEmpty = true) : s.toNat?.getD 0 = 0 := by
  have : s = "" := by simpa using h
  subst this
  have := toNat_digits "" (by simp)
  rw [this]; rfl

/-- the sort key of the model is the `sorter_chrom` of the source: prefix test, X/Y, digit run, rank by the length
    of what follows — for every label -/
theorem sorterChrom_is_source (label : String) : sorterChrom label = src_sorter_chrom label := by
  unfold sorterChrom src_sorter_chrom
  simp only [pyStartsWith, pyLower, pySliceFrom, pyLeadingDigits, pyLen, pyInt, pyTruthy, cond_eq_ite]
  generalize (if label.toLower.startsWith "chr" = true then (label.drop 3).toString else label) = chrom
  by_cases hxy : (chrom == "X" || chrom == "Y") = true
  · simp only [hxy, if_true]
  · simp only [hxy, Bool.false_eq_true, if_false]
    generalize (chrom.takeWhile Char.isDigit).toString = nums
    generalize (chrom.drop nums.length).toString = chars
    by_cases hn : nums.isEmpty = true
    · simp only [hn, Bool.not_true, Bool.false_eq_true, if_false, pyInt_empty _ hn, Bool.not_not]
    · simp only [hn, Bool.not_false, if_true, Bool.not_not]

/-- the label the model's text writer prints is the f-string of `to_label` -/
theorem toLabel_is_source (chrom : String) (s e : Int) : toLabel chrom s e = src_to_label chrom s e := by
  unfold toLabel src_to_label
  simp only [WRITE_SHIFT_to_label]

/-- hence the order proved about the model key is the order of the source function: 1 < 2 < 10 < … < X < Y < M < MT,
    numbers by value, with or without the chr prefix -/
theorem source_natural_chromosome_order (n m : Nat) (hnm : n < m) (hm : m < 1000) (p : String) (hp : p = "" ∨ p = "chr") :
    chromKeyLt (src_sorter_chrom (p ++ toString n)) (src_sorter_chrom (p ++ toString m)) = true ∧
    chromKeyLt (src_sorter_chrom (p ++ toString m)) (src_sorter_chrom (p ++ "X")) = true ∧
    chromKeyLt (src_sorter_chrom (p ++ "X")) (src_sorter_chrom (p ++ "Y")) = true ∧
    chromKeyLt (src_sorter_chrom (p ++ "Y")) (src_sorter_chrom (p ++ "M")) = true ∧
    chromKeyLt (src_sorter_chrom (p ++ "M")) (src_sorter_chrom (p ++ "MT")) = true := by
  simp only [← sorterChrom_is_source]
  exact natural_order n m hnm hm p hp

end CnvVerif.C08
