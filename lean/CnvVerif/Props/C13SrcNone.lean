/-
  C13: `get_regions` tied to the source TEXT from the state the source itself initialises.
  `Generated.src_get_regions_none_step` / `_final` (Generated/ExprsAccessNone.lean) are re-translated on every run from
  the body of `cnvlib/access.py:get_regions`, read in the state `chrom = cursor = run_start = None` that the statement
  before the loop sets, with `None + int` -> `TypeError` (harness/looptrans_none.py, reading rules at its top; the
  definitions exist only if that statement gives all three variables `None`).
  `C13N.c13nLoop ls`: that step while the state is `None`, then `Generated.src_get_regions_step` / `_final`
  (Props/C13Src.lean) from the state the first header leaves.  `C13N.c13nRegions` = the same with names as `String`s.
  New here: no "the file starts with a header" hypothesis, and the model's explicit `throw "TypeError"` is derived from
  the source instead of assumed.
-/
import CnvVerif.Props.C13Src
import CnvVerif.Lemmas.SrcAccessNone
namespace CnvVerif.C13
open CnvVerif CnvVerif.Generated

/-- a line that is no header and is empty after `rstrip()` -/
def c13nBlank (l : List Char) : Prop := l.head? ≠ some '>' ∧ (rstripChars l).isEmpty = true

/-- **the whole scanner, every file**: for EVERY list of raw lines (also one that does not start with a header) the
    model `getRegions` on the parsed lines is the source's loop run from `chrom = cursor = run_start = None` --
    equal values when it returns, equal error when it raises -/
theorem get_regions_is_the_source_from_none (ls : List (List Char)) :
    getRegions (ls.map parseLine) = C13N.c13nRegions ls :=
  SrcNone.getRegions_is_source_none ls

/-- in the `None` state a header line yields nothing and leaves the state `(name, 0, None)` -/
theorem get_regions_none_header (rest : List Char) :
    src_get_regions_none_step ('>' :: rest) =
      .ok ([], (some (rest.takeWhile (fun ch => !isPySpace ch)), some 0, none)) :=
  SrcNone.none_step_header rest

/-- in the `None` state a non-header line is skipped when blank and raises `TypeError` otherwise -- whatever its
    content (all-N, mixed with leading N, mixed with leading base, N-free) -/
theorem get_regions_none_body (l : List Char) (h : l.head? ≠ some '>') :
    src_get_regions_none_step l =
      if (rstripChars l).isEmpty = true then .ok ([], (none, none, none)) else .error "TypeError" :=
  SrcNone.none_step_body l h

/-- the `None`-state step only ever raises, stays all-`None`, or leaves to `(some name, some 0, none)`: the
    "partly-None state" arm of `c13nLoop` is dead code -/
theorem get_regions_none_states (l : List Char) :
    src_get_regions_none_step l = .error "TypeError" ∨
    src_get_regions_none_step l = .ok ([], (none, none, none)) ∨
    ∃ c, src_get_regions_none_step l = .ok ([], (some c, some 0, none)) :=
  SrcNone.none_step_states l

/-- blank lines before the first header are invisible to the source's loop -/
theorem get_regions_skips_leading_blanks (pre ls : List (List Char)) (hpre : ∀ p ∈ pre, c13nBlank p) :
    C13N.c13nLoop (pre ++ ls) = C13N.c13nLoop ls := by
  induction pre with
  | nil => rfl
  | cons p pre ih =>
    have hp := hpre p (by simp)
    have := ih (fun q hq => hpre q (by simp [hq]))
    simp only [List.cons_append, C13N.c13nLoop, SrcNone.none_step_body p hp.1, hp.2, if_true, this]
    cases C13N.c13nLoop ls <;> simp

/-- **TypeError before the first header**: if, after any number of blank lines, a non-blank sequence line comes before
    any header, the source's loop raises `TypeError` -- whatever follows -/
theorem get_regions_typeerror_before_first_header (pre : List (List Char)) (l : List Char)
    (rest : List (List Char)) (hpre : ∀ p ∈ pre, c13nBlank p)
    (hl : l.head? ≠ some '>') (hne : (rstripChars l).isEmpty = false) :
    C13N.c13nLoop (pre ++ l :: rest) = .error "TypeError" := by
  rw [get_regions_skips_leading_blanks pre _ hpre]
  simp only [C13N.c13nLoop, SrcNone.none_step_body l hl, hne, Bool.false_eq_true, if_false]

/-- the same for the model (through the tie): `getRegions` raises exactly that error on such a file -/
theorem get_regions_model_typeerror_before_first_header (pre : List (List Char)) (l : List Char)
    (rest : List (List Char)) (hpre : ∀ p ∈ pre, c13nBlank p)
    (hl : l.head? ≠ some '>') (hne : (rstripChars l).isEmpty = false) :
    getRegions ((pre ++ l :: rest).map parseLine) = .error "TypeError" := by
  rw [get_regions_is_the_source_from_none, C13N.c13nRegions,
    get_regions_typeerror_before_first_header pre l rest hpre hl hne]

/-- a file whose first non-blank line is a header: the result is the ordinary loop from `(name, 0, None)` -/
theorem get_regions_after_first_header (pre : List (List Char)) (name : List Char) (ls : List (List Char))
    (hpre : ∀ p ∈ pre, c13nBlank p) :
    C13N.c13nLoop (pre ++ ('>' :: name) :: ls) =
      .ok (Py.genLoop C13N.stepFn C13N.finalFn (name.takeWhile (fun ch => !isPySpace ch), 0, none) ls) := by
  rw [get_regions_skips_leading_blanks pre _ hpre]
  simp only [C13N.c13nLoop, SrcNone.none_step_header, List.nil_append]

/-! ### non-vacuity: the generated definitions run by the kernel -/

example : C13N.c13nRegions ["\n".toList, " \r\n".toList, ">c1 x\n".toList, "ACN\n".toList, "NG\n".toList] =
    .ok [("c1", 0, 2), ("c1", 4, 5)] := by rfl

example : C13N.c13nRegions ["\n".toList, "ACGT\n".toList, ">c1\n".toList, "AC\n".toList] = .error "TypeError" := by rfl

example : C13N.c13nRegions ["NNNN\n".toList, ">c1\n".toList] = .error "TypeError" := by rfl
example : C13N.c13nRegions ["NACN\n".toList] = .error "TypeError" := by rfl
example : C13N.c13nRegions [] = .ok [] := by rfl
example : C13N.c13nRegions ["\n".toList] = .ok [] := by rfl

example : c13nBlank " \r\n".toList := by unfold c13nBlank; decide
example : ("ACGT\n".toList).head? ≠ some '>' ∧ (rstripChars "ACGT\n".toList).isEmpty = false := by decide

end CnvVerif.C13
