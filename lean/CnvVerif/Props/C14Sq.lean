/-
  C14 (round 5): what the merged row holds in EVERY column `squash_region` writes (Model/SegFilterExt5.lean), for
  all runs of rows and all column sets: the span, the distinct gene names in order, the weight-averaged depth / baf,
  the largest p_bintest, cn2 = cn - cn1, the row count for a table without probes.
-/
import CnvVerif.Lemmas.SegFilterExt5
namespace CnvVerif.C14
open CnvVerif CnvVerif.C14Sq

/-- the merged row starts where the run's first row starts, ends where its last row ends, on the first row's chromosome -/
theorem merged_row_spans_first_start_to_last_end (cols : List String) (a : XRow) (rest : List XRow) :
    cellOf "start" (squashRowX cols (a :: rest)) = some (.num (a.s : Rat)) ∧
    cellOf "end" (squashRowX cols (a :: rest)) = some (.num (((a :: rest).getLast (by simp)).e : Rat)) ∧
    cellOf "chromosome" (squashRowX cols (a :: rest)) = some (.str a.chrom) := by
  refine ⟨?_, ?_, ?_⟩ <;>
    simp [cellOf, squashRowX, squashCols, redsOf, numCol, strCol, List.find?, List.getLast?_eq_some_getLast]

/-- the merged gene cell joins the run's DISTINCT gene names, each once, in the order of their first appearance -/
theorem merged_gene_is_the_distinct_names_in_order (cols : List String) (rows : List XRow) :
    ∃ l : List String, cellOf "gene" (squashRowX cols rows) = some (.str (",".intercalate l)) ∧
      l.Nodup ∧ l.Sublist (rows.map (·.gene)) ∧ ∀ g, g ∈ l ↔ ∃ r ∈ rows, r.gene = g := by
  refine ⟨(rows.map (·.gene)).eraseDups, ?_, rx_nodup_eraseDups _, rx_eraseDups_sublist _, ?_⟩
  · simp [cellOf, squashRowX, squashCols, redsOf, strCol, List.find?]
    rfl
  · intro g
    rw [List.mem_eraseDups, List.mem_map]

/-- with weight in the run, depth times the total weight is the sum of depth times weight: the weight-averaged depth -/
theorem merged_depth_is_the_weighted_mean (cols : List String) (rows : List XRow)
    (hd : cols.contains "depth" = true) (hw : sumRat (rows.map (·.weight)) > 0) :
    ∃ d : Rat, cellOf "depth" (squashRowX cols rows) = some (.num d) ∧
      d * sumRat (rows.map (·.weight)) = sumRat (rows.map (fun r => r.depth * r.weight)) := by
  have hne : sumRat (rows.map (·.weight)) ≠ 0 := ne_of_gt hw
  refine ⟨sumRat (rows.map (fun r => r.depth * r.weight)) / sumRat (rows.map (·.weight)), ?_, ?_⟩
  · rw [sq_cell_depth cols rows hd, sq_wmean_pos cols rows "depth" hw, sq_numCol_depth]
  · field_simp

/-- the same for the B-allele frequency -/
theorem merged_baf_is_the_weighted_mean (cols : List String) (rows : List XRow)
    (hd : cols.contains "baf" = true) (hw : sumRat (rows.map (·.weight)) > 0) :
    ∃ d : Rat, cellOf "baf" (squashRowX cols rows) = some (.num d) ∧
      d * sumRat (rows.map (·.weight)) = sumRat (rows.map (fun r => r.baf * r.weight)) := by
  have hne : sumRat (rows.map (·.weight)) ≠ 0 := ne_of_gt hw
  refine ⟨sumRat (rows.map (fun r => r.baf * r.weight)) / sumRat (rows.map (·.weight)), ?_, ?_⟩
  · rw [sq_cell_baf cols rows hd, sq_wmean_pos cols rows "baf" hw, sq_numCol_baf]
  · field_simp

/-- a run without weight: the plain mean of the depths -/
theorem merged_depth_without_weight_is_the_mean (cols : List String) (rows : List XRow)
    (hd : cols.contains "depth" = true) (hw : ¬ sumRat (rows.map (·.weight)) > 0) :
    cellOf "depth" (squashRowX cols rows) =
      some (.num (sumRat (rows.map (·.depth)) / (rows.length : Rat))) := by
  rw [sq_cell_depth cols rows hd, sq_wmean_nonpos cols rows "depth" hw, sq_numCol_depth]

/-- p_bintest of the merged row is the LARGEST of the run: no member exceeds it and some member has it -/
theorem merged_pbintest_is_the_largest (cols : List String) (rows : List XRow) (hne : rows ≠ [])
    (hp : cols.contains "p_bintest" = true) :
    ∃ m : Rat, cellOf "p_bintest" (squashRowX cols rows) = some (.num m) ∧
      (∀ r ∈ rows, r.pb ≤ m) ∧ ∃ r ∈ rows, r.pb = m := by
  have hne' : rows.map (·.pb) ≠ [] := by simpa using hne
  obtain ⟨hub, hmem⟩ := sq_maxL_spec (rows.map (·.pb)) hne'
  refine ⟨maxL (rows.map (·.pb)), ?_, ?_, ?_⟩
  · rw [sq_cell_pb cols rows hp]
    simp only [redsOf, sq_numCol_pb]
  · intro r hr
    exact hub _ (List.mem_map_of_mem hr)
  · obtain ⟨r, hr, e⟩ := List.mem_map.mp hmem
    exact ⟨r, hr, e⟩

/-- allele-specific copy numbers of the merged row add up: cn2 = cn - cn1 -/
theorem merged_cn2_is_cn_minus_cn1 (cols : List String) (rows : List XRow)
    (h : cols.contains "cn" = true) (h1 : cols.contains "cn1" = true) :
    ∃ a b : Rat, cellOf "cn" (squashRowX cols rows) = some (.num a) ∧
      cellOf "cn1" (squashRowX cols rows) = some (.num b) ∧
      cellOf "cn2" (squashRowX cols rows) = some (.num (a - b)) := by
  have h' : (redsOf cols rows).has "cn" = true := h
  have h1' : (redsOf cols rows).has "cn1" = true := h1
  refine ⟨wmedCell (redsOf cols rows) "cn", wmedCell (redsOf cols rows) "cn1", ?_, ?_, ?_⟩ <;>
    (cases (redsOf cols rows).has "depth" <;> cases (redsOf cols rows).has "baf" <;>
      simp [cellOf, squashRowX, squashCols, List.find?, h', h1'])

/-- the optional columns exist in the merged row exactly when the table has them (cn1 / cn2 only next to cn) -/
theorem merged_optional_columns (cols : List String) (rows : List XRow) :
    ((cellOf "depth" (squashRowX cols rows)).isSome = cols.contains "depth") ∧
    ((cellOf "baf" (squashRowX cols rows)).isSome = cols.contains "baf") ∧
    ((cellOf "p_bintest" (squashRowX cols rows)).isSome = cols.contains "p_bintest") ∧
    ((cellOf "cn2" (squashRowX cols rows)).isSome = (cols.contains "cn" && cols.contains "cn1")) := by
  refine ⟨?_, ?_, ?_, ?_⟩ <;>
    (simp only [cellOf, squashRowX, squashCols, redsOf, List.find?]
     cases cols.contains "depth" <;> cases cols.contains "baf" <;> cases cols.contains "p_bintest" <;>
       cases cols.contains "cn" <;> cases cols.contains "cn1" <;> simp)

/-- a table without a probes column: each row counts as one probe -/
theorem merged_probes_counts_rows_without_column (cols : List String) (rows : List XRow)
    (h : cols.contains "probes" = false) :
    cellOf "probes" (squashRowX cols rows) = some (.num (rows.length : Rat)) := by
  have h' : (redsOf cols rows).has "probes" = false := h
  have hl : (redsOf cols rows).len = (rows.length : Rat) := rfl
  simp [cellOf, squashRowX, squashCols, List.find?, h', hl]

/-- on the columns the round-1 model `squashRegion` has, the merged row of this module IS that model's row: the
    theorems of Props/C14.lean / C14Ext.lean about `squashRegion` speak about the same cells -/
theorem merged_row_extends_squashRegion (cols : List String) (h : Bool) (a : XRow) (rest : List XRow)
    (hp : cols.contains "probes" = true) :
    ∃ sg : Seg, squashRegion ((a :: rest).map (toSeg h)) = some sg ∧
      cellOf "chromosome" (squashRowX cols (a :: rest)) = some (.str sg.chrom) ∧
      cellOf "start" (squashRowX cols (a :: rest)) = some (.num (sg.s : Rat)) ∧
      cellOf "end" (squashRowX cols (a :: rest)) = some (.num (sg.e : Rat)) ∧
      cellOf "log2" (squashRowX cols (a :: rest)) = some (.num sg.log2) ∧
      cellOf "gene" (squashRowX cols (a :: rest)) = some (.str sg.gene) ∧
      cellOf "probes" (squashRowX cols (a :: rest)) = some (.num (sg.probes : Rat)) ∧
      cellOf "weight" (squashRowX cols (a :: rest)) = some (.num sg.weight) := by
  have hp' : (redsOf cols (a :: rest)).has "probes" = true := hp
  refine ⟨_, rfl, ?_, ?_, ?_, ?_, ?_, ?_, ?_⟩
  · simp [cellOf, squashRowX, squashCols, List.find?, redsOf, sq_strCol_chrom, toSeg]
  · simp [cellOf, squashRowX, squashCols, List.find?, redsOf, sq_numCol_start, toSeg]
  · simp [cellOf, squashRowX, squashCols, List.find?, redsOf, sq_numCol_end, toSeg, List.getLast?_map,
      List.getLast?_eq_some_getLast]
    have hl := sq_getLast_e h (a :: rest) (by simp)
    simpa [toSeg] using hl.symm
  · simp [cellOf, squashRowX, squashCols, List.find?, wmeanCell, redsOf, sq_numCol_log2, sq_numCol_weight, toSeg,
      List.map_map, Function.comp_def]
  · simp [cellOf, squashRowX, squashCols, List.find?, redsOf, sq_strCol_gene, toSeg, joinStrings, List.map_map, Function.comp_def]
  · simp [cellOf, squashRowX, squashCols, List.find?, hp', toSeg, List.map_map, Function.comp_def]
    show sumRat ((a :: rest).map (numCol "probes")) = _
    rw [sq_numCol_probes, sq_cast_sumInt]
    simp [List.map_map, Function.comp_def]
  · simp [cellOf, squashRowX, squashCols, List.find?, redsOf, sq_numCol_weight, toSeg, List.map_map, Function.comp_def]

/-- non-vacuity: two rows with a shared gene name, unequal weights, depth 10 and 40 -> depth (10*1 + 40*3)/4 -/
example : cellOf "depth" (squashRowX ["depth"]
    [{ chrom := "chr1", s := 0, e := 10, gene := "A", log2 := 0, probes := 1, weight := 1, depth := 10 },
     { chrom := "chr1", s := 20, e := 30, gene := "A", log2 := 0, probes := 1, weight := 3, depth := 40 }])
    = some (.num (65 / 2)) := by decide +kernel

end CnvVerif.C14
