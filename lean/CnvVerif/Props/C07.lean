/-
  C07 — range queries return exactly the overlapping / contained / clipped rows.
  Property theorems only; helper lemmas live in Lemmas/Ranges.lean.
-/
import CnvVerif.Model.Ranges
import CnvVerif.Model.IntervalSpec
import CnvVerif.Lemmas.Ranges
import CnvVerif.Lemmas.RangesMulti
namespace CnvVerif.C07
open CnvVerif

/-! A table of one chromosome is well formed (`WFTable`) when it is sorted by start, has
    non-negative coordinates and positive-length rows — what every table read by `tabio` is.
    Rows may nest, repeat or abut.  `selFilter qs qe inner` is the property's wording:
    outer = `end > qs ∧ start < qe`, inner = `start ≥ qs ∧ end ≤ qe`, `none` = unbounded side. -/

/-- whichever slicing path `idx_ranges` takes (binary search or masks), the rows selected for a
    query are exactly those the property names, in table order -/
theorem select_exact (t : Table) (h : WFTable t) (qs qe : Option Int)
    (hq : ∀ s, qs = some s → 0 ≤ s) (inner : Bool) :
    idxSelect t qs qe inner = t.filter (selFilter qs qe inner) := idxSelect_exact t h qs qe hq inner

/-- the binary-search path alone is exact when the `end` column is monotone … -/
theorem simple_path_exact (t : Table) (h : WFTable t) (hm : isMonotone (t.map (·.e)) = true)
    (qs qe : Option Int) (inner : Bool) :
    irangeSimple t qs qe inner = t.filter (selFilter qs qe inner) := irangeSimple_exact t h hm qs qe inner

/-- … the mask path is exact for every start-sorted table, nested rows included … -/
theorem nested_path_exact (t : Table) (h : WFTable t) (qs qe : Option Int)
    (hq : ∀ s, qs = some s → 0 ≤ s) (inner : Bool) :
    irangeNested t qs qe inner = t.filter (selFilter qs qe inner) := irangeNested_exact t h qs qe hq inner

/-- … so the path switch is unobservable -/
theorem simple_eq_nested_when_monotone (t : Table) (h : WFTable t)
    (hm : isMonotone (t.map (·.e)) = true) (qs qe : Option Int)
    (hq : ∀ s, qs = some s → 0 ≤ s) (inner : Bool) :
    irangeSimple t qs qe inner = irangeNested t qs qe inner := simple_eq_nested t h hm qs qe hq inner

theorem outer_exact (t : Table) (h : WFTable t) (qs qe : Int) (hq : 0 ≤ qs) :
    selectRange t (some qs) (some qe) .outer = t.filter (fun r => r.e > qs && r.s < qe) :=
  selectRange_outer t h qs qe hq

theorem inner_exact (t : Table) (h : WFTable t) (qs qe : Int) (hq : 0 ≤ qs) :
    selectRange t (some qs) (some qe) .inner = t.filter (fun r => r.s ≥ qs && r.e ≤ qe) :=
  selectRange_inner t h qs qe hq

/-- trim = the overlapping rows, each clipped to the query -/
theorem trim_is_outer_clipped (t : Table) (h : WFTable t) (qs qe : Int) (hq : 0 ≤ qs) :
    selectRange t (some qs) (some qe) .trim =
      (t.filter (fun r => r.e > qs && r.s < qe)).map
        (fun r => { r with s := max r.s qs, e := min r.e qe }) := selectRange_trim t h qs qe hq

theorem trim_rows_inside_query (t : Table) (h : WFTable t) (qs qe : Int) (hq : 0 ≤ qs) (hlt : qs < qe) :
    ∀ r ∈ selectRange t (some qs) (some qe) .trim, qs ≤ r.s ∧ r.e ≤ qe ∧ r.s < r.e :=
  trim_inside t h qs qe hq hlt

/-- `by_ranges` on one chromosome: one selection per query row, in query order -/
theorem by_ranges_per_query (c : String) (table other : Table)
    (ht : ∀ r ∈ table, r.chrom = c) (ho : ∀ r ∈ other, r.chrom = c)
    (hne : table ≠ []) (hno : other ≠ []) (mode : Mode) (ke : Bool) :
    byRangesDf table other mode ke =
      other.map (fun b => (b, selectRange table (some b.s) (some b.e) mode)) :=
  byRangesDf_single c table other ht ho hne hno mode ke

/-- `by_ranges` over ANY two tables, chromosome by chromosome: the query rows are visited grouped by chromosome in
    order of first appearance, each paired with the selection from the queried table's rows of THAT chromosome; a
    chromosome missing from the queried table contributes nothing (keep_empty off) or empty selections (on).  The
    single-chromosome fast path is not observable. -/
theorem by_ranges_per_chromosome (table other : Table) (mode : Mode) (ke : Bool) :
    byRangesDf table other mode ke =
      (chromsInOrder other).flatMap (fun c =>
        let src := table.filter (fun r => r.chrom == c)
        let qs := other.filter (fun r => r.chrom == c)
        if !src.isEmpty then qs.map (fun b => (b, selectRange src (some b.s) (some b.e) mode))
        else if ke then qs.map (fun b => (b, []))
        else []) :=
  byRangesDf_per_chromosome table other mode ke

/-- … so every reported pair is a query row with exactly the selection from the rows of its own chromosome -/
theorem by_ranges_never_crosses_chromosomes (table other : Table) (mode : Mode) (ke : Bool) :
    ∀ p ∈ byRanges table other mode ke, p.1 ∈ other ∧
      p.2 = (if (table.filter (fun r => r.chrom == p.1.chrom)).isEmpty then []
             else selectRange (table.filter (fun r => r.chrom == p.1.chrom)) (some p.1.s) (some p.1.e) mode) :=
  byRanges_selection_same_chromosome table other mode ke

/-- `into_ranges` returns exactly one value per query range, for any tables (missing
    chromosomes, empty tables included) -/
theorem into_ranges_one_per_query (source dest : Table) (d : String) :
    (intoRangesStr source dest d).length = dest.length := intoRanges_length source dest d

/-! non-vacuity -/
example : WFTable [⟨"chr1", 0, 100, "a"⟩, ⟨"chr1", 10, 20, "b"⟩, ⟨"chr1", 30, 40, "c"⟩] := by
  refine ⟨by decide, ?_⟩
  intro r hr
  simp at hr
  rcases hr with rfl | rfl | rfl <;> decide
example : inRange [⟨"chr1", 0, 100, "a"⟩, ⟨"chr1", 10, 20, "b"⟩, ⟨"chr1", 30, 40, "c"⟩] (some "chr1") (some 25) none .outer
    = [⟨"chr1", 0, 100, "a"⟩, ⟨"chr1", 30, 40, "c"⟩] := by decide

end CnvVerif.C07
