/-
  C06: tie to the source TEXT.  The definitions `Generated.src_*` of Generated/ExprsInterval.lean are re-translated from
  /repo's Python on every run (harness/exprtrans.py, "pieces"; harness/extractors/exprs_interval.py names the pieces and
  the column expressions read elementwise).  These theorems state that the hand-written model functions are built from
  exactly those pieces.  Kept in a module of their own so that an edit to one of them breaks exactly these obligations.
-/
import CnvVerif.Props.C06
import CnvVerif.Lemmas.SrcInterval
namespace CnvVerif.C06
open CnvVerif CnvVerif.Generated

/-! ### subdivide: `_split_targets` -/

/-- the model's `splitRow` is: the source's keep-test `span >= min_size`, then the bin count, then the equal split -/
theorem subdivide_region_is_keep_test_count_split (avg : Rat) (minSize : Int) (r : Row) :
    splitRow avg minSize r =
      if src_split_keeps r.s r.e minSize = true then
        (if Src.binCount avg r == 1 then [r] else splitInto r (Src.binCount avg r))
      else [] := Src.splitRow_binCount avg minSize r

/-- the model's bin count IS the source expression `int(round(span / avg_size)) or 1` (Python 3 `round`: half to even;
    `int`: truncation; `or`: truthiness of a number), for every positive -- also fractional -- average size -/
theorem subdivide_bin_count_is_the_source (avg : Rat) (havg : 0 < avg) (r : Row) (hlen : r.s ≤ r.e) :
    src_split_nbins (r.s : Rat) (r.e : Rat) avg = ((Src.binCount avg r : Nat) : Rat) :=
  Src.src_split_nbins_eq avg havg r hlen

/-- the model's cut positions `start + ⌊i·span/n⌋` (the bins of `splitInto r n` are `[cut i, cut (i+1))`) ARE the source
    expression `row.start + int(i * bin_size)` with `bin_size = span / nbins` -/
theorem subdivide_cut_is_the_source (avg : Rat) (havg : 0 < avg) (r : Row) (hlen : r.s ≤ r.e) (i : Nat) :
    src_split_bin_end (r.s : Rat) (r.e : Rat) avg (i : Rat) =
      ((r.s + ((i : Int) * (r.e - r.s)) / ((Src.binCount avg r : Nat) : Int) : Int) : Rat) :=
  Src.src_split_bin_end_eq avg havg r hlen i

/-! ### merge / flatten: the gap test -/

/-- one step of the grouping loop of the model is the source's test `gap_sizes > -bp` applied to the next start and the
    running maximum of the ends so far -/
theorem merge_gap_test_is_the_source (bp : Int) (cur : Row) (genes : List String) (x : Row) (xs : List Row) :
    mergeGo bp cur genes (x :: xs) =
      if src_merge_new_group x.s cur.e bp = true then
        { cur with gene := joinStrings genes.reverse } :: mergeGo bp x [x.gene] xs
      else mergeGo bp { cur with e := max cur.e x.e } (x.gene :: genes) xs :=
  Src.mergeGo_step_src bp cur genes x xs

/-- the fast path of `merge` is the source's elementwise test over (next start, running maximum of earlier ends) -/
theorem merge_fast_path_is_the_source (bp : Int) (t : Table) :
    mergeTable bp t =
      if t.isEmpty then t
      else if (((t.map (·.s)).drop 1).zip (cummax (t.map (·.e)))).all
          (fun p => src_merge_fast_path p.1 p.2 bp) then t
      else resortChrom ((groupByChrom (sortLex t)).flatMap (fun g => mergeChrom bp g.2)) :=
  Src.mergeTable_src bp t

/-- flatten: its fast path, its grouping (`_nonoverlapping_groups(table, 0)`: the same gap test with bp = 0) and its
    "rows in play" test are the source's -/
theorem flatten_tests_are_the_source (t : Table) (cur : List Row) (mx : Int) (x first second : Row) (xs rest : List Row) :
    (flattenTable t =
      if t.isEmpty then t
      else if (((t.map (·.s)).drop 1).zip (cummax (t.map (·.e)))).all
          (fun p => src_flatten_fast_path p.1 p.2) then t
      else resortChrom ((groupByChrom (sortLex t)).flatMap
        (fun g => (overlapGroups g.2).flatMap flattenGroup))) ∧
    (overlapGroupsGo cur mx (x :: xs) =
      if src_merge_new_group x.s mx 0 = true then cur.reverse :: overlapGroupsGo [x] x.e xs
      else overlapGroupsGo (x :: cur) (max mx x.e) xs) ∧
    (flattenGroup (first :: second :: rest) =
      (let rows := first :: second :: rest
       let breaks := sortDedupInts (rows.flatMap (fun r => [r.s, r.e]))
       (breaks.zip (breaks.drop 1)).map fun ab =>
         let inPlay := rows.filter (fun r => src_flatten_in_play r.s r.e ab.1 ab.2)
         { first with s := ab.1, e := ab.2, gene := joinStrings (inPlay.map (·.gene)) })) :=
  ⟨Src.flattenTable_src t, Src.overlapGroupsGo_step_src cur mx x xs, Src.flattenGroup_src first second rest⟩

/-! ### subtract: `_subtraction` -/

/-- the four edge cases of the model are selected by the source's `keep_left` / `keep_right` tests on the FIRST excluded
    start and the LAST excluded end, and a (start, end) pair is kept by the source's test `end > start` -/
theorem subtract_edge_tests_are_the_source (k f : Row) (t : List Row) :
    subtractRow k (f :: t) =
      (let ex := f :: t
       let l := ex.getLast?.getD f
       let keepLeft := src_subtract_keep_left k.s f.s
       let keepRight := src_subtract_keep_right k.e l.e
       let exS := ex.map (·.s)
       let exE := ex.map (·.e)
       let pairs : List (Int × Int) :=
         if keepLeft && keepRight then (k.s :: exE).zip (exS ++ [k.e])
         else if keepLeft then (k.s :: exE.dropLast).zip exS
         else if keepRight then exE.zip (exS.drop 1 ++ [k.e])
         else if ex.length > 1 then exE.dropLast.zip (exS.drop 1)
         else []
       (pairs.filter (fun p => src_subtract_keep_piece p.1 p.2)).map (fun p => { k with s := p.1, e := p.2 })) :=
  Src.subtractRow_src k f t

/-! ### resize_ranges -/

/-- the model's `resizeTable` is the source's clip expressions `(start - bp).clip(lower=0[, upper=size])`,
    `(end + bp).clip(...)`, its `if bp < 0:` and its keep-test `end - start > 0` -/
theorem resize_is_the_source (bp : Int) (sizes : String → Option Int) (t : Table) :
    resizeTable bp sizes t =
      (let moved := t.map fun r =>
        match sizes r.chrom with
        | some hi => { r with s := src_resize_start r.s bp hi, e := src_resize_end r.e bp hi }
        | none => { r with s := src_resize_start_nosizes r.s bp, e := src_resize_end_nosizes r.e bp }
       if src_resize_drops bp = true then moved.filter (fun q => src_resize_ok_size q.s q.e) else moved) :=
  Src.resizeTable_src bp sizes t

/-! non-vacuity: the generated pieces evaluated on concrete numbers (`round` is half-to-even: 2.5 ↦ 2, 3.5 ↦ 4) -/
example : src_split_nbins 0 10 4 = 2 ∧ src_split_nbins 0 14 4 = 4 ∧ src_split_nbins 0 1 4 = 1 := by
  refine ⟨?_, ?_, ?_⟩ <;> decide +kernel
example : src_split_bin_end 10 20 3 2 = 16 := by decide +kernel
example : src_merge_new_group 5 5 0 = false ∧ src_merge_new_group 5 5 1 = true := by decide

end CnvVerif.C06
