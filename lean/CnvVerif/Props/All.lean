import CnvVerif.Props.C01
import CnvVerif.Props.C02
import CnvVerif.Props.C06
import CnvVerif.Props.C07
