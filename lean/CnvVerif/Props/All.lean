import CnvVerif.Props.C01
import CnvVerif.Props.C02
import CnvVerif.Props.C03
import CnvVerif.Props.C06
import CnvVerif.Props.C07
import CnvVerif.Props.C13
import CnvVerif.Props.C14
import CnvVerif.Props.C20
