import CnvVerif.Props.C06
import CnvVerif.Props.C07
