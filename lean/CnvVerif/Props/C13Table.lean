/-
  C13 at the level of the whole table: `doAccess` (scan of every record → name filter → one `subtract` per
  exclude file through `merge`, `by_ranges`, `by_shared_chroms`, the pandas group-by → `join_regions` per
  chromosome group with its `assert gap > 0`) satisfies the property on EVERY chromosome of a multi-sequence
  genome, for arbitrary exclude tables (any row order, overlapping / nested / duplicated rows, chromosomes
  missing from either side).  Before this module the table-level plumbing was compared with the one-chromosome
  pipeline `accessChrom` at run time only (`per_chrom_agrees`).

  Hypotheses: sequence names are distinct (a duplicated name makes the real `join_regions` assert; malformed
  stream), exclude rows have `0 ≤ start < end`.
-/
import CnvVerif.Props.C13
import CnvVerif.Lemmas.AccessTable
namespace CnvVerif.C13
open CnvVerif

/-- `do_access` never raises on such input, and on every chromosome its rows are non-empty, sorted, at least
    `max 1 minGap` apart, and cover exactly the accessible bases (reported by the scan of a kept sequence of
    that name, in no region of any exclude file) plus the bridged gaps shorter than `minGap` -/
theorem access_table_exact (recs : List (String × List (List Char))) (excl : List Table)
    (minGap : Option Int) (skip : Bool)
    (hn : (recs.map (·.1)).Nodup)
    (hex : ∀ ex ∈ excl, ∀ r ∈ ex, 0 ≤ r.s ∧ r.s < r.e) :
    ∃ out, doAccess (renderRecords recs) excl minGap skip = .ok out ∧
      ∀ c, (∀ r ∈ rowsOf out c, r.s < r.e) ∧
        (rowsOf out c).Pairwise (fun a b => a.e + max 1 (minGap.getD 0) ≤ b.s) ∧
        ∀ p, cov (rowsOf out c) p ↔
          AccessibleT recs excl skip c p ∨ InSmallGap (AccessibleT recs excl skip c) (minGap.getD 0) p :=
  doAccess_table_spec recs excl minGap skip hn hex

/-- a name that is not the name of a kept sequence has no row (non-canonical names dropped exactly when the
    option is on; exclude files naming unknown chromosomes add nothing), and on the chromosome of a kept
    sequence the intervals are exactly those of the one-chromosome pipeline of `Props/C13.lean` run on that
    record and on that chromosome's rows of every exclude file as `tabio.read` sorts them -/
theorem access_table_is_per_chromosome (recs : List (String × List (List Char))) (excl : List Table)
    (minGap : Option Int) (skip : Bool)
    (hn : (recs.map (·.1)).Nodup)
    (hex : ∀ ex ∈ excl, ∀ r ∈ ex, 0 ≤ r.s ∧ r.s < r.e) :
    ∃ out, doAccess (renderRecords recs) excl minGap skip = .ok out ∧
      (∀ c, (¬ ∃ r ∈ recs, r.1 = c ∧ (skip = true → isCanonicalName c = true)) → rowsOf out c = []) ∧
      ∀ c lines, (c, lines) ∈ recs → (skip = true → isCanonicalName c = true) →
        (rowsOf out c).map ivOf =
          (accessChrom c lines (excl.map (fun ex => rowsOf (sortTable ex) c)) (minGap.getD 0)).map ivOf :=
  doAccess_table_chrom recs excl minGap skip hn hex

/-- the exclude loop: after every file, each chromosome holds exactly the bases not excluded so far, as
    non-empty sorted separated rows (the invariant `join_regions` relies on) -/
theorem exclude_loop_table (excl : List Table) (a : Table) (ha : TInv a)
    (hex : ∀ ex ∈ excl, ∀ r ∈ ex, 0 ≤ r.s ∧ r.s < r.e) :
    TInv (excl.foldl (fun acc ex => subtractTable acc (sortTable ex)) a) ∧
      ∀ c p, cov (rowsOf (excl.foldl (fun acc ex => subtractTable acc (sortTable ex)) a) c) p ↔
        cov (rowsOf a c) p ∧ ∀ ex ∈ excl, ¬ cov (rowsOf ex c) p :=
  foldl_subtractTable_spec excl a ha hex

/-! ### non-vacuity -/

/-- two sequences (one non-canonical), two exclude files in arbitrary order with an unknown chromosome -/
example : (["chr1", "chrM"].map id).Nodup ∧
    ∀ ex ∈ ([[⟨"chrM", 1, 2, ""⟩, ⟨"chr1", 3, 9, ""⟩, ⟨"chr1", 0, 1, ""⟩], [⟨"chrZ", 0, 5, ""⟩]] : List Table),
      ∀ r ∈ ex, 0 ≤ r.s ∧ r.s < r.e := by
  refine ⟨by decide, ?_⟩
  intro ex hex r hr
  simp at hex
  rcases hex with rfl | rfl <;> simp at hr
  · rcases hr with rfl | rfl | rfl <;> decide
  · subst hr; decide

end CnvVerif.C13
