/-
  C19, tie to the source TEXT: `q_n` after its double loop (`vals` = the pairwise distances, modelled by `pairDiffs`): the percentile taken and the whole chain of finite-sample factors `n <= 10`, `10 < n < 400`, else.
  `Generated.src_q_n` (Generated/ExprsDesc.lean) is re-translated from /repo's cnvlib/descriptives.py on every run by
  harness/vectrans.py (typed reading of the numpy vector subset); it is proved here that the hand-written model IS
  that expression, for all arguments.  One module per function: an edited formula breaks exactly this obligation.
-/
import CnvVerif.Generated.ExprsDesc
import CnvVerif.Lemmas.SrcDescVocab
namespace CnvVerif.C19
open CnvVerif CnvVerif.Desc CnvVerif.Generated CnvVerif.Src

set_option linter.unusedSimpArgs false
set_option linter.unusedVariables false

/-- `q_n` after its double loop, the list `vals` being the pairwise distances the loop collects -/
theorem qn_is_the_source (a : List Rat) : src_q_n a (pairDiffs a) = qnCore a := by
  unfold src_q_n qnCore qnScale QN_Q QN_N_SMALL QN_N_MID_LO QN_N_LARGE QN_SCALE_SMALL QN_SCALE_MID_BASE QN_SCALE_LARGE QN_NUM
  simp only []
  have hq : ((25 : Rat) / 100) = (((25 : Nat) : Rat) / 100) := by norm_num
  rw [hq]
  split_ifs <;> rfl

end CnvVerif.C19
