/-
  C17: tie to the source TEXT, cnvlib/descriptives.py (mean_squared_error).  The definitions `Generated.src_*` of Generated/ExprsStats.lean are re-translated
  from /repo's Python on every run (harness/exprtrans.py, `emit_values`); these theorems state that the hand-written
  model formulas of Model/Stats.lean are those expressions.  Kept in a module of their own so that an edit to a
  formula breaks exactly these obligations.
-/
import CnvVerif.Props.C17
import CnvVerif.Lemmas.SrcStatsMse
import Mathlib.Tactic.NormNum
import Mathlib.Tactic.Positivity
namespace CnvVerif.C17
open CnvVerif CnvVerif.Stats CnvVerif.Generated

/-- the model's mean squared error IS what `descriptives.mean_squared_error` returns without `initial` -/
theorem mse_is_the_source (a : List Rat) : mseBody a = src_mean_squared_error a :=
  Src.mseBody_is_source a

end CnvVerif.C17
