/-
  Property C11, WEIGHTED path.  `segment_haar` / `one_chrom` always call `haarSeg(I, q, W = cnarr["weight"])`, and
  the property quantifies over bin weights in [0.5, 1]; the theorems of Props/C11.lean are about `W = None`.
  Here: the weighted `HaarConv` loop (four running sums, mirrored ends) computes, at every position, `sqrt(h/2)`
  times the difference of the weighted means of the high and the low window; on a noise-free step under ANY
  positive weights the response is zero outside `(b-h, b+h)`, rises strictly up to `b`, where it is the whole step,
  and falls strictly after it; its only peak is `b`; the weighted `haarSeg` reports exactly the step.

  Exact arithmetic (`Rat`).  In floats the quotients `lowNonNormed / lowWeightSum` carry rounding noise, so the real
  response is zero only to ~1e-16 where it is exactly zero here; the differential harness ties the closed form
  to the real `HaarConv` at 1e-9 (clause `weighted_ideal_response`) and the whole weighted `haarSeg` on noise-free
  steps of the property's heights (op `haar_seg_w`).
-/
import CnvVerif.Lemmas.HaarW3
namespace CnvVerif.C11
open CnvVerif.Haar

/-! ### the weighted loop, any signal -/

/-- **loop invariant**: for a signal of `n >= h >= 1` bins whose window weight sums never vanish, the weighted
`HaarConv` stores 0 at position 0 and, at every `k >= 1`, `fac * (mean_w(high window) - mean_w(low window))`, the
windows being `k .. k+h-1` and `k-h .. k-1` of the signal mirrored at both ends (`respW`, window sums through
prefix sums) -/
theorem weighted_conv_is_difference_of_window_means (fac : Rat) (sig wt : List Rat) (h n : Nat)
    (hlen : sig.length = n) (h1 : 1 ≤ h) (hh : h ≤ n)
    (hnz : ∀ k, 1 ≤ k → k < n → lowWin (wOf wt.toArray) h k ≠ 0 ∧ highWin (wOf wt.toArray) n h k ≠ 0) :
    haarConvW fac sig wt h
      = some (0 :: (List.range' 1 (n - 1)).map (fun k =>
          fac * (-(lowWin (swOf sig.toArray wt.toArray) h k) / lowWin (wOf wt.toArray) h k
                 + highWin (swOf sig.toArray wt.toArray) n h k / highWin (wOf wt.toArray) n h k))) :=
  haarConvW_eq fac sig wt h n hlen h1 hh hnz

/-- the running sums really are window sums: each step of the loop adds the entering element and drops the
leaving one (`lowEnd` / `highEnd` with their mirror rules) -/
theorem window_sums_follow_the_loop (x : Nat → Rat) (n h k : Nat) (hk : 1 ≤ k) (hkn : k < n) (hh : h ≤ n)
    (h1 : 1 ≤ h) :
    lowWin x h k = lowWin x h (k - 1) + (x (k - 1) - x (loIdx h k)) ∧
    highWin x n h k = highWin x n h (k - 1) + (x (hiIdx n h k) - x (k - 1)) :=
  ⟨lowWin_step x h k hk, highWin_step x n h k hk hkn hh h1⟩

/-- positive weights: no window weight sum vanishes (the loop never divides by zero) -/
theorem positive_weights_never_divide_by_zero (w : Nat → Rat) (n h : Nat) (h1 : 1 ≤ h) (hh : h ≤ n)
    (pos : ∀ i, i < n → 0 < w i) (k : Nat) (hk : k < n) : 0 < lowWin w h k ∧ 0 < highWin w n h k :=
  ⟨lowWin_pos' w n h h1 hh pos k hk, highWin_pos' w n h h1 hh pos k hk⟩

/-! ### noise-free step, any positive weights -/

/-- closed form: `HaarConv(step, W, h)[k] = fac * (hi - lo) * share(k)` -/
theorem haarConvW_ideal_step (fac lo hi : Rat) (b n h : Nat) (wt : List Rat) (h1 : 1 ≤ h) (hb : h ≤ b)
    (hn : b + h ≤ n) (hw : wt.length = n) (hpos : ∀ x ∈ wt, 0 < x) :
    haarConvW fac (stepSig lo hi b n) wt h = some (stepRespW fac lo hi wt b n h) :=
  Haar.haarConvW_ideal_step fac lo hi b n h wt h1 hb hn hw hpos

/-- shape of the share: 0 up to `b - h` and from `b + h` on; on the rising flank the share of the high window's
weight beyond `b`, on the falling flank the share of the low window's weight before `b`; exactly 1 at `b`
(so `HaarConv(step, W, h)[b] = sqrt(h/2) * (hi - lo)` whatever the weights) -/
theorem weighted_step_share (wt : List Rat) (b n h : Nat) (h1 : 1 ≤ h) (hb : h ≤ b) (hn : b + h ≤ n)
    (hw : wt.length = n) (hpos : ∀ x ∈ wt, 0 < x) :
    (∀ k, k + h ≤ b → stepShareW (wfun wt) b n h k = 0) ∧
    (∀ k, k < n → b + h ≤ k → stepShareW (wfun wt) b n h k = 0) ∧
    (∀ k, k ≤ b → b ≤ k + h → stepShareW (wfun wt) b n h k
        = (pre (wfun wt) (k + h) - pre (wfun wt) b) / (pre (wfun wt) (k + h) - pre (wfun wt) k)) ∧
    (∀ k, b ≤ k → k < n → k ≤ b + h → stepShareW (wfun wt) b n h k
        = (pre (wfun wt) b - pre (wfun wt) (k - h)) / (pre (wfun wt) k - pre (wfun wt) (k - h))) ∧
    stepShareW (wfun wt) b n h b = 1 := by
  have H := stepW_of_list wt b n h h1 hb hn hw hpos
  exact ⟨fun k hk => share_zero_left H k hk, fun k hk1 hk2 => share_zero_right H k hk1 hk2,
    fun k hk1 hk2 => share_rise H k hk1 hk2, fun k hk1 hk2 hk3 => share_fall H k hk1 hk2 hk3, share_at_step H⟩

/-- ... strictly rising from `b - h` to `b`, strictly falling from `b` to `b + h`, positive in between -/
theorem weighted_step_share_unimodal (wt : List Rat) (b n h : Nat) (h1 : 1 ≤ h) (hb : h ≤ b) (hn : b + h ≤ n)
    (hw : wt.length = n) (hpos : ∀ x ∈ wt, 0 < x) :
    (∀ k, b ≤ k + h → k < b → stepShareW (wfun wt) b n h k < stepShareW (wfun wt) b n h (k + 1)) ∧
    (∀ k, b ≤ k → k + 1 < n → k < b + h → stepShareW (wfun wt) b n h (k + 1) < stepShareW (wfun wt) b n h k) ∧
    (∀ k, k < n → b < k + h → k < b + h → 0 < stepShareW (wfun wt) b n h k) := by
  have H := stepW_of_list wt b n h h1 hb hn hw hpos
  exact ⟨fun k a c => share_rising H k a c, fun k a c d => share_falling H k a c d, fun k a c d => share_pos H k a c d⟩

/-- `FindLocalPeaks` on ANY unimodal response (zero outside `(b-h, b+h)`, strictly rising to `b`, strictly falling
after it), of either sign: exactly `[b]` -/
theorem peaks_of_unimodal (c : Rat) (hc : c ≠ 0) (t : Nat → Rat) (b n h : Nat) (h1 : 1 ≤ h) (hb : h ≤ b)
    (hn2 : b + 2 ≤ n)
    (U1 : ∀ k, k < n → k + h ≤ b → t k = 0) (U2 : ∀ k, k < n → b + h ≤ k → t k = 0)
    (U3 : ∀ k, b ≤ k + h → k < b → t k < t (k + 1))
    (U4 : ∀ k, b ≤ k → k + 1 < n → k < b + h → t (k + 1) < t k)
    (U5 : ∀ k, k < n → b < k + h → k < b + h → 0 < t k) :
    findLocalPeaks ((List.range n).map (fun k => c * t k)) = [b] :=
  findLocalPeaks_unimodal c hc t b n h h1 hb hn2 U1 U2 U3 U4 U5

/-- the only peak of the weighted response to a step is the step position -/
theorem peaks_of_weighted_step (fac lo hi : Rat) (hfac : 0 < fac) (hne : lo ≠ hi) (b n h : Nat) (wt : List Rat)
    (h1 : 1 ≤ h) (hb : h ≤ b) (hn : b + h ≤ n) (hn2 : b + 2 ≤ n) (hw : wt.length = n) (hpos : ∀ x ∈ wt, 0 < x) :
    findLocalPeaks (stepRespW fac lo hi wt b n h) = [b] :=
  peaks_stepRespW fac lo hi hfac hne b n h wt h1 hb hn hn2 hw hpos

/-! ### haarSeg with weights -/

/-- **noise-free step, weighted path** (full strength): every step `lo ≠ hi` with at least 32 bins a side, ANY
positive bin weights, every FDR `q`, p-values, positive factors `sqrt(h/2)` and rounding of the threshold:
exactly one breakpoint, at `b`; sizes `(b, n - b)`; weighted means `(lo, hi)` -/
theorem haarSegW_ideal_step (rnd : Rat → Rat) (fac : Nat → Rat) (hfac : ∀ h, 0 < fac h) (p : Nat → List Rat)
    (q lo hi : Rat) (hne : lo ≠ hi) (b n : Nat) (hb : 32 ≤ b) (hn : b + 32 ≤ n) (wt : List Rat)
    (hw : wt.length = n) (hpos : ∀ x ∈ wt, 0 < x) :
    haarSegW rnd fac p q (stepSig lo hi b n) wt
      = { start := [0, b], stop := [(b : Int) - 1, (n : Int) - 1],
          size := [(b : Int), (n : Int) - (b : Int)], mean := [lo, hi] } :=
  Haar.haarSegW_ideal_step rnd fac hfac p q lo hi hne b n hb hn wt hw hpos

/-- the property's wording on the noise-free core of the path `segment_haar` takes: levels 0 / -1, 0 / +0.585,
0 / +1 in either order, at least 100 bins a side, bin weights in [0.5, 1]: exactly one breakpoint, within 5 bins
of the true one (in fact at it), segment means within 0.1 of the true levels (in fact equal) -/
theorem clear_step_found_and_localised_weighted (rnd : Rat → Rat) (fac : Nat → Rat) (hfac : ∀ h, 0 < fac h)
    (p : Nat → List Rat) (q lo hi : Rat)
    (hlv : (lo, hi) ∈ [((0 : Rat), (-1 : Rat)), (-1, 0), (0, 585 / 1000), (585 / 1000, 0), (0, 1), (1, 0)])
    (b n : Nat) (hb : 100 ≤ b) (hn : 100 ≤ n - b) (wt : List Rat) (hw : wt.length = n)
    (hwt : ∀ x ∈ wt, 1 / 2 ≤ x ∧ x ≤ 1) :
    ∃ bp m1 m2, (haarSegW rnd fac p q (stepSig lo hi b n) wt).start = [0, bp] ∧
      (haarSegW rnd fac p q (stepSig lo hi b n) wt).mean = [m1, m2] ∧
      ((bp : Int) - (b : Int)).natAbs ≤ 5 ∧ absQ (m1 - lo) ≤ 1 / 10 ∧ absQ (m2 - hi) ≤ 1 / 10 := by
  have hne : lo ≠ hi := by
    simp only [List.mem_cons, Prod.mk.injEq, List.mem_nil_iff, or_false] at hlv
    rcases hlv with ⟨rfl, rfl⟩ | ⟨rfl, rfl⟩ | ⟨rfl, rfl⟩ | ⟨rfl, rfl⟩ | ⟨rfl, rfl⟩ | ⟨rfl, rfl⟩ <;> norm_num
  rw [Haar.haarSegW_ideal_step rnd fac hfac p q lo hi hne b n (by omega) (by omega) wt hw
    (fun x hx => lt_of_lt_of_le (by norm_num) (hwt x hx).1)]
  refine ⟨b, lo, hi, rfl, rfl, by simp, ?_, ?_⟩ <;> simp [absQ]

/-- **flat profile, weighted path** (exact arithmetic): a constant signal with positive weights has zero response
at every level and yields exactly one segment with the constant as its mean -/
theorem haarSegW_flat (rnd : Rat → Rat) (fac : Nat → Rat) (p : Nat → List Rat) (q c : Rat) (n : Nat) (hn : 1 ≤ n)
    (wt : List Rat) (hw : wt.length = n) (hpos : ∀ x ∈ wt, 0 < x) :
    haarSegW rnd fac p q (List.replicate n c) wt
      = { start := [0], stop := [(n : Int) - 1], size := [(n : Int)], mean := [c] } :=
  Haar.haarSegW_flat rnd fac p q c n hn wt hw hpos

/-! ### non-vacuity -/

/-- weights alternating 1/2, 1, 3/4 on 64 bins are positive, and the model really computes the answer
(kernel evaluation of the weighted loop, all five levels) -/
example : haarSegW id (fun _ => 1) (fun _ => []) (1 / 10000) (stepSig 0 (585 / 1000) 32 64)
      ((List.range 64).map fun i => if i % 3 = 0 then 1 / 2 else if i % 3 = 1 then 1 else 3 / 4)
    = { start := [0, 32], stop := [31, 63], size := [32, 32], mean := [0, 585 / 1000] } := by
  decide +kernel

/-- the weighted response really depends on the weights (it is not the tent): one light bin before the step -/
example : haarConvW 1 (stepSig 0 1 4 8) [1, 1, 1, 1 / 2, 1, 1, 1, 1] 2
    = some [0, 0, 0, 2 / 3, 1, 1 / 3, 0, 0] := by decide +kernel

/-- the hypotheses of `haarSegW_ideal_step` are met by the property's smallest case -/
example : (haarSegW id (fun _ => 1) (fun _ => []) (1 / 10000) (stepSig 0 (-1) 100 200)
    (List.replicate 200 (1 / 2))).start = [0, 100] := by
  rw [haarSegW_ideal_step id (fun _ => 1) (fun _ => by norm_num) _ _ 0 (-1) (by norm_num) 100 200
    (by norm_num) (by norm_num) _ (List.length_replicate ..) (by intro x hx; rw [(List.mem_replicate.mp hx).2]; norm_num)]

end CnvVerif.C11
