/-
  C01 / C02 (growth round 5): `do_call` as a WHOLE.  `Generated/ExprsDoCall.lean` is the step plan of cnvlib/call.py:do_call
  re-read from the source on every run (harness/stepplan.py): which effects on the output table run, in which order, under
  which tests.  Here: the model's plan IS that plan (all values of the tests); the loop bodies and the literal name lists
  are what the model assumes; `c01wDoCall` refuses exactly the methods the source's tuple does not list, specialises to the
  proved per-row models (`callTable`, `callTableV`) on every branch, and writes a column exactly when the plan has the step
  that writes it.
-/
import CnvVerif.Props.C01
import CnvVerif.Model.CallExt5
namespace CnvVerif.C01
open CnvVerif Generated
set_option linter.unusedSimpArgs false
set_option linter.unusedVariables false

/-- the hand-written order of effects is the one read from the source, for every outcome of the nine tests -/
theorem c01w_plan_is_the_source (bad filt vars pT pB mC mT mN baf : Bool) :
    c01wPlan bad filt vars pT pB mC mT mN baf = src_do_call_plan bad filt vars pT pB mC mT mN baf := by
  cases bad <;> cases filt <;> cases vars <;> cases pT <;> cases pB <;> cases mC <;> cases mT <;> cases mN <;> cases baf <;> rfl

/-- one iteration of the first loop applies the filter and then removes its name from the (copied) list -/
theorem c01w_pre_iteration_is_the_source (inFilters : Bool) :
    src_do_call_pre_iter inFilters = if inFilters then [.applyFilter, .removeFromFilters] else [] := by
  cases inFilters <;> rfl

/-- one iteration of the second loop resets a non-unique index, then applies the filter (nothing is removed) -/
theorem c01w_post_iteration_is_the_source (indexUnique : Bool) :
    src_do_call_post_iter indexUnique = (if indexUnique then [] else [.resetIndex]) ++ [.applyFilter] := by
  cases indexUnique <;> rfl

/-- the literal name lists the model's `c01wMethod` / `c01wPre` / `c01wPost` rest on -/
theorem c01w_name_lists_are_the_source :
    src_do_call_methods = ["threshold", "clonal", "none"] ∧ src_do_call_pre_filters = ["ci", "sem"] := ⟨rfl, rfl⟩

/-- `do_call` raises ValueError exactly for a method outside the source's tuple -/
theorem c01w_method_refused_iff (s : String) : c01wMethod s = none ↔ s ∉ src_do_call_methods := by
  unfold c01wMethod src_do_call_methods
  by_cases h1 : s = "threshold" <;> by_cases h2 : s = "clonal" <;> by_cases h3 : s = "none" <;> simp [h1, h2, h3]

theorem c01w_refuses_iff (F : String → List SegRow → List SegRow) (a : C01wArgs) (rows : List SegRow) :
    c01wDoCall F a rows = .error "ValueError" ↔ a.method ∉ src_do_call_methods := by
  rw [← c01w_method_refused_iff]
  unfold c01wDoCall
  cases h : c01wMethod a.method <;> simp

/-- which filters run before the calling: `ci` and / or `sem`, in this order, each once, iff named -/
theorem c01w_pre_filters (fs : List String) :
    c01wPre fs = (if "ci" ∈ fs then ["ci"] else []) ++ (if "sem" ∈ fs then ["sem"] else []) := by
  unfold c01wPre src_do_call_pre_filters
  by_cases h1 : "ci" ∈ fs <;> by_cases h2 : "sem" ∈ fs <;> simp [List.filter, h1, h2]

/-- ... and which after it: the list as given minus the FIRST `ci` and the FIRST `sem` (a second mention runs again) -/
theorem c01w_post_filters (fs : List String) : c01wPost fs = (fs.erase "ci").erase "sem" := rfl

theorem c01w_no_filters : c01wPre [] = [] ∧ c01wPost [] = [] := ⟨rfl, rfl⟩

/-- a filter other than `ci` / `sem` runs after the calling exactly as often as it is named -/
theorem c01w_post_keeps_other (fs : List String) (f : String) (h1 : f ≠ "ci") (h2 : f ≠ "sem") :
    (c01wPost fs).count f = fs.count f := by
  rw [c01w_post_filters, List.count_erase_of_ne h2, List.count_erase_of_ne h1]

/-- the purity test of the plan is the model's `purityActive` -/
theorem c01w_purity_test (p : Option Rat) :
    (c01wPurityTruthy p && c01wPurityBelowOne p) = (purityActive p).isSome := by
  cases p with
  | none => rfl
  | some q =>
    unfold c01wPurityTruthy c01wPurityBelowOne purityActive
    by_cases h0 : q = 0 <;> by_cases h1 : q < 1 <;> simp [h0, h1]

/-- BRANCHES.  Without filters and without variants the whole is the per-row table model of C01 / C02 -/
theorem c01w_specialises_plain (F : String → List SegRow → List SegRow) (a : C01wArgs) (m : Method) (rows : List SegRow)
    (hm : c01wMethod a.method = some m) (hf : a.filters = []) (hv : a.variants = false) :
    ∃ o, c01wDoCall F a rows = .ok o ∧ o.pre = [] ∧ o.post = [] ∧
      o.calls = callTable a.cfg m a.thr a.bafCol rows := by
  refine ⟨_, by unfold c01wDoCall; rw [hm], ?_, ?_, ?_⟩
  · simp [hf, c01w_no_filters.1]
  · simp [hf, c01w_no_filters.2]
  · have hb : ∀ r : SegRow, bafForCall a.cfg false r = r := by
      intro r; unfold bafForCall; cases purityActive a.cfg.purity <;> simp
    simp only [hf, hv, c01w_no_filters.1, List.foldl_nil, Bool.false_or]
    rw [show (bafForCall a.cfg false) = id from funext hb, List.map_id]

/-- with `variants` the whole is `callTableV .. true` (BAFs from the variants, rescaled on the purity path) on the rows
    the pre-filters leave; with a `baf` column and no variants it is `callTableV .. false` -/
theorem c01w_specialises_baf (F : String → List SegRow → List SegRow) (a : C01wArgs) (m : Method) (rows : List SegRow)
    (hm : c01wMethod a.method = some m) (hb : (a.variants || a.bafCol) = true) :
    ∃ o, c01wDoCall F a rows = .ok o ∧
      o.calls = callTableV a.cfg m a.thr a.variants ((c01wPre a.filters).foldl (fun r f => F f r) rows) := by
  refine ⟨_, by unfold c01wDoCall; rw [hm], ?_⟩
  simp [callTableV, hb]

/-- the filters before the calling act on the input rows only: with `F` the identity the calls do not depend on `filters` -/
theorem c01w_identity_filters (a : C01wArgs) (fs : List String) (rows : List SegRow) :
    (c01wDoCall (fun _ r => r) { a with filters := fs } rows).map (·.calls)
      = (c01wDoCall (fun _ r => r) a rows).map (·.calls) := by
  have h : ∀ (l : List String), l.foldl (fun (r : List SegRow) (_ : String) => r) rows = rows := by
    intro l; induction l <;> simp_all
  unfold c01wDoCall
  cases c01wMethod a.method <;> simp [Except.map, h]

/-- which step of the plan is present under which test (every value of the other tests) -/
theorem c01w_plan_steps (filt vars pT pB mC mT mN baf : Bool) :
    let pl := c01wPlan false filt vars pT pB mC mT mN baf
    (DoCallStep.writeCn ∈ pl ↔ mN = true) ∧ (DoCallStep.log2Rewrite ∈ pl ↔ (pT && pB) = true) ∧
    (DoCallStep.writeCn1 ∈ pl ↔ (mN && baf) = true) ∧ (DoCallStep.bafRescale ∈ pl ↔ (pT && pB && vars) = true) ∧
    (DoCallStep.absPure ∈ pl ↔ (!(pT && pB) && mC) = true) ∧ (DoCallStep.absThreshold ∈ pl ↔ mT = true) ∧
    (DoCallStep.preFilterLoop ∈ pl ↔ filt = true) ∧ (DoCallStep.postFilterLoop ∈ pl ↔ filt = true) ∧
    (DoCallStep.bafFromVariants ∈ pl ↔ vars = true) ∧ DoCallStep.raiseValueError ∉ pl := by
  cases filt <;> cases vars <;> cases pT <;> cases pB <;> cases mC <;> cases mT <;> cases mN <;> cases baf <;> decide

/-- a refused call has the one-step plan -/
theorem c01w_plan_refused (filt vars pT pB mC mT mN baf : Bool) :
    c01wPlan true filt vars pT pB mC mT mN baf = [.raiseValueError] := rfl

theorem c01w_method_tests (s : String) (m : Method) (h : c01wMethod s = some m) :
    (s != "none") = (m != .none) ∧ (s == "clonal") = (m == .clonal) ∧ (s == "threshold") = (m == .threshold) := by
  unfold c01wMethod at h
  by_cases h1 : s = "threshold"
  · subst h1; simp at h; subst h; decide
  · by_cases h2 : s = "clonal"
    · subst h2; simp at h; subst h; decide
    · by_cases h3 : s = "none"
      · subst h3; simp at h; subst h; decide
      · simp [h1, h2, h3] at h

/-- one row of the per-row model: which of its fields are written under which method / purity / BAF presence -/
theorem c01w_row_fields (cfg : CallCfg) (m : Method) (thr : List Rat) (first : String) (hasBaf : Bool) (row : SegRow) :
    let c := callRow cfg m thr first hasBaf row
    (c.cn.isSome = (m != .none)) ∧ (c.ratio.isSome = (purityActive cfg.purity).isSome) ∧
    ((m = .none ∨ hasBaf = false) → c.cn1 = none ∧ c.cn2 = none) := by
  unfold callRow
  cases hp : purityActive cfg.purity <;> cases m <;> cases hasBaf <;> simp

/-- PLAN vs. OUTPUT, row by row: `cn` is written iff the plan has the step `writeCn` -/
theorem c01w_cn_written_iff_step (F : String → List SegRow → List SegRow) (a : C01wArgs) (rows : List SegRow) (o : C01wOut)
    (h : c01wDoCall F a rows = .ok o) :
    (DoCallStep.writeCn ∈ o.steps → ∀ c ∈ o.calls, c.cn.isSome) ∧
    (DoCallStep.writeCn ∉ o.steps → ∀ c ∈ o.calls, c.cn = none ∧ c.cn1 = none ∧ c.cn2 = none) := by
  unfold c01wDoCall at h
  cases hm : c01wMethod a.method with
  | none => simp [hm] at h
  | some m =>
    simp only [hm, Except.ok.injEq] at h
    subst h
    obtain ⟨hN, -, -⟩ := c01w_method_tests a.method m hm
    have hs := (c01w_plan_steps (!a.filters.isEmpty) a.variants (c01wPurityTruthy a.cfg.purity)
      (c01wPurityBelowOne a.cfg.purity) (a.method == "clonal") (a.method == "threshold") (a.method != "none")
      (a.variants || a.bafCol)).1
    simp only [c01wSteps, hm, Option.isNone_some] at *
    constructor
    · intro hw c hc
      have hmN : (m != .none) = true := by rw [← hN]; exact hs.mp hw
      simp only [callTable, List.mem_map] at hc
      obtain ⟨r, -, rfl⟩ := hc
      rw [(c01w_row_fields _ _ _ _ _ _).1]; exact hmN
    · intro hw c hc
      have hmN : m = .none := by
        have : ¬ ((m != .none) = true) := by rw [← hN]; exact fun h' => hw (hs.mpr h')
        simpa using this
      simp only [callTable, List.mem_map] at hc
      obtain ⟨r, -, rfl⟩ := hc
      have h1 := (c01w_row_fields a.cfg m a.thr ((List.map (bafForCall a.cfg a.variants)
        (List.foldl (fun r f => F f r) rows (c01wPre a.filters))).head?.map (·.chrom) |>.getD "")
        (a.variants || a.bafCol) r)
      subst hmN
      refine ⟨?_, (h1.2.2 (Or.inl rfl)).1, (h1.2.2 (Or.inl rfl)).2⟩
      have := h1.1
      simpa using this

/-- the log2 column is rewritten iff the plan has the step `log2Rewrite` (the purity path) -/
theorem c01w_log2_rewritten_iff_step (F : String → List SegRow → List SegRow) (a : C01wArgs) (rows : List SegRow) (o : C01wOut)
    (h : c01wDoCall F a rows = .ok o) :
    (DoCallStep.log2Rewrite ∈ o.steps ↔ (purityActive a.cfg.purity).isSome = true) ∧
    ∀ c ∈ o.calls, c.ratio.isSome = (purityActive a.cfg.purity).isSome := by
  unfold c01wDoCall at h
  cases hm : c01wMethod a.method with
  | none => simp [hm] at h
  | some m =>
    simp only [hm, Except.ok.injEq] at h
    subst h
    have hs := (c01w_plan_steps (!a.filters.isEmpty) a.variants (c01wPurityTruthy a.cfg.purity)
      (c01wPurityBelowOne a.cfg.purity) (a.method == "clonal") (a.method == "threshold") (a.method != "none")
      (a.variants || a.bafCol)).2.1
    simp only [c01wSteps, hm, Option.isNone_some] at *
    refine ⟨by rw [← c01w_purity_test]; exact hs, ?_⟩
    intro c hc
    simp only [callTable, List.mem_map] at hc
    obtain ⟨r, -, rfl⟩ := hc
    exact (c01w_row_fields _ _ _ _ _ _).2.1

/-- the allelic columns are written only when the plan has the step `writeCn1` (a method other than none AND a baf column,
    from the table or from `variants`) -/
theorem c01w_allelic_only_with_step (F : String → List SegRow → List SegRow) (a : C01wArgs) (rows : List SegRow) (o : C01wOut)
    (h : c01wDoCall F a rows = .ok o) (hw : DoCallStep.writeCn1 ∉ o.steps) :
    ∀ c ∈ o.calls, c.cn1 = none ∧ c.cn2 = none := by
  unfold c01wDoCall at h
  cases hm : c01wMethod a.method with
  | none => simp [hm] at h
  | some m =>
    simp only [hm, Except.ok.injEq] at h
    subst h
    obtain ⟨hN, -, -⟩ := c01w_method_tests a.method m hm
    have hs := (c01w_plan_steps (!a.filters.isEmpty) a.variants (c01wPurityTruthy a.cfg.purity)
      (c01wPurityBelowOne a.cfg.purity) (a.method == "clonal") (a.method == "threshold") (a.method != "none")
      (a.variants || a.bafCol)).2.2.1
    simp only [c01wSteps, hm, Option.isNone_some] at *
    intro c hc
    simp only [callTable, List.mem_map] at hc
    obtain ⟨r, -, rfl⟩ := hc
    apply (c01w_row_fields _ _ _ _ _ _).2.2
    have : ¬ ((a.method != "none" && (a.variants || a.bafCol)) = true) := fun h' => hw (hs.mpr h')
    rw [hN] at this
    cases m <;> cases hb : (a.variants || a.bafCol) <;> simp_all

/-- non-vacuity: a call that names `ci` twice runs it once before and once after the calling; an unknown method is refused;
    the hypotheses of the specialisation theorems are met by ordinary arguments -/
example : c01wPre ["ci", "cn", "ci", "sem"] = ["ci", "sem"] ∧ c01wPost ["ci", "cn", "ci", "sem"] = ["cn", "ci"] := by decide
example : c01wMethod "Threshold" = none ∧ c01wMethod "clonal" = some .clonal := by decide
example : ∃ a : C01wArgs, c01wMethod a.method = some .threshold ∧ a.filters = [] ∧ a.variants = false :=
  ⟨{ method := "threshold", variants := false, bafCol := true, filters := [], cfg := default, thr := [] }, by decide, rfl, rfl⟩
example : ∃ a : C01wArgs, c01wMethod a.method = some .none ∧ (a.variants || a.bafCol) = true :=
  ⟨{ method := "none", variants := true, bafCol := false, filters := ["sem"], cfg := default, thr := [] }, by decide, rfl⟩

end CnvVerif.C01
