/-
  C19, tie to the source TEXT: `interquartile_range` is the model's `iqrCore`.
  `Generated.src_interquartile_range` (Generated/ExprsDesc.lean) is re-translated from /repo's cnvlib/descriptives.py on every run by
  harness/vectrans.py (typed reading of the numpy vector subset); it is proved here that the hand-written model IS
  that expression, for all arguments.  One module per function: an edited formula breaks exactly this obligation.
-/
import CnvVerif.Generated.ExprsDesc
import CnvVerif.Lemmas.SrcDescVocab
namespace CnvVerif.C19
open CnvVerif CnvVerif.Desc CnvVerif.Generated CnvVerif.Src

set_option linter.unusedSimpArgs false
set_option linter.unusedVariables false

/-- `interquartile_range` -/
theorem iqr_is_the_source (a : List Rat) : src_interquartile_range a = iqrCore a := by
  unfold src_interquartile_range iqrCore IQR_Q_HI IQR_Q_LO
  norm_num

end CnvVerif.C19
