/-
  C19, tie to the source TEXT: the step function nested in `biweight_location` is the model's `bilocIter`, for every cut-off `c` and floor `epsilon`.
  `Generated.src_biloc_iter` (Generated/ExprsDesc.lean) is re-translated from /repo's cnvlib/descriptives.py on every run by
  harness/vectrans.py (typed reading of the numpy vector subset); it is proved here that the hand-written model IS
  that expression, for all arguments.  One module per function: an edited formula breaks exactly this obligation.
-/
import CnvVerif.Generated.ExprsDesc
import CnvVerif.Lemmas.SrcDescVocab
namespace CnvVerif.C19
open CnvVerif CnvVerif.Desc CnvVerif.Generated CnvVerif.Src

set_option linter.unusedSimpArgs false
set_option linter.unusedVariables false

/-- the nested step function of `biweight_location` is the model's `bilocIter`, for every cut-off `c` and floor `ε` -/
theorem biweight_step_is_the_source (a : List Rat) (init c eps : Rat) :
    src_biloc_iter a init c eps = bilocIter c eps a init := by
  unfold src_biloc_iter bilocIter
  simp only []
  generalize hd : a.map (fun v => v - init) = d
  generalize hs : max (c * median (d.map absR)) eps = s
  have hmask : ((d.map (fun v => v / s)).map absR).map (fun v => decide (v < (1 : Rat))) =
      d.map (fun x => decide (absR (x / s) < 1)) := by
    rw [List.map_map, List.map_map]; rfl
  have hw : (((d.map (fun v => v / s)).map (fun v => v ^ 2)).map (fun v => (1 : Rat) - v)).map (fun v => v ^ 2) =
      d.map (fun x => Desc.sq (1 - Desc.sq (x / s))) := by
    rw [List.map_map, List.map_map, List.map_map]
    apply List.map_congr_left; intro x _; simp [Desc.sq, pow_two]
  rw [hmask, hw, sel_map_map, sel_self_map, zipWith_mul_eq_zip_map]

end CnvVerif.C19
