/-
  C05, round 5 -- the sex-inference glue of `do_reference`: the antitarget answer overrides the target answer PER
  SAMPLE.  Corollaries of `resolveSexes_inferred` stated as the clauses a "wholesale replacement" of the dictionary
  (sexes = a_sexes) would break: a sample without an antitarget answer keeps its target answer; antitarget files that
  give no answer at all (header-only files, no X bins) leave the dictionary as inferred from the targets.
-/
import CnvVerif.Props.C05Corr
namespace CnvVerif.C05
open CnvVerif CnvVerif.Ref

/-- a sample absent from the antitarget answers keeps its target answer -/
theorem sample_without_antitarget_answer_keeps_its_target_answer (ids : List String)
    (tInf aInf : List (String × Option Bool)) (k : String) (h : lookup (inferSexes aInf) k = none) :
    lookup (resolveSexes none ids tInf aInf) k = lookup (inferSexes tInf) k := by
  rw [resolveSexes_inferred, h]

/-- a sample WITH an antitarget answer gets that answer, whatever its targets said -/
theorem sample_with_antitarget_answer_gets_it (ids : List String)
    (tInf aInf : List (String × Option Bool)) (k : String) (b : Bool) (h : lookup (inferSexes aInf) k = some b) :
    lookup (resolveSexes none ids tInf aInf) k = some b := by
  rw [resolveSexes_inferred, h]

/-- antitarget files none of which gives an answer (empty / header-only files, no X bins): nothing is recorded … -/
theorem unanswered_files_record_nothing (aInf : List (String × Option Bool)) (h : ∀ p ∈ aInf, p.2 = none) :
    inferSexes aInf = [] := by
  unfold inferSexes
  suffices H : ∀ d : List (String × Bool),
      aInf.foldl (fun d p => match p.2 with | some b => dictSet d p.1 b | none => d) d = d from H []
  induction aInf with
  | nil => intro d; rfl
  | cons a t ih =>
    intro d
    have ha : a.2 = none := h a (List.mem_cons_self ..)
    simp only [List.foldl_cons, ha]
    exact ih (fun p hp => h p (List.mem_cons_of_mem _ hp)) d

/-- … and the sexes are exactly those inferred from the target files: the same dictionary as with no antitarget
    files at all -/
theorem unanswered_antitarget_files_change_nothing (ids : List String) (tInf aInf : List (String × Option Bool))
    (h : ∀ p ∈ aInf, p.2 = none) :
    resolveSexes none ids tInf aInf = inferSexes tInf ∧
    resolveSexes none ids tInf aInf = resolveSexes none ids tInf [] := by
  have h0 : inferSexes ([] : List (String × Option Bool)) = [] := rfl
  unfold resolveSexes
  simp only [unanswered_files_record_nothing aInf h, h0, List.foldl_nil, and_self]

/-! non-vacuity: two female-looking samples, header-only antitarget files -/
example : resolveSexes none ["a", "b"] [("a", some true), ("b", some true)] [("a", none), ("b", none)] =
    [("a", true), ("b", true)] := by decide
example : lookup (inferSexes [("a", some false), ("b", none)]) "b" = none := by decide +kernel

end CnvVerif.C05
