/-
  C09 — `coverage` reports the mean per-base depth of the counted reads in every bin.
  Property theorems only; proofs in Lemmas/Coverage.lean.  Model: Model/Coverage.lean
  (`coverage` = do_coverage; reads are BAM records as data, htslib and Executor.map are contracts).
-/
import CnvVerif.Model.Coverage
import CnvVerif.Lemmas.Coverage
namespace CnvVerif.C09
open CnvVerif CnvVerif.Cov

/-! ### what the source says (regenerated from /repo on every run) -/

/-- the sentinel the property names -/
theorem null_log2_is_minus_20 : Generated.NULL_LOG2_COVERAGE = -20 ∧ Generated.NULL_LOG2_COVERAGE_dec = -20 := by
  decide +kernel

/-- `filter_read` tests exactly the four flags of the property and drops MAPQ strictly below the cut-off;
    aligned positions are taken in the half-open bin `start <= p < end` -/
theorem filter_read_source :
    Generated.COUNT_FILTER_ATTRS = ["is_duplicate", "is_secondary", "is_unmapped", "is_qcfail"] ∧
    Generated.COUNT_MAPQ_OP = "Lt" ∧ Generated.COUNT_POS_OPS = ["LtE", "Lt"] := ⟨rfl, rfl, rfl⟩

/-- `bedcov` is run with no option but `-Q` (and `--reference`): htslib's default flag filter, deletions covered -/
theorem bedcov_options_source : Generated.BEDCOV_OPTIONS = ["--reference", "-Q"] := rfl

/-- both parallel sections use `Executor.map` (ordered), chunk tables are concatenated in that order;
    default chunk size 5000 -/
theorem pool_source : Generated.COVERAGE_POOL_CALLS = ["map", "map"] ∧
    Generated.PILEUP_CONCAT_IGNORE_INDEX = true ∧ Generated.TO_CHUNKS_DEFAULT_SIZE = 5000 := ⟨rfl, rfl, rfl⟩

/-! ### which reads are counted -/

/-- cnvkit's `filter_read`, the filter inside `samtools bedcov -Q q`, and the property's wording are one
    and the same predicate on every record -/
theorem one_read_filter (q : Nat) (r : ARead) :
    counted q r = propCounted q r ∧ bedcovCounted q r = propCounted q r :=
  ⟨counted_eq_propCounted q r, by rw [← counted_eq_bedcovCounted, counted_eq_propCounted]⟩

/-- a read flagged duplicate (1024), secondary (256), unmapped (4) or QC-fail (512), or with mapping
    quality below the cut-off, is not counted … -/
theorem flagged_reads_not_counted (q : Nat) (r : ARead)
    (h : flagSet r.flag 1024 = true ∨ flagSet r.flag 256 = true ∨ flagSet r.flag 4 = true ∨
      flagSet r.flag 512 = true ∨ r.mapq < q) : counted q r = false := by
  rw [counted_eq_propCounted]; exact uncounted_of_flag q r h

/-- … and every other read is (no other flag bit matters) -/
theorem clean_reads_counted (q : Nat) (r : ARead)
    (h1 : flagSet r.flag 1024 = false) (h2 : flagSet r.flag 256 = false) (h3 : flagSet r.flag 4 = false)
    (h4 : flagSet r.flag 512 = false) (h5 : q ≤ r.mapq) : counted q r = true := by
  rw [counted_eq_propCounted]; exact counted_of_clean q r h1 h2 h3 h4 h5

/-- an uncounted read can be deleted from the BAM (wherever it sits) without changing the table:
    either algorithm, any number of processes, any chunk size, any completion order -/
theorem flags_excluded (contigs : List (String × Nat)) (l1 l2 : List Read) (r : Read) (q : Nat)
    (h : flagSet r.flag 1024 = true ∨ flagSet r.flag 256 = true ∨ flagSet r.flag 4 = true ∨
      flagSet r.flag 512 = true ∨ r.mapq < q)
    (lines : List BedLine) (algo : Algo) (procs size : Nat) (order : List Nat) :
    coverage contigs (l1 ++ r :: l2) q lines algo procs size order =
      coverage contigs (l1 ++ l2) q lines algo procs size order :=
  coverage_drop_uncounted contigs l1 l2 r q (uncounted_of_flag q (align r) h) lines algo procs size order

/-! ### the depth of every bin -/

/-- the count algorithm (`-c`): for every regions file the command accepts, the table is — bin by bin, in the order
    sorted-by-chromosome the reader produces — the row the property demands (`specRow`: the bin's own
    coordinates and name, depth `truthDepth`, log2 or the sentinel) -/
theorem count_reports_spec_rows (contigs : List (String × Nat)) (rs : List Read) (q : Nat)
    (lines : List BedLine) (procs size : Nat) (order : List Nat) (hv : validate contigs lines = none) :
    coverage contigs rs q lines .count procs size order =
      .ok ((regroup (binsOf lines)).map (specRow contigs (rs.map align) q)) := by
  unfold coverage; rw [hv]; simp only; rw [countTable_spec]

/-- pileup: the same rows, in file order, when no read carries a deletion / reference skip -/
theorem pileup_reports_spec_rows (contigs : List (String × Nat)) (rs : List Read)
    (hng : ∀ r ∈ rs, noRefGap r.cigar = true) (q : Nat)
    (lines : List BedLine) (procs size : Nat) (order : List Nat) (hs : 0 < size)
    (hv : validate contigs lines = none) :
    coverage contigs rs q lines .pileup procs size order =
      .ok ((binsOf lines).map (specRow contigs (rs.map align) q)) := by
  unfold coverage; rw [hv]; simp only; rw [pileupTable_spec contigs rs hng q lines procs size order hs]

/-- depth = (aligned bases of counted reads that fall inside the bin) / bin length, spelled out on the
    BAM records: the sum, over the reads on the bin's contig that are not duplicate / secondary / unmapped /
    QC-fail and have MAPQ ≥ q, of the number of their aligned reference positions p with start ≤ p < end -/
theorem depth_is_bases_over_length (contigs : List (String × Nat)) (rs : List Read) (q : Nat) (b : Row) (t : Nat)
    (ht : tidOf contigs b.chrom = some t) (hb : b.s < b.e) :
    (specRow contigs (rs.map align) q b).key = b ∧
    (specRow contigs (rs.map align) q b).depth =
      ((((rs.filter (fun r => r.tid == t && propCounted q (align r))).map
          (fun r => ((r.positions.countP (fun p => decide (b.s ≤ p) && decide (p < b.e)) : Nat) : Int))).sum : Int) : Rat)
        / ((b.e - b.s : Int) : Rat) := by
  refine ⟨rfl, ?_⟩
  rw [specRow_depth _ _ _ _ hb, alignedBases_def contigs rs q b.chrom t ht]
  rfl

/-- a bin that no counted read overlaps (or a zero-width bin) gets depth 0 and log2 = -20 -/
theorem empty_bin_sentinel (contigs : List (String × Nat)) (rs : List Read) (q : Nat) (b : Row)
    (h : b.e ≤ b.s ∨ ∀ r ∈ rs, ∀ t, tidOf contigs b.chrom = some t → r.tid = t →
      propCounted q (align r) = true → ∀ p ∈ r.positions, ¬ (b.s ≤ p ∧ p < b.e)) :
    (specRow contigs (rs.map align) q b).depth = 0 ∧ (specRow contigs (rs.map align) q b).log2 = some (-20) := by
  have := specRow_empty contigs (rs.map align) q b (by
    rcases h with h | h
    · exact Or.inr h
    · exact Or.inl (alignedBases_zero_of_no_overlap contigs rs q b.chrom b.s b.e h))
  rw [null_log2_is_minus_20.1] at this
  exact this

/-- a bin holding an aligned base of a counted read gets a positive depth and log2 = log2(depth)
    (`none` in the model: the logarithm itself is computed by `math.log` / `np.log2`) -/
theorem covered_bin_gets_log (contigs : List (String × Nat)) (rs : List Read) (q : Nat) (b : Row)
    (hb : b.s < b.e) (h : 0 < alignedBasesInBin contigs (rs.map align) q b.chrom b.s b.e) :
    0 < (specRow contigs (rs.map align) q b).depth ∧ (specRow contigs (rs.map align) q b).log2 = none :=
  specRow_nonempty contigs (rs.map align) q b hb h

/-! ### the two algorithms -/

/-- what `samtools bedcov` reports in closed form is the pileup depth summed over the positions of the bin -/
theorem pileup_is_position_sum (rs : List Read) (q t : Nat) (s e : Int) :
    bedcovCount (rs.map align) q (some t) s e =
      ((binPositions s e).map (fun p =>
        (pileupAt ((rs.map align).filter (fun r => r.tid == t && bedcovCounted q r)) p : Int))).sum := by
  apply bedcovCount_eq_pileup_sum
  intro a ha
  obtain ⟨r, _, rfl⟩ := List.mem_map.mp ha
  exact align_span_le r

/-- double counting: a read without deletions / reference skips has as many aligned positions inside the
    bin as the bin has positions inside the read -/
theorem count_eq_pileup_one_read (r : Read) (hng : noRefGap r.cigar = true) (s e : Int) :
    ((r.positions.countP (fun p => decide (s ≤ p) && decide (p < e)) : Nat) : Int) = spanIn (align r) s e := by
  rw [← basesIn_eq_spanIn r hng s e, basesIn_eq_count_positions r s e]; rfl

/-- the pileup and count algorithms give the same rows (same bins, same depths, same log2), up to the
    order in which the bins are listed, on reads without indels — for any processes, chunk size, order -/
theorem count_eq_pileup_no_indels (contigs : List (String × Nat)) (rs : List Read)
    (hng : ∀ r ∈ rs, noRefGap r.cigar = true) (q : Nat) (lines : List BedLine)
    (p1 p2 size : Nat) (o1 o2 : List Nat) (hs : 0 < size) :
    (countTable contigs (rs.map align) q lines p1 o1).Perm
      (pileupTable contigs (rs.map align) q lines p2 size o2) :=
  count_perm_pileup contigs rs hng q lines p1 p2 size o1 o2 hs

def exDelReads : List Read := [{ tid := 0, pos := 0, cigar := [(0, 2), (2, 2), (0, 2)], flag := 0, mapq := 60 }]

/-- with a deletion they differ (documented: bedcov counts deleted reference positions as covered):
    2M2D2M at 0 against the bin [0, 6): 4 aligned bases, 6 covered positions -/
theorem deletion_counterexample :
    countBases (exDelReads.map align) 0 (some 0) 0 6 = 4 ∧ bedcovCount (exDelReads.map align) 0 (some 0) 0 6 = 6 := by
  decide +kernel

/-! ### rows keep their bin -/

/-- pileup: row i of the table carries the coordinates and name of record i of the regions file
    (`-` when the file has no name column) -/
theorem rows_keep_bin_pileup (contigs : List (String × Nat)) (reads : List ARead) (q : Nat)
    (lines : List BedLine) (procs size : Nat) (order : List Nat) (hs : 0 < size) :
    (pileupTable contigs reads q lines procs size order).map OutRow.key = binsOf lines :=
  pileupTable_keys contigs reads q lines procs size order hs

/-- count algorithm: the rows carry exactly the bins of the regions file (each as often as it is listed), re-ordered -/
theorem rows_keep_bin_count (contigs : List (String × Nat)) (reads : List ARead) (q : Nat)
    (lines : List BedLine) (procs : Nat) (order : List Nat) :
    ((countTable contigs reads q lines procs order).map OutRow.key).Perm (binsOf lines) :=
  countTable_keys contigs reads q lines procs order

/-! ### chunks and workers -/

/-- `to_chunks`: the chunks, concatenated, are the non-comment lines in order; all chunks but possibly the
    last hold exactly `size` lines, the last one between 1 and `size - 1` — for every size ≥ 1 -/
theorem chunks_partition {α} (isComment : α → Bool) (size : Nat) (hs : 0 < size) (lines : List α) :
    (toChunks isComment size lines).flatten = lines.filter (fun x => !isComment x) ∧
    ∃ full last, toChunks isComment size lines = full ++ last ∧ (∀ c ∈ full, c.length = size) ∧
      (last = [] ∨ ∃ c, last = [c] ∧ 0 < c.length ∧ c.length < size) :=
  ⟨toChunks_flatten isComment size hs lines, toChunks_shape isComment size hs lines⟩

/-- the ordered-map contract: whatever order the workers finish in (any permutation of the indexed
    results), the gathered list is the list of results in submission order -/
theorem gather_any_completion_order {β} (ys : List β) (done : List (Nat × β))
    (h : done.Perm ((List.range ys.length).zip ys)) : orderedGather ys.length done = ys :=
  orderedGather_of_perm ys done h

/-- the table is the same for any number of worker processes, any split of the regions file into chunks
    (any chunk size ≥ 1) and any completion order of the workers — both algorithms -/
theorem chunked_eq_serial (contigs : List (String × Nat)) (reads : List Read) (q : Nat)
    (lines : List BedLine) (algo : Algo) (procs size : Nat) (order : List Nat) (hs : 0 < size) :
    coverage contigs reads q lines algo procs size order = coverage contigs reads q lines algo 1 1 [] :=
  coverage_any_schedule contigs reads q lines algo procs 1 size 1 order [] hs (by decide)

/-! ### non-vacuity -/

def exReads : List Read := [
  { tid := 0, pos := 5, cigar := [(4, 3), (0, 10)], flag := 16, mapq := 30 },
  { tid := 0, pos := 8, cigar := [(0, 10)], flag := 1024, mapq := 60 },
  { tid := 0, pos := 8, cigar := [(0, 10)], flag := 0, mapq := 5 }]
def exBed : List BedLine := [BedLine.comment, .record { chrom := "c", s := 0, e := 10, rest := ["a"] },
  .record { chrom := "c", s := 10, e := 20, rest := ["b"] }, .comment,
  .record { chrom := "c", s := 20, e := 20, rest := ["z"] }]

def exRows : List OutRow :=
  [⟨"c", 0, 10, "a", 1 / 2, none⟩, ⟨"c", 10, 20, "b", 1 / 2, none⟩, ⟨"c", 20, 20, "z", 0, some (-20)⟩]

/-- a read straddling two bins (soft-clipped, reverse strand), a duplicate, a low-MAPQ read; comments in the
    regions file; a zero-width bin: the hypotheses hold and the serial pileup gives the expected rows -/
example :
    validate [("c", 100)] exBed = none ∧ (∀ r ∈ exReads, noRefGap r.cigar = true) ∧
    (coverage [("c", 100)] exReads 10 exBed .pileup 1 1 []).toOption = some exRows := by
  decide +kernel

/-- three chunks of one line, workers finishing in the order 1, 2, 0: same table -/
example : coverage [("c", 100)] exReads 10 exBed .pileup 3 1 [2, 0, 1] =
    coverage [("c", 100)] exReads 10 exBed .pileup 1 1 [] :=
  chunked_eq_serial _ _ _ _ _ _ _ _ (by decide)

/-- the count algorithm on the same input: the same rows (as a rearrangement; here the order coincides) -/
example : ∃ t, coverage [("c", 100)] exReads 10 exBed .count 2 1 [1, 0] = .ok t ∧ t.Perm exRows := by
  refine ⟨_, count_reports_spec_rows _ _ _ _ _ _ _ (by decide +kernel), ?_⟩
  have h : (binsOf exBed).map (specRow [("c", 100)] (exReads.map align) 10) = exRows := by decide +kernel
  rw [← h]
  exact (regroup_perm _).map _

example : toChunks (fun (s : String) => s.front == '#') 2 ["#h", "a", "b", "#m", "c"] = [["a", "b"], ["c"]] := by
  decide +kernel

/-- a completion order that is not the submission order -/
example : completion [5, 1, 3] [(0, "x"), (1, "y"), (2, "z")] = [(1, "y"), (2, "z"), (0, "x")] := by
  simp [completion, List.mergeSort, List.MergeSort.Internal.splitInTwo, List.splitAt, List.splitAt.go]

end CnvVerif.C09
