/-
  C11, observation Z as THEOREMS.  `cnvlib/segmentation/haar.py:FDRThres(x, q, stdev)` modelled as written
  (`Model/HaarExt5Fdr.lean`), `stats.norm.cdf` a parameter `cdf v loc` of which only monotonicity in `v` is used.

  What is proved, for every peak array `x` (two or more peaks), every `q`, `stdev`:
    * the threshold is either one of the `|x[k]|` (some p-value passes; then it is the value at the LARGEST passing
      index of the descending sort) or `rnd (max|x| + 1e-16)` (no p-value passes);
    * no p-value passes unless `cdf(max|x|, stdev) >= 1 - q/2` (real arithmetic) -- the only peak that matters for
      that question is the largest one; and the first index passes as soon as `cdf(max|x|, stdev) >= 1 - q/(2M)`;
    * the keep test `|x[k]| >= T` of `haarSeg` keeps SOME peak iff a p-value passes or the bump `+ 1e-16` is absorbed
      by the rounding (`rnd (max|x| + 1e-16) <= max|x|`); when it is absorbed exactly the maxima are kept, when it
      survives nothing is kept and the level adds no breakpoint; in real arithmetic it always survives.
  The float side (`fl64 (t + 1e-16) <= t  <->  1 <= t` for a double `t >= 0`) is checked by the driver on every case
  (op `fdr_cdf`), together with the threshold and the keep mask of the real code.
-/
import CnvVerif.Lemmas.HaarExt5Fdr
import Mathlib.Tactic.Positivity
namespace CnvVerif.C11
open CnvVerif CnvVerif.Haar CnvVerif.HaarFdr

/-- forming the p-values as the source does and handing them to the older model `fdrThres` (p-values an input) is the
function modelled here -/
theorem fdrz_is_fdrThres_on_source_pvalues (rnd : Rat → Rat) (cdf : Rat → Rat → Rat) (x : List Rat) (q sd : Rat) :
    fdrThresCdf rnd cdf x q sd = fdrThres rnd x q (pvals rnd cdf (xSorted x) sd) := rfl

/-- `if M < 2: return 0` -/
theorem fdrz_fewer_than_two_peaks (rnd : Rat → Rat) (cdf : Rat → Rat → Rat) (x : List Rat) (q sd : Rat)
    (h : x.length < 2) : fdrThresCdf rnd cdf x q sd = 0 := by
  unfold fdrThresCdf
  simp [Generated.HAAR_FDR_MIN_M, Generated.HAAR_FDR_SMALL_T, h]

/-- some p-value passes: the threshold is `x_sorted[j]` for the LARGEST index `j` with `p[j] <= (m*q)[j]`; it is one
of the `|x[k]|` and at most the largest of them -/
theorem fdrz_threshold_when_some_pvalue_passes (rnd : Rat → Rat) (cdf : Rat → Rat → Rat) (x : List Rat) (q sd : Rat)
    (h2 : 2 ≤ x.length) (hp : passing rnd cdf x q sd ≠ []) :
    ∃ j, j < x.length ∧ passes rnd cdf x q sd j = true ∧
      (∀ k, j < k → k < x.length → passes rnd cdf x q sd k = false) ∧
      fdrThresCdf rnd cdf x q sd = (xSorted x).getD j 0 ∧
      fdrThresCdf rnd cdf x q sd ≤ top x ∧ ∃ v ∈ x, absQ v = fdrThresCdf rnd cdf x q sd := by
  have hM : ¬ x.length < Generated.HAAR_FDR_MIN_M := by simp [Generated.HAAR_FDR_MIN_M]; omega
  cases hl : (passing rnd cdf x q sd).getLast? with
  | none => exact absurd (List.getLast?_eq_none_iff.mp hl) hp
  | some j =>
    obtain ⟨h1, h2', h3⟩ := getLast_filter_range_some _ _ j hl
    have hT : fdrThresCdf rnd cdf x q sd = (xSorted x).getD j 0 := by
      unfold fdrThresCdf
      rw [if_neg hM, hl]
    have hmem := getD_mem_xSorted x j h1
    refine ⟨j, h1, h2', h3, hT, ?_, ?_⟩
    · rw [hT]; exact le_top_of_mem_xSorted _ x hmem
    · rw [hT]; exact (mem_xSorted _ x).mp hmem

/-- no p-value passes: `T = x_sorted[0] + 1e-16` (rounded) -/
theorem fdrz_threshold_when_no_pvalue_passes (rnd : Rat → Rat) (cdf : Rat → Rat → Rat) (x : List Rat) (q sd : Rat)
    (h2 : 2 ≤ x.length) (hp : passing rnd cdf x q sd = []) :
    fdrThresCdf rnd cdf x q sd = rnd (top x + Generated.HAAR_FDR_EPS) := by
  have hM : ¬ x.length < Generated.HAAR_FDR_MIN_M := by simp [Generated.HAAR_FDR_MIN_M]; omega
  unfold fdrThresCdf
  rw [if_neg hM, hp]
  rfl

/-- element `i` of `p` in real arithmetic -/
theorem fdrz_pvalue_at (cdf : Rat → Rat → Rat) (x : List Rat) (sd : Rat) (i : Nat) (hi : i < x.length) :
    (pvals id cdf (xSorted x) sd).getD i 1 = 2 * (1 - cdf ((xSorted x).getD i 0) sd) := by
  have hi' : i < (xSorted x).length := by rw [length_xSorted]; exact hi
  simp [pvals, List.getD_eq_getElem?_getD, List.getElem?_eq_getElem hi', List.getElem?_map]

/-- **only the largest peak decides whether any p-value passes** (real arithmetic, `cdf` monotone in its first
argument, `q >= 0`): if `cdf(max|x|, stdev) < 1 - q/2`, i.e. the largest peak's p-value exceeds `q`, then NO p-value
passes, whatever the other peaks are.  With `cdf(v, loc) = Phi(v - loc)` (what `norm.cdf(x_sorted, stdev)` computes)
and `q = 1e-4` this is every level whose largest normalised response is below `stdev + 3.89`. -/
theorem fdrz_no_pvalue_passes_below_the_quantile (cdf : Rat → Rat → Rat) (x : List Rat) (q sd : Rat)
    (hq : 0 ≤ q) (hmono : ∀ a b, a ≤ b → cdf a sd ≤ cdf b sd)
    (htop : cdf (top x) sd < 1 - q / 2) :
    passing id cdf x q sd = [] := by
  unfold passing
  apply List.filter_eq_nil_iff.mpr
  intro i hi
  have hi := List.mem_range.mp hi
  have hle : (xSorted x).getD i 0 ≤ top x := le_top_of_mem_xSorted _ x (getD_mem_xSorted x i hi)
  have hc := hmono _ _ hle
  have hMpos : (0 : Rat) < (x.length : Rat) := by
    have : 0 < x.length := by omega
    exact_mod_cast this
  have hfrac : (((i + 1 : Nat) : Rat) / (x.length : Rat)) ≤ 1 := by
    rw [div_le_one hMpos]
    exact_mod_cast hi
  have hm : mq id x.length q i ≤ q := by
    unfold mq
    simp only [id]
    exact mul_le_of_le_one_left hq hfrac
  unfold passes
  rw [fdrz_pvalue_at cdf x sd i hi]
  simp only [decide_eq_true_eq, not_le]
  linarith

/-- ... and conversely the first index passes (so some p-value passes) as soon as the largest peak's p-value is at
most `q / M` -/
theorem fdrz_some_pvalue_passes_above_the_quantile (cdf : Rat → Rat → Rat) (x : List Rat) (q sd : Rat)
    (h1 : 1 ≤ x.length) (htop : 1 - q / (2 * (x.length : Rat)) ≤ cdf (top x) sd) :
    passing id cdf x q sd ≠ [] := by
  intro hnil
  have h0 := List.filter_eq_nil_iff.mp hnil 0 (List.mem_range.mpr (by omega))
  apply h0
  unfold passes
  rw [fdrz_pvalue_at cdf x sd 0 (by omega)]
  have htopeq : (xSorted x).getD 0 0 = top x := by
    unfold top
    cases xSorted x <;> simp
  have hMpos : (0 : Rat) < (x.length : Rat) := by
    have : 0 < x.length := by omega
    exact_mod_cast this
  have hmq : mq id x.length q 0 = q / (x.length : Rat) := by
    unfold mq
    simp only [id]
    push_cast
    ring
  rw [htopeq, hmq]
  simp only [decide_eq_true_eq]
  have : q / (2 * (x.length : Rat)) = q / (x.length : Rat) / 2 := by
    field_simp
  rw [this] at htop
  linarith

/-- **the largest peak is kept iff a p-value passes or the bump is absorbed**: the keep test `|x[k]| >= T` of
`haarSeg` lets some peak through exactly when some p-value passes or `rnd (max|x| + 1e-16) <= max|x|` -/
theorem fdrz_some_peak_kept_iff (rnd : Rat → Rat) (cdf : Rat → Rat → Rat) (x : List Rat) (q sd : Rat)
    (h2 : 2 ≤ x.length) :
    (∃ v ∈ x, fdrThresCdf rnd cdf x q sd ≤ absQ v) ↔
      (passing rnd cdf x q sd ≠ [] ∨ rnd (top x + Generated.HAAR_FDR_EPS) ≤ top x) := by
  obtain ⟨v0, hv0, hv0t⟩ := top_mem x (by omega)
  constructor
  · rintro ⟨v, hv, hT⟩
    by_cases hp : passing rnd cdf x q sd = []
    · right
      rw [fdrz_threshold_when_no_pvalue_passes rnd cdf x q sd h2 hp] at hT
      have := abs_le_top x v hv
      linarith
    · exact Or.inl hp
  · rintro (hp | habs)
    · obtain ⟨j, _, _, _, _, hle, _⟩ := fdrz_threshold_when_some_pvalue_passes rnd cdf x q sd h2 hp
      exact ⟨v0, hv0, by rw [hv0t]; exact hle⟩
    · by_cases hp : passing rnd cdf x q sd = []
      · refine ⟨v0, hv0, ?_⟩
        rw [fdrz_threshold_when_no_pvalue_passes rnd cdf x q sd h2 hp, hv0t]
        exact habs
      · obtain ⟨j, _, _, _, _, hle, _⟩ := fdrz_threshold_when_some_pvalue_passes rnd cdf x q sd h2 hp
        exact ⟨v0, hv0, by rw [hv0t]; exact hle⟩

/-- no p-value passes and the bump is absorbed (`rnd (max|x| + 1e-16) = max|x|`, in doubles: `max|x| >= 1`): exactly
the peaks of maximal absolute value are kept -/
theorem fdrz_absorbed_bump_keeps_exactly_the_maxima (rnd : Rat → Rat) (cdf : Rat → Rat → Rat) (x : List Rat)
    (q sd : Rat) (h2 : 2 ≤ x.length) (hp : passing rnd cdf x q sd = [])
    (habs : rnd (top x + Generated.HAAR_FDR_EPS) = top x) :
    ∀ v ∈ x, (fdrThresCdf rnd cdf x q sd ≤ absQ v ↔ absQ v = top x) := by
  intro v hv
  rw [fdrz_threshold_when_no_pvalue_passes rnd cdf x q sd h2 hp, habs]
  have := abs_le_top x v hv
  constructor
  · intro h; linarith
  · intro h; linarith

/-- no p-value passes and the bump survives the rounding (in doubles: `max|x| < 1`): NO peak is kept -/
theorem fdrz_surviving_bump_keeps_nothing (rnd : Rat → Rat) (cdf : Rat → Rat → Rat) (x : List Rat)
    (q sd : Rat) (h2 : 2 ≤ x.length) (hp : passing rnd cdf x q sd = [])
    (hsurv : top x < rnd (top x + Generated.HAAR_FDR_EPS)) :
    keepMask x (fdrThresCdf rnd cdf x q sd) = List.replicate x.length false := by
  rw [fdrz_threshold_when_no_pvalue_passes rnd cdf x q sd h2 hp]
  unfold keepMask
  rw [List.eq_replicate_iff]
  refine ⟨by simp, ?_⟩
  intro b hb
  obtain ⟨v, hv, rfl⟩ := List.mem_map.mp hb
  have := abs_le_top x v hv
  simp only [decide_eq_false_iff_not, not_le]
  linarith

/-- in REAL arithmetic the bump always survives: whenever no p-value passes, `FDRThres` as written rejects every
peak.  (The detection of the real code on property-sized steps rests on `x0 + 1e-16 == x0` in doubles.) -/
theorem fdrz_real_arithmetic_keeps_nothing (cdf : Rat → Rat → Rat) (x : List Rat) (q sd : Rat)
    (h2 : 2 ≤ x.length) (hp : passing id cdf x q sd = []) :
    keepMask x (fdrThresCdf id cdf x q sd) = List.replicate x.length false := by
  apply fdrz_surviving_bump_keeps_nothing id cdf x q sd h2 hp
  have := eps_pos
  simp only [id]
  linarith

/-- a level of `haarSeg` at which no p-value passes and the bump survives adds NO breakpoint -/
theorem fdrz_level_without_kept_peak_adds_nothing (rnd : Rat → Rat) (cdf : Rat → Rat → Rat) (q sd : Rat)
    (conv : List Rat) (w : Nat) (bp : List Nat)
    (h2 : 2 ≤ ((findLocalPeaks conv).map (nth conv.toArray)).length)
    (hp : passing rnd cdf ((findLocalPeaks conv).map (nth conv.toArray)) q sd = [])
    (hsurv : top ((findLocalPeaks conv).map (nth conv.toArray))
      < rnd (top ((findLocalPeaks conv).map (nth conv.toArray)) + Generated.HAAR_FDR_EPS)) :
    levelStep (fun x => fdrThresCdf rnd cdf x q sd) conv w bp = bp := by
  unfold levelStep
  have hk := fdrz_surviving_bump_keeps_nothing rnd cdf _ q sd h2 hp hsurv
  have hnone : (findLocalPeaks conv).filter
      (fun k => decide (fdrThresCdf rnd cdf ((findLocalPeaks conv).map (nth conv.toArray)) q sd
        ≤ absQ (nth conv.toArray k))) = [] := by
    apply List.filter_eq_nil_iff.mpr
    intro k hk'
    have hmem : decide (fdrThresCdf rnd cdf ((findLocalPeaks conv).map (nth conv.toArray)) q sd
        ≤ absQ (nth conv.toArray k)) ∈ keepMask ((findLocalPeaks conv).map (nth conv.toArray))
          (fdrThresCdf rnd cdf ((findLocalPeaks conv).map (nth conv.toArray)) q sd) := by
      unfold keepMask
      exact List.mem_map.mpr ⟨nth conv.toArray k, List.mem_map.mpr ⟨k, hk', rfl⟩, rfl⟩
    rw [hk] at hmem
    have := (List.mem_replicate.mp hmem).2
    simp [this]
  simp only [hnone]
  simp [unifyLevels]

/-! ### non-vacuity -/

/-- a step function standing in for `norm.cdf(., loc)`: monotone, below `1 - q/2` up to 4 above `loc` -/
def fdrzStepCdf : Rat → Rat → Rat := fun v loc => if v < loc + 4 then 1 / 2 else 1

/-- three peaks, none passes (hypotheses of `fdrz_no_pvalue_passes_below_the_quantile` hold), the bump survives in
real arithmetic, nothing is kept -/
example : passing id fdrzStepCdf [3, -2, 1] (1 / 10000) (1 / 100) = [] ∧
    fdrThresCdf id fdrzStepCdf [3, -2, 1] (1 / 10000) (1 / 100) = 3 + Generated.HAAR_FDR_EPS ∧
    keepMask [3, -2, 1] (fdrThresCdf id fdrzStepCdf [3, -2, 1] (1 / 10000) (1 / 100)) = [false, false, false] := by
  decide +kernel

/-- a peak far enough out passes (hypothesis of `fdrz_some_pvalue_passes_above_the_quantile`); the threshold is the
value at the largest passing index -/
example : passing id fdrzStepCdf [5, -2, 6] (1 / 10000) (1 / 100) = [0, 1] ∧
    fdrThresCdf id fdrzStepCdf [5, -2, 6] (1 / 10000) (1 / 100) = 5 ∧
    keepMask [5, -2, 6] (fdrThresCdf id fdrzStepCdf [5, -2, 6] (1 / 10000) (1 / 100)) = [true, false, true] := by
  decide +kernel

/-- the double rounding absorbs the bump at 1 and above, not below: `fl64 (1 + 1e-16) = 1`, `fl64 (3/4 + 1e-16) > 3/4` -/
example : fl64 (1 + Generated.HAAR_FDR_EPS) = 1 ∧ (3 / 4 : Rat) < fl64 (3 / 4 + Generated.HAAR_FDR_EPS) ∧
    fl64 ((75 / 32 : Rat) + Generated.HAAR_FDR_EPS) = 75 / 32 := by
  decide +kernel

end CnvVerif.C11
