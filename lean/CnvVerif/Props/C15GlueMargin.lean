/-
  C15, round 5: the glue COMPOSED with the decision model and the margin theorem of round 4 — at the level of the
  BIN TABLE.  `compare_sex_chromosomes` on a table without a weight column IS `sexIsMale` on the three selected
  value lists; hence, on the median-difference path, `guess_xx` and the `sex` report return the sample's sex for
  every table whose autosomal / chrX / chrY bins lie within the margin (the property's "guess_xx and the `sex`
  report return that sex", with the selection by chromosome name and PAR inside the statement).
-/
import CnvVerif.Props.C15Glue
import CnvVerif.Props.C15Margin
import CnvVerif.Props.C15
set_option linter.unusedTactic false
set_option linter.unusedSimpArgs false
namespace CnvVerif.C15x
open CnvVerif

/-- the decision of `compare_sex_chromosomes(hapX, par)` on a table with a chrX bin is `sexIsMale` on the log2
    values of `autosomes(par)`, `chr_x_filter(par)`, `chr_y_filter(par)` -/
theorem compareSex_decision_is_sexIsMale (G : MoodTable → Rat) (hapX : Bool) (par : Option String) (t : List CBin)
    (hx : chrXBins par t ≠ []) :
    (compareSex (ctaOfG fun _ => G) hapX par false t).map (·.1) =
      some (sexIsMale G hapX ((autoBins par t).map (·.log2)) ((chrXBins par t).map (·.log2))
              ((chrYBins par t).map (·.log2))) := by
  have ht : t ≠ [] := by
    intro h'; apply hx; simp [chrXBins, h']
  unfold compareSex
  simp only [List.isEmpty_iff, ht, hx, if_false, Option.map_some, Option.some.injEq, lowIf,
    Bool.false_eq_true, chromLr, ctaOfG, sexIsMale, compareChromOf, List.map_eq_nil_iff]
  by_cases hy : chrYBins par t = []
  · simp [hy, combinedScore, sexScore]
  · simp [hy, combinedScore, sexScore]

/-- TABLE-LEVEL MARGIN THEOREM.  A table (no weight column) whose autosomal bins lie within `d < 1/4` of a level
    `a`, whose chrX bins lie within `d` of the level expected for the sample's sex and the stated reference sex, whose
    chrY bins (if any) lie within `d` of `a` (male) / at least 2 below (female), and all of whose Mood tables are
    degenerate: `guess_xx` returns the sample's sex and the `sex` report prints it -/
theorem guessXX_and_report_within_margin (G : MoodTable → Rat) (hapX female : Bool) (a d : Rat)
    (par : Option String) (t : List CBin)
    (h : withinMargin hapX female a d ((autoBins par t).map (·.log2)) ((chrXBins par t).map (·.log2))
           ((chrYBins par t).map (·.log2)) = true)
    (hdeg : allDegenerate hapX ((autoBins par t).map (·.log2)) ((chrXBins par t).map (·.log2))
           ((chrYBins par t).map (·.log2)) = true) :
    guessXX (ctaOfG fun _ => G) hapX par t = some female ∧
    (sexRow (ctaOfG fun _ => G) hapX par t).1 = (if female then "Female" else "Male") := by
  have hx : chrXBins par t ≠ [] := by
    intro h0
    simp [withinMargin, h0] at h
  have hdec := compareSex_decision_is_sexIsMale G hapX par t hx
  rw [C15.sex_inferred_within_margin_degenerate_tables G hapX female a d _ _ _ h hdeg] at hdec
  have hg : guessXX (ctaOfG fun _ => G) hapX par t = some female := by
    unfold guessXX
    cases hc : compareSex (ctaOfG fun _ => G) hapX par false t with
    | none => simp [hc] at hdec
    | some r =>
      simp only [hc, Option.map_some, Option.some.injEq] at hdec
      simp [hdec]
  exact ⟨hg, (sexRow_agrees_with_guessXX _ hapX par t female hg).1⟩

/-- non-vacuity of the hypotheses at table level: flat autosomes, a male sample against a female reference -/
example : withinMargin false false 0 (1/5)
    ((autoBins none [{ chrom := "7", s := 0, e := 9, log2 := 0 }, { chrom := "7", s := 9, e := 19, log2 := 0 },
                     { chrom := "X", s := 0, e := 9, log2 := -9/10 }]).map (·.log2))
    ((chrXBins none [{ chrom := "7", s := 0, e := 9, log2 := 0 }, { chrom := "7", s := 9, e := 19, log2 := 0 },
                     { chrom := "X", s := 0, e := 9, log2 := -9/10 }]).map (·.log2)) [] = true := by
  have h7 : isAutosomeName "7" = true := C15.autosome_name_examples.2.1
  have hX : isAutosomeName "X" = false := C15.autosome_name_examples.2.2.2.1
  have hA : autoBins none [{ chrom := "7", s := 0, e := 9, log2 := 0 }, { chrom := "7", s := 9, e := 19, log2 := 0 },
      { chrom := "X", s := 0, e := 9, log2 := -9/10 }] =
      [{ chrom := "7", s := 0, e := 9, log2 := 0 }, { chrom := "7", s := 9, e := 19, log2 := 0 }] := by
    simp [autoBins, autosomesOf, h7, hX]
  have hXb : chrXBins none [{ chrom := "7", s := 0, e := 9, log2 := 0 }, { chrom := "7", s := 9, e := 19, log2 := 0 },
      { chrom := "X", s := 0, e := 9, log2 := -9/10 }] = [{ chrom := "X", s := 0, e := 9, log2 := -9/10 }] := by
    decide +kernel
  rw [hA, hXb]
  decide +kernel

end CnvVerif.C15x
