/-
  C19, `convolve_weighted` with `n_iter > 1` (round 5b).  `C19Denominator` describes ONE pass; here the loop:
  pass `k+1` is the one-pass map applied to the result of `k` passes (`convolve_weighted_pass_succ`); the weights
  returned are the `n_iter`-fold convolution of the weights, whatever the signal (`convolve_weighted_weights`); a
  constant signal is reproduced for EVERY `n_iter` as long as no window sum of any pass vanishes
  (`convolve_weighted_constant_every_n_iter`), and so does the weighted Savitzky-Golay smoother built on it, whatever
  number of passes its geometry picks (`weighted_savgol_constant_every_n_iter`); a vanishing window sum in a pass
  leaves a non-finite value in that pass (`convolve_weighted_zero_sum_not_finite`).
-/
import CnvVerif.Props.C19Denominator
import CnvVerif.Lemmas.SmoothIterExt5b
import CnvVerif.Model.SmoothIterExt5b
namespace CnvVerif.C19
open CnvVerif CnvVerif.Desc CnvVerif.Smooth CnvVerif.Generated CnvVerif.C19Iter

/-- `n_iter = 0`: the inputs come back -/
theorem convolve_weighted_zero_passes (window y w : List Rat) (h : w.length = y.length) :
    convolveWeighted window y w 0 = .ok (y.map some, w) := by
  unfold convolveWeighted
  rw [if_neg (by simpa using h)]
  rfl

/-- pass `k+1` is the one-pass map of `C19Denominator.weighted_pass_values` applied to the result of `k` passes -/
theorem convolve_weighted_pass_succ (window y w : List Rat) (k : Nat) (st : List (Option Rat) × List Rat)
    (h : convolveWeighted window y w k = .ok st) :
    convolveWeighted window y w (k + 1) = .ok (cwStep (normalise window) st) := by
  unfold convolveWeighted at h ⊢
  split at h
  · cases h
  · rename_i hl
    rw [if_neg hl, cw5b_iterate_succ, ← Except.ok.inj h]

/-- the weights returned are the `n_iter`-fold convolution of the weights with the window, whatever the signal -/
theorem convolve_weighted_weights (window y w : List Rat) (k : Nat) (st : List (Option Rat) × List Rat)
    (h : convolveWeighted window y w k = .ok st) : st.2 = iterate (convSame (normalise window)) k w := by
  unfold convolveWeighted at h
  split at h
  · cases h
  · rw [← Except.ok.inj h, cw5b_iter_weights]

/-- **constants, every `n_iter`**: if no window sum of any pass vanishes, a constant signal comes back unchanged -/
theorem convolve_weighted_constant_every_n_iter (window w : List Rat) (c : Rat) (k : Nat)
    (hden : densNonzero window w k = true) :
    convolveWeighted window (List.replicate w.length c) w k =
      .ok (List.replicate w.length (some c), iterate (convSame (normalise window)) k w) := by
  unfold convolveWeighted
  rw [if_neg (by simp), List.map_replicate]
  congr 1
  apply cw5b_iter_const
  intro j hj N hN
  unfold densNonzero denominators at hden
  rw [List.all_eq_true] at hden
  have h1 := hden (iterate (convSame (normalise window)) (j + 1) w)
    (List.mem_map.mpr ⟨j, List.mem_range.mpr hj, rfl⟩)
  rw [List.all_eq_true] at h1
  simpa using h1 N hN

/-- a window sum that vanishes in pass `k+1` leaves a non-finite value there (the hypothesis above is needed) -/
theorem convolve_weighted_zero_sum_not_finite (window y w : List Rat) (k : Nat)
    (st st' : List (Option Rat) × List Rat) (i : Nat)
    (h : convolveWeighted window y w k = .ok st) (h' : convolveWeighted window y w (k + 1) = .ok st')
    (hN : (iterate (convSame (normalise window)) (k + 1) w)[i]? = some 0) (hi : i < st'.1.length) :
    st'.1[i] = none := by
  have hs := convolve_weighted_pass_succ window y w k st h
  rw [h'] at hs
  have hst : st' = cwStep (normalise window) st := Except.ok.inj hs
  subst hst
  have hw := convolve_weighted_weights window y w k st h
  rw [cw5b_iterate_succ, ← hw] at hN
  obtain ⟨sy, sw⟩ := st
  exact cw5b_step_zero_none (normalise window) sy sw i hi hN

/-- **weighted Savitzky-Golay, every `n_iter`**: whatever number of passes `it` the geometry picks, if no window
    sum of any pass over the rolled-off padded weights vanishes, a constant signal is reproduced exactly -/
theorem weighted_savgol_constant_every_n_iter (n : Nat) (c : Rat) (w : List Rat) (tw : Option Rat) (ww ord nIter : Nat)
    (coeffs : List Rat) (y : List (Option Rat)) (hw : w.length = n) (hx : 2 ≤ n)
    (wing ww' ord' it : Nat) (hg : savgolGeometry n tw ww ord nIter = .ok (wing, ww', ord', it))
    (hden : densNonzero coeffs (rollOff (padArray w wing) wing) it = true)
    (h : savgolWeighted (List.replicate n c) w tw ww ord nIter coeffs = .ok y) : y = List.replicate n (some c) := by
  apply cw5b_savgolWeighted_const_iter n c w tw ww ord nIter coeffs y hw hx wing ww' ord' it hg _ h
  intro j hj N hN
  unfold densNonzero denominators at hden
  rw [List.all_eq_true] at hden
  have h1 := hden (iterate (convSame (normalise coeffs)) (j + 1) (rollOff (padArray w wing) wing))
    (List.mem_map.mpr ⟨j, List.mem_range.mpr hj, rfl⟩)
  rw [List.all_eq_true] at h1
  simpa using h1 N hN

/-! non-vacuity: 16 points, default cubic window, `n_iter = 2` gives two passes; uniform weights keep both passes'
    window sums away from 0 -/
example : savgolGeometry 16 none 7 3 2 = .ok (7, 7, 3, 2) := by decide +kernel
example : densNonzero [-2/21, 3/21, 6/21, 7/21, 6/21, 3/21, -2/21]
    (rollOff (padArray (List.replicate 16 1) 7) 7) 2 = true := by decide +kernel
/-- and the hypothesis is not always true: the sharp weights of `cubic_window_ratio` cancel the first pass -/
example : densNonzero [-2/21, 3/21, 6/21, 7/21, 6/21, 3/21, -2/21] [25, 4, 4, 4, 4, 4, 25] 1 = false := by decide +kernel

end CnvVerif.C19
