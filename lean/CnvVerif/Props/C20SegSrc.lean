/-
  C20 (round 5b): tie to the source TEXT of the SEG exporter.
  `Generated.src_seg_*`, `src_create_chrom_ids`, `src_write_seg_enumerates`, `src_export_seg_default` are re-read from
  skgenome/tabio/seg.py (`format_seg`, `create_chrom_ids`, `write_seg`) and cnvlib/export.py (`export_seg`) on every
  run (reader harness/segread_c20.py, extractor harness/extractors/exprs_export_seg.py).  The theorems state that the
  model of Model/Export.lean (`formatSeg`, `createChromIds`, `exportSeg`) IS what the source text says, per segment:
  sample ID, chromosome renaming under the numeric-ids option, 1-based start, end, probe count iff the sample has a
  `probes` column, log2 as the mean.  Proved by simp / case splits, so that equivalent spellings (renamed locals, a
  dict comprehension, `1 + dframe.start`, `enumerate(..., 1)`, split method chain) keep them green.
-/
import CnvVerif.Model.Export
import CnvVerif.Generated.ExprsExportSeg
namespace CnvVerif.C20SegSrc
set_option linter.unusedSimpArgs false
open CnvVerif CnvVerif.Export

/-- the row of the SEG table the SOURCE text writes for one segment of a sample -/
def srcRow (ids : List (String × Nat)) (id : String) (hasProbes : Bool) (r : Seg) : SegOut :=
  { id := Generated.src_seg_ID id ids r.chrom r.s r.e r.probes r.v
    chrom := Generated.src_seg_chrom id ids r.chrom r.s r.e r.probes r.v
    start := Generated.src_seg_loc_start id ids r.chrom r.s r.e r.probes r.v
    endp := Generated.src_seg_loc_end id ids r.chrom r.s r.e r.probes r.v
    probes := if "num.mark" ∈ Generated.src_seg_columns hasProbes
              then some (Generated.src_seg_num_mark id ids r.chrom r.s r.e r.probes r.v) else none
    mean := Generated.src_seg_seg_mean id ids r.chrom r.s r.e r.probes r.v }

/-- an empty mapping renames nothing: `if chrom_ids` (falsy for `False` and for `{}`) and the model's `[]` agree -/
theorem renameChrom_nil (c : String) : renameChrom [] c = c := by
  simp [renameChrom]

/-- the chromosome column of the source (`replace` only under a truthy mapping) is the model's `renameChrom` -/
theorem seg_chrom_is_the_source (id : String) (ids : List (String × Nat)) (r : Seg) :
    renameChrom ids r.chrom = Generated.src_seg_chrom id ids r.chrom r.s r.e r.probes r.v := by
  cases ids with
  | nil => simp [Generated.src_seg_chrom, renameChrom_nil]
  | cons p t => simp [Generated.src_seg_chrom]

/-- the header `format_seg` writes: the five SEG columns, `num.mark` before the mean iff the sample has `probes` -/
theorem seg_columns_is_the_source (hp : Bool) :
    Generated.src_seg_columns hp =
      ["ID", "chrom", "loc.start", "loc.end"] ++ (if hp then ["num.mark"] else []) ++ ["seg.mean"] := by
  cases hp <;> simp [Generated.src_seg_columns]

/-- `format_seg`: every row of the model IS the row the source text writes for that segment -/
theorem format_seg_is_the_source (ids : List (String × Nat)) (sm : SegSample) :
    formatSeg ids sm = sm.rows.map (srcRow ids sm.id sm.hasProbes) := by
  unfold formatSeg
  apply List.map_congr_left
  intro r _
  have hc := seg_chrom_is_the_source sm.id ids r
  cases hp : sm.hasProbes <;>
    simp [srcRow, hc, Generated.src_seg_ID, Generated.src_seg_loc_start, Generated.src_seg_loc_end,
      Generated.src_seg_num_mark, Generated.src_seg_seg_mean, Generated.src_seg_columns, Generated.SEG_START_SHIFT,
      Int.add_comm]

/-- per segment: the start is 1-based, the end and the mean are the segment's, the ID is the sample's -/
theorem src_row_fields (ids : List (String × Nat)) (id : String) (hp : Bool) (r : Seg) :
    (srcRow ids id hp r).id = id ∧ (srcRow ids id hp r).start = r.s + 1 ∧ (srcRow ids id hp r).endp = r.e ∧
      (srcRow ids id hp r).mean = r.v ∧ (srcRow ids id hp r).probes = (if hp then some r.probes else none) := by
  have h := format_seg_is_the_source ids { id := id, hasProbes := hp, rows := [r] }
  simp [formatSeg, Generated.SEG_START_SHIFT] at h
  rw [← h]
  simp

/-- `create_chrom_ids` of the model is the source's comprehension -/
theorem create_chrom_ids_is_the_source (first : List Seg) :
    createChromIds first = Generated.src_create_chrom_ids (first.map (·.chrom)) := by
  unfold createChromIds Generated.src_create_chrom_ids
  refine congrArg (fun f => List.filterMap f _) ?_
  funext ⟨c, i⟩
  try simp only [Nat.add_comm 1 _, bne_comm (a := c)]
  try simp [Nat.add_comm]

/-- `export_seg` → `write_seg`: the chromosomes of the FIRST sample are numbered exactly under the source's test
    (`chrom_ids in (None, True)`), with the source's mapping; every sample is then formatted with that mapping -/
theorem export_seg_is_the_source (e : Bool) (first : SegSample) (rest : List SegSample) :
    exportSeg e (first :: rest) =
      (first :: rest).flatMap (fun sm => sm.rows.map (srcRow
        (if Generated.src_write_seg_enumerates (some e)
          then Generated.src_create_chrom_ids (first.rows.map (·.chrom)) else []) sm.id sm.hasProbes)) := by
  have hfun : (fun sm : SegSample => sm.rows.map (srcRow
        (if Generated.src_write_seg_enumerates (some e)
          then Generated.src_create_chrom_ids (first.rows.map (·.chrom)) else []) sm.id sm.hasProbes)) =
      formatSeg (if e then createChromIds first.rows else []) := by
    funext sm
    rw [format_seg_is_the_source, create_chrom_ids_is_the_source]
    cases e <;> simp [Generated.src_write_seg_enumerates]
  rw [hfun]
  simp [exportSeg]

/-- left out, the option means: keep the chromosome names -/
theorem export_seg_default_keeps_names :
    Generated.src_write_seg_enumerates Generated.src_export_seg_default = false := by
  simp [Generated.src_write_seg_enumerates, Generated.src_export_seg_default]

/-- non-vacuity: two samples, the second without probes and with a chromosome the first does not have -/
example :
    (exportSeg true
      [{ id := "A", hasProbes := true, rows := [{ chrom := "chr1", s := 0, e := 10, gene := "-", v := 1/2, t := 1, probes := 3, cn := 2 },
                                                  { chrom := "2", s := 5, e := 9, gene := "-", v := 0, t := 1, probes := 1, cn := 2 }] },
       { id := "B", hasProbes := false, rows := [{ chrom := "chrX", s := 7, e := 8, gene := "-", v := -1, t := 1, probes := 0, cn := 2 }] }]).map
      (fun o => (o.id, o.chrom, o.start, o.endp, o.probes)) =
    [("A", "1", 1, 10, some 3), ("A", "2", 6, 9, some 1), ("B", "chrX", 8, 8, none)] := by decide

end CnvVerif.C20SegSrc
