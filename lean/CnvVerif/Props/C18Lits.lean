/-
  C18, growth round: the defaults and literals of the VCF reader and of `load_het_snps` that the model uses are the ones
  in the source (Generated/VcfConsts.lean is re-read from /repo on every run).  Kept in a module of its own so that an
  edit to one of them breaks exactly these obligations.
-/
import CnvVerif.Props.C18
import CnvVerif.Lemmas.VcfLits
import CnvVerif.Model.VcfExt
namespace CnvVerif.C18
open CnvVerif CnvVerif.Vcf

/-! ### defaults and literals are the source's -/

/-- `load_het_snps`: parameters, defaults, the reader call (SOMATIC records skipped, FILTER not consulted, the depth
    threshold handed on as `min_depth`), the `(zygosity_freq, 1 - zygosity_freq)` thresholds, and the model's defaults -/
theorem load_het_snps_option_table :
    Generated.lhsParams = ["vcf_fname", "sample_id", "normal_id", "min_variant_depth", "zygosity_freq", "tumor_boost"] ∧
    Generated.lhsDefaults = [("sample_id", "None"), ("normal_id", "None"), ("min_variant_depth", "20"),
      ("zygosity_freq", "None"), ("tumor_boost", "False")] ∧
    Generated.lhsReadArgs = ["vcf_fname", "'vcf'"] ∧
    Generated.lhsReadKeywords = [("sample_id", "sample_id"), ("normal_id", "normal_id"),
      ("min_depth", "min_variant_depth"), ("skip_somatic", "True")] ∧
    Generated.lhsRetypeArgs = ["zygosity_freq", "1 - zygosity_freq"] ∧
    ({} : HetOpts).minDepth = some Generated.lhsMinVariantDepthDefault ∧
    ({} : HetOpts).zygFreq = none ∧ ({} : HetOpts).tumorBoost = false ∧
    ({} : HetOpts).sid = .unset ∧ ({} : HetOpts).nid = .unset := by
  refine ⟨rfl, rfl, rfl, rfl, rfl, rfl, rfl, rfl, rfl, rfl⟩

/-- the thresholds used when the normal's genotypes are all 0/0 or missing are the source's 0.25 and 1 − 0.25 -/
theorem fallback_thresholds_are_the_source (o : HetOpts) (tb : VTable) (hz : o.zygFreq = none)
    (hp : tb.paired = true) (hn : normalUntyped tb.rows = true) :
    effectiveZygFreq o tb = some (Generated.lhsFallbackZygFreq, 1 - Generated.lhsFallbackZygFreq) ∧
    Generated.lhsFallbackCondition =
      "zygosity_freq is None and 'n_zygosity' in varr and (not varr['n_zygosity'].any())" :=
  ⟨effectiveZygFreq_fallback o tb hz hp hn, rfl⟩

/-- a bare `-z` asks for the thresholds `load_het_snps` falls back to by itself when the normal carries no genotype -/
theorem cli_bare_z_is_the_fallback (o : HetOpts) (tb : VTable) (hz : o.zygFreq = none)
    (hp : tb.paired = true) (hn : normalUntyped tb.rows = true) :
    effectiveZygFreq o tb = (lhsHetOpts (cliDocumented { zygosityFreq := some none })).zygFreq := by
  rw [effectiveZygFreq_fallback o tb hz hp hn]
  decide +kernel

/-- `skip_reject` drops a record exactly when its FILTER holds something outside the source's accepted set -/
theorem reject_filter_is_the_source (r : Rec) :
    rejected r = r.filt.any (fun f => !(Generated.vcfPassFilters.contains f)) := rejected_eq_generated r

/-- the gVCF placeholder that yields no row, the PEDIGREE keys of a declared pair, and the reader's defaults (no depth
    filter, FILTER not consulted, SOMATIC records kept) are the ones the model uses -/
theorem reader_literals_are_the_source :
    Generated.vcfGvcfPlaceholder = "<NON_REF>" ∧ Generated.pedigreeGuardKey = "Derived" ∧
    Generated.pedigreeTumorKey = "Derived" ∧ Generated.pedigreeNormalKey = "Original" ∧
    Generated.readVcfDefaults = [("sample_id", "None"), ("normal_id", "None"), ("min_depth", "None"),
      ("skip_reject", "False"), ("skip_somatic", "False")] ∧
    ({} : ReadOpts).minDepth = none ∧ ({} : ReadOpts).skipReject = false ∧ ({} : ReadOpts).skipSomatic = false :=
  ⟨rfl, rfl, rfl, rfl, rfl, rfl, rfl, rfl⟩

end CnvVerif.C18
