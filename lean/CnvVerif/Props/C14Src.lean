/-
  C14: tie to the source TEXT of cnvlib/segfilters.py.  `Generated.src_level_*` / `src_ampdel_keep` are re-translated
  from /repo on every run (harness/extractors/exprs_segfilters.py, reading rules in harness/exprtrans.py); these
  theorems state that the model's level functions ARE those expressions, for every row whose columns are present.
  Kept in a module of their own so that an edit to a level definition breaks exactly these obligations.
-/
import CnvVerif.Props.C14
import CnvVerif.Lemmas.SrcSegFilter
namespace CnvVerif.C14
open CnvVerif

/-- `ampdel`: 1 for cn ≥ 5, −1 for cn = 0, else 0 -- as the two masked assignments of the source, in their order -/
theorem ampdel_level_is_the_source (r : Seg) (c : Rat) (hc : r.cn = some c) :
    levelAmpdel r = some (Generated.src_level_ampdel c) := Src.levelAmpdel_is_source r c hc

/-- `ci`: −1 for ci_hi < 0, else 1 for ci_lo > 0, else 0 -/
theorem ci_level_is_the_source (r : Seg) (lo hi : Rat) (hlo : r.ciLo = some lo) (hhi : r.ciHi = some hi) :
    levelCi r = some (Generated.src_level_ci hi lo) := Src.levelCi_is_source r lo hi hlo hhi

/-- `sem`: the sign of log2 ± zscore·sem, zscore being the default the source names -/
theorem sem_level_is_the_source (r : Seg) (s : Rat) (hs : r.sem = some s) :
    levelSem r = some (Generated.src_level_sem r.log2 s Generated.SEM_ZSCORE) := Src.levelSem_is_source r s hs

/-- `cn`: the level is the cn column itself -/
theorem cn_level_is_the_source (r : Seg) (c : Rat) (hc : r.cn = some c) :
    levelCn r = some (Generated.src_level_cn c) := Src.levelCn_is_source r c hc

/-- `ampdel`'s final selection keeps a squashed row iff its cn is 0 or at least 5 -/
theorem ampdel_selection_is_the_source (c : Rat) :
    Generated.src_ampdel_keep c = 1 ↔ (c = 0 ∨ c ≥ 5) := Src.ampdel_keep_is_source c

/-- the source's `enumerate_changes` is the chain the model mirrors: a running COUNT (`ne(0).cumsum()`) of changes -/
theorem enumerate_changes_counts_changes :
    Generated.ENUM_CHANGES_CHAIN = ["levels", "diff()", "fillna(0)", "ne(0)", "cumsum()"] := by decide +kernel

end CnvVerif.C14
