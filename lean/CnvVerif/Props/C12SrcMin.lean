/-
  C12: tie to the source TEXT (the minimum size `do_antitarget` hands on).  The definitions `Generated.src_*` of Generated/ExprsBins.lean are
  re-translated from /repo's Python on every run (harness/exprtrans.py for the arithmetic of `do_antitarget`,
  harness/settrans.py for the rules over sets of names); these theorems state that the hand-written model functions
  ARE those expressions, for all arguments.  One module per source function group, so that an edit to one of the
  rules breaks exactly the obligations about it.
-/
import CnvVerif.Props.C12
import CnvVerif.Lemmas.SrcBinsMin
namespace CnvVerif.C12
open CnvVerif CnvVerif.Generated

/-- `do_antitarget` calls `get_antitargets` with this minimum size … -/
theorem do_antitarget_hands_on_effective_min (tg : Table) (acc : Option Table) (avg : Rat) (mn : Option Int) :
    doAntitarget tg acc avg mn = getAntitargets tg acc avg (Src.effectiveMinSize avg mn) :=
  Src.doAntitarget_eq tg acc avg mn

/-- … which IS the expression the source computes when `min_bin_size` is a number (`if not min_bin_size:` is true
    for 0: the default `2 * int(avg_bin_size * 2**MIN_REF_COVERAGE)` replaces it) … -/
theorem effective_min_is_the_source_given (avg : Rat) (m : Int) :
    ((Src.effectiveMinSize avg (some m) : Int) : Rat) = src_antitarget_min_given avg (m : Rat) :=
  Src.effectiveMin_given_is_source avg m

/-- … and when it is left `None` -/
theorem effective_min_is_the_source_absent (avg : Rat) :
    ((Src.effectiveMinSize avg none : Int) : Rat) = src_antitarget_min_absent avg :=
  Src.effectiveMin_absent_is_source avg

end CnvVerif.C12
