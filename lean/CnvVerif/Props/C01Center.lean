/-
  C01 (round 5c) — `cnvkit.py call --center <estimator>`: C15's `center_all` composed into the command model.  Centring and
  then calling IS calling the uniformly shifted table: every log2 minus ONE constant, the estimator (of the per-chromosome
  estimates) of the autosomes; that constant zeroes the estimator of the table `do_call` receives; and `--center name`
  equals `--center-at c` for that constant c.
-/
import CnvVerif.Props.C01Cmd
import CnvVerif.Lemmas.CallCmdCenterExt5c
namespace CnvVerif.C01
open CnvVerif CnvVerif.C01Ctr

/-- the table handed to `do_call` after `center_all` is the table as read with one constant taken off every log2 -/
theorem ctr_centered_rows_are_uniform_shift (est : List Rat → Rat) (skipLow : Bool) (par : Option String)
    (pow2 : Rat → Rat) (rows : List SegRow) :
    centerRows est skipLow par pow2 rows = shiftRows pow2 (-(centerConst est skipLow par rows)) rows :=
  centerRows_eq_shiftRows est skipLow par pow2 rows

/-- centring then calling equals calling the uniformly shifted table (any accepted purity, method, estimator) -/
theorem ctr_center_then_call_is_call_of_shifted (ests : String → Option (List Rat → Rat)) (skipLow : Bool)
    (pow2 : Rat → Rat) (a : CmdCallArgs) (ploidy : Nat) (hapX : Bool) (par : Option String) (g : Bool) (m : Method)
    (thr tp : List Rat) (hasBaf : Bool) (rows rs : List SegRow) (n : String) (cfg : CallCfg) (est : List Rat → Rat)
    (hplan : cmdCallPlan a ploidy hapX par g tp = .ok (.estimator n, cfg)) (hest : ests n = some est) :
    cmdCallCentered ests skipLow pow2 a ploidy hapX par g m thr tp hasBaf rows rs =
      .ok (callTable cfg m thr hasBaf (shiftRows pow2 (-(centerConst est skipLow par rows)) rows)) := by
  unfold cmdCallCentered
  rw [hplan]; simp only [hest, centerRows_eq_shiftRows]

/-- an estimator name `center_all` does not know is refused (ValueError), never silently ignored -/
theorem ctr_unknown_estimator_refused (ests : String → Option (List Rat → Rat)) (skipLow : Bool)
    (pow2 : Rat → Rat) (a : CmdCallArgs) (ploidy : Nat) (hapX : Bool) (par : Option String) (g : Bool) (m : Method)
    (thr tp : List Rat) (hasBaf : Bool) (rows rs : List SegRow) (n : String) (cfg : CallCfg)
    (hplan : cmdCallPlan a ploidy hapX par g tp = .ok (.estimator n, cfg)) (hest : ests n = none) :
    cmdCallCentered ests skipLow pow2 a ploidy hapX par g m thr tp hasBaf rows rs = .error "ValueError" := by
  unfold cmdCallCentered
  rw [hplan]; simp only [hest]

/-- without `--center` (or under a non-zero `--center-at`) the extended command is the command of Model/CallCmd.lean -/
theorem ctr_other_branches_unchanged (ests : String → Option (List Rat → Rat)) (skipLow : Bool)
    (pow2 : Rat → Rat) (a : CmdCallArgs) (ploidy : Nat) (hapX : Bool) (par : Option String) (g : Bool) (m : Method)
    (thr tp : List Rat) (hasBaf : Bool) (rows rs : List SegRow)
    (h : ∀ n, cmdRecenter a.centerAt a.center ≠ .estimator n) :
    cmdCallCentered ests skipLow pow2 a ploidy hapX par g m thr tp hasBaf rows rs =
      cmdCall a ploidy hapX par g m thr tp hasBaf rows rs := by
  unfold cmdCallCentered
  cases hp : cmdCallPlan a ploidy hapX par g tp with
  | error e => rfl
  | ok pr =>
    obtain ⟨rc, cfg⟩ := pr
    cases rc with
    | shiftBy c => rfl
    | none => rfl
    | estimator n =>
      exfalso
      unfold cmdCallPlan at hp
      split at hp
      · cases hp
      · injection hp with hp
        exact h n (congrArg Prod.fst hp)

/-- the constant zeroes the estimator: re-estimating the centre of the table `do_call` receives gives 0, for every
    translation-equivariant estimator (median and mean are: `C15.median_mean_equivariant`), every genome option,
    whenever all log2 are present and the autosome selection is non-empty (it is for every non-empty table) -/
theorem ctr_centered_table_has_zero_centre (est : List Rat → Rat) (he : TransEquiv est) (par : Option String)
    (pow2 : Rat → Rat) (rows : List SegRow) (hp : allPresent rows = true)
    (hsel : autosomesOf (((binsOf rows).head?.map (·.chrom)).getD "") par (binsOf rows) ≠ []) :
    centerConst est false par (centerRows est false par pow2 rows) = 0 := by
  rw [centerRows_eq_shiftRows]
  unfold centerConst centerEstimate
  rw [binsOf_shiftRows _ _ _ hp, neg_neg]
  have := centerShift_of_centered est he par (binsOf rows) hsel
  unfold addLog2 at this
  rw [this]; rfl

/-- `--center name` is `--center-at c` for c = the estimate, whenever that estimate is not 0 (a zero estimate: both leave
    the table alone up to the identity shift) -/
theorem ctr_center_is_center_at_estimate (ests : String → Option (List Rat → Rat)) (skipLow : Bool)
    (pow2 : Rat → Rat) (purity : Option Rat) (sex : Option String) (ploidy : Nat) (hapX : Bool) (par : Option String)
    (g : Bool) (m : Method) (thr tp : List Rat) (hasBaf : Bool) (rows : List SegRow) (n : String) (hn : n ≠ "")
    (est : List Rat → Rat) (hest : ests n = some est) (hc : centerConst est skipLow par rows ≠ 0) :
    cmdCallCentered ests skipLow pow2 { purity, centerAt := none, center := some n, sampleSex := sex }
        ploidy hapX par g m thr tp hasBaf rows rows =
      cmdCall { purity, centerAt := some (centerConst est skipLow par rows), center := none, sampleSex := sex }
        ploidy hapX par g m thr tp hasBaf rows (shiftRows pow2 (-(centerConst est skipLow par rows)) rows) := by
  unfold cmdCallCentered cmdCall cmdCallPlan
  by_cases hr : cmdPurityRejected purity = true
  · simp [hr]
  · simp [hr, cmdRecenter, hn, hc, hest, centerRows_eq_shiftRows]

/-! non-vacuity -/
example : estimatorOf medianR meanR medianR medianR "bogus" = none := by decide +kernel
example : TransEquiv meanR ∧ TransEquiv medianR := ⟨meanR_transEquiv, medianR_transEquiv⟩
example :
    let rows : List SegRow := [⟨"chr1", 0, 10, some 1, 2, none⟩, ⟨"chr1", 10, 20, some 3, 8, none⟩,
                               ⟨"chr2", 0, 10, some 4, 16, none⟩, ⟨"chrX", 0, 10, some (-7), 0, none⟩]
    allPresent rows = true ∧
    (shiftRows (fun x => x) (-3) rows).map (·.v) = [some (-2), some 0, some 1, some (-10)] := by
  decide +kernel

end CnvVerif.C01
