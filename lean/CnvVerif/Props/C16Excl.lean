/-
  C16, round 4 — the property's hypothesis is NECESSARY, and what `by_gene` does where it fails.

  The partition theorem of Props/C16.lean assumes that every named gene's bins are consecutive (`Contiguous`).  The
  real code is also run at the excluded points (interleaved genes, comma-joined multi-gene bins: the malformed stream
  of the harness, compared with this model row for row); here is what the model -- and, by that comparison, the code --
  does there, for ALL tables:

  * no bin is ever lost (`byGene_every_bin_in_some_group`), so the groups never hold fewer bins than the table;
  * a bin belongs to the group of EACH gene its name lists (`byGene_bin_in_each_listed_gene`);
  * the groups hold exactly as many bins as the table -- no bin twice -- IF AND ONLY IF the hypothesis holds
    (`byGene_no_bin_twice_iff`), and concatenate to the chromosome's rows if and only if it holds
    (`byGene_partition_iff`): where genes interleave or a bin lists two genes, some bin IS yielded twice.

  `totalLen gs` = number of bins the groups hold together, a bin yielded twice counted twice.
-/
import CnvVerif.Props.C16
import CnvVerif.Lemmas.GenesExt
namespace CnvVerif.C16
open CnvVerif CnvVerif.Genes

/-- **the partition theorem is an equivalence**: the groups of one chromosome, concatenated, are its rows exactly when
    every named gene's bins are consecutive -/
theorem byGene_partition_iff (ignore : List String) (rs : List Bin) :
    ((byGeneChrom ignore rs).map (·.2)).flatten = rs ↔ Contiguous (fullIgnore ignore) rs :=
  byGeneChrom_partition_iff' ignore rs

/-- **no bin is ever lost** (no hypothesis): every row of the chromosome is in some yielded group -/
theorem byGene_every_bin_in_some_group (ignore : List String) (rs : List Bin) :
    ∀ b ∈ rs, ∃ p ∈ byGeneChrom ignore rs, b ∈ p.2 := byGeneChrom_covers ignore rs

/-- **never fewer bins than the chromosome has** (no hypothesis) -/
theorem byGene_bin_count_ge (ignore : List String) (rs : List Bin) :
    rs.length ≤ totalLen (byGeneChrom ignore rs) := byGeneChrom_length_ge ignore rs

/-- **none twice, exactly under the hypothesis**: the groups hold as many bins as the chromosome has iff every named
    gene's bins are consecutive; otherwise they hold more -- some bin is yielded twice -/
theorem byGene_no_bin_twice_iff (ignore : List String) (rs : List Bin) :
    totalLen (byGeneChrom ignore rs) = rs.length ↔ Contiguous (fullIgnore ignore) rs :=
  byGeneChrom_length_eq_iff ignore rs

/-- **multi-gene bins**: a bin belongs to the group of each gene its (comma-separated) name lists -/
theorem byGene_bin_in_each_listed_gene (ignore : List String) (rs : List Bin) (i : Nat) (b : Bin) (g : String)
    (hb : rs[i]? = some b) (hn : g ∈ names b) (hg : (fullIgnore ignore).contains g = false) :
    ∃ grp, (g, grp) ∈ byGeneChrom ignore rs ∧ b ∈ grp :=
  byGeneChrom_bin_in_each_gene ignore rs i b g hb hn hg

/-! ### whole tables (any row order) -/

/-- every bin of the table is in some yielded group -/
theorem byGene_table_every_bin_in_some_group (ignore : List String) (t : List Bin) :
    ∀ b ∈ t, ∃ p ∈ byGene ignore t, b ∈ p.2 := byGene_covers ignore t

/-- **every bin exactly once iff the hypothesis holds on every chromosome** -/
theorem byGene_each_bin_once_iff (ignore : List String) (t : List Bin) :
    (((byGene ignore t).map (·.2)).flatten).Perm t ↔ TableContiguous (fullIgnore ignore) t :=
  byGene_each_bin_once_iff' ignore t

/-- the groups of a table never hold fewer bins than the table, and exactly as many iff the hypothesis holds -/
theorem byGene_table_bin_count (ignore : List String) (t : List Bin) :
    t.length ≤ totalLen (byGene ignore t) ∧
    (totalLen (byGene ignore t) = t.length ↔ TableContiguous (fullIgnore ignore) t) :=
  ⟨byGene_length_ge ignore t, byGene_length_eq_iff ignore t⟩

/-! ### the excluded points, concretely -/

/-- a comma-joined bin between two genes is yielded with BOTH (and so twice) -/
example : (byGene defaultIgnore
      [⟨0, "chr1", 0, 10, "A", 1, 1, 1⟩, ⟨1, "chr1", 10, 20, "A,B", 1, 1, 1⟩, ⟨2, "chr1", 20, 30, "B", 1, 1, 1⟩]).map
      (fun p => (p.1, p.2.map (·.label))) = [("A", [0, 1]), ("B", [1, 2])] := by decide

/-- interleaved genes A B A: B's bin is yielded with A and with B, and A's last bin once more as "Antitarget"
    (`prev_idx` went backwards) -/
example : (byGene defaultIgnore
      [⟨0, "chr1", 0, 10, "A", 1, 1, 1⟩, ⟨1, "chr1", 10, 20, "B", 1, 1, 1⟩, ⟨2, "chr1", 20, 30, "A", 1, 1, 1⟩]).map
      (fun p => (p.1, p.2.map (·.label))) = [("A", [0, 1, 2]), ("B", [1]), ("Antitarget", [2])] := by decide

/-- … and that table does not meet the hypothesis, in accordance with `byGene_no_bin_twice_iff` (5 bins yielded, 3 rows) -/
example : totalLen (byGeneChrom defaultIgnore
      [⟨0, "chr1", 0, 10, "A", 1, 1, 1⟩, ⟨1, "chr1", 10, 20, "B", 1, 1, 1⟩, ⟨2, "chr1", 20, 30, "A", 1, 1, 1⟩]) = 5 := by
  decide

/-- the demo table of Props/C16.lean meets it: 7 rows, 7 bins yielded -/
example : totalLen (byGene defaultIgnore demo) = demo.length := by decide

end CnvVerif.C16
