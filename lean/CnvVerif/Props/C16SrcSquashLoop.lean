/-
  C16 (round 5b): the OUTER loop of `CopyNumArray.squash_genes` is tied to the source text.

  `harness/extractors/exprs_squashloop.py` re-reads on every run the statements of `squash_genes` outside the nested
  `squash_rows` -- `outrows = []`, `for name, subarr in self.by_gene(ignore)`, the `continue` on an empty group, the
  pass-through `extend` of the rows of an antitarget / ignored-name group, the `append` of ONE squashed row otherwise,
  `return self.as_rows(outrows)` -- into `Generated.src_squashloop_step` / `src_squashloop`.  Here the hand-written model
  (`squashGroup`, `squashGenes` of Model/Genes.lean, whose clauses are the theorems of Props/C16SquashLoop.lean) is
  proved EQUAL to the generated definitions for all arguments (by case analysis, not `rfl`: an equivalent spelling of
  the tests, swapped branches, `if len(..)` nesting instead of `continue`, renamed locals keep it green).
-/
import CnvVerif.Props.C16SquashLoop
import CnvVerif.Generated.ExprsSquashLoop
namespace CnvVerif.C16
open CnvVerif CnvVerif.Genes CnvVerif.Generated

/-- **source tie, one pass**: what the model lets one group contribute is the loop body of the source -/
theorem squashloop_step_is_the_source (f : Summary) (sa : Bool) (p : String × List Bin) :
    squashGroup f sa p = src_squashloop_step (squashloopRow f) sa p.1 p.2 := by
  obtain ⟨name, rows⟩ := p
  cases rows with
  | nil => simp [squashGroup, src_squashloop_step]
  | cons a as =>
    have h := squashloop_rows_some f name a as
    cases sa <;> by_cases hc : name ∈ ANTITARGET_ALIASES <;>
      simp [squashGroup, src_squashloop_step, hc, h]

/-- **source tie, the whole loop**: `squash_genes` of the model is the loop of the source run over the groups of
    `by_gene(ignore)`, which is what the source iterates over (its third parameter passed on), returned by `as_rows` -/
theorem squashloop_is_the_source (f : Summary) (sa : Bool) (ignore : List String) (t : List Bin) (pre : Bool) :
    squashGenes f sa ignore t pre = src_squashloop (squashloopRow f) sa (byGeneV pre ignore t) ∧
    src_squashloop_iter = ("by_gene", [src_squashloop_params.getD 2 ""]) ∧ src_squashloop_result = "as_rows" := by
  refine ⟨?_, by decide, by decide⟩
  unfold squashGenes src_squashloop
  congr 1
  funext p
  exact squashloop_step_is_the_source f sa p

end CnvVerif.C16
