/-
  C17 — segment statistics and bin tests match their definitions on the right bins.
  Property theorems only; helper lemmas live in Lemmas/Stats.lean (tables), Lemmas/StatsPct.lean
  (order statistics, intervals) and Lemmas/StatsBH.lean (Benjamini–Hochberg).
-/
import CnvVerif.Model.Stats
import CnvVerif.Lemmas.Stats
import CnvVerif.Lemmas.StatsBH
import CnvVerif.Lemmas.StatsPct
namespace CnvVerif.C17
open CnvVerif CnvVerif.Stats

/-! ### constants read from the source (an edit in /repo breaks exactly these) -/

/-- `do_segmetrics` asks `iter_ranges_of` for the *overlapping* bins -/
theorem segmetrics_uses_outer : segmetricsMode = Mode.outer := by decide

/-- IQR = 75th − 25th percentile; MAD is scaled by 1.4826; the z-test tail is two-sided (factor 2);
    low coverage means log2 < −15; the bootstrap re-seeds the generator exactly once per call -/
theorem constants :
    Generated.IQR_PERCENTILES = [75, 25] ∧
    Generated.MAD_SCALE_dec = 7413 / 5000 ∧ Generated.BIVAR_MAD_SCALE = Generated.MAD_SCALE ∧
    Generated.ZPROB_TAIL_FACTORS = [2] ∧
    Generated.NULL_LOG2_COVERAGE - Generated.MIN_REF_COVERAGE = -15 ∧
    Generated.BOOTSTRAP_SEEDS.length = 1 := by decide +kernel

/-! ### each statistic is computed over exactly the bins overlapping its own segment

    `BinsWF`: every chromosome's bins are sorted by start, `0 ≤ start < end` (bins may overlap, nest
    or abut).  `SegsWF`: each chromosome's segments are adjacent rows, starts `≥ 0` (segments may
    overlap, leave gaps, or lie on chromosomes without bins).  `overlapping bins sg` = the bins on
    `sg`'s chromosome with `end > sg.start ∧ start < sg.end`. -/

/-- row `i` of the result is computed from segment `i` and exactly the bins overlapping it, after
    `drop_low_coverage` when `skip_low` is set -/
theorem stats_on_overlapping_bins (cfg : Cfg) (bins : List Bin) (segs : List Seg)
    (boots : List (List BootRow))
    (hb : BinsWF (if cfg.skipLow then dropLow bins else bins)) (hs : SegsWF segs) :
    doSegmetrics cfg bins segs boots =
      (segs.zip (boots ++ List.replicate segs.length [])).map
        (fun x => segRow cfg x.1 (overlapping (if cfg.skipLow then dropLow bins else bins) x.1) x.2) :=
  doSegmetrics_rows cfg bins segs boots hb hs

/-- location statistics (mean, median, t-test) are functions of the bins' log2 … -/
theorem location_of_bin_log2 (cfg : Cfg) (sg : Seg) (bs : List Bin) (boot : List BootRow)
    (nm : String) (f : List Rat → StatOut) (hf : locationStat nm = some f) (hn : nm ∈ cfg.loc) :
    (nm, f (bs.map (·.log2))) ∈ (segRow cfg sg bs boot).stats :=
  mem_stats_location cfg sg bs boot nm f hf hn

/-- … spread statistics are functions of the deviations `bin log2 − segment log2` -/
theorem spread_of_deviations_from_segment_log2 (cfg : Cfg) (sg : Seg) (bs : List Bin)
    (boot : List BootRow) (nm : String) (f : List Rat → StatOut)
    (hf : spreadStat nm = some f) (hn : nm ∈ cfg.spread) :
    (nm, f ((bs.map (·.log2)).map (· - sg.log2))) ∈ (segRow cfg sg bs boot).stats :=
  mem_stats_spread cfg sg bs boot nm f hf hn

/-- the input segments' own columns come back unchanged, row for row -/
theorem segment_columns_unchanged (cfg : Cfg) (bins : List Bin) (segs : List Seg)
    (boots : List (List BootRow)) : (doSegmetrics cfg bins segs boots).map (·.seg) = segs :=
  doSegmetrics_segs cfg bins segs boots

/-! ### the statistics are the ones the property names (for two or more bins) -/

theorem location_definitions (a b : Rat) (l : List Rat) :
    let d := a :: b :: l
    (statMean d).val = .num (d.sum / d.length) ∧
    (statMedian d).val = .num (medianSorted (sortR d)) ∧
    (var1 d ≠ 0 → (statTtest d).val = .tTail (d.length - 1) (meanR d * meanR d * d.length / var1 d)) := by
  refine ⟨rfl, rfl, ?_⟩
  intro hv
  have hlen : ¬ (l.length + 1 + 1 < 2) := by omega
  simp [statTtest, hv, hlen]

theorem spread_definitions (a b : Rat) (l : List Rat) :
    let d := a :: b :: l
    (statStdev d).val = .sqrtOf ((d.map (fun x => (x - meanR d) * (x - meanR d))).sum / d.length) ∧
    (statMad d).val = .num (median (d.map (fun x => rabs (x - median d))) * Generated.MAD_SCALE) ∧
    (statMse d).val = .num ((d.map (fun x => x * x)).sum / d.length) ∧
    (statIqr d).val = .num (percentile d 75 - percentile d 25) ∧
    (statSem d).val = .sqrtOf ((d.map (fun x => (x - meanR d) * (x - meanR d))).sum / (d.length - 1) / d.length) := by
  refine ⟨rfl, rfl, ?_, rfl, ?_⟩
  · simp [statMse, onArray, mseBody, meanSq, meanR]
  · have hlen : ¬ (l.length + 1 + 1 < 2) := by omega
    simp [statSem, var1, sumSqDev, hlen]

/-- mse is the mean squared deviation from the segment log2 (from zero), not the variance … -/
theorem mse_is_mean_square (d : List Rat) (h : 2 ≤ d.length) : (statMse d).val = .num (meanSq d) := by
  match d, h with
  | _ :: _ :: _, _ => rfl

/-- … which is what the code computed before fix M: deviations 1 and 3 gave 1 instead of 5 -/
theorem mse_prefix_counterexample :
    (statMsePrefix [1, 3]).val = .num 1 ∧ (statMse [1, 3]).val = .num 5 := by decide +kernel

/-! ### prediction interval and bootstrap confidence interval -/

/-- `pi_lo ≤ median ≤ pi_hi` for every non-empty set of bins and every `alpha` in (0,1) -/
theorem pi_brackets_median (l : List Rat) (hne : l ≠ []) (alpha : Rat) (h0 : 0 < alpha) (h1 : alpha < 1) :
    (piFunc l alpha).1 ≤ median l ∧ median l ≤ (piFunc l alpha).2 :=
  piFunc_brackets_median l hne alpha h0 h1

/-- the prediction interval is the pair of `alpha/2` and `1 − alpha/2` percentiles -/
theorem pi_is_percentile_pair (l : List Rat) (alpha : Rat) :
    piFunc l alpha = (percentile l (100 * alpha / 2), percentile l (100 * (1 - alpha / 2))) := rfl

/-- `ci_lo ≤ ci_hi` whatever the bootstrap draws (smoothed or not) -/
theorem ci_ordered (vals wts : List Rat) (alpha : Rat) (h0 : 0 < alpha) (h1 : alpha < 1)
    (boot : List BootRow) : (ciBoot vals wts alpha boot).1 ≤ (ciBoot vals wts alpha boot).2 :=
  ciBoot_ordered vals wts alpha h0 h1 boot

/-- the plain (unsmoothed) bootstrap interval lies inside the range of the bins' log2 when all
    weights are positive, whatever positions were drawn -/
theorem ci_within_bin_range (vals wts : List Rat) (hlen : vals.length = wts.length) (hne : vals ≠ [])
    (hw : ∀ x ∈ wts, 0 < x) (alpha : Rat) (h0 : 0 < alpha) (h1 : alpha < 1)
    (boot : List BootRow) (hb : BootWF vals.length boot) (lo hi : Rat) (hr : ∀ x ∈ vals, lo ≤ x ∧ x ≤ hi) :
    lo ≤ (ciBoot vals wts alpha boot).1 ∧ (ciBoot vals wts alpha boot).2 ≤ hi :=
  ciBoot_within_range vals wts hlen hne hw alpha h0 h1 boot hb lo hi hr

/-- the interval is a function of the values, weights, alpha and the draws only — and the draws are
    what the fixed seed determines — so two runs agree -/
theorem ci_reproducible (vals wts : List Rat) (alpha : Rat) (boot boot' : List BootRow) (h : boot = boot') :
    ciBoot vals wts alpha boot = ciBoot vals wts alpha boot' := by rw [h]

/-! ### Benjamini–Hochberg, exactly -/

/-- `p_adjust_bh` (descending argsort, steps `n/(n−i)`, running minimum, cap at 1, unsort) computes
    `q_i = min(1, min_{j : p_j ≥ p_i} n·p_j / #{k | p_k ≤ p_j})` -/
theorem bh_characterisation (p : List Rat) (h0 : ∀ x ∈ p, 0 ≤ x) :
    padjustBH p = p.map (fun v => ((p.filter (fun x => v ≤ x)).map
      (fun x => (p.length : Rat) * x / ((p.countP (fun y => y ≤ x) : Nat) : Rat))).foldl min 1) :=
  padjustBH_eq_closed p h0

/-- … where that fold is the least of 1 and the admissible terms -/
theorem bh_closed_form_is_least (p : List Rat) (v : Rat) :
    (bhClosedAt p v = 1 ∨ ∃ x ∈ p, v ≤ x ∧ bhClosedAt p v = bhTerm p x) ∧
    bhClosedAt p v ≤ 1 ∧ (∀ x ∈ p, v ≤ x → bhClosedAt p v ≤ bhTerm p x) :=
  ⟨(bhClosedAt_spec p v).1, bhClosedAt_le_one p v, (bhClosedAt_spec p v).2⟩

theorem bh_length (p : List Rat) : (padjustBH p).length = p.length := padjustBH_length p

/-- `p_i ≤ q_i ≤ 1` -/
theorem bh_bounds (p : List Rat) (h01 : ∀ x ∈ p, 0 ≤ x ∧ x ≤ 1) :
    ∀ e ∈ p.zip (padjustBH p), e.1 ≤ e.2 ∧ e.2 ≤ 1 := by
  intro e he
  rw [padjustBH_eq_closed p (fun x hx => (h01 x hx).1)] at he
  obtain ⟨hx, h2⟩ := mem_zip_map_self' (bhClosedAt p) p e he
  rw [h2]
  exact ⟨le_bhClosedAt p (fun x hx => (h01 x hx).1) e.1 (h01 e.1 hx).2, bhClosedAt_le_one p e.1⟩

/-- monotone: a smaller p-value never gets a larger adjusted value; ties get equal values -/
theorem bh_monotone (p : List Rat) (h0 : ∀ x ∈ p, 0 ≤ x) :
    ∀ e ∈ p.zip (padjustBH p), ∀ f ∈ p.zip (padjustBH p), e.1 ≤ f.1 → e.2 ≤ f.2 := by
  intro e he f hf hle
  rw [padjustBH_eq_closed p h0] at he hf
  rw [(mem_zip_map_self' (bhClosedAt p) p e he).2, (mem_zip_map_self' (bhClosedAt p) p f hf).2]
  exact bhClosedAt_mono p e.1 f.1 hle

theorem bh_ties_equal (p : List Rat) (h0 : ∀ x ∈ p, 0 ≤ x) :
    ∀ e ∈ p.zip (padjustBH p), ∀ f ∈ p.zip (padjustBH p), e.1 = f.1 → e.2 = f.2 := by
  intro e he f hf heq
  rw [padjustBH_eq_closed p h0] at he hf
  rw [(mem_zip_map_self' (bhClosedAt p) p e he).2, (mem_zip_map_self' (bhClosedAt p) p f hf).2, heq]

/-! ### bintest -/

/-- the raw p-value of a bin is the two-sided normal tail of `(log2 − segment mean)/√(1 − weight)`:
    `tail` maps `z²` to `2Φ(−|z|)` -/
theorem bintest_p_is_normal_tail (tail : Rat → Rat) (resid w : Rat) (hr : resid ≠ 0) (hw : w ≠ 1) :
    pRaw tail resid w = tail (resid * resid / (1 - w)) := by
  simp [pRaw, hr, hw]

/-- every tested bin lies inside a segment and its residual is `log2 − that segment's log2` -/
theorem bintest_residual_against_containing_segment (bins : List Bin) (segs : List Seg)
    (hb : BinsWF bins) (hs : SegsWF segs) (t : Bool) (b : Bin) (r : Rat)
    (h : (b, r) ∈ testedRows bins segs t) :
    b ∈ bins ∧ ∃ sg ∈ segs, b.row.chrom = sg.row.chrom ∧ sg.row.s ≤ b.row.s ∧ b.row.e ≤ sg.row.e ∧
      r = b.log2 - sg.log2 :=
  testedRows_residual bins segs hb hs t b r h

/-- the adjusted p-values are Benjamini–Hochberg of the raw tails over the tested bins -/
theorem bintest_adjusted_by_bh (tail : Rat → Rat) (bins : List Bin) (segs : List Seg) (t : Bool) :
    (bintestAll tail bins segs t).map (·.q) =
      padjustBH ((testedRows bins segs t).map (fun r => pRaw tail r.2 r.1.weight)) :=
  bintestAll_q tail bins segs t

/-- it returns exactly the tested bins whose adjusted p is below alpha -/
theorem bintest_selects_below_alpha (tail : Rat → Rat) (bins : List Bin) (segs : List Seg)
    (alpha : Rat) (t : Bool) (h : Hit) :
    h ∈ doBintest tail bins segs alpha t ↔ h ∈ bintestAll tail bins segs t ∧ h.q < alpha :=
  mem_doBintest tail bins segs alpha t h

/-- on-target only when asked -/
theorem target_only_drops_antitargets (tail : Rat → Rat) (bins : List Bin) (segs : List Seg)
    (alpha : Rat) (h : Hit) (hh : h ∈ doBintest tail bins segs alpha true) :
    h.bin.gene ∉ Generated.ANTITARGET_ALIASES :=
  bintestAll_on_target tail bins segs h ((mem_doBintest tail bins segs alpha true h).mp hh).1

/-! ### non-vacuity -/

def exBins : List Bin :=
  [⟨⟨"chr1", 0, 100, "0"⟩, "G1", 1, 1/2, none⟩, ⟨⟨"chr1", 100, 200, "1"⟩, "G1", 3, 1/2, none⟩,
   ⟨⟨"chr1", 150, 260, "2"⟩, "Antitarget", 0, 1, none⟩, ⟨⟨"chr2", 10, 60, "3"⟩, "G2", -1, 1/4, none⟩]
def exSegs : List Seg := [⟨⟨"chr1", 0, 180, "-"⟩, 0⟩, ⟨⟨"chr1", 180, 300, "-"⟩, 1⟩, ⟨⟨"chr2", 0, 100, "-"⟩, -1⟩]

example : BinsWF exBins := by
  apply binsWF_of_pairwise
  · decide
  · decide
example : SegsWF exSegs := ⟨by decide, by decide⟩
example : (overlapping exBins ⟨⟨"chr1", 0, 180, "-"⟩, 0⟩).map (·.log2) = [1, 3, 0] := by decide +kernel
example : (statMse [1, 3, 0]).val = .num (10 / 3) := by decide +kernel
example : padjustBH [1/100, 1/25, 1/25, 1/2] = [1/25, 4/75, 4/75, 1/2] := by
  rw [padjustBH_eq_closed _ (by decide +kernel)]
  decide +kernel
example : BootWF 3 [⟨[0, 2, 2], []⟩, ⟨[1, 1, 0], []⟩] := by
  refine ⟨by decide, ?_⟩
  intro r hr
  simp at hr
  rcases hr with rfl | rfl <;> decide

end CnvVerif.C17
