/-
  C16 — gene-level grouping yields each gene's own bins, each bin exactly once.
  Property theorems only; helper lemmas live in Lemmas/Genes.lean, the model in Model/Genes.lean.

  Vocabulary (Model/Genes.lean): a `Bin` carries its pandas index label; `names b` are the
  comma-separated names of a bin, `named ign b` those that are neither ignored nor an Antitarget
  alias; `Contiguous ign rs` is the property's hypothesis for the rows of one chromosome ("every
  named gene's bins are consecutive, possibly interrupted only by Antitarget or ignored-name
  bins"), `TableContiguous` the same for every chromosome of a table; `slice rs a b` = `iloc[a:b]`.
-/
import CnvVerif.Model.Genes
import CnvVerif.Lemmas.Genes
namespace CnvVerif.C16
open CnvVerif CnvVerif.Genes

/-! ### the constants the property names -/

/-- the names that never form a gene: '-', '.', 'CGH' and the Antitarget aliases -/
theorem ignored_names_are :
    fullIgnore defaultIgnore = ["-", ".", "CGH", "Antitarget", "Background"] ∧ antitarget = "Antitarget" := by
  decide

/-- `skip_low` drops the bins below log2 −15 (= −20 − (−5)) -/
theorem low_coverage_cutoff : minCvg = -15 := by decide +kernel

/-! ### by_gene on one chromosome -/

/-- **each bin exactly once, in genomic order**: concatenating the yielded groups gives back the
    chromosome's rows -/
theorem byGene_partition (ignore : List String) (rs : List Bin)
    (h : Contiguous (fullIgnore ignore) rs) :
    ((byGeneChrom ignore rs).map (·.2)).flatten = rs := byGeneChrom_partition' ignore rs h

/-- **a gene's group is exactly its bins from first to last**: it is the slice `[f, l]` where `f`
    and `l` carry the gene's name and no bin outside `[f, l]` does (no hypothesis needed) -/
theorem byGene_gene_group_exact (ignore : List String) (rs : List Bin) (g : String) (grp : List Bin)
    (hmem : (g, grp) ∈ byGeneChrom ignore rs) (hg : (fullIgnore ignore).contains g = false) :
    ∃ f l, f ≤ l ∧ grp = slice rs f (l + 1) ∧
      (∃ b, rs[f]? = some b ∧ g ∈ names b) ∧ (∃ b, rs[l]? = some b ∧ g ∈ names b) ∧
      ∀ i b, rs[i]? = some b → g ∈ names b → f ≤ i ∧ i ≤ l :=
  byGeneChrom_gene_group' ignore rs g grp hmem hg

/-- **every named gene gets exactly one group**: the gene-labelled groups carry pairwise different
    names, and a name labels a group iff it is a (non-ignored) name of some bin -/
theorem byGene_each_gene_once (ignore : List String) (rs : List Bin) :
    (((byGeneChrom ignore rs).map (·.1)).filter (fun g => !(fullIgnore ignore).contains g)).Nodup ∧
    ∀ g, g ∈ ((byGeneChrom ignore rs).map (·.1)).filter (fun g => !(fullIgnore ignore).contains g) ↔
      ((fullIgnore ignore).contains g = false ∧ ∃ b ∈ rs, g ∈ names b) :=
  byGeneChrom_genes_once' ignore rs

/-- **the other groups are the stretches of other bins**: a group whose label is not a gene is
    labelled Antitarget, is not empty and holds only bins without a gene name … -/
theorem byGene_antitarget_gaps (ignore : List String) (rs : List Bin)
    (h : Contiguous (fullIgnore ignore) rs) (g : String) (grp : List Bin)
    (hmem : (g, grp) ∈ byGeneChrom ignore rs) (hg : (fullIgnore ignore).contains g = true) :
    g = antitarget ∧ grp ≠ [] ∧ ∀ b ∈ grp, named (fullIgnore ignore) b = [] :=
  byGeneChrom_antitarget' ignore rs h g grp hmem hg

/-- … and a stretch is never cut in two: no two consecutive groups are both Antitarget -/
theorem byGene_antitarget_maximal (ignore : List String) (rs : List Bin) :
    NoTwoAT (byGeneChrom ignore rs) := byGeneChrom_noTwoAT' ignore rs

/-- **any index labelling** (default, offset, filtered, permuted): relabelling the rows relabels
    the groups and changes nothing else -/
theorem byGene_any_labelling (f : Bin → Int) (ignore : List String) (rs : List Bin) :
    byGeneChrom ignore (rs.map (relabel f)) =
      (byGeneChrom ignore rs).map (fun p => (p.1, p.2.map (relabel f))) :=
  byGeneChrom_relabel' f ignore rs

/-! ### by_gene on a whole table -/

/-- chromosome by chromosome, in the order `by_chromosome()` hands them out -/
theorem byGene_genomic_order (ignore : List String) (t : List Bin)
    (h : TableContiguous (fullIgnore ignore) t) :
    ((byGene ignore t).map (·.2)).flatten = ((byChrom t).map (·.2)).flatten :=
  byGene_partition' ignore t h

/-- **in genomic order**: when the rows of each chromosome are adjacent (a sorted table) the
    yielded groups, concatenated, are the table itself -/
theorem byGene_table_partition (ignore : List String) (t : List Bin)
    (h : TableContiguous (fullIgnore ignore) t) (hg : ChromGrouped t) :
    ((byGene ignore t).map (·.2)).flatten = t := by
  rw [byGene_partition' ignore t h, byChrom_flatten_of_grouped' t hg]

/-- **every bin is yielded exactly once and none twice** (any row order) -/
theorem byGene_each_bin_once (ignore : List String) (t : List Bin)
    (h : TableContiguous (fullIgnore ignore) t) :
    (((byGene ignore t).map (·.2)).flatten).Perm t := byGene_each_bin_once' ignore t h

/-- the check the driver runs before evaluating the clauses is this hypothesis -/
theorem hypothesis_decidable (ign : List String) (t : List Bin) :
    tableContiguousB ign t = true ↔ TableContiguous ign t := tableContiguousB_iff' ign t

/-! ### genemetrics -/

/-- **the reported row of a gene group**: the gene's true start, end, bin count, summed weight,
    weight-averaged depth and mean log2 -/
theorem genemetrics_row_exact (g : String) (rows : List Bin) (skip : Bool) (r : GRow)
    (h : groupRow g rows skip = some r) :
    ∃ first last, rows.head? = some first ∧ rows.getLast? = some last ∧
      r.gene = g ∧ r.chrom = first.chrom ∧ r.s = first.s ∧ r.e = last.e ∧
      r.probes = rows.length ∧ r.weight = sumRat (rows.map (·.weight)) ∧
      r.log2 = segmentMean rows skip ∧ r.segWeight = none ∧ r.segProbes = none ∧
      (r.weight ≠ 0 → r.depth = some (sumRat (rows.map (fun b => b.depth * b.weight)) / r.weight)) :=
  groupRow_fields h

/-- the mean is the weight-averaged log2 of the bins kept (all bins, or with `skip_low` those that
    are not below −15 and have depth ≠ 0) -/
theorem genemetrics_weighted_mean (rows : List Bin) (skip : Bool)
    (h : ((if skip then rows.filter keptLow else rows).any (fun b => b.weight != 0)) = true) :
    segmentMean rows skip =
      some (sumRat ((if skip then rows.filter keptLow else rows).map (fun b => b.log2 * b.weight)) /
            sumRat ((if skip then rows.filter keptLow else rows).map (·.weight))) :=
  segmentMean_weighted rows skip h

/-- **exactly the genes reaching the threshold with at least `min_probes` bins**: without
    segments, a row is reported iff it is the row of a gene group (of the sex-adjusted table)
    whose mean reaches the threshold and that has at least `minProbes` bins -/
theorem genemetrics_selection (t : List Bin) (thr : Rat) (minProbes : Nat) (skip hapX : Bool)
    (isXX : Option Bool) (out : List GRow)
    (h : doGenemetrics t none thr minProbes skip hapX isXX = .ok out) (r : GRow) :
    r ∈ out ↔
      ∃ g grp, (g, grp) ∈ byGene defaultIgnore (shiftBins t hapX isXX) ∧ grp ≠ [] ∧
        skipNames.contains g = false ∧ groupRow g grp skip = some r ∧
        reaches r.log2 thr = true ∧ (minProbes = 0 ∨ minProbes ≤ grp.length) := by
  simp only [doGenemetrics, Bool.false_eq_true, ↓reduceIte] at h
  split at h
  · cases h
  · cases h
    have hplain : ∀ x ∈ metricsByGene (shiftBins t hapX isXX) thr skip, x.segProbes = none := by
      intro x hx
      obtain ⟨g, grp, _, _, _, hr, _⟩ := mem_metricsByGene.mp hx
      obtain ⟨_, _, _, _, _, _, _, _, _, _, _, _, hsp, _⟩ := groupRow_fields hr
      exact hsp
    rw [mem_minProbesFilter_plain hplain, mem_metricsByGene]
    constructor
    · rintro ⟨⟨g, grp, hm, hne, hs, hr, hreach⟩, hp⟩
      obtain ⟨_, _, _, _, _, _, _, _, hpr, _⟩ := groupRow_fields hr
      exact ⟨g, grp, hm, hne, hs, hr, hreach, by rw [← hpr]; exact hp⟩
    · rintro ⟨g, grp, hm, hne, hs, hr, hreach, hp⟩
      obtain ⟨_, _, _, _, _, _, _, _, hpr, _⟩ := groupRow_fields hr
      exact ⟨⟨g, grp, hm, hne, hs, hr, hreach⟩, by rw [hpr]; exact hp⟩

/-- **given segments**: for each segment reaching the threshold, the part of every gene inside it
    (the gene groups of the bins overlapping the segment) with the segment's log2 -/
theorem by_segment_parts (t : List Bin) (segs : List SegRow) (thr : Rat) (skip : Bool) (r : GRow) :
    r ∈ metricsBySegment t segs thr skip ↔
      ∃ sg ∈ segs, ratAbs sg.log2 ≥ thr ∧
        ∃ g grp r0, (g, grp) ∈ byGene defaultIgnore (binsOfSegment t sg) ∧ grp ≠ [] ∧
          skipNames.contains g = false ∧ groupRow g grp skip = some r0 ∧
          r = { r0 with log2 := some sg.log2, segWeight := sg.weight, segProbes := sg.probes } :=
  mem_metricsBySegment

/-- the bins inside a segment: same chromosome, overlapping it -/
theorem bins_inside_segment (t : List Bin) (sg : SegRow) (b : Bin) :
    b ∈ binsOfSegment t sg ↔ b ∈ t ∧ b.chrom = sg.chrom ∧ sg.s < b.e ∧ b.s < sg.e :=
  mem_binsOfSegment

/-! ### squash_genes -/

/-- **one row per gene with those coordinates**: a gene group becomes a single row on the gene's
    chromosome from its first bin's start to its last bin's end … -/
theorem squash_one_row_per_gene (f : Summary) (sa : Bool) (g : String) (grp : List Bin)
    (hg : Generated.ANTITARGET_ALIASES.contains g = false) (hne : grp ≠ []) :
    ∃ r first last, squashGroup f sa (g, grp) = [r] ∧ grp.head? = some first ∧ grp.getLast? = some last ∧
      r.chrom = first.chrom ∧ r.s = first.s ∧ r.e = last.e ∧ (2 ≤ grp.length → r.gene = g) :=
  squashGroup_gene f sa g grp hg hne

/-- … the other bins stay as they are, and the table is the groups of `by_gene` in order -/
theorem squash_keeps_other_bins (f : Summary) (ignore : List String) (t : List Bin) :
    squashGenes f false ignore t = (byGene ignore t).flatMap (squashGroup f false) ∧
    ∀ g grp, Generated.ANTITARGET_ALIASES.contains g = true → squashGroup f false (g, grp) = grp :=
  ⟨rfl, fun g grp hg => squashGroup_antitarget f g grp hg⟩

/-! ### breaks -/

/-- **breaks lists exactly the genes with at least `min_probes` bins on each side of a boundary
    between two segments** (`min_probes ≥ 1`, bins of positive length) -/
theorem breaks_exact (t : List Bin) (m : Nat) (segs : List SegRow) (hm : 1 ≤ m)
    (hpos : ∀ b ∈ t, b.s < b.e) (brk : Brk) :
    brk ∈ breakpoints t m segs ↔
      ∃ cur nxt, Consecutive cur nxt segs ∧ nxt.chrom = cur.chrom ∧
        ∃ g, (fullIgnore defaultIgnore).contains g = false ∧ geneBins t cur.chrom g ≠ [] ∧
          m ≤ (geneBins t cur.chrom g).countP (fun b => decide (b.s < cur.e)) ∧
          m ≤ (geneBins t cur.chrom g).countP (fun b => decide (b.s ≥ cur.e)) ∧
          brk = { gene := g, chrom := cur.chrom, loc := cur.e, change := nxt.log2 - cur.log2,
                  left := (geneBins t cur.chrom g).countP (fun b => decide (b.s < cur.e)),
                  right := (geneBins t cur.chrom g).countP (fun b => decide (b.s ≥ cur.e)) } :=
  breaks_exact' t m segs hm hpos brk

/-! ### the code before fix L, and non-vacuity -/

/-- two bins of gene A, one trailing '-' bin, then two bins of gene B on a second chromosome -/
def demo : List Bin :=
  [⟨0, "chr1", 0, 10, "A", 1, 1, 1⟩, ⟨1, "chr1", 10, 20, "A", 1, 1, 1⟩, ⟨2, "chr1", 20, 30, "-", -3, 1, 1⟩,
   ⟨3, "chr2", 0, 10, "B", 1, 1, 1⟩, ⟨4, "chr2", 10, 20, "Antitarget", 0, 1, 1⟩, ⟨5, "chr2", 20, 30, "B", 1, 1, 1⟩,
   ⟨6, "chr2", 30, 40, "CGH", 0, 1, 1⟩]

/-- before fix L (label-based, end-inclusive `.loc` slices) gene A swallowed the next bin, the
    trailing bin of chr1 was yielded by nobody else, chr2 opened with a spurious Antitarget group
    holding B's first bin and lost its trailing bin -/
theorem prefix_counterexample :
    (byGeneLoc defaultIgnore demo).map (fun p => (p.1, p.2.map (·.label))) =
      [("A", [0, 1, 2]), ("Antitarget", [3]), ("B", [3, 4, 5, 6])] := by decide

/-- the repaired code on the same table -/
theorem repaired_example :
    (byGene defaultIgnore demo).map (fun p => (p.1, p.2.map (·.label))) =
      [("A", [0, 1]), ("Antitarget", [2]), ("B", [3, 4, 5]), ("Antitarget", [6])] := by decide

/-- the demo table meets the hypothesis (gene B is interrupted by an Antitarget bin) -/
example : TableContiguous (fullIgnore defaultIgnore) demo :=
  (hypothesis_decidable _ _).mp (by decide)

/-- … and its chromosomes are adjacent blocks, so `byGene_table_partition` applies to it -/
example : ((byGene defaultIgnore demo).map (·.2)).flatten = demo := by decide

/-- a table with interleaved genes does not -/
example : ¬ Contiguous (fullIgnore defaultIgnore)
    [⟨0, "chr1", 0, 10, "A", 1, 1, 1⟩, ⟨1, "chr1", 10, 20, "B", 1, 1, 1⟩, ⟨2, "chr1", 20, 30, "A", 1, 1, 1⟩] :=
  fun h => absurd ((contiguousB_iff' _ _).mpr h) (by decide)

/-- genemetrics on the demo table (threshold 1/5, min_probes 2): A and B with their own bins -/
example : (doGenemetrics demo none (1/5) 2 false false (some true)).toOption.map
      (fun rows => rows.map (fun r => (r.gene, r.s, r.e, r.probes))) =
    some [("A", 0, 20, 2), ("B", 0, 30, 3)] := by decide +kernel

/-- breaks on the demo table: a boundary at 10 on chr2 splits gene B one bin against one -/
example : ({ gene := "B", chrom := "chr2", loc := 10, change := 1, left := 1, right := 1 } : Brk) ∈
    breakpoints demo 1 [⟨"chr2", 0, 10, "-", 0, none, none⟩, ⟨"chr2", 10, 40, "-", 1, none, none⟩] :=
  (breaks_exact demo 1 _ (by decide) (by decide) _).mpr
    ⟨⟨"chr2", 0, 10, "-", 0, none, none⟩, ⟨"chr2", 10, 40, "-", 1, none, none⟩, ⟨[], [], rfl⟩, rfl, "B",
     by decide, by decide, by decide, by decide, by decide +kernel⟩

end CnvVerif.C16
