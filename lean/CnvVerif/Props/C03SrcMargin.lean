/-
  C03: tie to the source TEXT of the margin of `GenomicArray.by_arm` (see Props/C03Src.lean).  Proofs in
  Lemmas/SrcArmMargin.lean.
-/
import CnvVerif.Model.Tile
import CnvVerif.Lemmas.SrcArmMargin
namespace CnvVerif.C03
open CnvVerif CnvVerif.Generated CnvVerif.Src

/-- the margin, on the whole range the property quantifies over (1..400 bins per chromosome; here up to 504): the
    source expression `max(min_arm_bins, int(round(0.1 * len)))` is 50, and so is the model's -/
theorem by_arm_margin_is_the_source_small (n : Nat) (h : n ≤ 504) :
    src_by_arm_margin src_by_arm_default_min_arm_bins (n : Rat) = 50 ∧ max 50 (roundTenth n) = 50 :=
  margin_small n h

/-- the margin beyond that: for every bin count not ending in 5 the source expression evaluated EXACTLY (0.1 as the
    double it is) equals the model's `max min_arm_bins (round-half-even of n/10)` -/
theorem by_arm_margin_is_the_source (minArmBins n : Nat) (h5 : n % 10 ≠ 5) (hn : n < 10 ^ 15) :
    src_by_arm_margin (minArmBins : Rat) (n : Rat) = ((max minArmBins (roundTenth n) : Nat) : Rat) :=
  margin_general minArmBins n h5 hn

/-! non-vacuity -/
example : (1234 : Nat) % 10 ≠ 5 ∧ (1234 : Nat) < 10 ^ 15 ∧ (400 : Nat) ≤ 504 := by decide

end CnvVerif.C03
