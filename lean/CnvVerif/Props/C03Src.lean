/-
  C03: tie to the source TEXT of `GenomicArray.by_arm` (skgenome/gary.py), which decides the units the per-arm
  methods work on.  The definitions `Generated.src_by_arm_*` are re-translated from /repo's Python on every run
  (harness/exprtrans.py, "Fragments"; harness/extractors/exprs_byarm.py); these theorems state that the hand-written
  model (`cmereIdx`, `armsOfChrom`, `byArm`; Model/Tile.lean) is those expressions.  Kept in a module of its own so that
  an edit to one of them breaks exactly these obligations.  Proofs in Lemmas/SrcArm.lean.
-/
import CnvVerif.Model.Tile
import CnvVerif.Lemmas.SrcArm
namespace CnvVerif.C03
open CnvVerif CnvVerif.Generated CnvVerif.Src

/-- the model's centromere choice IS the body of `by_arm` re-assembled from the source's own expressions: the test
    `len > 2*margin + 1`, the slices `[margin+1 : -margin]` and `[margin : -margin-1]` of start and end, `argmax() +
    margin + 1`, the position read back for the size, the acceptance test `cmere_idx and cmere_size >= min_gap_size`,
    and the arms `[:cmere_idx]`, `[cmere_idx:]` -/
theorem by_arm_choice_is_the_source (starts ends : List Int) (hlen : ends.length = starts.length) (minGap : Int)
    (minArmBins : Nat) (hpos : 0 < minArmBins) :
    cmereIdx starts ends minGap minArmBins =
      srcCmereIdx starts ends minGap (max minArmBins (roundTenth starts.length)) :=
  cmereIdx_is_source starts ends hlen minGap minArmBins hpos

/-- the gaps are taken between `start` of a bin and `end` of its predecessor, the arms meet at the chosen
    position, and the model's `byArm` uses the defaults the source declares (1e5 bases, 50 bins) -/
theorem by_arm_columns_arms_defaults :
    src_by_arm_gap_columns = ("start", "end") ∧
    (∀ idx, src_by_arm_p_hi idx = idx ∧ src_by_arm_q_lo idx = idx) ∧
    src_by_arm_default_min_gap_size = 100000 ∧ src_by_arm_default_min_arm_bins = 50 := by
  refine ⟨by decide, arms_meet, by decide +kernel, by decide +kernel⟩

/-! non-vacuity -/
example : srcCmereIdx [0, 10, 20] [5, 15, 25] 100000 50 = 0 := by decide +kernel

end CnvVerif.C03
