/-
  C09 with indels.  The property claims equal depths of the two algorithms "on reads without indels"; these
  theorems say what holds WITH them, for every CIGAR:
    * `--count` reports aligned bases / length whatever the CIGARs are (Props/C09.lean, `count_reports_spec_rows`);
    * the pileup (`samtools bedcov`, no `-j`) reports covered reference positions / length;
    * covered = aligned + deleted/skipped positions of counted reads inside the bin, so the pileup depth exceeds the
      count depth by exactly that many positions / length, and the two agree on a bin IFF no counted read has a
      deleted / skipped position inside it (a per-bin condition: reads with D / N elsewhere do not matter);
    * insertions, soft clips, hard clips and padding can be struck from every CIGAR without changing either table.
  Proofs in Lemmas/CoverageIndel.lean.
-/
import CnvVerif.Props.C09
import CnvVerif.Lemmas.CoverageIndel
namespace CnvVerif.C09
open CnvVerif CnvVerif.Cov

/-- pileup, ANY CIGARs, any processes / chunk size / completion order: row i is bin i of the regions file with
    depth = (reference positions of the bin covered by the span of a counted read, with multiplicity) / length -/
theorem pileup_reports_covered_positions (contigs : List (String × Nat)) (rs : List Read) (q : Nat)
    (lines : List BedLine) (procs size : Nat) (order : List Nat) (hs : 0 < size)
    (hv : validate contigs lines = none) :
    coverage contigs rs q lines .pileup procs size order =
      .ok ((binsOf lines).map (spanRow contigs (rs.map align) q)) := by
  unfold coverage; rw [hv]; simp only; rw [pileupTable_span _ _ _ _ _ _ _ hs]

/-- one read, one bin: positions of the bin inside the read's reference span = its aligned positions inside the bin
    + its deleted / skipped reference positions inside the bin -/
theorem span_is_aligned_plus_gap (r : Read) (s e : Int) :
    spanIn (align r) s e =
      ((r.positions.countP (fun p => decide (s ≤ p) && decide (p < e)) : Nat) : Int) +
      ((r.gapPositions.countP (fun p => decide (s ≤ p) && decide (p < e)) : Nat) : Int) := by
  rw [spanIn_eq_basesIn_add_gapIn, basesIn_eq_count_positions]; rfl

/-- bin by bin: pileup depth = count depth + (deleted / skipped positions of counted reads inside the bin) / length,
    and that number of positions is never negative: the pileup never reports less than `--count` -/
theorem pileup_depth_is_count_depth_plus_gaps (contigs : List (String × Nat)) (rs : List Read) (q : Nat) (b : Row) :
    (spanRow contigs (rs.map align) q b).depth =
      (specRow contigs (rs.map align) q b).depth + depthOf (gapBasesInBin contigs rs q b.chrom b.s b.e) b.s b.e ∧
    0 ≤ gapBasesInBin contigs rs q b.chrom b.s b.e := by
  refine ⟨?_, gapBases_nonneg _ _ _ _ _ _⟩
  unfold spanRow specRow truthDepth
  rw [mkRow_depth, mkRow_depth, spanned_eq_aligned_add_gaps, depthOf_add]

/-- the two algorithms report the same row for a (non-empty) bin IF AND ONLY IF no counted read has a deleted or
    skipped reference position inside that bin -/
theorem algorithms_agree_on_bin_iff (contigs : List (String × Nat)) (rs : List Read) (q : Nat) (b : Row)
    (hb : b.s < b.e) :
    spanRow contigs (rs.map align) q b = specRow contigs (rs.map align) q b ↔
      gapBasesInBin contigs rs q b.chrom b.s b.e = 0 := by
  constructor
  · intro h
    have hd := congrArg OutRow.depth h
    unfold spanRow specRow truthDepth at hd
    rw [mkRow_depth, mkRow_depth, spanned_eq_aligned_add_gaps, depthOf_pos _ _ _ hb, depthOf_pos _ _ _ hb] at hd
    have hc : ((b.e - b.s : Int) : Rat) ≠ 0 := by
      intro h0
      have : (b.e - b.s : Int) = 0 := Rat.intCast_inj.mp h0
      omega
    have h2 := congrArg (· * ((b.e - b.s : Int) : Rat)) hd
    simp only [Rat.div_def, Rat.mul_assoc, Rat.inv_mul_cancel _ hc, Rat.mul_one] at h2
    have h3 : alignedBasesInBin contigs (rs.map align) q b.chrom b.s b.e + gapBasesInBin contigs rs q b.chrom b.s b.e =
        alignedBasesInBin contigs (rs.map align) q b.chrom b.s b.e := Rat.intCast_inj.mp h2
    omega
  · intro h
    unfold spanRow specRow truthDepth
    rw [spanned_eq_aligned_add_gaps, h, Int.add_zero]

/-- sufficient, in the words of the CIGARs: every counted read on the bin's contig keeps its D / N positions outside
    the bin (in particular: reads without D / N; reads whose deletion lies in another bin) -/
theorem gap_free_bin (contigs : List (String × Nat)) (rs : List Read) (q : Nat) (b : Row)
    (h : ∀ r ∈ rs, propCounted q (align r) = true → ∀ p ∈ r.gapPositions, ¬ (b.s ≤ p ∧ p < b.e)) :
    gapBasesInBin contigs rs q b.chrom b.s b.e = 0 := by
  unfold gapBasesInBin
  cases tidOf contigs b.chrom with
  | none => rfl
  | some t =>
    simp only
    apply sum_map_zero
    intro r hr
    obtain ⟨hmem, hp⟩ := List.mem_filter.mp hr
    have hc : propCounted q (align r) = true := by
      simp only [Bool.and_eq_true] at hp; exact hp.2
    unfold gapIn
    have : r.gapPositions.countP (inBin b.s b.e) = 0 := by
      rw [List.countP_eq_zero]
      intro p hpm
      have := h r hmem hc p hpm
      unfold inBin
      simp only [Bool.and_eq_true, decide_eq_true_eq]
      exact this
    rw [this]; rfl

/-- table level, strengthening `count_eq_pileup_no_indels`: the tables agree (up to the order of the bins) as soon
    as every non-empty bin is free of deleted / skipped positions of counted reads — wherever else the reads carry
    deletions, and whatever insertions and clips they have -/
theorem count_eq_pileup_gap_free_bins (contigs : List (String × Nat)) (rs : List Read) (q : Nat)
    (lines : List BedLine) (p1 p2 size : Nat) (o1 o2 : List Nat) (hs : 0 < size)
    (h : ∀ b ∈ binsOf lines, gapBasesInBin contigs rs q b.chrom b.s b.e = 0) :
    (countTable contigs (rs.map align) q lines p1 o1).Perm
      (pileupTable contigs (rs.map align) q lines p2 size o2) := by
  rw [countTable_spec, pileupTable_span _ _ _ _ _ _ _ hs]
  have : (binsOf lines).map (spanRow contigs (rs.map align) q) =
      (binsOf lines).map (specRow contigs (rs.map align) q) := by
    apply List.map_congr_left
    intro b hb
    unfold spanRow specRow truthDepth
    rw [spanned_eq_aligned_add_gaps, h b hb, Int.add_zero]
  rw [this]
  exact (regroup_perm _).map _

/-- insertions, soft clips, hard clips and padding (every CIGAR operation that consumes no reference base) can be
    struck from every read: same table, either algorithm, any processes / chunks / order -/
theorem insertions_and_clips_invisible (contigs : List (String × Nat)) (rs : List Read) (q : Nat)
    (lines : List BedLine) (algo : Algo) (procs size : Nat) (order : List Nat) :
    coverage contigs (rs.map (fun r => { r with cigar := refOps r.cigar })) q lines algo procs size order =
      coverage contigs rs q lines algo procs size order := by
  have : (rs.map (fun r => { r with cigar := refOps r.cigar })).map align = rs.map align := by
    rw [List.map_map]
    apply List.map_congr_left
    intro r _
    exact align_refOps r
  unfold coverage
  rw [this]

/-! ### non-vacuity -/

def exIndelReads : List Read := [
  -- 3S 2M 1I 2M 2D 2M 4N 2M 2H at 10: aligned 10,11,12,13,16,17,22,23; deleted 14,15; skipped 18..21
  { tid := 0, pos := 10, cigar := [(4, 3), (0, 2), (1, 1), (0, 2), (2, 2), (0, 2), (3, 4), (0, 2), (5, 2)], flag := 0, mapq := 60 },
  -- a duplicate with a deletion: not counted by either algorithm
  { tid := 0, pos := 10, cigar := [(0, 2), (2, 10), (0, 2)], flag := 1024, mapq := 60 }]

/-- positions, gap positions, and the stripped CIGAR of the first read -/
example : (exIndelReads.map Read.positions).head? = some [10, 11, 12, 13, 16, 17, 22, 23] ∧
    (exIndelReads.map Read.gapPositions).head? = some [14, 15, 18, 19, 20, 21] ∧
    (exIndelReads.map (fun r => refOps r.cigar)).head? = some [(0, 2), (0, 2), (2, 2), (0, 2), (3, 4), (0, 2)] := by
  decide +kernel

/-- bin [10,14) holds no gap position (hypothesis of `gap_free_bin` true, both algorithms 4/4); bin [12,20) holds
    the deletion and part of the skip: count 4/8, pileup 8/8, gap positions 4 -/
example : gapBasesInBin [("c", 100)] exIndelReads 0 "c" 10 14 = 0 ∧
    gapBasesInBin [("c", 100)] exIndelReads 0 "c" 12 20 = 4 ∧
    (specRow [("c", 100)] (exIndelReads.map align) 0 ⟨"c", 12, 20, "g"⟩).depth = 1 / 2 ∧
    (spanRow [("c", 100)] (exIndelReads.map align) 0 ⟨"c", 12, 20, "g"⟩).depth = 1 := by
  decide +kernel

end CnvVerif.C09
