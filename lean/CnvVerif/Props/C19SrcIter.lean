/-
  C19, source tie of `smoothing.convolve_weighted` (round 5b): the function body re-read from the source on every run
  (`Generated/ExprsCwIter.lean`, reading rules in harness/cwloop.py) equals the hand-written model
  `C19Iter.convolveWeighted` -- for every window, signal, weights and EVERY `n_iter`.  The theorems of `Props/C19Iter`
  are therefore theorems about the loop as it stands in the source.
-/
import CnvVerif.Props.C19Iter
import CnvVerif.Generated.ExprsCwIter
namespace CnvVerif.C19
open CnvVerif CnvVerif.Smooth CnvVerif.Generated CnvVerif.C19Iter

/-- one turn of the generated loop body is the model's one-pass map -/
theorem src_convolve_weighted_loop_eq (win : List Rat) :
    ∀ (k : Nat) (st : List (Option Rat) × List Rat),
      src_convolve_weighted_loop win k st = iterate (cwStep win) k st
  | 0, _ => rfl
  | k + 1, (y, w) => by
    show src_convolve_weighted_loop win k _ = iterate (cwStep win) k (cwStep win (y, w))
    rw [src_convolve_weighted_loop_eq win k]
    congr 1

/-- **the function as written equals the model, for every `n_iter`** -/
theorem src_convolve_weighted_eq (window signal weights : List Rat) (nIter : Nat) :
    src_convolve_weighted window signal weights nIter = convolveWeighted window signal weights nIter := by
  unfold src_convolve_weighted convolveWeighted
  split
  · rfl
  · simp only [src_convolve_weighted_loop_eq]

/-- so the loop in the source reproduces constants for every `n_iter` (no window sum of any pass vanishing) -/
theorem src_convolve_weighted_constant_every_n_iter (window w : List Rat) (c : Rat) (k : Nat)
    (hden : densNonzero window w k = true) :
    src_convolve_weighted window (List.replicate w.length c) w k =
      .ok (List.replicate w.length (some c), iterate (convSame (normalise window)) k w) := by
  rw [src_convolve_weighted_eq]
  exact convolve_weighted_constant_every_n_iter window w c k hden

end CnvVerif.C19
