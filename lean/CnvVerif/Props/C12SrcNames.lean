/-
  C12: tie to the source TEXT (`filter_names`).  The definitions `Generated.src_*` of Generated/ExprsBins.lean are
  re-translated from /repo's Python on every run (harness/exprtrans.py for the arithmetic of `do_antitarget`,
  harness/settrans.py for the rules over sets of names); these theorems state that the hand-written model functions
  ARE those expressions, for all arguments.  One module per source function group, so that an edit to one of the
  rules breaks exactly the obligations about it.
-/
import CnvVerif.Props.C12
import CnvVerif.Lemmas.SrcBinsNames
namespace CnvVerif.C12
open CnvVerif CnvVerif.Generated

/-- `filter_names` with its default `exclude=("mRNA",)` -/
theorem filter_names_is_the_source (names : List String) :
    filterNames names = src_filter_names names SHORTEN_EXCLUDE := Src.filterNames_is_source names

end CnvVerif.C12
