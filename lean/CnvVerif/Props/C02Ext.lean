/-
  C02 (growth round) — threshold calls for ARBITRARY strictly increasing thresholds; the allelic clauses at table
  level for every purity.  Proofs in Lemmas/CallExt.lean (ℚ model) and Lemmas/CallRealExt.lean (ℝ layer).
-/
import CnvVerif.Props.C02
import CnvVerif.Lemmas.CallExt
import CnvVerif.Lemmas.CallRealExt
namespace CnvVerif.C02
open CnvVerif

/-- the value reported for scan index `i` (`threshold_counts` restated with it): `int(i·r/ploidy)` where the
    reference copies differ from the ploidy, `i` otherwise — and it never decreases with `i` -/
theorem step_value_monotone (ploidy r : Nat) {i j : Nat} (h : i ≤ j) :
    scaledIdx ploidy r i ≤ scaledIdx ploidy r j := scaledIdx_mono ploidy r h

/-- "a monotone step function of log2", clause 1 — at or below the last threshold cn never decreases as log2
    increases: every strictly increasing threshold vector of any length, every ploidy (1 included), every reference
    copy number (so every chromosome class × reference sex), and NO assumption on the ratios -/
theorem monotone_below_last_threshold (thr : List Rat) (hs : thr.Pairwise (· < ·)) (ploidy r : Nat)
    (v₁ v₂ t₁ t₂ : Rat) (hv : v₁ ≤ v₂) (h2 : ∃ th ∈ thr, v₂ ≤ th) :
    thresholdCall thr ploidy r (some v₁) t₁ ≤ thresholdCall thr ploidy r (some v₂) t₂ :=
  monotone_below_last thr hs ploidy r v₁ v₂ t₁ t₂ hv h2

/-- clause 2 — above the last threshold it never decreases either (`t = 2^log2` is monotone: `two_rpow_monotone`) -/
theorem monotone_above_last_threshold (thr : List Rat) (ploidy r : Nat) (v₁ v₂ t₁ t₂ : Rat)
    (h1 : ∀ th ∈ thr, th < v₁) (h2 : ∀ th ∈ thr, th < v₂) (ht : t₁ ≤ t₂) :
    thresholdCall thr ploidy r (some v₁) t₁ ≤ thresholdCall thr ploidy r (some v₂) t₂ :=
  monotone_above_last thr ploidy r v₁ v₂ t₁ t₂ h1 h2 ht

/-- clause 3 — ACROSS the last threshold, the exact criterion (an iff): no decrease from `v₁` (at or below the last
    threshold) to `v₂` (above it) precisely when `r·2^v₂` exceeds the step value at `v₁` minus one -/
theorem monotone_across_last_threshold_iff (thr : List Rat) (hs : thr.Pairwise (· < ·)) (ploidy r : Nat)
    (v₁ v₂ t₁ t₂ : Rat) (h1 : ∃ th ∈ thr, v₁ ≤ th) (h2 : ∀ th ∈ thr, th < v₂) :
    thresholdCall thr ploidy r (some v₁) t₁ ≤ thresholdCall thr ploidy r (some v₂) t₂ ↔
      ((scaledIdx ploidy r (thr.countP (fun th => decide (th < v₁))) : Int) : Rat) - 1 < (r : Rat) * t₂ :=
  monotone_across_iff thr hs ploidy r v₁ v₂ t₁ t₂ h1 h2

/-- the whole line: for arbitrary strictly increasing thresholds the call is monotone in log2 as soon as, above
    the last threshold, `r·2^log2` exceeds (largest step value − 1).  Generalises `monotone_default_partial`
    (defaults: 4 thresholds, largest step value 3 on `r = ploidy`, so the bound reads `2 < ploidy·2^0.7`, true
    from ploidy 2 on and false at ploidy 1 — finding B). -/
theorem monotone_arbitrary_thresholds (thr : List Rat) (hs : thr.Pairwise (· < ·)) (ploidy r : Nat)
    (v₁ v₂ t₁ t₂ : Rat) (hv : v₁ ≤ v₂) (ht : t₁ ≤ t₂)
    (hab : (∀ th ∈ thr, th < v₂) → ((scaledIdx ploidy r (thr.length - 1) : Int) : Rat) - 1 < (r : Rat) * t₂) :
    thresholdCall thr ploidy r (some v₁) t₁ ≤ thresholdCall thr ploidy r (some v₂) t₂ :=
  monotone_arbitrary thr hs ploidy r v₁ v₂ t₁ t₂ hv ht hab

/-- … and the bound is sharp — where exactly monotonicity fails: `v₁` in the last step below the last threshold,
    `v₂` above it with `r·2^v₂ ≤ largest step value − 1` is a strict decrease -/
theorem monotone_fails_exactly_when (thr : List Rat) (hs : thr.Pairwise (· < ·)) (ploidy r : Nat)
    (v₁ v₂ t₁ t₂ : Rat) (h1 : ∃ th ∈ thr, v₁ ≤ th)
    (hc : thr.countP (fun th => decide (th < v₁)) = thr.length - 1)
    (h2 : ∀ th ∈ thr, th < v₂)
    (hbad : (r : Rat) * t₂ ≤ ((scaledIdx ploidy r (thr.length - 1) : Int) : Rat) - 1) :
    thresholdCall thr ploidy r (some v₂) t₂ < thresholdCall thr ploidy r (some v₁) t₁ :=
  monotone_fails_exactly thr hs ploidy r v₁ v₂ t₁ t₂ h1 hc h2 hbad

/-- ℝ layer: the bound of `monotone_arbitrary_thresholds` holds at every log2 above the last threshold `L` as soon
    as it holds (non-strictly) AT `L` … -/
theorem bound_above_last_of_bound_at_last (r s L v : ℝ) (hr : 0 < r) (h : s - 1 ≤ r * (2 : ℝ) ^ L) (hv : L < v) :
    s - 1 < r * (2 : ℝ) ^ v := bound_above_of_bound_at_last r s L v hr h hv

/-- … and if it fails at `L` there IS a log2 above `L` at which `r·2^v = s − 1`, so that the call there is one less
    than just below `L`: a threshold vector is monotone iff `largest step value − 1 ≤ r·2^L` -/
theorem drop_exists_when_bound_fails_at_last (r s L : ℝ) (hr : 0 < r) (h : r * (2 : ℝ) ^ L < s - 1) :
    ∃ v, L < v ∧ r * (2 : ℝ) ^ v = s - 1 := exists_drop_above_last r s L hr h

/-- the same failure as finding B at the ORDINARY ploidy 2 once a user passes six thresholds: cn 5 at log2 0.45,
    cn 3 at log2 0.55 (`2·2^0.55 ≈ 2.93`) -/
theorem monotone_six_thresholds_ploidy2_counterexample :
    thresholdCall [-11/10, -1/4, 1/5, 3/10, 2/5, 1/2] 2 2 (some (45/100)) (1366/1000) = 5 ∧
    thresholdCall [-11/10, -1/4, 1/5, 3/10, 2/5, 1/2] 2 2 (some (55/100)) (1464/1000) = 3 := by decide +kernel

/-- cn1 and cn2 are both missing exactly where the segment has no BAF and cn > 0 — at the level of the whole
    `do_call` table, for every purity (none, 1, or in (0,1): BAFs rescaled when they come from `variants`), every
    ploidy, sex configuration and both calling methods -/
theorem allelic_missing_iff_every_purity (cfg : CallCfg) (m : Method) (hm : m ≠ .none) (thr : List Rat)
    (fromVariants : Bool) (rows : List SegRow) (i : Nat) (hi : i < rows.length) :
    let o := (callTableV cfg m thr fromVariants rows)[i]'(by simpa [callTableV, callTable] using hi)
    (o.cn1 = none ∧ o.cn2 = none) ↔ ((rows[i]).baf = none ∧ ∃ c, o.cn = some c ∧ 0 < c) :=
  callTableV_missing_iff cfg m hm thr fromVariants rows i hi

/-! non-vacuity -/
example : ([-11/10, -1/4, 1/5, 3/10, 2/5, 1/2] : List Rat).Pairwise (· < ·) := by decide +kernel
example : scaledIdx 2 1 3 = 1 ∧ scaledIdx 3 3 2 = 2 := by decide +kernel

end CnvVerif.C02
