/-
  C07: tie to the source TEXT of skgenome/intersect.py.  The definitions `Generated.src_*` (Generated/ExprsRanges.lean)
  are re-translated from /repo's Python on every run (harness/exprtrans.py, second reading: one table, one query);
  these theorems state that the hand-written model IS those terms, for all tables and queries.  Kept in a module of
  their own so that an edit to one of these code paths breaks exactly these obligations.
-/
import CnvVerif.Props.C07
import CnvVerif.Lemmas.SrcRanges
namespace CnvVerif.C07
open CnvVerif

/-- mask path: the model's selection is the table filtered by the mask whose entry for the row at position `i` is
    the expression `_irange_nested` computes (`if start_val:` truthiness, `searchsorted` side, the comparisons
    `end > start_val`, `end <= end_val`, the zeroed prefix / suffix) -/
theorem nested_mask_is_the_source (t : Table) (h : WFTable t) (qs qe : Option Int) (inner : Bool) :
    irangeNested t qs qe inner = applyMask t (Src.srcNestedMask t inner qs qe) :=
  Src.irangeNested_mask_is_source t h qs qe inner

/-- binary-search path: the model's selection is `table[lo:hi]` with the two `searchsorted` calls (column, side,
    per mode) and the defaults `0` / `len(table)` that `_irange_simple` computes -/
theorem simple_slice_is_the_source (t : Table) (qs qe : Option Int) (inner : Bool) :
    irangeSimple t qs qe inner =
      (t.take (Generated.src_irange_simple_slice t inner qs qe).2).drop
        (Generated.src_irange_simple_slice t inner qs qe).1 :=
  Src.irangeSimple_slice_is_source t qs qe inner

/-- the switch between whole table / mask path / binary search is the condition `idx_ranges` evaluates -/
theorem path_switch_is_the_source (t : Table) (qs qe : Option Int) (inner : Bool) :
    idxSelect t qs qe inner =
      (match Generated.src_idx_ranges_path t qs qe with
       | 0 => t
       | 1 => irangeNested t qs qe inner
       | _ => irangeSimple t qs qe inner) :=
  Src.idxSelect_path_is_source t qs qe inner

/-- trim: each selected row gets the start / end `iter_ranges` computes (`clip(lower=…)`, `clip(upper=…)` under the
    `if start_val:` / `if end_val:` truthiness), and nothing is clipped outside trim mode.  On well-formed tables
    (coordinates ≥ 0, start < end), like `nested_mask_is_the_source`: there the harmless spelling `is not None` of
    the truthiness tests reads the same and keeps both theorems green. -/
theorem trim_clip_is_the_source (t : Table) (h : WFTable t) (qs qe : Option Int)
    (hq : ∀ s, qs = some s → 0 ≤ s) (mode : Mode) :
    selectRange t qs qe mode =
      (idxSelect t qs qe (mode == .inner)).map (fun r =>
        { r with s := (Generated.src_iter_ranges_clip (mode == .trim) qs qe r.s r.e).1,
                 e := (Generated.src_iter_ranges_clip (mode == .trim) qs qe r.s r.e).2 }) :=
  Src.selectRange_is_source t h qs qe hq mode

/-- `into_ranges`: the summary is chosen by the cascade in the source (type of the first cell; non-callable →
    constant; callable → itself) … -/
theorem summary_choice_is_the_source (s : Summary) (first : Val) :
    pickSummary s first =
      Src.summaryOfCode s (Generated.src_into_ranges_summary (Src.Summary.isNone s) (Src.Summary.isCallable s)
        (Src.Val.isStr first) (Src.Val.isFloat first)) :=
  Src.pickSummary_is_source s first

/-- … and applied as `series2value` does: default for no hit, the value itself for one, the summary otherwise -/
theorem series2value_is_the_source (d : Val) (f : List Val → Val) (vs : List Val) :
    seriesToValue d f vs =
      (match Generated.src_series2value vs.length with
       | 0 => d
       | 1 => vs.headD d
       | _ => f vs) :=
  Src.seriesToValue_is_source d f vs

end CnvVerif.C07
