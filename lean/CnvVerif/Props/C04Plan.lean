/-
  C04 (round 5): the decision table of `load_adjust_coverages` and of the pooled-or-flat test, and the statement that the
  model's `loadAdjust` (about which all C04 theorems are stated) runs exactly the plan the table gives
  ("every subset of {gc, edge, rmask} corrections", "references with/without gc and rmask columns", "pooled or flat").
  Proofs in Lemmas/FixPlanExt5.lean.
-/
import CnvVerif.Props.C04
import CnvVerif.Lemmas.FixPlanExt5
namespace CnvVerif.C04
open CnvVerif

/-- `load_adjust_coverages` = sort, match, drop bad bins, centre, then fold `center_by_window` over the plan that the
    decision table gives for (skip verdict on the centred log2, the three flags, which columns the reference has);
    the edge-bias keys are computed on the rows as they are when their turn comes (after the GC correction) -/
theorem load_adjust_runs_the_plan (samp : List SRow) (ref : List RRow) (skipLow g e r : Bool)
    (par : Option String) (perm : List Nat) (wing : Nat) (ek : Option (List Rat)) :
    (loadAdjust samp ref skipLow g e r par perm wing ek).map (fun x => (x.1, x.2.1)) =
      C04x.loadAdjustPlanned samp ref skipLow g e r par perm wing ek :=
  C04x.loadAdjust_planned samp ref skipLow g e r par perm wing ek

/-- the decision table: GC correction iff not skipped, switched on and the column is there; edge correction iff not
    skipped and switched on; RepeatMasker correction iff not skipped, switched on and the column is there; always in the
    order gc, edge, rmask -/
theorem correction_decision_table (skip g e r hasGc hasRmask : Bool) :
    ("gc" ∈ C04x.correctionPlan skip g e r hasGc hasRmask ↔ (skip = false ∧ g = true ∧ hasGc = true)) ∧
    ("get_edge_bias" ∈ C04x.correctionPlan skip g e r hasGc hasRmask ↔ (skip = false ∧ e = true)) ∧
    ("rmask" ∈ C04x.correctionPlan skip g e r hasGc hasRmask ↔ (skip = false ∧ r = true ∧ hasRmask = true)) ∧
    (C04x.correctionPlan skip g e r hasGc hasRmask).Sublist ["gc", "get_edge_bias", "rmask"] :=
  C04x.plan_table skip g e r hasGc hasRmask

/-- pooled iff SOME bin has a spread above epsilon and SOME bin (not necessarily the same) a log2 whose fractional part
    exceeds epsilon -/
theorem pooled_iff_some_spread_and_some_fractional_log2 (rows : List (SRow × RRow × Rat)) :
    pooledRef rows = true ↔
      (∃ p ∈ rows, p.2.1.spread > Generated.WEIGHT_EPSILON) ∧
      (∃ q ∈ rows, absR (mod1 q.2.1.log2) > Generated.WEIGHT_EPSILON) :=
  C04x.pooledRef_iff rows

/-- the verdict does not depend on the order of the bins -/
theorem pooled_verdict_ignores_row_order (a b : List (SRow × RRow × Rat)) (h : a.Perm b) : pooledRef a = pooledRef b :=
  C04x.pooledRef_perm a b h

/-- … and is monotone in the set of bins: a pooled table stays pooled when bins are added (so dropping bins can only
    turn a pooled reference into a flat one, never the reverse) -/
theorem pooled_verdict_monotone (a b : List (SRow × RRow × Rat)) (h : ∀ p ∈ a, p ∈ b) (hp : pooledRef a = true) :
    pooledRef b = true :=
  C04x.pooledRef_mono a b h hp

/-- the three switches act on a class of bins ONLY through the decisions: two settings of (gc, edge, rmask) for which
    the skip verdict and the plan coincide give the same rows (generalises `class_missing_column_skips_correction`) -/
theorem switches_act_through_the_decisions (samp : List SRow) (ref : List RRow) (skipLow g e r g' e' r' : Bool)
    (par : Option String) (perm : List Nat) (wing : Nat) (ek : Option (List Rat))
    (h : C04x.decisions samp ref skipLow g e r par = C04x.decisions samp ref skipLow g' e' r' par) :
    (loadAdjust samp ref skipLow g e r par perm wing ek).map (fun x => (x.1, x.2.1)) =
      (loadAdjust samp ref skipLow g' e' r' par perm wing ek).map (fun x => (x.1, x.2.1)) :=
  C04x.loadAdjust_depends_on_decisions_only samp ref skipLow g e r g' e' r' par perm wing ek h

/-- a class most of whose kept bins have no coverage ("check that the right BED file was used"): every setting of the
    switches gives what all-corrections-off gives -/
theorem mostly_null_class_ignores_the_switches (samp : List SRow) (ref : List RRow) (skipLow g e r : Bool)
    (par : Option String) (perm : List Nat) (wing : Nat) (ek : Option (List Rat)) (p : List String)
    (h : C04x.decisions samp ref skipLow g e r par = .ok (true, p)) :
    (loadAdjust samp ref skipLow g e r par perm wing ek).map (fun x => (x.1, x.2.1)) =
      (loadAdjust samp ref skipLow false false false par perm wing ek).map (fun x => (x.1, x.2.1)) :=
  C04x.loadAdjust_depends_on_decisions_only samp ref skipLow g e r false false false par perm wing ek
    (by rw [h, C04x.decisions_skip samp ref skipLow g e r false false false par p h])

/-- `mask_bad_bins` reads the REFERENCE's depth column only through `== 0`: multiplying it by a non-zero factor changes
    no verdict -/
theorem bad_bin_mask_reads_reference_depth_through_zero (r : RRow) (c : Rat) (hc : c ≠ 0) :
    badBin { r with depth := c * r.depth } = badBin r :=
  C04x.badBin_depth_scale r c hc

/-- `center_all` (both per-class centrings and the final one) reads the SAMPLE's depth column only through `== 0`
    (`drop_low_coverage`): multiplying the column by a non-zero factor changes nothing but the column itself -/
theorem centring_reads_sample_depth_through_zero (c : Rat) (hc : c ≠ 0) (skipLow : Bool) (par : Option String) (t : List SRow) :
    centerS skipLow par (t.map (C04x.scaleDepth c)) = (centerS skipLow par t).map (C04x.scaleDepth c) :=
  C04x.centerS_scale c hc skipLow par t

/-! non-vacuity: the two witnesses may be different rows; the knife edge (spread exactly epsilon) is flat -/
example : pooledRef [((⟨"chr1", 0, 100, "A", 0, 1⟩ : SRow), (⟨"chr1", 0, 100, "A", -1, 1, none, none, 1/5⟩ : RRow), (10 : Rat)),
                     ((⟨"chr1", 100, 200, "A", 0, 1⟩ : SRow), (⟨"chr1", 100, 200, "A", 1/2, 1, none, none, 0⟩ : RRow), (10 : Rat))] = true := by
  decide +kernel
example : pooledRef [((⟨"chr1", 0, 100, "A", 0, 1⟩ : SRow), (⟨"chr1", 0, 100, "A", 1/2, 1, none, none, Generated.WEIGHT_EPSILON⟩ : RRow), (10 : Rat))] = false := by
  decide +kernel
example : C04x.correctionPlan false true true true true false = ["gc", "get_edge_bias"] := by decide
example : C04x.skipCorrections [-20, -20, 0, 0] = true ∧ C04x.skipCorrections [-20, 0, 0] = false := by decide +kernel
example : (2 : Rat) ≠ 0 := by decide

end CnvVerif.C04
