/-
  C02: tie of the THRESHOLD SCAN to the source text (growth round).  `Generated/ExprsScan.lean` is re-translated from
  `call.absolute_threshold` on every run (`scan_rows` of harness/exprtrans.py): the loop
  `for cnum, thresh in enumerate(thresholds): if row.log2 <= thresh: ...; break` with its `else`, as a recursion over the
  threshold list.  The theorems state that the model's `thresholdCall` is that recursion, for every list.
-/
import CnvVerif.Props.C02
import CnvVerif.Lemmas.SrcScan
namespace CnvVerif.C02
open CnvVerif

/-- a row with a log2 value: comparison `log2 ≤ thresh`, scaling `int(cnum·ref_copies/ploidy)` when the reference copies
    differ from the ploidy, `int(ceil(ref_copies·2^log2))` when no threshold is reached -/
theorem threshold_scan_is_the_source (thr : List Rat) (ploidy r : Nat) (v t : Rat) :
    ((thresholdCall thr ploidy r (some v) t : Int) : Rat) =
      Generated.src_absolute_threshold_row v t (ploidy : Rat) (r : Rat) thr :=
  Src.thresholdCall_is_source thr ploidy r v t

/-- a row whose log2 is NaN: the reference copies -/
theorem threshold_nan_is_the_source (thr : List Rat) (ploidy r : Nat) (v t : Rat) :
    ((thresholdCall thr ploidy r none t : Int) : Rat) =
      Generated.src_absolute_threshold_nan v t (ploidy : Rat) (r : Rat) :=
  Src.thresholdCall_nan_is_source thr ploidy r v t

/-- the reference copies the scan reads come from `_reference_copies_pure` of the row's chromosome, the ploidy and the
    reference sex (tied to the model by C01 `reference_copies_pure_is_the_source`) -/
theorem threshold_scan_reference_copies :
    Generated.src_absolute_threshold_calls = ["_reference_copies_pure(chromosome, ploidy, is_haploid_x_reference)"] := by
  decide

example : Generated.src_absolute_threshold_row (1/10) 1 2 1 [-11/10, -1/4, 1/5, 7/10] = 1 := by decide +kernel

end CnvVerif.C02
