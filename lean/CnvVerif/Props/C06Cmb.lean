/-
  C06 round 5b: merge(bp, stranded, combine) on tables with any columns (Model/IntervalExt5.lean): the combiners of
  skgenome/combiners.py, `_squash_tuples`, `_nonoverlapping_groups` and the (chromosome, strand) grouping.
-/
import CnvVerif.Props.C06
import CnvVerif.Model.IntervalExt5
namespace CnvVerif.C06X
open CnvVerif

/-! ### the combiners -/

/-- `first_of` returns the first value -/
theorem cmb_first_of (v : Val) (vs : List Val) : applyCmb .firstOf (v :: vs) = v := rfl

/-- `last_of` returns the last value -/
theorem cmb_last_of (vs : List Val) (v : Val) : applyCmb .lastOf (vs ++ [v]) = v := by
  simp [applyCmb]

/-- `make_const(val)` returns `val` whatever the group is -/
theorem cmb_const (v : Val) (vs : List Val) : applyCmb (.const v) vs = v := rfl

/-- `join_strings`: the distinct labels in order of first appearance, comma-joined -/
theorem cmb_join_strings (vs : List Val) :
    applyCmb .joinStrings vs = .str (",".intercalate (vs.map Val.text).eraseDups) := rfl

/-- `merge_strands` on a group whose strands are all `v` returns `v` -/
theorem cmb_merge_strands_same (v : Val) (vs : List Val) (h : ∀ x ∈ vs, x = v) :
    applyCmb .mergeStrands (v :: vs) = v := by
  have hf : vs.filter (fun b => !(b == v)) = [] := by
    rw [List.filter_eq_nil_iff]
    intro x hx
    simp [h x hx]
  simp [applyCmb, List.eraseDups_cons, hf]

/-- `merge_strands` on a group with two different strands returns "." -/
theorem cmb_merge_strands_mixed (v w : Val) (vs : List Val) (hw : w ∈ vs) (hne : w ≠ v) :
    applyCmb .mergeStrands (v :: vs) = .str "." := by
  have hmem : w ∈ vs.filter (fun b => !(b == v)) := by
    rw [List.mem_filter]
    exact ⟨hw, by simp [hne]⟩
  cases hf : vs.filter (fun b => !(b == v)) with
  | nil => rw [hf] at hmem; cases hmem
  | cons y ys => simp [applyCmb, List.eraseDups_cons, hf]

/-- `sum` / the numeric combiners read the integer cells -/
theorem cmb_sum (vs : List Val) : applyCmb .sumOf vs = .num (vs.map Val.int).sum := rfl

theorem foldl_max_ge (l : List Int) (a : Int) : a ≤ l.foldl max a ∧ ∀ x ∈ l, x ≤ l.foldl max a := by
  induction l generalizing a with
  | nil => simp
  | cons y ys ih =>
    obtain ⟨h1, h2⟩ := ih (max a y)
    refine ⟨Int.le_trans (Int.le_max_left a y) h1, ?_⟩
    intro x hx
    rcases List.mem_cons.mp hx with rfl | hx
    · exact Int.le_trans (Int.le_max_right a x) h1
    · exact h2 x hx

/-- `max` (the combiner of `end`): the result is at least every value of the group -/
theorem cmb_max_ge (vs : List Val) (v : Val) (hv : v ∈ vs) :
    ∃ m, applyCmb .maxOf vs = .num m ∧ v.int ≤ m := by
  refine ⟨_, rfl, ?_⟩
  exact (foldl_max_ge (vs.map Val.int) _).2 v.int (List.mem_map_of_mem hv)

/-! ### get_combiners -/

theorem lookup_filter_key (q : String → Bool) (l : List (String × Cmb)) (k : String) :
    (l.filter (fun p => q p.1)).lookup k = if q k then l.lookup k else none := by
  induction l with
  | nil => simp
  | cons a tl ih =>
    obtain ⟨a1, a2⟩ := a
    by_cases hq : q a1 = true
    · by_cases hk : k = a1
      · subst hk; simp [List.filter_cons, hq, List.lookup_cons]
      · have : (k == a1) = false := by simp [hk]
        simp [List.filter_cons, hq, List.lookup_cons, this, ih]
    · by_cases hk : k = a1
      · subst hk
        simp only [Bool.not_eq_true] at hq
        simp [List.filter_cons, hq, ih]
      · have : (k == a1) = false := by simp [hk]
        simp [List.filter_cons, hq, List.lookup_cons, this, ih]

/-- `get_combiners` never names a column the table does not have -/
theorem getCombiners_only_table_columns (cols : List String) (stranded : Bool) (custom : List (String × Cmb))
    (k : String) (h : k ∉ cols) : (getCombiners cols stranded custom).lookup k = none := by
  unfold getCombiners
  simp only []
  rw [lookup_filter_key (fun k => cols.contains k)]
  simp [h]

/-- default combiners of a stranded merge: chromosome and strand are taken from the first row, the end is the maximum -/
theorem getCombiners_stranded (cols : List String) (hc : "chromosome" ∈ cols)
    (hs : "strand" ∈ cols) (he : "end" ∈ cols) :
    (getCombiners cols true []).lookup "chromosome" = some .firstOf ∧
    (getCombiners cols true []).lookup "strand" = some .firstOf ∧
    (getCombiners cols true []).lookup "end" = some .maxOf := by
  unfold getCombiners
  simp only []
  refine ⟨?_, ?_, ?_⟩ <;> rw [lookup_filter_key (fun k => cols.contains k)] <;>
    simp [hc, hs, he, dictUpdate, defaultCmb, List.lookup_cons]

/-- ... of an unstranded merge: the strand column is summarised by `merge_strands` -/
theorem getCombiners_unstranded (cols : List String) (hs : "strand" ∈ cols) :
    (getCombiners cols false []).lookup "strand" = some .mergeStrands := by
  unfold getCombiners
  simp only []
  rw [lookup_filter_key (fun k => cols.contains k)]
  simp [hs, dictUpdate, defaultCmb, List.lookup_cons]

/-! ### `_nonoverlapping_groups`: a partition of the rows into non-empty runs, in order -/

theorem groupsGo_flatten (bp mx : Int) (cur xs : List XRow) :
    (groupsGo bp mx cur xs).flatten = cur.reverse ++ xs := by
  induction xs generalizing mx cur with
  | nil => simp [groupsGo]
  | cons x xs ih =>
    unfold groupsGo
    split <;> simp [ih]

/-- every row lands in exactly one group, the order is kept -/
theorem groups_flatten (bp : Int) (t : XTable) : (groups bp t).flatten = t := by
  cases t with
  | nil => rfl
  | cons x xs => simp [groups, groupsGo_flatten]

theorem groupsGo_ne (bp mx : Int) (cur xs : List XRow) (h : cur ≠ []) :
    ∀ g ∈ groupsGo bp mx cur xs, g ≠ [] := by
  induction xs generalizing mx cur with
  | nil => intro g hg; simp [groupsGo] at hg; subst hg; simpa using h
  | cons x xs ih =>
    intro g hg
    unfold groupsGo at hg
    split at hg
    · rcases List.mem_cons.mp hg with h1 | h1
      · subst h1; simpa using h
      · exact ih _ [x] (by simp) g h1
    · exact ih _ (x :: cur) (by simp) g hg

/-- no group is empty -/
theorem groups_ne (bp : Int) (t : XTable) : ∀ g ∈ groups bp t, g ≠ [] := by
  cases t with
  | nil => intro g hg; simp [groups] at hg
  | cons x xs => exact groupsGo_ne bp _ [x] xs (by simp)

/-! ### `_squash_tuples` -/

/-- a group of one row is returned as it is (no combiner is called) -/
theorem squash_single (cmb : List (String × Cmb)) (r : XRow) : squash cmb [r] = r := rfl

/-- the squashed row has the columns of the first row, in order -/
theorem squash_columns (cmb : List (String × Cmb)) (r : XRow) (rs : List XRow) :
    (squash cmb (r :: rs)).map (·.1) = r.map (·.1) := by
  cases rs with
  | nil => rfl
  | cons r2 rs =>
    simp only [squash, List.map_map]
    apply List.map_congr_left
    intro p _
    simp only [Function.comp]
    split <;> rfl

theorem lookup_map_cells (f : String → Val → Val) (r : XRow) (k : String) :
    (r.map (fun p => (p.1, f p.1 p.2))).lookup k = (r.lookup k).map (f k) := by
  induction r with
  | nil => simp
  | cons a tl ih =>
    obtain ⟨a1, a2⟩ := a
    by_cases hk : k = a1
    · subst hk; simp [List.lookup_cons]
    · have : (k == a1) = false := by simp [hk]
      simp [List.lookup_cons, this, ih]

/-- the cell `_squash_tuples` writes into column `k` of a group of ≥ 2 rows -/
def sqF (cmb : List (String × Cmb)) (rows : List XRow) (k : String) (v : Val) : Val :=
  match cmb.lookup k with
  | some c => applyCmb c (rows.map (fun x => cell x k))
  | none => v

theorem squash_eq (cmb : List (String × Cmb)) (r r2 : XRow) (rs : List XRow) :
    squash cmb (r :: r2 :: rs) = r.map (fun p => (p.1, sqF cmb (r :: r2 :: rs) p.1 p.2)) := by
  simp only [squash]
  apply List.map_congr_left
  intro p _
  unfold sqF
  cases cmb.lookup p.1 <;> rfl

/-- a column with a combiner: the squashed row of ≥ 2 rows carries `combiner(values of the group, in order)` -/
theorem squash_cell (cmb : List (String × Cmb)) (r r2 : XRow) (rs : List XRow) (k : String) (c : Cmb)
    (hc : cmb.lookup k = some c) (hk : r.lookup k ≠ none) :
    cell (squash cmb (r :: r2 :: rs)) k = applyCmb c ((r :: r2 :: rs).map (fun x => cell x k)) := by
  rw [squash_eq]
  unfold cell
  rw [lookup_map_cells (sqF cmb (r :: r2 :: rs)) r k]
  cases hl : r.lookup k with
  | none => exact absurd hl hk
  | some v => simp [sqF, hc, cell]

/-- a column without a combiner keeps the first row's value -/
theorem squash_cell_plain (cmb : List (String × Cmb)) (r r2 : XRow) (rs : List XRow) (k : String)
    (hc : cmb.lookup k = none) : cell (squash cmb (r :: r2 :: rs)) k = cell r k := by
  rw [squash_eq]
  unfold cell
  rw [lookup_map_cells (sqF cmb (r :: r2 :: rs)) r k]
  cases hl : r.lookup k <;> simp [sqF, hc]

/-! ### stranded tables: one merge per (chromosome, strand) -/

/-- every row of a `groupby` group has the group's key, and every row of the table is in the group of its key -/
theorem byKey_rows (stranded : Bool) (t : XTable) :
    (∀ g ∈ byKey stranded t, ∀ r ∈ g.2, keyOf stranded r = g.1) ∧
    (∀ r ∈ t, ∃ g ∈ byKey stranded t, g.1 = keyOf stranded r ∧ r ∈ g.2) := by
  constructor
  · intro g hg r hr
    simp only [byKey, List.mem_map] at hg
    obtain ⟨k, _, rfl⟩ := hg
    simp only [List.mem_filter] at hr
    exact eq_of_beq hr.2
  · intro r hr
    refine ⟨(keyOf stranded r, t.filter (fun x => keyOf stranded x == keyOf stranded r)), ?_, rfl, ?_⟩
    · simp only [byKey, List.mem_map]
      exact ⟨keyOf stranded r, by simp [List.mem_eraseDups]; exact ⟨r, hr, rfl⟩, rfl⟩
    · simp [List.mem_filter, hr]

/-- stranded merge with the default combiners: a squashed row shows the chromosome and the strand of its group, so rows of
    different strands are never combined and the output row belongs to the same (chromosome, strand) key -/
theorem squash_keeps_key (cmb : List (String × Cmb)) (r r2 : XRow) (rs : List XRow)
    (hchr : cmb.lookup "chromosome" = some .firstOf) (hstr : cmb.lookup "strand" = some .firstOf)
    (h1 : r.lookup "chromosome" ≠ none) (h2 : r.lookup "strand" ≠ none) :
    keyOf true (squash cmb (r :: r2 :: rs)) = keyOf true r := by
  simp only [keyOf, chromOf, strandOf, if_true]
  rw [squash_cell cmb r r2 rs "chromosome" .firstOf hchr h1, squash_cell cmb r r2 rs "strand" .firstOf hstr h2]
  rfl

/-- non-vacuity (one chromosome, rows sorted by (strand, start, end)): the two '+' rows are merged, the '-' row is not -/
example :
    let row (s e : Int) (st : String) (p : Int) : XRow :=
      [("chromosome", .str "chr1"), ("start", .num s), ("end", .num e), ("strand", .str st), ("probes", .num p)]
    let cols := ["chromosome", "start", "end", "strand", "probes"]
    let t := [row 0 10 "+" 1, row 5 15 "+" 4, row 2 12 "-" 2]
    (byKey true t).flatMap (fun g => mergeOverlapping 0 (getCombiners cols true []) g.2)
      = [row 0 15 "+" 5, row 2 12 "-" 2] := by decide

end CnvVerif.C06X
