/-
  C18, growth round: the command-line glue.  The VCF options of `segment`, `call`, `scatter`, `export theta`,
  `export nexus-ogt` reach `load_het_snps` with their documented meaning.  The model (Model/VcfExt.lean) is driven by the
  tables Generated/VcfConsts.lean, re-read from /repo's commands.py and cmdutil.py on every run.  Kept in a module of its
  own so that an edit to an option declaration or to a command's call breaks exactly these obligations.
-/
import CnvVerif.Props.C18
import CnvVerif.Lemmas.VcfCli
namespace CnvVerif.C18
open CnvVerif CnvVerif.Vcf

/-! ### the command line -/

/-- for each of the commands that read a VCF -- whatever ids, depth and `-z` are given or left out -- `load_het_snps`
    receives the documented meaning of the options (`cliDocumented`): the ids as given, minimum depth 20 unless asked
    otherwise, `zygosity_freq` None unless `-z` (0.25 when bare), and never TumorBoost.  The left side is computed from
    the tables read off `commands.py` and `cmdutil.py` on every run. -/
theorem cli_options_reach_load_het_snps (cmd : String) (hc : cmd ∈ Generated.cliVcfCommands) (a : CliVcfArgs) :
    cliLhsArgs cmd a = some (cliDocumented a) := cliLhsArgs_documented cmd hc a

/-- the commands in question: every `_cmd_*` that calls `load_het_snps` -/
theorem cli_commands_reading_a_vcf :
    Generated.cliVcfCommands = ["_cmd_segment", "_cmd_call", "_cmd_scatter", "_cmd_export_theta", "_cmd_export_nbo"] := rfl

/-- the options of the model that follow from a command line: in particular no TumorBoost, so (by
    `het_rows_stay_attached`) every frequency a command works with is its own record's count / depth -/
theorem cli_het_options (a : CliVcfArgs) :
    lhsHetOpts (cliDocumented a) =
      { sid := nameSel a.sampleId, nid := nameSel a.normalId, minDepth := some (a.minVariantDepth.getD 20),
        zygFreq := (match a.zygosityFreq with
          | none => none
          | some none => some (1/4, 3/4)
          | some (some f) => some (f, 1 - f)),
        tumorBoost := false } := by
  obtain ⟨sid, nid, md, zf⟩ := a
  rcases zf with _ | _ | f
  · simp [lhsHetOpts, cliDocumented]
  · simp [lhsHetOpts, cliDocumented]
    decide +kernel
  · simp [lhsHetOpts, cliDocumented]

/-! ### non-vacuity -/

example : "_cmd_scatter" ∈ Generated.cliVcfCommands := by decide
example : cliLhsArgs "_cmd_export_nbo" { sampleId := some "T", normalId := some "N", zygosityFreq := some none } =
    some { sampleId := some "T", normalId := some "N", minVariantDepth := some 20, zygosityFreq := some (1/4),
           tumorBoost := false } := by decide +kernel
example : cliLhsArgs "_cmd_call" { minVariantDepth := some 5, zygosityFreq := some (some (3/10)) } =
    some { sampleId := none, normalId := none, minVariantDepth := some 5, zygosityFreq := some (3/10),
           tumorBoost := false } := by decide +kernel

end CnvVerif.C18
