/-
  C20: tie to the source TEXT.  `Generated.src_segments2vcf_row`, `src_export_bed_row`, `src_export_verify_sample_sex`,
  `src_cmd_export_bed_label` are re-translated from /repo's Python on every run (harness/exprtrans.py, ROW-wise
  reading; extractor harness/extractors/exprs_export.py).  These theorems state that the hand-written model of
  `export vcf` / `export bed` and of the command-line glue IS what those function bodies compute, for all arguments.
  Kept in a module of its own so that an edit to one of those functions breaks exactly these obligations.
-/
import CnvVerif.Props.C20
import CnvVerif.Lemmas.SrcExport
namespace CnvVerif.C20
open CnvVerif CnvVerif.Export

/-- `segments2vcf`, one segment: the record the model emits (or its silence), written out as the ten cells of a VCF
    line, is what the loop body of the source yields (or skips) -- neutral-row and non-digit-probes skip, POS 0 -> 1,
    DEL / DUP by `<`, SVLEN sign, the seven INFO fields in order, FORMAT keys, genotype strings.  `fmt` (Python's
    float formatting) is arbitrary. -/
theorem vcf_record_is_the_source (cfg : Cfg) (first : String) (r : Seg) (fmt : Rat → String) :
    (vcfEmit cfg (vcfCols cfg first r)).map (vcfCells fmt) =
      Generated.src_segments2vcf_row cfg.hasCn r.chrom r.s r.e r.v r.t r.probes (probesDigit cfg r) r.cn
        (expectOf cfg first r) (absoluteCol cfg first r) (expectCol' cfg first r) fmt :=
  Src.vcfRow_is_source cfg first r fmt

/-- the whole table: the lines of `export vcf` are, in order, what the source's row function yields for each segment -/
theorem vcf_table_is_the_source (cfg : Cfg) (rows : List Seg) (fmt : Rat → String) :
    (segments2vcf cfg rows).map (vcfCells fmt) =
      rows.filterMap (fun r =>
        Generated.src_segments2vcf_row cfg.hasCn r.chrom r.s r.e r.v r.t r.probes (probesDigit cfg r) r.cn
          (expectOf cfg (firstChrom rows) r) (absoluteCol cfg (firstChrom rows) r)
          (expectCol' cfg (firstChrom rows) r) fmt) := by
  unfold segments2vcf
  simp only [List.map_filterMap, List.filterMap_map]
  apply List.filterMap_congr
  intro r _
  exact Src.vcfRow_is_source cfg (firstChrom rows) r fmt

/-- `export_bed`, one segment: listed (with these five cells) or dropped exactly as the source's column program says,
    for each `show` mode, with or without a `cn` column, label given / empty / absent -/
theorem bed_row_is_the_source (cfg : Cfg) (first : String) (label : Option String) (sh : ShowMode) (r : Seg) :
    (if bedKeep cfg first sh r then some (bedCells (bedRowOf cfg first label r)) else none) =
      Generated.src_export_bed_row cfg.hasCn r.chrom r.s r.e r.gene r.cn (label.getD "") (showText sh)
        (cfg.ploidy : Int) (absoluteCol cfg first r) (expectOf cfg first r) :=
  Src.bedRow_is_source cfg first label sh r

/-- the whole table of `export bed` -/
theorem bed_table_is_the_source (cfg : Cfg) (label : Option String) (sh : ShowMode) (rows : List Seg) :
    (exportBed cfg label sh rows).map bedCells =
      rows.filterMap (fun r =>
        Generated.src_export_bed_row cfg.hasCn r.chrom r.s r.e r.gene r.cn (label.getD "") (showText sh)
          (cfg.ploidy : Int) (absoluteCol cfg (firstChrom rows) r) (expectOf cfg (firstChrom rows) r)) := by
  rw [exportBed_eq_spec]
  unfold bedSpec
  rw [List.map_map, ← filterMap_ite]
  apply List.filterMap_congr
  intro r _
  exact Src.bedRow_is_source cfg (firstChrom rows) label sh r

/-- the value the source rounds when there is no `cn` column is `r * 2^log2` with `r` the reference copies of the
    segment's class, and numpy's `round` is half-to-even: at an exact `.5` the even neighbour is stated -/
theorem absolute_column_is_r_times_ratio (cfg : Cfg) (first : String) (r : Seg) :
    absoluteCol cfg first r =
      ((refExpect cfg.ploidy cfg.hapX cfg.female (classOf first cfg.par r.chrom r.s r.e)).1 : Rat) * r.t := by
  unfold absoluteCol
  simp [absoluteOf, purityActive_one]

end CnvVerif.C20
