/-
  C04 — the invariance clauses of the property as theorems about the whole of `do_fix` (model `doFix`):
  "… and is unchanged by rescaling the sample's depth or permuting the rows of any input."
  Proofs in Lemmas/FixInv.lean.  The parameters `P` (numpy's seeded permutation, the half-window, sqrt of the bin
  sizes by coordinate, the two residual variances, the float edge keys) are functions of the number of good bins,
  of the coordinates and of the OUTPUT residuals only, so they are the same in both runs compared below.
-/
import CnvVerif.Props.C04
import CnvVerif.Lemmas.FixInv
namespace CnvVerif.C04
open CnvVerif

/-- permuting the rows of the target table, of the antitarget table and of the reference changes nothing in the
    result of `fix` — values, weights, order, or the refusal (duplicated / missing bins are refused in any order).
    `KeysSortable`: no two chromosome spellings of one table share a sort key (`aligned_side_condition_holds`). -/
theorem perm_invariant (tgt tgt' anti anti' : List SRow) (ref ref' : List RRow) (cfg : FixCfg) (P : FixParams)
    (ht : tgt'.Perm tgt) (ha : anti'.Perm anti) (hr : ref.Perm ref')
    (hkt : KeysSortable tgt) (hka : KeysSortable anti) :
    doFix tgt' anti' ref' cfg P = doFix tgt anti ref cfg P :=
  doFix_perm tgt tgt' anti anti' ref ref' cfg P ht ha hr hkt hka

/-- the same for one class of bins through `load_adjust_coverages`, with any subset of the corrections -/
theorem class_perm_invariant (samp samp' : List SRow) (ref ref' : List RRow) (hp : samp'.Perm samp) (hr : ref.Perm ref')
    (hks : KeysSortable samp) (skipLow fixGc fixEdge fixRmask : Bool)
    (par : Option String) (perm : List Nat) (wing : Nat) (ek : Option (List Rat)) :
    loadAdjust samp' ref' skipLow fixGc fixEdge fixRmask par perm wing ek =
      loadAdjust samp ref skipLow fixGc fixEdge fixRmask par perm wing ek :=
  loadAdjust_perm samp samp' ref ref' hp hr hks skipLow fixGc fixEdge fixRmask par perm wing ek

/-- `match_ref_to_sample` does not depend on the reference's row order, with NO side condition (strengthens
    `match_ignores_reference_order`: duplicated reference coordinates are refused whatever their position) -/
theorem match_ignores_reference_order_always (ref ref' : List RRow) (samp : List SRow) (hp : ref.Perm ref') :
    matchRef ref' samp = matchRef ref samp := matchRef_ref_perm' ref ref' samp hp

/-- rescaling the sample's depth by `2^c` (every sample log2 moves by `c`) leaves the whole result of `fix`
    unchanged — every enabled correction, the subtraction, the weights and the final centring — as long as no
    ON-TARGET bin is a low-coverage bin (log2 < −15 or depth 0) before or after.  Off-target bins need no condition
    (they are centred with `skip_low=False`).  At the excluded point the clause fails on the real code: open
    finding W (zero-coverage bins stay at the −20 sentinel whatever the depth). -/
theorem depth_scale_invariant (tgt anti : List SRow) (ref : List RRow) (cfg : FixCfg) (P : FixParams) (c : Rat)
    (hlow : ∀ r ∈ tgt, lowCov r = false ∧ lowCov (addLog2 c r) = false) :
    doFix (tgt.map (addLog2 c)) (anti.map (addLog2 c)) ref cfg P = doFix tgt anti ref cfg P :=
  doFix_shift tgt anti ref cfg P c hlow

/-- the cut-off named in `depth_scale_invariant` is the one `drop_low_coverage` uses (constants from params.py) -/
theorem low_coverage_cutoff (r : SRow) : lowCov r = true ↔ (r.log2 < -15 ∨ r.depth = 0) := by
  unfold lowCov
  have : Generated.NULL_LOG2_COVERAGE - Generated.MIN_REF_COVERAGE = -15 := by decide +kernel
  rw [this]
  simp

/-- one class: the first centring absorbs the constant, so everything downstream sees identical rows -/
theorem class_depth_scale_invariant (samp : List SRow) (ref : List RRow) (skipLow fixGc fixEdge fixRmask : Bool)
    (par : Option String) (perm : List Nat) (wing : Nat) (ek : Option (List Rat)) (c : Rat)
    (hlow : skipLow = true → ∀ r ∈ samp, lowCov r = false ∧ lowCov (addLog2 c r) = false) :
    loadAdjust (samp.map (addLog2 c)) ref skipLow fixGc fixEdge fixRmask par perm wing ek =
      loadAdjust samp ref skipLow fixGc fixEdge fixRmask par perm wing ek :=
  loadAdjust_shift samp ref skipLow fixGc fixEdge fixRmask par perm wing ek c hlow

/-! non-vacuity: tables meeting the hypotheses, and a bin at the excluded point -/
example : ∀ r ∈ [(⟨"chr1", 0, 100, "A", 3, 8⟩ : SRow), ⟨"chr1", 200, 300, "A", -29/2, 1⟩, ⟨"chr2", 0, 100, "B", 4, 16⟩],
    lowCov r = false ∧ lowCov (addLog2 2 r) = false := by decide +kernel
example : lowCov ⟨"chr1", 200, 300, "A", -29/2, 1⟩ = false ∧ lowCov (addLog2 (-1) ⟨"chr1", 200, 300, "A", -29/2, 1⟩) = true := by
  decide +kernel
example : KeysSortable [(⟨"chr1", 0, 100, "A", 3, 8⟩ : SRow), ⟨"chr1", 200, 300, "A", 2, 1⟩] :=
  keysSortable_of_one_chrom _ "chr1" (by decide)
example : [(⟨"chr1", 200, 300, "A", 2, 1⟩ : SRow), ⟨"chr1", 0, 100, "A", 3, 8⟩].Perm
    [⟨"chr1", 0, 100, "A", 3, 8⟩, ⟨"chr1", 200, 300, "A", 2, 1⟩] := List.Perm.swap _ _ _

end CnvVerif.C04
