/-
  C15: tie of `center_all` to the source TEXT (Generated/ExprsCenter.lean, regenerated from /repo's
  cnvlib/cnary.py on every run by harness/extractors/exprs_center.py).  A module of its own: an edit to
  center_all breaks exactly these obligations.
-/
import CnvVerif.Props.C15
import CnvVerif.Lemmas.SrcCenter
namespace CnvVerif.C15
open CnvVerif CnvVerif.Src

/-- `center_all`: the table the estimate is taken from (autosomes of the table, after dropping low-coverage bins
    when asked), the values handed to the estimator (per chromosome first when `by_chrom`, the `if len(subarr)`
    filter keeping every chromosome; all log2 values otherwise), the sign of the shift and the guard for an empty
    selection are the source's -/
theorem center_shift_is_the_source (est : List Rat → Rat) (byChrom skipLow : Bool) (par : Option String)
    (t : List CBin) :
    centerShift est byChrom skipLow par t =
      (let first := (t.head?.map (·.chrom)).getD ""
       let sel := Generated.src_center_selection (autosomesOf first par) dropLow skipLow t
       Generated.src_center_shift est byChrom (!sel.isEmpty) (chromGroups sel) (sel.map (·.log2))) :=
  centerShift_is_source est byChrom skipLow par t

/-- … and `center_all` adds exactly that to every bin -/
theorem center_all_is_the_source (est : List Rat → Rat) (byChrom skipLow : Bool) (par : Option String)
    (t : List CBin) :
    centerAll est byChrom skipLow par t = t.map (fun b => { b with log2 := b.log2 +
      (let first := (t.head?.map (·.chrom)).getD ""
       let sel := Generated.src_center_selection (autosomesOf first par) dropLow skipLow t
       Generated.src_center_shift est byChrom (!sel.isEmpty) (chromGroups sel) (sel.map (·.log2))) }) := by
  rw [← centerShift_is_source]; rfl

/-- the estimators that can be named are the property's four, bound to pandas' mean / median and to
    descriptives' modal and biweight location -/
theorem center_estimator_table :
    Generated.src_center_estimators =
      [("mean", "pd.Series.mean"), ("median", "pd.Series.median"), ("mode", "descriptives.modal_location"),
       ("biweight", "descriptives.biweight_location")] := by
  first | rfl | decide

end CnvVerif.C15
