/-
  C06: tie to the source TEXT (subdivide: the keep-test, the bin count (`round`, `int`, `or`) and the cut position of `_split_targets`).
  The definitions `Generated.src_*` of Generated/ExprsInterval.lean are re-translated from /repo's Python on every run
  (harness/exprtrans.py, "pieces"; harness/extractors/exprs_interval.py names the pieces and the column expressions read
  elementwise).  These theorems state that the hand-written model functions are built from exactly those pieces.
  One module per source function so that an edit breaks exactly the obligations about that function.
-/
import CnvVerif.Props.C06
import CnvVerif.Lemmas.SrcIntervalSubdivide
namespace CnvVerif.C06
open CnvVerif CnvVerif.Generated

/-! ### subdivide: `_split_targets` -/

/-- the model's `splitRow` is: the source's keep-test `span >= min_size`, then the bin count, then the equal split -/
theorem subdivide_region_is_keep_test_count_split (avg : Rat) (minSize : Int) (r : Row) :
    splitRow avg minSize r =
      if src_split_keeps r.s r.e minSize = true then
        (if Src.binCount avg r == 1 then [r] else splitInto r (Src.binCount avg r))
      else [] := Src.splitRow_binCount avg minSize r

/-- the model's bin count IS the source expression `int(round(span / avg_size)) or 1` (Python 3 `round`: half to even;
    `int`: truncation; `or`: truthiness of a number), for every positive -- also fractional -- average size -/
theorem subdivide_bin_count_is_the_source (avg : Rat) (havg : 0 < avg) (r : Row) (hlen : r.s ≤ r.e) :
    src_split_nbins (r.s : Rat) (r.e : Rat) avg = ((Src.binCount avg r : Nat) : Rat) :=
  Src.src_split_nbins_eq avg havg r hlen

/-- the model's cut positions `start + ⌊i·span/n⌋` (the bins of `splitInto r n` are `[cut i, cut (i+1))`) ARE the source
    expression `row.start + int(i * bin_size)` with `bin_size = span / nbins` -/
theorem subdivide_cut_is_the_source (avg : Rat) (havg : 0 < avg) (r : Row) (hlen : r.s ≤ r.e) (i : Nat) :
    src_split_bin_end (r.s : Rat) (r.e : Rat) avg (i : Rat) =
      ((r.s + ((i : Int) * (r.e - r.s)) / ((Src.binCount avg r : Nat) : Int) : Int) : Rat) :=
  Src.src_split_bin_end_eq avg havg r hlen i

/-! non-vacuity: the generated pieces evaluated on concrete numbers (`round` is half-to-even: 2.5 ↦ 2, 3.5 ↦ 4) -/
example : src_split_nbins 0 10 4 = 2 ∧ src_split_nbins 0 14 4 = 4 ∧ src_split_nbins 0 1 4 = 1 := by
  refine ⟨?_, ?_, ?_⟩ <;> decide +kernel
example : src_split_bin_end 10 20 3 2 = 16 := by decide +kernel

end CnvVerif.C06
