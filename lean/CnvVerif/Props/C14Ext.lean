/-
  C14, round 4: the glue between the filters -- `require_column` guards, the columns a squash keeps, and the order in
  which `do_call` applies a filter list (Model/SegFilterExt.lean).  Proofs in Lemmas/SegFilterExt.lean.
-/
import CnvVerif.Props.C14
import CnvVerif.Lemmas.SegFilterExt
namespace CnvVerif.C14
open CnvVerif

/-- what the source names: the guards of the four filters, and the filters `do_call` runs before calling -/
theorem guards_are : Filt.cn.needs = ["cn"] ∧ Filt.ampdel.needs = ["cn"] ∧ Filt.ci.needs = ["ci_lo", "ci_hi"] ∧
    Filt.sem.needs = ["sem"] ∧ preFilters = [Filt.ci, Filt.sem] :=
  ⟨needs_cn, needs_ampdel, needs_ci, needs_sem, preFilters_eq⟩

/-- a filter whose required column is missing raises (ValueError naming the filter) instead of filtering -/
theorem missing_column_raises (f : Filt) (t : Tab) (c : String) (hc : c ∈ f.needs) (hm : t.cols.contains c = false) :
    f.run t = .error f.name := by
  unfold Filt.run
  rw [if_neg]
  intro hall
  have := List.all_eq_true.mp hall c hc
  rw [hm] at this
  exact absurd this (by decide)

/-- a squash writes its rows from scratch: the segmetrics columns ci_lo / ci_hi / sem never survive one … -/
theorem squash_drops_segmetrics_columns (cols : List String) :
    (colsAfterSquash cols).contains "ci_lo" = false ∧ (colsAfterSquash cols).contains "ci_hi" = false ∧
    (colsAfterSquash cols).contains "sem" = false :=
  ⟨colsAfterSquash_drops _ _ (by decide +kernel), colsAfterSquash_drops _ _ (by decide +kernel),
   colsAfterSquash_drops _ _ (by decide +kernel)⟩

/-- … which is why a list holding BOTH ci and sem cannot be honoured: `do_call` raises for every table and every
    calling step ("each consumes the columns the other needs") -/
theorem ci_and_sem_exclude_each_other (call : Tab → Tab) (fs : List Filt) (t : Tab)
    (h1 : Filt.ci ∈ fs) (h2 : Filt.sem ∈ fs) : ∃ e, doCallFiltersE call fs t = .error e :=
  doCall_ci_and_sem_raise call fs t h1 h2

/-- ORDER, for every list of distinct filters holding at most one of ci/sem and every calling step: that one filter
    (if any) acts on the un-called table wherever it stands in the list, then the table is called, then the other
    filters act in the order given -/
theorem filter_order (call : Tab → Tab) (fs : List Filt) (t : Tab) (hnd : fs.Nodup)
    (hx : ¬ (Filt.ci ∈ fs ∧ Filt.sem ∈ fs)) :
    doCallFiltersE call fs t =
      match (if Filt.ci ∈ fs then Filt.ci.run t else if Filt.sem ∈ fs then Filt.sem.run t else .ok t) with
      | .error e => .error e
      | .ok t1 => runChain (postFilters fs) (call t1) := doCall_filter_order call fs t hnd hx

/-- non-vacuity: `ampdel, ci, cn` -- ci first although it is named second; ampdel then cn on the called table -/
example : [Filt.ampdel, Filt.ci, Filt.cn].Nodup ∧ ¬ (Filt.ci ∈ [Filt.ampdel, Filt.ci, Filt.cn] ∧ Filt.sem ∈ [Filt.ampdel, Filt.ci, Filt.cn]) ∧
    postFilters [Filt.ampdel, Filt.ci, Filt.cn] = [Filt.ampdel, Filt.cn] := by decide

end CnvVerif.C14
