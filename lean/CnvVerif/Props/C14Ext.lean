/-
  C14, round 4: the glue between the filters -- `require_column` guards, the columns a squash keeps, and the order in
  which `do_call` applies a filter list (Model/SegFilterExt.lean).  Proofs in Lemmas/SegFilterExt.lean.
-/
import CnvVerif.Props.C14
import CnvVerif.Lemmas.SegFilterExt
namespace CnvVerif.C14
open CnvVerif

/-- what the source names: the guards of the four filters, and the filters `do_call` runs before calling -/
theorem guards_are : Filt.cn.needs = ["cn"] ∧ Filt.ampdel.needs = ["cn"] ∧ Filt.ci.needs = ["ci_lo", "ci_hi"] ∧
    Filt.sem.needs = ["sem"] ∧ preFilters = [Filt.ci, Filt.sem] :=
  ⟨needs_cn, needs_ampdel, needs_ci, needs_sem, preFilters_eq⟩

/-- a filter whose required column is missing raises (ValueError naming the filter) instead of filtering -/
theorem missing_column_raises (f : Filt) (t : Tab) (c : String) (hc : c ∈ f.needs) (hm : t.cols.contains c = false) :
    f.run t = .error f.name := by
  unfold Filt.run
  rw [if_neg]
  intro hall
  have := List.all_eq_true.mp hall c hc
  rw [hm] at this
  exact absurd this (by decide)

/-- a squash writes its rows from scratch: the segmetrics columns ci_lo / ci_hi / sem never survive one … -/
theorem squash_drops_segmetrics_columns (cols : List String) :
    (colsAfterSquash cols).contains "ci_lo" = false ∧ (colsAfterSquash cols).contains "ci_hi" = false ∧
    (colsAfterSquash cols).contains "sem" = false :=
  ⟨colsAfterSquash_drops _ _ (by decide +kernel), colsAfterSquash_drops _ _ (by decide +kernel),
   colsAfterSquash_drops _ _ (by decide +kernel)⟩

/-- … which is why a list holding BOTH ci and sem cannot be honoured: `do_call` raises for every table and every
    calling step ("each consumes the columns the other needs") -/
theorem ci_and_sem_exclude_each_other (call : Tab → Tab) (fs : List Filt) (t : Tab)
    (h1 : Filt.ci ∈ fs) (h2 : Filt.sem ∈ fs) : ∃ e, doCallFiltersE call fs t = .error e :=
  doCall_ci_and_sem_raise call fs t h1 h2

/-- ORDER, for every list of distinct filters holding at most one of ci/sem and every calling step: that one filter
    (if any) acts on the un-called table wherever it stands in the list, then the table is called, then the other
    filters act in the order given -/
theorem filter_order (call : Tab → Tab) (fs : List Filt) (t : Tab) (hnd : fs.Nodup)
    (hx : ¬ (Filt.ci ∈ fs ∧ Filt.sem ∈ fs)) :
    doCallFiltersE call fs t =
      match (if Filt.ci ∈ fs then Filt.ci.run t else if Filt.sem ∈ fs then Filt.sem.run t else .ok t) with
      | .error e => .error e
      | .ok t1 => runChain (postFilters fs) (call t1) := doCall_filter_order call fs t hnd hx

/-- non-vacuity: `ampdel, ci, cn` -- ci first although it is named second; ampdel then cn on the called table -/
example : [Filt.ampdel, Filt.ci, Filt.cn].Nodup ∧ ¬ (Filt.ci ∈ [Filt.ampdel, Filt.ci, Filt.cn] ∧ Filt.sem ∈ [Filt.ampdel, Filt.ci, Filt.cn]) ∧
    postFilters [Filt.ampdel, Filt.ci, Filt.cn] = [Filt.ampdel, Filt.cn] := by decide

/-! ### conservation through a whole filter list, and `ampdel` as a theorem -/

/-- every squashing filter conserves total probes and total weight on EVERY table -- any row order, any levels
    (missing ones included), with or without allele-specific columns: `groupby` only rearranges the rows and
    `squash_region` sums over its group -/
theorem squash_conserves_on_every_table (h : Bool) (t : List Seg) (f : Seg → Option Rat) :
    sumInt ((squashByGroups h t (t.map f)).map (·.probes)) = sumInt (t.map (·.probes)) ∧
    sumRat ((squashByGroups h t (t.map f)).map (·.weight)) = sumRat (t.map (·.weight)) :=
  squashByGroups_conserves h t f

/-- COMPOSITION: whatever list of cn / ci / sem filters runs through, in whatever order and however often, the table
    that comes out carries every probe and all the weight of the table that went in -/
theorem chain_conserves_probes_and_weight (fs : List Filt) (hfs : Filt.ampdel ∉ fs) (t t' : Tab)
    (hr : runChain fs t = .ok t') :
    sumInt (t'.rows.map (·.probes)) = sumInt (t.rows.map (·.probes)) ∧
    sumRat (t'.rows.map (·.weight)) = sumRat (t.rows.map (·.weight)) := runChain_conserves fs hfs t t' hr

/-- … and so does `do_call` with such a list, when the calling step itself leaves probes and weight alone -/
theorem do_call_conserves_probes_and_weight (call : Tab → Tab) (fs : List Filt) (hfs : Filt.ampdel ∉ fs) (t t' : Tab)
    (hnd : fs.Nodup) (hx : ¬ (Filt.ci ∈ fs ∧ Filt.sem ∈ fs))
    (hcall : ∀ u, sumInt ((call u).rows.map (·.probes)) = sumInt (u.rows.map (·.probes)) ∧
                  sumRat ((call u).rows.map (·.weight)) = sumRat (u.rows.map (·.weight)))
    (hr : doCallFiltersE call fs t = .ok t') :
    sumInt (t'.rows.map (·.probes)) = sumInt (t.rows.map (·.probes)) ∧
    sumRat (t'.rows.map (·.weight)) = sumRat (t.rows.map (·.weight)) := by
  rw [doCall_filter_order call fs t hnd hx] at hr
  have hpost : Filt.ampdel ∉ postFilters fs := fun h => hfs (List.mem_filter.mp h).1
  have one : ∀ (f : Filt), f ≠ Filt.ampdel → ∀ t1, f.run t = .ok t1 →
      sumInt (t1.rows.map (·.probes)) = sumInt (t.rows.map (·.probes)) ∧
      sumRat (t1.rows.map (·.weight)) = sumRat (t.rows.map (·.weight)) := by
    intro f hf t1 h1
    have := apply_conserves (t.cols.contains "cn1") f hf t.rows
    rw [← run_ok_rows f t t1 h1] at this
    exact this
  have fin : ∀ t1, (sumInt (t1.rows.map (·.probes)) = sumInt (t.rows.map (·.probes)) ∧
      sumRat (t1.rows.map (·.weight)) = sumRat (t.rows.map (·.weight))) →
      runChain (postFilters fs) (call t1) = .ok t' →
      sumInt (t'.rows.map (·.probes)) = sumInt (t.rows.map (·.probes)) ∧
      sumRat (t'.rows.map (·.weight)) = sumRat (t.rows.map (·.weight)) := by
    intro t1 h1 h2
    have h3 := runChain_conserves _ hpost _ _ h2
    have h4 := hcall t1
    exact ⟨h3.1.trans (h4.1.trans h1.1), h3.2.trans (h4.2.trans h1.2)⟩
  by_cases c1 : Filt.ci ∈ fs
  · rw [if_pos c1] at hr
    cases h1 : Filt.ci.run t with
    | error e => rw [h1] at hr; cases hr
    | ok t1 => rw [h1] at hr; exact fin t1 (one _ (by decide) t1 h1) hr
  · rw [if_neg c1] at hr
    by_cases c2 : Filt.sem ∈ fs
    · rw [if_pos c2] at hr
      cases h1 : Filt.sem.run t with
      | error e => rw [h1] at hr; cases hr
      | ok t1 => rw [h1] at hr; exact fin t1 (one _ (by decide) t1 h1) hr
    · rw [if_neg c2] at hr
      exact fin t ⟨rfl, rfl⟩ hr

/-- `ampdel` as the property words it: on a chromosome-contiguous table the filter returns exactly the maximal runs of
    equal deleted / amplified / neutral status (and equal allele-specific copy numbers), the neutral runs dropped,
    every other run squashed to one row -/
theorem ampdel_is_the_extreme_runs (h : Bool) (t : List Seg) (hc : ChromContig t)
    (h1 : h = true → ∀ r ∈ t, r.cn1 ≠ some (-1) ∧ r.cn2 ≠ some (-1)) :
    filterAmpdel h t = specAmpdel h t := filterAmpdel_eq_runs h t hc h1

/-- … and every run it keeps consists only of amplified (cn ≥ 5) or only of deleted (cn = 0) segments -/
theorem ampdel_kept_runs_are_all_amplified_or_all_deleted (h : Bool) (t : List Seg) :
    ∀ g ∈ (splitRuns (fullLevel h levelAmpdel) t).filter ampdelKeep,
      (∀ r ∈ g, levelAmpdel r = some 1) ∨ (∀ r ∈ g, levelAmpdel r = some (-1)) := ampdel_kept_runs_uniform h t

/-- non-vacuity: a chain that runs (ci then cn on a table carrying ci_lo, ci_hi and cn) -/
example : (match runChain [Filt.ci, Filt.cn]
    { cols := ["chromosome", "start", "end", "gene", "log2", "probes", "weight", "cn", "ci_lo", "ci_hi"],
      rows := [ { chrom := "chr1", s := 0, e := 10, gene := "a", log2 := 0, probes := 3, weight := 1, cn := some 2, ciLo := some (-1), ciHi := some 1 },
                { chrom := "chr1", s := 10, e := 20, gene := "b", log2 := 0, probes := 4, weight := 2, cn := some 2, ciLo := some (-1), ciHi := some 1 } ] } with
    | .ok t' => t'.rows.map (·.probes)
    | .error _ => []) = [7] := by decide +kernel

end CnvVerif.C14
