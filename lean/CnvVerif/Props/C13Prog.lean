/-
  C13: tie of `do_access`'s BODY to the source text.  `Generated.DO_ACCESS_PROG` is re-read from
  `cnvlib/access.py:do_access` on every run (harness/extractors/access_prog.py: reading rules at its top) as a term of
  the command language of Model/AccessExt5.lean; `C13P.runDoAccess` interprets it with the library calls read as the
  model functions of Model/Access.lean.  The theorems state that this program IS the model `doAccess` -- scan, name
  filter exactly under the flag, one `subtract` per exclude file in order on the running result, join LAST with the
  caller's minimum gap -- and therefore inherits the table-level theorems of Props/C13Table.lean.  An edit of the
  glue (loop left after the first file, subtraction from the unfiltered table, join before exclude, filter on the
  wrong branch, other read format, dropped step) changes the term and breaks `do_access_is_the_source`.
-/
import CnvVerif.Props.C13Table
import CnvVerif.Lemmas.AccessProg
namespace CnvVerif.C13
open CnvVerif CnvVerif.C13P

/-- the body of `do_access` as written in the source, interpreted, equals the model for every FASTA file, every
    list of exclude files, every minimum gap (also `None`) and both values of the flag -- including when it raises -/
theorem do_access_is_the_source (lines : List FLine) (excl : List Table) (gap : Option Int) (skip : Bool) :
    runDoAccess Generated.DO_ACCESS_PROG lines excl gap skip = doAccess lines excl gap skip :=
  runDoAccess_eq lines excl gap skip

/-- the exclude loop of any body that subtracts one sorted file per pass from the accumulator and leaves the
    variables of `frame` alone folds `subtract` over ALL files in command order (not only the first, not reversed) -/
theorem do_access_exclude_loop_folds (b : AStmt) (v acc : Nat) (frame : List Nat)
    (hstep : ∀ (env : Env) (t x : Table), env.lookup acc = some (.table t) →
      ∃ env', execS b ((v, .bedFile x) :: env) = .ok (env', none) ∧
        env'.lookup acc = some (.table (subtractTable t (sortTable x))) ∧
        ∀ n ∈ frame, env'.lookup n = env.lookup n)
    (l : List Table) (env : Env) (t : Table) (h : env.lookup acc = some (.table t)) :
    ∃ env', l.foldlM (fun e x => do let r ← execS b ((v, .bedFile x) :: e); pure r.1) env = .ok env' ∧
      env'.lookup acc = some (.table (l.foldl (fun a ex => subtractTable a (sortTable ex)) t)) ∧
      ∀ n ∈ frame, env'.lookup n = env.lookup n :=
  foldlM_exclude b v acc frame hstep l env t h

/-- the source program inherits the table theorem: on every well-formed FASTA text with distinct names and
    non-empty exclude regions it returns a table (no exception) that, per chromosome, has non-empty rows at least
    `max 1 minGap` apart covering exactly the accessible bases plus the bridged small gaps -/
theorem do_access_source_exact (recs : List (String × List (List Char))) (excl : List Table)
    (minGap : Option Int) (skip : Bool)
    (hn : (recs.map (·.1)).Nodup)
    (hex : ∀ ex ∈ excl, ∀ r ∈ ex, 0 ≤ r.s ∧ r.s < r.e) :
    ∃ out, runDoAccess Generated.DO_ACCESS_PROG (renderRecords recs) excl minGap skip = .ok out ∧
      ∀ c, (∀ r ∈ rowsOf out c, r.s < r.e) ∧
        (rowsOf out c).Pairwise (fun a b => a.e + max 1 (minGap.getD 0) ≤ b.s) ∧
        ∀ p, cov (rowsOf out c) p ↔
          AccessibleT recs excl skip c p ∨ InSmallGap (AccessibleT recs excl skip c) (minGap.getD 0) p := by
  rw [do_access_is_the_source]
  exact access_table_exact recs excl minGap skip hn hex

/-- sequence text before the first header: the source program raises the same TypeError as the model, whatever
    the exclude files -/
theorem do_access_source_raises_with_scan (lines : List FLine) (excl : List Table) (gap : Option Int) (skip : Bool)
    (e : String) (h : getRegions lines = .error e) :
    runDoAccess Generated.DO_ACCESS_PROG lines excl gap skip = .error e := by
  rw [do_access_is_the_source]
  simp [doAccess, h, bind, Except.bind]

/-- `exclude_fnames` left out is the empty tuple: nothing is subtracted -/
theorem do_access_no_exclude (lines : List FLine) (gap : Option Int) (skip : Bool)
    (_h : Generated.DO_ACCESS_EXCLUDE_DEFAULT_EMPTY = true) :
    runDoAccess Generated.DO_ACCESS_PROG lines [] gap skip =
      (getRegions lines).bind (fun regs => joinRegions gap ((keepRegions skip regs).map regionRow)) := by
  rw [do_access_is_the_source]
  rfl

/-! ### non-vacuity -/

example : Generated.DO_ACCESS_EXCLUDE_DEFAULT_EMPTY = true := rfl

/-- the source program run by the kernel: header, one line with a 2-base N gap; minimum gap 3 bridges it, 2 keeps it;
    the non-canonical name is dropped exactly when the flag is on -/
example :
    (match runDoAccess Generated.DO_ACCESS_PROG [.header "c", .body "ACGTNNACGT".toList] [] (some 3) true with
      | .ok t => t.map (fun r => (r.chrom, r.s, r.e))
      | .error _ => []) = [("c", 0, 10)] := by decide

example :
    (match runDoAccess Generated.DO_ACCESS_PROG [.header "c", .body "ACGTNNACGT".toList] [] (some 2) true with
      | .ok t => t.map (fun r => (r.chrom, r.s, r.e))
      | .error _ => []) = [("c", 0, 4), ("c", 6, 10)] := by decide

example :
    (match runDoAccess Generated.DO_ACCESS_PROG [.header "chrM", .body "ACGT".toList] [] none true with
      | .ok t => t.map (fun r => (r.chrom, r.s, r.e))
      | .error _ => [("?", 0, 0)]) = [] ∧
    (match runDoAccess Generated.DO_ACCESS_PROG [.header "chrM", .body "ACGT".toList] [] none false with
      | .ok t => t.map (fun r => (r.chrom, r.s, r.e))
      | .error _ => []) = [("chrM", 0, 4)] := by decide

/-- the hypothesis of `do_access_source_raises_with_scan` is satisfiable: sequence text before the first header -/
example : ∃ e, getRegions [.body "ACGT".toList, .header "c"] = .error e := ⟨_, rfl⟩

end CnvVerif.C13
