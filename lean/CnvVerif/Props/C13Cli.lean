/-
  C13, the `access` sub-command: what `cnvkit.py access FASTA -s N -x BED ...` hands to `do_access`
  (`Generated/AccessCliConsts.lean` is re-read from `cnvlib/commands.py` on every run), and hence that the command
  line inherits the table-level theorem of Props/C13Table.lean: every `-x` file is removed, `-s` (or the command
  line's own default) is the minimum gap, non-canonical names are always dropped.
-/
import CnvVerif.Props.C13Table
import CnvVerif.Model.AccessCli
namespace CnvVerif.C13
open CnvVerif

/-- the glue passes the FASTA, ALL `-x` files (appended in order, none by default) and the `-s` value into the
    parameters of those names, and writes plain 3-column BED -/
theorem cli_passes_its_arguments :
    Generated.ACCESS_CLI_CALL =
      [("fa_fname", "fa_fname"), ("exclude_fnames", "exclude"), ("min_gap_size", "min_gap_size")] ∧
    Generated.ACCESS_CLI_EXCLUDE_ACTION = "append" ∧ Generated.ACCESS_CLI_EXCLUDE_DEFAULT_EMPTY = true ∧
    Generated.ACCESS_CLI_WRITE_FORMAT = "bed3" := by decide

/-- the command is `do_access` with the `-x` tables, the `-s` value when given, and the name filter on -/
theorem cli_is_do_access (lines : List FLine) (excl : List Table) (g : Int) :
    cmdAccess lines ⟨excl, some g⟩ = doAccess lines excl (some g) true := rfl

/-- so the command line satisfies the property on every chromosome: never raises, rows non-empty, sorted, at
    least `max 1 gap` apart, covering exactly the accessible bases of the canonical sequences plus the bridged
    gaps -- for the `-s` value given or, when `-s` is left out, for the command line's own default -/
theorem cli_access_exact (recs : List (String × List (List Char))) (a : AccessArgs)
    (hn : (recs.map (·.1)).Nodup)
    (hex : ∀ ex ∈ a.exclude, ∀ r ∈ ex, 0 ≤ r.s ∧ r.s < r.e) :
    ∃ out, cmdAccess (renderRecords recs) a = .ok out ∧
      ∀ c, (∀ r ∈ rowsOf out c, r.s < r.e) ∧
        (rowsOf out c).Pairwise (fun x y => x.e + max 1 a.gap ≤ y.s) ∧
        (isCanonicalName c = false → rowsOf out c = []) ∧
        ∀ p, cov (rowsOf out c) p ↔
          AccessibleT recs a.exclude true c p ∨ InSmallGap (AccessibleT recs a.exclude true c) a.gap p := by
  obtain ⟨out, hout, hspec⟩ := access_table_exact recs a.exclude (some a.gap) true hn hex
  obtain ⟨out', hout', hnone, _⟩ := access_table_is_per_chromosome recs a.exclude (some a.gap) true hn hex
  have hoo : out' = out := by
    rw [hout] at hout'
    exact (Except.ok.inj hout').symm
  subst hoo
  refine ⟨out', hout, ?_⟩
  intro c
  obtain ⟨h1, h2, h3⟩ := hspec c
  refine ⟨h1, h2, ?_, h3⟩
  intro hc
  apply hnone c
  rintro ⟨r, _, _, hk⟩
  rw [hk rfl] at hc
  exact Bool.noConfusion hc

/-- `-s` left out: the command line's own default, whatever the source says it is; `-s 7`: 7 -/
example : (⟨[], none⟩ : AccessArgs).gap = Generated.ACCESS_CLI_DEFAULT_MIN_GAP ∧ (⟨[], some 7⟩ : AccessArgs).gap = 7 :=
  ⟨rfl, rfl⟩

end CnvVerif.C13
