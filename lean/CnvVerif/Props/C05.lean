/-
  C05 — the pooled reference is the robust per-bin consensus in the chosen reference sex.
  Property theorems only; proofs in Lemmas/Reference.lean.

  `doReference` is, by definition, what the property's first sentence says: each bin's log2 and
  spread are Tukey's biweight location (`Desc.biweightLocationCore`, C19's exact model) and
  midvariance over the neutral pseudo-sample plus each sample's log2 after median-centring
  (`centerShift medianR`, C15) and the sex shift `sexAdjust`.  The theorems below are the
  consequences the property lists.
-/
import CnvVerif.Model.Reference
import CnvVerif.Lemmas.Reference
import CnvVerif.Lemmas.ReferenceValues
namespace CnvVerif.C05
open CnvVerif CnvVerif.Ref

/-- a reference built from coverage files has exactly their bins (those of the first file in
    name order), in order, per block … -/
theorem reference_has_exactly_the_bins (hapX : Bool) (par : Option String) (skipLow : Bool)
    (sexes : List (String × Bool)) (samples : List Sample) (out : List RefOut) (first : Sample)
    (rest : List Sample) (hs : sortSamples samples = first :: rest)
    (h : refBlock hapX par skipLow sexes samples = .ok out) :
    out.map (fun o => (o.chrom, o.s, o.e, o.gene)) = first.rows.map binKey :=
  refBlock_bins hapX par skipLow sexes samples out first rest hs h

/-- … and the whole reference is the genomic sort of targets followed by antitargets -/
theorem reference_is_sorted_union (hapX : Bool) (par : Option String) (sexes : List (String × Bool))
    (targets : List Sample) (anti : List Sample) (t a out : List RefOut)
    (hl : anti.length = targets.length) (hne : anti ≠ [])
    (ht : refBlock hapX par true sexes targets = .ok t)
    (ha : refBlock hapX par false sexes anti = .ok a)
    (h : doReference hapX par sexes targets (some anti) = .ok out) : out.Perm (t ++ a) :=
  doReference_perm hapX par sexes targets anti t a out hl hne ht ha h

/-- files whose bins differ are rejected -/
theorem reject_differing_bins (hapX : Bool) (par : Option String) (skipLow : Bool)
    (sexes : List (String × Bool)) (samples : List Sample) (first : Sample) (rest : List Sample)
    (bad : Sample) (hs : sortSamples samples = first :: rest) (hne : first.rows ≠ [])
    (hb : bad ∈ rest) (hd : bad.rows.map binKey ≠ first.rows.map binKey) :
    ∃ e, refBlock hapX par skipLow sexes samples = .error e :=
  refBlock_rejects hapX par skipLow sexes samples first rest bad hs hne hb hd

/-- normals that differ only in sequencing depth contribute the same values (the depth scale is
    removed by the median-centring) … -/
theorem depth_scale_collapses (hapX : Bool) (par : Option String) (isXX : Option Bool)
    (flat : List Rat) (rows : List CovRow) (c : Rat) (hne : rows ≠ []) :
    sampleLogr hapX par false isXX flat (rows.map (fun r => { r with log2 := r.log2 + c }))
      = sampleLogr hapX par false isXX flat rows :=
  sampleLogr_depth_scale hapX par isXX flat rows c hne

/-- … and k ≥ 2 agreeing samples reproduce their common value with spread 0: the neutral
    pseudo-sample is rejected as an outlier (or coincides with them) -/
theorem identical_samples_reproduce (k : Nat) (hk : 2 ≤ k) (f v : Rat)
    (hfv : f = v ∨ (Generated.BILOC_EPS ≤ Desc.absR (f - v) ∧ Generated.BIVAR_EPS ≤ Desc.absR (f - v))) :
    locOf (f :: List.replicate k v) = v ∧ spreadOf (f :: List.replicate k v) v = .direct 0 :=
  Ref.identical_samples_reproduce k hk f v hfv

/-- with ONE sample the consensus is the midpoint of the sample and the pseudo-sample: the
    consequence clause fails for 1-sample cohorts (open finding E; by design of the pseudo-sample) -/
theorem single_sample_halves (f v : Rat) : locOf [f, v] = (f + v) / 2 := Ref.single_sample_halves f v

/-- for any mix of male and female normals chrX lies 1.0 below the baseline for a male reference and
    on it for a female one … -/
theorem sex_levels_x (hapX isXX : Bool) :
    sexAdjust isXX .x (flatX hapX) (rawX isXX) = (if hapX then -1 else 0) := Ref.sex_levels_x hapX isXX

/-- … with chrY at the single-copy level −1 in both -/
theorem sex_levels_y (isXX : Bool) (v : Rat) (hv : isXX = false → v = -1) :
    sexAdjust isXX .y (-1) v = -1 := Ref.sex_levels_y isXX v hv

theorem autosomes_untouched (isXX : Bool) (v : Rat) :
    sexAdjust isXX .auto 0 v = v ∧ sexAdjust isXX .parx 0 v = v := sex_levels_auto isXX v

/-- a flat reference is 0 on autosomes, −1 on Y, and −1 on X only for a male reference
    (`C15.expect_flat_table` characterises `expectFlat`) -/
theorem flat_reference_table (hapX : Bool) (par : Option String) (bins : List CovRow) :
    (flatReference hapX par bins).map (·.2) =
      expectFlat hapX par ((flatReference hapX par bins).map (fun p => toC p.1)) :=
  flatReference_values hapX par bins

/-- gc is the G+C fraction of the unambiguous bases and rmask their lowercase fraction -/
theorem gc_rmask_are_fractions (seq : List Char) :
    0 ≤ (gcRmask seq).1 ∧ (gcRmask seq).1 ≤ 1 ∧ 0 ≤ (gcRmask seq).2 ∧ (gcRmask seq).2 ≤ 1 :=
  gcRmask_fractions seq

theorem gc_rmask_def (seq : List Char)
    (h : 0 < seq.countP (fun c => c == 'G' || c == 'C' || c == 'g' || c == 'c') +
             seq.countP (fun c => c == 'A' || c == 'T' || c == 'a' || c == 't')) :
    (gcRmask seq).1 = (seq.countP (fun c => c == 'G' || c == 'C' || c == 'g' || c == 'c') : Rat) /
      ((seq.countP (fun c => c == 'G' || c == 'C' || c == 'g' || c == 'c') +
        seq.countP (fun c => c == 'A' || c == 'T' || c == 'a' || c == 't') : Nat) : Rat) ∧
    (gcRmask seq).2 = (seq.countP (fun c => c == 'a' || c == 'c' || c == 'g' || c == 't') : Rat) /
      ((seq.countP (fun c => c == 'G' || c == 'C' || c == 'g' || c == 'c') +
        seq.countP (fun c => c == 'A' || c == 'T' || c == 'a' || c == 't') : Nat) : Rat) :=
  gcRmask_def seq h

/-- the first sentence of the property: when a block of coverage files is accepted, the reference has one row per
    bin of the sample that comes first in file-name order, every other file has the same bins, and for the i-th bin
    log2 and spread are Tukey's biweight location and midvariance of the i-th COLUMN of the matrix whose first row is
    the neutral pseudo-sample (`expectFlat`) and whose other rows are each sample's log2 after median-centring and the
    shift of its sex chromosomes to the requested reference sex (`sampleLogr`); depth is the location of the depths -/
theorem reference_values_are_biweight_of_columns (hapX : Bool) (par : Option String) (skipLow : Bool)
    (sexes : List (String × Bool)) (samples : List Ref.Sample) (outs : List Ref.RefOut) (first : Ref.Sample)
    (rest : List Ref.Sample) (hs : Ref.sortSamples samples = first :: rest) (hne : first.rows.isEmpty = false)
    (h : Ref.refBlock hapX par skipLow sexes samples = .ok outs) :
    let flat := expectFlat hapX par (first.rows.map Ref.toC)
    let logr := (first :: rest).map fun s =>
      Ref.sampleLogr hapX par skipLow ((sexes.find? (·.1 == s.name)).map (·.2)) flat s.rows
    let n := first.rows.length
    let lcols := Ref.columns n (flat :: logr)
    let dcols := Ref.columns n ((first :: rest).map (fun s => s.rows.map (·.depth)))
    (∀ s ∈ rest, s.rows.map Ref.binKey = first.rows.map Ref.binKey) ∧
    outs = ((first.rows.zip lcols).zip dcols).map (fun p =>
      { chrom := p.1.1.chrom, s := p.1.1.s, e := p.1.1.e, gene := p.1.1.gene, log2 := Ref.locOf p.1.2,
        depth := Ref.locOf p.2, spread := Ref.spreadOf p.1.2 (Ref.locOf p.1.2) }) :=
  Ref.refBlock_values hapX par skipLow sexes samples outs first rest hs hne h

/-! non-vacuity -/
example : sexAdjust true .x (flatX true) (rawX true) = -1 ∧ sexAdjust false .x (flatX false) (rawX false) = 0 := by
  decide +kernel
example : gcRmask ['A', 'c', 'G', 'N', 't'] = (1/2, 1/2) := by decide +kernel

end CnvVerif.C05
