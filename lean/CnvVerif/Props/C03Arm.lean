/-
  C03, the arm split (`GenomicArray.by_arm`, which decides the units the per-arm methods none / haar / cbs work
  on): the exact centromere choice.  Props/C03.lean proves that `by_arm` only cuts; here: WHERE it cuts.
  Proofs in Lemmas/TileArm.lean.
-/
import CnvVerif.Model.Tile
import CnvVerif.Model.TileExt
import CnvVerif.Lemmas.TileArm
namespace CnvVerif.C03
open CnvVerif

/-- numpy `argmax` as modelled: a position of the maximum, and the first such position -/
theorem argmax_is_first_maximum (l : List Int) (hne : l ≠ []) :
    argmax l < l.length ∧ (∀ j, j < l.length → l.getD j 0 ≤ l.getD (argmax l) 0) ∧
      (∀ j, j < argmax l → l.getD j 0 < l.getD (argmax l) 0) := argmax_spec l hne

/-- a chromosome of `n` bins is split only if `n > 2·margin + 1` (margin = `max(min_arm_bins, round(0.1·n))`), and
    then at the position `margin+1 ≤ idx ≤ n−margin−1` of the LARGEST gap `start[idx] − end[idx−1]` among those
    positions (the leftmost one on ties), provided that gap is at least `min_gap_size`; it is left whole exactly
    when it is too short or no admissible gap is that wide -/
theorem by_arm_splits_at_largest_admissible_gap (starts ends : List Int) (hlen : ends.length = starts.length)
    (minGap : Int) (minArmBins : Nat) :
    ByArmChoice starts ends minGap (max minArmBins (roundTenth starts.length))
      (cmereIdx starts ends minGap minArmBins) := cmereIdx_choice starts ends hlen minGap minArmBins

/-- the same, spelled out for a table: the arms are the rows before / from that position -/
theorem by_arm_arms_are_prefix_and_suffix {α} (rows : List α) (s e : α → Int) (minGap : Int) (minArmBins : Nat) :
    armsOfChrom rows s e minGap minArmBins =
      if cmereIdx (rows.map s) (rows.map e) minGap minArmBins = 0 then [rows]
      else [rows.take (cmereIdx (rows.map s) (rows.map e) minGap minArmBins),
            rows.drop (cmereIdx (rows.map s) (rows.map e) minGap minArmBins)] :=
  armsOfChrom_eq rows s e minGap minArmBins

/-- each arm of a split chromosome keeps more than `margin ≥ min_arm_bins` bins -/
theorem by_arm_arms_keep_margin {α} (rows : List α) (s e : α → Int) (minGap : Int) (minArmBins : Nat)
    (h : cmereIdx (rows.map s) (rows.map e) minGap minArmBins ≠ 0) :
    ∀ arm ∈ armsOfChrom rows s e minGap minArmBins, minArmBins + 1 ≤ arm.length := by
  have hb := cmereIdx_bounds (rows.map s) (rows.map e) minGap minArmBins h (by simp)
  rw [armsOfChrom_eq, if_neg h]
  simp only [List.length_map] at hb
  intro arm ha
  simp only [List.mem_cons, List.not_mem_nil, or_false] at ha
  rcases ha with rfl | rfl
  · rw [List.length_take]; omega
  · rw [List.length_drop]; omega

/-- chromosomes of at most 101 bins are never split (margin ≥ 50) -/
theorem by_arm_short_chromosome_whole (starts ends : List Int) (minGap : Int) (h : starts.length ≤ 101) :
    cmereIdx starts ends minGap 50 = 0 := by
  unfold cmereIdx
  simp only []
  rw [if_neg (by omega)]

/-! non-vacuity: 104 bins of width 10, every gap 0 except 200 000 before bin 51 and 150 000 before bin 52 -/
example :
    let starts : List Int := (List.range 104).map fun (i : Nat) =>
      (10 * (i : Int)) + (if i ≥ 51 then 200000 else 0) + (if i ≥ 52 then 150000 else 0)
    cmereIdx starts (starts.map (· + 10)) 100000 50 = 51 := by decide +kernel
/-- the same holes one bin further left are inadmissible: bin 50 is inside the margin, bin 51's gap is chosen -/
example :
    let starts : List Int := (List.range 104).map fun (i : Nat) =>
      (10 * (i : Int)) + (if i ≥ 50 then 200000 else 0) + (if i ≥ 51 then 150000 else 0)
    cmereIdx starts (starts.map (· + 10)) 100000 50 = 51 := by decide +kernel

end CnvVerif.C03
