/-
  C14 — segment filters merge only adjacent like segments and conserve what they merge.
  Property theorems only; proofs in Lemmas/SegFilter.lean.
-/
import CnvVerif.Model.SegFilter
import CnvVerif.Lemmas.SegFilter
import CnvVerif.Lemmas.SegFilterSpan
namespace CnvVerif.C14
open CnvVerif

/-! `specSquash h f t` is the property's wording: split the table into the maximal runs of
    consecutive rows on one chromosome sharing the filter's level `f` (and, when the table has
    allele-specific columns, cn1/cn2), and squash every run to one row.  `squashByGroups` is what
    the code does: cumulative |Δlevel| plus chromosome ordinal as a pandas group key. -/

/-- the code's group keys select exactly the maximal runs: on a chromosome-contiguous table with
    integer levels every `--filter` equals the run-based definition -/
theorem groups_are_maximal_runs (h : Bool) (f : Seg → Option Rat) (t : List Seg)
    (hc : ChromContig t) (hf : ∀ r ∈ t, IntLevel (f r))
    (h1 : h = true → ∀ r ∈ t, NatOrMissing r.cn1 ∧ NatOrMissing r.cn2) :
    squashByGroups h t (t.map f) = specSquash h f t := squashByGroups_eq_runs h f t hc hf h1

/-- the three sign-level filters always have integer levels (so the theorem applies to ci, sem,
    ampdel unconditionally, and to cn whenever cn is an integer column) -/
theorem ci_levels_int (r : Seg) : IntLevel (levelCi r) := levelCi_int r
theorem sem_levels_int (r : Seg) : IntLevel (levelSem r) := levelSem_int r
theorem ampdel_levels_int (r : Seg) : IntLevel (levelAmpdel r) := levelAmpdel_int r

/-- runs partition the table in order … -/
theorem runs_partition {κ} [BEq κ] (lv : Seg → κ) (t : List Seg) : (splitRuns lv t).flatten = t :=
  splitRuns_flatten lv t

/-- … never mix chromosomes or levels … -/
theorem never_across_chromosomes_or_levels {κ} [BEq κ] [LawfulBEq κ] (lv : Seg → κ) (t : List Seg) :
    ∀ g ∈ splitRuns lv t, ∀ a ∈ g, ∀ b ∈ g, a.chrom = b.chrom ∧ lv a = lv b := splitRuns_uniform lv t

/-- … and are maximal: neighbouring outputs differ in chromosome or level -/
theorem neighbours_differ {κ} [BEq κ] [LawfulBEq κ] (lv : Seg → κ) (t : List Seg)
    (pre post : List (List Seg)) (g1 g2 : List Seg) (h : splitRuns lv t = pre ++ [g1, g2] ++ post)
    (a b : Seg) (ha : g1.getLast? = some a) (hb : g2.head? = some b) :
    a.chrom ≠ b.chrom ∨ lv a ≠ lv b := splitRuns_maximal lv t pre post g1 g2 h a b ha hb

/-- one output segment per run: from the run's first start to its last end on its chromosome,
    probes and weight the sums, log2 the weight-averaged log2 of the run -/
theorem squash_fields (x : Seg) (xs : List Seg) :
    ∃ r, squashRegion (x :: xs) = some r ∧ r.chrom = x.chrom ∧ r.s = x.s ∧
      r.e = ((x :: xs).getLast?.getD x).e ∧
      r.probes = sumInt ((x :: xs).map (·.probes)) ∧ r.weight = sumRat ((x :: xs).map (·.weight)) ∧
      (0 < sumRat ((x :: xs).map (·.weight)) →
        r.log2 * sumRat ((x :: xs).map (·.weight)) = sumRat ((x :: xs).map (fun s => s.log2 * s.weight))) :=
  squashRegion_fields x xs

theorem one_row_per_run (h : Bool) (f : Seg → Option Rat) (t : List Seg) :
    (specSquash h f t).length = (splitRuns (fullLevel h f) t).length ∧
    ∀ i (hi : i < (splitRuns (fullLevel h f) t).length) (hj : i < (specSquash h f t).length),
      let g := (splitRuns (fullLevel h f) t)[i]
      let r := (specSquash h f t)[i]
      (∃ x xs, g = x :: xs ∧ r.chrom = x.chrom ∧ r.s = x.s ∧ r.e = (g.getLast?.getD x).e) :=
  specSquash_rows h f t

/-- total probes and total weight are conserved -/
theorem conserves_probes (h : Bool) (f : Seg → Option Rat) (t : List Seg) :
    sumInt ((specSquash h f t).map (·.probes)) = sumInt (t.map (·.probes)) :=
  specSquash_conserves_probes h f t

theorem conserves_weight (h : Bool) (f : Seg → Option Rat) (t : List Seg) :
    sumRat ((specSquash h f t).map (·.weight)) = sumRat (t.map (·.weight)) :=
  specSquash_conserves_weight h f t

/-- each chromosome's covered span is conserved: on every chromosome the first output segment starts where the
    chromosome's first input segment starts and the last output segment ends where its last input segment ends -/
theorem conserves_chrom_span (h : Bool) (f : Seg → Option Rat) (t : List Seg) (hc : ChromContig t)
    (c : String) (first last : Seg)
    (hfst : (t.filter (fun r => r.chrom == c)).head? = some first)
    (hlst : (t.filter (fun r => r.chrom == c)).getLast? = some last) :
    (((specSquash h f t).filter (fun r => r.chrom == c)).head?.map (·.s) = some first.s) ∧
    (((specSquash h f t).filter (fun r => r.chrom == c)).getLast?.map (·.e) = some last.e) :=
  specSquash_conserves_chrom_span h f t hc c first last hfst hlst

/-- … and no chromosome appears or disappears -/
theorem same_chromosomes (h : Bool) (f : Seg → Option Rat) (t : List Seg) (c : String) :
    (∃ r ∈ specSquash h f t, r.chrom = c) ↔ (∃ r ∈ t, r.chrom = c) :=
  specSquash_same_chromosomes h f t c

/-- the cut-offs read from the source are the ones the property names: 1.96, cn = 0, cn ≥ 5 -/
theorem constants_are : Generated.SEM_ZSCORE_dec = 196 / 100 ∧ Generated.AMPDEL_AMP_MIN = [5] ∧
    Generated.AMPDEL_DEL_EQ = [0] := by decide +kernel

/-- `ampdel` keeps the runs whose level is not neutral: all-deleted (cn = 0) or all-amplified (cn ≥ 5) -/
theorem ampdel_keeps_only_extremes (r : Seg) (c : Rat) (hc : r.cn = some c) :
    (levelAmpdel r = some 1 ↔ c ≥ 5) ∧ (levelAmpdel r = some (-1) ↔ c = 0) := ampdel_level_meaning r c hc

/-! non-vacuity: two chromosomes, a level change, and a run of three -/
example : (filterCn false
    [ { chrom := "chr1", s := 0, e := 10, gene := "a", log2 := 0, probes := 3, weight := 1, cn := some 2 },
      { chrom := "chr1", s := 12, e := 20, gene := "b", log2 := 1, probes := 2, weight := 3, cn := some 2 },
      { chrom := "chr1", s := 20, e := 30, gene := "c", log2 := 0, probes := 1, weight := 1, cn := some 3 },
      { chrom := "chr2", s := 5, e := 9, gene := "d", log2 := 0, probes := 1, weight := 1, cn := some 3 } ]).map
    (fun r => (r.chrom, r.s, r.e, r.probes, r.weight, r.log2)) =
    [("chr1", 0, 20, 5, 4, 3/4), ("chr1", 20, 30, 1, 1, 0), ("chr2", 5, 9, 1, 1, 0)] := by decide +kernel

/-! ### round 4: levels of any size (after the repair of `enumerate_changes`) -/

/-- STRONGER main theorem: the levels need not be integers.  On a chromosome-contiguous table whose levels are
    present (any rational values -- e.g. the weighted-median cn 5.5 an `ampdel` run can carry into a following `cn`
    filter) the code's group keys select exactly the maximal runs; allele-specific copy numbers may be any values
    but −1 (the code's stand-in for "missing"). -/
theorem groups_are_maximal_runs_any_levels (h : Bool) (f : Seg → Option Rat) (t : List Seg)
    (hc : ChromContig t) (hf : ∀ r ∈ t, Present (f r))
    (h1 : h = true → ∀ r ∈ t, r.cn1 ≠ some (-1) ∧ r.cn2 ≠ some (-1)) :
    squashByGroups h t (t.map f) = specSquash h f t := squashByGroups_eq_runs_any h f t hc hf h1

/-- the `cn` filter merges exactly the runs of EQUAL cn, whatever values cn takes -/
theorem cn_filter_is_runs_of_equal_cn (t : List Seg) (hc : ChromContig t) (hcn : ∀ r ∈ t, Present r.cn) :
    filterCn false t = specSquash false levelCn t :=
  squashByGroups_eq_runs_any false levelCn t hc hcn (fun h => absurd h (by decide))

/-- before the repair (`…abs().cumsum().astype(int)`): 5.5 and 5 shared a key, so the `cn` filter after `ampdel`
    merged an amplified run of median cn 5.5 with a neighbouring cn-5 segment; the change count keeps them apart -/
theorem enumerate_changes_prefix_counterexample :
    enumChangesPrefix [some (11/2), some 5] = [0, 0] ∧ enumChanges [some (11/2), some 5] = [0, 1] := by
  decide +kernel

example : ChromContig [({ chrom := "chr1", s := 0, e := 20, gene := "a,b", log2 := 29/20, probes := 10, weight := 2, cn := some (11/2) } : Seg),
    { chrom := "chr1", s := 30, e := 40, gene := "d", log2 := 13/10, probes := 5, weight := 1, cn := some 5 }] := by
  intro l1 l2 l3 x y z ht hz hxy
  have hlen := congrArg List.length ht
  simp at hlen
  have : l2 = [] := by
    cases l2 with
    | nil => rfl
    | cons a b => simp at hlen; omega
  subst this
  simp at hz

example : (filterCn false
    [ { chrom := "chr1", s := 0, e := 20, gene := "a,b", log2 := 29/20, probes := 10, weight := 2, cn := some (11/2) },
      { chrom := "chr1", s := 30, e := 40, gene := "d", log2 := 13/10, probes := 5, weight := 1, cn := some 5 } ]).map
    (fun r => (r.s, r.e, r.cn)) = [(0, 20, some (11/2)), (30, 40, some 5)] := by decide +kernel

end CnvVerif.C14
