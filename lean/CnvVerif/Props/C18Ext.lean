/-
  C18, growth round: (1) the whole chain VCF -> load_het_snps -> per-segment BAF as one statement, and "frequencies stay
  attached" through every option of load_het_snps; (2) one BAF per range, at the position of its range; (3) the command-line
  glue: the VCF options of `segment`, `call`, `scatter`, `export theta`, `export nexus-ogt` reach `load_het_snps` with their
  documented meaning; (4) the literals and defaults of the reader and of `load_het_snps` are the ones in the source
  (Generated/VcfConsts.lean is re-read from /repo on every run).  Helper lemmas: Lemmas/VcfExt.lean.
-/
import CnvVerif.Props.C18
import CnvVerif.Lemmas.VcfExt
namespace CnvVerif.C18
open CnvVerif CnvVerif.Vcf

/-! ### frequencies stay attached, through every option of `load_het_snps` -/

/-- whatever the selectors, the depth threshold, `zygosity_freq` and `tumor_boost`: every row `load_het_snps` returns
    carries (`Carries`) the chromosome, start, end, alleles, SOMATIC flag, depth, alt count and the normal's depth / count /
    frequency of ONE row of the table read, and its frequency is that same row's count / depth -- or, with TumorBoost, the
    boosted value of that same row's tumour and normal frequencies.  No hypothesis on genotypes (the no-het fallback and
    the frequency-based genotypes included). -/
theorem het_rows_stay_attached (samples : List String) (tags : List PedTag) (recs : List Rec)
    (o : HetOpts) (tb out : VTable)
    (hr : readVcf samples tags recs
            { sid := o.sid, nid := o.nid, minDepth := o.minDepth,
              skipReject := false, skipSomatic := true } = .ok tb)
    (ho : loadHetSnps samples tags recs o = .ok out) :
    out.paired = tb.paired ∧
    ∀ row ∈ out.rows, ∃ r0 ∈ tb.rows, Carries row r0 ∧
      row.t.altFreq = (if o.tumorBoost then boostRow r0 else r0.t.altFreq) :=
  loadHetSnps_attached samples tags recs o tb out hr ho

/-- … and on a biallelic file that row of the table read is the row of one of the file's records (`recRow`: 0-based
    start, count / depth of the chosen sample): the frequency behind every heterozygous row is its own record's -/
theorem het_rows_come_from_records (samples : List String) (tags : List PedTag) (recs : List Rec)
    (o : HetOpts) (out : VTable) (sid : String) (nid : Option String)
    (hc : chooseSamples samples tags o.sid o.nid = .ok (sid, nid))
    (hb : ∀ r ∈ recs, Biallelic r)
    (ho : loadHetSnps samples tags recs o = .ok out) :
    ∀ row ∈ out.rows, ∃ r ∈ recs,
      Carries row (recRow (samples.idxOf sid) ((truthy nid).map (fun n => samples.idxOf n)) r) ∧
      (o.tumorBoost = false →
        row.t.altFreq = (genoOf (r.smps[samples.idxOf sid]?.getD default) r).altFreq) := by
  obtain ⟨tb, h1, _⟩ := readVcf_biallelic samples tags recs
    { sid := o.sid, nid := o.nid, minDepth := o.minDepth, skipReject := false, skipSomatic := true }
    sid nid hc rfl hb
  have hatt := freqs_stay_attached samples tags recs
    { sid := o.sid, nid := o.nid, minDepth := o.minDepth, skipReject := false, skipSomatic := true }
    sid nid tb hc rfl hb h1
  obtain ⟨_, h2⟩ := loadHetSnps_attached samples tags recs o tb out h1 ho
  intro row hrow
  obtain ⟨r0, hr0, hcar, hf⟩ := h2 row hrow
  obtain ⟨r, hr, rfl⟩ := hatt r0 hr0
  refine ⟨r, hr, hcar, ?_⟩
  intro hbo
  rw [hf, hbo]
  rfl

/-! ### one BAF per range, at the position of its range -/

/-- `baf_by_ranges` answers with exactly one value per range, for EVERY variant table and segment table (no
    well-formedness needed) -/
theorem one_value_per_range (tb : VTable) (segs : List (String × Int × Int)) (above : Option Bool) (boost : Bool) :
    (bafByRanges tb segs above boost).length = segs.length := bafByRanges_length tb segs above boost

/-- … and (finding AZ, as a theorem) the value at position i is the BAF of the i-th range: stored as a column of the
    segment table, every segment receives its own BAF -/
theorem baf_follows_its_range (tb : VTable) (segs : List (String × Int × Int)) (boost : Bool)
    (hwf : WFRows tb.rows) (hseg : ∀ g ∈ segs, 0 ≤ g.2.1) (hg : ChromGrouped segs)
    (hh : ∃ r ∈ tb.rows, isHet r = true) (i : Nat) (hi : i < segs.length) :
    (bafByRanges tb segs none boost)[i]? = some (specBaf tb.paired boost none tb.rows segs[i]) := by
  rw [baf_is_median_of_mirrored tb segs boost hwf hseg hg hh, List.getElem?_map, List.getElem?_eq_getElem hi]
  rfl

/-! ### the whole chain: VCF → load_het_snps → BAF of each segment -/

/-- the rows of a table read from biallelic records with POS ≥ 1 and a non-empty ALT have coordinates ≥ 0 and positive
    length (what `baf_is_median_of_mirrored` asks of the table) -/
theorem read_rows_have_extent (samples : List String) (tags : List PedTag) (recs : List Rec) (o : ReadOpts)
    (sid : String) (nid : Option String) (tb : VTable)
    (hc : chooseSamples samples tags o.sid o.nid = .ok (sid, nid))
    (hr : o.skipReject = false) (hb : ∀ r ∈ recs, Biallelic r)
    (hp : ∀ r ∈ recs, 1 ≤ r.pos ∧ ∀ a ∈ r.alts, 0 < a.length)
    (ht : readVcf samples tags recs o = .ok tb) :
    WFRows tb.rows := by
  refine ⟨sortedV_of_readVcf samples tags recs o tb ht, ?_⟩
  intro row hrow
  obtain ⟨r, hr', rfl⟩ := freqs_stay_attached samples tags recs o sid nid tb hc hr hb ht row hrow
  obtain ⟨a, ha, _⟩ := hb r hr'
  obtain ⟨h1, h2⟩ := hp r hr'
  have h3 := h2 a (by simp [ha])
  simp only [recRow, ha, List.headD_cons]
  omega

/-- **end to end.**  For a table read (depth filter as asked, SOMATIC records dropped) that has a germline-heterozygous
    row, genotypes as called (a paired normal carrying at least one call), no TumorBoost: `load_het_snps` succeeds, and
    `baf_by_ranges` of what it returns gives, for every segment in the order given, the median of the frequencies
    count / depth of exactly the germline-heterozygous rows of the table read that lie inside that segment, mirrored to
    one side of 0.5 -- missing where there are none -/
theorem vcf_to_segment_baf (samples : List String) (tags : List PedTag) (recs : List Rec)
    (o : HetOpts) (tb : VTable) (segs : List (String × Int × Int))
    (hr : readVcf samples tags recs
            { sid := o.sid, nid := o.nid, minDepth := o.minDepth,
              skipReject := false, skipSomatic := true } = .ok tb)
    (hz : o.zygFreq = none) (hb : o.tumorBoost = false)
    (hn : tb.paired = true → ∃ r ∈ tb.rows, ∃ g, r.n = some g ∧ g.zyg ≠ 0)
    (hh : ∃ r ∈ tb.rows, isHet r = true)
    (hwf : WFRows tb.rows) (hseg : ∀ g ∈ segs, 0 ≤ g.2.1) (hg : ChromGrouped segs) :
    ∃ hets, loadHetSnps samples tags recs o = .ok hets ∧
      bafByRanges hets segs none false =
        segs.map (fun g => summarize none
          (((tb.rows.filter isHet).filter (overlaps g)).map (fun r => r.t.altFreq.toOpt))) := by
  refine ⟨_, loadHetSnps_rows samples tags recs o tb hr hz hb hn hh, ?_⟩
  obtain ⟨r, hr1, hr2⟩ := hh
  have hh' : ∃ x ∈ tb.rows.filter isHet, isHet x = true := ⟨r, List.mem_filter.mpr ⟨hr1, hr2⟩, hr2⟩
  rw [baf_is_median_of_mirrored { paired := tb.paired, rows := tb.rows.filter isHet } segs false
    (hwf.sublist List.filter_sublist) hseg hg hh']
  apply List.map_congr_left
  intro g _
  have e : bafFreq tb.paired false = fun r : VRow => r.t.altFreq.toOpt := by
    funext r
    simp [bafFreq]
  simp [specBaf, e, List.filter_filter]

/-! ### the command line -/

/-- for each of the commands that read a VCF -- whatever ids, depth and `-z` are given or left out -- `load_het_snps`
    receives the documented meaning of the options (`cliDocumented`): the ids as given, minimum depth 20 unless asked
    otherwise, `zygosity_freq` None unless `-z` (0.25 when bare), and never TumorBoost.  The left side is computed from
    the tables read off `commands.py` and `cmdutil.py` on every run. -/
theorem cli_options_reach_load_het_snps (cmd : String) (hc : cmd ∈ Generated.cliVcfCommands) (a : CliVcfArgs) :
    cliLhsArgs cmd a = some (cliDocumented a) := cliLhsArgs_documented cmd hc a

/-- the commands in question: every `_cmd_*` that calls `load_het_snps` -/
theorem cli_commands_reading_a_vcf :
    Generated.cliVcfCommands = ["_cmd_segment", "_cmd_call", "_cmd_scatter", "_cmd_export_theta", "_cmd_export_nbo"] := rfl

/-- the options of the model that follow from a command line: in particular no TumorBoost, so (by
    `het_rows_stay_attached`) every frequency a command works with is its own record's count / depth -/
theorem cli_het_options (a : CliVcfArgs) :
    lhsHetOpts (cliDocumented a) =
      { sid := nameSel a.sampleId, nid := nameSel a.normalId, minDepth := some (a.minVariantDepth.getD 20),
        zygFreq := (match a.zygosityFreq with
          | none => none
          | some none => some (1/4, 3/4)
          | some (some f) => some (f, 1 - f)),
        tumorBoost := false } := by
  obtain ⟨sid, nid, md, zf⟩ := a
  rcases zf with _ | _ | f
  · simp [lhsHetOpts, cliDocumented]
  · simp [lhsHetOpts, cliDocumented]
    decide +kernel
  · simp [lhsHetOpts, cliDocumented]

/-- a bare `-z` asks for the thresholds `load_het_snps` falls back to by itself when the normal carries no genotype -/
theorem cli_bare_z_is_the_fallback (o : HetOpts) (tb : VTable) (hz : o.zygFreq = none)
    (hp : tb.paired = true) (hn : normalUntyped tb.rows = true) :
    effectiveZygFreq o tb = (lhsHetOpts (cliDocumented { zygosityFreq := some none })).zygFreq := by
  rw [effectiveZygFreq_fallback o tb hz hp hn]
  decide +kernel

/-! ### defaults and literals are the source's -/

/-- `load_het_snps`: parameters, defaults, the reader call (SOMATIC records skipped, FILTER not consulted, the depth
    threshold handed on as `min_depth`), the `(zygosity_freq, 1 - zygosity_freq)` thresholds, and the model's defaults -/
theorem load_het_snps_option_table :
    Generated.lhsParams = ["vcf_fname", "sample_id", "normal_id", "min_variant_depth", "zygosity_freq", "tumor_boost"] ∧
    Generated.lhsDefaults = [("sample_id", "None"), ("normal_id", "None"), ("min_variant_depth", "20"),
      ("zygosity_freq", "None"), ("tumor_boost", "False")] ∧
    Generated.lhsReadArgs = ["vcf_fname", "'vcf'"] ∧
    Generated.lhsReadKeywords = [("sample_id", "sample_id"), ("normal_id", "normal_id"),
      ("min_depth", "min_variant_depth"), ("skip_somatic", "True")] ∧
    Generated.lhsRetypeArgs = ["zygosity_freq", "1 - zygosity_freq"] ∧
    ({} : HetOpts).minDepth = some Generated.lhsMinVariantDepthDefault ∧
    ({} : HetOpts).zygFreq = none ∧ ({} : HetOpts).tumorBoost = false ∧
    ({} : HetOpts).sid = .unset ∧ ({} : HetOpts).nid = .unset := by
  refine ⟨rfl, rfl, rfl, rfl, rfl, rfl, rfl, rfl, rfl, rfl⟩

/-- the thresholds used when the normal's genotypes are all 0/0 or missing are the source's 0.25 and 1 − 0.25 -/
theorem fallback_thresholds_are_the_source (o : HetOpts) (tb : VTable) (hz : o.zygFreq = none)
    (hp : tb.paired = true) (hn : normalUntyped tb.rows = true) :
    effectiveZygFreq o tb = some (Generated.lhsFallbackZygFreq, 1 - Generated.lhsFallbackZygFreq) ∧
    Generated.lhsFallbackCondition =
      "zygosity_freq is None and 'n_zygosity' in varr and (not varr['n_zygosity'].any())" :=
  ⟨effectiveZygFreq_fallback o tb hz hp hn, rfl⟩

/-- `skip_reject` drops a record exactly when its FILTER holds something outside the source's accepted set -/
theorem reject_filter_is_the_source (r : Rec) :
    rejected r = r.filt.any (fun f => !(Generated.vcfPassFilters.contains f)) := rejected_eq_generated r

/-- the gVCF placeholder that yields no row, the PEDIGREE keys of a declared pair, and the reader's defaults (no depth
    filter, FILTER not consulted, SOMATIC records kept) are the ones the model uses -/
theorem reader_literals_are_the_source :
    Generated.vcfGvcfPlaceholder = "<NON_REF>" ∧ Generated.pedigreeGuardKey = "Derived" ∧
    Generated.pedigreeTumorKey = "Derived" ∧ Generated.pedigreeNormalKey = "Original" ∧
    Generated.readVcfDefaults = [("sample_id", "None"), ("normal_id", "None"), ("min_depth", "None"),
      ("skip_reject", "False"), ("skip_somatic", "False")] ∧
    ({} : ReadOpts).minDepth = none ∧ ({} : ReadOpts).skipReject = false ∧ ({} : ReadOpts).skipSomatic = false :=
  ⟨rfl, rfl, rfl, rfl, rfl, rfl, rfl, rfl⟩

/-! ### non-vacuity -/

example : "_cmd_scatter" ∈ Generated.cliVcfCommands := by decide
example : cliLhsArgs "_cmd_export_nbo" { sampleId := some "T", normalId := some "N", zygosityFreq := some none } =
    some { sampleId := some "T", normalId := some "N", minVariantDepth := some 20, zygosityFreq := some (1/4),
           tumorBoost := false } := by decide +kernel
example : cliLhsArgs "_cmd_call" { minVariantDepth := some 5, zygosityFreq := some (some (3/10)) } =
    some { sampleId := none, normalId := none, minVariantDepth := some 5, zygosityFreq := some (3/10),
           tumorBoost := false } := by decide +kernel
/-- the example records of Props/C18 meet the extent hypothesis of `read_rows_have_extent` -/
example : ∀ r ∈ exRecs, 1 ≤ r.pos ∧ ∀ a ∈ r.alts, 0 < a.length := by decide +kernel
/-- … and on the example table (which meets `WFRows`, see Props/C18) the second range's own BAF is 1/4 -/
example : ([("chr1", 0, 25), ("chr1", 25, 100), ("chr2", 0, 9)].map (specBaf true false none exRows))[1]? =
    some (some (1/4)) := by decide +kernel

end CnvVerif.C18
