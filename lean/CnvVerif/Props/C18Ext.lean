/-
  C18, growth round: (1) the whole chain VCF -> load_het_snps -> per-segment BAF as one statement, and "frequencies stay
  attached" through every option of load_het_snps; (2) one BAF per range, at the position of its range.
  Helper lemmas: Lemmas/VcfExt.lean.  (Command-line glue: Props/C18Cli.lean; literals of the source: Props/C18Lits.lean.)
-/
import CnvVerif.Props.C18
import CnvVerif.Lemmas.VcfExt
namespace CnvVerif.C18
open CnvVerif CnvVerif.Vcf

/-! ### frequencies stay attached, through every option of `load_het_snps` -/

/-- whatever the selectors, the depth threshold, `zygosity_freq` and `tumor_boost`: every row `load_het_snps` returns
    carries (`Carries`) the chromosome, start, end, alleles, SOMATIC flag, depth, alt count and the normal's depth / count /
    frequency of ONE row of the table read, and its frequency is that same row's count / depth -- or, with TumorBoost, the
    boosted value of that same row's tumour and normal frequencies.  No hypothesis on genotypes (the no-het fallback and
    the frequency-based genotypes included). -/
theorem het_rows_stay_attached (samples : List String) (tags : List PedTag) (recs : List Rec)
    (o : HetOpts) (tb out : VTable)
    (hr : readVcf samples tags recs
            { sid := o.sid, nid := o.nid, minDepth := o.minDepth,
              skipReject := false, skipSomatic := true } = .ok tb)
    (ho : loadHetSnps samples tags recs o = .ok out) :
    out.paired = tb.paired ∧
    ∀ row ∈ out.rows, ∃ r0 ∈ tb.rows, Carries row r0 ∧
      row.t.altFreq = (if o.tumorBoost then boostRow r0 else r0.t.altFreq) :=
  loadHetSnps_attached samples tags recs o tb out hr ho

/-- … and on a biallelic file that row of the table read is the row of one of the file's records (`recRow`: 0-based
    start, count / depth of the chosen sample): the frequency behind every heterozygous row is its own record's -/
theorem het_rows_come_from_records (samples : List String) (tags : List PedTag) (recs : List Rec)
    (o : HetOpts) (out : VTable) (sid : String) (nid : Option String)
    (hc : chooseSamples samples tags o.sid o.nid = .ok (sid, nid))
    (hb : ∀ r ∈ recs, Biallelic r)
    (ho : loadHetSnps samples tags recs o = .ok out) :
    ∀ row ∈ out.rows, ∃ r ∈ recs,
      Carries row (recRow (samples.idxOf sid) ((truthy nid).map (fun n => samples.idxOf n)) r) ∧
      (o.tumorBoost = false →
        row.t.altFreq = (genoOf (r.smps[samples.idxOf sid]?.getD default) r).altFreq) := by
  obtain ⟨tb, h1, _⟩ := readVcf_biallelic samples tags recs
    { sid := o.sid, nid := o.nid, minDepth := o.minDepth, skipReject := false, skipSomatic := true }
    sid nid hc rfl hb
  have hatt := freqs_stay_attached samples tags recs
    { sid := o.sid, nid := o.nid, minDepth := o.minDepth, skipReject := false, skipSomatic := true }
    sid nid tb hc rfl hb h1
  obtain ⟨_, h2⟩ := loadHetSnps_attached samples tags recs o tb out h1 ho
  intro row hrow
  obtain ⟨r0, hr0, hcar, hf⟩ := h2 row hrow
  obtain ⟨r, hr, rfl⟩ := hatt r0 hr0
  refine ⟨r, hr, hcar, ?_⟩
  intro hbo
  rw [hf, hbo]
  rfl

/-! ### one BAF per range, at the position of its range -/

/-- `baf_by_ranges` answers with exactly one value per range, for EVERY variant table and segment table (no
    well-formedness needed) -/
theorem one_value_per_range (tb : VTable) (segs : List (String × Int × Int)) (above : Option Bool) (boost : Bool) :
    (bafByRanges tb segs above boost).length = segs.length := bafByRanges_length tb segs above boost

/-- … and (finding AZ, as a theorem) the value at position i is the BAF of the i-th range: stored as a column of the
    segment table, every segment receives its own BAF -/
theorem baf_follows_its_range (tb : VTable) (segs : List (String × Int × Int)) (boost : Bool)
    (hwf : WFRows tb.rows) (hseg : ∀ g ∈ segs, 0 ≤ g.2.1) (hg : ChromGrouped segs)
    (hh : ∃ r ∈ tb.rows, isHet r = true) (i : Nat) (hi : i < segs.length) :
    (bafByRanges tb segs none boost)[i]? = some (specBaf tb.paired boost none tb.rows segs[i]) := by
  rw [baf_is_median_of_mirrored tb segs boost hwf hseg hg hh, List.getElem?_map, List.getElem?_eq_getElem hi]
  rfl

/-! ### the whole chain: VCF → load_het_snps → BAF of each segment -/

/-- the rows of a table read from biallelic records with POS ≥ 1 and a non-empty ALT have coordinates ≥ 0 and positive
    length (what `baf_is_median_of_mirrored` asks of the table) -/
theorem read_rows_have_extent (samples : List String) (tags : List PedTag) (recs : List Rec) (o : ReadOpts)
    (sid : String) (nid : Option String) (tb : VTable)
    (hc : chooseSamples samples tags o.sid o.nid = .ok (sid, nid))
    (hr : o.skipReject = false) (hb : ∀ r ∈ recs, Biallelic r)
    (hp : ∀ r ∈ recs, 1 ≤ r.pos ∧ ∀ a ∈ r.alts, 0 < a.length)
    (ht : readVcf samples tags recs o = .ok tb) :
    WFRows tb.rows := by
  refine ⟨sortedV_of_readVcf samples tags recs o tb ht, ?_⟩
  intro row hrow
  obtain ⟨r, hr', rfl⟩ := freqs_stay_attached samples tags recs o sid nid tb hc hr hb ht row hrow
  obtain ⟨a, ha, _⟩ := hb r hr'
  obtain ⟨h1, h2⟩ := hp r hr'
  have h3 := h2 a (by simp [ha])
  simp only [recRow, ha, List.headD_cons]
  omega

/-- **end to end.**  For a table read (depth filter as asked, SOMATIC records dropped) that has a germline-heterozygous
    row, genotypes as called (a paired normal carrying at least one call), no TumorBoost: `load_het_snps` succeeds, and
    `baf_by_ranges` of what it returns gives, for every segment in the order given, the median of the frequencies
    count / depth of exactly the germline-heterozygous rows of the table read that lie inside that segment, mirrored to
    one side of 0.5 -- missing where there are none -/
theorem vcf_to_segment_baf (samples : List String) (tags : List PedTag) (recs : List Rec)
    (o : HetOpts) (tb : VTable) (segs : List (String × Int × Int))
    (hr : readVcf samples tags recs
            { sid := o.sid, nid := o.nid, minDepth := o.minDepth,
              skipReject := false, skipSomatic := true } = .ok tb)
    (hz : o.zygFreq = none) (hb : o.tumorBoost = false)
    (hn : tb.paired = true → ∃ r ∈ tb.rows, ∃ g, r.n = some g ∧ g.zyg ≠ 0)
    (hh : ∃ r ∈ tb.rows, isHet r = true)
    (hwf : WFRows tb.rows) (hseg : ∀ g ∈ segs, 0 ≤ g.2.1) (hg : ChromGrouped segs) :
    ∃ hets, loadHetSnps samples tags recs o = .ok hets ∧
      bafByRanges hets segs none false =
        segs.map (fun g => summarize none
          (((tb.rows.filter isHet).filter (overlaps g)).map (fun r => r.t.altFreq.toOpt))) := by
  refine ⟨_, loadHetSnps_rows samples tags recs o tb hr hz hb hn hh, ?_⟩
  obtain ⟨r, hr1, hr2⟩ := hh
  have hh' : ∃ x ∈ tb.rows.filter isHet, isHet x = true := ⟨r, List.mem_filter.mpr ⟨hr1, hr2⟩, hr2⟩
  rw [baf_is_median_of_mirrored { paired := tb.paired, rows := tb.rows.filter isHet } segs false
    (hwf.sublist List.filter_sublist) hseg hg hh']
  apply List.map_congr_left
  intro g _
  have e : bafFreq tb.paired false = fun r : VRow => r.t.altFreq.toOpt := by
    funext r
    simp [bafFreq]
  simp [specBaf, e, List.filter_filter]

/-! ### non-vacuity -/

/-- the example records of Props/C18 meet the extent hypothesis of `read_rows_have_extent` -/
example : ∀ r ∈ exRecs, 1 ≤ r.pos ∧ ∀ a ∈ r.alts, 0 < a.length := by decide +kernel
/-- … and on the example table (which meets `WFRows`, see Props/C18) the second range's own BAF is 1/4 -/
example : ([("chr1", 0, 25), ("chr1", 25, 100), ("chr2", 0, 9)].map (specBaf true false none exRows))[1]? =
    some (some (1/4)) := by decide +kernel

end CnvVerif.C18
