/-
  C17 (round 5c): segments without bins and one-bin segments in `do_segmetrics` (Model/StatsSmallExt5c.lean, op
  `seg_small`).  Every statement holds for ANY behaviour of the statistics on two or more values (`B : Big`), any
  segment log2, any `--bootstrap` count and both values of `--smooth-bootstrap`.
-/
import CnvVerif.Props.C17
import CnvVerif.Model.StatsSmallExt5c
namespace CnvVerif.C17
open CnvVerif.C17Small

/-- the population variance of one value is 0, whatever the value -/
theorem small_variance_singleton (x : Rat) : variance [x] = 0 := by
  simp [variance, avg, total]

/-- a segment without bins: every statistic, location, spread and interval, is NaN -/
theorem small_empty_all_nan (B : Big) (sm : Bool) (n : Nat) (s : Rat) :
    (segRow B sm n s []).cells = List.replicate 14 Cell.nan := by
  simp [segRow, Row.cells, npMean, npMedian, onArray, noDof, npStd, calcInterval, List.replicate]

/-- a one-bin segment: mean, median and mode are the bin's value, not the segment's log2 -/
theorem small_singleton_location (B : Big) (sm : Bool) (n : Nat) (s b : Rat) :
    (segRow B sm n s [b]).mean = .num b ∧ (segRow B sm n s [b]).median = .num b ∧ (segRow B sm n s [b]).mode = .num b := by
  simp [segRow, npMean, npMedian, onArray, avg, total]

/-- a one-bin segment: stdev, MAD, MSE, IQR and biweight midvariance are 0, however far the bin is from the
    segment's log2 (MSE included: the `on_array(0)` shortcut answers before the deviation is squared) -/
theorem small_singleton_spread_zero (B : Big) (sm : Bool) (n : Nat) (s b : Rat) :
    (segRow B sm n s [b]).stdev = .num 0 ∧ (segRow B sm n s [b]).mad = .num 0 ∧ (segRow B sm n s [b]).mse = .num 0 ∧
    (segRow B sm n s [b]).iqr = .num 0 ∧ (segRow B sm n s [b]).bivar = .num 0 := by
  simp [segRow, npStd, onArray, small_variance_singleton]

/-- a one-bin segment has no degree of freedom: the standard error and the t-test p-value are NaN -/
theorem small_singleton_no_dof (B : Big) (sm : Bool) (n : Nat) (s b : Rat) :
    (segRow B sm n s [b]).sem = .nan ∧ (segRow B sm n s [b]).ttest = .nan := by
  simp [segRow, noDof]

/-- a one-bin segment: confidence and prediction interval are the degenerate interval at the bin's value -- for every
    bootstrap count and WITH OR WITHOUT `--smooth-bootstrap` (the shortcut precedes the smoothing) -/
theorem small_singleton_intervals (B : Big) (sm : Bool) (n : Nat) (s b : Rat) :
    (segRow B sm n s [b]).ci = (.num b, .num b) ∧ (segRow B sm n s [b]).pi = (.num b, .num b) := by
  simp [segRow, calcInterval, ciFunc, piFunc]

/-- the rows of segments with at most one bin do not depend on `--smooth-bootstrap`, on the bootstrap count, or on what
    the statistics do with larger samples -/
theorem small_row_independent_of_options (B B' : Big) (sm sm' : Bool) (n n' : Nat) (s : Rat) (bins : List Rat)
    (h : bins.length ≤ 1) : (segRow B sm n s bins).cells = (segRow B' sm' n' s bins).cells := by
  match bins, h with
  | [], _ => rw [small_empty_all_nan, small_empty_all_nan]
  | [b], _ =>
    simp [segRow, Row.cells, npMean, npMedian, onArray, noDof, npStd, calcInterval, ciFunc, piFunc,
      small_variance_singleton]

/-- ... and a one-bin row does not depend on the segment's own log2 either -/
theorem small_singleton_ignores_segment_log2 (B : Big) (sm : Bool) (n : Nat) (s s' b : Rat) :
    (segRow B sm n s [b]).cells = (segRow B sm n s' [b]).cells := by
  simp [segRow, Row.cells, npMean, npMedian, onArray, noDof, npStd, calcInterval, ciFunc, piFunc,
    small_variance_singleton]

/-- `on_array(default)`: with a default one value gives the default, without one the value; nothing gives NaN -/
theorem small_on_array_cases (f : List Rat → Cell) (d x : Rat) :
    onArray (some d) f [x] = .num d ∧ onArray none f [x] = .num x ∧ onArray (some d) f [] = .nan ∧
    onArray none f [] = .nan := by
  simp [onArray]

/-- on two or more values the decorator hands over to the decorated function -/
theorem small_on_array_big (dflt : Option Rat) (f : List Rat → Cell) (x y : Rat) (r : List Rat) :
    onArray dflt f (x :: y :: r) = f (x :: y :: r) := by
  simp [onArray]

def smallDummy : Big :=
  { median := fun _ => .nan, mode := fun _ => .nan, ttest := fun _ => .nan, std := fun _ => .nan, sem := fun _ => .nan,
    mad := fun _ => .nan, mse := fun _ => .nan, iqr := fun _ => .nan, bivar := fun _ => .nan,
    ci := fun _ _ _ => (.nan, .nan), pi := fun _ => (.nan, .nan) }

-- non-vacuity: a one-bin segment at log2 0.3 whose bin is 0.75
example : ((segRow smallDummy true 100 (3/10) [3/4]).cells =
    [.num (3/4), .num (3/4), .num (3/4), .nan, .num 0, .nan, .num 0, .num 0, .num 0, .num 0,
     .num (3/4), .num (3/4), .num (3/4), .num (3/4)]) := by
  simp [segRow, Row.cells, npMean, npMedian, onArray, noDof, npStd, calcInterval, ciFunc, piFunc,
    small_variance_singleton, avg, total]

end CnvVerif.C17
