/-
  C05: tie to the source TEXT.  The definitions `Generated.src_*` of Generated/ExprsRef.lean are re-translated from
  /repo's Python on every run (harness/exprtrans.py, extractor harness/extractors/exprs_ref.py); these theorems state
  that the hand-written model functions of the pooled / flat reference are those expressions.  Kept in a module of
  their own so that an edit to one of the functions breaks exactly these obligations.
-/
import CnvVerif.Props.C05
import CnvVerif.Lemmas.SrcRefStruct
namespace CnvVerif.C05
open CnvVerif CnvVerif.Ref

/-- the model's correction pipeline IS the sequence of `center_by_window` calls the translator reads in
    `bias_correct_logr` (GC, RepeatMasker, edge -- in the source's order), skipped under the source's test -/
theorem correction_pipeline_is_the_source (cfg : CorrCfg) (rows : List CovRow) (logr : List Rat) :
    correctLogr cfg rows logr =
      correctLogrBy (Generated.REF_CORRECTION_STEPS.map (·.1)) Generated.REF_LOWCOV_THRESHOLD
        Generated.REF_LOWCOV_TEST.2.2 cfg rows logr :=
  Src.correctLogr_is_source cfg rows logr

/-- each correction runs under its own flag with the window fraction 0.1, and the skip test counts the bins with
    log2 > threshold and compares the count with `<=` -/
theorem correction_guards_are_the_source :
    Generated.REF_CORRECTION_STEPS.map (·.2.1) = ["fix_gc", "fix_rmask", "fix_edge"] ∧
    Generated.REF_CORRECTION_STEPS.all (fun s => s.2.2 == 1 / 10) = true ∧
    Generated.REF_LOWCOV_TEST.1 = "Gt" ∧ Generated.REF_LOWCOV_TEST.2.1 = "LtE" :=
  Src.correction_guards_are_source

/-- which corrections the target and the antitarget block get IS what `combine_probes` writes in its two
    `load_sample_block` calls -/
theorem block_flags_are_the_source (doGc doEdge doRmask : Bool) (k : BlockKeys) :
    blockCfg true doGc doEdge doRmask k = blockCfgBy Generated.REF_TARGET_FLAGS doGc doEdge doRmask k ∧
    blockCfg false doGc doEdge doRmask k = blockCfgBy Generated.REF_ANTITARGET_FLAGS doGc doEdge doRmask k :=
  Src.blockCfg_is_source doGc doEdge doRmask k


/-! non-vacuity: the generated structure itself -/
example : Generated.REF_CORRECTION_STEPS.length = 3 ∧ Generated.REF_TARGET_FLAGS.length = 4 := by decide

end CnvVerif.C05
