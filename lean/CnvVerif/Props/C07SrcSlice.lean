/-
  C07: tie to the source TEXT of skgenome/intersect.py -- the binary-search path.  `Generated.src_*` (Generated/ExprsRanges.lean) is
  re-translated from /repo's Python on every run (harness/exprtrans.py, second reading: one table, one query); the
  theorem states that the hand-written model IS that term, for all tables and queries.  A module of its own, so that an
  edit to this code path breaks exactly this obligation.
-/
import CnvVerif.Props.C07
import CnvVerif.Lemmas.SrcRangesSlice
namespace CnvVerif.C07
open CnvVerif

/-- binary-search path: the model's selection is `table[lo:hi]` with the two `searchsorted` calls (column, side,
    per mode) and the defaults `0` / `len(table)` that `_irange_simple` computes -/
theorem simple_slice_is_the_source (t : Table) (qs qe : Option Int) (inner : Bool) :
    irangeSimple t qs qe inner =
      (t.take (Generated.src_irange_simple_slice t inner qs qe).2).drop
        (Generated.src_irange_simple_slice t inner qs qe).1 :=
  Src.irangeSimple_slice_is_source t qs qe inner

end CnvVerif.C07
