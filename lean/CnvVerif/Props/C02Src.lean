/-
  C02: tie to the source TEXT.  The definitions `Generated.src_*` are re-translated from /repo's Python on every
  run (harness/exprtrans.py); these theorems state that the hand-written model formulas are those expressions.
  Kept in a module of their own so that an edit to a formula breaks exactly these obligations.
-/
import CnvVerif.Props.C02
import CnvVerif.Lemmas.SrcBaf
namespace CnvVerif.C02
open CnvVerif

/-- the model's BAF rescale IS the expression `rescale_baf` computes (normal BAF 0.5) -/
theorem rescale_baf_is_the_source (p b : Rat) :
    callRescaleBaf p b = Generated.src_rescale_baf p b (1/2) := Src.callRescaleBaf_is_source p b

end CnvVerif.C02
