/-
  C05, round 5 -- the per-cluster columns `log2_i` / `spread_i` of `reference --cluster` (`create_clusters`).
  The k-means membership is a parameter (observed from the real run); everything the property says about a reference
  column -- "the robust per-bin consensus over the samples" -- is proved for each cluster column over exactly its
  member samples.  Model: Model/ReferenceExt5Cluster.lean; proofs: Lemmas/ReferenceExt5Cluster.lean.
-/
import CnvVerif.Props.C05
import CnvVerif.Lemmas.ReferenceExt5Cluster
namespace CnvVerif.C05
open CnvVerif CnvVerif.Ref CnvVerif.Ref.C05Cl

/-- the cell of cluster `idx` at bin `j` is Tukey's biweight location of the values the MEMBER samples have at that
    bin (no pseudo-sample, no other sample), paired with the biweight midvariance of the same values started there -/
theorem cluster_cell_is_the_summary_of_its_member_samples (n : Nat) (logr : List (List Rat)) (idx : List Nat)
    (j : Nat) (hj : j < n) :
    (clusterColumn n logr idx)[j]? =
      some (let col := idx.map fun s => (logr.getD s []).getD j 0
            (locOf col, spreadOf col (locOf col))) :=
  clusterColumn_get n logr idx j hj

/-- one cell per bin -/
theorem cluster_column_has_one_cell_per_bin (n : Nat) (logr : List (List Rat)) (idx : List Nat) :
    (clusterColumn n logr idx).length = n := clusterColumn_length n logr idx

/-- which columns there are: the i-th cluster returned by k-means (from 0) gives the columns numbered i + 1 exactly
    when it has at least `min_cluster_size` members; a skipped cluster's number is not reused -/
theorem cluster_columns_numbering_and_minimum_size (members : List (List Nat)) (minSize n : Nat)
    (logr : List (List Rat)) (lbl : Nat) (col : List (Rat × Desc.ScaleOut)) :
    (lbl, col) ∈ clusterCols members minSize n logr ↔
      ∃ i idx, members[i]? = some idx ∧ minSize ≤ idx.length ∧ lbl = i + 1 ∧ col = clusterColumn n logr idx :=
  mem_clusterCols members minSize n logr lbl col

/-- samples outside a cluster do not influence its columns: two sample matrices that agree on the member rows give
    the same cluster columns -/
theorem cluster_columns_depend_on_member_samples_only (n : Nat) (logr logr' : List (List Rat)) (idx : List Nat)
    (h : ∀ s ∈ idx, logr.getD s [] = logr'.getD s []) :
    clusterColumn n logr idx = clusterColumn n logr' idx := clusterColumn_congr n logr logr' idx h

/-- the order in which k-means lists the members of a cluster is irrelevant -/
theorem cluster_columns_do_not_depend_on_member_order (n : Nat) (logr : List (List Rat)) {idx idx' : List Nat}
    (h : idx.Perm idx') : clusterColumn n logr idx = clusterColumn n logr idx' := clusterColumn_perm n logr h

/-- the cluster of ALL samples: the summaries of the whole sample matrix -- what the pooled columns are
    (`reference_values_are_biweight_of_columns`) except that the neutral pseudo-sample row is left out -/
theorem cluster_of_all_samples_is_the_pooled_summary_without_pseudo_sample (n : Nat) (logr : List (List Rat)) :
    clusterColumn n logr (List.range logr.length) =
      (columns n logr).map (fun c => (locOf c, spreadOf c (locOf c))) := clusterColumn_all n logr

/-- the sample rows the clusters are formed from are the rows the pooled reference is formed from: whenever the
    cluster path accepts a block with bins `bins` and sample rows `logr`, the pooled path accepts it, has the same
    bins, and its (log2, spread) columns are the same summary of `pseudo-sample :: logr` -/
theorem cluster_rows_are_the_pooled_rows (hapX : Bool) (par : Option String) (skipLow : Bool)
    (sexes : List (String × Bool)) (samples : List Sample) (bins : List CovRow) (logr : List (List Rat))
    (h : blockLogr hapX par skipLow sexes samples = .ok (bins, logr)) :
    ∃ outs, refBlock hapX par skipLow sexes samples = .ok outs ∧
      outs.map (fun o => (o.chrom, o.s, o.e, o.gene)) = bins.map binKey ∧
      (bins ≠ [] → outs.map (fun o => (o.log2, o.spread)) =
        (columns bins.length (expectFlat hapX par (bins.map toC) :: logr)).map
          (fun c => (locOf c, spreadOf c (locOf c)))) :=
  blockLogr_pooled hapX par skipLow sexes samples bins logr h

/-- … and a block is accepted by the cluster path exactly when the pooled path accepts it (differing bins reject) -/
theorem cluster_path_accepts_iff_pooled_path_accepts (hapX : Bool) (par : Option String) (skipLow : Bool)
    (sexes : List (String × Bool)) (samples : List Sample) :
    (∃ x, blockLogr hapX par skipLow sexes samples = .ok x) ↔
      (∃ y, refBlock hapX par skipLow sexes samples = .ok y) :=
  blockLogr_ok_iff hapX par skipLow sexes samples

/-- the whole `combine_probes(do_cluster=True)` table: every column present belongs to a k-means cluster of at least
    the minimum size, carries its number, and has one cell for every bin of the table -/
theorem cluster_table_columns (hapX : Bool) (par : Option String) (sexes : List (String × Bool))
    (targets : List Sample) (antitargets : Option (List Sample)) (members : List (List Nat)) (minSize : Nat)
    (tbl : ClusterTable) (h : doCluster hapX par sexes targets antitargets members minSize = .ok tbl)
    (lbl : Nat) (col : List (Rat × Desc.ScaleOut)) (hc : (lbl, col) ∈ tbl.cols) :
    col.length = tbl.bins.length ∧ ∃ i idx, members[i]? = some idx ∧ minSize ≤ idx.length ∧ lbl = i + 1 := by
  obtain ⟨mat, hm⟩ := doCluster_cols hapX par sexes targets antitargets members minSize tbl h
  rw [hm] at hc
  obtain ⟨i, idx, h1, h2, h3, h4⟩ := (mem_clusterCols members minSize _ mat lbl col).mp hc
  exact ⟨by rw [h4]; exact clusterColumn_length _ _ _, i, idx, h1, h2, h3⟩

/-! non-vacuity: two clusters over four samples and two bins, minimum size 2 -- the cluster of one is skipped and its
    number is not reused; a member permutation -/
example : (clusterCols [[0, 2], [1], [3, 1]] 2 2 [[0, 1], [5, 5], [2, 3], [1, 1]]).map (·.1) = [1, 3] := by
  decide +kernel
example : ([0, 2] : List Nat).Perm [2, 0] := List.Perm.swap _ _ _
example : (2 : Nat) ≤ ([0, 2] : List Nat).length ∧ (1 : Nat) < 2 := by decide

end CnvVerif.C05
