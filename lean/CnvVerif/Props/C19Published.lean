/-
  C19: "each agrees with an independent implementation of its published formula".  The correspondence run compares
  every real output with a SECOND set of definitions written straight from the published formulas
  (`Drv.C19.Spec.*` in Driver/Descriptives.lean: insertion sort, Hyndman–Fan type-7 quantile, Wainer–Thissen gapper,
  Rousseeuw–Croux pairwise distances, weighted mean / variance as folds).  These theorems prove that the oracle's
  definitions and the model's are the same functions, for all inputs -- so the published-formula clauses no longer
  rest on the sampled runs alone, and an edit to either side breaks an obligation.
-/
import CnvVerif.Props.C19
import CnvVerif.Lemmas.DescPublished
namespace CnvVerif.C19
open CnvVerif CnvVerif.Desc CnvVerif.Generated CnvVerif.Drv.C19

/-- the two sorting routines (insertion sort there, merge sort here) agree -/
theorem published_sort (l : List Rat) : Spec.isort l = sortR l := spec_isort_eq_sortR l

theorem published_median (l : List Rat) : Spec.median l = median l := spec_median_eq l

/-- Hyndman–Fan type 7 (`x₍⌊h⌋₎ + (h − ⌊h⌋)(x₍⌊h⌋+1₎ − x₍⌊h⌋₎)`, `h = (n−1)q`) is numpy's default "linear" percentile -/
theorem published_quantile (l : List Rat) (hl : l ≠ []) (q : Rat) (h0 : 0 ≤ q) (h1 : q ≤ 1) :
    Spec.quantile7 l q = quantile l q := spec_quantile7_eq l hl q h0 h1

/-- MAD: `1.4826 · median |x − median x|` (the decimal constant there, the raw MAD of the model here) -/
theorem mad_published (a : List Rat) : Spec.mad a = MAD_SCALE_dec * madCore a false := by
  rw [spec_mad_eq]; rfl

theorem iqr_published (a : List Rat) (ha : a ≠ []) : Spec.iqr a = iqrCore a := spec_iqr_eq a ha

/-- Wainer & Thissen: `Σ_{i=1}^{n−1} i(n−i)(x₍ᵢ₊₁₎ − x₍ᵢ₎) / (n(n−1))` -/
theorem gapper_published (a : List Rat) : Spec.gapper a = gapperCore a := spec_gapper_eq a

/-- the distances `|x_i − x_j|, i < j` enumerated by index pairs are the ones the model's recursion lists, in the same order -/
theorem qn_pairs_published (x : List Rat) :
    ((List.range x.length).flatMap (fun i => ((List.range x.length).filter (fun j => i < j)).map
      (fun j => absQ (x.getD i 0 - x.getD j 0)))) = pairDiffs x := spec_qn_pairs x

/-- Qn as its docstring defines it: first quartile of the pairwise distances over `Cn`; oracle and model agree up to
    the reading of the constant 1.392 (decimal there, the double here) -/
theorem qn_published (a : List Rat) (h : 2 ≤ a.length) :
    Spec.qn a * (if a.length ≤ 10 then 174 / 125 else if a.length < 400 then 1 + 4 / (a.length : Rat) else 1) =
      qnCore a * qnScale a.length := spec_qn_model a h

/-- weighted variance as two weighted means -/
theorem wvar_published (p : List (Rat × Rat)) (v : Rat) (h : weightedVarCore p = some v) : Spec.wvar p = v :=
  spec_wvar_eq p v h

example : Spec.median [3, 1, 2] = 2 := by decide +kernel
example : Spec.gapper [0, 1, 3] = 1 := by decide +kernel

end CnvVerif.C19
