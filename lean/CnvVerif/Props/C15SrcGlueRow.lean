/-
  C15, round 5b: the row of `do_sex` is the source text (see Props/C15SrcGlue.lean).
-/
import CnvVerif.Model.SexExt5Py
import CnvVerif.Generated.ExprsSexGlue
set_option linter.unusedSimpArgs false
namespace CnvVerif.C15x
open CnvVerif

/-- the row of `do_sex` IS the source: same call, "Male" on a true decision and "Female" otherwise (also without a
    decision), `strsign` of `chrx_ratio` / `chry_ratio` when there are statistics and "NA" when the dict is empty -/
theorem sex_row_is_the_source (cta : Cta) (hapX : Bool) (par : Option String) (t : List CBin) :
    (let row := sexRow cta hapX par t; (row.1, some row.2.1, some row.2.2)) =
      Generated.src_sex_row (fun h p s => c15PyPair (compareSex cta h p s t)) c15StatsGet
        (fun v => some (strsign v)) c15CellLit hapX par := by
  unfold sexRow Generated.src_sex_row
  cases h : compareSex cta hapX par false t with
  | none => simp [c15PyPair, c15CellLit, h]
  | some r =>
    obtain ⟨b, st⟩ := r
    cases b <;> simp [c15PyPair, c15StatsGet, h]

/-- non-vacuity: the generated row on a concrete result with / without statistics -/
example : Generated.src_sex_row (σ := SexStats) (fun _ _ _ => (some true, some ⟨some 1, none, none, none, none⟩))
    c15StatsGet (fun v => some (strsign v)) c15CellLit false none
    = ("Male", some (.num true (some 1)), some (.num false none)) := by decide
example : Generated.src_sex_row (σ := SexStats) (fun _ _ _ => (none, none))
    c15StatsGet (fun v => some (strsign v)) c15CellLit true (some "grch38") = ("Female", some .na, some .na) := by decide

end CnvVerif.C15x
