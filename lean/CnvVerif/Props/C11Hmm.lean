/-
  C11: the initial HMM of `cnvlib/segmentation/hmm.py:hmm_get_model`.  `Generated.HMM_START_* / HMM_TRANS_*` are the
  exact values of the source expressions for the start probabilities and the transition matrix handed to pomegranate's
  `from_matrix` (harness/extractors/hmm.py evaluates them in rational arithmetic on every run).  No clause of C11
  speaks about these numbers directly; the obligations pin the SHAPE the detection relies on (a chromosome may start
  in any state, neutral preferred, loss and gain treated alike; all states equally and strongly sticky), so that an
  edited start distribution or transition matrix is seen even when no sampled profile happens to fail.
-/
import CnvVerif.Lemmas.HmmInit
import CnvVerif.Generated.HmmConsts
namespace CnvVerif.C11
open CnvVerif CnvVerif.Haar

/-- what `from_matrix` receives, and in which position -/
theorem hmm_from_matrix_arguments :
    Generated.HMM_FROM_MATRIX_ARGS.take 3 = ["transition_matrix", "distributions", "start_probabilities"] := by
  decide

/-- `hmm-germline` (3 states): the start probabilities are a distribution, symmetric between loss and gain, with the
neutral state strictly the likeliest (binomial weights 1 : 2 : 1); a chromosome may start in any state -/
theorem germline_start_prefers_neutral :
    startPrefersNeutral Generated.HMM_START_3 = true ∧ Generated.HMM_START_3 = [1 / 4, 1 / 2, 1 / 4] := by
  refine ⟨by decide +kernel, by decide +kernel⟩

/-- `hmm-germline`: every state is equally sticky and all moves are equally likely; staying weighs at least 100
times any single move (301 : 1 : 1 per row) -/
theorem germline_transitions_sticky :
    stickyMatrix 100 Generated.HMM_TRANS_3 = true ∧
    (Generated.HMM_TRANS_3.headD []).take 2 = [301 / 3, 1 / 3] := by
  refine ⟨by decide +kernel, by decide +kernel⟩

/-- the 5-state model of `hmm-tumor` is built by the same expressions (outside the claim of C11; recorded so that
a change to the shared expressions is seen for both sizes) -/
theorem tumor_initial_model_same_shape :
    startPrefersNeutral Generated.HMM_START_5 = true ∧ stickyMatrix 100 Generated.HMM_TRANS_5 = true := by
  refine ⟨by decide +kernel, by decide +kernel⟩

/-- what "sticky" means once pomegranate has normalised a row of `n` states: staying has probability at least
`k / (k + n - 1)` (for k = 100, n = 3: at least 100/102 per bin, whatever the common values are) -/
theorem sticky_stay_probability (k d o : Rat) (n : Nat) (hk : 0 < k) (ho : 0 < o) (hd : k * o ≤ d) (hn : 1 ≤ n) :
    k / (k + ((n : Rat) - 1)) ≤ d / (d + ((n : Rat) - 1) * o) :=
  Src.sticky_stay_probability k d o n hk ho hd hn

/-! ### non-vacuity: the predicates reject an off-by-one binomial and an uneven matrix -/

example : startPrefersNeutral [1 / 7, 3 / 7, 3 / 7] = false := by decide +kernel
example : stickyMatrix 100 [[100, 1], [1, 99]] = false := by decide +kernel
example : stickyMatrix 100 [[31 / 3, 1 / 3, 1 / 3], [1 / 3, 31 / 3, 1 / 3], [1 / 3, 1 / 3, 31 / 3]] = false := by decide +kernel

end CnvVerif.C11
