/-
  C15, round 5: theorems about the glue of the sex inference (Model/SexExt5.lean) — the early returns and chrY
  fall-backs of `compare_sex_chromosomes`, `skip_low`, `guess_xx`, the row `do_sex` / `cnvkit.py sex` prints, and
  what `male_reference` (`is_haploid_x_reference`) means for the decision.  `cta` (the helper `compare_to_auto`)
  is universally quantified: the statements hold whatever Mood's test / the medians return.
-/
import CnvVerif.Model.SexExt5
import Mathlib.Tactic.Linarith
import Mathlib.Tactic.Ring
set_option linter.unusedTactic false
set_option linter.unusedSimpArgs false
set_option linter.unnecessarySeqFocus false
namespace CnvVerif.C15x
open CnvVerif

theorem combinedScore_none (x : Option Rat) : combinedScore x none = x := by
  cases x <;> rfl

/-- EARLY RETURNS: `compare_sex_chromosomes` returns `(None, {})` exactly for an empty table and for a table
    without a chrX bin (outside the PAR, when a PAR genome is given) — whatever `skip_low` is: the test is made
    BEFORE low-coverage bins are dropped -/
theorem compareSex_none_iff (cta : Cta) (hapX : Bool) (par : Option String) (skipLow : Bool) (t : List CBin) :
    compareSex cta hapX par skipLow t = none ↔ t = [] ∨ chrXBins par t = [] := by
  unfold compareSex
  by_cases h1 : t = []
  · simp [h1]
  · by_cases h2 : chrXBins par t = []
    · simp [h1, h2]
    · simp [h1, h2, List.isEmpty_iff]

/-- … and otherwise it returns a decision -/
theorem compareSex_some_of_x (cta : Cta) (hapX : Bool) (par : Option String) (skipLow : Bool) (t : List CBin)
    (hx : chrXBins par t ≠ []) : (compareSex cta hapX par skipLow t).isSome = true := by
  have ht : t ≠ [] := by
    intro h; apply hx; simp [chrXBins, h]
  rw [Option.isSome_iff_ne_none]
  intro h
  rcases (compareSex_none_iff cta hapX par skipLow t).mp h with h | h
  · exact ht h
  · exact hx h

/-- NO chrY: with no chrY bin the decision is made by chrX alone (`chrx_male_lr > 1`), the chrY ratio and the
    chrY log-ratio are NaN, and the combined score IS the chrX ratio -/
theorem compareSex_without_y_decides_by_x (cta : Cta) (hapX : Bool) (par : Option String) (skipLow : Bool)
    (t : List CBin) (hx : chrXBins par t ≠ []) (hy : chrYBins par t = []) (r : Bool × SexStats)
    (h : compareSex cta hapX par skipLow t = some r) :
    r.2.chryLr = none ∧ r.2.chryRatio = none ∧ r.2.combined = r.2.chrxLr ∧
    r.1 = (match r.2.chrxLr with | some x => decide (x > 1) | none => false) := by
  have ht : t ≠ [] := by
    intro h'; apply hx; simp [chrXBins, h']
  unfold compareSex at h
  simp only [List.isEmpty_iff, ht, hx, hy, if_false, if_true, Option.some.injEq] at h
  subst h
  have hs : segMean skipLow (lowIf skipLow []) = none := by
    unfold segMean lowIf dropLow; cases skipLow <;> simp
  refine ⟨rfl, ?_, ?_, ?_⟩
  · show subNan (segMean skipLow (lowIf skipLow [])) _ = none
    rw [hs]; rfl
  · show combinedScore _ none = _
    rw [combinedScore_none]
  · show (match combinedScore _ none with | some s => decide (s > 1) | none => false) = _
    rw [combinedScore_none]

/-- chrY ALL BELOW THE CUT-OFF under `skip_low` (a female sample's chrY often is): the chrY ratio is NaN, the
    `np.isfinite` guard keeps it out of the score, and the decision is again made by chrX alone -/
theorem compareSex_y_all_low_decides_by_x (cta : Cta) (hapX : Bool) (par : Option String)
    (t : List CBin) (hx : chrXBins par t ≠ []) (hy : dropLow (chrYBins par t) = []) (r : Bool × SexStats)
    (h : compareSex cta hapX par true t = some r) :
    r.2.chryLr = none ∧ r.2.combined = r.2.chrxLr ∧
    r.1 = (match r.2.chrxLr with | some x => decide (x > 1) | none => false) := by
  have ht : t ≠ [] := by
    intro h'; apply hx; simp [chrXBins, h']
  unfold compareSex at h
  simp only [List.isEmpty_iff, ht, hx, if_false, Option.some.injEq] at h
  subst h
  have hl : lowIf true (chrYBins par t) = [] := by simp [lowIf, hy]
  have hy' : (if chrYBins par t = [] then none
      else chromLr cta 2 (lowIf true (autoBins par t)) (lowIf true (chrYBins par t)) yShifts.1 yShifts.2) = none := by
    split
    · rfl
    · rw [hl]; simp [chromLr]
  refine ⟨hy', ?_, ?_⟩
  · show combinedScore _ _ = _
    rw [hy', combinedScore_none]
  · show (match combinedScore _ _ with | some s => decide (s > 1) | none => false) = _
    rw [hy', combinedScore_none]

/-- `skip_low` IS A NO-OP on a table without a low-coverage bin -/
theorem compareSex_skipLow_noop (cta : Cta) (hapX : Bool) (par : Option String) (t : List CBin)
    (h : dropLow t = t) : compareSex cta hapX par true t = compareSex cta hapX par false t := by
  have hall : ∀ b ∈ t, (!(decide (b.log2 < Generated.NULL_LOG2_COVERAGE - Generated.MIN_REF_COVERAGE) ||
      (match b.depth with | some d => decide (d = 0) | none => false))) = true := by
    unfold dropLow at h
    exact List.filter_eq_self.mp h
  have hsub : ∀ s : List CBin, (∀ b ∈ s, b ∈ t) → dropLow s = s := by
    intro s hs
    unfold dropLow
    exact List.filter_eq_self.mpr fun b hb => hall b (hs b hb)
  have hX : dropLow (chrXBins par t) = chrXBins par t :=
    hsub _ fun b hb => by unfold chrXBins at hb; exact (List.mem_filter.mp hb).1
  have hY : dropLow (chrYBins par t) = chrYBins par t :=
    hsub _ fun b hb => by unfold chrYBins at hb; exact (List.mem_filter.mp hb).1
  have hA : dropLow (autoBins par t) = autoBins par t := by
    apply hsub
    intro b hb
    unfold autoBins autosomesOf at hb
    split at hb
    · exact hb
    · exact (List.mem_filter.mp hb).1
  have hseg : ∀ s : List CBin, dropLow s = s → segMean true s = segMean false s := by
    intro s hs; unfold segMean; simp [hs]
  unfold compareSex
  simp only [lowIf, if_true, hX, hY, hA, hseg _ hX, hseg _ hY, hseg _ hA]
  simp

/-- `guess_xx` passes `None` through exactly when `compare_sex_chromosomes` has no decision … -/
theorem guessXX_none_iff (cta : Cta) (hapX : Bool) (par : Option String) (t : List CBin) :
    guessXX cta hapX par t = none ↔ t = [] ∨ chrXBins par t = [] := by
  unfold guessXX
  rw [Option.map_eq_none_iff]
  exact compareSex_none_iff cta hapX par false t

/-- … and is otherwise the negation of "male" -/
theorem guessXX_is_not_male (cta : Cta) (hapX : Bool) (par : Option String) (t : List CBin) (r : Bool × SexStats)
    (h : compareSex cta hapX par false t = some r) : guessXX cta hapX par t = some (!r.1) := by
  simp [guessXX, h]

/-- THE REPORT ROW agrees with `guess_xx`: "Female" iff `guess_xx` is True, "Male" iff it is False; the two ratio
    columns are numbers then -/
theorem sexRow_agrees_with_guessXX (cta : Cta) (hapX : Bool) (par : Option String) (t : List CBin) (xx : Bool)
    (h : guessXX cta hapX par t = some xx) :
    (sexRow cta hapX par t).1 = (if xx then "Female" else "Male") ∧
    (sexRow cta hapX par t).2.1 ≠ .na ∧ (sexRow cta hapX par t).2.2 ≠ .na := by
  unfold guessXX at h
  unfold sexRow
  cases hc : compareSex cta hapX par false t with
  | none => simp [hc] at h
  | some r =>
    obtain ⟨isXY, st⟩ := r
    simp only [hc, Option.map_some, Option.some.injEq] at h
    subst h
    cases isXY <;> simp [strsign]

/-- … and for a table on which `guess_xx` is `None` (empty, or no chrX) the row reads Female NA NA — the code as it
    is: `"Male" if is_xy else "Female"` with `is_xy = None` -/
theorem sexRow_without_x (cta : Cta) (hapX : Bool) (par : Option String) (t : List CBin)
    (h : t = [] ∨ chrXBins par t = []) : sexRow cta hapX par t = ("Female", .na, .na) := by
  have := (compareSex_none_iff cta hapX par false t).mpr h
  simp [sexRow, this]

/-- conversely "Male" is printed only on a positive decision, and "NA" only without one -/
theorem sexRow_male_iff (cta : Cta) (hapX : Bool) (par : Option String) (t : List CBin) :
    (sexRow cta hapX par t).1 = "Male" ↔ guessXX cta hapX par t = some false := by
  unfold sexRow guessXX
  cases hc : compareSex cta hapX par false t with
  | none => simp
  | some r => obtain ⟨isXY, st⟩ := r; cases isXY <;> simp

/-- `strsign`: the "+" is printed iff the number is strictly positive; never for NaN, never for 0 -/
theorem strsign_plus_iff (v : Option Rat) :
    strsign v = .num true v ↔ ∃ q, v = some q ∧ 0 < q := by
  unfold strsign
  cases v with
  | none => simp
  | some q => simp

/-- the X column is the difference of the two segment means, so its sign says on which side of the autosomes chrX
    lies: "+" iff the (weighted) mean of chrX is above that of the autosomes -/
theorem sexRow_x_sign (cta : Cta) (hapX : Bool) (par : Option String) (t : List CBin) (r : Bool × SexStats)
    (h : compareSex cta hapX par false t = some r) (mx ma : Rat)
    (hmx : segMean false (chrXBins par t) = some mx) (hma : segMean false (autoBins par t) = some ma) :
    (sexRow cta hapX par t).2.1 = .num (decide (ma < mx)) (some (mx - ma)) := by
  have hr := h
  unfold compareSex at h
  split at h
  · simp at h
  · split at h
    · simp at h
    · simp only [Option.some.injEq] at h
      subst h
      simp only [sexRow, hr, lowIf, hmx, hma, subNan, strsign, Bool.false_eq_true, if_false]
      congr 1
      simp

/-- MALE REFERENCE is an offset: deciding with `is_haploid_x_reference=True` is deciding with `False` after
    lowering every chrX value by 1 (same Mood statistics function, same autosomes and chrY) -/
theorem male_reference_is_an_offset_of_x (G : MoodTable → Rat) (auto xs ys : List Rat) :
    sexIsMale G true auto xs ys = sexIsMale G false auto (shiftVals xs (-1)) ys := by
  have h0 : shiftVals (shiftVals xs (-1)) 0 = shiftVals xs (-1) := by
    simp [shiftVals]
  have h1 : shiftVals (shiftVals xs (-1)) 1 = shiftVals xs 0 := by
    simp only [shiftVals, List.map_map]
    apply List.map_congr_left
    intro a _
    simp only [Function.comp]
    ring
  unfold sexIsMale compareChromOf xShifts
  simp only [if_true, Bool.false_eq_true, if_false, h0, h1]

/-- non-vacuity: a table with X and Y bins has a decision; without X it has none; the NA row -/
example : (compareSex (ctaOfG fun _ _ => 1) false none false
    [{ chrom := "chr1", s := 0, e := 10, log2 := 0 }, { chrom := "chrX", s := 0, e := 10, log2 := -1 },
     { chrom := "chrY", s := 0, e := 10, log2 := 0 }]).isSome = true := by decide +kernel
example : sexRow (ctaOfG fun _ _ => 1) false none [{ chrom := "chr1", s := 0, e := 10, log2 := 0 }]
    = ("Female", .na, .na) := by decide +kernel

end CnvVerif.C15x
