/-
  C07: tie to the source TEXT of skgenome/intersect.py -- the summary choice of into_ranges.  `Generated.src_*` (Generated/ExprsRanges.lean) is
  re-translated from /repo's Python on every run (harness/exprtrans.py, second reading: one table, one query); the
  theorem states that the hand-written model IS that term, for all tables and queries.  A module of its own, so that an
  edit to this code path breaks exactly this obligation.
-/
import CnvVerif.Props.C07
import CnvVerif.Lemmas.SrcRangesSummary
namespace CnvVerif.C07
open CnvVerif

/-- `into_ranges`: the summary is chosen by the cascade in the source (type of the first cell; non-callable →
    constant; callable → itself) … -/
theorem summary_choice_is_the_source (s : Summary) (first : Val) :
    pickSummary s first =
      Src.summaryOfCode s (Generated.src_into_ranges_summary (Src.Summary.isNone s) (Src.Summary.isCallable s)
        (Src.Val.isStr first) (Src.Val.isFloat first)) :=
  Src.pickSummary_is_source s first

/-- … and applied as `series2value` does: default for no hit, the value itself for one, the summary otherwise -/
theorem series2value_is_the_source (d : Val) (f : List Val → Val) (vs : List Val) :
    seriesToValue d f vs =
      (match Generated.src_series2value vs.length with
       | 0 => d
       | 1 => vs.headD d
       | _ => f vs) :=
  Src.seriesToValue_is_source d f vs

end CnvVerif.C07
