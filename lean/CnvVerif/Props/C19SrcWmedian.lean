/-
  C19, tie to the source TEXT: `weighted_median` behind its decorator (equal lengths): majority shortcut, cumulative weights, the two `searchsorted` calls with the rounding allowance `midpoint*n*eps`, the mean of the two values found; `order` = the permutation `argsort` returned.
  `Generated.src_weighted_median` (Generated/ExprsDesc.lean) is re-translated from /repo's cnvlib/descriptives.py on every run by
  harness/vectrans.py (typed reading of the numpy vector subset); it is proved here that the hand-written model IS
  that expression, for all arguments.  One module per function: an edited formula breaks exactly this obligation.
-/
import CnvVerif.Generated.ExprsDesc
import CnvVerif.Lemmas.SrcDescVocab
namespace CnvVerif.C19
open CnvVerif CnvVerif.Desc CnvVerif.Generated CnvVerif.Src

set_option linter.unusedSimpArgs false
set_option linter.unusedVariables false

/-- `weighted_median` behind its decorator (equal lengths): the model run on the (value, weight) pairs with the
    permutation `argsort` returned is the source expression -/
theorem wmedian_is_the_source (a w : List Rat) (order : List Nat) (h : a.length = w.length) :
    src_weighted_median a w order = weightedMedianCore false order (a.zip w) := by
  unfold src_weighted_median weightedMedianCore wmedSorted wmedTol
  simp only [Bool.false_eq_true, if_false]
  have hlen : (permute order (a.zip w)).length = (Np.take w order).length := by simp [permute, Np.take]
  have hlenA : (Np.take a order).length = (Np.take w order).length := by simp [Np.take]
  rw [permute_zip_fst order a w h, permute_zip_snd order a w h, hlen, hlenA]
  generalize Np.take a order = A
  generalize Np.take w order = W
  rw [searchLeft_cumsum, searchRight_cumsum, List.any_map]
  have hmid : (1 : Rat) / 2 * W.sum = W.sum / 2 := by ring
  rw [hmid]
  split_ifs with h1 h2 h2
  · rfl
  · exact absurd h1 h2
  · exact absurd h2 h1
  · ring

example : src_weighted_median [3, 1, 4, 2] [0, 1, 2, 1] [1, 3, 0, 2] = 3 := by decide +kernel

end CnvVerif.C19
