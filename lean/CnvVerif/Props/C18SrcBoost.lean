/-
  C18: tie to the source TEXT of TumorBoost and of the frequency-based genotyping.  `Generated.src_tumor_boost` and
  `Generated.src_zygosity_from_freq` are re-translated from /repo's `cnvlib/vary.py` on every run (harness/exprtrans.py,
  extractor exprs_boost); these theorems state that the hand-written model functions are those expressions.
  Kept in a module of their own so that an edit to one of the formulas breaks exactly these obligations.
-/
import CnvVerif.Props.C18
import CnvVerif.Lemmas.SrcBoost
namespace CnvVerif.C18
open CnvVerif CnvVerif.Vcf

/-- the model's TumorBoost IS the expression `_tumor_boost` computes, at every locus where that expression does not
    divide by zero (below the normal: n ≠ 0; from the normal on: n ≠ 1) -/
theorem tumor_boost_is_the_source (t n : Rat) (h1 : t < n → n ≠ 0) (h2 : ¬ t < n → n ≠ 1) :
    tumorBoost t n = some (Generated.src_tumor_boost t n) := Src.tumorBoost_is_source t n h1 h2

/-- … and the model reports a missing value exactly at the loci where it does -/
theorem tumor_boost_missing_iff_division_by_zero (t n : Rat) :
    tumorBoost t n = none ↔ (t < n ∧ n = 0) ∨ (¬ t < n ∧ n = 1) := Src.tumorBoost_none_iff t n

/-- the model's genotype-from-frequency rule IS the pair of masked assignments of `zygosity_from_freq` -/
theorem zygosity_from_freq_is_the_source (het hom q : Rat) :
    zygFromFreq het hom (.fin q) = Generated.src_zygosity_from_freq q het hom := Src.zygFromFreq_is_source het hom q

/-- … applied to the tumour's and to the normal's columns, each typed from its own frequencies -/
theorem zygosity_from_freq_columns :
    Generated.src_zygosity_from_freq_columns = [("alt_freq", "zygosity"), ("n_alt_freq", "n_zygosity")] := rfl

/-- the hypotheses of `tumor_boost_is_the_source` hold for every pair of proper frequencies strictly inside (0, 1) -/
example : ((1/4 : Rat) < 5/8 → (5/8 : Rat) ≠ 0) ∧ (¬ (3/4 : Rat) < 5/8 → (5/8 : Rat) ≠ 1) := by
  constructor <;> intro _ <;> decide +kernel
example : Generated.src_tumor_boost (1/4) (5/8) = 1/5 ∧ Generated.src_tumor_boost (3/4) (5/8) = 2/3 := by
  constructor <;> decide +kernel
example : Generated.src_zygosity_from_freq (1/5) (1/4) (3/4) = 0 ∧ Generated.src_zygosity_from_freq (1/4) (1/4) (3/4) = 1/2 ∧
    Generated.src_zygosity_from_freq (3/4) (1/4) (3/4) = 1 := by
  refine ⟨?_, ?_, ?_⟩ <;> decide +kernel

end CnvVerif.C18
