/-
  C18, header-declared tumour/normal pairs (Model/VcfPairs.lean): the `if / elif / elif` precedence of
  `_parse_pedigrees` (a PEDIGREE record -- even one without `Derived` -- shadows both GATK conventions, a
  `GATKCommandLine` record shadows `GATKCommandLine.MuTect2`), the exact pair each convention yields, "MuTect2 with
  other than two samples declares nothing", and: read without selectors, the chosen (sample, normal) is the first
  declared pair.  Every statement is for all headers / sample lists / records.
-/
import CnvVerif.Model.VcfPairs
import CnvVerif.Props.C18
namespace CnvVerif.C18
open CnvVerif CnvVerif.Vcf

/-! ### precedence -/

/-- a PEDIGREE record shadows every GATK record: the declared pairs are those of the PEDIGREE tags alone
    (none at all when no tag has a `Derived` item), whatever `GATKCommandLine` / `GATKCommandLine.MuTect2` say -/
theorem pedigree_shadows_gatk (samples : List String) (h : Hdr) (hp : h.tags ≠ []) :
    headerPairs samples h = pedPairs h.tags := by
  unfold headerPairs
  cases ht : h.tags with
  | nil => exact absurd ht hp
  | cons a l => simp

/-- … in particular the GATK records can be dropped without changing what the header declares -/
theorem pedigree_ignores_gatk (samples : List String) (tags : List PedTag) (gatk : List GatkTag) (m2 : Bool)
    (hp : tags ≠ []) :
    headerPairs samples { tags := tags, gatk := gatk, mutect2 := m2 } =
      headerPairs samples { tags := tags, gatk := [], mutect2 := false } := by
  rw [pedigree_shadows_gatk _ _ hp, pedigree_shadows_gatk _ _ hp]

/-- a PEDIGREE record without any `Derived` item declares nothing -- and still shadows the GATK records -/
theorem pedigree_without_derived_declares_nothing (samples : List String) (h : Hdr) (hp : h.tags ≠ [])
    (hd : ∀ t ∈ h.tags, t.lookup "Derived" = none) :
    headerPairs samples h = .ok [] := by
  rw [pedigree_shadows_gatk _ _ hp]
  have : parsePedigrees h.tags = .ok [] := by
    generalize h.tags = tags at hd
    induction tags with
    | nil => rfl
    | cons t rest ih =>
      unfold parsePedigrees
      rw [hd t (by simp)]
      exact ih (fun t' ht' => hd t' (by simp [ht']))
  simp [pedPairs, this]

/-- without a PEDIGREE record, a `GATKCommandLine` record (of whatever tool) shadows `GATKCommandLine.MuTect2` -/
theorem mutect_shadows_mutect2 (samples : List String) (h : Hdr) (hp : h.tags = []) (hg : h.gatk ≠ []) :
    headerPairs samples h = mutectPairs h.gatk := by
  unfold headerPairs
  cases hgg : h.gatk with
  | nil => exact absurd hgg hg
  | cons a l => simp [hp]

/-- only with neither is the MuTect2 convention consulted -/
theorem mutect2_last (samples : List String) (h : Hdr) (hp : h.tags = []) (hg : h.gatk = []) :
    headerPairs samples h = .ok (if h.mutect2 then mutect2Pairs samples else []) := by
  unfold headerPairs
  cases hm : h.mutect2 <;> simp [hp, hg]

/-- a header without any of the three declares nothing, and PEDIGREE alone is what `Model/Vcf.lean` knows -/
theorem headerPairs_pedigree_only (samples : List String) (tags : List PedTag) :
    headerPairs samples { tags := tags } = pedPairs tags := by
  unfold headerPairs
  cases tags with
  | nil => simp [pedPairs, parsePedigrees]
  | cons a l => simp

/-! ### the exact pairs -/

/-- MuTect: a record with `ID=MuTect` yields `(options.get("tumor_sample_name"), options["normal_sample_name"])`
    in front of what the later records yield; records of other tools yield nothing -/
theorem mutect_pair (t : GatkTag) (rest : List GatkTag) (toks : List (String × Option String)) (n : String)
    (hid : t.id = some "MuTect") (ho : t.opts = some toks)
    (hn : dictGet (optionsDict toks) "normal_sample_name" = some n) (r : List DPair)
    (hr : mutectPairs rest = .ok r) :
    mutectPairs (t :: rest) = .ok ((dictGet (optionsDict toks) "tumor_sample_name", n) :: r) := by
  unfold mutectPairs
  simp [hid, ho, hn, hr]

theorem mutect_other_tool (t : GatkTag) (rest : List GatkTag) (hid : t.id ≠ some "MuTect") :
    mutectPairs (t :: rest) = mutectPairs rest := by
  conv => lhs; unfold mutectPairs
  simp [hid]

/-- MuTect without `normal_sample_name` (or without `CommandLineOptions`): `KeyError`, whatever else is there -/
theorem mutect_needs_normal (t : GatkTag) (rest : List GatkTag) (hid : t.id = some "MuTect")
    (hn : ∀ toks, t.opts = some toks → dictGet (optionsDict toks) "normal_sample_name" = none) :
    mutectPairs (t :: rest) = .error .keyError := by
  unfold mutectPairs
  cases ho : t.opts with
  | none => simp [hid]
  | some toks => simp [hid, hn toks ho]

/-- MuTect2 with exactly two sample columns: `("TUMOR","NORMAL")` for the columns `("NORMAL","TUMOR")`, … -/
theorem mutect2_normal_tumor : mutect2Pairs ["NORMAL", "TUMOR"] = [(some "TUMOR", "NORMAL")] := by decide

/-- … else the two ids in file order (first = tumour, second = normal) -/
theorem mutect2_file_order (a b : String) (h : ¬ (a = "NORMAL" ∧ b = "TUMOR")) :
    mutect2Pairs [a, b] = [(some a, b)] := by
  unfold mutect2Pairs
  by_cases ha : a = "NORMAL" <;> by_cases hb : b = "TUMOR" <;> simp_all

/-- MuTect2 with any other number of samples declares nothing -/
theorem mutect2_not_two_declares_nothing (samples : List String) (h : samples.length ≠ 2) :
    mutect2Pairs samples = [] := by
  match samples, h with
  | [], _ => rfl
  | [_], _ => rfl
  | [_, _], h => exact absurd rfl h
  | _ :: _ :: _ :: _, _ => rfl

/-! ### the choice -/

/-- read without selectors, the chosen (sample, normal) of a file whose header declares a pair is the FIRST declared
    pair -- provided every declared name is exactly one sample column (otherwise the reader refuses) -/
theorem declared_pair_is_chosen (samples : List String) (h : Hdr) (t : Option String) (n : String)
    (rest : List DPair) (hh : headerPairs samples h = .ok ((t, n) :: rest))
    (hu : (pairNames (((t, n) :: rest).map (fun p => (p.1, some p.2)))).all (fun nm => samples.count nm == 1) = true) :
    chooseSamplesH samples h .unset .unset = .ok (t, some n) := by
  simp only [chooseSamplesH, resolveSel, hh, bind, Except.bind]
  simp [chooseNamesH, candidatePairsH, selOk, truthy]
  simpa using hu

/-- … and a declared name that is not exactly one sample column makes the reader refuse (`IndexError`) -/
theorem declared_unknown_refused (samples : List String) (h : Hdr) (dp : List DPair) (hne : dp ≠ [])
    (hh : headerPairs samples h = .ok dp)
    (hu : (pairNames (dp.map (fun p => (p.1, some p.2)))).all (fun nm => samples.count nm == 1) = false) :
    chooseSamplesH samples h .unset .unset = .error .indexError := by
  simp only [chooseSamplesH, resolveSel, hh, bind, Except.bind]
  cases dp with
  | nil => exact absurd rfl hne
  | cons p l =>
    simp [chooseNamesH, candidatePairsH, selOk, truthy]
    simpa using hu

/-- the table read for a declared pair (no selectors): the rows of the declared tumour with the declared normal's
    columns -- the same function of the records as `readVcf`'s body -/
theorem declared_pair_is_read (samples : List String) (h : Hdr) (recs : List Rec) (t n : String)
    (rest : List DPair) (minDepth : Option Int) (sr ss : Bool)
    (hh : headerPairs samples h = .ok ((some t, n) :: rest))
    (hu : (pairNames (((some t, n) :: rest).map (fun p => (p.1, some p.2)))).all (fun nm => samples.count nm == 1) = true) :
    readVcfH samples h recs { minDepth := minDepth, skipReject := sr, skipSomatic := ss } =
      .ok (readWith samples t (some n) recs { minDepth := minDepth, skipReject := sr, skipSomatic := ss }) := by
  have hc := declared_pair_is_chosen samples h (some t) n rest hh hu
  simp only [readVcfH, hc, bind, Except.bind, pure, Except.pure]

/-- `readWith` is the body of `readVcf` -/
theorem readVcf_eq_readWith (samples : List String) (tags : List PedTag) (recs : List Rec) (o : ReadOpts) :
    readVcf samples tags recs o =
      (chooseSamples samples tags o.sid o.nid).map (fun p => readWith samples p.1 p.2 recs o) := by
  unfold readVcf
  cases chooseSamples samples tags o.sid o.nid with
  | error e => rfl
  | ok p => rfl

/-! ### non-vacuity: each convention on a concrete header -/

example : headerPairs ["N", "T"] { gatk := [{ id := some "MuTect", opts := some [("tumor_sample_name", some "T"),
    ("bare", none), ("normal_sample_name", some "N")] }] } = .ok [(some "T", "N")] := by decide
example : chooseSamplesH ["N", "T"] { gatk := [{ id := some "MuTect", opts := some [("tumor_sample_name", some "T"),
    ("normal_sample_name", some "N")] }], mutect2 := true } .unset .unset = .ok (some "T", some "N") := by decide
-- tumor_sample_name missing: the pair has no tumour; with a sample id the file is read for that sample alone
example : chooseSamplesH ["N", "T"] { gatk := [{ id := some "MuTect", opts := some [("normal_sample_name", some "N")] }] }
    .unset .unset = .ok (none, some "N") := by decide
example : chooseSamplesH ["N", "T"] { gatk := [{ id := some "MuTect", opts := some [("normal_sample_name", some "N")] }] }
    (.name "T") .unset = .ok (some "T", none) := by decide
-- normal_sample_name missing: KeyError; the last of two equal keys counts
example : headerPairs ["N", "T"] { gatk := [{ id := some "MuTect", opts := some [("tumor_sample_name", some "T")] }] }
    = .error .keyError := by decide
example : headerPairs ["N", "T"] { gatk := [{ id := some "MuTect", opts := some [("normal_sample_name", some "T"),
    ("normal_sample_name", some "N")] }] } = .ok [(none, "N")] := by decide
-- MuTect2: both orders, other names, 1 and 3 samples; shadowed by a HaplotypeCaller record and by a PEDIGREE record
example : chooseSamplesH ["NORMAL", "TUMOR"] { mutect2 := true } .unset .unset = .ok (some "TUMOR", some "NORMAL") := by decide
example : chooseSamplesH ["TUMOR", "NORMAL"] { mutect2 := true } .unset .unset = .ok (some "TUMOR", some "NORMAL") := by decide
example : chooseSamplesH ["A", "B"] { mutect2 := true } .unset .unset = .ok (some "A", some "B") := by decide
example : chooseSamplesH ["A"] { mutect2 := true } .unset .unset = .ok (some "A", none) := by decide
example : chooseSamplesH ["A", "B", "C"] { mutect2 := true } .unset .unset = .ok (some "A", none) := by decide
example : chooseSamplesH ["A", "B"] { gatk := [{ id := some "HaplotypeCaller", opts := none }], mutect2 := true }
    .unset .unset = .ok (some "A", none) := by decide
example : chooseSamplesH ["A", "B"] { tags := [[("Child", "A")]], mutect2 := true } .unset .unset = .ok (some "A", none) := by decide
example : chooseSamplesH ["A", "B"] {
    tags := [[("Derived", "B"), ("Original", "A")]],
    gatk := [{ id := some "MuTect", opts := some [("tumor_sample_name", some "A"), ("normal_sample_name", some "B")] }],
    mutect2 := true } .unset .unset = .ok (some "B", some "A") := by decide
-- the hypothesis of `declared_pair_is_chosen` holds on a non-trivial input
example : (pairNames (([(some "T", "N")] : List DPair).map (fun p => (p.1, some p.2)))).all
    (fun nm => ["N", "T", "X"].count nm == 1) = true := by decide
-- a chosen tumour `None` is a `TypeError` at the first record read, an empty table on a file without records
example : readVcfH ["N", "T"] { gatk := [{ id := some "MuTect", opts := some [("normal_sample_name", some "N")] }] }
    [default] {} = .error .typeError := by decide

end CnvVerif.C18
