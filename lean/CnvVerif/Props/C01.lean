/-
  C01 — clonal calls invert the purity/ploidy mixing model; cn is never negative.
  Property theorems only; proofs in Lemmas/Call.lean (ℚ model) and Lemmas/CallReal.lean (ℝ layer).
-/
import CnvVerif.Model.Call
import CnvVerif.Lemmas.Call
import CnvVerif.Lemmas.CallReal
namespace CnvVerif.C01
open CnvVerif

/-! The model works in *ratio space*: a row carries `t`, the value of `2^log2`.  Every double is a
    rational, so quantifying over `t : ℚ`, `p : ℚ` covers every float input; the ℝ statements at the
    end justify reading `t` as `2^v` for a real log2 value `v`. -/

/-- the (reference, germline) copy numbers of each chromosome class are those the property names:
    ploidy on autosomes and diploid-PAR X; X: half the ploidy in a male reference / male sample;
    Y: half the ploidy in every reference, none in a female sample; PAR on Y: not covered at all -/
theorem ref_expect_table (ploidy : Nat) (hapX female : Bool) :
    refExpect ploidy hapX female .auto = (ploidy, ploidy) ∧
    refExpect ploidy hapX female .parx = (ploidy, ploidy) ∧
    refExpect ploidy hapX female .x =
      (if hapX then ploidy / 2 else ploidy, if female then ploidy else ploidy / 2) ∧
    refExpect ploidy hapX female .y = (ploidy / 2, if female then 0 else ploidy / 2) ∧
    refExpect ploidy hapX female .pary = (0, 0) := ⟨rfl, rfl, rfl, rfl, rfl⟩

/-- the purity-adjusted formula inverts the mixing model exactly, for every purity in (0,1),
    every n, and every class the reference carries (r > 0) -/
theorem absolute_inverts (r x n : Nat) (p : Rat) (hp0 : 0 < p) (hp1 : p < 1) (hr : 0 < r) :
    absoluteOf r x (some p) ((p * (n : Rat) + (1 - p) * (x : Rat)) / (r : Rat)) = (n : Rat) :=
  absoluteOf_inverts r x n p hp0 hp1 hr

/-- `call` with the clonal method and purity p reports cn = n -/
theorem clonal_reports_n (cfg : CallCfg) (p : Rat) (hcfg : cfg.purity = some p)
    (hp0 : 0 < p) (hp1 : p < 1) (thr : List Rat) (first : String) (hasBaf : Bool) (row : SegRow) (n : Nat)
    (hr : 0 < (refExpect cfg.ploidy cfg.hapX cfg.female (classOf first cfg.par row.chrom row.s row.e)).1)
    (ht : row.t = (p * (n : Rat) +
            (1 - p) * ((refExpect cfg.ploidy cfg.hapX cfg.female (classOf first cfg.par row.chrom row.s row.e)).2 : Rat)) /
          ((refExpect cfg.ploidy cfg.hapX cfg.female (classOf first cfg.par row.chrom row.s row.e)).1 : Rat)) :
    (callRow cfg .clonal thr first hasBaf row).cn = some (n : Int) :=
  callRow_clonal_reports_n cfg p hcfg hp0 hp1 thr first hasBaf row n hr ht

/-- … and, for even ploidy, rewrites log2 to the ratio a pure sample with n copies would show
    against that reference, floored at `min_abs_val` (0.001) of the ploidy -/
theorem rescaled_ratio_even_ploidy (cfg : CallCfg) (p : Rat) (hcfg : cfg.purity = some p)
    (hp0 : 0 < p) (hp1 : p < 1) (heven : cfg.ploidy % 2 = 0) (hpl : 0 < cfg.ploidy)
    (m : Method) (thr : List Rat) (first : String) (hasBaf : Bool) (row : SegRow) (n : Nat)
    (hcls : classOf first cfg.par row.chrom row.s row.e ≠ .pary)
    (ht : row.t = (p * (n : Rat) +
            (1 - p) * ((refExpect cfg.ploidy cfg.hapX cfg.female (classOf first cfg.par row.chrom row.s row.e)).2 : Rat)) /
          ((refExpect cfg.ploidy cfg.hapX cfg.female (classOf first cfg.par row.chrom row.s row.e)).1 : Rat)) :
    (callRow cfg m thr first hasBaf row).ratio =
      some (max ((n : Rat) / ((refExpect cfg.ploidy cfg.hapX cfg.female (classOf first cfg.par row.chrom row.s row.e)).1 : Rat))
                (Generated.MIN_ABS_VAL * (cfg.ploidy : Rat) /
                  ((refExpect cfg.ploidy cfg.hapX cfg.female (classOf first cfg.par row.chrom row.s row.e)).1 : Rat))) :=
  callRow_rescaled_ratio cfg p hcfg hp0 hp1 heven hpl m thr first hasBaf row n hcls ht

/-- the floor constant the property names -/
theorem min_abs_val_is_one_thousandth : Generated.MIN_ABS_VAL_dec = 1 / 1000 := by decide +kernel

/-- without a purity, cn is the nearest integer to r·2^log2 -/
theorem pure_nearest_integer (cfg : CallCfg) (h : purityActive cfg.purity = none) (thr : List Rat)
    (first : String) (hasBaf : Bool) (row : SegRow) :
    ∃ c : Int, (callRow cfg .clonal thr first hasBaf row).cn = some c ∧
      (c : Rat) - (refCopiesPure row.chrom cfg.ploidy cfg.hapX : Rat) * row.t ≤ 1/2 ∧
      (refCopiesPure row.chrom cfg.ploidy cfg.hapX : Rat) * row.t - (c : Rat) ≤ 1/2 :=
  callRow_pure_nearest cfg h thr first hasBaf row

/-- whatever log2 (ratio t ≥ 0), purity, ploidy, method and sex configuration are given, every
    reported copy number is an integer ≥ 0 (repaired code: fix A) -/
theorem cn_nonneg (cfg : CallCfg) (m : Method) (thr : List Rat) (first : String)
    (hasBaf : Bool) (row : SegRow) (ht : 0 ≤ row.t) :
    ∀ c, (callRow cfg m thr first hasBaf row).cn = some c → 0 ≤ c :=
  callRow_cn_nonneg cfg m thr first hasBaf row ht

/-- before fix A the docstring formula, unclipped, is negative for a small ratio at low purity -/
theorem prefix_counterexample : absoluteRaw 2 2 (3/10) (1 / 2 ^ 30) < -4 := by decide +kernel

/-- ℝ layer: with `v = log2((p·n + (1−p)·x)/r)` the formula applied to `2^v` gives `n` -/
theorem clonal_inverts_real (n r x : ℕ) (p v : ℝ) (hp : 0 < p) (hr : 0 < r)
    (hm : 0 < p * n + (1 - p) * x)
    (hv : v = Real.logb 2 ((p * n + (1 - p) * x) / r)) :
    ((r : ℝ) * (2 : ℝ) ^ v - (x : ℝ) * (1 - p)) / p = (n : ℝ) :=
  CnvVerif.clonal_inverts_real n r x p v hp hr hm hv

theorem pure_inverts_real (n r : ℕ) (v : ℝ) (hn : 0 < n) (hr : 0 < r)
    (hv : v = Real.logb 2 ((n : ℝ) / r)) : (r : ℝ) * (2 : ℝ) ^ v = (n : ℝ) :=
  CnvVerif.pure_inverts_real n r v hn hr hv

/-! non-vacuity: a male sample (x = 1) against a male reference (r = 1) on chrX, purity 1/2, n = 3 -/
example : (callRow { ploidy := 2, purity := some (1/2), hapX := true, female := false, par := none }
    .clonal [] "chr1" false { chrom := "chrX", s := 0, e := 10, v := none, t := 2, baf := none }).cn = some 3 := by
  decide +kernel
example : classOf "chr1" (some "grch38") "chrX" 10000 2781479 = .parx ∧
          classOf "chr1" (some "grch38") "chrX" 9999 2781479 = .x ∧
          classOf "chr1" (some "grch38") "chrY" 10000 2781479 = .pary := by decide +kernel

end CnvVerif.C01
