/-
  C15: the robustness margin of the sex inference for tables WITH a weight column, and for any location estimator.
  On the median-difference path `compare_sex_chromosomes` sees the data only through five location estimates
  (autosomes; chrX and chrY each shifted for the female / male hypothesis).  If those estimates stay within `d < 1/4`
  of the levels — which every estimator that lies within the range of its data does when the bins do — the decision
  is the true sex.  Instantiated for `descriptives.weighted_median` (C19's exact model).  Proofs: Lemmas/SexExtW.lean.
-/
import CnvVerif.Model.SexExt
import CnvVerif.Lemmas.SexExtW
namespace CnvVerif.C15
open CnvVerif

/-- any estimator: estimates within `d < 1/4` of the levels (chrY of a female sample: at least 2 below the
    autosomes, its two estimates 3 apart up to `d`) ⇒ the true sex -/
theorem sex_inferred_within_margin_any_estimator (hapX female : Bool) (a d A XF XM : Rat) (Y : Option (Rat × Rat))
    (hd : 4 * d < 1) (hA : |A - a| ≤ d)
    (hXF : |XF - (a + expectedX hapX female + (xShifts hapX).1)| ≤ d)
    (hXM : |XM - (a + expectedX hapX female + (xShifts hapX).2)| ≤ d)
    (hY : ∀ p, Y = some p →
      if female then (|p.1 - (p.2 + 3)| ≤ d ∧ p.2 ≤ a - 2) else (|p.1 - (a + 3)| ≤ d ∧ |p.2 - a| ≤ d)) :
    sexIsMaleOfEstimates A XF XM Y = !female :=
  sexIsMaleOfEstimates_within_margin hapX female a d A XF XM Y hd hA hXF hXM hY

/-- tables with a weight column (`descriptives.weighted_median`, any non-negative weights, whatever sorting
    permutations numpy returned): every bin within `d < 1/4` of its level ⇒ the true sex -/
theorem sex_inferred_within_margin_weighted (hapX female : Bool) (a d : Rat) (oA oX oY : List Nat)
    (pA pX pY : List (Rat × Rat)) (hd : 4 * d < 1)
    (hoA : oA ≠ [] ∧ ∀ i ∈ oA, i < pA.length) (hoX : oX ≠ [] ∧ ∀ i ∈ oX, i < pX.length)
    (hoY : pY ≠ [] → oY ≠ [] ∧ ∀ i ∈ oY, i < pY.length)
    (hwA : ∀ q ∈ pA, 0 ≤ q.2) (hwX : ∀ q ∈ pX, 0 ≤ q.2) (hwY : ∀ q ∈ pY, 0 ≤ q.2)
    (hA : ∀ q ∈ pA, |q.1 - a| ≤ d) (hX : ∀ q ∈ pX, |q.1 - (a + expectedX hapX female)| ≤ d)
    (hY : if female then ∀ q ∈ pY, q.1 ≤ a - 2 else ∀ q ∈ pY, |q.1 - a| ≤ d) :
    sexIsMaleOfEstimates (Desc.weightedMedianCore false oA pA)
      (Desc.weightedMedianCore false oX (Desc.shiftP (xShifts hapX).1 pX))
      (Desc.weightedMedianCore false oX (Desc.shiftP (xShifts hapX).2 pX))
      (if pY.isEmpty then none else
        some (Desc.weightedMedianCore false oY (Desc.shiftP yShifts.1 pY),
              Desc.weightedMedianCore false oY (Desc.shiftP yShifts.2 pY)))
      = !female :=
  sexIsMaleWeighted_within_margin hapX female a d oA oX oY pA pX pY hd hoA hoX hoY hwA hwX hwY hA hX hY

/-- the unweighted decision is the same function, of the plain medians -/
theorem unweighted_decision_is_function_of_medians (hapX : Bool) (auto xs ys : List Rat) :
    sexIsMaleFallback hapX auto xs ys =
      sexIsMaleOfEstimates (medianR auto) (medianR (shiftVals xs (xShifts hapX).1))
        (medianR (shiftVals xs (xShifts hapX).2))
        (if ys.isEmpty then none else
          some (medianR (shiftVals ys yShifts.1), medianR (shiftVals ys yShifts.2))) :=
  sexIsMaleFallback_eq_estimates hapX auto xs ys

/-! non-vacuity: a female sample against a male reference, estimates off by up to 0.2 -/
example : sexIsMaleOfEstimates (1/5) (-1/5) (6/5) (some (-7/2, -13/2)) = false :=
  sex_inferred_within_margin_any_estimator true true 0 (1/5) (1/5) (-1/5) (6/5) (some (-7/2, -13/2))
    (by norm_num) (by norm_num [abs_le]) (by norm_num [expectedX, xShifts, abs_le])
    (by norm_num [expectedX, xShifts, abs_le])
    (by intro p hp; simp only [Option.some.injEq] at hp; subst hp; norm_num [abs_le])

end CnvVerif.C15
