/-
  C17, growth: the glue of `do_segmetrics` / `_cmd_segmetrics` around the statistics (Model/StatsGlue.lean).
  Every requested statistic ends up in the column of its name holding the FRESHLY computed values -- also when the
  segment table already had a column of that name (an earlier segmetrics run) --, every other column of the segment
  table is returned as it was and where it was, nothing else is added; the command refuses alpha outside (0, 1],
  does nothing without a statistic and otherwise writes to `-o` or `<sample>.segmetrics.cns`.
-/
import CnvVerif.Props.C17
import CnvVerif.Lemmas.StatsGlue
namespace CnvVerif.C17
open CnvVerif CnvVerif.Stats

variable {α : Type}

/-- the names the statistics tables of the model know are disjoint: a location statistic is not a spread statistic
    and neither is one of the interval columns -/
theorem statistic_names_disjoint (nm : String) :
    (locationStat nm).isSome → (spreadStat nm).isNone ∧ nm ∉ ["ci_lo", "ci_hi", "pi_lo", "pi_hi"] := by
  unfold locationStat spreadStat
  split <;> simp

/-- a requested location statistic is in the column of its name, freshly computed, whatever the segment table
    held there before (`nm` not also asked for as a spread statistic; it cannot be an interval column) -/
theorem requested_location_column_is_fresh (segs : Frame α) (loc spread interval : List String)
    (locVal spreadVal : String → α) (ciLo ciHi piLo piHi : α) (nm : String)
    (h : nm ∈ loc) (hs : nm ∉ spread) (hi : nm ∉ ["ci_lo", "ci_hi", "pi_lo", "pi_hi"]) :
    (segmetricsFrame segs loc spread interval locVal spreadVal ciLo ciHi piLo piHi).get? nm = some (locVal nm) := by
  unfold segmetricsFrame
  rw [Frame.get?_assignAll]
  have key : (segmetricsAssigns loc spread interval locVal spreadVal ciLo ciHi piLo piHi).reverse.find?
      (fun a => a.1 == nm) = some (nm, locVal nm) := by
    simp only [List.mem_cons, List.not_mem_nil, or_false, not_or] at hi
    obtain ⟨h1, h2, h3, h4⟩ := hi
    have e1 : ("ci_lo" == nm) = false := by simpa using Ne.symm h1
    have e2 : ("ci_hi" == nm) = false := by simpa using Ne.symm h2
    have e3 : ("pi_lo" == nm) = false := by simpa using Ne.symm h3
    have e4 : ("pi_hi" == nm) = false := by simpa using Ne.symm h4
    have hsp : (spread.map (fun x => (x, spreadVal x))).reverse.find? (fun a => a.1 == nm) = none := by
      rw [List.find?_eq_none]
      intro x hx hxe
      simp only [List.mem_reverse, List.mem_map] at hx
      obtain ⟨y, hy, rfl⟩ := hx
      exact hs ((by simpa using hxe : y = nm) ▸ hy)
    have hlc : (loc.map (fun x => (x, locVal x))).reverse.find? (fun a => a.1 == nm) = some (nm, locVal nm) := by
      obtain ⟨a, ha⟩ : ∃ a, (loc.map (fun x => (x, locVal x))).reverse.find? (fun a => a.1 == nm) = some a := by
        rw [← Option.isSome_iff_exists, List.find?_isSome]
        exact ⟨(nm, locVal nm), by simpa using h, by simp⟩
      have hm := List.mem_of_find?_eq_some ha
      have hp := List.find?_some ha
      simp only [List.mem_reverse, List.mem_map] at hm
      obtain ⟨y, _, rfl⟩ := hm
      have : y = nm := by simpa using hp
      rw [ha, this]
    unfold segmetricsAssigns
    simp only [List.reverse_append, List.find?_append]
    split <;> split <;> simp [e1, e2, e3, e4, hsp, hlc]
  rw [key]

/-- a requested spread statistic is in the column of its name, freshly computed (spread statistics are assigned
    after the location statistics, so a location statistic of the same name would not survive either) -/
theorem requested_spread_column_is_fresh (segs : Frame α) (loc spread interval : List String)
    (locVal spreadVal : String → α) (ciLo ciHi piLo piHi : α) (nm : String)
    (h : nm ∈ spread) (hi : nm ∉ ["ci_lo", "ci_hi", "pi_lo", "pi_hi"]) :
    (segmetricsFrame segs loc spread interval locVal spreadVal ciLo ciHi piLo piHi).get? nm = some (spreadVal nm) := by
  unfold segmetricsFrame
  rw [Frame.get?_assignAll]
  have key : (segmetricsAssigns loc spread interval locVal spreadVal ciLo ciHi piLo piHi).reverse.find?
      (fun a => a.1 == nm) = some (nm, spreadVal nm) := by
    simp only [List.mem_cons, List.not_mem_nil, or_false, not_or] at hi
    obtain ⟨h1, h2, h3, h4⟩ := hi
    have e1 : ("ci_lo" == nm) = false := by simpa using Ne.symm h1
    have e2 : ("ci_hi" == nm) = false := by simpa using Ne.symm h2
    have e3 : ("pi_lo" == nm) = false := by simpa using Ne.symm h3
    have e4 : ("pi_hi" == nm) = false := by simpa using Ne.symm h4
    have hsp : (spread.map (fun x => (x, spreadVal x))).reverse.find? (fun a => a.1 == nm) = some (nm, spreadVal nm) := by
      obtain ⟨a, ha⟩ : ∃ a, (spread.map (fun x => (x, spreadVal x))).reverse.find? (fun a => a.1 == nm) = some a := by
        rw [← Option.isSome_iff_exists, List.find?_isSome]
        exact ⟨(nm, spreadVal nm), by simpa using h, by simp⟩
      have hm := List.mem_of_find?_eq_some ha
      have hp := List.find?_some ha
      simp only [List.mem_reverse, List.mem_map] at hm
      obtain ⟨y, _, rfl⟩ := hm
      have : y = nm := by simpa using hp
      rw [ha, this]
    unfold segmetricsAssigns
    simp only [List.reverse_append, List.find?_append]
    split <;> split <;> simp [e1, e2, e3, e4, hsp]
  rw [key]

/-- the interval columns hold the interval just computed iff their statistic is among `interval_stats`, in whatever
    order (or how often) it was named, and whatever the location / spread statistics were called -/
theorem requested_interval_columns_are_fresh (segs : Frame α) (loc spread interval : List String)
    (locVal spreadVal : String → α) (ciLo ciHi piLo piHi : α) :
    let out := segmetricsFrame segs loc spread interval locVal spreadVal ciLo ciHi piLo piHi
    ("ci" ∈ interval → out.get? "ci_lo" = some ciLo ∧ out.get? "ci_hi" = some ciHi) ∧
    ("pi" ∈ interval → out.get? "pi_lo" = some piLo ∧ out.get? "pi_hi" = some piHi) := by
  intro out
  constructor
  · intro hc
    constructor <;>
    · show (segs.assignAll _).get? _ = _
      rw [Frame.get?_assignAll]
      unfold segmetricsAssigns
      by_cases hp : "pi" ∈ interval <;>
        simp [hc, hp]
  · intro hp
    constructor <;>
    · show (segs.assignAll _).get? _ = _
      rw [Frame.get?_assignAll]
      unfold segmetricsAssigns
      simp [hp]

/-- a column of the segment table that no requested statistic is named after comes back with what it held -/
theorem unrequested_column_unchanged (segs : Frame α) (loc spread interval : List String)
    (locVal spreadVal : String → α) (ciLo ciHi piLo piHi : α) (nm : String)
    (hl : nm ∉ loc) (hs : nm ∉ spread) (hi : nm ∉ ["ci_lo", "ci_hi", "pi_lo", "pi_hi"]) :
    (segmetricsFrame segs loc spread interval locVal spreadVal ciLo ciHi piLo piHi).get? nm = segs.get? nm := by
  unfold segmetricsFrame
  rw [Frame.get?_assignAll]
  have key : (segmetricsAssigns loc spread interval locVal spreadVal ciLo ciHi piLo piHi).reverse.find?
      (fun a => a.1 == nm) = none := by
    rw [List.find?_eq_none]
    intro x hx hxe
    have hxn : x.1 = nm := by simpa using hxe
    simp only [List.mem_reverse] at hx
    unfold segmetricsAssigns at hx
    simp only [List.mem_append, List.mem_map] at hx
    rcases hx with ((⟨y, hy, rfl⟩ | ⟨y, hy, rfl⟩) | hx) | hx
    · exact hl (hxn ▸ hy)
    · exact hs (hxn ▸ hy)
    · split at hx
      · simp only [List.mem_cons, List.not_mem_nil, or_false] at hx
        rcases hx with rfl | rfl <;> exact hi (hxn ▸ by simp)
      · simp at hx
    · split at hx
      · simp only [List.mem_cons, List.not_mem_nil, or_false] at hx
        rcases hx with rfl | rfl <;> exact hi (hxn ▸ by simp)
      · simp at hx
  rw [key]

/-- the segment table's own columns stay where they were (the result's column names start with them) … -/
theorem own_columns_keep_their_place (segs : Frame α) (loc spread interval : List String)
    (locVal spreadVal : String → α) (ciLo ciHi piLo piHi : α) :
    segs.names <+: (segmetricsFrame segs loc spread interval locVal spreadVal ciLo ciHi piLo piHi).names :=
  Frame.names_assignAll_prefix segs _

/-- … and the columns of the result are exactly those and the requested ones: `ci_lo`/`ci_hi` iff "ci" is among
    the interval statistics, `pi_lo`/`pi_hi` iff "pi" is, in whatever order they were asked for -/
theorem result_columns_exact (segs : Frame α) (loc spread interval : List String)
    (locVal spreadVal : String → α) (ciLo ciHi piLo piHi : α) (k : String) :
    k ∈ (segmetricsFrame segs loc spread interval locVal spreadVal ciLo ciHi piLo piHi).names ↔
      k ∈ segs.names ∨ k ∈ loc ∨ k ∈ spread ∨ ("ci" ∈ interval ∧ (k = "ci_lo" ∨ k = "ci_hi")) ∨
        ("pi" ∈ interval ∧ (k = "pi_lo" ∨ k = "pi_hi")) := by
  unfold segmetricsFrame
  rw [Frame.mem_names_assignAll]
  unfold segmetricsAssigns
  by_cases hc : "ci" ∈ interval <;> by_cases hp : "pi" ∈ interval <;>
    simp [hc, hp, List.map_map, Function.comp_def, or_assoc]

/-- without any statistic the table is returned as it is -/
theorem no_statistics_no_change (segs : Frame α) (locVal spreadVal : String → α) (ciLo ciHi piLo piHi : α) :
    segmetricsFrame segs [] [] [] locVal spreadVal ciLo ciHi piLo piHi = segs := rfl

/-- the command writes a table iff `0 < alpha ≤ 1` and some statistic is asked for … -/
theorem command_writes_iff (alpha : Rat) (loc spread interval : List String) (output : Option String) (sid : String) :
    (∃ p, cmdSegmetrics alpha loc spread interval output sid = .write p) ↔
      (0 < alpha ∧ alpha ≤ 1) ∧ ¬ (loc = [] ∧ spread = [] ∧ interval = []) := by
  unfold cmdSegmetrics
  by_cases h0 : 0 < alpha <;> by_cases h1 : alpha ≤ 1 <;>
    cases loc <;> cases spread <;> cases interval <;> simp [h0, h1]

/-- … to the `-o` file when one is named, else to `<sample id>.segmetrics.cns` -/
theorem command_output_name (alpha : Rat) (loc spread interval : List String) (sid o p : String) :
    (cmdSegmetrics alpha loc spread interval none sid = .write p → p = sid ++ ".segmetrics.cns") ∧
    (o ≠ "" → cmdSegmetrics alpha loc spread interval (some o) sid = .write p → p = o) := by
  unfold cmdSegmetrics
  constructor
  · intro h
    split at h
    · exact absurd h (by simp)
    · split at h
      · exact absurd h (by simp)
      · injection h with h; exact h.symm
  · intro ho h
    have : o.isEmpty = false := by
      simpa [String.isEmpty_iff] using ho
    split at h
    · exact absurd h (by simp)
    · split at h
      · exact absurd h (by simp)
      · injection h with h
        simp only [this, Bool.false_eq_true, if_false] at h
        exact h.symm

/-! ### non-vacuity: a segment table that already carries `mean` and `ci_lo` from an earlier run -/
example :
    (segmetricsFrame [("log2", "own"), ("mean", "stale"), ("ci_lo", "stale")] ["mean"] ["mad"] ["pi", "ci"]
      (fun nm => "loc:" ++ nm) (fun nm => "spread:" ++ nm) "ci_lo" "ci_hi" "pi_lo" "pi_hi") =
    [("log2", "own"), ("mean", "loc:mean"), ("ci_lo", "ci_lo"), ("mad", "spread:mad"), ("ci_hi", "ci_hi"),
     ("pi_lo", "pi_lo"), ("pi_hi", "pi_hi")] := by decide +kernel
example : cmdSegmetrics (1 / 20) ["mean"] [] [] none "S" = .write "S.segmetrics.cns" := by decide +kernel
example : cmdSegmetrics 0 ["mean"] [] [] none "S" = .refuse := by decide +kernel
example : cmdSegmetrics (1 / 20) [] [] [] (some "x") "S" = .nothing := by decide +kernel

end CnvVerif.C17
