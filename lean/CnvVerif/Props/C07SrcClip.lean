/-
  C07: tie to the source TEXT of skgenome/intersect.py -- the trim clipping.  `Generated.src_*` (Generated/ExprsRanges.lean) is
  re-translated from /repo's Python on every run (harness/exprtrans.py, second reading: one table, one query); the
  theorem states that the hand-written model IS that term, for all tables and queries.  A module of its own, so that an
  edit to this code path breaks exactly this obligation.
-/
import CnvVerif.Props.C07
import CnvVerif.Lemmas.SrcRangesClip
namespace CnvVerif.C07
open CnvVerif

/-- trim: each selected row gets the start / end `iter_ranges` computes (`clip(lower=…)`, `clip(upper=…)` under the
    `if start_val:` / `if end_val:` truthiness), and nothing is clipped outside trim mode.  On well-formed tables
    (coordinates ≥ 0, start < end), like `nested_mask_is_the_source`: there the harmless spelling `is not None` of
    the truthiness tests reads the same and keeps both theorems green. -/
theorem trim_clip_is_the_source (t : Table) (h : WFTable t) (qs qe : Option Int)
    (hq : ∀ s, qs = some s → 0 ≤ s) (mode : Mode) :
    selectRange t qs qe mode =
      (idxSelect t qs qe (mode == .inner)).map (fun r =>
        { r with s := (Generated.src_iter_ranges_clip (mode == .trim) qs qe r.s r.e).1,
                 e := (Generated.src_iter_ranges_clip (mode == .trim) qs qe r.s r.e).2 }) :=
  Src.selectRange_is_source t h qs qe hq mode

end CnvVerif.C07
