/-
  C08 (round 5c) — the sniff patterns of `tabio.sniff_region_format` inside the proof.

  `Generated/RegexSniff.lean: src_sniff_text / src_sniff_bed` are `format_patterns['text']` / `['bed']` as regex ASTs,
  re-read from the source text on every run (harness/extractors/regex_sniff.py, through Python's own pattern parser),
  with the backtracking semantics of `Model/FormatsExt5Label.lean` (`Re.run`; new atom `any` for the dot).
  Theorems: every line the text writer emits (`to_label`: word-character name, `:`, digits, `-`, digits, anything
  after) is matched by the source `text` pattern, and every line a BED writer emits (non-space name, TAB, digits, TAB,
  digits, anything after) is matched by the source `bed` pattern — for all names / numbers / tails, so write-then-sniff
  cannot miss the writer's own pattern.
-/
import CnvVerif.Lemmas.Formats
import CnvVerif.Lemmas.FormatsExt5Label
import CnvVerif.Generated.RegexSniff
namespace CnvVerif.C08
open CnvVerif CnvVerif.Fmt CnvVerif.Generated CnvVerif.Fmt.C08L


/-- greedy star: if SOME split `a ++ b` with `a` inside the class lets the continuation succeed, the star succeeds
    (backtracking finds it or an earlier-preferred success) -/
theorem sniff5c_starGo_isSome (p : Char → Bool) (k : List Char → Option Caps) (a b : List Char)
    (ha : ∀ c ∈ a, p c = true) (hk : (k b).isSome = true) : (starGo p (a ++ b) k).isSome = true := by
  induction a with
  | nil =>
    cases b with
    | nil => simpa [starGo] using hk
    | cons c t =>
      simp only [List.nil_append, starGo]
      split
      · cases h : starGo p t k <;> simp [hk]
      · exact hk
  | cons c t ih =>
    have hc : p c = true := ha c (by simp)
    have ht := ih (fun x hx => ha x (by simp [hx]))
    simp only [List.cons_append, starGo, hc, if_true]
    cases h : starGo p (t ++ b) k with
    | none => simp [h] at ht
    | some r => simp

theorem sniff5c_plus_isSome (cl : Cls) (k : List Char → Option Caps) (a b : List Char) (hne : a ≠ [])
    (ha : ∀ c ∈ a, clsTest cl c = true) (hk : (k b).isSome = true) : ((Re.plus cl).run (a ++ b) k).isSome = true := by
  cases a with
  | nil => exact absurd rfl hne
  | cons c t =>
    have hc : clsTest cl c = true := ha c (by simp)
    simp only [List.cons_append, Re.run, hc, if_true]
    exact sniff5c_starGo_isSome _ k t b (fun x hx => ha x (by simp [hx])) hk

theorem sniff5c_star_isSome (cl : Cls) (k : List Char → Option Caps) (a b : List Char)
    (ha : ∀ c ∈ a, clsTest cl c = true) (hk : (k b).isSome = true) : ((Re.star cl).run (a ++ b) k).isSome = true := by
  simp only [Re.run]; exact sniff5c_starGo_isSome _ k a b ha hk

theorem sniff5c_one_isSome (ch : Char) (k : List Char → Option Caps) (b : List Char) (hk : (k b).isSome = true) :
    ((Re.one [.ch ch]).run (ch :: b) k).isSome = true := by
  simp [Re.run, clsTest, Atom.test, hk]

theorem sniff5c_seq_run (a b : Re) (l : List Char) (k : List Char → Option Caps) :
    (Re.seq a b).run l k = a.run l (fun l' => b.run l' k) := by simp [Re.run]


/-- `format_patterns['text'].match(line)` succeeds on every line of the shape `to_label` writes:
    a non-empty word-character name, `:`, digits, `-`, digits, then anything (newline, gene, …). -/
theorem sniff_text_matches_written (chrom sd ed rest : List Char) (hne : chrom ≠ [])
    (hw : ∀ c ∈ chrom, isWordCh c = true) (hs : ∀ c ∈ sd, c.isDigit = true) (he : ∀ c ∈ ed, c.isDigit = true) :
    (reMatch src_sniff_text (chrom ++ (':' :: (sd ++ ('-' :: (ed ++ rest)))))).isSome = true := by
  unfold reMatch src_sniff_text
  simp only [sniff5c_seq_run]
  apply sniff5c_plus_isSome _ _ _ _ hne (by simpa [clsTest, Atom.test] using hw)
  apply sniff5c_one_isSome
  apply sniff5c_star_isSome _ _ _ _ (by simpa [clsTest, Atom.test] using hs)
  apply sniff5c_one_isSome
  apply sniff5c_star_isSome _ _ _ _ (by simpa [clsTest, Atom.test] using he)
  have := sniff5c_star_isSome [.any] (fun _ => some []) [] rest (by simp) rfl
  simpa using this

/-- `format_patterns['bed'].match(line)` succeeds on every line a BED writer emits:
    a non-empty name without white space, TAB, digits, TAB, digits, then anything (further columns, newline). -/
theorem sniff_bed_matches_written (chrom sd ed rest : List Char) (hne : chrom ≠ [])
    (hw : ∀ c ∈ chrom, isSpaceCh c = false) (hsn : sd ≠ []) (hs : ∀ c ∈ sd, c.isDigit = true)
    (hen : ed ≠ []) (he : ∀ c ∈ ed, c.isDigit = true) :
    (reMatch src_sniff_bed (chrom ++ ('\t' :: (sd ++ ('\t' :: (ed ++ rest)))))).isSome = true := by
  unfold reMatch src_sniff_bed
  simp only [sniff5c_seq_run]
  apply sniff5c_plus_isSome _ _ _ _ hne (by simpa [clsTest, Atom.test] using hw)
  apply sniff5c_one_isSome
  apply sniff5c_plus_isSome _ _ _ _ hsn (by simpa [clsTest, Atom.test] using hs)
  apply sniff5c_one_isSome
  apply sniff5c_plus_isSome _ _ _ _ hen (by simpa [clsTest, Atom.test] using he)
  rfl

/-- the model's text writer: `to_label` of a row with a word-character name and non-negative coordinates is matched
    by the source `text` pattern -/
theorem sniff_text_matches_toLabel (chrom : String) (s e : Int) (hne : chrom.toList ≠ [])
    (hw : ∀ c ∈ chrom.toList, isWordCh c = true) (hs : 0 ≤ s + WRITE_SHIFT_to_label) (he : 0 ≤ e) (rest : List Char) :
    (reMatch src_sniff_text ((toLabel chrom s e).toList ++ rest)).isSome = true := by
  have h1 := toString_digits (s + WRITE_SHIFT_to_label) hs
  have h2 := toString_digits e he
  have := sniff_text_matches_written chrom.toList (toString (s + WRITE_SHIFT_to_label)).toList (toString e).toList rest hne hw
    (fun c hc => (h1).2 c hc) (fun c hc => (h2).2 c hc)
  simpa [toLabel, String.toList_append, List.append_assoc] using this

/-- non-vacuity: a concrete written line, and lines the patterns refuse -/
example : (reMatch src_sniff_text "chr1:11-20\n".toList).isSome = true := by decide
example : (reMatch src_sniff_text "chr1\t10\t20\n".toList).isSome = false := by decide
example : (reMatch src_sniff_bed "chr1\t10\t20\tg\n".toList).isSome = true := by decide
example : (reMatch src_sniff_bed "chr1:11-20\n".toList).isSome = false := by decide
example : (reMatch src_sniff_bed "chr 1\t10\t20".toList).isSome = false := by decide

theorem sniff_methods : src_sniff_text_method = "match" ∧ src_sniff_bed_method = "match" := ⟨rfl, rfl⟩

end CnvVerif.C08
