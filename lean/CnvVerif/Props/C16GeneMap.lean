/-
  C16 (round 5): what the dict loop of `_get_gene_map` builds, for ALL tables (no hypothesis on the gene layout).

  `GeneExt.geneMapOfBins rs` is the map built the way the code builds it (and, by Props/C16SrcGeneMap.lean, the way the
  source text says); `Genes.byGeneChrom` -- the subject of every `byGene_*` theorem -- iterates the closed form
  `(firstByName T, geneIdx T)` with `T = taggedFrom 0 rs`.  `gene_map_is_the_model` closes the gap between the two.
-/
import CnvVerif.Props.C16
import CnvVerif.Lemmas.GeneMapExt5
namespace CnvVerif.C16
open CnvVerif CnvVerif.Genes CnvVerif.GeneExt CnvVerif.PyDict16

/-- the loop is a left fold of single visits `(row, name)` in table order, names of one row left to right -/
theorem gene_map_is_fold_of_visits (rs : List Bin) : geneMapOfBins rs = fold (taggedFrom 0 rs) [] := by
  unfold geneMapOfBins geneMap
  rw [loopFrom_fold, taggedOpt_bins]

/-- **the map the loop builds IS the map `by_gene` is modelled to iterate**: its items, in order, are the names in order of
    first appearance, each with `geneIdx` -/
theorem gene_map_is_the_model (rs : List Bin) :
    geneMapOfBins rs = (firstByName (taggedFrom 0 rs)).map (fun p => (p.2, geneIdx (taggedFrom 0 rs) p.2)) := by
  rw [gene_map_is_fold_of_visits, fold_eq_closedForm]; rfl

/-- the keys are distinct and in order of first appearance -/
theorem gene_map_keys (rs : List Bin) :
    keys (geneMapOfBins rs) = (firstByName (taggedFrom 0 rs)).map (·.2) ∧ (keys (geneMapOfBins rs)).Nodup := by
  have h : keys (geneMapOfBins rs) = (firstByName (taggedFrom 0 rs)).map (·.2) := by
    rw [gene_map_is_fold_of_visits, keys_fold]; simp [keys]
  exact ⟨h, h ▸ firstByName_keys_nodup _⟩

/-- a name is a key exactly when some bin's name list contains it -/
theorem gene_map_key_iff (rs : List Bin) (g : String) :
    g ∈ keys (geneMapOfBins rs) ↔ ∃ b ∈ rs, g ∈ names b := by
  rw [(gene_map_keys rs).1]
  constructor
  · intro h
    obtain ⟨x, hx, rfl⟩ := List.mem_map.mp h
    have hx' := (firstByName_sublist _).subset hx
    obtain ⟨_, b, hb, hg⟩ := mem_taggedFrom.mp (show (x.1, x.2) ∈ taggedFrom 0 rs from hx')
    exact ⟨b, List.mem_of_getElem? hb, hg⟩
  · rintro ⟨b, hb, hg⟩
    obtain ⟨i, hi, rfl⟩ := List.getElem_of_mem hb
    have hm : (i, g) ∈ taggedFrom 0 rs := mem_taggedFrom.mpr ⟨Nat.zero_le _, rs[i], by simp [hi], hg⟩
    obtain ⟨f, hf⟩ := firstByName_covers hm
    exact List.mem_map.mpr ⟨(f, g), hf, rfl⟩

/-- **the value of a key lists exactly the positions of the bins whose name list contains it** … -/
theorem gene_map_index_iff (rs : List Bin) (g : String) (i : Nat) :
    i ∈ get (geneMapOfBins rs) g ↔ ∃ b, rs[i]? = some b ∧ g ∈ names b := by
  rw [gene_map_is_fold_of_visits, get_fold]
  simp only [PyDict16.get, List.find?_nil, List.nil_append, mem_geneIdx, mem_taggedFrom, Nat.zero_le, true_and, Nat.sub_zero]

/-- … **in table order** (a position is repeated only when the bin's own list repeats the name, as in `"A,A"`) -/
theorem gene_map_index_sorted (rs : List Bin) (g : String) : (get (geneMapOfBins rs) g).Pairwise (· ≤ ·) := by
  rw [gene_map_is_fold_of_visits, get_fold]
  simpa [PyDict16.get] using geneIdx_sorted (taggedFrom_sorted 0 rs) g

/-- a bin whose names are all distinct is listed once under each of them -/
theorem gene_map_index_count (rs : List Bin) (g : String) (i : Nat) :
    (get (geneMapOfBins rs) g).count i = ((taggedFrom 0 rs).filter (fun x => x.2 == g && x.1 == i)).length := by
  rw [gene_map_is_fold_of_visits, get_fold]
  simp only [PyDict16.get, List.find?_nil, List.nil_append, geneIdx, List.count_eq_length_filter, List.filter_map,
    List.length_map, List.filter_filter]
  congr 1
  apply List.filter_congr
  intro x _
  simp [Bool.and_comm]

/-- **no key has an empty list**: the branch "Specified gene name somehow missing" of `by_gene` (`if not len(gene_idx)`)
    is dead code for the map this loop builds -/
theorem gene_map_values_nonempty (rs : List Bin) : ∀ kv ∈ geneMapOfBins rs, kv.2 ≠ [] := by
  intro kv hkv
  rw [gene_map_is_the_model] at hkv
  obtain ⟨p, hp, rfl⟩ := List.mem_map.mp hkv
  have hm : p.1 ∈ geneIdx (taggedFrom 0 rs) p.2 := mem_geneIdx.mpr ((firstByName_sublist _).subset hp)
  exact List.ne_nil_of_mem hm

/-- a null name contributes nothing but still counts as a position -/
theorem gene_map_null_row (gs : List (Option String)) (k : Nat) (d : Dict) :
    loopFrom k d (none :: gs) = loopFrom (k + 1) d gs := rfl

/-- **`by_gene` on one chromosome is its loop run over the ITEMS of the map the dict loop builds** (`for gene, gene_idx in
    gene_map.items()`: start `gene_idx[0]`, end `gene_idx[-1] + 1` read from the dict's own lists) -/
theorem by_gene_iterates_the_built_map (ignore : List String) (rs : List Bin) :
    byGeneChrom ignore rs = goItems rs (fullIgnore ignore) 0 (geneMapOfBins rs) := by
  rw [gene_map_is_the_model, goItems_closed]; rfl

/-- non-vacuity on the demo table's first chromosome rows: the map the loop builds -/
example : geneMap [some "A", some "A,B", none, some "B", some "A"] = [("A", [0, 1, 4]), ("B", [1, 3])] := by decide

end CnvVerif.C16
