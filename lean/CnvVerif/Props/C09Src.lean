/-
  C09: tie to the source TEXT.  The definitions `Generated.src_*` are re-translated from cnvlib/coverage.py on
  every run (harness/extractors/exprs_cov.py, reading rules in harness/exprtrans.py); these theorems state that the
  model's depth formula, its rule for the log2 column and the cut-off handed to samtools ARE those expressions, for
  all arguments.  Kept in a module of its own so that an edit to a formula breaks exactly these obligations.
-/
import CnvVerif.Props.C09
import CnvVerif.Lemmas.SrcCov
namespace CnvVerif.C09
open CnvVerif CnvVerif.Cov CnvVerif.Generated

/-- `--count`: the model's `depthOf bases start end` is the expression `region_depth_count` puts into the row
    (`bases / (end - start) if end > start else 0`) -/
theorem count_depth_is_the_source (bases s e : Int) :
    depthOf bases s e = src_count_depth (bases : Rat) (s : Rat) (e : Rat) :=
  Src.depthOf_eq_src_count bases s e

/-- pileup: the same model function is the `depth` column the masked pandas updates at the end of
    `interval_coverages_pileup` produce (`basecount / span` where `span > 0`, else 0.0) -/
theorem pileup_depth_is_the_source (basecount s e : Int) :
    depthOf basecount s e = src_pileup_depth (basecount : Rat) (s : Rat) (e : Rat) :=
  Src.depthOf_eq_src_pileup basecount s e

/-- hence both algorithms turn a base count into a depth by one and the same formula in the source -/
theorem both_paths_one_depth_formula (n s e : Int) :
    src_count_depth (n : Rat) (s : Rat) (e : Rat) = src_pileup_depth (n : Rat) (s : Rat) (e : Rat) := by
  rw [← count_depth_is_the_source, ← pileup_depth_is_the_source]

/-- `--count`: the log2 entry of the row is the source's `math.log(depth, 2) if depth else NULL_LOG2_COVERAGE`:
    the sentinel (−20, from params.py) where the model says `some`, the logarithm `L` where it says `none` -/
theorem count_log2_rule_is_the_source (b : Row) (d L : Rat) :
    (mkRow b d).log2.getD L = src_count_log2 d L :=
  Src.mkRow_log2_eq_src_count b d L

/-- pileup: the log2 column after `table.assign(log2=NULL_LOG2_COVERAGE)` and the `depth > 0` mask, for every base
    count samtools can report (≥ 0) -/
theorem pileup_log2_rule_is_the_source (b : Row) (basecount s e : Int) (h : 0 ≤ basecount) (L : Rat) :
    (mkRow b (depthOf basecount s e)).log2.getD L =
      src_pileup_log2 (basecount : Rat) (s : Rat) (e : Rat) L :=
  Src.pileup_log2_eq_src b basecount s e h L

/-- `bedcov` passes `-Q min_mapq` exactly when `min_mapq` is positive and nothing (samtools' default 0) otherwise:
    the cut-off samtools works with is `min_mapq` for every cut-off ≥ 0 — the `q` of the model's `bedcovCounted` -/
theorem bedcov_cutoff_is_the_source (q : Nat) : src_bedcov_minq (q : Rat) = (q : Rat) :=
  Src.bedcov_minq_eq q

/-! ### non-vacuity -/

example : src_count_depth 30 10 20 = 3 ∧ src_count_depth 30 20 20 = 0 ∧ src_pileup_depth 7 0 2 = 7 / 2 ∧
    src_count_log2 0 5 = -20 ∧ src_count_log2 3 5 = 5 ∧ src_pileup_log2 0 0 9 5 = -20 ∧ src_pileup_log2 4 9 9 5 = -20 ∧
    src_bedcov_minq 0 = 0 ∧ src_bedcov_minq 30 = 30 := by
  decide +kernel

end CnvVerif.C09
