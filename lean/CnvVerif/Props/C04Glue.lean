/-
  C04 — the glue of `do_fix` / `load_adjust_coverages`: which class of bins gets which correction, and what a switched-on
  correction does when the reference lacks its covariate column ("all references … with/without gc and rmask columns",
  "every subset of {gc, edge, rmask} corrections").  Proofs in Lemmas/FixGlue.lean.
-/
import CnvVerif.Props.C04
import CnvVerif.Lemmas.FixGlue
namespace CnvVerif.C04
open CnvVerif

/-- the model's `doFix` makes exactly the two `load_adjust_coverages` calls whose flags `class_flags_are_the_source`
    (Props/C04SrcFlags) reads off the source, then combines, subtracts, weights, centres (`fixCore`) -/
theorem fix_runs_each_class_with_its_flags (tgt anti : List SRow) (ref : List RRow) (cfg : FixCfg) (P : FixParams)
    (hns : (tgt.map sKey).any (fun k => (anti.map sKey).contains k) = false) :
    doFix tgt anti ref cfg P =
      match loadAdjust tgt ref true cfg.gc cfg.edge false cfg.par P.permT P.wingT P.edgeKeysT with
      | .error e => .error e
      | .ok (cnT, rfT, _) =>
        match loadAdjust anti ref false cfg.gc false cfg.rmask cfg.par P.permA P.wingA with
        | .error e => .error e
        | .ok (cnA, rfA, _) => .ok (fixCore cnT cnA rfT rfA cfg P) :=
  doFix_class_calls tgt anti ref cfg P hns

/-- a reference WITHOUT a gc column: the GC correction is skipped, `fix` with GC correction on is `fix --no-gc` -/
theorem missing_gc_column_means_no_gc_correction (tgt anti : List SRow) (ref : List RRow) (cfg : FixCfg) (P : FixParams)
    (h : ∀ r ∈ ref, r.gc = none) :
    doFix tgt anti ref { cfg with gc := true } P = doFix tgt anti ref { cfg with gc := false } P :=
  doFix_gc_skipped tgt anti ref cfg P h

/-- a reference WITHOUT an rmask column: `fix` with the RepeatMasker correction on is `fix --no-rmask` -/
theorem missing_rmask_column_means_no_rmask_correction (tgt anti : List SRow) (ref : List RRow) (cfg : FixCfg) (P : FixParams)
    (h : ∀ r ∈ ref, r.rmask = none) :
    doFix tgt anti ref { cfg with rmask := true } P = doFix tgt anti ref { cfg with rmask := false } P :=
  doFix_rmask_skipped tgt anti ref cfg P h

/-- the same for one class of bins, any other switches -/
theorem class_missing_column_skips_correction (samp : List SRow) (ref : List RRow) (skipLow a b : Bool)
    (par : Option String) (perm : List Nat) (wing : Nat) (ek : Option (List Rat)) :
    ((∀ r ∈ ref, r.gc = none) → loadAdjust samp ref skipLow true a b par perm wing ek =
        loadAdjust samp ref skipLow false a b par perm wing ek) ∧
    ((∀ r ∈ ref, r.rmask = none) → loadAdjust samp ref skipLow a b true par perm wing ek =
        loadAdjust samp ref skipLow a b false par perm wing ek) :=
  ⟨loadAdjust_gc_skipped samp ref skipLow a b par perm wing ek, loadAdjust_rmask_skipped samp ref skipLow a b par perm wing ek⟩

/-! non-vacuity -/
example : ∀ r ∈ [(⟨"chr1", 0, 100, "A", 0, 1, none, some (1/2), 0⟩ : RRow)], r.gc = none := by decide

end CnvVerif.C04
