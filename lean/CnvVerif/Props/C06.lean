/-
  C06 — interval arithmetic (merge / flatten / subtract / trimmed intersection / subdivide /
  resize) is base-exact.  Property theorems only; helper lemmas live in Lemmas/.
-/
import CnvVerif.Model.Interval
import CnvVerif.Model.IntervalSpec
import CnvVerif.Lemmas.Interval
import CnvVerif.Lemmas.Interval2
import CnvVerif.Lemmas.IntervalTable
import CnvVerif.Lemmas.IntersectCov
import CnvVerif.Lemmas.FlattenCov
namespace CnvVerif.C06
open CnvVerif

/-! Statements are about one chromosome's rows (`List Row`, chromosome field ignored by `cov`),
    which is what `mergeTable` / `subtractTable` / `subdivideTable` apply per `groupby` group. -/

/-- merge never loses or invents a base, for every `bp ≥ 0` -/
theorem merge_cov (bp : Int) (hbp : 0 ≤ bp) (l : List Row) (hs : StartSorted l) (p : Int) :
    cov (mergeChrom bp l) p ↔ cov l p := mergeChrom_cov bp hbp l hs p

/-- merge (bp = 0) returns sorted, positive-length, disjoint, non-abutting intervals -/
theorem merge_canonical (l : List Row) (hs : StartSorted l) (hp : ∀ r ∈ l, r.s < r.e) :
    Canon (mergeChrom 0 l) := mergeChrom_canon l hs hp

/-- "minimal": a canonical list is determined by the set of bases it covers -/
theorem canonical_unique (a b : List Row) (ha : Canon a) (hb : Canon b)
    (h : ∀ p, cov a p ↔ cov b p) : a.map ivOf = b.map ivOf := canon_unique a b ha hb h

/-- merged rows keep the first row's other fields and list every member's label once -/
theorem merge_first_fields (bp : Int) (x : Row) (xs : List Row) :
    ∃ r t, mergeChrom bp (x :: xs) = r :: t ∧ r.chrom = x.chrom ∧ r.s = x.s :=
  mergeChrom_head bp x xs

/-- subtraction of one row: exactly the bases of the row not covered by the excluded rows;
    `ex` = the (merged, hence canonical) excluded rows overlapping the keeper, as selected by the
    `outer` range query -/
theorem subtract_cov (k : Row) (ex : List Row) (hc : Canon ex)
    (ho : ∀ x ∈ ex, x.e > k.s ∧ x.s < k.e) (p : Int) :
    cov (subtractRow k ex) p ↔ (k.s ≤ p ∧ p < k.e) ∧ ¬ cov ex p := subtractRow_cov k ex hc ho p

/-- with an arbitrary subtrahend `b` (overlapping, nested, duplicated rows) on the chromosome:
    merging first and selecting the overlapping merged rows gives exact set difference -/
theorem subtract_cov_arbitrary (k : Row) (b : List Row) (hs : StartSorted b)
    (hp : ∀ r ∈ b, r.s < r.e) (p : Int) :
    cov (subtractRow k ((mergeChrom 0 b).filter (fun x => x.e > k.s && x.s < k.e))) p ↔
      (k.s ≤ p ∧ p < k.e) ∧ ¬ cov b p := subtractRow_cov_merged k b hs hp p

/-- every piece carries the other fields of the row it came from and has positive length -/
theorem subtract_pieces_carry_row (k : Row) (ex : List Row) :
    ∀ q ∈ subtractRow k ex, q.chrom = k.chrom ∧ q.gene = k.gene ∧ q.s < q.e ∨ q = k :=
  subtractRow_carry k ex

/-- subdivide: `n` consecutive bins, exact cover, sizes within one base of each other -/
theorem subdivide_exact (r : Row) (n : Nat) (hn : 2 ≤ n) (hlen : (n : Int) ≤ r.e - r.s) :
    let bins := splitInto r n
    bins.length = n ∧
    (bins.head?.map (·.s)) = some r.s ∧ (bins.getLast?.map (·.e)) = some r.e ∧
    Consecutive bins ∧
    (∀ a ∈ bins, ∀ b ∈ bins, (a.e - a.s) - (b.e - b.s) ≤ 1) ∧
    (∀ a ∈ bins, a.s < a.e ∧ a.gene = r.gene ∧ a.chrom = r.chrom) := splitInto_exact r n hn hlen

/-- the bin count the code uses is `max 1 (round (length / avg))` and `splitRow` is `splitInto` -/
theorem subdivide_count (avg : Rat) (minSize : Int) (r : Row) (h : minSize ≤ r.e - r.s)
    (hnn : 0 ≤ roundHalfEven (((r.e - r.s : Int) : Rat) / avg)) :
    splitRow avg minSize r =
      (let n := (max 1 (roundHalfEven (((r.e - r.s : Int) : Rat) / avg))).toNat
       if n = 1 then [r] else splitInto r n) := splitRow_eq avg minSize r h hnn

theorem subdivide_drops_small (avg : Rat) (minSize : Int) (r : Row) (h : r.e - r.s < minSize) :
    splitRow avg minSize r = [] := splitRow_small avg minSize r h

/-- resize: both ends move by `bp`, clipped to [0, size]; rows that shrink to nothing are dropped -/
theorem resize_spec (bp : Int) (sizes : String → Option Int) (t : Table) (q : Row) :
    q ∈ resizeTable bp sizes t ↔
      ∃ r ∈ t, q = { r with s := clipInt 0 (sizes r.chrom) (r.s - bp),
                             e := clipInt 0 (sizes r.chrom) (r.e + bp) } ∧
        (bp < 0 → q.e - q.s > 0) := resizeTable_mem bp sizes t q

theorem clip_bounds (hi : Int) (hh : 0 ≤ hi) (x : Int) :
    0 ≤ clipInt 0 (some hi) x ∧ clipInt 0 (some hi) x ≤ hi ∧
    (0 ≤ x → x ≤ hi → clipInt 0 (some hi) x = x) := clipInt_bounds hi hh x

/-! ### table level: any number of chromosomes, any row order

    The pandas-style wrappers (`sort_values`, `groupby(sort=False)`, the stable re-sort of
    chromosomes, `by_shared_chroms`, `by_ranges`) preserve the per-chromosome statements. -/

/-- merge never loses or invents a base on any chromosome, for every `bp ≥ 0` -/
theorem merge_cov_table (bp : Int) (hbp : 0 ≤ bp) (t : Table) (c : String) (p : Int) :
    cov (rowsOf (mergeTable bp t) c) p ↔ cov (rowsOf t c) p := mergeTable_cov bp hbp t c p

/-- merge (bp = 0) leaves, on every chromosome, the canonical list: sorted, positive-length,
    disjoint, non-abutting rows (unique by `canonical_unique`) -/
theorem merge_canonical_table (t : Table) (hp : ∀ r ∈ t, r.s < r.e) (c : String) :
    Canon (rowsOf (mergeTable 0 t) c) := mergeTable_canon t hp c

/-- a.subtract(b) covers, on every chromosome, exactly the bases of `a` that are not in `b` — also
    when b's intervals overlap or nest, and when a chromosome is missing from either table -/
theorem subtract_cov_table (a b : Table) (hb : ∀ r ∈ b, 0 ≤ r.s ∧ r.s < r.e)
    (ha : ∀ r ∈ a, 0 ≤ r.s ∧ r.s ≤ r.e) (c : String) (p : Int) :
    cov (rowsOf (subtractTable a b) c) p ↔ (cov (rowsOf a c) p ∧ ¬ cov (rowsOf b c) p) :=
  subtractTable_cov a b hb ha c p

/-- `intersection(mode=trim)` covers exactly a AND b: on one chromosome, a base is covered by the result iff it is
    covered by the table and by some query range -- whatever overlaps, nests or repeats on either side -/
theorem intersect_trim_cov (c : String) (table other : Table)
    (ht : ∀ r ∈ table, r.chrom = c) (ho : ∀ r ∈ other, r.chrom = c)
    (hwf : WFTable table) (hq : ∀ b ∈ other, 0 ≤ b.s) (p : Int) :
    cov (intersection table other .trim) p ↔ (cov table p ∧ cov other p) :=
  intersection_trim_cov c table other ht ho hwf hq p

/-- … each piece being a row of the table clipped to one query range, carrying that row's other fields -/
theorem intersect_trim_pieces_carry_row (c : String) (table other : Table)
    (ht : ∀ r ∈ table, r.chrom = c) (ho : ∀ r ∈ other, r.chrom = c)
    (hwf : WFTable table) (hq : ∀ b ∈ other, 0 ≤ b.s) :
    ∀ x ∈ intersection table other .trim, ∃ r ∈ table, ∃ b ∈ other,
      r.e > b.s ∧ r.s < b.e ∧ x = { r with s := max r.s b.s, e := min r.e b.e } :=
  intersection_trim_pieces c table other ht ho hwf hq

/-! ### flatten (one chromosome's rows, sorted by start; `flattenTable` applies `flattenChrom` to each chromosome) -/

/-- flatten returns pieces covering exactly the union of its input … -/
theorem flatten_cov (l : List Row) (hs : l.Pairwise (fun a b => a.s ≤ b.s)) (hwf : ∀ r ∈ l, r.s < r.e) (p : Int) :
    cov (flattenChrom l) p ↔ cov l p := flattenChrom_cov l hs hwf p

/-- … disjoint, of positive length and in order … -/
theorem flatten_disjoint (l : List Row) (hs : l.Pairwise (fun a b => a.s ≤ b.s)) (hwf : ∀ r ∈ l, r.s < r.e) :
    (∀ x ∈ flattenChrom l, x.s < x.e) ∧ (flattenChrom l).Pairwise (fun a b => a.e ≤ b.s) :=
  flattenChrom_disjoint l hs hwf

/-- … and cut at every input boundary: no input start or end lies strictly inside a piece -/
theorem flatten_cut_at_every_boundary (l : List Row) (hs : l.Pairwise (fun a b => a.s ≤ b.s))
    (hwf : ∀ r ∈ l, r.s < r.e) :
    ∀ x ∈ flattenChrom l, ∀ r ∈ l, ¬ (x.s < r.s ∧ r.s < x.e) ∧ ¬ (x.s < r.e ∧ r.e < x.e) :=
  flattenChrom_cut_at_boundaries l hs hwf

/-- the table-level function is `flattenChrom` per chromosome (unless the table is empty or already flat, when
    it is returned as it is) -/
theorem flatten_table_is_per_chromosome (t : Table) (hne : t.isEmpty = false)
    (hflat : (((t.map (·.s)).drop 1).zip (cummax (t.map (·.e)))).all (fun p => p.1 ≥ p.2) = false) :
    flattenTable t = resortChrom ((groupByChrom (sortLex t)).flatMap (fun g => flattenChrom g.2)) := by
  simp only [flattenTable, hne, hflat, flattenChrom, Bool.false_eq_true, if_false]

/-! non-vacuity: concrete inputs meeting the hypotheses, evaluated by the kernel -/
example : mergeChrom 0 [⟨"chr1", 0, 5, "a"⟩, ⟨"chr1", 3, 8, "b"⟩, ⟨"chr1", 8, 9, "c"⟩, ⟨"chr1", 12, 13, "d"⟩]
    = [⟨"chr1", 0, 9, "a,b,c"⟩, ⟨"chr1", 12, 13, "d"⟩] := by decide
example : subtractRow ⟨"chr1", 0, 100, "a"⟩ (mergeChrom 0 [⟨"chr1", 10, 50, "x"⟩, ⟨"chr1", 20, 30, "y"⟩])
    = [⟨"chr1", 0, 10, "a"⟩, ⟨"chr1", 50, 100, "a"⟩] := by decide
example : (splitInto ⟨"chr1", 10, 20, "g"⟩ 3).map (fun r => (r.s, r.e)) = [(10, 13), (13, 16), (16, 20)] := by
  decide

end CnvVerif.C06
