/-
  C07, growth round: table-level statements for ANY two tables (several chromosomes, interleaved or missing
  chromosomes, keep_empty on / off), `in_ranges` with open sides, and the VALUE `into_ranges` reports per query
  range for every summary kind.  Helper lemmas: Lemmas/RangesExt.lean, Lemmas/RangesExtSummary.lean.

  Vocabulary.  `queriesInOrder other`: the query rows in the order they are visited (grouped by chromosome in
  order of first appearance; the table itself when it has one chromosome).  `hitsOf table inner q`: the slice
  `iter_slices` computes for query row `q` among the rows of `q`'s chromosome.  `WFGenomeQ t`: within each
  chromosome sorted by start, coordinates ≥ 0, start < end (decidable; chromosomes may even interleave).
  `rangeSpec rows qs qe mode`: the property's wording — rows with `end > qs ∧ start < qe` (outer, trim) or
  `start ≥ qs ∧ end ≤ qe` (inner), `none` = open side, clipped to the query in trim mode.
-/
import CnvVerif.Model.RangesExt
import CnvVerif.Lemmas.RangesExt
import CnvVerif.Lemmas.RangesExtSummary
namespace CnvVerif.C07
open CnvVerif

/-! ### chromosome pairing -/

/-- the single-chromosome shortcut of `by_shared_chroms` yields exactly what the grouped path would -/
theorem by_shared_chroms_shortcut_unobservable (table other : Table) (ke : Bool) :
    bySharedChroms table other ke = bySharedGeneral table other ke := bySharedChroms_eq_general table other ke

/-- the visiting order loses and invents no query row -/
theorem every_query_visited_once (dest : Table) :
    (queriesInOrder dest).length = dest.length ∧ ∀ r, r ∈ queriesInOrder dest ↔ r ∈ dest :=
  ⟨length_queriesInOrder dest, mem_queriesInOrder dest⟩

theorem one_chromosome_visited_in_table_order (dest : Table) (c : String) (h : ∀ r ∈ dest, r.chrom = c) :
    queriesInOrder dest = dest := queriesInOrder_single dest c h

/-! ### `iter_ranges_of` / `iter_slices` -/

/-- keep_empty on: one slice per query row, in visiting order, each taken from the rows of the query's own
    chromosome (empty when that chromosome is missing) -/
theorem iter_ranges_of_one_slice_per_query (table other : Table) (mode : Mode) :
    iterSlices table other mode true = (queriesInOrder other).map (hitsOf table (mode == .inner)) :=
  iterSlices_keep table other mode

/-- keep_empty off: the same slices with exactly the empty ones left out -/
theorem iter_ranges_of_drops_only_empty (table other : Table) (mode : Mode) :
    iterSlices table other mode false =
      ((queriesInOrder other).map (hitsOf table (mode == .inner))).filter (fun sel => !sel.isEmpty) :=
  iterSlices_drop table other mode

/-- … and a slice is exactly the rows of the query's chromosome the property names, in table order -/
theorem slice_is_the_named_rows (source : Table) (h : WFGenomeQ source) (inner : Bool) (q : Row) (hq : 0 ≤ q.s) :
    hitsOf source inner q =
      source.filter (fun r => r.chrom == q.chrom && selFilter (some q.s) (some q.e) inner r) :=
  hitsOf_exact source h inner q hq

/-! ### `by_ranges` -/

/-- for well-formed tables of any number of chromosomes: each query row, in visiting order, paired with exactly the
    rows of its chromosome the property names (clipped in trim mode); keep_empty off drops exactly the pairs whose
    selection is empty (a chromosome missing from the queried table gives empty selections) -/
theorem by_ranges_is_the_named_rows (table other : Table) (mode : Mode) (ke : Bool) (h : WFGenomeQ table)
    (hq : ∀ b ∈ other, 0 ≤ b.s) :
    byRanges table other mode ke =
      ((queriesInOrder other).map (fun b =>
        (b, rangeSpec (table.filter (fun r => r.chrom == b.chrom)) (some b.s) (some b.e) mode))).filter
        (fun p => !p.2.isEmpty || ke) :=
  byRanges_exact table other mode ke h hq

/-! ### `intersection` -/

/-- for ANY two tables, all three modes: the concatenation of each query's selection among the rows of its own
    chromosome, queries in visiting order (repeated / overlapping queries repeat rows) -/
theorem intersection_concatenates_per_query (table other : Table) (mode : Mode) :
    intersection table other mode =
      (queriesInOrder other).flatMap (fun b =>
        selectRange (table.filter (fun r => r.chrom == b.chrom)) (some b.s) (some b.e) mode) :=
  intersection_per_query table other mode

theorem intersection_is_the_named_rows (table other : Table) (mode : Mode) (h : WFGenomeQ table)
    (hq : ∀ b ∈ other, 0 ≤ b.s) :
    intersection table other mode =
      (queriesInOrder other).flatMap (fun b =>
        rangeSpec (table.filter (fun r => r.chrom == b.chrom)) (some b.s) (some b.e) mode) :=
  intersection_exact table other mode h hq

/-! ### `in_ranges` -/

/-- several ranges, either side possibly open for all of them: the per-range selections (clipped in trim
    mode) concatenated in the order the ranges were given -/
theorem in_ranges_concatenates_in_query_order (t : Table) (chrom : Option String)
    (starts ends : Option (List Int)) (mode : Mode)
    (h : WFTable (chromRows t chrom)) (hq : ∀ ss, starts = some ss → ∀ s ∈ ss, 0 ≤ s) :
    inRangesOpt t chrom starts ends mode =
      (zipBounds starts ends).flatMap (fun q => rangeSpec (chromRows t chrom) q.1 q.2 mode) :=
  inRangesOpt_exact t chrom starts ends mode h hq

/-! ### `into_ranges`: one value per query range, and which value -/

theorem into_ranges_one_value_per_range (source dest : Table) (col : Row → Val) (d : Val) (s : Summary) :
    (intoRanges source dest col d s).length = dest.length := intoRanges_length' source dest col d s

/-- an empty source, or a column the table does not have: the default for every range -/
theorem into_ranges_empty_source (dest : Table) (col : Row → Val) (d : Val) (s : Summary) :
    intoRanges [] dest col d s = dest.map (fun _ => d) := rfl

theorem into_ranges_missing_column (source dest : Table) (d : Val) (s : Summary) :
    intoRangesGA source dest none d s = dest.map (fun _ => d) := rfl

/-- the value of each query range: `series2value` of the cells of the rows it hits (outer), with the summary
    chosen once from the first cell of the column -/
theorem into_ranges_value (r0 : Row) (rest dest : Table) (col : Row → Val) (d : Val) (s : Summary) :
    intoRanges (r0 :: rest) dest col d s =
      (queriesInOrder dest).map (fun q =>
        seriesToValue d (pickSummary s (col r0)) ((hitsOf (r0 :: rest) false q).map col)) :=
  intoRanges_per_query r0 rest dest col d s

/-- … in the property's own words (and those of the oracle the driver evaluates on the REAL output): the rows hit
    are those of the query's chromosome with `end > query start` and `start < query end` -/
theorem into_ranges_value_in_property_words (r0 : Row) (rest dest : Table) (col : Row → Val) (d : Val)
    (s : Summary) (h : WFGenomeQ (r0 :: rest)) (hq : ∀ q ∈ dest, 0 ≤ q.s) :
    intoRanges (r0 :: rest) dest col d s =
      (queriesInOrder dest).map (fun q =>
        seriesToValue d (pickSummary s (col r0)) ((selectSpec (r0 :: rest) q.chrom q.s q.e .outer).map col)) :=
  intoRanges_spec r0 rest dest col d s h hq

/-- the default where nothing overlaps -/
theorem value_default_when_no_hit (d : Val) (f : List Val → Val) : seriesToValue d f [] = d := rfl

/-- the value itself for a single hit — whatever the summary -/
theorem value_itself_for_single_hit (d v : Val) (f : List Val → Val) : seriesToValue d f [v] = v := rfl

/-- two or more hits: the summary of all hit cells in table order -/
theorem value_summary_for_several_hits (d v w : Val) (vs : List Val) (f : List Val → Val) :
    seriesToValue d f (v :: w :: vs) = f (v :: w :: vs) := rfl

/-- default summary on a string column: the distinct strings, comma-joined … -/
theorem strings_are_comma_joined_distinct (x : String) (vs : List Val) :
    pickSummary .auto (.str x) vs = .str (",".intercalate ((vs.map Val.text).eraseDups)) := rfl

/-- … where "distinct" keeps every string once, in order of first appearance among the hits -/
theorem distinct_strings_in_order (l : List String) :
    l.eraseDups.Nodup ∧ l.eraseDups.Sublist l ∧ ∀ x, x ∈ l.eraseDups ↔ x ∈ l :=
  ⟨rx_nodup_eraseDups l, rx_eraseDups_sublist l, fun _ => List.mem_eraseDups⟩

theorem distinct_strings_unchanged (l : List String) (h : l.Nodup) :
    joinStrings l = ",".intercalate l := by
  unfold joinStrings; rw [rx_eraseDups_of_nodup l h]

theorem same_string_reported_once (l : List String) (c : String) (h : ∀ x ∈ l, x = c) (hne : l ≠ []) :
    joinStrings l = c := rx_joinStrings_const l c h hne

/-- default summary on a floating-point column (first cell a float or NaN): the median of the non-NaN cells -/
theorem floats_are_summarised_by_nanmedian (first : Val) (hf : first = .nan ∨ ∃ q, first = .num q)
    (vs : List Val) : pickSummary .auto first vs = nanMedian vs := by
  rcases hf with rfl | ⟨q, rfl⟩ <;> rfl

theorem nanmedian_is_median_of_finite_cells (vs : List Val) (x : Rat) (xs : List Rat)
    (h : vs.filterMap Val.finite? = x :: xs) : nanMedian vs = .num (medianQ (x :: xs)) :=
  nanMedian_of_finite vs x xs h

theorem nanmedian_all_nan (vs : List Val) (h : ∀ v ∈ vs, v.finite? = none) : nanMedian vs = .nan :=
  nanMedian_all_nan vs h

/-- the median is the middle order statistic (mean of the two middle ones for an even count) … -/
theorem median_of_ascending_values (l : List Rat) (h : l.Pairwise (· ≤ ·)) : medianQ l =
    if l.length % 2 = 1 then l.getD (l.length / 2) 0
    else (l.getD (l.length / 2 - 1) 0 + l.getD (l.length / 2) 0) / 2 := medianQ_of_sorted l h

/-- … of the values in ANY order (so the order of the hits is immaterial), and lies within their range -/
theorem median_order_immaterial (l₁ l₂ : List Rat) (hp : l₁.Perm l₂) : medianQ l₁ = medianQ l₂ :=
  medianQ_eq_of_perm hp

theorem median_within_range (l : List Rat) (hl : l ≠ []) (lo hi : Rat) (h : ∀ x ∈ l, lo ≤ x ∧ x ≤ hi) :
    lo ≤ medianQ l ∧ medianQ l ≤ hi := medianQ_mem_range l hl lo hi h

/-- default summary on any other column (integers, booleans): the first hit, by position -/
theorem other_columns_take_first_hit (n : Int) (v : Val) (vs : List Val) :
    pickSummary .auto (.int n) (v :: vs) = v := rfl

/-- a non-callable `summary_func` is the value reported wherever several rows hit; a callable is applied -/
theorem constant_summary (c first : Val) (vs : List Val) : pickSummary (.const c) first vs = c := rfl

theorem supplied_function_is_applied (f : List Val → Val) (first : Val) (vs : List Val) :
    pickSummary (.func f) first vs = f vs := rfl

/-! ### non-vacuity -/

/-- two chromosomes interleaved, nested rows on chr1 -/
example : WFGenomeQ [⟨"chr1", 0, 100, "a"⟩, ⟨"chr2", 5, 9, "x"⟩, ⟨"chr1", 10, 20, "b"⟩, ⟨"chr1", 30, 40, "c"⟩] := by
  decide

example : intersection [⟨"chr1", 0, 100, "a"⟩, ⟨"chr1", 10, 20, "b"⟩, ⟨"chr2", 5, 9, "x"⟩]
    [⟨"chr2", 0, 7, "q"⟩, ⟨"chr1", 15, 50, "r"⟩, ⟨"chr3", 0, 9, "s"⟩] .trim
    = [⟨"chr2", 5, 7, "x"⟩, ⟨"chr1", 15, 50, "a"⟩, ⟨"chr1", 15, 20, "b"⟩] := by decide

example : intoRanges [⟨"chr1", 1, 2, "a0"⟩, ⟨"chr1", 5, 6, "a1"⟩, ⟨"chr1", 8, 9, "a0"⟩]
    [⟨"chr1", 0, 6, "s0"⟩, ⟨"chr1", 6, 7, "s1"⟩, ⟨"chr1", 7, 9, "s2"⟩, ⟨"chr1", 0, 9, "s3"⟩]
    (fun r => .str r.gene) (.str "-") .auto = [.str "a0,a1", .str "-", .str "a0", .str "a0,a1"] := by decide

end CnvVerif.C07
