/-
  C12: tie to the source TEXT (`shorten_labels`, `shortest_name`).  The definitions `Generated.src_shorten_labels_*` and
  `src_shortest_name*` of Generated/ExprsShorten.lean are re-read from /repo's cnvlib/target.py on every run by
  harness/shortentrans.py (generator loop over sets of names); these theorems state that the hand-written model
  functions ARE those definitions, for all arguments.  `filter_names` enters as `filterNames`, tied by
  Props/C12SrcNames.
-/
import CnvVerif.Props.C12
import CnvVerif.Lemmas.SrcBinsShorten
namespace CnvVerif.C12
open CnvVerif CnvVerif.Generated

/-- the model of `shorten_labels` IS the source's loop: initial state, one step per label, emission after the loop -/
theorem shorten_labels_is_the_source_loop (labels : List String) :
    shortenLabels labels =
      Py.genLoop (fun st l => src_shorten_labels_step filterNames shortestNames st.1 st.2 l)
        (fun st => src_shorten_labels_final filterNames shortestNames st.1 st.2) src_shorten_labels_init labels :=
  Src.c12n_shortenLabels_is_source labels

/-- `set(label.rstrip().split(","))` as the source spells it is the model's `labelNames` -/
theorem label_names_is_the_source (label : String) :
    C12N.pySet (C12N.pySplit ',' (C12N.pyRstrip label)) = labelNames label := Src.c12n_labelNames_is_prims label

/-- the `DB|accession` trimming of `shortest_name` IS the source's `if len(name) > 2 and "|" in name[1:-1]: …` -/
theorem pipe_trim_is_the_source (name : String) : pipeTrim name = src_shortest_name_trim name :=
  Src.c12n_pipeTrim_is_source name

/-- `shortest_name`: the model's candidates are the source's `min(filter_names(names), key=len)` candidates, trimmed -/
theorem shortest_names_is_the_source (names : List String) :
    shortestNames names = (src_shortest_name filterNames names).eraseDups := Src.c12n_shortestNames_is_source names

end CnvVerif.C12
