/-
  C04 — "carries a per-bin weight in [0.0001, 1] that never decreases with bin size nor increases with reference spread":
  the clauses stated BETWEEN THE ROWS OF ONE OUTPUT TABLE (the existing `weight_mono_size` / `weight_antitone_spread` are
  about the one-bin formula `weightOf`; `weight_column_is_the_formula` shows that `apply_weights` evaluates exactly that
  formula on every row), and the exact values on degenerate inputs.  Proofs in Lemmas/FixWeights.lean.
-/
import CnvVerif.Props.C04
import CnvVerif.Lemmas.FixWeights
namespace CnvVerif.C04
open CnvVerif

/-- `apply_weights`, row by row: the one-bin formula with the table's pooled-or-flat verdict, the row's reference spread
    and sqrt(size), the mean sqrt(size) of the row's class and the residual variance of the row's class -/
theorem weight_column_is_the_formula (rows : List (SRow × RRow × Rat)) (varT varA : Rat) :
    applyWeights rows varT varA = rows.map (fun p =>
      weightOf (pooledRef rows) p.2.1.spread p.2.2 (classMean rows (isAntiRow p.1)) (if isAntiRow p.1 then varA else varT)) :=
  applyWeights_eq rows varT varA

/-- within one output table: of two bins of the same class with the same reference spread, the larger never weighs less
    (bins have positive size; the residual variances are squares) -/
theorem weight_never_decreases_with_bin_size (rows : List (SRow × RRow × Rat)) (varT varA : Rat) (hv : 0 ≤ varT ∧ 0 ≤ varA)
    (hpos : ∀ p ∈ rows, 0 < p.2.2) (i j : Nat) (hi : i < rows.length) (hj : j < rows.length)
    (hcls : isAntiRow rows[i].1 = isAntiRow rows[j].1) (hsp : rows[i].2.1.spread = rows[j].2.1.spread)
    (hle : rows[i].2.2 ≤ rows[j].2.2)
    (hi' : i < (applyWeights rows varT varA).length) (hj' : j < (applyWeights rows varT varA).length) :
    (applyWeights rows varT varA)[i] ≤ (applyWeights rows varT varA)[j] :=
  applyWeights_mono_size rows varT varA hv hpos i j hi hj hcls hsp hle hi' hj'

/-- within one output table: of two bins of the same class and size, the one with the larger reference spread never
    weighs more -/
theorem weight_never_increases_with_reference_spread (rows : List (SRow × RRow × Rat)) (varT varA : Rat)
    (i j : Nat) (hi : i < rows.length) (hj : j < rows.length)
    (hcls : isAntiRow rows[i].1 = isAntiRow rows[j].1) (hsz : rows[i].2.2 = rows[j].2.2)
    (h0 : 0 ≤ rows[i].2.1.spread) (hle : rows[i].2.1.spread ≤ rows[j].2.1.spread)
    (hi' : i < (applyWeights rows varT varA).length) (hj' : j < (applyWeights rows varT varA).length) :
    (applyWeights rows varT varA)[j] ≤ (applyWeights rows varT varA)[i] :=
  applyWeights_antitone_spread rows varT varA i j hi hj hcls hsz h0 hle hi' hj'

/-- degenerate references: all spreads (at most epsilon ≈) zero — flat, or built from one sample — or all log2 whole
    numbers: never treated as pooled, every weight is the clipped size/variance term `1 − var/(√size/mean √size)` -/
theorem flat_reference_weights (rows : List (SRow × RRow × Rat)) (varT varA : Rat)
    (h : (∀ p ∈ rows, p.2.1.spread ≤ Generated.WEIGHT_EPSILON) ∨ (∀ p ∈ rows, ∃ n : Int, p.2.1.log2 = (n : Rat))) :
    applyWeights rows varT varA = rows.map (fun p =>
      clipQ Generated.WEIGHT_EPSILON Generated.WEIGHT_MAX
        (1 - (if isAntiRow p.1 then varA else varT) / (p.2.2 / classMean rows (isAntiRow p.1)))) := by
  have hp : pooledRef rows = false := by
    rcases h with h | h
    · exact pooledRef_false_of_no_spread rows h
    · exact pooledRef_false_of_whole_log2 rows h
  rw [applyWeights_eq, hp]
  apply List.map_congr_left
  intro p _
  exact weightOf_flat _ _ _ _

/-- a class without residual spread (variance 0): weight exactly 1 on every bin with a flat reference, and the clipped
    `0.9·(1 − spread²) + 0.1` with a pooled one — the bin size plays no part -/
theorem zero_variance_weights (spread sq m : Rat) :
    weightOf false spread sq m 0 = 1 ∧
    weightOf true spread sq m 0 = clipQ Generated.WEIGHT_EPSILON Generated.WEIGHT_MAX
      (Generated.WEIGHT_REF_EMPHASIS * (1 - spread ^ 2) + (1 - Generated.WEIGHT_REF_EMPHASIS)) :=
  ⟨weightOf_zero_variance_flat spread sq m, weightOf_zero_variance_pooled spread sq m⟩

/-- a class with exactly one bin: its own sqrt(size) is the class mean, so its weight does not depend on its size -/
theorem single_bin_class_weight (rows : List (SRow × RRow × Rat)) (p : SRow × RRow × Rat) (pooled : Bool) (v : Rat)
    (h : rows.filter (fun q => isAntiRow q.1 == isAntiRow p.1) = [p]) (hsq : p.2.2 ≠ 0) :
    weightOf pooled p.2.1.spread p.2.2 (classMean rows (isAntiRow p.1)) v = weightOf pooled p.2.1.spread 1 1 v := by
  rw [classMean_single rows p h]
  exact weightOf_single_bin_class pooled _ _ v hsq

/-! non-vacuity -/
example : pooledRef [((⟨"chr1", 0, 100, "A", 0, 1⟩ : SRow), (⟨"chr1", 0, 100, "A", 1/2, 1, none, none, 1/5⟩ : RRow), (10 : Rat))] = true := by
  decide +kernel
example : pooledRef [((⟨"chr1", 0, 100, "A", 0, 1⟩ : SRow), (⟨"chr1", 0, 100, "A", -1, 1, none, none, 1/5⟩ : RRow), (10 : Rat))] = false := by
  decide +kernel
example : weightOf true (1/2) 10 10 (1/100) < weightOf true (1/2) 20 10 (1/100) := by decide +kernel

end CnvVerif.C04
