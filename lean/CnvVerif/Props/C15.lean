/-
  C15 — centring is a uniform shift zeroing the autosomes; sample sex is inferred right.
  Property theorems only; proofs in Lemmas/Center.lean.
-/
import CnvVerif.Model.Center
import CnvVerif.Lemmas.Center
namespace CnvVerif.C15
open CnvVerif

/-- center_all adds ONE constant to every bin and touches nothing else -/
theorem center_uniform_shift (est : List Rat → Rat) (byChrom skipLow : Bool) (par : Option String)
    (t : List CBin) :
    centerAll est byChrom skipLow par t =
      t.map (fun b => { b with log2 := b.log2 + centerShift est byChrom skipLow par t }) :=
  centerAll_uniform_shift est byChrom skipLow par t

/-- … so differences between bins are untouched -/
theorem center_keeps_differences (est : List Rat → Rat) (byChrom skipLow : Bool) (par : Option String)
    (t : List CBin) (i j : Nat) (hi : i < t.length) (hj : j < t.length)
    (hi' : i < (centerAll est byChrom skipLow par t).length)
    (hj' : j < (centerAll est byChrom skipLow par t).length) :
    ((centerAll est byChrom skipLow par t)[i]).log2 - ((centerAll est byChrom skipLow par t)[j]).log2
      = (t[i]).log2 - (t[j]).log2 := centerAll_differences est byChrom skipLow par t i j hi hj hi' hj'

/-- … and the chosen estimator of the selected (autosomal, optionally non-null) bins — per chromosome
    first, then across chromosomes, or over all bins — becomes zero, for EVERY estimator that moves
    with the data (median, mean, biweight location, KDE mode) -/
theorem center_zeroes_estimator (est : List Rat → Rat) (he : TransEquiv est) (byChrom : Bool)
    (sel : List CBin) (hsel : sel ≠ []) :
    est (centerValues est byChrom
          (sel.map (fun b => { b with log2 := b.log2 + (-(est (centerValues est byChrom sel))) }))) = 0 :=
  CnvVerif.center_zeroes_estimator est he byChrom sel hsel

/-- median and mean do move with the data (biweight and mode are parameters of the model; their
    equivariance is C19's subject) -/
theorem median_moves_with_data : TransEquiv medianR := medianR_transEquiv
theorem mean_moves_with_data : TransEquiv meanR := meanR_transEquiv

/-- which bins are "autosomal": names `(chr)?digits`; all bins when no name looks like that; PAR-X
    counted when a diploid-PAR genome is named -/
theorem autosomes_rule (first : String) (par : Option String) (t : List CBin)
    (h : ∃ b ∈ t, isAutosomeName b.chrom = true) (b : CBin) :
    b ∈ autosomesOf first par t ↔ b ∈ t ∧ (isAutosomeName b.chrom = true ∨
      ∃ g, par = some g ∧ b.chrom = xLabel first ∧ inPar g "PAR1X" "PAR2X" b.s b.e = true) :=
  autosomesOf_some first par t h b

theorem autosomes_none_named (first : String) (par : Option String) (t : List CBin)
    (h : ∀ b ∈ t, isAutosomeName b.chrom = false) : autosomesOf first par t = t :=
  autosomesOf_none first par t h

theorem autosome_name_examples :
    isAutosomeName "chr12" = true ∧ isAutosomeName "7" = true ∧ isAutosomeName "chrX" = false ∧
    isAutosomeName "X" = false ∧ isAutosomeName "chr1_random" = false ∧ isAutosomeName "chr" = false ∧
    isAutosomeName "" = false ∧ isAutosomeName "chrM" = false := isAutosomeName_examples

/-- shift_xx moves only chrX, by −1 / +1 / 0 according to (sample sex, reference sex) … -/
theorem shift_xx_table (hapX isXX : Bool) (t : List CBin) :
    shiftXX hapX isXX t = t.map (fun b =>
      if b.chrom == xLabel ((t.head?.map (·.chrom)).getD "")
      then { b with log2 := b.log2 + (if isXX && hapX then -1 else if !isXX && !hapX then 1 else 0) }
      else b) := shiftXX_spec hapX isXX t

/-- … which brings a chrX sitting at its expected level to the autosomal level -/
theorem shift_xx_brings_x_to_autosomal_level (hapX isXX : Bool) :
    expectedX hapX isXX + (if isXX && hapX then -1 else if !isXX && !hapX then 1 else 0) = 0 :=
  shiftXX_levels hapX isXX

/-- expect_flat_log2 is 0 on autosomes, −1 on Y, and −1 on X only for a male reference -/
theorem expect_flat_table (hapX : Bool) (par : Option String) (t : List CBin) :
    expectFlat hapX par t = t.map (fun b =>
      let first := (t.head?.map (·.chrom)).getD ""
      let cls := classOf first par b.chrom b.s b.e
      if hapX then (if cls = .x ∨ cls = .y then (-1 : Rat) else 0)
      else (if b.chrom = yLabel first then (-1 : Rat) else 0)) := expectFlat_spec hapX par t

/-- sex inference, noise-free case (partial: under noise the claim is statistical and is covered by an
    oracle run on the real code only): a sample whose chrX — and chrY, if present — sit at the levels
    expected for its sex relative to the stated reference sex is inferred as that sex -/
theorem sex_inferred_ideal_partial (hapX female : Bool) (a : Rat) (y : Option Rat)
    (hy : female = false → y = none ∨ y = some 0) :
    isMale (idealCmp a (a + expectedX hapX female) (xShifts hapX).1)
           (idealCmp a (a + expectedX hapX female) (xShifts hapX).2)
           (y.map fun yl => (idealCmp a (a + yl) yShifts.1, idealCmp a (a + yl) yShifts.2))
      = !female := sex_ideal hapX female a y hy

/-! non-vacuity (string-free: kernel evaluation of `String` primitives is not available) -/
example : meanR [1, 2, 6] = 3 := by decide +kernel
example : isMale (idealCmp 0 (0 + expectedX true false) (xShifts true).1)
                 (idealCmp 0 (0 + expectedX true false) (xShifts true).2) none = true := by decide +kernel

end CnvVerif.C15
