/-
  C18: tie to the source TEXT of `_choose_samples` (skgenome/tabio/vcfio.py).  `Generated.src_choose_samples_pairs` -- the
  order in which the function builds its `pairs` list (declared pairs, else the others with the given normal, else all
  unpaired), filters it by `sample_id`, raises / salvages when nothing is left, checks uniqueness and returns the first pair --
  is re-read from /repo on every run (harness/pipetrans.py, extractor vcf_choose).  The theorem states that `chooseNamesH` of
  Model/VcfPairs.lean IS that structure once each parameter is read on the model's data as `SrcChoose.*` below say.
  (`chooseNamesH` first re-checks that the given ids name a sample column: that is the `for sid in (sample_id, normal_id)`
  loop BEFORE `pairs = None`, which this reader does not read.)
-/
import CnvVerif.Model.VcfPairs
import CnvVerif.Generated.VcfChoose
namespace CnvVerif.C18
open CnvVerif CnvVerif.Vcf

namespace SrcChoose
abbrev Pairs := List (Option String × Option String)
abbrev Outcome := Except VErr (Option String × Option String)

/-- `[(oid, normal_id) for oid in [s for s in vcf_samples if s != normal_id]]` (only asked under `elif normal_id:`) -/
def othersWithNormal (samples : List String) (nid : Option String) : Pairs :=
  match truthy nid with
  | some n => (samples.filter (fun s => s != n)).map (fun o => (some o, some n))
  | none => []
/-- `[(sid, None) for sid in vcf_samples]` -/
def allUnpaired (samples : List String) : Pairs := samples.map (fun s => (some s, none))
/-- `[(s, n) for s, n in pairs if s == sample_id]` -/
def keepSample (sid : Option String) (ps : Pairs) : Pairs := ps.filter (fun p => p.1 == sid)
/-- `for sid in set(chain(*pairs)) - {None}: _confirm_unique(sid, vcf_samples)`, then the rest -/
def confirmUnique (samples : List String) (ps : Pairs) (rest : Outcome) : Outcome :=
  if !((pairNames ps).all (fun nm => samples.count nm == 1)) then .error .indexError else rest
/-- `sid, nid = pairs[0]; return sid, nid` -/
def firstPair (ps : Pairs) : Outcome :=
  match ps.head? with
  | some p => .ok p
  | none => .error .indexError
end SrcChoose

theorem truthy_some_eq (x : Option String) (s : String) (h : truthy x = some s) : x = some s := by
  cases x with
  | none => simp [truthy] at h
  | some y =>
    simp only [truthy] at h
    split at h
    · cases h
    · exact h

/-- `_choose_samples` after its selector checks IS the source's sequence of steps -/
theorem choose_samples_steps_are_the_source (samples : List String) (dp : List DPair) (sid nid : Option String) :
    chooseNamesH samples dp sid nid =
      if !(selOk samples sid && selOk samples nid) then .error .indexError else
      Generated.src_choose_samples_pairs (P := SrcChoose.Pairs) (R := SrcChoose.Outcome)
        (!dp.isEmpty) (truthy nid).isSome (truthy sid).isSome
        [] (dp.map (fun p => (p.1, some p.2))) (SrcChoose.othersWithNormal samples nid) (SrcChoose.allUnpaired samples)
        [(sid, none)] (SrcChoose.keepSample sid) (fun ps => !ps.isEmpty) (SrcChoose.confirmUnique samples)
        (.error .indexError) SrcChoose.firstPair := by
  unfold chooseNamesH Generated.src_choose_samples_pairs
  by_cases h1 : (selOk samples sid && selOk samples nid) = true
  case neg => simp [h1]
  simp only [h1, Bool.not_true, Bool.false_eq_true, if_false]
  have hc : candidatePairsH samples dp nid =
      (if (!dp.isEmpty) = true then dp.map (fun p => (p.1, some p.2))
       else if (truthy nid).isSome = true then SrcChoose.othersWithNormal samples nid else SrcChoose.allUnpaired samples) := by
    unfold candidatePairsH candidatePairs SrcChoose.othersWithNormal SrcChoose.allUnpaired
    cases dp.isEmpty <;> cases truthy nid <;> simp
  rw [hc]
  generalize (if (!dp.isEmpty) = true then dp.map (fun p => (p.1, some p.2))
       else if (truthy nid).isSome = true then SrcChoose.othersWithNormal samples nid else SrcChoose.allUnpaired samples)
    = pairs0
  cases hts : truthy sid with
  | none =>
    cases h : pairs0.isEmpty <;>
      simp [h, SrcChoose.confirmUnique, SrcChoose.firstPair] <;> rfl
  | some s =>
    have hs := truthy_some_eq sid s hts
    subst hs
    cases h : (pairs0.filter (fun p => p.1 == some s)).isEmpty <;>
      simp [h, SrcChoose.keepSample, SrcChoose.confirmUnique, SrcChoose.firstPair] <;> rfl

/-- non-vacuity: the generated steps on a two-sample file with a normal id, and the refusal when nothing is left -/
example : chooseNamesH ["N", "T"] [] none (some "N") = .ok (some "T", some "N") := by rfl
example : chooseNamesH ["N"] [] none (some "N") = .error .indexError := by rfl
example : chooseNamesH ["N", "T"] [] (some "N") (some "N") = .ok (some "N", none) := by rfl

end CnvVerif.C18
