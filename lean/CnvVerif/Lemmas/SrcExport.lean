/-
  The hand-written C20 model functions equal the row functions the translator reads off the current source
  (Generated/ExprsExport.lean, regenerated from /repo on every run; reading rules: harness/exprtrans.py, class RowFn).
-/
import CnvVerif.Generated.ExprsExport
import CnvVerif.Model.ExportExt
import CnvVerif.Lemmas.Export
set_option linter.unusedTactic false
set_option linter.unreachableTactic false
set_option linter.unusedSimpArgs false
namespace CnvVerif.Src
open CnvVerif CnvVerif.Export CnvVerif.Generated

theorem bedRow_is_source (cfg : Cfg) (first : String) (label : Option String) (sh : ShowMode) (r : Seg) :
    (if bedKeep cfg first sh r then some (bedCells (bedRowOf cfg first label r)) else none) =
      src_export_bed_row cfg.hasCn r.chrom r.s r.e r.gene r.cn (label.getD "") (showText sh) (cfg.ploidy : Int)
        (absoluteCol cfg first r) (expectOf cfg first r) := by
  have he : expectedCopies cfg first r = expectOf cfg first r := by
    rw [expectOf_eq]
  unfold src_export_bed_row bedKeep bedCells bedRowOf bedLabel ncopiesOf absoluteCol
  cases sh <;> cases label <;> cases h : cfg.hasCn <;> simp [showText, he, h]

theorem ic4 (a b : String) : ":".intercalate ["0/1", "0", a, b] = "0/1:0:" ++ a ++ ":" ++ b := by
  show ((("0/1" ++ ":" ++ "0") ++ ":" ++ a) ++ ":" ++ b) = _
  simp [String.append_assoc]

theorem ic2 (a b : String) : ":".intercalate [a, b] = a ++ ":" ++ b := by
  show (a ++ ":" ++ b) = _
  rfl

theorem lit01 (x : String) : "0/1:" ++ ("0:" ++ x) = "0/1:0:" ++ x := by
  rw [← String.append_assoc]; rfl

theorem icGain : ":".intercalate ["GT", "GQ", "CN", "CNQ"] = "GT:GQ:CN:CNQ" := by decide
theorem icLoss : ":".intercalate ["GT", "GQ"] = "GT:GQ" := by decide

/-- the INFO text of a record with the seven keys of `segments2vcf` -/
theorem infoText_eq (fmt : Rat → String) (v : VcfRec) (h : v.infoKeys = infoKeys) :
    infoText fmt v = ";".intercalate ["IMPRECISE", "SVTYPE=" ++ v.svtype, "END=" ++ toString v.endp,
      "SVLEN=" ++ toString v.svlen, "FOLD_CHANGE=" ++ fmt v.fold, "FOLD_CHANGE_LOG=" ++ fmt v.foldLog,
      "PROBES=" ++ toString v.probes] := by
  simp [infoText, infoValues, h, infoKeys]

/-- the decision chain of one row, for any stated copy number `nc` and expected copy number `ex` -/
theorem vcfRow_core (cfg : Cfg) (r : Seg) (fmt : Rat → String) (nc ex : Int) :
    (vcfEmit cfg
      { seg := r
        start' := if r.s == VCF_POS_REPLACE_FROM then VCF_POS_REPLACE_TO else r.s
        ncopies := nc
        expect := ex
        loss := decide (nc < ex)
        svlen := if decide (nc < ex) then (r.e - r.s) * VCF_SVLEN_LOSS_FACTOR else r.e - r.s
        svtype := if decide (nc < ex) then VCF_SVTYPE_LOSS else VCF_SVTYPE_GAIN
        format := if decide (nc < ex) then VCF_FORMAT_LOSS else VCF_FORMAT_GAIN }).map (vcfCells fmt) =
      src_segments2vcf_row true r.chrom r.s r.e r.v r.t r.probes (probesDigit cfg r) nc ex 0 0 fmt := by
  unfold src_segments2vcf_row vcfEmit
  simp only [if_true]
  by_cases hp : probesDigit cfg r = true
  · by_cases heq : nc = ex
    · simp [heq, hp]
    · rcases Int.lt_or_gt_of_ne heq with hlt | hgt
      · have hng : ¬ nc > ex := by omega
        by_cases h0 : nc = 0
        · subst h0
          simp [vcfCells, infoText, infoValues, infoKeys, heq, hp, hlt, hng, VCF_POS_REPLACE_FROM,
            VCF_POS_REPLACE_TO, VCF_SVTYPE_LOSS, VCF_SVTYPE_GAIN, VCF_SVLEN_LOSS_FACTOR, VCF_FORMAT_LOSS,
            VCF_FORMAT_GAIN, ic4, ic2, icGain, icLoss]
        · simp [vcfCells, infoText, infoValues, infoKeys, heq, hp, hlt, hng, h0, VCF_POS_REPLACE_FROM,
            VCF_POS_REPLACE_TO, VCF_SVTYPE_LOSS, VCF_SVTYPE_GAIN, VCF_SVLEN_LOSS_FACTOR, VCF_FORMAT_LOSS,
            VCF_FORMAT_GAIN, ic4, ic2, icGain, icLoss]
      · have hnl : ¬ nc < ex := by omega
        have hgt' : ex < nc := hgt
        simp [vcfCells, infoText, infoValues, infoKeys, heq, hp, hnl, hgt', VCF_POS_REPLACE_FROM,
          VCF_POS_REPLACE_TO, VCF_SVTYPE_LOSS, VCF_SVTYPE_GAIN, VCF_SVLEN_LOSS_FACTOR, VCF_FORMAT_LOSS,
          VCF_FORMAT_GAIN, ic4, ic2, icGain, icLoss]
        simp only [String.append_assoc, lit01]
  · simp [hp]

/-- the two spellings of the source (`cn` column / rounded absolute value) are one decision chain -/
theorem src_vcf_branches (c : String) (s e : Int) (v t : Rat) (p : Int) (pd : Bool) (cn ae : Int) (ab : Rat) (ex : Int)
    (fmt : Rat → String) :
    src_segments2vcf_row false c s e v t p pd cn ae ab ex fmt =
      src_segments2vcf_row true c s e v t p pd (roundHE ab) ex 0 0 fmt := by
  unfold src_segments2vcf_row
  simp only [if_true, if_false, Bool.false_eq_true]

theorem src_vcf_cn_ignores (c : String) (s e : Int) (v t : Rat) (p : Int) (pd : Bool) (cn ae : Int) (ab : Rat) (ex : Int)
    (fmt : Rat → String) :
    src_segments2vcf_row true c s e v t p pd cn ae ab ex fmt =
      src_segments2vcf_row true c s e v t p pd cn ae 0 0 fmt := by
  unfold src_segments2vcf_row
  simp only [if_true]

theorem vcfRow_is_source (cfg : Cfg) (first : String) (r : Seg) (fmt : Rat → String) :
    (vcfEmit cfg (vcfCols cfg first r)).map (vcfCells fmt) =
      src_segments2vcf_row cfg.hasCn r.chrom r.s r.e r.v r.t r.probes (probesDigit cfg r) r.cn
        (expectOf cfg first r) (absoluteCol cfg first r) (expectCol' cfg first r) fmt := by
  cases h : cfg.hasCn
  · rw [src_vcf_branches, ← vcfRow_core cfg r fmt]
    congr 2
    simp only [vcfCols, ncopiesOf, expectVcf, h, absoluteCol, expectCol', Bool.false_eq_true, if_false]
    try rfl
  · rw [src_vcf_cn_ignores, ← vcfRow_core cfg r fmt]
    congr 2
    simp only [vcfCols, ncopiesOf, expectVcf, h, if_true]

end CnvVerif.Src
