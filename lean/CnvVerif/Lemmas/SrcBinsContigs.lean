/-
  C12: `drop_noncanonical_contigs` / `compare_chrom_names` -- the hand-written model equals the expression the translators read off the current source
  (Generated/ExprsBins.lean, regenerated from /repo on every run by harness/extractors/exprs_bins.py).
  Each proof tries `rfl` first and falls back to case analysis + `simp`, so that equivalent spellings of the
  source (a flipped comparison, a negated test with swapped branches, renamed locals) keep it green.
  One lemma file and one Props module per source function group: an edit breaks exactly the obligations about it.
-/
import CnvVerif.Generated.ExprsBins
import CnvVerif.Model.Bins
import CnvVerif.Lemmas.Bins3
set_option linter.unusedTactic false
set_option linter.unreachableTactic false
set_option linter.unusedSimpArgs false
namespace CnvVerif.Src
open CnvVerif CnvVerif.Generated

/-- the contigs `drop_noncanonical_contigs` skips -/
theorem skipOf_is_source (acc tg : Table) :
    skipOf acc tg = src_chroms_to_skip isCanonicalName (chromsInOrder acc) (chromsInOrder tg) := by
  unfold skipOf src_chroms_to_skip
  first
  | rfl
  | (simp only [List.filter_filter, gt_iff_lt, ge_iff_le, Bool.not_not, Bool.and_comm, Nat.lt_iff_add_one_le,
       Bool.not_eq_true', Bool.not_eq_false', decide_not, Nat.not_le, Nat.not_lt]
     cases h : (chromsInOrder tg).any isCanonicalName <;> simp [h, List.filter_filter, Bool.and_comm, Nat.lt_iff_add_one_le])

/-- when `compare_chrom_names` refuses -/
theorem chromNamesClash_is_source (a b : Table) :
    chromNamesClash a b = src_chrom_names_clash (chromsInOrder a) (chromsInOrder b) := by
  unfold chromNamesClash src_chrom_names_clash
  first
  | rfl
  | (cases h : chromsInOrder a <;> simp [Bool.and_comm])

end CnvVerif.Src
