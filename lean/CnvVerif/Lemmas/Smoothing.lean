/-
  Lemmas behind Props/C19.lean, part 4: smoothers (window geometry, output length, constant signals,
  range of rolling median and Kaiser smoothing, the weighted convolution quotient).
-/
import CnvVerif.Lemmas.Descriptives
import CnvVerif.Model.Smoothing
set_option linter.unusedSimpArgs false
set_option linter.unusedVariables false
namespace CnvVerif.Smooth
open CnvVerif.Desc

/-! ### window geometry -/

/-- every half-width `_width2wing` accepts is at least 1 and leaves room for the mirrored padding -/
theorem width2wing_bounds (width : Rat) (n wing : Nat) (h : width2wing width n = .ok wing) :
    1 ≤ wing ∧ wing + 1 ≤ n := by
  unfold width2wing at h
  simp only [] at h
  split at h
  · cases h
  · rename_i wing0 _
    split at h
    · rename_i hge
      injection h with h
      have : (1 : Int) ≤ min (max wing0 (Generated.MIN_WING : Int)) ((n : Int) - 1) := hge
      omega
    · cases h

theorem length_padArray (x : List Rat) (wing : Nat) (h : wing ≤ x.length) : (padArray x wing).length = x.length + 2 * wing := by
  unfold padArray
  simp [List.length_append, List.length_take, List.length_reverse, min_eq_left h]
  omega

theorem mem_padArray (x : List Rat) (wing : Nat) : ∀ v ∈ padArray x wing, v ∈ x := by
  intro v hv
  unfold padArray at hv
  rcases List.mem_append.mp hv with h | h
  · rcases List.mem_append.mp h with h | h
    · exact List.mem_of_mem_take (List.mem_reverse.mp h)
    · exact h
  · exact List.mem_reverse.mp (List.mem_of_mem_take h)

theorem padArray_replicate (n wing : Nat) (c : Rat) (h : wing ≤ n) :
    padArray (List.replicate n c) wing = List.replicate (n + 2 * wing) c := by
  unfold padArray
  rw [List.take_replicate, List.reverse_replicate, List.reverse_replicate, List.take_replicate, min_eq_left h,
    List.replicate_append_replicate, List.replicate_append_replicate]
  congr 1; omega

/-! ### rolling median -/

theorem rollingMedian_length (x : List Rat) (width : Rat) (y : List Rat) (h : rollingMedian x width = .ok y) :
    y.length = x.length := by
  unfold rollingMedian at h
  split at h
  · injection h with h; rw [← h]
  · split at h
    · cases h
    · injection h with h; rw [← h]; simp

theorem rollingMedian_in_range (x : List Rat) (width : Rat) (y : List Rat) (h : rollingMedian x width = .ok y)
    (lo hi : Rat) (hx : ∀ v ∈ x, lo ≤ v ∧ v ≤ hi) : ∀ v ∈ y, lo ≤ v ∧ v ≤ hi := by
  unfold rollingMedian at h
  split at h
  · injection h with h; rw [← h]; exact hx
  · rename_i hlen
    split at h
    · cases h
    · rename_i wing hw
      injection h with h
      obtain ⟨h1, h2⟩ := width2wing_bounds _ _ _ hw
      intro v hv
      rw [← h] at hv
      obtain ⟨i, hi', rfl⟩ := List.mem_map.mp hv
      have hi'' : i < x.length := List.mem_range.mp hi'
      apply median_mem_range
      · intro hnil
        have hl := congrArg List.length hnil
        rw [List.length_take, List.length_drop, length_padArray x wing (by omega)] at hl
        simp at hl; omega
      · intro u hu
        exact hx u (mem_padArray x wing u (List.mem_of_mem_drop (List.mem_of_mem_take hu)))

theorem rollingMedian_const (n : Nat) (c width : Rat) (y : List Rat)
    (h : rollingMedian (List.replicate n c) width = .ok y) : y = List.replicate n c := by
  have hlen := rollingMedian_length _ _ _ h
  have hr := rollingMedian_in_range _ _ _ h c c (fun v hv => by rw [(List.mem_replicate.mp hv).2]; exact ⟨le_refl _, le_refl _⟩)
  apply List.eq_replicate_iff.mpr
  refine ⟨by simpa using hlen, fun v hv => ?_⟩
  have := hr v hv
  exact le_antisymm this.2 this.1

/-! ### convolution -/

theorem convSame_length (window y : List Rat) : (convSame window y).length = y.length := by
  unfold convSame; simp

theorem dot_nil_left (b : List Rat) : dot [] b = 0 := by simp [dot]
theorem dot_cons (a b : Rat) (s t : List Rat) : dot (a :: s) (b :: t) = a * b + dot s t := by simp [dot]

theorem dot_replicate (a : List Rat) (c : Rat) : dot a (List.replicate a.length c) = c * a.sum := by
  induction a with
  | nil => simp [dot]
  | cons x t ih => rw [List.length_cons, List.replicate_succ, dot_cons, ih, List.sum_cons]; ring

/-- a non-negative window averages: the weighted sum of values in `[lo, hi]` lies in `[lo·Σw, hi·Σw]` -/
theorem dot_between (a b : List Rat) (hlen : a.length = b.length) (ha : ∀ w ∈ a, 0 ≤ w) (lo hi : Rat)
    (hb : ∀ v ∈ b, lo ≤ v ∧ v ≤ hi) : lo * a.sum ≤ dot a b ∧ dot a b ≤ hi * a.sum := by
  induction a generalizing b with
  | nil => simp [dot]
  | cons x t ih =>
    match b, hlen with
    | v :: b', hlen =>
      have hx := ha x (by simp)
      have hv := hb v (by simp)
      have := ih b' (by simpa using hlen) (fun w hw => ha w (List.mem_cons_of_mem _ hw)) (fun u hu => hb u (List.mem_cons_of_mem _ hu))
      rw [dot_cons, List.sum_cons]
      constructor <;> nlinarith [this.1, this.2, mul_le_mul_of_nonneg_left hv.1 hx, mul_le_mul_of_nonneg_left hv.2 hx]

theorem normalise_sum (w : List Rat) (h : w.sum ≠ 0) : (normalise w).sum = 1 := by
  unfold normalise
  have : ∀ (l : List Rat) (s : Rat), (l.map (· / s)).sum = l.sum / s := by
    intro l s
    induction l with
    | nil => simp
    | cons a t ih => simp only [List.map_cons, List.sum_cons, ih]; ring
  rw [this, div_self h]

theorem normalise_nonneg (w : List Rat) (hw : ∀ v ∈ w, 0 ≤ v) (hs : 0 < w.sum) : ∀ v ∈ normalise w, 0 ≤ v := by
  intro v hv
  unfold normalise at hv
  obtain ⟨u, hu, rfl⟩ := List.mem_map.mp hv
  exact div_nonneg (hw u hu) (le_of_lt hs)

theorem normalise_length (w : List Rat) : (normalise w).length = w.length := by simp [normalise]

/-- inside the support, the window sees the signal itself -/
theorem windowAt_inner (wing : Nat) (y : List Rat) (i : Nat) (h : i + 2 * wing + 1 ≤ y.length) :
    windowAt wing (zeroPad wing y) (wing + i) = (y.drop i).take (2 * wing + 1) := by
  unfold windowAt zeroPad
  rw [List.append_assoc, List.drop_append, List.length_replicate]
  have h1 : List.drop (wing + i) (List.replicate wing (0 : Rat)) = [] := by
    rw [List.drop_eq_nil_iff]; simp
  rw [h1, List.nil_append, show wing + i - wing = i by omega, List.drop_append]
  rw [List.take_append]
  have h2 : 2 * wing + 1 - (List.drop i y).length = 0 := by rw [List.length_drop]; omega
  rw [h2]
  simp

/-- the values a centred window sees in the kept part of a padded signal all come from the signal -/
theorem unpad_convSame_getElem (win sig : List Rat) (wing n : Nat) (hwin : win.length = 2 * wing + 1)
    (hsig : sig.length = n + 2 * wing) (i : Nat) (hi : i < n) :
    ∃ hlt : i < (unpad (convSame win sig) wing).length,
      (unpad (convSame win sig) wing)[i] = dot win ((sig.drop i).take (2 * wing + 1)).reverse := by
  have hlen : (unpad (convSame win sig) wing).length = n := by
    unfold unpad; rw [List.length_take, List.length_drop, convSame_length]; omega
  refine ⟨by omega, ?_⟩
  unfold unpad
  rw [List.getElem_take, List.getElem_drop]
  unfold convSame
  simp only [List.getElem_map, List.getElem_range]
  have hw : (win.length - 1) / 2 = wing := by omega
  rw [hw, windowAt_inner wing sig i (by omega)]

theorem unpad_convSame_length (win sig : List Rat) (wing n : Nat) (hsig : sig.length = n + 2 * wing) :
    (unpad (convSame win sig) wing).length = n := by
  unfold unpad; rw [List.length_take, List.length_drop, convSame_length]; omega

/-! ### Kaiser smoothing -/

theorem kaiser_length (x : List Rat) (width : Rat) (window y : List Rat) (h : kaiser x width window = .ok y) :
    y.length = x.length := by
  unfold kaiser at h
  split at h
  · injection h with h; rw [← h]
  · split at h
    · cases h
    · rename_i wing hw
      injection h with h
      obtain ⟨_, h2⟩ := width2wing_bounds _ _ _ hw
      rw [← h]
      unfold convolveUnweighted
      exact unpad_convSame_length _ _ wing x.length (length_padArray x wing (by omega))

/-- a non-negative window of positive sum keeps the smoothed values within the range of the input -/
theorem kaiser_in_range (x : List Rat) (width : Rat) (window y : List Rat) (h : kaiser x width window = .ok y)
    (hwin : ∀ wing, width2wing width x.length = .ok wing → window.length = 2 * wing + 1)
    (hnn : ∀ v ∈ window, 0 ≤ v) (hpos : 0 < window.sum)
    (lo hi : Rat) (hx : ∀ v ∈ x, lo ≤ v ∧ v ≤ hi) : ∀ v ∈ y, lo ≤ v ∧ v ≤ hi := by
  unfold kaiser at h
  split at h
  · injection h with h; rw [← h]; exact hx
  · split at h
    · cases h
    · rename_i wing hw
      injection h with h
      obtain ⟨_, h2⟩ := width2wing_bounds _ _ _ hw
      have hwl := hwin wing hw
      have hpl := length_padArray x wing (by omega)
      intro v hv
      rw [← h] at hv
      unfold convolveUnweighted at hv
      obtain ⟨i, hi', rfl⟩ := List.getElem_of_mem hv
      rw [unpad_convSame_length _ _ wing x.length hpl] at hi'
      obtain ⟨_, he⟩ := unpad_convSame_getElem (normalise window) (padArray x wing) wing x.length
        (by rw [normalise_length]; exact hwl) hpl i hi'
      rw [he]
      have hseg : (((padArray x wing).drop i).take (2 * wing + 1)).reverse.length = (normalise window).length := by
        rw [List.length_reverse, List.length_take, List.length_drop, hpl, normalise_length, hwl]; omega
      have := dot_between (normalise window) _ hseg.symm (normalise_nonneg window hnn hpos) lo hi
        (fun u hu => hx u (mem_padArray x wing u (List.mem_of_mem_drop (List.mem_of_mem_take (List.mem_reverse.mp hu)))))
      rw [normalise_sum window (ne_of_gt hpos)] at this
      constructor <;> linarith [this.1, this.2]

/-- a constant signal is reproduced by any window whose coefficients do not sum to zero -/
theorem kaiser_const (n : Nat) (c width : Rat) (window y : List Rat)
    (h : kaiser (List.replicate n c) width window = .ok y)
    (hwin : ∀ wing, width2wing width n = .ok wing → window.length = 2 * wing + 1)
    (hsum : window.sum ≠ 0) : y = List.replicate n c := by
  have hlen := kaiser_length _ _ _ _ h
  unfold kaiser at h
  split at h
  · injection h with h; rw [← h]
  · split at h
    · cases h
    · rename_i wing hw
      simp only [List.length_replicate] at hw
      injection h with h
      obtain ⟨_, h2⟩ := width2wing_bounds _ _ _ hw
      have hwl := hwin wing hw
      apply List.eq_replicate_iff.mpr
      refine ⟨by simpa using hlen, fun v hv => ?_⟩
      rw [← h] at hv
      unfold convolveUnweighted at hv
      rw [padArray_replicate n wing c (by omega)] at hv
      obtain ⟨i, hi', rfl⟩ := List.getElem_of_mem hv
      rw [unpad_convSame_length _ _ wing n (by simp)] at hi'
      obtain ⟨_, he⟩ := unpad_convSame_getElem (normalise window) (List.replicate (n + 2 * wing) c) wing n
        (by rw [normalise_length]; exact hwl) (by simp) i hi'
      rw [he, List.drop_replicate, List.take_replicate, List.reverse_replicate]
      have hmin : min (2 * wing + 1) (n + 2 * wing - i) = (normalise window).length := by
        rw [normalise_length, hwl]; omega
      rw [hmin, dot_replicate, normalise_sum window hsum]; ring

/-! ### Savitzky–Golay without weights -/

theorem iterate_length (f : List Rat → List Rat) (hf : ∀ l, (f l).length = l.length) (k : Nat) (l : List Rat) :
    (iterate f k l).length = l.length := by
  induction k generalizing l with
  | zero => rfl
  | succ n ih => unfold iterate; rw [ih, hf]

theorem savgolGeometry_wing (n : Nat) (tw : Option Rat) (ww ord it : Nat) (g : Nat × Nat × Nat × Nat)
    (h : savgolGeometry n tw ww ord it = .ok g) : 1 ≤ g.1 ∧ g.1 + 1 ≤ n := by
  unfold savgolGeometry at h
  simp only [] at h
  split at h
  · cases h
  · rename_i wing hw
    injection h with h
    rw [← h]
    exact width2wing_bounds _ _ _ hw

theorem savgol_length (x : List Rat) (tw : Option Rat) (ww ord it : Nat) (coeffs y : List Rat)
    (h : savgol x tw ww ord it coeffs = .ok y) : y.length = x.length := by
  unfold savgol at h
  split at h
  · injection h with h; rw [← h]
  · split at h
    · cases h
    · rename_i wing a b it' hg
      injection h with h
      obtain ⟨_, h2⟩ := savgolGeometry_wing _ _ _ _ _ _ hg
      simp only [] at h2
      rw [← h]
      unfold unpad
      rw [List.length_take, List.length_drop, iterate_length _ (convSame_length coeffs), length_padArray x wing (by omega)]
      omega

theorem convSame_getElem (win l : List Rat) (k : Nat) (h : k < (convSame win l).length) :
    (convSame win l)[k] = dot win (windowAt ((win.length - 1) / 2) (zeroPad ((win.length - 1) / 2) l) k).reverse := by
  have aux : ∀ (f : Nat → Rat) (n k : Nat) (h : k < ((List.range n).map f).length), ((List.range n).map f)[k] = f k := by
    intro f n k h; simp
  exact aux _ _ _ _

/-- the signal equals `c` at every position of `[a, b)` -/
def ConstOn (l : List Rat) (a b : Nat) (c : Rat) : Prop := ∀ i, a ≤ i → i < b → ∀ h : i < l.length, l[i] = c

/-- one pass with a window of half-width `hw` whose coefficients sum to 1 keeps a constant stretch
    constant, `hw` positions in from either end -/
theorem convSame_constOn (coeffs l : List Rat) (hw : Nat) (hlen : coeffs.length = 2 * hw + 1) (hsum : coeffs.sum = 1)
    (a b : Nat) (c : Rat) (hb : b ≤ l.length) (h : ConstOn l a b c) : ConstOn (convSame coeffs l) (a + hw) (b - hw) c := by
  intro k hk1 hk2 hk3
  have hw' : (coeffs.length - 1) / 2 = hw := by omega
  rw [convSame_getElem, hw']
  obtain ⟨i, rfl⟩ : ∃ i, k = hw + i := ⟨k - hw, by omega⟩
  rw [windowAt_inner hw l i (by omega)]
  have hseg : (l.drop i).take (2 * hw + 1) = List.replicate (2 * hw + 1) c := by
    apply List.eq_replicate_iff.mpr
    refine ⟨by rw [List.length_take, List.length_drop]; omega, fun v hv => ?_⟩
    obtain ⟨j, hj, rfl⟩ := List.getElem_of_mem hv
    rw [List.length_take, List.length_drop] at hj
    rw [List.getElem_take, List.getElem_drop]
    exact h (i + j) (by omega) (by omega) (by omega)
  rw [hseg, List.reverse_replicate, ← hlen, dot_replicate, hsum]; ring

theorem iterate_constOn (coeffs : List Rat) (hw : Nat) (hlen : coeffs.length = 2 * hw + 1) (hsum : coeffs.sum = 1)
    (k : Nat) (l : List Rat) (a b : Nat) (c : Rat) (hb : b ≤ l.length) (h : ConstOn l a b c) :
    ConstOn (iterate (convSame coeffs) k l) (a + k * hw) (b - k * hw) c := by
  induction k generalizing l a b with
  | zero => simpa [iterate] using h
  | succ n ih =>
    unfold iterate
    have := ih (convSame coeffs l) (a + hw) (b - hw) (by rw [convSame_length]; omega)
      (convSame_constOn coeffs l hw hlen hsum a b c hb h)
    have e1 : a + hw + n * hw = a + (n + 1) * hw := by ring
    have e2 : b - hw - n * hw = b - (n + 1) * hw := by rw [Nat.sub_sub]; congr 1; ring
    rw [e1, e2] at this
    exact this

/-- the passes reach at most `wing` positions inwards -/
theorem savgol_reach (wing windowWidth : Nat) (hodd : windowWidth % 2 = 1) :
    max 1 (min Generated.SAVGOL_MAX_ITER ((2 * wing + 1) / min windowWidth (2 * wing + 1))) *
      ((min windowWidth (2 * wing + 1) - 1) / 2) ≤ wing := by
  set ww := min windowWidth (2 * wing + 1) with hww
  have hwwpos : 0 < ww := by omega
  have hwwodd : ww % 2 = 1 := by omega
  obtain ⟨hw, hhw⟩ : ∃ hw, ww = 2 * hw + 1 := ⟨ww / 2, by omega⟩
  have hq : (2 * wing + 1) / ww * ww ≤ 2 * wing + 1 := Nat.div_mul_le_self _ _
  have hhalf : (ww - 1) / 2 = hw := by omega
  rw [hhalf]
  set q := (2 * wing + 1) / ww with hqdef
  have hqpos : 1 ≤ q := by
    rw [hqdef]; exact Nat.div_pos (by omega) hwwpos
  have hit : max 1 (min Generated.SAVGOL_MAX_ITER q) ≤ q := by
    unfold Generated.SAVGOL_MAX_ITER; omega
  have h1 : q * (2 * hw + 1) ≤ 2 * wing + 1 := by rw [← hhw]; exact hq
  have h2 : q * hw ≤ wing := by nlinarith
  exact le_trans (Nat.mul_le_mul_right _ hit) h2

/-- **constant signal**: Savitzky–Golay smoothing with coefficients summing to 1 returns the constant -/
theorem savgol_const (n : Nat) (c : Rat) (tw : Option Rat) (windowWidth ord it : Nat) (coeffs y : List Rat)
    (hodd : windowWidth % 2 = 1) (hsum : coeffs.sum = 1)
    (hlen : ∀ g, savgolGeometry n tw windowWidth ord it = .ok g → coeffs.length = g.2.1)
    (h : savgol (List.replicate n c) tw windowWidth ord it coeffs = .ok y) : y = List.replicate n c := by
  have hylen := savgol_length _ _ _ _ _ _ _ h
  unfold savgol at h
  split at h
  · injection h with h; rw [← h]
  · split at h
    · cases h
    · rename_i wing a b it' hg
      simp only [List.length_replicate] at hg
      injection h with h
      have hcl := hlen _ hg
      simp only [] at hcl
      obtain ⟨_, h2⟩ := savgolGeometry_wing _ _ _ _ _ _ hg
      simp only [] at h2
      -- read the geometry back
      unfold savgolGeometry at hg
      simp only [] at hg
      split at hg
      · cases hg
      · rename_i wing' hw'
        injection hg with hg
        simp only [Prod.mk.injEq] at hg
        obtain ⟨rfl, rfl, _, rfl⟩ := hg
        have hreach := savgol_reach wing' windowWidth hodd
        set ww := min windowWidth (2 * wing' + 1) with hww
        obtain ⟨hw, hhw⟩ : ∃ hw, ww = 2 * hw + 1 := ⟨ww / 2, by omega⟩
        have hhalf : (ww - 1) / 2 = hw := by omega
        rw [hhalf] at hreach
        set iters := max 1 (min Generated.SAVGOL_MAX_ITER ((2 * wing' + 1) / ww)) with hiters
        rw [padArray_replicate n wing' c (by omega)] at h
        have hco := iterate_constOn coeffs hw (by rw [hcl, hhw]) hsum iters (List.replicate (n + 2 * wing') c)
          0 (n + 2 * wing') c (by simp) (by intro i _ _ hi; simp)
        apply List.eq_replicate_iff.mpr
        refine ⟨by simpa using hylen, fun v hv => ?_⟩
        rw [← h] at hv
        unfold unpad at hv
        obtain ⟨j, hj, rfl⟩ := List.getElem_of_mem hv
        rw [List.getElem_take, List.getElem_drop]
        have hL : (iterate (convSame coeffs) iters (List.replicate (n + 2 * wing') c)).length = n + 2 * wing' := by
          rw [iterate_length _ (convSame_length coeffs)]; simp
        rw [List.length_take, List.length_drop, hL] at hj
        exact hco (wing' + j) (by omega) (by omega) (by rw [hL]; omega)

/-! ### Savitzky–Golay with weights -/

theorem convSameOpt_length (win : List Rat) (y : List (Option Rat)) : (convSameOpt win y).length = y.length := by
  unfold convSameOpt
  simp only []
  split
  · simp [convSame_length]
  · simp [convSame_length]

theorem cwStep_length (win : List Rat) (y : List (Option Rat)) (w : List Rat) (h : y.length = w.length) :
    (cwStep win (y, w)).1.length = w.length ∧ (cwStep win (y, w)).2.length = w.length := by
  unfold cwStep
  constructor
  · simp [convSameOpt_length, convSame_length, h]
  · simp [convSame_length]

theorem iterate_cwStep_length (win : List Rat) (k : Nat) (st : List (Option Rat) × List Rat) (h : st.1.length = st.2.length) :
    (iterate (cwStep win) k st).1.length = st.2.length := by
  induction k generalizing st with
  | zero => exact h
  | succ n ih =>
    unfold iterate
    obtain ⟨y, w⟩ := st
    have hs := cwStep_length win y w h
    rw [ih _ (by rw [hs.1, hs.2]), hs.2]

theorem rollOff_length (w : List Rat) (wing : Nat) : (rollOff w wing).length = w.length := by
  unfold rollOff; simp

theorem savgolWeighted_length (x w : List Rat) (tw : Option Rat) (ww ord it : Nat) (coeffs : List Rat)
    (y : List (Option Rat)) (hw : w.length = x.length) (h : savgolWeighted x w tw ww ord it coeffs = .ok y) :
    y.length = x.length := by
  unfold savgolWeighted at h
  split at h
  · injection h with h; rw [← h]; simp
  · split at h
    · cases h
    · rename_i wing a b it' hg
      injection h with h
      obtain ⟨_, h2⟩ := savgolGeometry_wing _ _ _ _ _ _ hg
      simp only [] at h2
      rw [← h]
      unfold unpad
      have hpx := length_padArray x wing (by omega)
      have hpw := length_padArray w wing (by omega)
      rw [List.length_take, List.length_drop,
        iterate_cwStep_length _ _ _ (by simp only [List.length_map, rollOff_length]; rw [hpx, hpw, hw])]
      simp only [rollOff_length]
      rw [hpw, hw]; omega

theorem windowAt_map_mul (wing : Nat) (w : List Rat) (c : Rat) (k : Nat) :
    windowAt wing (zeroPad wing (w.map (· * c))) k = (windowAt wing (zeroPad wing w) k).map (· * c) := by
  unfold windowAt zeroPad
  rw [List.map_take, List.map_drop]
  congr 2
  simp [List.map_append, List.map_replicate]

theorem dot_map_mul (a b : List Rat) (c : Rat) : dot a (b.map (· * c)) = dot a b * c := by
  induction a generalizing b with
  | nil => simp [dot]
  | cons x t ih =>
    cases b with
    | nil => simp [dot]
    | cons v b' => rw [List.map_cons, dot_cons, dot_cons, ih]; ring

theorem convSame_map_mul (win w : List Rat) (c : Rat) : convSame win (w.map (· * c)) = (convSame win w).map (· * c) := by
  unfold convSame
  simp only [List.length_map, List.map_map]
  apply List.map_congr_left
  intro k _
  simp only [Function.comp]
  rw [windowAt_map_mul, ← List.map_reverse, dot_map_mul]

/-- **weighted convolution of a constant signal**: each value is the quotient `D_i/N_i` with `D_i = c·N_i`;
    it is defined, and equal to the constant, exactly where the weighted window sum `N_i` is not 0 -/
theorem cwStep_const (win w : List Rat) (c : Rat) :
    (cwStep win (List.replicate w.length (some c), w)).1 =
      (convSame win w).map (fun N => if N = 0 then none else some c) := by
  unfold cwStep
  simp only []
  have hzip : (w.zip (List.replicate w.length (some c))).map (fun p => p.2.map (p.1 * ·)) = (w.map (· * c)).map some := by
    rw [List.map_map]
    apply List.ext_getElem (by simp)
    intro i h1 h2
    simp
  have hall : ((w.map (· * c)).map some).all (·.isSome) = true := by simp [List.all_eq_true]
  have hD : convSameOpt win ((w.map (· * c)).map some) = ((convSame win w).map (· * c)).map some := by
    unfold convSameOpt
    simp only []
    rw [if_pos hall, List.map_map]
    have : (Option.getD · (0 : Rat)) ∘ some = id := by funext x; rfl
    rw [show ((fun x : Option Rat => x.getD 0) ∘ some) = id from this, List.map_id, convSame_map_mul]
  rw [hzip, hD]
  apply List.ext_getElem (by simp [convSame_length])
  intro i h1 h2
  simp only [List.getElem_map, List.getElem_zip]
  split
  · rfl
  · rename_i hne
    simp only [Option.map_some]
    congr 1
    field_simp

end CnvVerif.Smooth
