/-
  Lemmas behind Props/C05.lean: the pooled reference has exactly the bins of the coverage files,
  rejects differing bins, reproduces the common profile of >= 2 samples that differ only in depth
  (spread 0), pulls a single sample half-way to the neutral pseudo-sample, and puts the sex
  chromosomes at the levels of the chosen reference sex.
-/
import CnvVerif.Model.Reference
import CnvVerif.Lemmas.Center
import CnvVerif.Lemmas.DescBiweight
set_option linter.unusedSimpArgs false
set_option linter.unusedVariables false
namespace CnvVerif.Ref
open CnvVerif

/-! ### the biweight summaries on a cohort that agrees -/

/-! helpers on the estimators -/

theorem BILOC_EPS_pos : 0 < Generated.BILOC_EPS := by unfold Generated.BILOC_EPS; norm_num
theorem BIVAR_EPS_pos : 0 < Generated.BIVAR_EPS := by unfold Generated.BIVAR_EPS; norm_num

theorem locOf_cons_cons (a b : Rat) (t : List Rat) :
    locOf (a :: b :: t) = Desc.biweightLocationCore false (a :: b :: t) none := rfl

theorem spreadOf_cons_cons (a b : Rat) (t : List Rat) (c : Rat) :
    spreadOf (a :: b :: t) c = Desc.bivarCore false (a :: b :: t) (some c) := rfl

/-- a fixed point of the step is returned at once -/
theorem bilocLoop_fixed (step : Rat → Rat) (eps : Rat) (heps : 0 ≤ eps) (fuel : Nat) (init : Rat)
    (h : step init = init) : Desc.bilocLoop step eps fuel init = init := by
  cases fuel with
  | zero => exact h
  | succ n =>
    unfold Desc.bilocLoop
    simp only [h, sub_self]
    rw [if_pos (by simpa [Desc.absR] using heps)]

/-- when the weighted deviations of the kept points cancel the step does not move -/
theorem bilocIter_fixed (c eps : Rat) (a : List Rat) (init : Rat)
    (h : ((((a.map (· - init)).filter (fun x => decide (Desc.absR (x /
        max (c * Desc.median ((a.map (· - init)).map Desc.absR)) eps) < 1))).map
        (fun x => x * Desc.biw (max (c * Desc.median ((a.map (· - init)).map Desc.absR)) eps) x)).sum = 0)) :
    Desc.bilocIter c eps a init = init := by
  rw [Desc.bilocIter_def]
  simp only []
  split
  · rfl
  · rw [h]; simp

theorem biw_neg (s x : Rat) : Desc.biw s (-x) = Desc.biw s x := by
  unfold Desc.biw Desc.sq; ring

theorem absR_neg (x : Rat) : Desc.absR (-x) = Desc.absR x := by
  rw [Desc.absR_eq_abs, Desc.absR_eq_abs, abs_neg]

theorem absR_zero : Desc.absR 0 = 0 := by simp [Desc.absR]

theorem median_pair (a b : Rat) : Desc.median [a, b] = (a + b) / 2 := by
  rcases le_total a b with h | h
  · have : Desc.sortR [a, b] = [a, b] := Desc.sortR_of_sorted (by simp [h])
    rw [Desc.median_def, this]; simp [Desc.nth]
  · have : Desc.sortR [a, b] = [b, a] := by
      rw [Desc.sortR_eq_of_perm (List.Perm.swap b a [])]
      exact Desc.sortR_of_sorted (by simp [h])
    rw [Desc.median_def, this]; simp [Desc.nth]; ring

/-- one sample only: the location of [pseudo-sample, sample] is their midpoint (open finding E) -/
theorem single_sample_halves (f v : Rat) : locOf [f, v] = (f + v) / 2 := by
  rw [locOf_cons_cons, Desc.biweightLocationCore_def]
  simp only [Option.getD_none, median_pair]
  apply bilocLoop_fixed _ _ BILOC_EPS_pos.le
  apply bilocIter_fixed
  have hd : [f, v].map (· - (f + v) / 2) = [(f - v) / 2, -((f - v) / 2)] := by
    simp only [List.map_cons, List.map_nil]
    congr 1
    · ring
    · congr 1; ring
  rw [hd]
  generalize (f - v) / 2 = δ
  generalize max (Generated.BILOC_C * Desc.median ([δ, -δ].map Desc.absR)) Generated.BILOC_EPS = s
  have hneg : Desc.absR (-δ / s) = Desc.absR (δ / s) := by rw [neg_div, absR_neg]
  by_cases hk : Desc.absR (δ / s) < 1
  · simp [List.filter_cons, hneg, hk, biw_neg]
  · simp [List.filter_cons, hneg, hk]

/-! the median of a list with one stray value -/

theorem nth_cons_replicate (x c : Rat) (k i : Nat) (h1 : 1 ≤ i) (h2 : i ≤ k) :
    Desc.nth (x :: List.replicate k c) i = c := by
  obtain ⟨j, rfl⟩ : ∃ j, i = j + 1 := ⟨i - 1, by omega⟩
  rw [Desc.nth_eq_getElem _ _ (by simp; omega)]
  simp

theorem nth_replicate_append (x c : Rat) (k i : Nat) (h : i < k) :
    Desc.nth (List.replicate k c ++ [x]) i = c := by
  rw [Desc.nth_eq_getElem _ _ (by simp; omega)]
  rw [List.getElem_append_left (by simpa using h)]
  simp

theorem median_stray (x c : Rat) (k : Nat) (hk : 2 ≤ k) : Desc.median (x :: List.replicate k c) = c := by
  rcases le_total x c with h | h
  · have hs : Desc.sortR (x :: List.replicate k c) = x :: List.replicate k c := by
      apply Desc.sortR_of_sorted
      rw [List.pairwise_cons]
      refine ⟨fun y hy => by rw [(List.mem_replicate.mp hy).2]; exact h, ?_⟩
      rw [List.pairwise_replicate]
      right; exact le_refl c
    rw [Desc.median_def, hs]
    simp only [List.length_cons, List.length_replicate]
    split
    · exact nth_cons_replicate _ _ _ _ (by omega) (by omega)
    · rw [nth_cons_replicate _ _ _ _ (by omega) (by omega), nth_cons_replicate _ _ _ _ (by omega) (by omega)]
      ring
  · have hs : Desc.sortR (x :: List.replicate k c) = List.replicate k c ++ [x] := by
      rw [Desc.sortR_eq_of_perm (l₂ := List.replicate k c ++ [x]) (by
        simpa using (List.perm_append_comm (l₁ := [x]) (l₂ := List.replicate k c)))]
      apply Desc.sortR_of_sorted
      rw [List.pairwise_append]
      refine ⟨?_, by simp, ?_⟩
      · rw [List.pairwise_replicate]; right; exact le_refl c
      · intro a ha b hb
        rw [(List.mem_replicate.mp ha).2]
        simp at hb; rw [hb]; exact h
    rw [Desc.median_def, hs]
    simp only [List.length_append, List.length_cons, List.length_replicate, List.length_nil]
    split
    · exact nth_replicate_append _ _ _ _ (by omega)
    · rw [nth_replicate_append _ _ _ _ (by omega), nth_replicate_append _ _ _ _ (by omega)]
      ring

theorem absR_div_lt_one (x s : Rat) (hs : 0 < s) : Desc.absR (x / s) < 1 ↔ Desc.absR x < s := by
  rw [Desc.absR_eq_abs, Desc.absR_eq_abs, abs_div, abs_of_pos hs, div_lt_one hs]

theorem dev_list (f v : Rat) (k : Nat) :
    (f :: List.replicate k v).map (· - v) = (f - v) :: List.replicate k 0 := by
  simp [List.map_replicate]

theorem mad_zero (f v : Rat) (k : Nat) (hk : 2 ≤ k) :
    Desc.median (((f :: List.replicate k v).map (· - v)).map Desc.absR) = 0 := by
  rw [dev_list]
  simp only [List.map_cons, List.map_replicate, absR_zero]
  exact median_stray _ _ _ hk

/-- with scale `eps` only zero deviations survive the cut -/
theorem kept_zero (f v eps : Rat) (k : Nat) (heps : 0 < eps) (hfv : f = v ∨ eps ≤ Desc.absR (f - v)) :
    ∀ x ∈ ((f :: List.replicate k v).map (· - v)).filter (fun x => decide (Desc.absR (x / eps) < 1)), x = 0 := by
  intro x hx
  rw [dev_list, List.mem_filter] at hx
  obtain ⟨hmem, hcut⟩ := hx
  rcases List.mem_cons.mp hmem with rfl | hmem
  · rcases hfv with rfl | hge
    · ring
    · have := (absR_div_lt_one _ _ heps).mp (by simpa using hcut)
      linarith
  · exact (List.mem_replicate.mp hmem).2

/-- k ≥ 2 samples with the same (centred, sex-adjusted) value `v` in a bin, next to the neutral
    pseudo-sample value `f`: the biweight location is `v` and the spread is 0 — the pseudo-sample is
    an outlier the estimator rejects (or coincides with the samples) -/
theorem identical_samples_reproduce (k : Nat) (hk : 2 ≤ k) (f v : Rat)
    (hfv : f = v ∨ (Generated.BILOC_EPS ≤ Desc.absR (f - v) ∧ Generated.BIVAR_EPS ≤ Desc.absR (f - v))) :
    locOf (f :: List.replicate k v) = v ∧
    spreadOf (f :: List.replicate k v) v = .direct 0 := by
  obtain ⟨k', rfl⟩ : ∃ k', k = k' + 2 := ⟨k - 2, by omega⟩
  constructor
  · rw [List.replicate_succ, locOf_cons_cons, ← List.replicate_succ, Desc.biweightLocationCore_def]
    simp only [Option.getD_none, median_stray _ _ _ hk]
    apply bilocLoop_fixed _ _ BILOC_EPS_pos.le
    apply bilocIter_fixed
    rw [mad_zero f v _ hk]
    have hs : max (Generated.BILOC_C * 0) Generated.BILOC_EPS = Generated.BILOC_EPS := by
      rw [mul_zero]; exact max_eq_right BILOC_EPS_pos.le
    rw [hs]
    apply Desc.sum_eq_zero_of_all_zero
    intro t ht
    obtain ⟨x, hx, rfl⟩ := List.mem_map.mp ht
    rw [kept_zero f v _ _ BILOC_EPS_pos (hfv.imp id And.left) x hx]
    ring
  · rw [List.replicate_succ, spreadOf_cons_cons, ← List.replicate_succ]
    unfold Desc.bivarCore
    simp only [Option.getD_some, mad_zero f v _ hk]
    have hs : max (Generated.BIVAR_C * 0) Generated.BIVAR_EPS = Generated.BIVAR_EPS := by
      rw [mul_zero]; exact max_eq_right BIVAR_EPS_pos.le
    rw [hs]
    have hsum : ((((f :: List.replicate (k' + 2) v).map (· - v)).filter
        (fun x => decide (Desc.absR (x / Generated.BIVAR_EPS) < 1))).map (· / Generated.BIVAR_EPS)).sum = 0 := by
      apply Desc.sum_eq_zero_of_all_zero
      intro t ht
      obtain ⟨x, hx, rfl⟩ := List.mem_map.mp ht
      rw [kept_zero f v _ _ BIVAR_EPS_pos (hfv.imp id And.right) x hx]
      simp
    rw [if_pos hsum]
    simp

/-! ### sex chromosomes -/

/-- level of chrX in a sample of the given sex, relative to its autosomes (after centring) -/
def rawX (isXX : Bool) : Rat := if isXX then 0 else -1
/-- the flat reference level of chrX for the chosen reference sex -/
def flatX (hapX : Bool) : Rat := if hapX then -1 else 0

/-- any mix of male and female normals: chrX ends 1.0 below the baseline for a male reference and
    on it for a female one -/
theorem sex_levels_x (hapX isXX : Bool) :
    sexAdjust isXX .x (flatX hapX) (rawX isXX) = (if hapX then -1 else 0) := by
  cases hapX <;> cases isXX <;> simp [sexAdjust, flatX, rawX]

/-- chrY ends at the single-copy level −1 in both references: a female sample's Y is set to −1
    whatever it held, a male sample's Y (one copy, −1) stays −1 -/
theorem sex_levels_y (isXX : Bool) (v : Rat) (hv : isXX = false → v = -1) :
    sexAdjust isXX .y (-1) v = -1 := by
  cases isXX with
  | true => simp [sexAdjust]
  | false => rw [hv rfl]; simp [sexAdjust]

/-- autosomal (and diploid-PAR) bins are left as they are -/
theorem sex_levels_auto (isXX : Bool) (v : Rat) :
    sexAdjust isXX .auto 0 v = v ∧ sexAdjust isXX .parx 0 v = v := by
  cases isXX <;> simp [sexAdjust]

/-! ### depth scale -/

/-- add a constant to the log2 of a bin -/
def shiftC (c : Rat) (b : CBin) : CBin := { b with log2 := b.log2 + c }

theorem autosomesOf_map_shift (first : String) (par : Option String) (t : List CBin) (c : Rat) :
    autosomesOf first par (t.map (shiftC c)) = (autosomesOf first par t).map (shiftC c) := by
  unfold autosomesOf
  rw [List.any_map]
  have h1 : ((fun b : CBin => isAutosomeName b.chrom) ∘ shiftC c) = fun b : CBin => isAutosomeName b.chrom := rfl
  rw [h1]
  split
  · rfl
  · rw [List.filter_map]
    rfl

theorem autosomesOf_ne_nil (first : String) (par : Option String) (t : List CBin) (ht : t ≠ []) :
    autosomesOf first par t ≠ [] := by
  unfold autosomesOf
  split
  · exact ht
  · rename_i h
    simp only [Bool.not_eq_true', Bool.not_eq_false] at h
    have h' : t.any (fun b => isAutosomeName b.chrom) = true := by simpa using h
    obtain ⟨b, hb, hb'⟩ := List.any_eq_true.mp h'
    intro hnil
    have := List.filter_eq_nil_iff.mp hnil b hb
    simp [hb'] at this

theorem centerShift_shift (par : Option String) (t : List CBin) (c : Rat) (ht : t ≠ []) :
    centerShift medianR true false par (t.map (shiftC c)) = centerShift medianR true false par t - c := by
  unfold centerShift
  have hfirst : ((t.map (shiftC c)).head?.map (·.chrom)).getD "" = (t.head?.map (·.chrom)).getD "" := by
    cases t with
    | nil => rfl
    | cons a l => rfl
  simp only [hfirst, Bool.false_eq_true, if_false]
  rw [autosomesOf_map_shift]
  have hne := autosomesOf_ne_nil ((t.head?.map (·.chrom)).getD "") par t ht
  generalize autosomesOf ((t.head?.map (·.chrom)).getD "") par t = sel at *
  have he1 : sel.isEmpty = false := by simpa using hne
  have he2 : (sel.map (shiftC c)).isEmpty = false := by simpa using hne
  rw [he1, he2]
  simp only [Bool.false_eq_true, if_false]
  have := centerValues_shift medianR medianR_transEquiv true sel c
  rw [show (sel.map (shiftC c)) = sel.map (fun b => { b with log2 := b.log2 + c }) from rfl, this,
    medianR_transEquiv _ _ (centerValues_ne_nil medianR true sel hne)]
  ring

theorem sexAdjust_cancel (b : Bool) (cls : CClass) (f v c sh : Rat) :
    sexAdjust b cls f (v + c + (sh - c)) = sexAdjust b cls f (v + sh) := by
  rw [show v + c + (sh - c) = v + sh by ring]

/-- a sample's contribution does not depend on its depth scale: adding a constant to all its
    log2 values (antitarget block, no null-coverage filtering) leaves it unchanged -/
theorem sampleLogr_depth_scale (hapX : Bool) (par : Option String) (isXX : Option Bool)
    (flat : List Rat) (rows : List CovRow) (c : Rat) (hne : rows ≠ []) :
    sampleLogr hapX par false isXX flat (rows.map (fun r => { r with log2 := r.log2 + c }))
      = sampleLogr hapX par false isXX flat rows := by
  unfold sampleLogr
  have hfirst : (((rows.map (fun r : CovRow => { r with log2 := r.log2 + c })).head?.map (·.chrom)).getD "")
      = (rows.head?.map (·.chrom)).getD "" := by
    cases rows with
    | nil => rfl
    | cons a l => rfl
  have htab : (rows.map (fun r : CovRow => { r with log2 := r.log2 + c })).map toC = (rows.map toC).map (shiftC c) := by
    rw [List.map_map, List.map_map]; rfl
  simp only [hfirst, htab]
  rw [centerShift_shift par (rows.map toC) c (by simpa using hne)]
  rw [List.zip_map_left, List.map_map]
  apply List.map_congr_left
  intro p _
  obtain ⟨r, f⟩ := p
  simp only [Function.comp, Prod.map, id]
  exact sexAdjust_cancel _ _ _ _ _ _

/-! ### bins -/

theorem columns_length (n : Nat) (mat : List (List Rat)) : (columns n mat).length = n := by
  simp [columns]

theorem map_zip_zip_fst {α β γ δ : Type} (k : α → δ) (l : List α) (l₁ : List β) (l₂ : List γ)
    (h₁ : l₁.length = l.length) (h₂ : l₂.length = l.length) :
    ((l.zip l₁).zip l₂).map (fun p => k p.1.1) = l.map k := by
  have : (fun p : (α × β) × γ => k p.1.1) = k ∘ Prod.fst ∘ Prod.fst := rfl
  rw [this, ← List.map_map, ← List.map_map, List.map_fst_zip (by simp; omega), List.map_fst_zip (by omega)]

/-- a reference block has exactly the bins of the (alphabetically first) coverage file, in order -/
theorem refBlock_bins (hapX : Bool) (par : Option String) (skipLow : Bool) (sexes : List (String × Bool))
    (samples : List Sample) (out : List RefOut) (first : Sample) (rest : List Sample)
    (hs : sortSamples samples = first :: rest)
    (h : refBlock hapX par skipLow sexes samples = .ok out) :
    out.map (fun o => (o.chrom, o.s, o.e, o.gene)) = first.rows.map binKey := by
  unfold refBlock at h
  rw [hs] at h
  simp only [] at h
  split at h
  · rename_i he
    injection h with h
    subst h
    have : first.rows = [] := by simpa using he
    rw [this]; rfl
  · split at h
    · cases h
    · injection h with h
      subst h
      rw [List.map_map]
      exact map_zip_zip_fst binKey first.rows _ _ (columns_length _ _) (columns_length _ _)

/-- files whose bins differ are rejected -/
theorem refBlock_rejects (hapX : Bool) (par : Option String) (skipLow : Bool) (sexes : List (String × Bool))
    (samples : List Sample) (first : Sample) (rest : List Sample) (bad : Sample)
    (hs : sortSamples samples = first :: rest) (hne : first.rows ≠ [])
    (hb : bad ∈ rest) (hd : bad.rows.map binKey ≠ first.rows.map binKey) :
    ∃ e, refBlock hapX par skipLow sexes samples = .error e := by
  unfold refBlock
  rw [hs]
  simp only []
  have : first.rows.isEmpty = false := by simpa using hne
  rw [this]
  simp only [Bool.false_eq_true, if_false]
  cases hf : rest.find? (fun s => s.rows.map binKey != first.rows.map binKey) with
  | some b => exact ⟨_, rfl⟩
  | none =>
    rw [List.find?_eq_none] at hf
    have := hf bad hb
    simp at this
    exact absurd this hd

/-- the whole reference is a permutation (the genomic sort) of the target block followed by the
    antitarget block -/
theorem doReference_perm (hapX : Bool) (par : Option String) (sexes : List (String × Bool))
    (targets : List Sample) (anti : List Sample) (t a out : List RefOut)
    (hl : anti.length = targets.length) (hne : anti ≠ [])
    (ht : refBlock hapX par true sexes targets = .ok t)
    (ha : refBlock hapX par false sexes anti = .ok a)
    (h : doReference hapX par sexes targets (some anti) = .ok out) :
    out.Perm (t ++ a) := by
  unfold doReference at h
  have he : anti.isEmpty = false := by simpa using hne
  simp only [hl, ht, ha, he] at h
  simp [bind, Except.bind, pure, Except.pure] at h
  subst h
  exact List.mergeSort_perm _ _

/-! ### flat reference, gc, rmask -/

/-- a flat reference is 0 on autosomes, −1 on Y, and −1 on X only for a male reference -/
theorem flatReference_values (hapX : Bool) (par : Option String) (bins : List CovRow) :
    (flatReference hapX par bins).map (·.2) =
      expectFlat hapX par ((flatReference hapX par bins).map (fun p => toC p.1)) := by
  unfold flatReference
  simp only []
  generalize (bins.mergeSort _) = sorted
  have hlen : (expectFlat hapX par (sorted.map toC)).length = sorted.length := by
    simp [expectFlat]
  have h1 : (sorted.zip (expectFlat hapX par (sorted.map toC))).map (·.2) = expectFlat hapX par (sorted.map toC) := by
    rw [← List.unzip_snd, List.unzip_zip_right (by omega)]
  have h2 : (sorted.zip (expectFlat hapX par (sorted.map toC))).map (fun p => toC p.1) = sorted.map toC := by
    rw [show (fun p : CovRow × Rat => toC p.1) = toC ∘ Prod.fst from rfl, ← List.map_map]
    rw [← List.unzip_fst, List.unzip_zip_left (by omega)]
  rw [h1, h2]

theorem lo_le_tot (seq : List Char) :
    seq.countP (fun c => c == 'a' || c == 'c' || c == 'g' || c == 't') ≤
      seq.countP (fun c => c == 'G' || c == 'C' || c == 'g' || c == 'c') +
      seq.countP (fun c => c == 'A' || c == 'T' || c == 'a' || c == 't') := by
  induction seq with
  | nil => simp
  | cons x xs ih =>
    simp only [List.countP_cons]
    have : (if (x == 'a' || x == 'c' || x == 'g' || x == 't') = true then 1 else 0) ≤
        (if (x == 'G' || x == 'C' || x == 'g' || x == 'c') = true then 1 else 0) +
        (if (x == 'A' || x == 'T' || x == 'a' || x == 't') = true then 1 else 0) := by
      by_cases h1 : x = 'a' <;> by_cases h2 : x = 'c' <;> by_cases h3 : x = 'g' <;> by_cases h4 : x = 't' <;>
        simp [h1, h2, h3, h4]
    omega

/-- gc is the G+C fraction and rmask the lowercase fraction of the unambiguous bases; both are
    fractions in [0, 1], and (0, 0) when there is no unambiguous base -/
theorem gcRmask_fractions (seq : List Char) :
    0 ≤ (gcRmask seq).1 ∧ (gcRmask seq).1 ≤ 1 ∧ 0 ≤ (gcRmask seq).2 ∧ (gcRmask seq).2 ≤ 1 := by
  have hlo := lo_le_tot seq
  unfold gcRmask
  simp only []
  generalize seq.countP (fun c => c == 'G' || c == 'C' || c == 'g' || c == 'c') = gc at *
  generalize seq.countP (fun c => c == 'A' || c == 'T' || c == 'a' || c == 't') = at_ at *
  generalize seq.countP (fun c => c == 'a' || c == 'c' || c == 'g' || c == 't') = lo at *
  by_cases ht : gc + at_ = 0
  · simp [ht]
  · rw [if_neg ht, if_neg ht]
    have hpos : (0 : Rat) < ((gc + at_ : Nat) : Rat) := by
      have : 0 < gc + at_ := by omega
      exact_mod_cast this
    have h1 : (gc : Rat) ≤ ((gc + at_ : Nat) : Rat) := by exact_mod_cast Nat.le_add_right gc at_
    have h2 : (lo : Rat) ≤ ((gc + at_ : Nat) : Rat) := by exact_mod_cast hlo
    exact ⟨div_nonneg (Nat.cast_nonneg _) hpos.le, (div_le_one hpos).mpr h1,
      div_nonneg (Nat.cast_nonneg _) hpos.le, (div_le_one hpos).mpr h2⟩

theorem gcRmask_def (seq : List Char)
    (h : 0 < seq.countP (fun c => c == 'G' || c == 'C' || c == 'g' || c == 'c') +
             seq.countP (fun c => c == 'A' || c == 'T' || c == 'a' || c == 't')) :
    (gcRmask seq).1 = (seq.countP (fun c => c == 'G' || c == 'C' || c == 'g' || c == 'c') : Rat) /
      ((seq.countP (fun c => c == 'G' || c == 'C' || c == 'g' || c == 'c') +
        seq.countP (fun c => c == 'A' || c == 'T' || c == 'a' || c == 't') : Nat) : Rat) ∧
    (gcRmask seq).2 = (seq.countP (fun c => c == 'a' || c == 'c' || c == 'g' || c == 't') : Rat) /
      ((seq.countP (fun c => c == 'G' || c == 'C' || c == 'g' || c == 'c') +
        seq.countP (fun c => c == 'A' || c == 'T' || c == 'a' || c == 't') : Nat) : Rat) := by
  unfold gcRmask
  simp only []
  have : ¬ (seq.countP (fun c => c == 'G' || c == 'C' || c == 'g' || c == 'c') +
             seq.countP (fun c => c == 'A' || c == 'T' || c == 'a' || c == 't') = 0) := by omega
  rw [if_neg this, if_neg this]
  exact ⟨rfl, rfl⟩

end CnvVerif.Ref
