import CnvVerif.Model.Reference
import CnvVerif.Lemmas.Reference
namespace CnvVerif.Ref
open CnvVerif

/-- the first sentence of the property as a theorem about `refBlock`: when a block of coverage files is accepted, the
    reference has one row per bin of the (first, in file-name order) sample, and for the i-th bin log2 and spread are
    the biweight location and midvariance of the i-th COLUMN of the matrix whose first row is the neutral
    pseudo-sample (`expectFlat`) and whose other rows are each sample's log2 after median-centring and the shift
    of its sex chromosomes to the reference sex (`sampleLogr`); depth is the biweight location of the depths -/
theorem refBlock_values (hapX : Bool) (par : Option String) (skipLow : Bool) (sexes : List (String × Bool))
    (samples : List Sample) (outs : List RefOut) (first : Sample) (rest : List Sample)
    (hs : sortSamples samples = first :: rest) (hne : first.rows.isEmpty = false)
    (h : refBlock hapX par skipLow sexes samples = .ok outs) :
    let flat := expectFlat hapX par (first.rows.map toC)
    let logr := (first :: rest).map fun s =>
      sampleLogr hapX par skipLow ((sexes.find? (·.1 == s.name)).map (·.2)) flat s.rows
    let n := first.rows.length
    let lcols := columns n (flat :: logr)
    let dcols := columns n ((first :: rest).map (fun s => s.rows.map (·.depth)))
    (∀ s ∈ rest, s.rows.map binKey = first.rows.map binKey) ∧
    outs = ((first.rows.zip lcols).zip dcols).map (fun p =>
      { chrom := p.1.1.chrom, s := p.1.1.s, e := p.1.1.e, gene := p.1.1.gene, log2 := locOf p.1.2,
        depth := locOf p.2, spread := spreadOf p.1.2 (locOf p.1.2) }) := by
  intro flat logr n lcols dcols
  unfold refBlock at h
  rw [hs] at h
  simp only [] at h
  rw [hne] at h
  simp only [Bool.false_eq_true, if_false] at h
  cases hf : rest.find? (fun s => s.rows.map binKey != first.rows.map binKey) with
  | some b =>
    rw [hf] at h
    cases h
  | none =>
    rw [hf] at h
    simp only [] at h
    refine ⟨?_, ?_⟩
    · intro s hsm
      rw [List.find?_eq_none] at hf
      have := hf s hsm
      simpa using this
    · injection h with h
      rw [← h]

end CnvVerif.Ref
