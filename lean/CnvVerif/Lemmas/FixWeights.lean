/-
  C04, weights: `applyWeights` (the model of `fix.apply_weights`) computes, row by row, the one-bin formula `weightOf`
  about which the range / monotonicity theorems are stated; hence those hold between the rows of one table.  Plus the
  exact values in the degenerate cases (flat or single-sample reference, a class with one bin, zero residual variance).
-/
import CnvVerif.Model.Fix
import CnvVerif.Lemmas.Fix
import Mathlib.Tactic.Linarith
import Mathlib.Tactic.Positivity
import Mathlib.Tactic.FieldSimp
namespace CnvVerif

/-- off-target bin? (`gene` is one of params.ANTITARGET_ALIASES) -/
def isAntiRow (r : SRow) : Bool := Generated.ANTITARGET_ALIASES.contains r.gene

/-- mean of `sqrt(size)` over the bins of one class (`bin_sz.mean()` / `anti_bin_sz.mean()`) -/
def classMean (rows : List (SRow × RRow × Rat)) (anti : Bool) : Rat :=
  if anti then sumR ((rows.filter (fun p => isAntiRow p.1)).map (·.2.2)) / ((rows.filter (fun p => isAntiRow p.1)).length : Rat)
  else sumR ((rows.filter (fun p => !isAntiRow p.1)).map (·.2.2)) / ((rows.filter (fun p => !isAntiRow p.1)).length : Rat)

/-- the pooled-or-flat test of `apply_weights`: some spread above epsilon AND some log2 that is not a whole number -/
def pooledRef (rows : List (SRow × RRow × Rat)) : Bool :=
  rows.any (fun p => decide (p.2.1.spread > Generated.WEIGHT_EPSILON)) &&
    rows.any (fun p => decide (absR (mod1 p.2.1.log2) > Generated.WEIGHT_EPSILON))

/-- the weight column, row by row -/
theorem applyWeights_eq (rows : List (SRow × RRow × Rat)) (varT varA : Rat) :
    applyWeights rows varT varA = rows.map (fun p =>
      weightOf (pooledRef rows) p.2.1.spread p.2.2 (classMean rows (isAntiRow p.1)) (if isAntiRow p.1 then varA else varT)) := by
  unfold applyWeights
  apply List.map_congr_left
  intro p _
  unfold weightOf classMean pooledRef isAntiRow
  cases h : Generated.ANTITARGET_ALIASES.contains p.1.gene <;> simp only [h, if_true, if_false, Bool.false_eq_true]

theorem applyWeights_getElem (rows : List (SRow × RRow × Rat)) (varT varA : Rat) (i : Nat) (hi : i < rows.length)
    (hi' : i < (applyWeights rows varT varA).length) :
    (applyWeights rows varT varA)[i] =
      weightOf (pooledRef rows) rows[i].2.1.spread rows[i].2.2 (classMean rows (isAntiRow rows[i].1))
        (if isAntiRow rows[i].1 then varA else varT) := by
  simp only [applyWeights_eq, List.getElem_map]

theorem foldl_add_pos (l : List Rat) (a : Rat) (ha : 0 ≤ a) (h : ∀ x ∈ l, 0 < x) (hne : l ≠ []) :
    0 < l.foldl (· + ·) a := by
  induction l generalizing a with
  | nil => exact absurd rfl hne
  | cons x xs ih =>
    simp only [List.foldl_cons]
    have hx := h x (List.mem_cons_self)
    by_cases hxs : xs = []
    · subst hxs; simp only [List.foldl_nil]; linarith
    · exact ih (a + x) (by linarith) (fun y hy => h y (List.mem_cons_of_mem _ hy)) hxs

/-- bins have positive size, so the class mean of a class that has a bin is positive -/
theorem classMean_pos (rows : List (SRow × RRow × Rat)) (hpos : ∀ p ∈ rows, 0 < p.2.2)
    (p : SRow × RRow × Rat) (hp : p ∈ rows) : 0 < classMean rows (isAntiRow p.1) := by
  unfold classMean
  cases h : isAntiRow p.1
  · simp only [Bool.false_eq_true, if_false]
    have hmem : p ∈ rows.filter (fun q => !isAntiRow q.1) := by rw [List.mem_filter]; exact ⟨hp, by simp [h]⟩
    have hne : rows.filter (fun q => !isAntiRow q.1) ≠ [] := List.ne_nil_of_mem hmem
    apply div_pos
    · apply foldl_add_pos _ 0 le_rfl
      · intro x hx
        obtain ⟨q, hq, rfl⟩ := List.mem_map.mp hx
        exact hpos q (List.mem_filter.mp hq).1
      · simpa using hne
    · exact_mod_cast List.length_pos_iff.mpr hne
  · simp only [if_true]
    have hmem : p ∈ rows.filter (fun q => isAntiRow q.1) := by rw [List.mem_filter]; exact ⟨hp, h⟩
    have hne : rows.filter (fun q => isAntiRow q.1) ≠ [] := List.ne_nil_of_mem hmem
    apply div_pos
    · apply foldl_add_pos _ 0 le_rfl
      · intro x hx
        obtain ⟨q, hq, rfl⟩ := List.mem_map.mp hx
        exact hpos q (List.mem_filter.mp hq).1
      · simpa using hne
    · exact_mod_cast List.length_pos_iff.mpr hne

/-- BETWEEN THE ROWS OF ONE OUTPUT TABLE: of two bins of the same class with the same reference spread, the larger
    one never has the smaller weight -/
theorem applyWeights_mono_size (rows : List (SRow × RRow × Rat)) (varT varA : Rat) (hv : 0 ≤ varT ∧ 0 ≤ varA)
    (hpos : ∀ p ∈ rows, 0 < p.2.2) (i j : Nat) (hi : i < rows.length) (hj : j < rows.length)
    (hcls : isAntiRow rows[i].1 = isAntiRow rows[j].1) (hsp : rows[i].2.1.spread = rows[j].2.1.spread)
    (hle : rows[i].2.2 ≤ rows[j].2.2)
    (hi' : i < (applyWeights rows varT varA).length) (hj' : j < (applyWeights rows varT varA).length) :
    (applyWeights rows varT varA)[i] ≤ (applyWeights rows varT varA)[j] := by
  rw [applyWeights_getElem rows varT varA i hi, applyWeights_getElem rows varT varA j hj, ← hcls, ← hsp]
  apply weight_mono_size _ _ _ _ _ _ (classMean_pos rows hpos rows[i] (List.getElem_mem hi)) _
    (hpos _ (List.getElem_mem hi)) hle
  cases isAntiRow rows[i].1
  · simpa using hv.1
  · simpa using hv.2

/-- … and of two bins of the same class and size, the one with the larger reference spread never has the larger weight -/
theorem applyWeights_antitone_spread (rows : List (SRow × RRow × Rat)) (varT varA : Rat)
    (i j : Nat) (hi : i < rows.length) (hj : j < rows.length)
    (hcls : isAntiRow rows[i].1 = isAntiRow rows[j].1) (hsz : rows[i].2.2 = rows[j].2.2)
    (h0 : 0 ≤ rows[i].2.1.spread) (hle : rows[i].2.1.spread ≤ rows[j].2.1.spread)
    (hi' : i < (applyWeights rows varT varA).length) (hj' : j < (applyWeights rows varT varA).length) :
    (applyWeights rows varT varA)[j] ≤ (applyWeights rows varT varA)[i] := by
  rw [applyWeights_getElem rows varT varA i hi, applyWeights_getElem rows varT varA j hj, ← hcls, ← hsz]
  exact weight_antitone_spread _ _ _ _ _ _ h0 hle

/-! ### degenerate inputs -/

/-- a reference whose spreads are all (at most epsilon ≈) zero — a flat reference, or one built from a single sample —
    is never treated as pooled: the weight is the clipped size/variance term alone -/
theorem pooledRef_false_of_no_spread (rows : List (SRow × RRow × Rat))
    (h : ∀ p ∈ rows, p.2.1.spread ≤ Generated.WEIGHT_EPSILON) : pooledRef rows = false := by
  unfold pooledRef
  have : rows.any (fun p => decide (p.2.1.spread > Generated.WEIGHT_EPSILON)) = false := by
    rw [List.any_eq_false]
    intro p hp
    simpa using h p hp
  rw [this, Bool.false_and]

/-- … and neither is one whose log2 values are all whole numbers (0 / −1 of a flat reference), whatever the spreads -/
theorem pooledRef_false_of_whole_log2 (rows : List (SRow × RRow × Rat))
    (h : ∀ p ∈ rows, ∃ n : Int, p.2.1.log2 = (n : Rat)) : pooledRef rows = false := by
  unfold pooledRef
  have : rows.any (fun p => decide (absR (mod1 p.2.1.log2) > Generated.WEIGHT_EPSILON)) = false := by
    rw [List.any_eq_false]
    intro p hp
    obtain ⟨n, hn⟩ := h p hp
    have h0 : mod1 p.2.1.log2 = 0 := by
      unfold mod1; rw [hn, Rat.floor_intCast]; simp
    have : absR (mod1 p.2.1.log2) = 0 := by rw [h0]; decide +kernel
    rw [this]
    have := weight_eps_max.2.2.2.1
    simpa using le_of_lt this
  rw [this, Bool.and_false]

/-- the unpooled weight -/
theorem weightOf_flat (spread sq m v : Rat) :
    weightOf false spread sq m v = clipQ Generated.WEIGHT_EPSILON Generated.WEIGHT_MAX (1 - v / (sq / m)) := by
  unfold weightOf; simp

/-- a class with no residual spread (`v = 0`, e.g. fewer than two usable bins after C19's estimator, or identical
    residuals): every bin of it gets weight exactly 1 with a flat reference, whatever its size … -/
theorem weightOf_zero_variance_flat (spread sq m : Rat) :
    weightOf false spread sq m 0 = 1 := by
  rw [weightOf_flat]
  unfold clipQ
  have h := weight_eps_max
  rw [zero_div, sub_zero, h.2.1, max_eq_right (by rw [← h.2.1]; exact h.2.2.1), min_self]

/-- … and `clip(x·(1 − spread²) + (1 − x))` with a pooled one (x = 0.9): the reference spread alone -/
theorem weightOf_zero_variance_pooled (spread sq m : Rat) :
    weightOf true spread sq m 0 = clipQ Generated.WEIGHT_EPSILON Generated.WEIGHT_MAX
      (Generated.WEIGHT_REF_EMPHASIS * (1 - spread ^ 2) + (1 - Generated.WEIGHT_REF_EMPHASIS)) := by
  unfold weightOf; simp

/-- a class with exactly ONE bin: the class mean is that bin's own sqrt(size), so the size drops out of its weight -/
theorem classMean_single (rows : List (SRow × RRow × Rat)) (p : SRow × RRow × Rat)
    (h : rows.filter (fun q => isAntiRow q.1 == isAntiRow p.1) = [p]) : classMean rows (isAntiRow p.1) = p.2.2 := by
  unfold classMean
  cases hc : isAntiRow p.1
  · have : rows.filter (fun q => !isAntiRow q.1) = [p] := by
      rw [← h, hc]; congr 1; funext q; cases isAntiRow q.1 <;> rfl
    simp [this, sumR]
  · have : rows.filter (fun q => isAntiRow q.1) = [p] := by
      rw [← h, hc]; congr 1; funext q; cases isAntiRow q.1 <;> rfl
    simp [this, sumR]

theorem weightOf_single_bin_class (pooled : Bool) (spread sq v : Rat) (hsq : sq ≠ 0) :
    weightOf pooled spread sq sq v = weightOf pooled spread 1 1 v := by
  unfold weightOf
  rw [div_self hsq, div_self one_ne_zero]

end CnvVerif
