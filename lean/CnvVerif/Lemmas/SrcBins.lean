/-
  C12: the hand-written model rules equal the expressions the translators read off the current source
  (Generated/ExprsBins.lean, regenerated from /repo on every run by harness/extractors/exprs_bins.py).
  Each proof tries `rfl` first and falls back to case analysis + `simp`, so that equivalent spellings of the
  source (a flipped comparison, a negated test with swapped branches, a renamed local) keep it green.
-/
import CnvVerif.Generated.ExprsBins
import CnvVerif.Model.Bins
import CnvVerif.Lemmas.Bins3
import Mathlib.Data.Rat.Floor
import Mathlib.Tactic.Linarith
import Mathlib.Tactic.SplitIfs
import Mathlib.Tactic.Ring
set_option linter.unusedTactic false
set_option linter.unreachableTactic false
set_option linter.unusedSimpArgs false
namespace CnvVerif.Src
open CnvVerif CnvVerif.Generated

/-- the minimum size `do_antitarget` hands on to `get_antitargets` -/
def effectiveMinSize (avg : Rat) (mn : Option Int) : Int :=
  match mn with
  | some m => if m == 0 then defaultMinSize avg else m
  | none => defaultMinSize avg

theorem doAntitarget_eq (tg : Table) (acc : Option Table) (avg : Rat) (mn : Option Int) :
    doAntitarget tg acc avg mn = getAntitargets tg acc avg (effectiveMinSize avg mn) := by
  cases mn <;> rfl

/-- `2 * int(avg * 2**MIN_REF_COVERAGE)` as the translator renders it -/
theorem defaultMinSize_cast (avg : Rat) :
    ((defaultMinSize avg : Int) : Rat) =
      (2 : Rat) * (if (avg * ((1 : Rat) / 32)) < 0 then ((((avg * ((1 : Rat) / 32))).ceil : Int) : Rat)
        else ((((avg * ((1 : Rat) / 32))).floor : Int) : Rat)) := by
  unfold defaultMinSize truncRat ANTI_MIN_FACTOR ANTI_MIN_SCALE
  push_cast
  by_cases h : avg * ((1 : Rat) / 32) < 0
  · rw [if_pos h, if_neg (by linarith)]
  · rw [if_neg h, if_pos (by linarith)]

theorem effectiveMin_given_is_source (avg : Rat) (m : Int) :
    ((effectiveMinSize avg (some m) : Int) : Rat) = src_antitarget_min_given avg (m : Rat) := by
  unfold effectiveMinSize src_antitarget_min_given
  by_cases hm : m = 0
  · subst hm
    simp only [beq_self_eq_true, if_true, Int.cast_zero, ne_eq, not_true_eq_false, not_false_eq_true,
      false_or, or_false, or_true, true_or, eq_self_iff_true]
    first
    | exact defaultMinSize_cast avg
    | (rw [defaultMinSize_cast avg]; split_ifs <;> first | rfl | ring | linarith)
  · have hb : (m == 0) = false := by simpa using hm
    have hq : ((m : Rat)) ≠ 0 := by exact_mod_cast hm
    have hq' : ¬ ((m : Rat)) = 0 := hq
    simp only [hb, hq, hq', ne_eq, not_false_eq_true, not_true_eq_false, if_false, Bool.false_eq_true,
      false_or, or_false, or_self, false_and, and_false]

theorem effectiveMin_absent_is_source (avg : Rat) :
    ((effectiveMinSize avg none : Int) : Rat) = src_antitarget_min_absent avg := by
  unfold effectiveMinSize src_antitarget_min_absent
  first
  | exact defaultMinSize_cast avg
  | (rw [defaultMinSize_cast avg]; split_ifs <;> first | rfl | ring | linarith)

/-- the contigs `drop_noncanonical_contigs` skips -/
theorem skipOf_is_source (acc tg : Table) :
    skipOf acc tg = src_chroms_to_skip isCanonicalName (chromsInOrder acc) (chromsInOrder tg) := by
  unfold skipOf src_chroms_to_skip
  first
  | rfl
  | (simp only [List.filter_filter, gt_iff_lt, ge_iff_le, Bool.not_not, Bool.and_comm, Nat.lt_iff_add_one_le,
       Bool.not_eq_true', Bool.not_eq_false', decide_not, Nat.not_le, Nat.not_lt]
     cases h : (chromsInOrder tg).any isCanonicalName <;> simp [h, List.filter_filter, Bool.and_comm, Nat.lt_iff_add_one_le])

/-- when `compare_chrom_names` refuses -/
theorem chromNamesClash_is_source (a b : Table) :
    chromNamesClash a b = src_chrom_names_clash (chromsInOrder a) (chromsInOrder b) := by
  unfold chromNamesClash src_chrom_names_clash
  first
  | rfl
  | (cases h : chromsInOrder a <;> simp [Bool.and_comm])

/-- `filter_names` with its default `exclude` -/
theorem length_pos_decide {α} (l : List α) : decide (l.length > 0) = !l.isEmpty := by
  cases l <;> simp

theorem length_ge_two_decide {α} (l : List α) : decide (l.length ≥ 2) = decide (l.length > 1) := by
  apply decide_eq_decide.mpr
  omega

theorem filterNames_is_source (names : List String) :
    filterNames names = src_filter_names names SHORTEN_EXCLUDE := by
  unfold filterNames src_filter_names
  first
  | rfl
  | (have hp : ∀ n : String, (!(SHORTEN_EXCLUDE.any (fun ex => n.startsWith ex))) =
         SHORTEN_EXCLUDE.all (fun ex => !(n.startsWith ex)) := fun n => List.not_any_eq_all_not
     simp only [hp, length_pos_decide, length_ge_two_decide, gt_iff_lt, decide_eq_true_eq]
     generalize names.filter (fun n => SHORTEN_EXCLUDE.all (fun ex => !(n.startsWith ex))) = ok
     by_cases h1 : 1 < names.length <;> cases h2 : ok.isEmpty <;>
       simp only [h1, h2, if_true, if_false, Bool.not_true, Bool.not_false, Bool.false_eq_true,
         decide_true, decide_false])

end CnvVerif.Src
