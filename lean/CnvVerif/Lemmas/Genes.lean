/-
  Lemmas for C16 (gene-level grouping).  Core Lean only.
-/
import CnvVerif.Model.Genes
namespace CnvVerif.Genes
open CnvVerif

/-! ### the visit list of `_get_gene_map` -/

theorem mem_taggedFrom {k : Nat} {rs : List Bin} {i : Nat} {g : String} :
    (i, g) ∈ taggedFrom k rs ↔ k ≤ i ∧ ∃ b, rs[i - k]? = some b ∧ g ∈ names b := by
  induction rs generalizing k with
  | nil => simp [taggedFrom]
  | cons b rs ih =>
    simp only [taggedFrom, List.mem_append, List.mem_map, Prod.mk.injEq, ih]
    constructor
    · rintro (⟨g', hg', rfl, rfl⟩ | ⟨hk, b', hb', hg⟩)
      · exact ⟨Nat.le_refl _, b, by simp, hg'⟩
      · refine ⟨by omega, b', ?_, hg⟩
        have : i - k = (i - (k + 1)) + 1 := by omega
        rw [this]; simpa using hb'
    · rintro ⟨hk, b', hb', hg⟩
      by_cases h : i = k
      · subst h
        left
        simp at hb'
        subst hb'
        exact ⟨g, hg, rfl, rfl⟩
      · right
        refine ⟨by omega, b', ?_, hg⟩
        have : i - k = (i - (k + 1)) + 1 := by omega
        rw [this] at hb'; simpa using hb'

theorem taggedFrom_lower {k : Nat} {rs : List Bin} : ∀ x ∈ taggedFrom k rs, k ≤ x.1 := by
  intro x hx
  have := (mem_taggedFrom (k := k) (rs := rs) (i := x.1) (g := x.2)).mp hx
  exact this.1

theorem taggedFrom_sorted (k : Nat) (rs : List Bin) :
    (taggedFrom k rs).Pairwise (fun a b => a.1 ≤ b.1) := by
  induction rs generalizing k with
  | nil => simp [taggedFrom]
  | cons b rs ih =>
    simp only [taggedFrom]
    rw [List.pairwise_append]
    refine ⟨?_, ih (k + 1), ?_⟩
    · rw [List.pairwise_map]
      exact List.pairwise_of_forall (fun _ _ => Nat.le_refl _)
    · intro a ha c hc
      simp only [List.mem_map] at ha
      obtain ⟨g, _, rfl⟩ := ha
      have := taggedFrom_lower c hc
      simp; omega

/-! ### dict insertion order -/

theorem firstByName_sublist (T : List (Nat × String)) : (firstByName T).Sublist T := by
  induction T with
  | nil => simp [firstByName]
  | cons a as ih =>
    simp only [firstByName]
    exact List.Sublist.cons_cons a (List.Sublist.trans List.filter_sublist ih)

theorem firstByName_names_nodup (T : List (Nat × String)) :
    (firstByName T).Pairwise (fun a b => a.2 ≠ b.2) := by
  induction T with
  | nil => simp [firstByName]
  | cons a as ih =>
    simp only [firstByName]
    refine List.pairwise_cons.mpr ⟨?_, ih.filter _⟩
    intro b hb
    have := (List.mem_filter.mp hb).2
    intro h
    simp [h] at this

theorem firstByName_covers {T : List (Nat × String)} {x : Nat × String} (h : x ∈ T) :
    ∃ f, (f, x.2) ∈ firstByName T := by
  induction T with
  | nil => cases h
  | cons a as ih =>
    simp only [firstByName]
    by_cases hx : x.2 = a.2
    · exact ⟨a.1, by rw [hx]; simp⟩
    · rcases List.mem_cons.mp h with rfl | h'
      · exact absurd rfl hx
      · obtain ⟨f, hf⟩ := ih h'
        refine ⟨f, List.mem_cons_of_mem _ (List.mem_filter.mpr ⟨hf, ?_⟩)⟩
        simpa using hx

theorem firstByName_first {T : List (Nat × String)} (hs : T.Pairwise (fun a b => a.1 ≤ b.1))
    {f i : Nat} {g : String} (hk : (f, g) ∈ firstByName T) (hi : (i, g) ∈ T) : f ≤ i := by
  induction T with
  | nil => cases hi
  | cons a as ih =>
    obtain ⟨hhead, htail⟩ := List.pairwise_cons.mp hs
    simp only [firstByName] at hk
    rcases List.mem_cons.mp hk with h | h
    · rcases List.mem_cons.mp hi with h' | h'
      · rw [← h] at h'; simp at h'; omega
      · have := hhead _ h'
        rw [← h] at this; simpa using this
    · obtain ⟨h1, h2⟩ := List.mem_filter.mp h
      have hne : g ≠ a.2 := by simpa using h2
      rcases List.mem_cons.mp hi with h' | h'
      · rw [← h'] at hne; exact absurd rfl hne
      · exact ih htail h1 h'

/-! ### sorted lists of indices -/

theorem sorted_head_le {l : List Nat} (hs : l.Pairwise (· ≤ ·)) {a : Nat} (h : l.head? = some a) :
    ∀ x ∈ l, a ≤ x := by
  obtain ⟨ys, rfl⟩ := List.head?_eq_some_iff.mp h
  intro x hx
  rcases List.mem_cons.mp hx with rfl | hx
  · exact Nat.le_refl _
  · exact List.rel_of_pairwise_cons hs hx

theorem sorted_le_getLast {l : List Nat} (hs : l.Pairwise (· ≤ ·)) {a : Nat} (h : l.getLast? = some a) :
    ∀ x ∈ l, x ≤ a := by
  obtain ⟨ys, rfl⟩ := List.getLast?_eq_some_iff.mp h
  intro x hx
  rcases List.mem_append.mp hx with hx | hx
  · exact (List.pairwise_append.mp hs).2.2 x hx a (by simp)
  · simp at hx; omega

theorem mem_geneIdx {T : List (Nat × String)} {g : String} {i : Nat} :
    i ∈ geneIdx T g ↔ (i, g) ∈ T := by
  simp only [geneIdx, List.mem_map, List.mem_filter]
  constructor
  · rintro ⟨x, ⟨hx, hg⟩, rfl⟩
    have : x.2 = g := by simpa using hg
    rw [← this]; exact hx
  · intro h
    exact ⟨(i, g), ⟨h, by simp⟩, rfl⟩

theorem geneIdx_sorted {T : List (Nat × String)} (hs : T.Pairwise (fun a b => a.1 ≤ b.1)) (g : String) :
    (geneIdx T g).Pairwise (· ≤ ·) := by
  unfold geneIdx
  exact List.Pairwise.map _ (fun _ _ h => h) (hs.filter _)

/-- what the loop of `by_gene` reads off the gene map for a key of the map -/
theorem key_facts {rs : List Bin} {f : Nat} {g : String}
    (hk : (f, g) ∈ firstByName (taggedFrom 0 rs)) :
    ∃ la, (geneIdx (taggedFrom 0 rs) g).head? = some f ∧
      (geneIdx (taggedFrom 0 rs) g).getLast? = some la ∧ f ≤ la ∧
      (∃ b, rs[f]? = some b ∧ g ∈ names b) ∧ (∃ b, rs[la]? = some b ∧ g ∈ names b) ∧
      ∀ i, (i, g) ∈ taggedFrom 0 rs → f ≤ i ∧ i ≤ la := by
  have hT := taggedFrom_sorted 0 rs
  have hmem : (f, g) ∈ taggedFrom 0 rs := (firstByName_sublist _).subset hk
  have hfi : f ∈ geneIdx (taggedFrom 0 rs) g := mem_geneIdx.mpr hmem
  have hsorted := geneIdx_sorted hT g
  have hne : geneIdx (taggedFrom 0 rs) g ≠ [] := List.ne_nil_of_mem hfi
  obtain ⟨st, hst⟩ : ∃ st, (geneIdx (taggedFrom 0 rs) g).head? = some st := by
    cases hh : geneIdx (taggedFrom 0 rs) g with
    | nil => exact absurd hh hne
    | cons a _ => exact ⟨a, rfl⟩
  obtain ⟨la, hla⟩ : ∃ la, (geneIdx (taggedFrom 0 rs) g).getLast? = some la :=
    ⟨_, List.getLast?_eq_some_getLast hne⟩
  have hst_mem : st ∈ geneIdx (taggedFrom 0 rs) g := List.mem_of_mem_head? (by simp [hst])
  have hla_mem : la ∈ geneIdx (taggedFrom 0 rs) g := List.mem_of_getLast? hla
  have h1 : st ≤ f := sorted_head_le hsorted hst f hfi
  have h2 : f ≤ st := firstByName_first hT hk (mem_geneIdx.mp hst_mem)
  have hstf : st = f := by omega
  subst hstf
  refine ⟨la, hst, hla, sorted_le_getLast hsorted hla _ hfi, ?_, ?_, ?_⟩
  · have := (mem_taggedFrom.mp hmem).2
    simpa using this
  · have := (mem_taggedFrom.mp (mem_geneIdx.mp hla_mem)).2
    simpa using this
  · intro i hi
    have hi' := mem_geneIdx.mpr hi
    exact ⟨sorted_head_le hsorted hst i hi', sorted_le_getLast hsorted hla i hi'⟩

/-! ### slices -/

theorem slice_append_drop {α} (rs : List α) {a b : Nat} (h : a ≤ b) :
    slice rs a b ++ rs.drop b = rs.drop a := by
  unfold slice
  by_cases hb : b ≤ rs.length
  · have : a ≤ (rs.take b).length := by rw [List.length_take]; omega
    rw [← List.drop_append_of_le_length this, List.take_append_drop]
  · have hb' : rs.length ≤ b := by omega
    rw [List.take_of_length_le hb', List.drop_of_length_le hb', List.append_nil]

theorem getElem?_slice {α} (rs : List α) (a b j : Nat) :
    (slice rs a b)[j]? = if a + j < b then rs[a + j]? else none := by
  unfold slice
  rw [List.getElem?_drop, List.getElem?_take]

theorem mem_named {ign : List String} {b : Bin} {g : String} :
    g ∈ named ign b ↔ g ∈ names b ∧ ign.contains g = false := by
  simp [named]

/-! ### the loop of `by_gene` -/

/-- the keys still to visit: entries of the gene map, in first-appearance order -/
structure KeysOK (T : List (Nat × String)) (ks : List (Nat × String)) : Prop where
  sub : ∀ x ∈ ks, x ∈ firstByName T
  sorted : ks.Pairwise (fun a b => a.1 ≤ b.1 ∧ a.2 ≠ b.2)

theorem KeysOK.tail {T : List (Nat × String)} {k : Nat × String} {ks : List (Nat × String)}
    (h : KeysOK T (k :: ks)) : KeysOK T ks :=
  ⟨fun x hx => h.sub x (List.mem_cons_of_mem _ hx), (List.pairwise_cons.mp h.sorted).2⟩

theorem keysOK_all (rs : List Bin) : KeysOK (taggedFrom 0 rs) (firstByName (taggedFrom 0 rs)) :=
  ⟨fun _ hx => hx,
   ((taggedFrom_sorted 0 rs).sublist (firstByName_sublist _)).and (firstByName_names_nodup _)⟩

/-- one step of the loop on a key that is not ignored -/
theorem goPos_step {rs : List Bin} {ign : List String} {prev f la : Nat} {g : String}
    {ks : List (Nat × String)} (hc : ign.contains g = false)
    (hh : (geneIdx (taggedFrom 0 rs) g).head? = some f)
    (hl : (geneIdx (taggedFrom 0 rs) g).getLast? = some la) :
    goPos rs ign (taggedFrom 0 rs) prev ((f, g) :: ks) =
      (if prev < f then [(antitarget, slice rs prev f)] else [])
        ++ (g, slice rs f (la + 1)) :: goPos rs ign (taggedFrom 0 rs) (la + 1) ks := by
  simp only [goPos, hc, hh, hl]
  simp

theorem goPos_skip {rs : List Bin} {ign : List String} {T : List (Nat × String)} {prev f : Nat} {g : String}
    {ks : List (Nat × String)} (hc : ign.contains g = true) :
    goPos rs ign T prev ((f, g) :: ks) = goPos rs ign T prev ks := by
  simp only [goPos, hc, ↓reduceIte]

/-- under the property's hypothesis a later gene starts after the current gene's last bin -/
theorem next_gene_after {rs : List Bin} {ign : List String} (hcont : Contiguous ign rs)
    {f la f' : Nat} {g h : String} {ks : List (Nat × String)}
    (hok : KeysOK (taggedFrom 0 rs) ((f, g) :: ks)) (hg : ign.contains g = false)
    (hla : (geneIdx (taggedFrom 0 rs) g).getLast? = some la)
    (hy : (f', h) ∈ ks) (hh : ign.contains h = false) : la + 1 ≤ f' := by
  obtain ⟨la', _, hla', hfl, ⟨bf, hbf, hgf⟩, ⟨bl, hbl, hgl⟩, _⟩ := key_facts (hok.sub (f, g) (by simp))
  rw [hla] at hla'
  cases hla'
  obtain ⟨hrel, _⟩ := List.pairwise_cons.mp hok.sorted
  obtain ⟨hle, hne⟩ := hrel _ hy
  obtain ⟨_, _, _, _, ⟨bh, hbh, hgh⟩, _, _⟩ := key_facts (hok.sub (f', h) (List.mem_cons_of_mem _ hy))
  by_cases hcmp : f' ≤ la
  · have := hcont f f' la bf bh bl hle hcmp hbf hbh hbl g (mem_named.mpr ⟨hgf, hg⟩)
      (mem_named.mpr ⟨hgl, hg⟩) h (mem_named.mpr ⟨hgh, hh⟩)
    exact absurd this.symm hne
  · omega

/-- **partition**: the yielded groups, concatenated, are the rows from `prev` on -/
theorem goPos_flatten {rs : List Bin} {ign : List String} (hcont : Contiguous ign rs) :
    ∀ (ks : List (Nat × String)) (prev : Nat), KeysOK (taggedFrom 0 rs) ks →
      (∀ x ∈ ks, ign.contains x.2 = false → prev ≤ x.1) →
      ((goPos rs ign (taggedFrom 0 rs) prev ks).map (·.2)).flatten = rs.drop prev := by
  intro ks
  induction ks with
  | nil =>
    intro prev _ _
    simp only [goPos]
    split
    · simp
    · rename_i h
      simp [List.drop_eq_nil_of_le (Nat.le_of_not_lt h)]
  | cons k ks ih =>
    intro prev hok hprev
    obtain ⟨f, g⟩ := k
    by_cases hc : ign.contains g = true
    · rw [goPos_skip hc]
      exact ih prev hok.tail (fun x hx => hprev x (List.mem_cons_of_mem _ hx))
    · have hc' : ign.contains g = false := by simpa using hc
      obtain ⟨la, hh, hl, hfl, _, _, _⟩ := key_facts (hok.sub (f, g) (by simp))
      rw [goPos_step hc' hh hl]
      have hpf : prev ≤ f := hprev (f, g) (by simp) hc'
      have hrec := ih (la + 1) hok.tail
        (fun x hx hxc => next_gene_after hcont hok hc' hl (by simpa using hx) hxc)
      simp only [List.map_append, List.map_cons, List.flatten_append, List.flatten_cons, hrec]
      rw [slice_append_drop rs (by omega : f ≤ la + 1)]
      split
      · simp only [List.map_cons, List.map_nil, List.flatten_cons, List.flatten_nil, List.append_nil]
        exact slice_append_drop rs hpf
      · have : prev = f := by omega
        simp [this]

/-- **gene groups**: a group labelled with a gene is the slice from the gene's first to its
    last bin (no hypothesis on the table) -/
theorem goPos_gene_group {rs : List Bin} {ign : List String} (hAT : ign.contains antitarget = true) :
    ∀ (ks : List (Nat × String)) (prev : Nat), (∀ x ∈ ks, x ∈ firstByName (taggedFrom 0 rs)) →
      ∀ g grp, (g, grp) ∈ goPos rs ign (taggedFrom 0 rs) prev ks → ign.contains g = false →
      ∃ f la, (f, g) ∈ firstByName (taggedFrom 0 rs) ∧
        (geneIdx (taggedFrom 0 rs) g).getLast? = some la ∧ grp = slice rs f (la + 1) := by
  intro ks
  induction ks with
  | nil =>
    intro prev _ g grp hmem hg
    simp only [goPos] at hmem
    split at hmem
    · simp at hmem
      rw [hmem.1, hAT] at hg
      cases hg
    · cases hmem
  | cons k ks ih =>
    intro prev hsub g grp hmem hg
    obtain ⟨f, g'⟩ := k
    have hsub' : ∀ x ∈ ks, x ∈ firstByName (taggedFrom 0 rs) :=
      fun x hx => hsub x (List.mem_cons_of_mem _ hx)
    by_cases hc : ign.contains g' = true
    · rw [goPos_skip hc] at hmem
      exact ih prev hsub' g grp hmem hg
    · have hc' : ign.contains g' = false := by simpa using hc
      obtain ⟨la, hh, hl, _⟩ := key_facts (hsub (f, g') (by simp))
      rw [goPos_step hc' hh hl] at hmem
      rcases List.mem_append.mp hmem with h | h
      · split at h
        · simp at h
          rw [h.1, hAT] at hg
          cases hg
        · cases h
      · rcases List.mem_cons.mp h with h | h
        · cases h
          exact ⟨f, la, hsub (f, g) (by simp), hl, rfl⟩
        · exact ih (la + 1) hsub' g grp h hg

/-- the gene-labelled groups, in order: the non-ignored keys of the gene map -/
theorem goPos_labels {rs : List Bin} {ign : List String} (hAT : ign.contains antitarget = true) :
    ∀ (ks : List (Nat × String)) (prev : Nat), (∀ x ∈ ks, x ∈ firstByName (taggedFrom 0 rs)) →
      ((goPos rs ign (taggedFrom 0 rs) prev ks).map (·.1)).filter (fun g => !ign.contains g) =
        (ks.map (·.2)).filter (fun g => !ign.contains g) := by
  have hAT' : antitarget ∈ ign := List.contains_iff_mem.mp hAT
  intro ks
  induction ks with
  | nil =>
    intro prev _
    simp only [goPos]
    split <;> simp [hAT']
  | cons k ks ih =>
    intro prev hsub
    obtain ⟨f, g'⟩ := k
    have hsub' : ∀ x ∈ ks, x ∈ firstByName (taggedFrom 0 rs) :=
      fun x hx => hsub x (List.mem_cons_of_mem _ hx)
    by_cases hc : ign.contains g' = true
    · rw [goPos_skip hc, ih prev hsub']
      have hcm : g' ∈ ign := List.contains_iff_mem.mp hc
      simp [hcm]
    · have hc' : ign.contains g' = false := by simpa using hc
      obtain ⟨la, hh, hl, _⟩ := key_facts (hsub (f, g') (by simp))
      rw [goPos_step hc' hh hl]
      simp only [List.map_append, List.map_cons, List.filter_append, List.filter_cons, hc',
        Bool.not_false, ↓reduceIte, ih (la + 1) hsub']
      split <;> simp [hAT']

/-- **Antitarget groups**: labelled `Antitarget`, never empty, made of bins without a gene name -/
theorem goPos_antitarget {rs : List Bin} {ign : List String} (hcont : Contiguous ign rs) :
    ∀ (ks : List (Nat × String)) (prev : Nat), KeysOK (taggedFrom 0 rs) ks →
      (∀ x ∈ ks, ign.contains x.2 = false → prev ≤ x.1) →
      (∀ i h, (i, h) ∈ taggedFrom 0 rs → ign.contains h = false → i < prev ∨ ∃ f, (f, h) ∈ ks) →
      ∀ g grp, (g, grp) ∈ goPos rs ign (taggedFrom 0 rs) prev ks → ign.contains g = true →
        g = antitarget ∧ grp ≠ [] ∧ ∀ b ∈ grp, named ign b = [] := by
  intro ks
  induction ks with
  | nil =>
    intro prev _ _ hinv g grp hmem _
    simp only [goPos] at hmem
    split at hmem
    · rename_i hlt
      simp at hmem
      obtain ⟨rfl, rfl⟩ := hmem
      refine ⟨rfl, ?_, ?_⟩
      · intro h
        have := congrArg List.length h
        simp at this
        omega
      · intro b hb
        apply List.eq_nil_iff_forall_not_mem.mpr
        intro h hh
        obtain ⟨j, hj⟩ := List.mem_iff_getElem?.mp hb
        rw [List.getElem?_drop] at hj
        obtain ⟨hn, hi⟩ := mem_named.mp hh
        have hT : (prev + j, h) ∈ taggedFrom 0 rs := mem_taggedFrom.mpr ⟨Nat.zero_le _, b, by simpa using hj, hn⟩
        rcases hinv _ _ hT hi with h1 | ⟨f, hf⟩
        · omega
        · cases hf
    · cases hmem
  | cons k ks ih =>
    intro prev hok hprev hinv g grp hmem hg
    obtain ⟨f, g'⟩ := k
    by_cases hc : ign.contains g' = true
    · rw [goPos_skip hc] at hmem
      refine ih prev hok.tail (fun x hx => hprev x (List.mem_cons_of_mem _ hx)) ?_ g grp hmem hg
      intro i h hT hi
      rcases hinv i h hT hi with h1 | ⟨f', hf'⟩
      · exact Or.inl h1
      · rcases List.mem_cons.mp hf' with h2 | h2
        · cases h2
          rw [hc] at hi; cases hi
        · exact Or.inr ⟨f', h2⟩
    · have hc' : ign.contains g' = false := by simpa using hc
      obtain ⟨la, hh, hl, hfl, ⟨bf, hbf, _⟩, _, hrange⟩ := key_facts (hok.sub (f, g') (by simp))
      have hpf : prev ≤ f := hprev (f, g') (by simp) hc'
      rw [goPos_step hc' hh hl] at hmem
      rcases List.mem_append.mp hmem with h | h
      · split at h
        · rename_i hlt
          simp at h
          obtain ⟨rfl, rfl⟩ := h
          have hflen : f < rs.length := by
            rcases List.getElem?_eq_some_iff.mp hbf with ⟨h, _⟩
            exact h
          refine ⟨rfl, ?_, ?_⟩
          · intro h0
            have := getElem?_slice rs prev f 0
            rw [h0] at this
            simp [hlt] at this
            omega
          · intro b hb
            apply List.eq_nil_iff_forall_not_mem.mpr
            intro h hh'
            obtain ⟨j, hj⟩ := List.mem_iff_getElem?.mp hb
            rw [getElem?_slice] at hj
            split at hj
            · rename_i hjlt
              obtain ⟨hn, hi⟩ := mem_named.mp hh'
              have hT : (prev + j, h) ∈ taggedFrom 0 rs :=
                mem_taggedFrom.mpr ⟨Nat.zero_le _, b, by simpa using hj, hn⟩
              rcases hinv _ _ hT hi with h1 | ⟨f'', hf''⟩
              · omega
              · have hfirst : f'' ≤ prev + j :=
                  firstByName_first (taggedFrom_sorted 0 rs) (hok.sub _ hf'') hT
                rcases List.mem_cons.mp hf'' with h2 | h2
                · cases h2; omega
                · have := ((List.pairwise_cons.mp hok.sorted).1 _ h2).1
                  simp at this
                  omega
            · cases hj
        · cases h
      · rcases List.mem_cons.mp h with h | h
        · cases h
          rw [hc'] at hg; cases hg
        · refine ih (la + 1) hok.tail
            (fun x hx hxc => next_gene_after hcont hok hc' hl (by simpa using hx) hxc) ?_ g grp h hg
          intro i h' hT hi
          rcases hinv i h' hT hi with h1 | ⟨f', hf'⟩
          · left; omega
          · rcases List.mem_cons.mp hf' with h2 | h2
            · cases h2
              left
              have := (hrange i hT).2
              omega
            · exact Or.inr ⟨f', h2⟩

/-! ### `by_gene` on one chromosome -/

theorem antitarget_ignored (ignore : List String) : (fullIgnore ignore).contains antitarget = true := by
  apply List.contains_iff_mem.mpr
  simp [fullIgnore, antitarget, Generated.ANTITARGET_ALIASES, Generated.ANTITARGET_NAME]

theorem byGeneChrom_partition' (ignore : List String) (rs : List Bin)
    (h : Contiguous (fullIgnore ignore) rs) :
    ((byGeneChrom ignore rs).map (·.2)).flatten = rs := by
  have := goPos_flatten h (firstByName (taggedFrom 0 rs)) 0 (keysOK_all rs) (fun _ _ _ => Nat.zero_le _)
  simpa [byGeneChrom] using this

theorem byGeneChrom_gene_group' (ignore : List String) (rs : List Bin) (g : String) (grp : List Bin)
    (hmem : (g, grp) ∈ byGeneChrom ignore rs) (hg : (fullIgnore ignore).contains g = false) :
    ∃ f l, f ≤ l ∧ grp = slice rs f (l + 1) ∧
      (∃ b, rs[f]? = some b ∧ g ∈ names b) ∧ (∃ b, rs[l]? = some b ∧ g ∈ names b) ∧
      ∀ i b, rs[i]? = some b → g ∈ names b → f ≤ i ∧ i ≤ l := by
  obtain ⟨f, la, hk, hl, rfl⟩ := goPos_gene_group (antitarget_ignored ignore)
    (firstByName (taggedFrom 0 rs)) 0 (fun _ hx => hx) g grp hmem hg
  obtain ⟨la', _, hl', hfl, hb1, hb2, hrange⟩ := key_facts hk
  rw [hl] at hl'
  cases hl'
  refine ⟨f, la, hfl, rfl, hb1, hb2, ?_⟩
  intro i b hb hn
  exact hrange i (mem_taggedFrom.mpr ⟨Nat.zero_le _, b, by simpa using hb, hn⟩)

theorem byGeneChrom_labels' (ignore : List String) (rs : List Bin) :
    ((byGeneChrom ignore rs).map (·.1)).filter (fun g => !(fullIgnore ignore).contains g) =
      ((firstByName (taggedFrom 0 rs)).map (·.2)).filter (fun g => !(fullIgnore ignore).contains g) :=
  goPos_labels (antitarget_ignored ignore) _ 0 (fun _ hx => hx)

theorem byGeneChrom_antitarget' (ignore : List String) (rs : List Bin)
    (h : Contiguous (fullIgnore ignore) rs) (g : String) (grp : List Bin)
    (hmem : (g, grp) ∈ byGeneChrom ignore rs) (hg : (fullIgnore ignore).contains g = true) :
    g = antitarget ∧ grp ≠ [] ∧ ∀ b ∈ grp, named (fullIgnore ignore) b = [] := by
  refine goPos_antitarget h (firstByName (taggedFrom 0 rs)) 0 (keysOK_all rs)
    (fun _ _ _ => Nat.zero_le _) ?_ g grp hmem hg
  intro i h' hT _
  obtain ⟨f, hf⟩ := firstByName_covers hT
  exact Or.inr ⟨f, hf⟩

theorem byGeneChrom_genes_once' (ignore : List String) (rs : List Bin) :
    (((byGeneChrom ignore rs).map (·.1)).filter (fun g => !(fullIgnore ignore).contains g)).Nodup ∧
    ∀ g, g ∈ ((byGeneChrom ignore rs).map (·.1)).filter (fun g => !(fullIgnore ignore).contains g) ↔
      ((fullIgnore ignore).contains g = false ∧ ∃ b ∈ rs, g ∈ names b) := by
  rw [byGeneChrom_labels']
  constructor
  · apply List.Pairwise.filter
    rw [List.pairwise_map]
    exact firstByName_names_nodup _
  · intro g
    simp only [List.mem_filter, List.mem_map, Bool.not_eq_eq_eq_not, Bool.not_true]
    constructor
    · rintro ⟨⟨x, hx, rfl⟩, hc⟩
      refine ⟨hc, ?_⟩
      have hT := (firstByName_sublist _).subset hx
      obtain ⟨_, b, hb, hn⟩ := mem_taggedFrom.mp hT
      exact ⟨b, List.mem_of_getElem? hb, hn⟩
    · rintro ⟨hc, b, hb, hn⟩
      obtain ⟨i, hi⟩ := List.mem_iff_getElem?.mp hb
      have hT : (i, g) ∈ taggedFrom 0 rs := mem_taggedFrom.mpr ⟨Nat.zero_le _, b, by simpa using hi, hn⟩
      obtain ⟨f, hf⟩ := firstByName_covers hT
      exact ⟨⟨(f, g), hf, rfl⟩, hc⟩

theorem noTwoAT_cons_gene {x : String × List Bin} {l : List (String × List Bin)}
    (hx : x.1 ≠ antitarget) (hl : NoTwoAT l) : NoTwoAT (x :: l) := by
  cases l with
  | nil => trivial
  | cons b rest => exact ⟨fun h => hx h.1, hl⟩

theorem goPos_noTwoAT {rs : List Bin} {ign : List String} (hAT : ign.contains antitarget = true) :
    ∀ (ks : List (Nat × String)) (prev : Nat), (∀ x ∈ ks, x ∈ firstByName (taggedFrom 0 rs)) →
      NoTwoAT (goPos rs ign (taggedFrom 0 rs) prev ks) := by
  intro ks
  induction ks with
  | nil =>
    intro prev _
    simp only [goPos]
    split <;> trivial
  | cons k ks ih =>
    intro prev hsub
    obtain ⟨f, g'⟩ := k
    have hsub' : ∀ x ∈ ks, x ∈ firstByName (taggedFrom 0 rs) :=
      fun x hx => hsub x (List.mem_cons_of_mem _ hx)
    by_cases hc : ign.contains g' = true
    · rw [goPos_skip hc]
      exact ih prev hsub'
    · have hc' : ign.contains g' = false := by simpa using hc
      obtain ⟨la, hh, hl, _⟩ := key_facts (hsub (f, g') (by simp))
      rw [goPos_step hc' hh hl]
      have hne : g' ≠ antitarget := by
        intro h; rw [h, hAT] at hc'; cases hc'
      have hrest : NoTwoAT ((g', slice rs f (la + 1)) :: goPos rs ign (taggedFrom 0 rs) (la + 1) ks) :=
        noTwoAT_cons_gene hne (ih (la + 1) hsub')
      split
      · exact ⟨fun h => hne h.2, hrest⟩
      · exact hrest

theorem byGeneChrom_noTwoAT' (ignore : List String) (rs : List Bin) : NoTwoAT (byGeneChrom ignore rs) :=
  goPos_noTwoAT (antitarget_ignored ignore) _ 0 (fun _ hx => hx)

/-! ### any index labelling -/

theorem names_relabel (f : Bin → Int) (b : Bin) : names (relabel f b) = names b := rfl

theorem taggedFrom_relabel (f : Bin → Int) (k : Nat) (rs : List Bin) :
    taggedFrom k (rs.map (relabel f)) = taggedFrom k rs := by
  induction rs generalizing k with
  | nil => rfl
  | cons b rs ih => simp [taggedFrom, names_relabel, ih]

theorem slice_map {α β} (f : α → β) (rs : List α) (a b : Nat) :
    slice (rs.map f) a b = (slice rs a b).map f := by
  simp [slice, List.map_take, List.map_drop]

theorem goPos_relabel (f : Bin → Int) (rs : List Bin) (ign : List String) (T : List (Nat × String)) :
    ∀ (ks : List (Nat × String)) (prev : Nat),
      goPos (rs.map (relabel f)) ign T prev ks =
        (goPos rs ign T prev ks).map (fun p => (p.1, p.2.map (relabel f))) := by
  intro ks
  induction ks with
  | nil =>
    intro prev
    simp only [goPos, List.length_map]
    split <;> simp [List.map_drop]
  | cons k ks ih =>
    intro prev
    obtain ⟨i, g⟩ := k
    simp only [goPos]
    split
    · exact ih prev
    · split
      · simp only [ih, slice_map, List.map_append, List.map_cons]
        split <;> simp
      · exact ih prev

theorem byGeneChrom_relabel' (f : Bin → Int) (ignore : List String) (rs : List Bin) :
    byGeneChrom ignore (rs.map (relabel f)) =
      (byGeneChrom ignore rs).map (fun p => (p.1, p.2.map (relabel f))) := by
  simp only [byGeneChrom, taggedFrom_relabel, goPos_relabel]

/-! ### the whole table: chromosome by chromosome -/

theorem mem_firstKeys {l : List String} {c : String} : c ∈ firstKeys l ↔ c ∈ l := by
  induction l with
  | nil => simp [firstKeys]
  | cons a as ih =>
    simp only [firstKeys, List.mem_cons, List.mem_filter, ih]
    constructor
    · rintro (h | ⟨h, _⟩)
      · exact Or.inl h
      · exact Or.inr h
    · rintro (h | h)
      · exact Or.inl h
      · by_cases hc : c = a
        · exact Or.inl hc
        · exact Or.inr ⟨h, by simpa using hc⟩

theorem firstKeys_nodup (l : List String) : (firstKeys l).Nodup := by
  induction l with
  | nil => simp [firstKeys]
  | cons a as ih =>
    simp only [firstKeys]
    refine List.nodup_cons.mpr ⟨?_, List.Pairwise.filter _ ih⟩
    intro h
    have := (List.mem_filter.mp h).2
    simp at this

theorem filter_or_perm {α} (p q : α → Bool) (hd : ∀ x, ¬(p x = true ∧ q x = true)) (t : List α) :
    (t.filter (fun x => p x || q x)).Perm (t.filter p ++ t.filter q) := by
  induction t with
  | nil => simp
  | cons x t ih =>
    cases hp : p x <;> cases hq : q x
    · simpa [List.filter_cons, hp, hq] using ih
    · simp only [List.filter_cons, hp, hq, Bool.or_true, ↓reduceIte]
      exact (List.Perm.cons x ih).trans List.perm_middle.symm
    · simp only [List.filter_cons, hp, hq, Bool.or_false, ↓reduceIte, List.cons_append]
      exact List.Perm.cons x ih
    · exact absurd ⟨hp, hq⟩ (hd x)

theorem flatMap_filter_perm (t : List Bin) (ks : List String) (hk : ks.Nodup) :
    (ks.flatMap (fun c => t.filter (fun b => b.chrom == c))).Perm
      (t.filter (fun b => ks.contains b.chrom)) := by
  induction ks with
  | nil => simp
  | cons c ks ih =>
    obtain ⟨hc, hks⟩ := List.nodup_cons.mp hk
    simp only [List.flatMap_cons]
    have h1 : (t.filter (fun b => (c :: ks).contains b.chrom)) =
        t.filter (fun b => (b.chrom == c) || ks.contains b.chrom) := by
      congr 1
    rw [h1]
    refine List.Perm.trans ?_ (filter_or_perm _ _ ?_ t).symm
    · exact List.Perm.append_left _ (ih hks)
    · intro b ⟨hb1, hb2⟩
      have : b.chrom = c := by simpa using hb1
      rw [this] at hb2
      exact hc (List.contains_iff_mem.mp hb2)

/-- `by_chromosome()` hands out every row exactly once -/
theorem byChrom_perm (t : List Bin) : (((byChrom t).map (·.2)).flatten).Perm t := by
  have h := flatMap_filter_perm t (firstKeys (t.map (·.chrom))) (firstKeys_nodup _)
  have h2 : t.filter (fun b => (firstKeys (t.map (·.chrom))).contains b.chrom) = t := by
    apply List.filter_eq_self.mpr
    intro b hb
    exact List.contains_iff_mem.mpr (mem_firstKeys.mpr (List.mem_map_of_mem hb))
  rw [h2] at h
  have h3 : ((byChrom t).map (·.2)).flatten =
      (firstKeys (t.map (·.chrom))).flatMap (fun c => t.filter (fun b => b.chrom == c)) := by
    simp [byChrom, List.flatMap_def, List.map_map, Function.comp_def]
  rw [h3]
  exact h

theorem flatMap_flatten_eq {L : List (String × List Bin)} {F : String × List Bin → List (String × List Bin)}
    (h : ∀ p ∈ L, ((F p).map (·.2)).flatten = p.2) :
    ((L.flatMap F).map (·.2)).flatten = (L.map (·.2)).flatten := by
  induction L with
  | nil => rfl
  | cons p L ih =>
    simp only [List.flatMap_cons, List.map_append, List.flatten_append, List.map_cons, List.flatten_cons]
    rw [h p (by simp), ih (fun q hq => h q (List.mem_cons_of_mem _ hq))]

theorem byGene_partition' (ignore : List String) (t : List Bin)
    (h : TableContiguous (fullIgnore ignore) t) :
    ((byGene ignore t).map (·.2)).flatten = ((byChrom t).map (·.2)).flatten := by
  unfold byGene
  exact flatMap_flatten_eq (fun p hp => byGeneChrom_partition' ignore p.2 (h p hp))

theorem byGene_each_bin_once' (ignore : List String) (t : List Bin)
    (h : TableContiguous (fullIgnore ignore) t) :
    (((byGene ignore t).map (·.2)).flatten).Perm t := by
  rw [byGene_partition' ignore t h]
  exact byChrom_perm t

/-! ### genemetrics -/

/-- the fields of the row `group_by_genes` reports for a group -/
theorem groupRow_fields {g : String} {rows : List Bin} {skip : Bool} {r : GRow}
    (h : groupRow g rows skip = some r) :
    ∃ first last, rows.head? = some first ∧ rows.getLast? = some last ∧
      r.gene = g ∧ r.chrom = first.chrom ∧ r.s = first.s ∧ r.e = last.e ∧
      r.probes = rows.length ∧ r.weight = sumRat (rows.map (·.weight)) ∧
      r.log2 = segmentMean rows skip ∧ r.segWeight = none ∧ r.segProbes = none ∧
      (r.weight ≠ 0 → r.depth = some (sumRat (rows.map (fun b => b.depth * b.weight)) / r.weight)) := by
  unfold groupRow at h
  split at h
  · rename_i first rest last hlast
    cases h
    refine ⟨first, last, rfl, hlast, rfl, rfl, rfl, rfl, rfl, rfl, rfl, rfl, rfl, ?_⟩
    intro hw
    have hw' : sumRat (List.map (fun x => x.weight) (first :: rest)) ≠ 0 := hw
    have hb : (sumRat (List.map (fun x => x.weight) (first :: rest)) == 0) = false :=
      beq_eq_false_iff_ne.mpr hw'
    show (if (sumRat (List.map (fun x => x.weight) (first :: rest)) == 0) = true then none else some _) = _
    rw [hb]
    rfl
  · cases h

theorem groupRow_isSome {g : String} {rows : List Bin} {skip : Bool} (h : rows ≠ []) :
    ∃ r, groupRow g rows skip = some r := by
  cases rows with
  | nil => exact absurd rfl h
  | cons a as =>
    have hne : (a :: as) ≠ [] := by simp
    unfold groupRow
    rw [List.getLast?_eq_some_getLast hne]
    exact ⟨_, rfl⟩

/-- the mean `segment_mean` reports is the weight-averaged log2 of the bins it keeps -/
theorem segmentMean_weighted (rows : List Bin) (skip : Bool)
    (h : ((if skip then rows.filter keptLow else rows).any (fun b => b.weight != 0)) = true) :
    segmentMean rows skip =
      some (sumRat ((if skip then rows.filter keptLow else rows).map (fun b => b.log2 * b.weight)) /
            sumRat ((if skip then rows.filter keptLow else rows).map (·.weight))) := by
  unfold segmentMean
  have hne : (if skip then rows.filter keptLow else rows).isEmpty = false := by
    cases hk : (if skip then rows.filter keptLow else rows) with
    | nil => rw [hk] at h; simp at h
    | cons _ _ => rfl
  simp only [hne, h]
  simp

theorem mem_groupByGenes {t : List Bin} {skip : Bool} {r : GRow} :
    r ∈ groupByGenes t skip ↔
      ∃ g grp, (g, grp) ∈ byGene defaultIgnore t ∧ grp ≠ [] ∧ skipNames.contains g = false ∧
        groupRow g grp skip = some r := by
  simp only [groupByGenes, byGeneV, List.mem_filterMap, List.mem_filter, Bool.false_eq_true, ↓reduceIte,
    Bool.and_eq_true, Bool.not_eq_eq_eq_not, Bool.not_true, List.isEmpty_eq_false_iff]
  constructor
  · rintro ⟨⟨g, grp⟩, ⟨hm, hne, hs⟩, hr⟩
    exact ⟨g, grp, hm, hne, hs, hr⟩
  · rintro ⟨g, grp, hm, hne, hs, hr⟩
    exact ⟨(g, grp), ⟨hm, hne, hs⟩, hr⟩

/-- **genemetrics without segments**: the rows are exactly those of the gene groups whose
    mean reaches the threshold -/
theorem mem_metricsByGene {t : List Bin} {thr : Rat} {skip : Bool} {r : GRow} :
    r ∈ metricsByGene t thr skip ↔
      ∃ g grp, (g, grp) ∈ byGene defaultIgnore t ∧ grp ≠ [] ∧ skipNames.contains g = false ∧
        groupRow g grp skip = some r ∧ reaches r.log2 thr = true := by
  simp only [metricsByGene, List.mem_filter, mem_groupByGenes, Bool.and_eq_true]
  constructor
  · rintro ⟨⟨g, grp, hm, hne, hs, hr⟩, hreach, _⟩
    exact ⟨g, grp, hm, hne, hs, hr, hreach⟩
  · rintro ⟨g, grp, hm, hne, hs, hr, hreach⟩
    refine ⟨⟨g, grp, hm, hne, hs, hr⟩, hreach, ?_⟩
    obtain ⟨_, _, _, _, hg, _⟩ := groupRow_fields hr
    rw [hg]
    have : g ≠ "" := by
      intro h0
      rw [h0] at hs
      simp [skipNames] at hs
    simpa using this

theorem mem_segsInOrder {segs : List SegRow} {sg : SegRow} : sg ∈ segsInOrder segs ↔ sg ∈ segs := by
  simp only [segsInOrder, List.mem_flatMap, List.mem_filter, mem_firstKeys, List.mem_map]
  constructor
  · rintro ⟨c, _, h, _⟩
    exact h
  · intro h
    exact ⟨sg.chrom, ⟨sg, h, rfl⟩, h, by simp⟩

theorem mem_binsOfSegment {t : List Bin} {sg : SegRow} {b : Bin} :
    b ∈ binsOfSegment t sg ↔ b ∈ t ∧ b.chrom = sg.chrom ∧ sg.s < b.e ∧ b.s < sg.e := by
  simp [binsOfSegment, and_assoc]

/-- **genemetrics with segments**: for each segment reaching the threshold, one row per gene
    group of the bins overlapping it, carrying the segment's log2, weight and probes -/
theorem mem_metricsBySegment {t : List Bin} {segs : List SegRow} {thr : Rat} {skip : Bool} {r : GRow} :
    r ∈ metricsBySegment t segs thr skip ↔
      ∃ sg ∈ segs, ratAbs sg.log2 ≥ thr ∧
        ∃ g grp r0, (g, grp) ∈ byGene defaultIgnore (binsOfSegment t sg) ∧ grp ≠ [] ∧
          skipNames.contains g = false ∧ groupRow g grp skip = some r0 ∧
          r = { r0 with log2 := some sg.log2, segWeight := sg.weight, segProbes := sg.probes } := by
  simp only [metricsBySegment, segmentPart, List.mem_flatMap, List.mem_filter, mem_segsInOrder,
    List.mem_map, mem_groupByGenes, decide_eq_true_eq]
  constructor
  · rintro ⟨sg, ⟨hs, hthr⟩, r0, ⟨g, grp, hm, hne, hsk, hr⟩, rfl⟩
    exact ⟨sg, hs, hthr, g, grp, r0, hm, hne, hsk, hr, rfl⟩
  · rintro ⟨sg, hs, hthr, g, grp, r0, hm, hne, hsk, hr, rfl⟩
    exact ⟨sg, ⟨hs, hthr⟩, r0, ⟨g, grp, hm, hne, hsk, hr⟩, rfl⟩

/-- the final `min_probes` filter when no row carries `segment_probes` -/
theorem mem_minProbesFilter_plain {rows : List GRow} {m : Nat} (h : ∀ r ∈ rows, r.segProbes = none)
    {r : GRow} : r ∈ minProbesFilter rows m ↔ r ∈ rows ∧ (m = 0 ∨ m ≤ r.probes) := by
  unfold minProbesFilter
  by_cases hm : m = 0
  · simp [hm]
  · have hany : (rows.any (fun r => r.segProbes.isSome)) = false := by
      apply List.any_eq_false.mpr
      intro x hx
      simp [h x hx]
    by_cases he : rows.isEmpty = true
    · have : rows = [] := List.isEmpty_iff.mp he
      simp [this]
    · simp [hm, he, hany, List.mem_filter]

/-- … and when every row carries `segment_probes` -/
theorem mem_minProbesFilter_seg {rows : List GRow} {m : Nat} (h : ∀ r ∈ rows, ∃ p, r.segProbes = some p)
    {r : GRow} : r ∈ minProbesFilter rows m ↔
      r ∈ rows ∧ (m = 0 ∨ ∃ p, r.segProbes = some p ∧ (m : Int) ≤ p) := by
  unfold minProbesFilter
  by_cases hm : m = 0
  · simp [hm]
  · by_cases he : rows.isEmpty = true
    · have : rows = [] := List.isEmpty_iff.mp he
      simp [this]
    · have hany : (rows.any (fun r => r.segProbes.isSome)) = true := by
        cases rows with
        | nil => simp at he
        | cons x xs =>
          obtain ⟨p, hp⟩ := h x (by simp)
          simp [hp]
      have hm' : (m == 0) = false := by simpa using hm
      have he' : rows.isEmpty = false := by simpa using he
      simp only [hm', he', hany, Bool.or_self, Bool.false_eq_true, ↓reduceIte, List.mem_filter]
      constructor
      · rintro ⟨hr, hp⟩
        refine ⟨hr, Or.inr ?_⟩
        obtain ⟨p, hp'⟩ := h r hr
        rw [hp'] at hp
        exact ⟨p, hp', by simpa using hp⟩
      · rintro ⟨hr, h0 | ⟨p, hp, hle⟩⟩
        · exact absurd h0 hm
        · refine ⟨hr, ?_⟩
          rw [hp]
          simpa using hle

/-! ### squash_genes -/

theorem squashGroup_antitarget (f : Summary) (g : String) (grp : List Bin)
    (hg : Generated.ANTITARGET_ALIASES.contains g = true) : squashGroup f false (g, grp) = grp := by
  cases grp with
  | nil => rfl
  | cons a as =>
    simp only [squashGroup, hg, List.isEmpty_cons, Bool.false_eq_true, ↓reduceIte, Bool.not_false,
      Bool.and_self]

/-- a gene group becomes one row from its first bin's start to its last bin's end -/
theorem squashGroup_gene (f : Summary) (sa : Bool) (g : String) (grp : List Bin)
    (hg : Generated.ANTITARGET_ALIASES.contains g = false) (hne : grp ≠ []) :
    ∃ r first last, squashGroup f sa (g, grp) = [r] ∧ grp.head? = some first ∧ grp.getLast? = some last ∧
      r.chrom = first.chrom ∧ r.s = first.s ∧ r.e = last.e ∧ (2 ≤ grp.length → r.gene = g) := by
  cases grp with
  | nil => exact absurd rfl hne
  | cons a as =>
    cases as with
    | nil =>
      refine ⟨a, a, a, ?_, rfl, rfl, rfl, rfl, rfl, ?_⟩
      · simp [squashGroup, squashRows]
      · intro h; simp at h
    | cons b bs =>
      have hne' : (a :: b :: bs) ≠ [] := by simp
      have hl := List.getLast?_eq_some_getLast hne'
      have hsq : squashGroup f sa (g, a :: b :: bs) =
          [{ label := 0, chrom := a.chrom, s := a.s, e := ((a :: b :: bs).getLast hne').e, gene := g,
             log2 := f.apply ((a :: b :: bs).map (·.log2)), depth := f.apply ((a :: b :: bs).map (·.depth)),
             weight := f.apply ((a :: b :: bs).map (·.weight)) }] := by
        simp only [squashGroup, hg, List.isEmpty_cons, Bool.false_eq_true, ↓reduceIte, Bool.false_and]
        unfold squashRows
        rw [hl]
        rfl
      exact ⟨_, a, _, hsq, rfl, hl, rfl, rfl, rfl, fun _ => rfl⟩

/-! ### the executable hypothesis check -/

/-- a reported last index points at an element satisfying the predicate -/
theorem lastIdxWith_some {α} (p : α → Bool) :
    ∀ (l : List α) (k : Nat), lastIdxWith p l = some k → ∃ x, l[k]? = some x ∧ p x = true
  | [], k, h => by simp [lastIdxWith] at h
  | x :: xs, k, h => by
    simp only [lastIdxWith] at h
    split at h
    · rename_i k' hk'
      cases h
      obtain ⟨y, hy, hp⟩ := lastIdxWith_some p xs k' hk'
      exact ⟨y, by simpa using hy, hp⟩
    · split at h
      · rename_i hpx
        cases h
        exact ⟨x, by simp, hpx⟩
      · cases h

/-- every element satisfying the predicate sits at or before the reported last index -/
theorem lastIdxWith_ge {α} (p : α → Bool) :
    ∀ (l : List α) (i : Nat) (x : α), l[i]? = some x → p x = true →
      ∃ k, lastIdxWith p l = some k ∧ i ≤ k
  | [], i, x, h, _ => by simp at h
  | y :: ys, i, x, h, hp => by
    simp only [lastIdxWith]
    cases i with
    | zero =>
      simp at h
      subst h
      cases hl : lastIdxWith p ys with
      | some k => exact ⟨k + 1, by simp, by omega⟩
      | none => exact ⟨0, by simp [hp], Nat.le_refl _⟩
    | succ i =>
      simp at h
      obtain ⟨k, hk, hik⟩ := lastIdxWith_ge p ys i x h hp
      exact ⟨k + 1, by simp [hk], by omega⟩

/-- no index reported: no element satisfies the predicate -/
theorem lastIdxWith_none {α} (p : α → Bool) (l : List α) (h : lastIdxWith p l = none) :
    ∀ x ∈ l, p x = false := by
  intro x hx
  obtain ⟨i, hi⟩ := List.mem_iff_getElem?.mp hx
  cases hp : p x with
  | false => rfl
  | true =>
    obtain ⟨k, hk, _⟩ := lastIdxWith_ge p l i x hi hp
    rw [h] at hk
    cases hk

theorem Contiguous.tail {ign : List String} {b : Bin} {rest : List Bin}
    (h : Contiguous ign (b :: rest)) : Contiguous ign rest := by
  intro i j k bi bj bk hij hjk hi hj hk
  exact h (i + 1) (j + 1) (k + 1) bi bj bk (by omega) (by omega)
    (by simpa using hi) (by simpa using hj) (by simpa using hk)

/-- the bins the head clause of `contiguousB` inspects for the gene `g` -/
def uptoLast (ign : List String) (b : Bin) (rest : List Bin) (g : String) : List Bin :=
  match lastIdxWith (fun x => (named ign x).contains g) rest with
  | some k => b :: rest.take (k + 1)
  | none => [b]

theorem contiguousB_cons (ign : List String) (b : Bin) (rest : List Bin) :
    contiguousB ign (b :: rest) = true ↔
      (∀ g ∈ named ign b, ∀ y ∈ uptoLast ign b rest g, ∀ h ∈ named ign y, h = g) ∧
        contiguousB ign rest = true := by
  simp only [contiguousB, uptoLast, Bool.and_eq_true, List.all_eq_true, beq_iff_eq]
  exact Iff.rfl

theorem head_mem_uptoLast (ign : List String) (b : Bin) (rest : List Bin) (g : String) :
    b ∈ uptoLast ign b rest g := by
  unfold uptoLast
  split <;> simp

/-- membership in `uptoLast` by position in `b :: rest` -/
theorem mem_uptoLast_of_le {ign : List String} {b : Bin} {rest : List Bin} {g : String}
    {j k : Nat} {bj bk : Bin} (hjk : j ≤ k + 1) (hj : (b :: rest)[j]? = some bj)
    (hk : rest[k]? = some bk) (hg : g ∈ named ign bk) : bj ∈ uptoLast ign b rest g := by
  obtain ⟨k', hk', hkk'⟩ := lastIdxWith_ge (fun x => (named ign x).contains g) rest k bk hk
    (List.contains_iff_mem.mpr hg)
  unfold uptoLast
  rw [hk']
  cases j with
  | zero =>
    simp at hj
    subst hj
    simp
  | succ j =>
    have hj' : rest[j]? = some bj := by simpa using hj
    apply List.mem_cons_of_mem
    apply List.mem_iff_getElem?.mpr
    refine ⟨j, ?_⟩
    rw [List.getElem?_take]
    have : j < k' + 1 := by omega
    simp [this, hj']

/-- an element of `uptoLast` lies between the head and a later bin carrying `g` (or is the head) -/
theorem uptoLast_position {ign : List String} {b : Bin} {rest : List Bin} {g : String} {y : Bin}
    (hy : y ∈ uptoLast ign b rest g) :
    y = b ∨ ∃ (j k : Nat) (bk : Bin), j ≤ k ∧ rest[j]? = some y ∧ rest[k]? = some bk ∧ g ∈ named ign bk := by
  unfold uptoLast at hy
  split at hy
  · rename_i k hk
    obtain ⟨bk, hbk, hp⟩ := lastIdxWith_some _ rest k hk
    rcases List.mem_cons.mp hy with h | h
    · exact Or.inl h
    · right
      obtain ⟨j, hj⟩ := List.mem_iff_getElem?.mp h
      rw [List.getElem?_take] at hj
      split at hj
      · refine ⟨j, k, bk, ?_, hj, hbk, List.contains_iff_mem.mp hp⟩
        omega
      · cases hj
  · left
    simpa using hy

/-- the executable check used by the driver decides the property's hypothesis -/
theorem contiguousB_iff' (ign : List String) (rs : List Bin) :
    contiguousB ign rs = true ↔ Contiguous ign rs := by
  induction rs with
  | nil =>
    constructor
    · intro _ i j k bi bj bk _ _ hi
      simp at hi
    · intro _
      rfl
  | cons b rest ih =>
    rw [contiguousB_cons]
    constructor
    · rintro ⟨hhead, htail⟩
      have hrest := ih.mp htail
      intro i j k bi bj bk hij hjk hi hj hk g hgi hgk h hh
      cases i with
      | zero =>
        simp at hi
        subst hi
        cases k with
        | zero =>
          have : j = 0 := by omega
          subst this
          simp at hj
          subst hj
          exact hhead g hgi _ (head_mem_uptoLast ign _ rest g) h hh
        | succ k =>
          have hk' : rest[k]? = some bk := by simpa using hk
          cases j with
          | zero =>
            simp at hj
            subst hj
            exact hhead g hgi _ (head_mem_uptoLast ign _ rest g) h hh
          | succ j =>
            exact hhead g hgi bj
              (mem_uptoLast_of_le (j := j + 1) (k := k) (by omega) hj hk' hgk) h hh
      | succ i =>
        cases j with
        | zero => omega
        | succ j =>
          cases k with
          | zero => omega
          | succ k =>
            exact hrest i j k bi bj bk (by omega) (by omega) (by simpa using hi)
              (by simpa using hj) (by simpa using hk) g hgi hgk h hh
    · intro H
      refine ⟨?_, ih.mpr H.tail⟩
      intro g hg y hy h hh
      rcases uptoLast_position hy with rfl | ⟨j, k, bk, hjk, hj, hk, hgk⟩
      · exact H 0 0 0 y y y (Nat.le_refl _) (Nat.le_refl _) (by simp) (by simp) (by simp)
          g hg hg h hh
      · exact H 0 (j + 1) (k + 1) b y bk (by omega) (by omega) (by simp) (by simpa using hj)
          (by simpa using hk) g hg hgk h hh

/-! ### breaks -/

/-! ### helper lemmas -/

theorem brk_mem_firstKeys {l : List String} {c : String} : c ∈ firstKeys l ↔ c ∈ l := by
  induction l with
  | nil => simp [firstKeys]
  | cons a as ih =>
    simp only [firstKeys, List.mem_cons, List.mem_filter, ih]
    constructor
    · rintro (h | ⟨h, _⟩)
      · exact Or.inl h
      · exact Or.inr h
    · rintro (h | h)
      · exact Or.inl h
      · by_cases hc : c = a
        · exact Or.inl hc
        · exact Or.inr ⟨h, by simpa using hc⟩

/-- the two-step recursion of `breakpoints` visits exactly the consecutive pairs -/
theorem mem_breakpoints (t : List Bin) (m : Nat) (segs : List SegRow) (brk : Brk) :
    brk ∈ breakpoints t m segs ↔
      ∃ cur nxt, Consecutive cur nxt segs ∧ brk ∈ breaksAt t m cur nxt := by
  induction segs with
  | nil =>
    simp only [breakpoints, List.not_mem_nil, false_iff]
    rintro ⟨cur, nxt, ⟨l1, l2, h⟩, _⟩
    have := congrArg List.length h
    simp at this
  | cons a rest ih =>
    cases rest with
    | nil =>
      simp only [breakpoints, List.not_mem_nil, false_iff]
      rintro ⟨cur, nxt, ⟨l1, l2, h⟩, _⟩
      have := congrArg List.length h
      simp at this
      omega
    | cons b rest =>
      simp only [breakpoints, List.mem_append, ih]
      constructor
      · rintro (h | ⟨cur, nxt, ⟨l1, l2, h⟩, hb⟩)
        · exact ⟨a, b, ⟨[], rest, rfl⟩, h⟩
        · exact ⟨cur, nxt, ⟨a :: l1, l2, by rw [h]; rfl⟩, hb⟩
      · rintro ⟨cur, nxt, ⟨l1, l2, h⟩, hb⟩
        cases l1 with
        | nil =>
          simp only [List.nil_append, List.cons.injEq] at h
          obtain ⟨rfl, rfl, rfl⟩ := h
          exact Or.inl hb
        | cons x l1 =>
          simp only [List.cons_append, List.cons.injEq] at h
          exact Or.inr ⟨cur, nxt, ⟨l1, l2, h.2⟩, hb⟩

theorem foldl_max_ge (l : List Int) (a : Int) :
    a ≤ l.foldl max a ∧ ∀ x ∈ l, x ≤ l.foldl max a := by
  induction l generalizing a with
  | nil => simp
  | cons y ys ih =>
    simp only [List.foldl_cons]
    have := ih (max a y)
    refine ⟨by omega, ?_⟩
    intro x hx
    rcases List.mem_cons.mp hx with rfl | hx
    · omega
    · exact this.2 x hx

theorem le_maxInt {l : List Int} {x : Int} (h : x ∈ l) : x ≤ maxInt l := by
  cases l with
  | nil => cases h
  | cons y ys =>
    simp only [maxInt]
    rcases List.mem_cons.mp h with rfl | h
    · exact (foldl_max_ge ys x).1
    · exact (foldl_max_ge ys y).2 x h

theorem sorted_headD_le {l : List Int} {x : Int} (h : x ∈ l) :
    (l.mergeSort (fun a b => decide (a ≤ b))).headD 0 ≤ x := by
  have hs : (l.mergeSort (fun a b => decide (a ≤ b))).Pairwise
      (fun a b => (fun a b : Int => decide (a ≤ b)) a b = true) :=
    List.pairwise_mergeSort (le := fun a b : Int => decide (a ≤ b))
      (by intro a b c h1 h2; simp at *; omega) (by intro a b; simp; omega) l
  have hx : x ∈ l.mergeSort (fun a b => decide (a ≤ b)) := List.mem_mergeSort.mpr h
  cases hl : l.mergeSort (fun a b => decide (a ≤ b)) with
  | nil => rw [hl] at hx; cases hx
  | cons y ys =>
    rw [hl] at hx hs
    simp only [List.headD_cons]
    rcases List.mem_cons.mp hx with rfl | hx
    · exact Int.le_refl _
    · have := List.rel_of_pairwise_cons hs hx
      simpa using this

/-- the rows `get_gene_intervals` keeps for a gene that is not ignored -/
theorem filter_gene_eq (t : List Bin) (c g : String) (ign : List String)
    (hg : ign.contains g = false) :
    (t.filter (fun b => b.chrom == c && !ign.contains b.gene)).filter (fun b => b.gene == g) =
      geneBins t c g := by
  rw [List.filter_filter]
  unfold geneBins
  apply List.filter_congr
  intro b _
  cases h : (b.gene == g)
  · simp
  · have : b.gene = g := by simpa using h
    rw [this, hg]
    simp

/-- the interval `get_gene_intervals` builds for the gene `g` of chromosome `c` -/
def ivOf (t : List Bin) (c g : String) : GeneIv :=
  { gene := g, starts := ((geneBins t c g).map (·.s)).mergeSort (fun a b => decide (a ≤ b)),
    stop := maxInt ((geneBins t c g).map (·.e)) }

theorem mem_geneIntervals (t : List Bin) (c : String) (iv : GeneIv) :
    iv ∈ geneIntervals t c ↔
      ∃ g, (fullIgnore defaultIgnore).contains g = false ∧ geneBins t c g ≠ [] ∧ iv = ivOf t c g := by
  unfold geneIntervals
  simp only [List.mem_mergeSort, List.mem_map, brk_mem_firstKeys]
  constructor
  · rintro ⟨g, ⟨b, hb, rfl⟩, rfl⟩
    obtain ⟨hbt, hcond⟩ := List.mem_filter.mp hb
    simp only [Bool.and_eq_true, Bool.not_eq_eq_eq_not, Bool.not_true] at hcond
    obtain ⟨hc, hi⟩ := hcond
    refine ⟨b.gene, hi, ?_, ?_⟩
    · apply List.ne_nil_of_mem (a := b)
      unfold geneBins
      exact List.mem_filter.mpr ⟨hbt, by simp [hc]⟩
    · simp only [ivOf, filter_gene_eq t c b.gene _ hi]
  · rintro ⟨g, hi, hne, rfl⟩
    obtain ⟨b, hb⟩ := List.exists_mem_of_ne_nil _ hne
    unfold geneBins at hb
    obtain ⟨hbt, hcond⟩ := List.mem_filter.mp hb
    simp only [Bool.and_eq_true, beq_iff_eq] at hcond
    obtain ⟨hc, hg⟩ := hcond
    refine ⟨g, ⟨b, List.mem_filter.mpr ⟨hbt, ?_⟩, hg⟩, ?_⟩
    · rw [hg, hi, hc]; simp
    · simp only [ivOf, filter_gene_eq t c g _ hi]

theorem countP_starts (t : List Bin) (c g : String) (p : Int → Bool) :
    (ivOf t c g).starts.countP p = (geneBins t c g).countP (fun b => p b.s) := by
  simp only [ivOf]
  rw [(List.mergeSort_perm _ _).countP_eq p, List.countP_map]
  rfl

/-- the guard of `get_breakpoints` follows from one bin on each side of the boundary -/
theorem guard_of_counts (t : List Bin) (c g : String) (x : Int) (hpos : ∀ b ∈ t, b.s < b.e)
    (hl : 1 ≤ (geneBins t c g).countP (fun b => decide (b.s < x)))
    (hr : 1 ≤ (geneBins t c g).countP (fun b => decide (b.s ≥ x))) :
    (ivOf t c g).starts.headD 0 < x ∧ x < (ivOf t c g).stop := by
  constructor
  · obtain ⟨b, hb, hlt⟩ := List.countP_pos_iff.mp hl
    have hlt' : b.s < x := by simpa using hlt
    have : (ivOf t c g).starts.headD 0 ≤ b.s := by
      simp only [ivOf]
      exact sorted_headD_le (List.mem_map_of_mem hb)
    omega
  · obtain ⟨b, hb, hge⟩ := List.countP_pos_iff.mp hr
    have hge' : x ≤ b.s := by simpa using hge
    have hbt : b ∈ t := (List.mem_filter.mp hb).1
    have := hpos b hbt
    have : b.e ≤ (ivOf t c g).stop := by
      simp only [ivOf]
      exact le_maxInt (List.mem_map_of_mem hb)
    omega

theorem mem_breaksAt (t : List Bin) (m : Nat) (cur nxt : SegRow) (hm : 1 ≤ m)
    (hpos : ∀ b ∈ t, b.s < b.e) (brk : Brk) :
    brk ∈ breaksAt t m cur nxt ↔
      nxt.chrom = cur.chrom ∧
        ∃ g, (fullIgnore defaultIgnore).contains g = false ∧ geneBins t cur.chrom g ≠ [] ∧
          m ≤ (geneBins t cur.chrom g).countP (fun b => decide (b.s < cur.e)) ∧
          m ≤ (geneBins t cur.chrom g).countP (fun b => decide (b.s ≥ cur.e)) ∧
          brk = { gene := g, chrom := cur.chrom, loc := cur.e, change := nxt.log2 - cur.log2,
                  left := (geneBins t cur.chrom g).countP (fun b => decide (b.s < cur.e)),
                  right := (geneBins t cur.chrom g).countP (fun b => decide (b.s ≥ cur.e)) } := by
  unfold breaksAt
  by_cases hch : nxt.chrom = cur.chrom
  · have hne : (nxt.chrom != cur.chrom) = false := by simp [hch]
    simp only [hne, Bool.false_eq_true, ↓reduceIte, List.mem_filterMap, mem_geneIntervals]
    constructor
    · rintro ⟨iv, ⟨g, hi, hnil, rfl⟩, hsome⟩
      refine ⟨hch, g, hi, hnil, ?_⟩
      split at hsome
      · rw [countP_starts, countP_starts] at hsome
        split at hsome
        · rename_i hcnt
          simp only [Bool.and_eq_true, decide_eq_true_eq] at hcnt
          simp only [Option.some.injEq] at hsome
          exact ⟨hcnt.1, hcnt.2, hsome.symm⟩
        · cases hsome
      · cases hsome
    · rintro ⟨_, g, hi, hnil, hl, hr, rfl⟩
      refine ⟨ivOf t cur.chrom g, ⟨g, hi, hnil, rfl⟩, ?_⟩
      have hg := guard_of_counts t cur.chrom g cur.e hpos (by omega) (by omega)
      have hguard : (decide ((ivOf t cur.chrom g).starts.headD 0 < cur.e) &&
          decide (cur.e < (ivOf t cur.chrom g).stop)) = true := by
        rw [decide_eq_true hg.1, decide_eq_true hg.2]; rfl
      rw [if_pos hguard]
      rw [countP_starts, countP_starts]
      have hcnt : (decide ((geneBins t cur.chrom g).countP (fun b => decide (b.s < cur.e)) ≥ m) &&
          decide ((geneBins t cur.chrom g).countP (fun b => decide (b.s ≥ cur.e)) ≥ m)) = true := by
        simp [hl, hr]
      rw [if_pos hcnt]
      rfl
  · have hne : (nxt.chrom != cur.chrom) = true := by simp [hch]
    simp only [hne, ↓reduceIte, List.not_mem_nil, false_iff]
    rintro ⟨h, _⟩
    exact hch h

/-- **breaks**: with `min_probes ≥ 1` and bins of positive length the report lists exactly the
    genes (not ignored, not Antitarget) with at least `min_probes` bins starting on each side of
    the boundary `cur.e` between two consecutive segments of one chromosome -/
theorem breaks_exact' (t : List Bin) (m : Nat) (segs : List SegRow) (hm : 1 ≤ m)
    (hpos : ∀ b ∈ t, b.s < b.e) (brk : Brk) :
    brk ∈ breakpoints t m segs ↔
      ∃ cur nxt, Consecutive cur nxt segs ∧ nxt.chrom = cur.chrom ∧
        ∃ g, (fullIgnore defaultIgnore).contains g = false ∧ geneBins t cur.chrom g ≠ [] ∧
          m ≤ (geneBins t cur.chrom g).countP (fun b => decide (b.s < cur.e)) ∧
          m ≤ (geneBins t cur.chrom g).countP (fun b => decide (b.s ≥ cur.e)) ∧
          brk = { gene := g, chrom := cur.chrom, loc := cur.e, change := nxt.log2 - cur.log2,
                  left := (geneBins t cur.chrom g).countP (fun b => decide (b.s < cur.e)),
                  right := (geneBins t cur.chrom g).countP (fun b => decide (b.s ≥ cur.e)) } := by
  rw [mem_breakpoints]
  constructor
  · rintro ⟨cur, nxt, hc, hb⟩
    exact ⟨cur, nxt, hc, (mem_breaksAt t m cur nxt hm hpos brk).mp hb⟩
  · rintro ⟨cur, nxt, hc, hb⟩
    exact ⟨cur, nxt, hc, (mem_breaksAt t m cur nxt hm hpos brk).mpr hb⟩

/-- the driver's whole-table check decides the whole-table hypothesis -/
theorem tableContiguousB_iff' (ign : List String) (t : List Bin) :
    tableContiguousB ign t = true ↔ TableContiguous ign t := by
  simp only [tableContiguousB, TableContiguous, List.all_eq_true, contiguousB_iff']

/-! ### tables whose chromosomes are adjacent blocks -/

theorem ChromGrouped.tail {b : Bin} {t : List Bin} (h : ChromGrouped (b :: t)) : ChromGrouped t := by
  intro i j k bi bj bk hij hjk hi hj hk
  exact h (i + 1) (j + 1) (k + 1) bi bj bk (by omega) (by omega)
    (by simpa using hi) (by simpa using hj) (by simpa using hk)

theorem flatMap_congr_mem {α β} {l : List α} {f g : α → List β} (h : ∀ x ∈ l, f x = g x) :
    l.flatMap f = l.flatMap g := by
  induction l with
  | nil => rfl
  | cons a l ih =>
    simp only [List.flatMap_cons]
    rw [h a (by simp), ih (fun x hx => h x (List.mem_cons_of_mem _ hx))]

/-- in a grouped table, if the first row's chromosome occurs later, the second row carries it -/
theorem head_chrom_of_grouped {b b' : Bin} {t : List Bin} (h : ChromGrouped (b :: b' :: t))
    (hm : b.chrom ∈ (b' :: t).map (·.chrom)) : b'.chrom = b.chrom := by
  obtain ⟨x, hx, hxc⟩ := List.mem_map.mp hm
  obtain ⟨k, hk⟩ := List.mem_iff_getElem?.mp hx
  exact h 0 1 (k + 1) b b' x (by omega) (by omega) (by simp) (by simp) (by simpa using hk) hxc.symm

theorem flatMap_keys_of_grouped (t : List Bin) (h : ChromGrouped t) :
    (firstKeys (t.map (·.chrom))).flatMap (fun c => t.filter (fun b => b.chrom == c)) = t := by
  induction t with
  | nil => simp [firstKeys]
  | cons b t ih =>
    have ih' := ih h.tail
    simp only [List.map_cons, firstKeys, List.flatMap_cons]
    have h1 : (b :: t).filter (fun x => x.chrom == b.chrom) =
        b :: t.filter (fun x => x.chrom == b.chrom) := by
      simp
    have h2 : ((firstKeys (t.map (·.chrom))).filter (· != b.chrom)).flatMap
          (fun c => (b :: t).filter (fun x => x.chrom == c)) =
        ((firstKeys (t.map (·.chrom))).filter (· != b.chrom)).flatMap
          (fun c => t.filter (fun x => x.chrom == c)) := by
      apply flatMap_congr_mem
      intro c hc
      have hp := (List.mem_filter.mp hc).2
      have hne : ¬ b.chrom = c := by
        intro e
        simp [e] at hp
      simp [hne]
    rw [h1, h2, List.cons_append]
    congr 1
    by_cases hm : b.chrom ∈ t.map (·.chrom)
    · cases t with
      | nil => simp at hm
      | cons b' t =>
        have hc := head_chrom_of_grouped h hm
        simp only [List.map_cons, firstKeys, hc] at ih' ⊢
        have e : (b.chrom :: (firstKeys (t.map (·.chrom))).filter (· != b.chrom)).filter (· != b.chrom) =
            (firstKeys (t.map (·.chrom))).filter (· != b.chrom) := by
          simp [List.filter_filter]
        rw [e]
        simpa only [List.flatMap_cons] using ih'
    · have e1 : t.filter (fun x => x.chrom == b.chrom) = [] := by
        apply List.filter_eq_nil_iff.mpr
        intro x hx hxc
        exact hm (List.mem_map.mpr ⟨x, hx, by simpa using hxc⟩)
      have e2 : (firstKeys (t.map (·.chrom))).filter (· != b.chrom) = firstKeys (t.map (·.chrom)) := by
        apply List.filter_eq_self.mpr
        intro c hc
        have hc' := mem_firstKeys.mp hc
        have hne : c ≠ b.chrom := by
          intro e
          exact hm (e ▸ hc')
        simpa using hne
      rw [e1, e2, List.nil_append]
      exact ih'

/-- `by_chromosome()` on a table whose chromosomes are adjacent blocks hands the rows out in table order -/
theorem byChrom_flatten_of_grouped' (t : List Bin) (h : ChromGrouped t) :
    ((byChrom t).map (·.2)).flatten = t := by
  have h3 : ((byChrom t).map (·.2)).flatten =
      (firstKeys (t.map (·.chrom))).flatMap (fun c => t.filter (fun b => b.chrom == c)) := by
    simp [byChrom, List.flatMap_def, List.map_map, Function.comp_def]
  rw [h3]
  exact flatMap_keys_of_grouped t h

end CnvVerif.Genes
