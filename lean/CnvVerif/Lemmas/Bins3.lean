/-
  Lemmas behind Props/C12.lean (third part): the antitarget bins of one chromosome, and the
  contig selection rule.
-/
import CnvVerif.Model.Bins
import CnvVerif.Lemmas.Bins
import CnvVerif.Lemmas.Bins2
namespace CnvVerif

/-- base `p` lies in an accessible region shrunk by `pad` on both sides (start clipped at 0) -/
def inShrunk (pad : Int) (acc : List Row) (p : Int) : Prop :=
  ∃ r ∈ acc, max 0 (r.s + pad) ≤ p ∧ p < r.e - pad

/-- base `p` is within `pad` bases of a target row (a zero-width row counts as a position) -/
def nearTarget (pad : Int) (tg : List Row) (p : Int) : Prop :=
  ∃ r ∈ tg, r.s - pad ≤ p ∧ p < r.e + pad

/-- target rows: non-negative coordinates, `start ≤ end` (zero-width allowed; any order, overlapping,
    nested, duplicated) -/
def WFTargets (tg : List Row) : Prop := ∀ r ∈ tg, 0 ≤ r.s ∧ r.s ≤ r.e

theorem cov_shrinkRows (pad : Int) (acc : List Row) (p : Int) :
    cov (shrinkRows pad acc) p ↔ inShrunk pad acc p := by
  simp only [cov, inShrunk, shrinkRows, List.mem_filter, List.mem_map, decide_eq_true_eq]
  constructor
  · rintro ⟨k, ⟨⟨r, hr, rfl⟩, hk⟩, h1, h2⟩
    refine ⟨r, hr, ?_⟩
    dsimp only at hk h1 h2
    omega
  · rintro ⟨r, hr, h1, h2⟩
    refine ⟨_, ⟨⟨r, hr, rfl⟩, ?_⟩, ?_, ?_⟩ <;> dsimp only <;> omega

theorem shrinkRows_pos (pad : Int) (acc : List Row) :
    ∀ k ∈ shrinkRows pad acc, 0 ≤ k.s ∧ k.s < k.e := by
  intro k hk
  simp only [shrinkRows, List.mem_filter, List.mem_map, decide_eq_true_eq] at hk
  obtain ⟨⟨r, _, rfl⟩, hk⟩ := hk
  dsimp only at hk ⊢
  omega

theorem cov_growRows (pad : Int) (hpad : 0 ≤ pad) (tg : List Row) (h : WFTargets tg) (p : Int)
    (hp : 0 ≤ p) : cov (growRows pad tg) p ↔ nearTarget pad tg p := by
  simp only [cov, nearTarget, growRows, List.mem_map]
  constructor
  · rintro ⟨k, ⟨r, hr, rfl⟩, h1, h2⟩
    have := h r hr
    refine ⟨r, hr, ?_⟩
    dsimp only at h1 h2
    omega
  · rintro ⟨r, hr, h1, h2⟩
    have := h r hr
    refine ⟨_, ⟨r, hr, rfl⟩, ?_, ?_⟩ <;> dsimp only <;> omega

theorem growRows_pos (pad : Int) (hpad : 0 < pad) (tg : List Row) (h : WFTargets tg) :
    ∀ r ∈ growRows pad tg, r.s < r.e := by
  intro k hk
  simp only [growRows, List.mem_map] at hk
  obtain ⟨r, hr, rfl⟩ := hk
  have := h r hr
  dsimp only
  omega

theorem cov_flatMap (l : List Row) (f : Row → List Row) (p : Int) :
    cov (l.flatMap f) p ↔ ∃ k ∈ l, cov (f k) p := by
  simp only [cov, List.mem_flatMap]
  constructor
  · rintro ⟨r, ⟨k, hk, hr⟩, h⟩
    exact ⟨k, hk, r, hr, h⟩
  · rintro ⟨k, hk, r, hr, h⟩
    exact ⟨r, ⟨k, hk, hr⟩, h⟩

/-- one keeper: what `subtractRow` leaves of it after cutting out the merged grown targets -/
theorem antiKeeper_cov (pad : Int) (hpad : 0 < pad) (tg : List Row) (h : WFTargets tg)
    (k : Row) (p : Int) :
    cov (subtractRow k (overlapping k (mergeSorted (growRows pad tg)))) p ↔
      (k.s ≤ p ∧ p < k.e) ∧ ¬ cov (growRows pad tg) p := by
  have hpos : ∀ r ∈ sortSE (growRows pad tg), r.s < r.e := fun r hr =>
    growRows_pos pad hpad tg h r ((mem_sortSE _ r).mp hr)
  have := subtractRow_cov_merged k (sortSE (growRows pad tg)) (sortSE_sorted _) hpos p
  rw [cov_sortSE] at this
  exact this

/-- what is left for antitargets on the chromosome: exactly the shrunk accessible bases that are
    not within `pad` of a target -/
theorem antiRegionsChrom_cov (pad : Int) (hpad : 0 < pad) (acc tg : List Row) (h : WFTargets tg)
    (p : Int) :
    cov (antiRegionsChrom pad acc tg) p ↔ inShrunk pad acc p ∧ ¬ nearTarget pad tg p := by
  unfold antiRegionsChrom
  rw [cov_flatMap, ← cov_shrinkRows]
  constructor
  · rintro ⟨k, hk, hc⟩
    rw [antiKeeper_cov pad hpad tg h] at hc
    obtain ⟨⟨h1, h2⟩, h3⟩ := hc
    have hk0 := shrinkRows_pos pad acc k hk
    rw [cov_growRows pad (Int.le_of_lt hpad) tg h p (by omega)] at h3
    exact ⟨⟨k, hk, h1, h2⟩, h3⟩
  · rintro ⟨⟨k, hk, h1, h2⟩, h3⟩
    refine ⟨k, hk, ?_⟩
    rw [antiKeeper_cov pad hpad tg h]
    have hk0 := shrinkRows_pos pad acc k hk
    rw [cov_growRows pad (Int.le_of_lt hpad) tg h p (by omega)]
    exact ⟨⟨h1, h2⟩, h3⟩

theorem antiRegionsChrom_pos (pad : Int) (acc tg : List Row) :
    ∀ q ∈ antiRegionsChrom pad acc tg, q.s < q.e := by
  intro q hq
  unfold antiRegionsChrom at hq
  obtain ⟨k, hk, hq⟩ := List.mem_flatMap.mp hq
  rcases subtractRow_carry k _ q hq with ⟨_, _, h⟩ | rfl
  · exact h
  · exact (shrinkRows_pos pad acc q hk).2

/-! ### `nameAnti` only changes the gene -/

theorem mem_nameAnti (l : List Row) (b : Row) :
    b ∈ nameAnti l ↔ ∃ r ∈ l, b = { r with gene := Generated.ANTITARGET_NAME } := by
  simp only [nameAnti, List.mem_map]
  constructor
  · rintro ⟨r, hr, rfl⟩; exact ⟨r, hr, rfl⟩
  · rintro ⟨r, hr, rfl⟩; exact ⟨r, hr, rfl⟩

theorem cov_nameAnti (l : List Row) (p : Int) : cov (nameAnti l) p ↔ cov l p := by
  simp only [cov, mem_nameAnti]
  constructor
  · rintro ⟨b, ⟨r, hr, rfl⟩, h⟩; exact ⟨r, hr, h⟩
  · rintro ⟨r, hr, h⟩; exact ⟨_, ⟨r, hr, rfl⟩, h⟩

theorem antiMerged_canon (pad : Int) (acc tg : List Row) :
    Canon (mergeSorted (antiRegionsChrom pad acc tg)) :=
  mergeSorted_canon _ (antiRegionsChrom_pos pad acc tg)

/-- a bin of `antiChrom` comes from a bin of `splitRow` of a merged region -/
theorem mem_antiChrom {pad : Int} {avg : Rat} {m : Int} {acc tg : List Row} {b : Row}
    (hb : b ∈ antiChrom pad avg m acc tg) :
    ∃ M ∈ mergeSorted (antiRegionsChrom pad acc tg), M.s < M.e ∧
      ∃ x ∈ splitRow avg m M, b.s = x.s ∧ b.e = x.e ∧ b.gene = Generated.ANTITARGET_NAME := by
  unfold antiChrom at hb
  obtain ⟨x, hx, rfl⟩ := (mem_nameAnti _ b).mp hb
  obtain ⟨M, hM, hx⟩ := List.mem_flatMap.mp hx
  exact ⟨M, hM, (antiMerged_canon pad acc tg).1 M hM, x, hx, rfl, rfl, rfl⟩

theorem antiChrom_named (pad : Int) (avg : Rat) (m : Int) (acc tg : List Row) :
    ∀ b ∈ antiChrom pad avg m acc tg, b.gene = Generated.ANTITARGET_NAME := by
  intro b hb
  obtain ⟨_, _, _, _, _, _, _, h⟩ := mem_antiChrom hb
  exact h

theorem antiChrom_inside_far (pad : Int) (hpad : 0 < pad) (avg : Rat) (havg : 0 < avg) (m : Int)
    (acc tg : List Row) (h : WFTargets tg) :
    ∀ b ∈ antiChrom pad avg m acc tg, ∀ p, b.s ≤ p → p < b.e →
      inShrunk pad acc p ∧ ¬ nearTarget pad tg p := by
  intro b hb p h1 h2
  obtain ⟨M, hM, hMpos, x, hx, hs, he, _⟩ := mem_antiChrom hb
  have hw := splitRow_within avg havg m M (Int.le_of_lt hMpos) x hx
  rw [← antiRegionsChrom_cov pad hpad acc tg h p, ← mergeSorted_cov]
  exact ⟨M, hM, by omega, by omega⟩

theorem antiChrom_pairwise (pad : Int) (avg : Rat) (havg : 0 < avg) (m : Int) (acc tg : List Row) :
    (antiChrom pad avg m acc tg).Pairwise (fun x y => x.e ≤ y.s) := by
  unfold antiChrom nameAnti
  rw [List.pairwise_map]
  exact flatMap_splitRow_pairwise avg havg m _ (antiMerged_canon pad acc tg)

theorem antiChrom_size_lower (pad : Int) (avg : Rat) (havg : 0 < avg) (m : Int)
    (hm : (m : Rat) ≤ 3 / 4 * avg) (acc tg : List Row) :
    ∀ b ∈ antiChrom pad avg m acc tg, m ≤ b.e - b.s := by
  intro b hb
  obtain ⟨M, hM, hMpos, x, hx, hs, he, _⟩ := mem_antiChrom hb
  have := splitRow_size_lower avg havg m hm M (Int.le_of_lt hMpos) x hx
  omega

theorem antiChrom_size_upper (pad : Int) (avg : Rat) (havg : 4 ≤ avg) (m : Int) (acc tg : List Row) :
    ∀ b ∈ antiChrom pad avg m acc tg, ((b.e - b.s : Int) : Rat) ≤ 3 / 2 * avg := by
  intro b hb
  obtain ⟨M, hM, hMpos, x, hx, hs, he, _⟩ := mem_antiChrom hb
  have := splitRow_size_upper avg havg m M (Int.le_of_lt hMpos) x hx
  rw [hs, he]
  exact this

theorem antiChrom_positive (pad : Int) (avg : Rat) (havg : 1 ≤ avg) (m : Int) (acc tg : List Row) :
    ∀ b ∈ antiChrom pad avg m acc tg, b.s < b.e := by
  intro b hb
  obtain ⟨M, hM, hMpos, x, hx, hs, he, _⟩ := mem_antiChrom hb
  have := splitRow_positive avg havg m M hMpos x hx
  omega

/-- every stretch `[u, v)` of at least `m` off-target shrunk-accessible bases is covered by bins -/
theorem antiChrom_covers (pad : Int) (hpad : 0 < pad) (avg : Rat) (havg : 0 < avg) (m : Int)
    (acc tg : List Row) (h : WFTargets tg) (u v : Int) (huv : u < v) (hlen : m ≤ v - u)
    (hfree : ∀ p, u ≤ p → p < v → inShrunk pad acc p ∧ ¬ nearTarget pad tg p) :
    ∀ p, u ≤ p → p < v → cov (antiChrom pad avg m acc tg) p := by
  intro p h1 h2
  have hC := antiMerged_canon pad acc tg
  have hcov : ∀ q, u ≤ q → q < v → cov (mergeSorted (antiRegionsChrom pad acc tg)) q := by
    intro q hq1 hq2
    rw [mergeSorted_cov, antiRegionsChrom_cov pad hpad acc tg h q]
    exact hfree q hq1 hq2
  obtain ⟨M, hM, hMs, hMe⟩ := interval_in_canon _ hC u v huv hcov
  unfold antiChrom
  rw [cov_nameAnti, flatMap_splitRow_cov avg havg m _ hC p]
  exact ⟨M, hM, by omega, by omega, by omega⟩

/-! ### contig selection -/

theorem mem_chromsInOrder (t : Table) (c : String) : c ∈ chromsInOrder t ↔ ∃ r ∈ t, r.chrom = c := by
  simp only [chromsInOrder, List.mem_eraseDups, List.mem_map]

/-- the contigs `drop_noncanonical_contigs` skips -/
def skipOf (acc tg : Table) : List String :=
  let ac := chromsInOrder acc
  let tc := chromsInOrder tg
  let untgt := ac.filter (fun c => !tc.contains c)
  if tc.any isCanonicalName then untgt.filter (fun c => !isCanonicalName c)
  else
    let mx := (tc.map String.length).foldl max 0
    untgt.filter (fun c => c.length > mx)

theorem dropNoncanonical_eq (acc tg : Table) :
    dropNoncanonical acc tg =
      if chromNamesClash acc tg then .error "ValueError"
      else .ok (acc.filter (fun r => !(skipOf acc tg).contains r.chrom)) := rfl

theorem dropNoncanonical_ok {acc tg a : Table} (h : dropNoncanonical acc tg = .ok a) :
    a = acc.filter (fun r => !(skipOf acc tg).contains r.chrom) := by
  rw [dropNoncanonical_eq] at h
  split at h
  · cases h
  · injection h with h; exact h.symm

/-- a skipped contig has no target -/
theorem skipOf_untargeted (acc tg : Table) (c : String) (hc : c ∈ skipOf acc tg) :
    c ∉ chromsInOrder tg := by
  unfold skipOf at hc
  simp only at hc
  split at hc
  · have := (List.mem_filter.mp (List.mem_filter.mp hc).1).2
    simpa using this
  · have := (List.mem_filter.mp (List.mem_filter.mp hc).1).2
    simpa using this

/-- with a canonical target contig: skipped = accessible, untargeted, not canonical -/
theorem mem_skipOf_canonical (acc tg : Table)
    (hany : (chromsInOrder tg).any isCanonicalName = true) (c : String) :
    c ∈ skipOf acc tg ↔
      c ∈ chromsInOrder acc ∧ c ∉ chromsInOrder tg ∧ isCanonicalName c = false := by
  unfold skipOf
  simp only
  rw [if_pos hany]
  have hcont : ((chromsInOrder tg).contains c = false) ↔ c ∉ chromsInOrder tg := by
    rw [← Bool.not_eq_true, List.contains_iff_mem]
  simp only [List.mem_filter, Bool.not_eq_eq_eq_not, Bool.not_true, and_assoc, hcont]

theorem any_canonical (tg : Table) (hc : ∃ t ∈ tg, isCanonicalName t.chrom = true) :
    (chromsInOrder tg).any isCanonicalName = true := by
  obtain ⟨t, ht, h⟩ := hc
  rw [List.any_eq_true]
  exact ⟨t.chrom, (mem_chromsInOrder tg t.chrom).mpr ⟨t, ht, rfl⟩, h⟩

theorem dropNoncanonical_sub (acc tg a : Table) (h : dropNoncanonical acc tg = .ok a) :
    ∀ r ∈ a, r ∈ acc := by
  intro r hr
  rw [dropNoncanonical_ok h] at hr
  exact (List.mem_filter.mp hr).1

theorem dropNoncanonical_keeps_targeted (acc tg a : Table) (h : dropNoncanonical acc tg = .ok a)
    (r : Row) (hr : r ∈ acc) (ht : ∃ t ∈ tg, t.chrom = r.chrom) : r ∈ a := by
  rw [dropNoncanonical_ok h]
  refine List.mem_filter.mpr ⟨hr, ?_⟩
  have : r.chrom ∉ skipOf acc tg := fun hc =>
    skipOf_untargeted acc tg r.chrom hc ((mem_chromsInOrder tg r.chrom).mpr ht)
  simpa using this

theorem dropNoncanonical_keeps_canonical (acc tg a : Table) (h : dropNoncanonical acc tg = .ok a)
    (hc : ∃ t ∈ tg, isCanonicalName t.chrom = true)
    (r : Row) (hr : r ∈ acc) (hn : isCanonicalName r.chrom = true) : r ∈ a := by
  rw [dropNoncanonical_ok h]
  refine List.mem_filter.mpr ⟨hr, ?_⟩
  have : r.chrom ∉ skipOf acc tg := fun hs => by
    have := ((mem_skipOf_canonical acc tg (any_canonical tg hc) r.chrom).mp hs).2.2
    rw [hn] at this
    cases this
  simpa using this

theorem dropNoncanonical_only (acc tg a : Table) (h : dropNoncanonical acc tg = .ok a)
    (hc : ∃ t ∈ tg, isCanonicalName t.chrom = true) :
    ∀ r ∈ a, (∃ t ∈ tg, t.chrom = r.chrom) ∨ isCanonicalName r.chrom = true := by
  intro r hr
  rw [dropNoncanonical_ok h] at hr
  obtain ⟨hracc, hns⟩ := List.mem_filter.mp hr
  have hns : r.chrom ∉ skipOf acc tg := by simpa using hns
  rw [mem_skipOf_canonical acc tg (any_canonical tg hc)] at hns
  by_cases ht : r.chrom ∈ chromsInOrder tg
  · left; exact (mem_chromsInOrder tg r.chrom).mp ht
  · right
    cases hcn : isCanonicalName r.chrom with
    | true => rfl
    | false =>
      exact absurd ⟨(mem_chromsInOrder acc r.chrom).mpr ⟨r, hracc, rfl⟩, ht, hcn⟩ hns

theorem dropNoncanonical_refuses (acc tg : Table) :
    (∃ e, dropNoncanonical acc tg = .error e) ↔ chromNamesClash acc tg = true := by
  rw [dropNoncanonical_eq]
  constructor
  · rintro ⟨e, he⟩
    split at he
    · assumption
    · cases he
  · intro hc
    rw [if_pos hc]
    exact ⟨_, rfl⟩

end CnvVerif
