/-
  Lemmas behind Props/C12.lean (third part): the antitarget bins of one chromosome, and the
  contig selection rule.
-/
import CnvVerif.Model.Bins
import CnvVerif.Lemmas.Bins
import CnvVerif.Lemmas.Bins2
namespace CnvVerif

/-- base `p` lies in an accessible region shrunk by `pad` on both sides (start clipped at 0) -/
def inShrunk (pad : Int) (acc : List Row) (p : Int) : Prop :=
  ∃ r ∈ acc, max 0 (r.s + pad) ≤ p ∧ p < r.e - pad

/-- base `p` is within `pad` bases of a target row (a zero-width row counts as a position) -/
def nearTarget (pad : Int) (tg : List Row) (p : Int) : Prop :=
  ∃ r ∈ tg, r.s - pad ≤ p ∧ p < r.e + pad

/-- target rows: non-negative coordinates, `start ≤ end` (zero-width allowed; any order, overlapping,
    nested, duplicated) -/
def WFTargets (tg : List Row) : Prop := ∀ r ∈ tg, 0 ≤ r.s ∧ r.s ≤ r.e

theorem cov_shrinkRows (pad : Int) (acc : List Row) (p : Int) :
    cov (shrinkRows pad acc) p ↔ inShrunk pad acc p := by
  sorry

theorem shrinkRows_pos (pad : Int) (acc : List Row) :
    ∀ k ∈ shrinkRows pad acc, 0 ≤ k.s ∧ k.s < k.e := by
  sorry

theorem cov_growRows (pad : Int) (hpad : 0 ≤ pad) (tg : List Row) (h : WFTargets tg) (p : Int)
    (hp : 0 ≤ p) : cov (growRows pad tg) p ↔ nearTarget pad tg p := by
  sorry

theorem growRows_pos (pad : Int) (hpad : 0 < pad) (tg : List Row) (h : WFTargets tg) :
    ∀ r ∈ growRows pad tg, r.s < r.e := by
  sorry

/-- what is left for antitargets on the chromosome: exactly the shrunk accessible bases that are
    not within `pad` of a target -/
theorem antiRegionsChrom_cov (pad : Int) (hpad : 0 < pad) (acc tg : List Row) (h : WFTargets tg)
    (p : Int) :
    cov (antiRegionsChrom pad acc tg) p ↔ inShrunk pad acc p ∧ ¬ nearTarget pad tg p := by
  sorry

theorem antiRegionsChrom_pos (pad : Int) (acc tg : List Row) :
    ∀ q ∈ antiRegionsChrom pad acc tg, q.s < q.e := by
  sorry

theorem antiChrom_named (pad : Int) (avg : Rat) (m : Int) (acc tg : List Row) :
    ∀ b ∈ antiChrom pad avg m acc tg, b.gene = Generated.ANTITARGET_NAME := by
  sorry

theorem antiChrom_inside_far (pad : Int) (hpad : 0 < pad) (avg : Rat) (havg : 0 < avg) (m : Int)
    (acc tg : List Row) (h : WFTargets tg) :
    ∀ b ∈ antiChrom pad avg m acc tg, ∀ p, b.s ≤ p → p < b.e →
      inShrunk pad acc p ∧ ¬ nearTarget pad tg p := by
  sorry

theorem antiChrom_pairwise (pad : Int) (avg : Rat) (havg : 0 < avg) (m : Int) (acc tg : List Row) :
    (antiChrom pad avg m acc tg).Pairwise (fun x y => x.e ≤ y.s) := by
  sorry

theorem antiChrom_size_lower (pad : Int) (avg : Rat) (havg : 0 < avg) (m : Int)
    (hm : (m : Rat) ≤ 3 / 4 * avg) (acc tg : List Row) :
    ∀ b ∈ antiChrom pad avg m acc tg, m ≤ b.e - b.s := by
  sorry

theorem antiChrom_size_upper (pad : Int) (avg : Rat) (havg : 4 ≤ avg) (m : Int) (acc tg : List Row) :
    ∀ b ∈ antiChrom pad avg m acc tg, ((b.e - b.s : Int) : Rat) ≤ 3 / 2 * avg := by
  sorry

theorem antiChrom_positive (pad : Int) (avg : Rat) (havg : 1 ≤ avg) (m : Int) (acc tg : List Row) :
    ∀ b ∈ antiChrom pad avg m acc tg, b.s < b.e := by
  sorry

/-- every stretch `[u, v)` of at least `m` off-target shrunk-accessible bases is covered by bins -/
theorem antiChrom_covers (pad : Int) (hpad : 0 < pad) (avg : Rat) (havg : 0 < avg) (m : Int)
    (acc tg : List Row) (h : WFTargets tg) (u v : Int) (huv : u < v) (hlen : m ≤ v - u)
    (hfree : ∀ p, u ≤ p → p < v → inShrunk pad acc p ∧ ¬ nearTarget pad tg p) :
    ∀ p, u ≤ p → p < v → cov (antiChrom pad avg m acc tg) p := by
  sorry

/-! ### contig selection -/

theorem mem_chromsInOrder (t : Table) (c : String) : c ∈ chromsInOrder t ↔ ∃ r ∈ t, r.chrom = c := by
  sorry

theorem dropNoncanonical_sub (acc tg a : Table) (h : dropNoncanonical acc tg = .ok a) :
    ∀ r ∈ a, r ∈ acc := by
  sorry

theorem dropNoncanonical_keeps_targeted (acc tg a : Table) (h : dropNoncanonical acc tg = .ok a)
    (r : Row) (hr : r ∈ acc) (ht : ∃ t ∈ tg, t.chrom = r.chrom) : r ∈ a := by
  sorry

theorem dropNoncanonical_keeps_canonical (acc tg a : Table) (h : dropNoncanonical acc tg = .ok a)
    (hc : ∃ t ∈ tg, isCanonicalName t.chrom = true)
    (r : Row) (hr : r ∈ acc) (hn : isCanonicalName r.chrom = true) : r ∈ a := by
  sorry

theorem dropNoncanonical_only (acc tg a : Table) (h : dropNoncanonical acc tg = .ok a)
    (hc : ∃ t ∈ tg, isCanonicalName t.chrom = true) :
    ∀ r ∈ a, (∃ t ∈ tg, t.chrom = r.chrom) ∨ isCanonicalName r.chrom = true := by
  sorry

theorem dropNoncanonical_refuses (acc tg : Table) :
    (∃ e, dropNoncanonical acc tg = .error e) ↔ chromNamesClash acc tg = true := by
  sorry

end CnvVerif
