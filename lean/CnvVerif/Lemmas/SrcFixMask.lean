/-
  The hand-written bad-bin mask and weight formula of Model/Fix.lean equal the expressions the translator reads off
  the current source of `fix.mask_bad_bins` / `fix.apply_weights` (Generated/ExprsFixMask.lean, regenerated from /repo
  on every run).  Proved through `↔` / `ring`, so that a reordering of the `|` operands, a flipped comparison with swapped
  operands or a renamed local in the source keeps the theorems, while a changed operator, constant or operand breaks them.
-/
import CnvVerif.Generated.ExprsFixMask
import CnvVerif.Model.Fix
import CnvVerif.Lemmas.Fix
import Mathlib.Tactic.Ring
import Mathlib.Tactic.Linarith
import Mathlib.Tactic.NormNum
import Mathlib.Tactic.Tauto
set_option linter.unusedTactic false
set_option linter.unreachableTactic false
set_option linter.unusedSimpArgs false
namespace CnvVerif.Src
open CnvVerif CnvVerif.Generated

/-- `mask_bad_bins`, one reference row: the model's `badBin` is the source expression for a reference that has a
    depth column, with or without a gc column -/
theorem badBin_is_source (r : RRow) :
    badBin r = src_mask_bad_bins true r.gc.isSome r.log2 r.spread r.depth (r.gc.getD 0) := by
  rw [Bool.eq_iff_iff]
  unfold badBin src_mask_bad_bins
  cases hg : r.gc with
  | none =>
    simp only [Option.isSome_none, Option.getD_none, Bool.or_eq_true, decide_eq_true_eq, Bool.false_eq_true, if_false,
      if_true, or_false]
    simp only [MIN_REF_COVERAGE, MAX_REF_SPREAD, neg_neg, gt_iff_lt] <;> tauto
  | some g =>
    simp only [Option.isSome_some, Option.getD_some, Bool.or_eq_true, decide_eq_true_eq, if_true]
    simp only [MIN_REF_COVERAGE, MAX_REF_SPREAD, GC_MIN_FRACTION, GC_MAX_FRACTION, neg_neg, gt_iff_lt] <;> tauto

/-- a reference WITHOUT a depth column is filtered as if every depth were 1 (what the harness hands the model) -/
theorem mask_without_depth_column (hasGc : Bool) (log2 spread depth gc : Rat) :
    src_mask_bad_bins false hasGc log2 spread depth gc = src_mask_bad_bins true hasGc log2 spread 1 gc := by
  rw [Bool.eq_iff_iff]
  unfold src_mask_bad_bins
  cases hasGc <;>
    simp only [Bool.false_eq_true, if_false, if_true, decide_eq_true_eq, one_ne_zero, or_false]

/-- `apply_weights`: both classes of bins get the same size/variance formula -/
theorem simple_weight_same_for_both_classes (v sq m : Rat) :
    src_weight_simple_antitarget v sq m = src_weight_simple_target v sq m := by
  unfold src_weight_simple_antitarget src_weight_simple_target
  first | rfl | ring

/-- `apply_weights`: the model's per-bin weight is the composition of the source's formulas -/
theorem weightOf_is_source (pooled : Bool) (spread sq m v : Rat) :
    weightOf pooled spread sq m v =
      src_weight_clip (if pooled then src_weight_pooled spread (src_weight_simple_target v sq m)
                       else src_weight_flat (src_weight_simple_target v sq m)) WEIGHT_EPSILON := by
  cases pooled
  · show clipQ _ _ _ = _
    unfold clipQ src_weight_clip src_weight_flat src_weight_simple_target
    simp only [WEIGHT_MAX, Bool.false_eq_true, if_false]
  · show clipQ _ _ _ = _
    unfold clipQ src_weight_clip src_weight_pooled src_weight_simple_target src_weight_fancy
    simp only [WEIGHT_MAX, WEIGHT_REF_EMPHASIS, if_true]
    first
    | done
    | (congr 2; ring)

end CnvVerif.Src
