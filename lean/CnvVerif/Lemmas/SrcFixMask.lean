/-
  The hand-written bad-bin mask and weight formula of Model/Fix.lean equal the expressions the translator reads off
  the current source of `fix.mask_bad_bins` / `fix.apply_weights` (Generated/ExprsFixMask.lean, regenerated from /repo
  on every run).  Proved through `↔` / `ring`, so that a reordering of the `|` operands, a flipped comparison with swapped
  operands or a renamed local in the source keeps the theorems, while a changed operator, constant or operand breaks them.
-/
import CnvVerif.Generated.ExprsFixMask
import CnvVerif.Model.Fix
import CnvVerif.Lemmas.Fix
import Mathlib.Tactic.Ring
import Mathlib.Tactic.Linarith
import Mathlib.Tactic.NormNum
import Mathlib.Tactic.Tauto
set_option linter.unusedTactic false
set_option linter.unreachableTactic false
set_option linter.unusedSimpArgs false
namespace CnvVerif.Src
open CnvVerif CnvVerif.Generated

/-- `mask_bad_bins`, one reference row: the model's `badBin` is the source expression for a reference that has a
    depth column, with or without a gc column -/
theorem badBin_is_source (r : RRow) :
    badBin r = src_mask_bad_bins true r.gc.isSome r.depth (r.gc.getD 0) r.log2 r.spread := by
  rw [Bool.eq_iff_iff]
  unfold badBin src_mask_bad_bins
  cases hg : r.gc with
  | none =>
    simp only [Option.isSome_none, Option.getD_none, Bool.or_eq_true, decide_eq_true_eq, Bool.false_eq_true, if_false,
      if_true, or_false]
    simp only [MIN_REF_COVERAGE, MAX_REF_SPREAD, neg_neg, gt_iff_lt] <;> tauto
  | some g =>
    simp only [Option.isSome_some, Option.getD_some, Bool.or_eq_true, decide_eq_true_eq, if_true]
    simp only [MIN_REF_COVERAGE, MAX_REF_SPREAD, GC_MIN_FRACTION, GC_MAX_FRACTION, neg_neg, gt_iff_lt] <;> tauto

/-- a reference WITHOUT a depth column is filtered as if every depth were 1 (what the harness hands the model) -/
theorem mask_without_depth_column (hasGc : Bool) (depth gc log2 spread : Rat) :
    src_mask_bad_bins false hasGc depth gc log2 spread = src_mask_bad_bins true hasGc 1 gc log2 spread := by
  rw [Bool.eq_iff_iff]
  unfold src_mask_bad_bins
  cases hasGc <;>
    simp only [Bool.false_eq_true, if_false, if_true, decide_eq_true_eq, one_ne_zero, or_false]

end CnvVerif.Src
