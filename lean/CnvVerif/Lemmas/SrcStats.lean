/-
  The hand-written formulas of Model/Stats.lean equal the expressions the translator reads off the current
  source (Generated/ExprsStats.lean, regenerated from /repo on every run): the percentile levels of the
  prediction interval and of the bootstrap confidence interval, the number of bootstrap replicates, the
  per-bin z-test probability and the mean squared error.  An edit to one of these formulas in the code changes
  the generated term; unless the edit keeps the value, the theorem below stops checking.
-/
import CnvVerif.Generated.ExprsStats
import CnvVerif.Model.Stats
import Mathlib.Tactic.Ring
import Mathlib.Tactic.Linarith
import Mathlib.Tactic.SplitIfs
import Mathlib.Tactic.FieldSimp
import Mathlib.Data.Rat.Floor
set_option linter.unusedTactic false
set_option linter.unreachableTactic false
set_option linter.unusedSimpArgs false
namespace CnvVerif.Src
open CnvVerif CnvVerif.Stats CnvVerif.Generated

/-! ### percentile levels -/

theorem pi_lo_level (alpha : Rat) : 100 * alpha / 2 = src_pi_pct_lo alpha := by
  unfold src_pi_pct_lo; first | rfl | ring

theorem pi_hi_level (alpha : Rat) : 100 * (1 - alpha / 2) = src_pi_pct_hi alpha := by
  unfold src_pi_pct_hi; first | rfl | ring

theorem ci_lo_level (alpha : Rat) : 100 * (alpha / 2) = src_ci_pct_lo alpha := by
  unfold src_ci_pct_lo; first | rfl | ring

theorem ci_hi_level (alpha : Rat) : 100 * (1 - alpha / 2) = src_ci_pct_hi alpha := by
  unfold src_ci_pct_hi; first | rfl | ring

theorem piFunc_is_source (l : List Rat) (alpha : Rat) :
    piFunc l alpha = (percentile l (src_pi_pct_lo alpha), percentile l (src_pi_pct_hi alpha)) := by
  rw [← pi_lo_level, ← pi_hi_level]; rfl

theorem ciBoot_is_source (vals wts : List Rat) (alpha : Rat) (boot : List BootRow) :
    ciBoot vals wts alpha boot =
      if vals.length < 2 then (vals.getD 0 0, vals.getD 0 0)
      else (percentile (boot.map (replicateMean vals wts)) (src_ci_pct_lo alpha),
            percentile (boot.map (replicateMean vals wts)) (src_ci_pct_hi alpha)) := by
  rw [← ci_lo_level, ← ci_hi_level]; rfl

/-! ### number of bootstrap replicates -/

/-- Python's `int(e)` rendering applied to a value that is already an integer -/
theorem intTrunc_intCast' (z : Int) :
    (if (z : Rat) < 0 then ((((z : Rat)).ceil : Int) : Rat) else ((((z : Rat)).floor : Int) : Rat)) = (z : Rat) := by
  rw [Rat.ceil_intCast, Rat.floor_intCast]; split <;> rfl

theorem ceil_nonneg_of_pos (q : Rat) (h : 0 < q) : 0 ≤ q.ceil := by
  have h1 : q ≤ (q.ceil : Rat) := Rat.le_ceil
  have h2 : (0 : Rat) < (q.ceil : Rat) := lt_of_lt_of_le h h1
  have h3 : (0 : Int) < q.ceil := by exact_mod_cast h2
  omega

/-- `if bootstraps <= 2 / alpha: bootstraps = int(np.ceil(2 / alpha))`, read in exact arithmetic -/
theorem bootCount_is_source (b : Nat) (alpha : Rat) (h0 : 0 < alpha) :
    ((bootCount b (2 / alpha) : Nat) : Rat) = src_ci_bootstraps alpha (b : Rat) := by
  have hq : (0 : Rat) < 2 / alpha := div_pos (by norm_num) h0
  have hc : 0 ≤ (2 / alpha : Rat).ceil := ceil_nonneg_of_pos _ hq
  have hcast : (((2 / alpha : Rat).ceil.toNat : Nat) : Rat) = (((2 / alpha : Rat).ceil : Int) : Rat) := by
    have : (((2 / alpha : Rat).ceil.toNat : Nat) : Int) = (2 / alpha : Rat).ceil := Int.toNat_of_nonneg hc
    calc (((2 / alpha : Rat).ceil.toNat : Nat) : Rat)
        = ((((2 / alpha : Rat).ceil.toNat : Nat) : Int) : Rat) := (Int.cast_natCast _).symm
      _ = _ := by rw [this]
  unfold bootCount src_ci_bootstraps
  simp only [intTrunc_intCast']
  split_ifs <;> first | rfl | exact hcast | (exfalso; linarith)

/-! ### z-test probability of one bin -/

/-- `z_prob` before the adjustment.  `tail` maps `z²` to the two-sided tail, i.e. `tail (z·z) = 2·cdf(−|z|)`;
    `sqrt` need only be a square root at the one argument the code hands it.  A weight of exactly 1 is
    the division by zero the model treats separately (`z = ±∞`, `p = 0`). -/
theorem pRaw_is_source (tail cdf sqrt : Rat → Rat) (resid w : Rat)
    (htail : ∀ z : Rat, tail (z * z) = 2 * cdf (-(if z < 0 then -z else z)))
    (hsq : sqrt (1 - w) * sqrt (1 - w) = 1 - w) (hw : w ≠ 1) :
    pRaw tail resid w = src_z_prob cdf sqrt resid w := by
  -- the source expression, up to the order of its factors (`2.0 * cdf(..)`, `cdf(..) * 2`, ...)
  have key : src_z_prob cdf sqrt resid w =
      2 * cdf (-(if (if resid ≠ 0 then resid / sqrt (1 - w) else 0) < 0
                 then -(if resid ≠ 0 then resid / sqrt (1 - w) else 0)
                 else (if resid ≠ 0 then resid / sqrt (1 - w) else 0))) := by
    unfold src_z_prob; first | rfl | ring
  rw [key]
  unfold pRaw
  by_cases hr : resid = 0
  · subst hr
    have := htail 0
    simp at this
    simp [this]
  · have hz : resid / sqrt (1 - w) * (resid / sqrt (1 - w)) = resid * resid / (1 - w) := by
      rw [div_mul_div_comm, hsq]
    have := htail (resid / sqrt (1 - w))
    rw [hz] at this
    simp [hr, hw, this]

/-! ### mean squared error -/

theorem mseBody_is_source (a : List Rat) : mseBody a = src_mean_squared_error a := by
  unfold mseBody meanSq meanR src_mean_squared_error
  have : (fun x : Rat => x * x) = src_mean_squared_error_elem := by
    funext x; unfold src_mean_squared_error_elem; first | rfl | ring
  rw [this, List.length_map]

end CnvVerif.Src
