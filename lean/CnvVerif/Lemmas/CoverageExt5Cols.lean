/-
  Lemmas for Model/CoverageExt5Cols.lean: `splitOn` undoes `joinWith`, the lines of a '\n'-terminated text, the number
  of pieces is the number of separators + 1, and the parse of a well-formed bedcov text.
-/
import CnvVerif.Model.CoverageExt5Cols
namespace CnvVerif.C09Cols

theorem splitOn_ne_nil (c : Char) (l : List Char) : splitOn c l ≠ [] := by
  induction l with
  | nil => simp [splitOn]
  | cons x xs ih =>
    simp only [splitOn]
    split
    · simp
    · split <;> simp

theorem splitOn_noc {c : Char} {f : List Char} (h : c ∉ f) : splitOn c f = [f] := by
  induction f with
  | nil => rfl
  | cons x xs ih =>
    have hx : x ≠ c := fun e => h (by simp [e])
    have hxs : c ∉ xs := fun m => h (List.mem_cons_of_mem _ m)
    simp [splitOn, hx, ih hxs]

theorem splitOn_append {c : Char} {f : List Char} (h : c ∉ f) (r : List Char) :
    splitOn c (f ++ c :: r) = f :: splitOn c r := by
  induction f with
  | nil => simp [splitOn]
  | cons x xs ih =>
    have hx : x ≠ c := fun e => h (by simp [e])
    have hxs : c ∉ xs := fun m => h (List.mem_cons_of_mem _ m)
    simp [splitOn, hx, ih hxs]

theorem splitOn_join {c : Char} : ∀ (fs : List (List Char)), fs ≠ [] → (∀ f ∈ fs, c ∉ f) →
    splitOn c (joinWith c fs) = fs
  | [], h, _ => absurd rfl h
  | [f], _, h => by simpa [joinWith] using splitOn_noc (h f (by simp))
  | f :: g :: r, _, h => by
    have ih := splitOn_join (g :: r) (by simp) (fun x hx => h x (List.mem_cons_of_mem _ hx))
    simp only [joinWith]
    rw [splitOn_append (h f (by simp)), ih]

theorem length_splitOn (c : Char) (l : List Char) : (splitOn c l).length = l.count c + 1 := by
  induction l with
  | nil => simp [splitOn]
  | cons x xs ih =>
    simp only [splitOn]
    by_cases hx : x = c
    · subst hx; simp [ih]
    · rw [if_neg hx]
      rcases hs : splitOn c xs with _ | ⟨h, t⟩
      · exact absurd hs (splitOn_ne_nil c xs)
      · rw [hs] at ih
        simp only [List.length_cons] at ih ⊢
        rw [List.count_cons_of_ne hx]; omega

theorem mem_joinWith {c x : Char} : ∀ (fs : List (List Char)), x ∈ joinWith c fs → x = c ∨ ∃ f ∈ fs, x ∈ f
  | [], h => by simp [joinWith] at h
  | [f], h => by right; exact ⟨f, by simp, by simpa [joinWith] using h⟩
  | f :: g :: r, h => by
    simp only [joinWith, List.mem_append, List.mem_cons] at h
    rcases h with h | h | h
    · right; exact ⟨f, by simp, h⟩
    · left; exact h
    · rcases mem_joinWith (g :: r) h with h | ⟨f', hf', hx⟩
      · left; exact h
      · right; exact ⟨f', List.mem_cons_of_mem _ hf', hx⟩

theorem takeWhile_noc {c : Char} {f : List Char} (h : c ∉ f) (r : List Char) :
    (f ++ c :: r).takeWhile (· ≠ c) = f := by
  induction f with
  | nil => simp
  | cons x xs ih =>
    have hx : x ≠ c := fun e => h (by simp [e])
    have hxs : c ∉ xs := fun m => h (List.mem_cons_of_mem _ m)
    simpa [hx] using ih hxs

theorem splitOn_lines : ∀ (ls : List (List Char)), (∀ l ∈ ls, '\n' ∉ l) →
    splitOn '\n' ((ls.map (· ++ ['\n'])).flatten) = ls ++ [[]]
  | [], _ => by simp [splitOn]
  | l :: r, h => by
    have ih := splitOn_lines r (fun x hx => h x (List.mem_cons_of_mem _ hx))
    have : ((l :: r).map (· ++ ['\n'])).flatten = l ++ '\n' :: (r.map (· ++ ['\n'])).flatten := by simp
    rw [this, splitOn_append (h l (by simp)), ih]; rfl

theorem rowOf_full (rd : Reader) {k : Nat} {fs : List (List Char)} (h : fs.length = k) :
    rowOf rd k fs = fs.map (cell rd) := by
  unfold rowOf
  have : (fs.map some ++ List.replicate (k - fs.length) none).take k = fs.map some := by
    rw [h, Nat.sub_self, ← h]
    simp only [List.replicate_zero, List.append_nil]
    conv => lhs; arg 1; rw [← List.length_map (f := some) (as := fs)]
    exact List.take_length
  rw [this, List.map_map]; rfl

theorem columnsOf_ok {n : Nat} (hn : 3 ≤ n) : ∃ cols, columnsOf n = .ok cols ∧ cols.length = n + 1 := by
  unfold columnsOf
  by_cases h3 : n = 3
  · subst h3; exact ⟨_, rfl, rfl⟩
  by_cases h4 : n = 4
  · subst h4; exact ⟨_, rfl, rfl⟩
  rw [if_neg (by omega), if_neg h3, if_neg h4]
  refine ⟨_, rfl, ?_⟩
  simp [fillers]; omega

/-- the text of a list of lines, each given by its fields -/
def text (ls : List (List (List Char))) : List Char := (ls.map (fun fs => joinWith '\t' fs ++ ['\n'])).flatten

/-- decidable well-formedness of a bedcov text given by its fields: at least one line, every line has `n + 1` fields,
    no field contains a TAB or a newline -/
def WF (n : Nat) (ls : List (List (List Char))) : Prop :=
  ls ≠ [] ∧ (∀ fs ∈ ls, fs.length = n + 1) ∧ (∀ fs ∈ ls, ∀ f ∈ fs, '\t' ∉ f ∧ '\n' ∉ f)

instance (n ls) : Decidable (WF n ls) := by unfold WF; infer_instance

theorem count_join {n : Nat} {fs : List (List Char)} (hl : fs.length = n + 1) (hc : ∀ f ∈ fs, '\t' ∉ f) :
    (joinWith '\t' fs).count '\t' = n := by
  have h1 := length_splitOn '\t' (joinWith '\t' fs)
  rw [splitOn_join fs (by intro e; simp [e] at hl) hc] at h1
  omega

theorem parse_text (rd : Reader) {n : Nat} (hn : 3 ≤ n) {ls : List (List (List Char))} (hw : WF n ls) :
    ∃ cols, columnsOf n = .ok cols ∧ cols.length = n + 1 ∧
      parse rd (text ls) = .ok (cols, ls.map (fun fs => fs.map (cell rd))) := by
  obtain ⟨hne, hlen, hch⟩ := hw
  obtain ⟨cols, hcols, hclen⟩ := columnsOf_ok hn
  refine ⟨cols, hcols, hclen, ?_⟩
  -- joined lines: newline-free, non-empty
  have hnl : ∀ fs ∈ ls, '\n' ∉ joinWith '\t' fs := by
    intro fs hfs hm
    rcases mem_joinWith fs hm with h | ⟨f, hf, hx⟩
    · exact absurd h (by decide)
    · exact (hch fs hfs f hf).2 hx
  have hcnt : ∀ fs ∈ ls, (joinWith '\t' fs).count '\t' = n :=
    fun fs hfs => count_join (hlen fs hfs) (fun f hf => (hch fs hfs f hf).1)
  have hnonempty : ∀ fs ∈ ls, (joinWith '\t' fs).isEmpty = false := by
    intro fs hfs
    have := hcnt fs hfs
    cases hj : joinWith '\t' fs with
    | nil => rw [hj] at this; simp at this; omega
    | cons a b => rfl
  have htext : text ls = ((ls.map (joinWith '\t')).map (· ++ ['\n'])).flatten := by
    simp [text, List.map_map, Function.comp_def]
  have hlines : linesOf (text ls) = ls.map (joinWith '\t') := by
    unfold linesOf
    rw [htext, splitOn_lines _ (by
      intro l hl; rcases List.mem_map.1 hl with ⟨fs, hfs, rfl⟩; exact hnl fs hfs)]
    rw [List.filter_append]
    have : (ls.map (joinWith '\t')).filter (fun l => !l.isEmpty) = ls.map (joinWith '\t') := by
      apply List.filter_eq_self.2
      intro l hl; rcases List.mem_map.1 hl with ⟨fs, hfs, rfl⟩; simp [hnonempty fs hfs]
    rw [this]; simp
  cases ls with
  | nil => exact absurd rfl hne
  | cons l0 rest =>
    have hraw : text (l0 :: rest) = joinWith '\t' l0 ++ '\n' :: text rest := by simp [text]
    have hfirst : firstLine (text (l0 :: rest)) = some (joinWith '\t' l0) := by
      unfold firstLine
      rw [if_pos (by rw [hraw]; simp), hraw, takeWhile_noc (hnl l0 (by simp))]
    have hdet : detect (text (l0 :: rest)) = .ok cols := by
      unfold detect; rw [hfirst]; simp only; rw [hcnt l0 (by simp), hcols]
    have hemp : (text (l0 :: rest)).isEmpty = false := by rw [hraw]; cases joinWith '\t' l0 <;> rfl
    unfold parse
    rw [hemp, hdet, hlines]
    simp only [Bool.false_eq_true, if_false, List.map_map]
    congr 2
    apply List.map_congr_left
    intro fs hfs
    simp only [Function.comp]
    rw [splitOn_join fs (by intro e; have := hlen fs hfs; simp [e] at this)
      (fun f hf => (hch fs hfs f hf).1), hclen]
    exact rowOf_full rd (hlen fs hfs)

end CnvVerif.C09Cols
