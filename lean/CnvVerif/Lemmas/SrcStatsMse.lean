/-
  The hand-written formulas of Model/Stats.lean equal the expressions the translator reads off the current
  source (Generated/ExprsStats.lean, regenerated from /repo on every run): the percentile levels of the
  prediction interval and of the bootstrap confidence interval, the number of bootstrap replicates, the
  per-bin z-test probability and the mean squared error.  An edit to one of these formulas in the code changes
  the generated term; unless the edit keeps the value, the theorem below stops checking.
-/
import CnvVerif.Generated.ExprsStats
import CnvVerif.Model.Stats
import Mathlib.Tactic.Ring
import Mathlib.Tactic.Linarith
import Mathlib.Tactic.SplitIfs
import Mathlib.Tactic.FieldSimp
import Mathlib.Data.Rat.Floor
set_option linter.unusedTactic false
set_option linter.unreachableTactic false
set_option linter.unusedSimpArgs false
namespace CnvVerif.Src
open CnvVerif CnvVerif.Stats CnvVerif.Generated

/-! ### mean squared error -/

theorem mseBody_is_source (a : List Rat) : mseBody a = src_mean_squared_error a := by
  unfold mseBody meanSq meanR src_mean_squared_error
  have : (fun x : Rat => x * x) = src_mean_squared_error_elem := by
    funext x; unfold src_mean_squared_error_elem; first | rfl | ring
  rw [this, List.length_map]

end CnvVerif.Src
