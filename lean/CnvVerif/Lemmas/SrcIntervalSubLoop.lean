/-
  C06 tie to the source TEXT -- subtract: the BODY of the keeper loop of `_subtraction` (Generated/ExprsSubLoop.lean, read by
  harness/subloop.py): the `keep_left` / `keep_right` tests, which of the four `np.r_` assemblies of `starts` / `ends` is
  taken when (and the fifth case, `continue`), the `zip` loop with its `end > start` test, `yield keeper`.
  The model's `subtractRow` (Model/Interval.lean), read as the list of its (start, end) pairs, EQUALS it.
-/
import CnvVerif.Generated.ExprsSubLoop
import CnvVerif.Model.Interval
import Mathlib.Tactic.SplitIfs
set_option linter.unusedSimpArgs false
set_option linter.unusedVariables false
namespace CnvVerif.Src
open CnvVerif CnvVerif.Generated

/-- the model's "filter the pairs, then replace start / end of the keeper" is the source's loop over `zip(starts, ends)`
    that yields `keeper._replace(start=start, end=end)` when `end > start` -/
theorem subLoop_filter_pairs (k : Row) (l : List (Int × Int)) :
    ((l.filter (fun p => p.2 > p.1)).map (fun p => ({ k with s := p.1, e := p.2 } : Row))).map (fun x => (x.s, x.e)) =
      l.flatMap (fun p => if p.2 > p.1 then [(p.1, p.2)] else []) := by
  induction l with
  | nil => rfl
  | cons a l ih =>
    rw [List.flatMap_cons, ← ih]
    by_cases h : a.2 > a.1 <;> simp [List.filter_cons, h]

/-- the last element of a mapped non-empty list -/
theorem subLoop_getLastD_map (g : Row → Int) : ∀ (t : List Row) (f : Row) (d : Int) (d' : Row),
    ((f :: t).map g).getLastD d = g (((f :: t).getLast?).getD d')
  | [], f, d, d' => by simp
  | a :: t, f, d, d' => by
    have ih := subLoop_getLastD_map g t a (g f) d'
    simp only [List.map_cons, List.getLastD_cons, List.getLast?_cons_cons] at ih ⊢
    exact ih

/-- every row `subtractRow` yields is the keeper with `start` / `end` replaced -/
theorem subtractRow_fields (k : Row) (ex : List Row) : ∀ x ∈ subtractRow k ex, { x with s := k.s, e := k.e } = k := by
  intro x hx
  cases ex with
  | nil => simp only [subtractRow, List.mem_singleton] at hx; subst hx; rfl
  | cons f t =>
    simp only [subtractRow, List.mem_map] at hx
    obtain ⟨p, _, rfl⟩ := hx
    rfl

/-- `_subtraction`, the body of the keeper loop: the model's `subtractRow` yields the (start, end) pairs the source yields -/
theorem subtractRow_is_source_loop (k : Row) (ex : List Row) :
    (subtractRow k ex).map (fun x => (x.s, x.e)) = src_subloop_body k.s k.e (ex.map (·.s)) (ex.map (·.e)) := by
  cases ex with
  | nil => simp [subtractRow, src_subloop_body]
  | cons f t =>
    have hl := subLoop_getLastD_map (·.e) t f 0 f
    have hlen : (List.map (·.s) (f :: t)).length ≠ 0 := by simp
    have hgt : (List.map (·.s) (f :: t)).length > 1 ↔ (f :: t).length > 1 := by simp
    unfold subtractRow src_subloop_body
    simp only [subLoop_filter_pairs, hlen, ne_eq, not_false_eq_true, if_true, hl, List.append_nil]
    simp only [List.map_cons, List.headD_cons, List.singleton_append, List.length_cons, List.length_map,
      Bool.and_eq_true, decide_eq_true_eq, Bool.decide_and, gt_iff_lt]
    split_ifs <;> first | rfl | simp_all

end CnvVerif.Src
